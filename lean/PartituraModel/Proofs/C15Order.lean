/-
C15 helper lemmas, part 6 (round 2): the stable insertion sort that models the iteration order of the merged part.
-/
import PartituraModel.Proofs.C15Refs

namespace C15
open Model.Merge

theorem mem_insertBy {le : Elem → Elem → Bool} {x z : Elem} {l : List Elem} :
    z ∈ insertBy le x l ↔ z = x ∨ z ∈ l := by
  rw [(insertBy_perm le x l).mem_iff]; simp

/-- inserting into a sorted list keeps it sorted (for a total, transitive order) -/
theorem insertBy_pairwise {le : Elem → Elem → Bool} (htot : ∀ a b, le a b = true ∨ le b a = true)
    (htr : ∀ a b c, le a b = true → le b c = true → le a c = true) (x : Elem) {l : List Elem}
    (hl : l.Pairwise fun a b => le a b = true) : (insertBy le x l).Pairwise fun a b => le a b = true := by
  induction l with
  | nil => simp [insertBy]
  | cons y ys ih =>
    rw [List.pairwise_cons] at hl
    simp only [insertBy]
    split
    · rename_i hxy
      refine List.Pairwise.cons ?_ (List.Pairwise.cons hl.1 hl.2)
      intro z hz
      rcases List.mem_cons.mp hz with rfl | hz
      · exact hxy
      · exact htr _ _ _ hxy (hl.1 z hz)
    · rename_i hxy
      have hyx : le y x = true := by
        rcases htot x y with h | h
        · exact absurd h hxy
        · exact h
      refine List.Pairwise.cons ?_ (ih hl.2)
      intro z hz
      rcases mem_insertBy.mp hz with rfl | hz
      · exact hyx
      · exact hl.1 z hz

theorem isort_pairwise {le : Elem → Elem → Bool} (htot : ∀ a b, le a b = true ∨ le b a = true)
    (htr : ∀ a b c, le a b = true → le b c = true → le a c = true) (l : List Elem) :
    (isort le l).Pairwise fun a b => le a b = true := by
  induction l with
  | nil => simp [isort]
  | cons x xs ih =>
    have : isort le (x :: xs) = insertBy le x (isort le xs) := rfl
    rw [this]
    exact insertBy_pairwise htot htr x ih

/-- stability: among elements that compare as equal (a class `P` of mutually `le` elements) the order is kept -/
theorem insertBy_filter (le : Elem → Elem → Bool) (P : Elem → Bool)
    (hP : ∀ a b, P a = true → P b = true → le a b = true) (x : Elem) (l : List Elem) :
    (insertBy le x l).filter P = (x :: l).filter P := by
  induction l with
  | nil => simp [insertBy]
  | cons y ys ih =>
    simp only [insertBy]
    split
    · rfl
    · rename_i hxy
      cases hx : P x with
      | false =>
        simp only [List.filter_cons, hx] at ih ⊢
        rw [ih]; simp
      | true =>
        have hy : P y = false := by
          cases hy : P y with
          | false => rfl
          | true => exact absurd (hP x y hx hy) hxy
        simp only [List.filter_cons, hx, hy] at ih ⊢
        rw [ih]; simp

theorem isort_filter (le : Elem → Elem → Bool) (P : Elem → Bool)
    (hP : ∀ a b, P a = true → P b = true → le a b = true) (l : List Elem) :
    (isort le l).filter P = l.filter P := by
  induction l with
  | nil => simp [isort]
  | cons x xs ih =>
    have : isort le (x :: xs) = insertBy le x (isort le xs) := rfl
    rw [this, insertBy_filter le P hP, List.filter_cons, List.filter_cons, ih]

theorem iterLe_total (a b : Elem) : iterLe a b = true ∨ iterLe b a = true := by
  simp only [iterLe, Bool.or_eq_true, Bool.and_eq_true, decide_eq_true_eq, beq_iff_eq]
  omega

theorem iterLe_trans (a b c : Elem) (h1 : iterLe a b = true) (h2 : iterLe b c = true) : iterLe a c = true := by
  simp only [iterLe, Bool.or_eq_true, Bool.and_eq_true, decide_eq_true_eq, beq_iff_eq] at *
  omega

end C15
