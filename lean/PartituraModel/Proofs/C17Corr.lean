/-
C17: the square-root-free comparison `better` of Model/KeyEst.lean orders two keys exactly as
their Pearson correlations with the histogram are ordered (over the reals).
-/
import PartituraModel.Model.KeyEst
import Mathlib.Analysis.Real.Sqrt
import Mathlib.Tactic.Linarith
import Mathlib.Tactic.Ring
import Mathlib.Tactic.Positivity

namespace C17K
open Model Model.KeyEst

/-- t ↦ sgn(t)·t² over the reals -/
noncomputable def sgnSqR (c : ℝ) : ℝ := if c < 0 then -(c * c) else c * c

theorem sgnSqR_lt_iff (x y : ℝ) : sgnSqR x < sgnSqR y ↔ x < y := by
  unfold sgnSqR
  by_cases hx : x < 0 <;> by_cases hy : y < 0
  · rw [if_pos hx, if_pos hy]
    constructor
    · intro h; by_contra hc; rw [not_lt] at hc; nlinarith
    · intro h; nlinarith
  · rw [if_pos hx, if_neg hy]
    rw [not_lt] at hy
    constructor
    · intro _; linarith
    · intro _; nlinarith [mul_pos_of_neg_of_neg hx hx, mul_nonneg hy hy]
  · rw [if_neg hx, if_pos hy]
    rw [not_lt] at hx
    constructor
    · intro h; nlinarith [mul_pos_of_neg_of_neg hy hy, mul_nonneg hx hx]
    · intro h; linarith
  · rw [if_neg hx, if_neg hy]
    rw [not_lt] at hx hy
    constructor
    · intro h; by_contra hc; rw [not_lt] at hc; nlinarith
    · intro h; nlinarith

theorem sgnSqR_mul (c a : ℝ) (ha : 0 < a) : sgnSqR (c * a) = sgnSqR c * (a * a) := by
  unfold sgnSqR
  have : c * a < 0 ↔ c < 0 := by
    constructor
    · intro h; by_contra hc; rw [not_lt] at hc; nlinarith [mul_nonneg hc (le_of_lt ha)]
    · intro h; exact mul_neg_of_neg_of_pos h ha
  by_cases hc : c < 0
  · rw [if_pos hc, if_pos (this.mpr hc)]; ring
  · rw [if_neg hc, if_neg (fun e => hc (this.mp e))]; ring

/-- Pearson correlations c/√(vx·v) of two keys compare as sgn(c)c²·v' compare (vx, va, vb > 0) -/
theorem corr_order (ca cb va vb vx : ℝ) (hx : 0 < vx) (ha : 0 < va) (hb : 0 < vb) :
    cb / Real.sqrt (vx * vb) < ca / Real.sqrt (vx * va) ↔ sgnSqR cb * va < sgnSqR ca * vb := by
  have hA : 0 < Real.sqrt (vx * va) := Real.sqrt_pos.mpr (mul_pos hx ha)
  have hB : 0 < Real.sqrt (vx * vb) := Real.sqrt_pos.mpr (mul_pos hx hb)
  have hAA : Real.sqrt (vx * va) * Real.sqrt (vx * va) = vx * va := Real.mul_self_sqrt (le_of_lt (mul_pos hx ha))
  have hBB : Real.sqrt (vx * vb) * Real.sqrt (vx * vb) = vx * vb := Real.mul_self_sqrt (le_of_lt (mul_pos hx hb))
  rw [div_lt_div_iff₀ hB hA, ← sgnSqR_lt_iff, sgnSqR_mul _ _ hA, sgnSqR_mul _ _ hB, hAA, hBB]
  constructor
  · intro h
    have : vx * (sgnSqR cb * va) < vx * (sgnSqR ca * vb) := by nlinarith
    exact lt_of_mul_lt_mul_left this (le_of_lt hx)
  · intro h
    have := mul_lt_mul_of_pos_left h hx
    nlinarith

theorem sgnSq_cast (c : ℚ) : ((sgnSq c : ℚ) : ℝ) = sgnSqR (c : ℝ) := by
  unfold sgnSq sgnSqR
  by_cases h : c < 0
  · have h' : (c : ℝ) < 0 := by exact_mod_cast h
    rw [if_pos h, if_pos h']; push_cast; ring
  · have h' : ¬ (c : ℝ) < 0 := by
      intro e; apply h; exact_mod_cast e
    rw [if_neg h, if_neg h']; push_cast; ring

/-- the model's comparison of two key scores IS the comparison of the two correlation coefficients -/
theorem better_iff_corr (ca cb va vb vx : ℚ) (hx : 0 < vx) (ha : 0 < va) (hb : 0 < vb) :
    better (sgnSq ca, va) (sgnSq cb, vb) = true ↔
      (cb : ℝ) / Real.sqrt ((vx : ℝ) * vb) < (ca : ℝ) / Real.sqrt ((vx : ℝ) * va) := by
  rw [corr_order (ca : ℝ) cb va vb vx (by exact_mod_cast hx) (by exact_mod_cast ha) (by exact_mod_cast hb)]
  simp only [better, decide_eq_true_eq, gt_iff_lt]
  rw [← sgnSq_cast, ← sgnSq_cast]
  constructor
  · intro h; exact_mod_cast h
  · intro h; exact_mod_cast h

/-- the variance of every shipped key profile is positive (whole table: 3 sets x 24 rows) -/
theorem profile_variance_pos : ∀ ps : ProfileSet, ∀ i, i < 24 →
    0 < cov12 (keyProfile ps i) (keyProfile ps i) := by
  intro ps
  cases ps <;> decide +kernel

end C17K
