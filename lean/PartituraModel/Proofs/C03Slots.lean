/-
C03 — wedges and dashes: the importer's pairing through `ongoing[("wedge", n)]` / `ongoing[("dashes", n)]` on the numbers
the exporter's counter hands out.
-/
import PartituraModel.Model.XmlDir
import PartituraModel.Proofs.C03Ranges

namespace C03.Slots
open Model.Ranges Model.XmlDir C03.Ranges

theorem lookup_filter (k n : Nat) (l : List (Nat × Nat)) :
    Model.lookup k (l.filter (·.1 ≠ n)) = if k = n then none else Model.lookup k l := by
  induction l with
  | nil => simp [Model.lookup]
  | cons x r ih =>
    obtain ⟨a, b⟩ := x
    by_cases ha : a = n
    · subst ha
      simp only [ne_eq, not_true_eq_false, decide_false, Bool.false_eq_true, not_false_eq_true, List.filter_cons_of_neg]
      rw [ih]
      by_cases hk : k = a
      · simp [hk]
      · have : ¬ a = k := fun e => hk e.symm
        simp [hk, Model.lookup, this]
    · simp only [ne_eq, ha, not_false_eq_true, decide_true, List.filter_cons_of_pos, Model.lookup]
      by_cases hak : a = k
      · subst hak; simp [ha]
      · simp only [hak, if_false]; exact ih

section
variable (tbl : Nat → Rng)

/-- the importer's slots hold, under every number, the start element of the open range that carries it -/
def Agree (slots : List (Nat × Nat)) (S : Open) : Prop :=
  ∀ k, Model.lookup k slots = (S.find? fun x => x.2.2 = k).map fun x => (tbl x.1).sN

theorem find_num_of_mem {S : Open} (h : SInv S) {r : Nat} {t : Bool} {n : Nat} (hm : (r, t, n) ∈ S) :
    (S.find? fun x => x.2.2 = n) = some (r, t, n) := by
  induction S with
  | nil => cases hm
  | cons x rest ih =>
    have hnums : ∀ y ∈ rest, y.2.2 ≠ x.2.2 := by
      have := h.nums
      simp only [List.map_cons, List.nodup_cons, List.mem_map, not_exists, not_and] at this
      intro y hy heq
      exact this.1 y hy heq
    rcases List.mem_cons.mp hm with hx | hx
    · subst hx; simp
    · have hne : ¬ (x.2.2 = n) := fun hxe => hnums (r, t, n) hx hxe.symm
      rw [List.find?_cons_of_neg (by simpa using hne)]
      exact ih ⟨(List.nodup_cons.mp h.ids).2, (List.nodup_cons.mp h.nums).2⟩ hx

theorem find_eraseS {S : Open} (h : SInv S) {r : Nat} {t : Bool} {n : Nat} (hm : (r, t, n) ∈ S) (k : Nat) :
    ((eraseS r S).find? fun x => x.2.2 = k) = if k = n then none else S.find? fun x => x.2.2 = k := by
  induction S with
  | nil => cases hm
  | cons x rest ih =>
    have hids := List.nodup_cons.mp h.ids
    have hnums := List.nodup_cons.mp h.nums
    have hrest : SInv rest := ⟨hids.2, hnums.2⟩
    unfold eraseS
    by_cases hx : x.1 = r
    · -- x is the entry of r
      have hxe : x = (r, t, n) := by
        rcases List.mem_cons.mp hm with h1 | h1
        · exact h1.symm
        · exact absurd (List.mem_map.mpr ⟨(r, t, n), h1, hx.symm⟩) hids.1
      simp only [hx, if_true]
      by_cases hk : k = n
      · simp only [hk, if_true]
        rw [List.find?_eq_none]
        intro y hy hyn
        simp at hyn
        apply hnums.1
        rw [hxe]
        exact List.mem_map.mpr ⟨y, hy, hyn⟩
      · have : ¬ (x.2.2 = k) := by rw [hxe]; exact fun e => hk e.symm
        simp only [hk, if_false]
        rw [List.find?_cons_of_neg (by simpa using this)]
    · simp only [hx, if_false]
      have hmr : (r, t, n) ∈ rest := by
        rcases List.mem_cons.mp hm with h1 | h1
        · exact absurd (by rw [← h1]) hx
        · exact h1
      by_cases hxk : x.2.2 = k
      · have hkn : k ≠ n := by
          intro e
          have : x.2.2 ∈ rest.map (·.2.2) := by
            rw [hxk, e]; exact List.mem_map.mpr ⟨(r, t, n), hmr, rfl⟩
          exact hnums.1 this
        simp [hxk, hkn]
      · rw [List.find?_cons_of_neg (by simpa using hxk), List.find?_cons_of_neg (by simpa using hxk)]
        exact ih hrest hmr

/-- every range is met first at its start (wedges and dashes start before they stop in the document) -/
def StartFirst : Open → List REv → Prop
  | _, [] => True
  | S, e :: rest => (lookupS e.1 S = none → e.2 = true) ∧ StartFirst (stepS S e).1 rest

/-- all open ranges were opened by their start -/
def AllStarts (S : Open) : Prop := ∀ x ∈ S, x.2.1 = true

theorem slots_marksOf (label : Nat) :
    ∀ (evs : List REv) (S : Open) (closed : List Nat) (slots : List (Nat × Nat)) (done : List (Nat × Nat)),
      SInv S → AllStarts S → Agree tbl slots S → WFEvs S closed evs → StartFirst S evs →
      ((marksOf label tbl (cOf label S) evs).foldl slotStep (slots, done)).2 =
          done ++ (closedBy S evs).map (fun r => ((tbl r).sN, (tbl r).eN)) ∧
        Agree tbl ((marksOf label tbl (cOf label S) evs).foldl slotStep (slots, done)).1 (finalS S evs) := by
  intro evs
  induction evs with
  | nil =>
    intro S closed slots done _ _ hag _ _
    simp [marksOf, closedBy, finalS, hag]
  | cons e rest ih =>
    intro S closed slots done hS hall hag hwf hsf
    obtain ⟨hhead, hrest⟩ := hwf
    obtain ⟨hfirst, hsfrest⟩ := hsf
    simp only [marksOf, List.foldl_cons]
    rw [toggle_cOf]
    simp only
    have hS' := sinv_step hS e
    obtain ⟨r, isStart⟩ := e
    have hstep : ∃ slots1, slotStep (slots, done) (markOf tbl (r, isStart) (stepS S (r, isStart)).2.1) =
        (slots1, done ++ (match (stepS S (r, isStart)).2.2 with | some r => [r] | none => []).map
          (fun r => ((tbl r).sN, (tbl r).eN))) ∧ Agree tbl slots1 (stepS S (r, isStart)).1 ∧
        AllStarts (stepS S (r, isStart)).1 := by
      unfold stepS
      simp only at hhead hfirst ⊢
      cases hl : lookupS r S with
      | some tn =>
        obtain ⟨t, n⟩ := tn
        simp only [hl] at hhead
        have hm := lookupS_mem hl
        have ht : t = true := hall _ hm
        subst ht
        have hst : isStart = false := by cases isStart <;> simp_all
        subst hst
        have hfound := find_num_of_mem hS hm
        refine ⟨slots.filter (·.1 ≠ n), ?_, ?_, ?_⟩
        · simp [slotStep, markOf, hag n, hfound]
        · intro k
          rw [lookup_filter, find_eraseS hS hm, hag k]
          by_cases hk : k = n <;> simp [hk]
        · intro x hx
          exact hall x ((eraseS_sublist r S).subset hx)
      | none =>
        have hst : isStart = true := hfirst hl
        subst hst
        have hfree := (smallestFree_spec (S.map (·.2.2))).1
        refine ⟨(smallestFree (S.map (·.2.2)), (tbl r).sN) :: slots.filter (·.1 ≠ smallestFree (S.map (·.2.2))), ?_, ?_, ?_⟩
        · simp [slotStep, markOf]
        · intro k
          rw [List.find?_append]
          by_cases hk : k = smallestFree (S.map (·.2.2))
          · subst hk
            have : (S.find? fun x => x.2.2 = smallestFree (S.map (·.2.2))) = none := by
              rw [List.find?_eq_none]
              intro x hx hxe
              simp at hxe
              exact hfree (List.mem_map.mpr ⟨x, hx, hxe⟩)
            simp [Model.lookup, this]
          · have hne : ¬ smallestFree (S.map (·.2.2)) = k := fun e => hk e.symm
            simp only [Model.lookup, hne, if_false, lookup_filter, hk, hag k]
            cases S.find? fun x => x.2.2 = k <;> simp [hne]
        · intro x hx
          rcases List.mem_append.mp hx with h1 | h1
          · exact hall x h1
          · simp at h1; subst h1; rfl
    obtain ⟨slots1, hst1, hag1, hall1⟩ := hstep
    rw [hst1]
    obtain ⟨ihd, iha⟩ := ih (stepS S (r, isStart)).1 _ slots1 _ hS' hall1 hag1 hrest hsfrest
    refine ⟨?_, iha⟩
    rw [ihd]
    simp only [closedBy, List.map_append, List.append_assoc]
    rfl

end

end C03.Slots
