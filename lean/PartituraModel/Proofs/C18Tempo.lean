/-
C18 — the tempo curves.  Truncation (`encKey`) is monotone, so the onset groups are separated and
the unique score onsets strictly increasing; `last_time` lies after every onset; the points
`monotonize_times` keeps are a subsequence with strictly increasing values and always contain the
last point; linear interpolation through strictly increasing knots is strictly increasing.
Hence `tempo_by_average` and `tempo_by_derivative` return positive beat periods.
-/
import PartituraModel.Proofs.C18Roundtrip
import PartituraModel.Proofs.C18Interp
import Mathlib.Data.Rat.Floor

namespace C18P
open Model Model.Codec

-- ------------------------------------------------------------------ truncation

/-- truncation toward zero of a rational -/
def truncR (x : Rat) : Int := Int.tdiv x.num (x.den : Int)

theorem truncR_nonneg (x : Rat) (h : 0 ≤ x) : 0 ≤ truncR x ∧ (truncR x : Rat) ≤ x ∧ x < (truncR x : Rat) + 1 := by
  have hn : 0 ≤ x.num := Rat.num_nonneg.mpr h
  have e : truncR x = ⌊x⌋ := by
    unfold truncR
    rw [Int.tdiv_eq_ediv_of_nonneg hn, Rat.floor_def']
  rw [e]
  refine ⟨Int.floor_nonneg.mpr h, Int.floor_le x, Int.lt_floor_add_one x⟩

theorem truncR_neg (x : Rat) : truncR (-x) = - truncR x := by
  unfold truncR
  rw [Rat.den_neg_eq_den, Rat.num_neg_eq_neg_num, Int.neg_tdiv]

theorem truncR_nonpos (x : Rat) (h : x ≤ 0) : truncR x ≤ 0 ∧ x ≤ (truncR x : Rat) ∧ (truncR x : Rat) - 1 < x := by
  obtain ⟨h1, h2, h3⟩ := truncR_nonneg (-x) (by linarith)
  rw [truncR_neg] at h1 h2 h3
  push_cast at h2 h3
  refine ⟨by omega, by linarith, by linarith⟩

theorem truncR_mono (x y : Rat) (h : x ≤ y) : truncR x ≤ truncR y := by
  by_cases hx : 0 ≤ x
  · obtain ⟨_, a2, _⟩ := truncR_nonneg x hx
    obtain ⟨_, _, b3⟩ := truncR_nonneg y (le_trans hx h)
    have : (truncR x : Rat) < (truncR y : Rat) + 1 := by linarith
    have : truncR x < truncR y + 1 := by exact_mod_cast this
    omega
  · have hx' : x ≤ 0 := le_of_lt (not_le.mp hx)
    by_cases hy : 0 ≤ y
    · have := (truncR_nonpos x hx').1
      have := (truncR_nonneg y hy).1
      omega
    · have hy' : y ≤ 0 := le_of_lt (not_le.mp hy)
      obtain ⟨_, _, a3⟩ := truncR_nonpos x hx'
      obtain ⟨_, b2, _⟩ := truncR_nonpos y hy'
      have : (truncR x : Rat) - 1 < (truncR y : Rat) := by linarith
      have : truncR x - 1 < truncR y := by exact_mod_cast this
      omega

theorem encKey_eq (so : Rat) : encKey so = ((truncR (10000 * so) : Int) : Rat) := rfl

theorem encKey_mono (a b : Rat) (h : a ≤ b) : encKey a ≤ encKey b := by
  rw [encKey_eq, encKey_eq]
  exact_mod_cast truncR_mono _ _ (by linarith)

theorem lt_of_encKey_lt (a b : Rat) (h : encKey a < encKey b) : a < b := by
  by_contra hc
  exact absurd (encKey_mono b a (not_lt.mp hc)) (not_le.mpr h)

-- ------------------------------------------------------------------ separated runs

variable {α : Type}

/-- the runs of a list sorted by `key`, broken where the key rises by more than `c ≥ 0`, are
    separated: every key of an earlier run lies below every key of a later run -/
theorem runs_separated (key : α → Rat) (c : Rat) (hc : 0 ≤ c) (l : List α)
    (hs : l.Pairwise (fun a b => key a ≤ key b)) :
    (runs (fun a b => decide (key b - key a > c)) l).Pairwise
      (fun g h => ∀ a ∈ g, ∀ b ∈ h, key a < key b) := by
  induction l with
  | nil => simp [runs]
  | cons a rest ih =>
    cases rest with
    | nil => simp [runs]
    | cons b t =>
      have hs' := List.pairwise_cons.mp hs
      have ih' := ih hs'.2
      obtain ⟨g, gs, h1, h2⟩ := runs_cons_cons (fun a b => decide (key b - key a > c)) a b t
      have hfl : (g :: gs).flatten = b :: t := by rw [← h1]; exact runs_flatten _ _
      rw [h2]
      rw [h1] at ih'
      split
      · rename_i hb
        simp only [decide_eq_true_eq] at hb
        refine List.pairwise_cons.mpr ⟨?_, ih'⟩
        intro h hh x hx y hy
        rw [List.mem_singleton] at hx
        subst hx
        have hy' : y ∈ b :: t := by rw [← hfl]; exact List.mem_flatten.mpr ⟨h, hh, hy⟩
        have hby : key b ≤ key y := by
          rcases List.mem_cons.mp hy' with rfl | hyt
          · exact le_refl _
          · exact (List.pairwise_cons.mp hs'.2).1 y hyt
        linarith
      · have ih'' := List.pairwise_cons.mp ih'
        refine List.pairwise_cons.mpr ⟨?_, ih''.2⟩
        intro h hh x hx y hy
        rcases List.mem_cons.mp hx with rfl | hxg
        · have hgne : g ≠ [] := by
            have := runs_ne_nil (fun a b => decide (key b - key a > c)) (b :: t) g (by rw [h1]; simp)
            exact this
          obtain ⟨z, hz⟩ := List.exists_mem_of_ne_nil g hgne
          have hz' : z ∈ b :: t := by rw [← hfl]; exact List.mem_flatten.mpr ⟨g, by simp, hz⟩
          have : key x ≤ key z := hs'.1 z hz'
          have := ih''.1 h hh z hz y hy
          linarith
        · exact ih''.1 h hh x hxg y hy

-- ------------------------------------------------------------------ means

theorem sumR_lt (l : List Rat) (c : Rat) (hne : l ≠ []) (h : ∀ x ∈ l, x < c) : sumR l < c * (l.length : Rat) := by
  induction l with
  | nil => exact absurd rfl hne
  | cons a as ih =>
    cases as with
    | nil =>
      have := h a (by simp)
      simp [sumR]; linarith
    | cons b bs =>
      have h1 := h a (by simp)
      have h2 := ih (by simp) (fun x hx => h x (List.mem_cons_of_mem _ hx))
      simp only [sumR, List.length_cons] at h2 ⊢
      push_cast at h2 ⊢
      linarith

theorem mean_lt (l : List Rat) (c : Rat) (hne : l ≠ []) (h : ∀ x ∈ l, x < c) : mean l < c := by
  unfold mean
  have hl : (0 : Rat) < (l.length : Rat) := by
    have : 0 < l.length := List.length_pos_iff.mpr hne
    exact_mod_cast this
  rw [div_lt_iff₀ hl]
  exact sumR_lt l c hne h

theorem sumR_neg_map (l : List Rat) : sumR (l.map fun x => -x) = - sumR l := by
  induction l with
  | nil => simp [sumR]
  | cons a as ih => simp only [List.map_cons, sumR, ih]; ring

theorem lt_mean (l : List Rat) (c : Rat) (hne : l ≠ []) (h : ∀ x ∈ l, c < x) : c < mean l := by
  have := mean_lt (l.map fun x => -x) (-c) (by simpa using hne) (by
    intro y hy
    obtain ⟨x, hx, rfl⟩ := List.mem_map.mp hy
    have := h x hx
    linarith)
  unfold mean at this ⊢
  rw [sumR_neg_map, List.length_map, neg_div] at this
  linarith

-- ------------------------------------------------------------------ maxima, last_time

theorem le_maxL (a : Rat) (l : List Rat) : a ≤ maxL a l := by
  induction l generalizing a with
  | nil => simp [maxL]
  | cons b bs ih =>
    simp only [maxL]
    split
    · exact le_trans (le_of_lt ‹a < b›) (ih b)
    · exact ih a

theorem mem_le_maxL (a : Rat) (l : List Rat) (x : Rat) (hx : x ∈ l) : x ≤ maxL a l := by
  induction l generalizing a with
  | nil => simp at hx
  | cons b bs ih =>
    simp only [maxL]
    rcases List.mem_cons.mp hx with rfl | hx
    · split
      · exact le_maxL _ _
      · rename_i h
        exact le_trans (not_lt.mp h) (le_maxL _ _)
    · exact ih _ hx

theorem maxL_mem (a : Rat) (l : List Rat) : maxL a l ∈ a :: l := by
  induction l generalizing a with
  | nil => simp [maxL]
  | cons b bs ih =>
    simp only [maxL]
    split
    · exact List.mem_cons_of_mem _ (ih b)
    · rcases List.mem_cons.mp (ih a) with h | h
      · rw [h]; simp
      · exact List.mem_cons_of_mem _ (List.mem_cons_of_mem _ h)

/-- `last_time` of `get_unique_seq` lies strictly after every onset when no offset precedes its onset -/
theorem lastTime_gt (l : List α) (f g : α → Rat) (hfg : ∀ x ∈ l, f x ≤ g x) (t : Rat)
    (h : lastTime (l.map f) (l.map g) = some t) : ∀ x ∈ l, f x < t := by
  cases l with
  | nil => simp [lastTime] at h
  | cons a as =>
    simp only [List.map_cons, lastTime, Option.some.injEq] at h
    have hmo : ∀ x ∈ a :: as, f x ≤ maxL (f a) (as.map f) := by
      intro x hx
      rcases List.mem_cons.mp hx with rfl | hx
      · exact le_maxL _ _
      · exact mem_le_maxL _ _ _ (List.mem_map.mpr ⟨x, hx, rfl⟩)
    have hle : maxL (f a) (as.map f) ≤ maxL (g a) (as.map g) := by
      have hm := maxL_mem (f a) (as.map f)
      rw [← List.map_cons] at hm
      obtain ⟨y, hy, hye⟩ := List.mem_map.mp hm
      rw [← hye]
      refine le_trans (hfg y hy) ?_
      rcases List.mem_cons.mp hy with rfl | hy
      · exact le_maxL _ _
      · exact mem_le_maxL _ _ _ (List.mem_map.mpr ⟨y, hy, rfl⟩)
    intro x hx
    have := hmo x hx
    rw [← h]
    split
    · linarith
    · rename_i hne
      -- not close: the latest offset exceeds the latest onset by more than the (non-negative) tolerance
      have hne' : ¬ (absR (maxL (f a) (as.map f) - maxL (g a) (as.map g))
          ≤ 1 / 100000000 + 1 / 100000 * absR (maxL (g a) (as.map g))) := by
        simpa [isClose] using hne
      have habs : ∀ y : Rat, 0 ≤ absR y := by
        intro y; unfold absR; split <;> linarith
      have hd : absR (maxL (f a) (as.map f) - maxL (g a) (as.map g))
          = maxL (g a) (as.map g) - maxL (f a) (as.map f) := by
        unfold absR
        split
        · ring
        · rename_i h0
          have : maxL (f a) (as.map f) - maxL (g a) (as.map g) = 0 := le_antisymm (by linarith) (not_lt.mp h0)
          linarith
      rw [hd] at hne'
      have := habs (maxL (g a) (as.map g))
      have : maxL (f a) (as.map f) < maxL (g a) (as.map g) := by
        by_contra hc
        apply hne'
        have : maxL (g a) (as.map g) - maxL (f a) (as.map f) = 0 := le_antisymm (by linarith [not_lt.mp hc]) (by linarith)
        rw [this]
        positivity
      linarith

-- ------------------------------------------------------------------ monotone interpolation

theorem linSeg_strictMono (x0 y0 x1 y1 s t : Rat) (hx : x0 < x1) (hy : y0 < y1) (hst : s < t) :
    ∃ p q, linSeg x0 y0 x1 y1 s = some p ∧ linSeg x0 y0 x1 y1 t = some q ∧ p < q := by
  unfold linSeg
  simp only [if_neg (ne_of_gt hx)]
  refine ⟨_, _, rfl, rfl, ?_⟩
  have hsl : 0 < (y1 - y0) / (x1 - x0) := div_pos (sub_pos.mpr hy) (sub_pos.mpr hx)
  have : (y1 - y0) / (x1 - x0) * (s - x0) < (y1 - y0) / (x1 - x0) * (t - x0) :=
    mul_lt_mul_of_pos_left (by linarith) hsl
  linarith

/-- the interpolant through at least two knots, strictly increasing in both coordinates, is defined
    everywhere and strictly increasing (extrapolation included) -/
theorem interpExt_strictMono (ks : List (Rat × Rat)) (k0 k1 : Rat × Rat)
    (hx : IncX (k0 :: k1 :: ks)) (hy : IncY (k0 :: k1 :: ks)) (s t : Rat) (hst : s < t) :
    ∃ p q, interpExt (k0 :: k1 :: ks) s = some p ∧ interpExt (k0 :: k1 :: ks) t = some q ∧ p < q := by
  induction ks generalizing k0 k1 with
  | nil =>
    obtain ⟨x0, y0⟩ := k0
    obtain ⟨x1, y1⟩ := k1
    have h01 : x0 < x1 := (List.pairwise_cons.mp hx).1 (x1, y1) (by simp)
    have g01 : y0 < y1 := (List.pairwise_cons.mp hy).1 (x1, y1) (by simp)
    simp only [interpExt_two]
    exact linSeg_strictMono x0 y0 x1 y1 s t h01 g01 hst
  | cons k2 rest ih =>
    obtain ⟨x0, y0⟩ := k0
    obtain ⟨x1, y1⟩ := k1
    have hx' := List.pairwise_cons.mp hx
    have hy' := List.pairwise_cons.mp hy
    have h01 : x0 < x1 := hx'.1 (x1, y1) (by simp)
    have g01 : y0 < y1 := hy'.1 (x1, y1) (by simp)
    simp only [interpExt_three]
    by_cases ht : t ≤ x1
    · have hs : s ≤ x1 := by linarith
      rw [if_pos ht, if_pos hs]
      exact linSeg_strictMono x0 y0 x1 y1 s t h01 g01 hst
    · rw [if_neg ht]
      by_cases hs : s ≤ x1
      · rw [if_pos hs]
        obtain ⟨p, hp, _, h3, _⟩ := linSeg_inv x0 y0 x1 y1 s h01 g01
        obtain ⟨q, hq, hgt⟩ := interpExt_above rest x1 y1 k2 hx'.2 hy'.2 t (not_le.mp ht)
        exact ⟨p, q, hp, hq, lt_of_le_of_lt (h3.mp hs) hgt⟩
      · rw [if_neg hs]
        exact ih (x1, y1) k2 hx'.2 hy'.2

theorem interpExt_total (ks : List (Rat × Rat)) (k0 k1 : Rat × Rat)
    (hx : IncX (k0 :: k1 :: ks)) (hy : IncY (k0 :: k1 :: ks)) (s : Rat) :
    ∃ p, interpExt (k0 :: k1 :: ks) s = some p := by
  obtain ⟨p, _, hp, _, _⟩ := interpExt_strictMono ks k0 k1 hx hy s (s + 1) (by linarith)
  exact ⟨p, hp⟩

-- ------------------------------------------------------------------ the knots monotonize_times keeps

theorem maskKnots_sublist (m : Rat) (l : List (Rat × Rat)) : (maskKnots m l).Sublist l := by
  induction l generalizing m with
  | nil => simp [maskKnots]
  | cons k rest ih =>
    obtain ⟨x, s⟩ := k
    simp only [maskKnots]
    split
    · exact (ih s).cons_cons _
    · exact (ih m).cons _

theorem monoKnots_sublist (l : List (Rat × Rat)) : (monoKnots l).Sublist l := by
  cases l with
  | nil => simp [monoKnots]
  | cons k rest =>
    obtain ⟨x, s⟩ := k
    simp only [monoKnots]
    exact (maskKnots_sublist s rest).cons_cons _

theorem maskKnots_incY (m : Rat) (l : List (Rat × Rat)) :
    (∀ k ∈ maskKnots m l, m < k.2) ∧ IncY (maskKnots m l) := by
  induction l generalizing m with
  | nil => simp [maskKnots]
  | cons k rest ih =>
    obtain ⟨x, s⟩ := k
    simp only [maskKnots]
    split
    · rename_i hms
      obtain ⟨h1, h2⟩ := ih s
      refine ⟨?_, List.pairwise_cons.mpr ⟨fun k hk => h1 k hk, h2⟩⟩
      intro k hk
      rcases List.mem_cons.mp hk with rfl | hk
      · exact hms
      · exact lt_trans hms (h1 k hk)
    · exact ih m

/-- the values of the kept points are strictly increasing -/
theorem monoKnots_incY (l : List (Rat × Rat)) : IncY (monoKnots l) := by
  cases l with
  | nil => simp [monoKnots]
  | cons k rest =>
    obtain ⟨x, s⟩ := k
    simp only [monoKnots]
    obtain ⟨h1, h2⟩ := maskKnots_incY s rest
    exact List.pairwise_cons.mpr ⟨fun k hk => h1 k hk, h2⟩

theorem monoKnots_incX (l : List (Rat × Rat)) (h : IncX l) : IncX (monoKnots l) :=
  List.Pairwise.sublist (monoKnots_sublist l) h

/-- a point above all earlier ones is kept -/
theorem maskKnots_append_last (m : Rat) (l : List (Rat × Rat)) (k : Rat × Rat) (hm : m < k.2)
    (hl : ∀ a ∈ l, a.2 < k.2) : maskKnots m (l ++ [k]) = maskKnots m l ++ [k] := by
  induction l generalizing m with
  | nil =>
    obtain ⟨x, s⟩ := k
    simp [maskKnots, hm]
  | cons a rest ih =>
    obtain ⟨x, s⟩ := a
    simp only [List.cons_append, maskKnots]
    have has : s < k.2 := hl (x, s) (by simp)
    have hrest : ∀ a ∈ rest, a.2 < k.2 := fun a ha => hl a (List.mem_cons_of_mem _ ha)
    split
    · rw [ih s has hrest]; simp
    · rw [ih m hm hrest]

theorem monoKnots_append_last (l : List (Rat × Rat)) (k : Rat × Rat) (hne : l ≠ [])
    (hl : ∀ a ∈ l, a.2 < k.2) : monoKnots (l ++ [k]) = monoKnots l ++ [k] := by
  cases l with
  | nil => exact absurd rfl hne
  | cons a rest =>
    obtain ⟨x, s⟩ := a
    simp only [List.cons_append, monoKnots]
    rw [maskKnots_append_last s rest k (hl (x, s) (by simp)) (fun a ha => hl a (List.mem_cons_of_mem _ ha))]

/-- when the values are strictly increasing already every point is kept -/
theorem maskKnots_id (m : Rat) (l : List (Rat × Rat)) (hm : ∀ a ∈ l, m < a.2) (h : IncY l) : maskKnots m l = l := by
  induction l generalizing m with
  | nil => simp [maskKnots]
  | cons a rest ih =>
    obtain ⟨x, s⟩ := a
    have h' := List.pairwise_cons.mp h
    simp only [maskKnots]
    rw [if_pos (hm (x, s) (by simp)), ih s (fun a ha => h'.1 a ha) h'.2]

theorem monoKnots_id (l : List (Rat × Rat)) (h : IncY l) : monoKnots l = l := by
  cases l with
  | nil => simp [monoKnots]
  | cons a rest =>
    obtain ⟨x, s⟩ := a
    have h' := List.pairwise_cons.mp h
    simp only [monoKnots]
    rw [maskKnots_id s rest (fun a ha => h'.1 a ha) h'.2]

theorem sortKnots_of_incX (ks : List (Rat × Rat)) (h : IncX ks) : sortKnots ks = ks := by
  unfold sortKnots
  apply isort_of_pairwise
  exact h.imp (fun h => by simpa using le_of_lt h)

theorem zip_incX (xs ys : List Rat) (h : xs.Pairwise (· < ·)) : IncX (xs.zip ys) := by
  induction xs generalizing ys with
  | nil => simp
  | cons x xs ih =>
    cases ys with
    | nil => simp
    | cons y ys =>
      have h' := List.pairwise_cons.mp h
      simp only [List.zip_cons_cons]
      refine List.pairwise_cons.mpr ⟨?_, ih ys h'.2⟩
      intro k hk
      exact h'.1 k.1 (List.of_mem_zip hk).1

theorem zip_incY (xs ys : List Rat) (h : ys.Pairwise (· < ·)) : IncY (xs.zip ys) := by
  induction xs generalizing ys with
  | nil => simp
  | cons x xs ih =>
    cases ys with
    | nil => simp
    | cons y ys =>
      have h' := List.pairwise_cons.mp h
      simp only [List.zip_cons_cons]
      refine List.pairwise_cons.mpr ⟨?_, ih ys h'.2⟩
      intro k hk
      exact h'.1 k.2 (List.of_mem_zip hk).2

-- ------------------------------------------------------------------ the tempo curves

/-- notes of different onset groups: the earlier group's score onsets lie below the later group's -/
theorem encGroups_separated (ns : List MNote) :
    (encGroups ns).Pairwise (fun g h => ∀ a ∈ g, ∀ b ∈ h, a.2.so < b.2.so) := by
  unfold encGroups groupsBy
  have hs := pairwise_isort (fun (a b : Nat × MNote) => decide (encKey a.2.so ≤ encKey b.2.so))
    (by intro a b; simp only [decide_eq_true_eq]; exact le_total _ _)
    (by intro a b c; simp only [decide_eq_true_eq]; exact le_trans) (enumFrom 0 ns)
  have hs' : (isort (fun (a b : Nat × MNote) => decide (encKey a.2.so ≤ encKey b.2.so)) (enumFrom 0 ns)).Pairwise
      (fun a b => encKey a.2.so ≤ encKey b.2.so) := hs.imp (by intro a b h; simpa using h)
  have := runs_separated (fun (p : Nat × MNote) => encKey p.2.so) eps (by unfold eps; norm_num) _ hs'
  exact this.imp (by
    intro g h hgh a ha b hb
    exact lt_of_encKey_lt _ _ (hgh a ha b hb))

theorem mem_encGroups (ns : List MNote) (g : Grp MNote) (hg : g ∈ encGroups ns) (p : Nat × MNote) (hp : p ∈ g) :
    p.2 ∈ ns := by
  have : p ∈ (encGroups ns).flatten := List.mem_flatten.mpr ⟨g, hg, hp⟩
  exact mem_enumFrom_snd 0 ns p ((groupsBy_flatten_perm _ ns).mem_iff.mp this)

/-- the unique score onsets are strictly increasing -/
theorem groupMeans_so_strict (ns : List MNote) :
    (groupMeans (·.so) (encGroups ns)).Pairwise (· < ·) := by
  unfold groupMeans
  rw [List.pairwise_map]
  have hne := groupsBy_ne_nil (fun (n : MNote) => encKey n.so) ns
  apply List.Pairwise.imp_of_mem _ (encGroups_separated ns)
  intro g h hg hh hgh
  have hgne : g ≠ [] := hne g hg
  have hhne : h ≠ [] := hne h hh
  apply mean_lt _ _ (by simpa using hgne)
  intro x hx
  obtain ⟨a, ha, rfl⟩ := List.mem_map.mp hx
  apply lt_mean _ _ (by simpa using hhne)
  intro y hy
  obtain ⟨b, hb, rfl⟩ := List.mem_map.mp hy
  exact hgh a ha b hb

/-- group means lie below anything above all the notes -/
theorem groupMeans_lt (ns : List MNote) (f : MNote → Rat) (t : Rat) (h : ∀ x ∈ ns, f x < t) :
    ∀ m ∈ groupMeans f (encGroups ns), m < t := by
  intro m hm
  unfold groupMeans at hm
  obtain ⟨g, hg, rfl⟩ := List.mem_map.mp hm
  apply mean_lt _ _ (by simpa using groupsBy_ne_nil (fun (n : MNote) => encKey n.so) ns g hg)
  intro x hx
  obtain ⟨a, ha, rfl⟩ := List.mem_map.mp hx
  exact h _ (mem_encGroups ns g hg a ha)

theorem pairwise_append_last (l : List Rat) (t : Rat) (h : l.Pairwise (· < ·)) (ht : ∀ m ∈ l, m < t) :
    (l ++ [t]).Pairwise (· < ·) := by
  rw [List.pairwise_append]
  refine ⟨h, by simp, ?_⟩
  intro a ha b hb
  rw [List.mem_singleton] at hb
  subst hb
  exact ht a ha

/-- mapping a strictly increasing total partial function over a strictly increasing list -/
theorem allSome_map_strictMono (f : Rat → Option Rat)
    (hf : ∀ s t, s < t → ∃ p q, f s = some p ∧ f t = some q ∧ p < q) (xs : List Rat)
    (hxs : xs.Pairwise (· < ·)) :
    ∃ ys, allSome (xs.map f) = some ys ∧ List.Forall₂ (fun x y => f x = some y) xs ys ∧ ys.Pairwise (· < ·) := by
  induction xs with
  | nil => exact ⟨[], rfl, List.Forall₂.nil, List.Pairwise.nil⟩
  | cons x rest ih =>
    have h' := List.pairwise_cons.mp hxs
    obtain ⟨ys, h1, h2, h3⟩ := ih h'.2
    obtain ⟨p, _, hp, _, _⟩ := hf x (x + 1) (by linarith)
    refine ⟨p :: ys, ?_, List.Forall₂.cons hp h2, List.pairwise_cons.mpr ⟨?_, h3⟩⟩
    · simp only [List.map_cons, allSome, hp, h1, Option.map_some]
    · intro y hy
      obtain ⟨i, hi, rfl⟩ := List.getElem_of_mem hy
      have hlen := h2.length_eq
      have hi' : i < rest.length := by omega
      have hfx : f rest[i] = some ys[i] := by
        have := List.forall₂_iff_get.mp h2
        exact this.2 i hi' hi
      have hlt : x < rest[i] := h'.1 _ (List.getElem_mem hi')
      obtain ⟨p', q', hp', hq', hpq⟩ := hf x rest[i] hlt
      rw [hp] at hp'
      rw [hfx] at hq'
      cases hp'; cases hq'
      exact hpq

theorem diffs_pos (l : List Rat) (h : l.Pairwise (· < ·)) : ∀ d ∈ diffs l, 0 < d := by
  induction l with
  | nil => simp [diffs]
  | cons a rest ih =>
    cases rest with
    | nil => simp [diffs]
    | cons b t =>
      have h' := List.pairwise_cons.mp h
      intro d hd
      simp only [diffs, List.mem_cons] at hd
      rcases hd with rfl | hd
      · have := h'.1 b (by simp); linarith
      · exact ih h'.2 d hd

theorem zipWith_div_pos (a b : List Rat) (ha : ∀ x ∈ a, 0 < x) (hb : ∀ x ∈ b, 0 < x) :
    ∀ x ∈ List.zipWith (· / ·) a b, 0 < x := by
  induction a generalizing b with
  | nil => simp
  | cons x xs ih =>
    cases b with
    | nil => simp
    | cons y ys =>
      intro z hz
      simp only [List.zipWith_cons_cons, List.mem_cons] at hz
      rcases hz with rfl | hz
      · exact div_pos (ha x (by simp)) (hb y (by simp))
      · exact ih ys (fun x hx => ha x (List.mem_cons_of_mem _ hx)) (fun x hx => hb x (List.mem_cons_of_mem _ hx)) z hz


theorem exists_two_of_length {α : Type} (l : List α) (h : 2 ≤ l.length) : ∃ a b t, l = a :: b :: t := by
  match l, h with
  | a :: b :: t, _ => exact ⟨a, b, t, rfl⟩

theorem monoKnots_ne_nil (l : List (Rat × Rat)) (h : l ≠ []) : monoKnots l ≠ [] := by
  cases l with
  | nil => exact absurd rfl h
  | cons k rest => obtain ⟨x, s⟩ := k; simp [monoKnots]

/-- what `tempo_by_average` and `tempo_by_derivative` share (`tempoSeqs`), for notes without negative
    durations: the unique score onsets with `last_time` are strictly increasing, and so are the
    monotonized performed times — whatever the performed onsets are -/
theorem tempoSeqs_spec (ns : List MNote) (hne : ns ≠ []) (hsd : ∀ x ∈ ns, 0 ≤ x.sd) (hpd : ∀ x ∈ ns, 0 ≤ x.pd) :
    ∃ xs ss mono, tempoSeqs ns (encGroups ns) = some (xs, ss, mono) ∧
      (∃ ls, xs = groupMeans (·.so) (encGroups ns) ++ [ls]) ∧
      xs.Pairwise (· < ·) ∧ mono.Pairwise (· < ·) ∧
      List.Forall₂ (fun x y => monoFun xs ss x = some y) xs mono := by
  obtain ⟨ls, hls⟩ := lastTime_some ns (·.so) (fun n => n.so + n.sd) hne
  obtain ⟨lp, hlp⟩ := lastTime_some ns (·.po) (fun n => n.po + n.pd) hne
  have hgs0 : encGroups ns ≠ [] := groupsBy_ne_nil_of_ne_nil _ ns hne
  have hso : ∀ x ∈ ns, x.so < ls :=
    lastTime_gt ns (·.so) (fun n => n.so + n.sd) (fun x hx => by have := hsd x hx; linarith) ls hls
  have hpo : ∀ x ∈ ns, x.po < lp :=
    lastTime_gt ns (·.po) (fun n => n.po + n.pd) (fun x hx => by have := hpd x hx; linarith) lp hlp
  obtain ⟨us, hus⟩ : ∃ us, groupMeans (·.so) (encGroups ns) = us := ⟨_, rfl⟩
  obtain ⟨pm, hpm⟩ : ∃ pm, groupMeans (·.po) (encGroups ns) = pm := ⟨_, rfl⟩
  have husl : us.length = (encGroups ns).length := by rw [← hus]; simp [groupMeans]
  have hpml : pm.length = (encGroups ns).length := by rw [← hpm]; simp [groupMeans]
  have hglen : 0 < (encGroups ns).length := List.length_pos_iff.mpr hgs0
  have hxs : (us ++ [ls]).Pairwise (· < ·) := by
    rw [← hus]
    exact pairwise_append_last _ ls (groupMeans_so_strict ns) (groupMeans_lt ns (·.so) ls hso)
  -- the kept knots
  have hzip : (us ++ [ls]).zip (pm ++ [lp]) = us.zip pm ++ [(ls, lp)] := by
    rw [List.zip_append (by omega)]; rfl
  have hzne : us.zip pm ≠ [] := by
    intro h0
    have := congrArg List.length h0
    simp only [List.length_zip, List.length_nil] at this
    omega
  have hzlt : ∀ a ∈ us.zip pm, a.2 < (ls, lp).2 := by
    intro a ha
    have := (List.of_mem_zip ha).2
    rw [← hpm] at this
    exact groupMeans_lt ns (·.po) lp hpo _ this
  obtain ⟨ks, hks⟩ : ∃ ks, monoKnots ((us ++ [ls]).zip (pm ++ [lp])) = ks := ⟨_, rfl⟩
  have hkx : IncX ks := by rw [← hks]; exact monoKnots_incX _ (zip_incX _ _ hxs)
  have hky : IncY ks := by rw [← hks]; exact monoKnots_incY _
  have hk2 : 2 ≤ ks.length := by
    rw [← hks, hzip, monoKnots_append_last _ _ hzne hzlt, List.length_append]
    have := List.length_pos_iff.mpr (monoKnots_ne_nil _ hzne)
    simp only [List.length_cons, List.length_nil]
    omega
  obtain ⟨k0, k1, kt, hk⟩ := exists_two_of_length ks hk2
  have hfun : monoFun (us ++ [ls]) (pm ++ [lp]) = interpExt (k0 :: k1 :: kt) := by
    unfold monoFun
    rw [hks, sortKnots_of_incX ks hkx, hk]
  rw [hk] at hkx hky
  obtain ⟨mono, hm1, hm2, hm3⟩ := allSome_map_strictMono (interpExt (k0 :: k1 :: kt))
    (interpExt_strictMono kt k0 k1 hkx hky) (us ++ [ls]) hxs
  refine ⟨us ++ [ls], pm ++ [lp], mono, ?_, ⟨ls, by rw [hus]⟩, hxs, hm3, ?_⟩
  · unfold tempoSeqs monotonize
    simp only [hls, hlp, hus, hpm, hfun, hm1]
  · rw [hfun]; exact hm2

/-- `tempo_by_average` returns one POSITIVE beat period per onset group, whatever the performed
    onsets are (no score or performed duration negative) -/
theorem tempoAverage_pos (ns : List MNote) (hne : ns ≠ []) (hsd : ∀ x ∈ ns, 0 ≤ x.sd) (hpd : ∀ x ∈ ns, 0 ≤ x.pd) :
    ∃ bp, tempoAverage ns (encGroups ns) = some bp ∧ bp.length = (encGroups ns).length ∧ ∀ b ∈ bp, 0 < b := by
  obtain ⟨xs, ss, mono, h1, ⟨ls, hxs⟩, h3, h4, h5⟩ := tempoSeqs_spec ns hne hsd hpd
  refine ⟨List.zipWith (· / ·) (diffs mono) (diffs xs), ?_, ?_, ?_⟩
  · unfold tempoAverage; rw [h1]
  · have := h5.length_eq
    rw [List.length_zipWith, diffs_length, diffs_length, ← this, hxs]
    simp [groupMeans]
  · exact zipWith_div_pos _ _ (diffs_pos mono h4) (diffs_pos xs h3)

theorem firstOrderDerivative_pos (f : Rat → Option Rat)
    (hf : ∀ s t, s < t → ∃ p q, f s = some p ∧ f t = some q ∧ p < q) (x : Rat) :
    ∃ d, firstOrderDerivative f x = some d ∧ 0 < d := by
  obtain ⟨a, c, ha, hc, hac⟩ := hf (x + (0 - 1) * (1 / 2)) (x + (2 - 1) * (1 / 2)) (by linarith)
  obtain ⟨b, _, hb, _, _⟩ := hf (x + (1 - 1) * (1 / 2)) (x + (1 - 1) * (1 / 2) + 1) (by linarith)
  refine ⟨_, by unfold firstOrderDerivative; rw [ha, hb, hc], ?_⟩
  apply div_pos _ (by norm_num)
  linarith

theorem allSome_map_pos (f : Rat → Option Rat) (h : ∀ x, ∃ d, f x = some d ∧ 0 < d) (l : List Rat) :
    ∃ ys, allSome (l.map f) = some ys ∧ ys.length = l.length ∧ ∀ y ∈ ys, 0 < y := by
  induction l with
  | nil => exact ⟨[], rfl, rfl, by simp⟩
  | cons x rest ih =>
    obtain ⟨ys, h1, h2, h3⟩ := ih
    obtain ⟨d, hd, hpos⟩ := h x
    refine ⟨d :: ys, by simp only [List.map_cons, allSome, hd, h1, Option.map_some], by simp [h2], ?_⟩
    intro y hy
    rcases List.mem_cons.mp hy with rfl | hy
    · exact hpos
    · exact h3 y hy

/-- `tempo_by_derivative` returns one POSITIVE beat period per onset group as well -/
theorem tempoDerivative_pos (ns : List MNote) (hne : ns ≠ []) (hsd : ∀ x ∈ ns, 0 ≤ x.sd) (hpd : ∀ x ∈ ns, 0 ≤ x.pd) :
    ∃ bp, tempoDerivative ns (encGroups ns) = some bp ∧ bp.length = (encGroups ns).length ∧ ∀ b ∈ bp, 0 < b := by
  obtain ⟨xs, ss, mono, h1, ⟨ls, hxs⟩, h3, h4, h5⟩ := tempoSeqs_spec ns hne hsd hpd
  have hgs0 : encGroups ns ≠ [] := groupsBy_ne_nil_of_ne_nil _ ns hne
  have hlen := h5.length_eq
  have hkx : IncX (xs.zip mono) := zip_incX _ _ h3
  have hky : IncY (xs.zip mono) := zip_incY _ _ h4
  have hk2 : 2 ≤ (xs.zip mono).length := by
    rw [List.length_zip, ← hlen, hxs]
    have := List.length_pos_iff.mpr hgs0
    simp [groupMeans]
    omega
  obtain ⟨k0, k1, kt, hk⟩ := exists_two_of_length _ hk2
  rw [hk] at hkx hky
  obtain ⟨bp, hb1, hb2, hb3⟩ := allSome_map_pos _
    (firstOrderDerivative_pos _ (interpExt_strictMono kt k0 k1 hkx hky)) (groupMeans (·.so) (encGroups ns))
  refine ⟨bp, ?_, by rw [hb2]; simp [groupMeans], hb3⟩
  unfold tempoDerivative
  rw [h1]
  simp only
  rw [sortKnots_of_incX _ (zip_incX _ _ h3), hk]
  exact hb1


/-- evaluating the interpolant at its own abscissae gives the ordinates back -/
theorem forall₂_interp_knots (xs ss : List Rat) (hx : xs.Pairwise (· < ·)) (hlen : xs.length = ss.length) :
    List.Forall₂ (fun x y => interpExt (xs.zip ss) x = some y) xs ss := by
  rw [List.forall₂_iff_get]
  refine ⟨hlen, ?_⟩
  intro i h1 h2
  apply interpExt_knot _ (zip_incX _ _ hx)
  have : i < (xs.zip ss).length := by simp [List.length_zip]; omega
  have e : (xs.zip ss)[i] = (xs[i], ss[i]) := by simp
  simp only [List.get_eq_getElem]
  rw [← e]
  exact List.getElem_mem this

theorem allSome_of_forall₂ (f : Rat → Option Rat) (xs ys : List Rat)
    (h : List.Forall₂ (fun x y => f x = some y) xs ys) : allSome (xs.map f) = some ys := by
  induction h with
  | nil => rfl
  | cons h1 _ ih => simp only [List.map_cons, allSome, h1, ih, Option.map_some]

theorem forall₂_some_unique (f : Rat → Option Rat) (xs ys zs : List Rat)
    (h1 : List.Forall₂ (fun x y => f x = some y) xs ys) (h2 : List.Forall₂ (fun x y => f x = some y) xs zs) :
    ys = zs := by
  induction h1 generalizing zs with
  | nil => cases h2; rfl
  | cons a _ ih =>
    cases h2 with
    | cons b h2' =>
      rw [a] at b
      cases b
      rw [ih _ h2']

/-- strictly increasing values are left alone by `monotonize_times` -/
theorem monotonize_id (xs ss : List Rat) (hx : xs.Pairwise (· < ·)) (hs : ss.Pairwise (· < ·))
    (hlen : xs.length = ss.length) : monotonize xs ss = some ss := by
  unfold monotonize monoFun
  rw [monoKnots_id _ (zip_incY _ _ hs), sortKnots_of_incX _ (zip_incX _ _ hx)]
  exact allSome_of_forall₂ _ _ _ (forall₂_interp_knots xs ss hx hlen)

/-- when the mean performed onsets of successive score onsets are strictly increasing,
    `tempo_by_average` is the plain quotient of differences -/
theorem tempoAverage_exact (ns : List MNote) (hne : ns ≠ []) (hsd : ∀ x ∈ ns, 0 ≤ x.sd) (hpd : ∀ x ∈ ns, 0 ≤ x.pd)
    (hinc : (groupMeans (·.po) (encGroups ns)).Pairwise (· < ·)) :
    ∃ ls lp, lastTime (ns.map (·.so)) (ns.map fun n => n.so + n.sd) = some ls ∧
      lastTime (ns.map (·.po)) (ns.map fun n => n.po + n.pd) = some lp ∧
      tempoAverage ns (encGroups ns) = some (List.zipWith (· / ·)
        (diffs (groupMeans (·.po) (encGroups ns) ++ [lp])) (diffs (groupMeans (·.so) (encGroups ns) ++ [ls]))) := by
  obtain ⟨ls, hls⟩ := lastTime_some ns (·.so) (fun n => n.so + n.sd) hne
  obtain ⟨lp, hlp⟩ := lastTime_some ns (·.po) (fun n => n.po + n.pd) hne
  have hso : ∀ x ∈ ns, x.so < ls :=
    lastTime_gt ns (·.so) (fun n => n.so + n.sd) (fun x hx => by have := hsd x hx; linarith) ls hls
  have hpo : ∀ x ∈ ns, x.po < lp :=
    lastTime_gt ns (·.po) (fun n => n.po + n.pd) (fun x hx => by have := hpd x hx; linarith) lp hlp
  have hxs := pairwise_append_last _ ls (groupMeans_so_strict ns) (groupMeans_lt ns (·.so) ls hso)
  have hss := pairwise_append_last _ lp hinc (groupMeans_lt ns (·.po) lp hpo)
  refine ⟨ls, lp, hls, hlp, ?_⟩
  unfold tempoAverage tempoSeqs
  simp only [hls, hlp]
  rw [monotonize_id _ _ hxs hss (by simp [groupMeans])]

end C18P
