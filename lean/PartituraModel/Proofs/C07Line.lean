/-
C07 — composition: format-then-parse of a whole (single-component, "plain") line returns the values,
given the per-field codec round trips and the FieldsOK side condition.
-/
import PartituraModel.Model.MatchLine
import PartituraModel.Proofs.C07Search

namespace C07Line
open Model Model.Template Model.MatchCodec Model.MatchLine

/-- a field whose codec does not depend on the line's Attribute -/
def plainField (f : String × Enc × Dec) : Bool := f.2.1 != Enc.byAttr

/-- the field texts `es` are the encodings of `vals`, and each text is read back as its value by the
    field's interpreter (what the per-codec round-trip theorems establish) -/
def RT : List (String × Enc × Dec) → List Val → List (String × Str) → Prop
  | [], [], [] => True
  | f :: fs, v :: vs, e :: es =>
    e.1 = f.1 ∧ encode f.2.1 v = some e.2 ∧ decode f.2.2 e.2 = .ok v ∧ RT fs vs es
  | _, _, _ => False

def textOf (es : List (String × Str)) (n : String) : Str := (lookup n es).getD []

theorem codecFor_plain (t : Template) (attr : Option Str) (f : String × Enc × Dec) (h : plainField f = true) :
    codecFor t attr f = some f.2 := by
  unfold codecFor
  unfold plainField at h
  have : (f.2.1 == Enc.byAttr) = false := by
    rw [bne_iff_ne] at h
    exact beq_false_of_ne h
  simp [this]

theorem encodeFields_of_RT (t : Template) (attr : Option Str) : ∀ (fs : List (String × Enc × Dec)) (vs : List Val)
    (es : List (String × Str)), fs.all plainField = true → RT fs vs es → encodeFields t attr fs vs = some es := by
  intro fs
  induction fs with
  | nil =>
    intro vs es _ h
    cases vs <;> cases es <;> simp_all [RT, encodeFields]
  | cons f fs ih =>
    intro vs es hp h
    cases vs with
    | nil => simp [RT] at h
    | cons v vs =>
      cases es with
      | nil => simp [RT] at h
      | cons e es =>
        simp only [List.all_cons, Bool.and_eq_true] at hp
        obtain ⟨hn, he, _, hr⟩ := h
        simp only [encodeFields, codecFor_plain t attr f hp.1, he, ih vs es hp.2 hr]
        obtain ⟨n, s⟩ := e
        simp only at hn
        rw [hn]

theorem lookup_groupsOf (q : List Seg) (v : String → List Char) (n : String) (h : n ∈ fieldNames q) :
    lookup n (groupsOf q v) = some (v n) := by
  induction q with
  | nil => simp [fieldNames] at h
  | cons sg q ih =>
    cases sg with
    | lit p => simp only [fieldNames] at h; simp only [groupsOf]; exact ih h
    | fld m cls lo =>
      simp only [fieldNames, List.mem_cons] at h
      simp only [groupsOf, lookup]
      by_cases hm : m = n
      · subst hm; simp
      · simp only [hm, if_false]
        rcases h with h | h
        · exact absurd h.symm hm
        · exact ih h

theorem lookup_of_mem_nodup (es : List (String × Str)) (hnd : (es.map (·.1)).Nodup) (e : String × Str) (he : e ∈ es) :
    lookup e.1 es = some e.2 := by
  induction es with
  | nil => simp at he
  | cons x xs ih =>
    obtain ⟨a, b⟩ := x
    simp only [List.map_cons, List.nodup_cons] at hnd
    simp only [lookup]
    rcases List.mem_cons.mp he with h | h
    · subst h; simp
    · have : a ≠ e.1 := by
        intro heq
        apply hnd.1
        rw [heq]
        exact List.mem_map_of_mem (f := (·.1)) h
      simp only [this, if_false]
      exact ih hnd.2 h

theorem names_of_RT : ∀ (fs : List (String × Enc × Dec)) (vs : List Val) (es : List (String × Str)),
    RT fs vs es → es.map (·.1) = fs.map (·.1) := by
  intro fs
  induction fs with
  | nil => intro vs es h; cases vs <;> cases es <;> simp_all [RT]
  | cons f fs ih =>
    intro vs es h
    cases vs with
    | nil => simp [RT] at h
    | cons v vs =>
      cases es with
      | nil => simp [RT] at h
      | cons e es =>
        obtain ⟨hn, _, _, hr⟩ := h
        simp only [List.map_cons, hn, ih vs es hr]

theorem decodeFields_of_RT (t : Template) (attr : Option Str) (groups : List (String × Str)) :
    ∀ (fs : List (String × Enc × Dec)) (vs : List Val) (es : List (String × Str)),
    fs.all plainField = true → RT fs vs es → (∀ e ∈ es, lookup e.1 groups = some e.2) →
    decodeFields t attr groups fs = .ok vs := by
  intro fs
  induction fs with
  | nil => intro vs es _ h _; cases vs <;> cases es <;> simp_all [RT, decodeFields]; rfl
  | cons f fs ih =>
    intro vs es hp h hl
    cases vs with
    | nil => simp [RT] at h
    | cons v vs =>
      cases es with
      | nil => simp [RT] at h
      | cons e es =>
        simp only [List.all_cons, Bool.and_eq_true] at hp
        obtain ⟨hn, _, hd, hr⟩ := h
        have h1 := hl e (by simp)
        rw [hn] at h1
        have h2 := ih vs es hp.2 hr (fun e' he' => hl e' (by simp [he']))
        simp only [decodeFields, codecFor_plain t attr f hp.1, h1, hd, h2, ofDec, bind, Except.bind, pure, Except.pure]

/-- a template whose fields are interpreted independently: no Attribute-dependent codec, no pitch
    post-processing (pedal, ptime, stime, section, the 1.0.0 note, the ornament / trill heads) -/
def plain (t : Template) : Bool := t.post == Post.none && t.fields.all plainField

theorem line_roundtrip_plain (t : Template) (vals : List Val) (es : List (String × Str)) (tail : List Char)
    (ht : templateOK t = true) (hp : plain t = true) (hrt : RT t.fields vals es)
    (hv : fieldsOK t.out t.pat (textOf es) tail = true) :
    formatT t vals = some (render t.out (textOf es)) ∧
      parseT t (render t.out (textOf es) ++ tail) = .ok vals := by
  unfold templateOK at ht
  simp only [Bool.and_eq_true, beq_iff_eq, decide_eq_true_eq] at ht
  obtain ⟨⟨⟨⟨⟨⟨hag, _⟩, hnd⟩, hnames⟩, hun⟩, _⟩, _⟩ := ht
  unfold plain at hp
  simp only [Bool.and_eq_true, beq_iff_eq] at hp
  obtain ⟨hpost, hpf⟩ := hp
  have hsome : t.unmodelled.isSome = false := by
    cases h : t.unmodelled with
    | none => rfl
    | some x => rw [h] at hun; simp at hun
  have hnm := names_of_RT _ _ _ hrt
  constructor
  · unfold formatT
    simp only [hsome, Bool.false_eq_true, if_false, encodeFields_of_RT t _ t.fields vals es hpf hrt, Option.map_some]
    rfl
  · unfold parseT
    simp only [hsome, Bool.false_eq_true, if_false]
    have hs := search_of_matchSegs _ _ _
      (matchSegs_render t.pat t.out (textOf es) tail hag (fieldsOKGen_of_fieldsOK t.pat t.out (textOf es) tail hv))
    rw [hs]
    have hl : ∀ e ∈ es, lookup e.1 (groupsOf t.pat (textOf es)) = some e.2 := by
      intro e he
      have hmem : e.1 ∈ fieldNames t.pat := by
        rw [hnames, ← hnm]
        exact List.mem_map_of_mem (f := (·.1)) he
      rw [lookup_groupsOf _ _ _ hmem]
      unfold textOf
      have hnd' : (es.map (·.1)).Nodup := by rw [hnm, ← hnames]; exact hnd
      rw [lookup_of_mem_nodup es hnd' e he]
      rfl
    have hd := decodeFields_of_RT t (lookup "Attribute" (groupsOf t.pat (textOf es))) _ t.fields vals es hpf hrt hl
    simp only [hd, bind, Except.bind, applyPost, hpost, pure, Except.pure]

/-- decidable form of `RT` -/
def rtB : List (String × Enc × Dec) → List Val → List (String × Str) → Bool
  | [], [], [] => true
  | f :: fs, v :: vs, e :: es =>
    e.1 == f.1 && encode f.2.1 v == some e.2 &&
      (match decode f.2.2 e.2 with | .ok v' => v' == v | .error _ => false) && rtB fs vs es
  | _, _, _ => false

theorem RT_of_rtB : ∀ (fs : List (String × Enc × Dec)) (vs : List Val) (es : List (String × Str)),
    rtB fs vs es = true → RT fs vs es := by
  intro fs
  induction fs with
  | nil => intro vs es h; cases vs <;> cases es <;> simp_all [rtB, RT]
  | cons f fs ih =>
    intro vs es h
    cases vs with
    | nil => simp [rtB] at h
    | cons v vs =>
      cases es with
      | nil => simp [rtB] at h
      | cons e es =>
        simp only [rtB, Bool.and_eq_true, beq_iff_eq] at h
        obtain ⟨⟨⟨h1, h2⟩, h3⟩, h4⟩ := h
        refine ⟨h1, h2, ?_, ih vs es h4⟩
        split at h3
        · rename_i v' hv'
          simp only [beq_iff_eq] at h3
          rw [hv', h3]
        · simp at h3

end C07Line
