/-
C11 — helper lemmas about the model of `fill_rests` (Model/Rests.lean).

Part 1: the stable sort, and the counting lemmas behind "sorted ends against sorted starts find exactly the gaps".
Part 2: the stretches a voice gets rests for are exactly the uncovered times of its measure.
Part 3: the rests made for one stretch tile it and carry symbolic durations that last as long as they do.
Part 4: `fill_rests` only inserts rests.
-/
import PartituraModel.Model.Rests
import PartituraModel.Proofs.C11Dur
import PartituraModel.Proofs.C02Keys
import Mathlib.Data.List.Perm.Basic
import Mathlib.Tactic.Linarith

namespace C11Rests
open Model Model.Dur Model.Meas Model.Rests Gen

/-! ### Part 1: sorting and counting -/

abbrev SortedBy (key : GNote → Rat) (l : List GNote) : Prop := l.Pairwise (fun a b => key a ≤ key b)

theorem insertBy_perm (key : GNote → Rat) (x : GNote) : ∀ l : List GNote, (insertBy key x l).Perm (x :: l) := by
  intro l
  induction l with
  | nil => exact List.Perm.refl _
  | cons a as ih =>
    unfold insertBy
    split
    · exact List.Perm.refl _
    · exact ((List.Perm.cons a ih).trans (List.Perm.swap x a as))

theorem sortBy_perm (key : GNote → Rat) : ∀ l : List GNote, (sortBy key l).Perm l := by
  intro l
  induction l with
  | nil => exact List.Perm.refl _
  | cons x xs ih =>
    unfold sortBy
    exact (insertBy_perm key x _).trans (List.Perm.cons x ih)

theorem insertBy_sorted (key : GNote → Rat) (x : GNote) : ∀ l : List GNote, SortedBy key l → SortedBy key (insertBy key x l) := by
  intro l
  induction l with
  | nil => intro _; simp [insertBy, SortedBy]
  | cons a as ih =>
    intro h
    have ha := List.pairwise_cons.mp h
    unfold insertBy
    split
    · rename_i hxa
      refine List.pairwise_cons.mpr ⟨?_, h⟩
      intro y hy
      rcases List.mem_cons.mp hy with rfl | hy
      · exact hxa
      · exact le_trans hxa (ha.1 y hy)
    · rename_i hxa
      refine List.pairwise_cons.mpr ⟨?_, ih ha.2⟩
      intro y hy
      have : y ∈ x :: as := (insertBy_perm key x as).mem_iff.mp hy
      rcases List.mem_cons.mp this with rfl | hy
      · exact le_of_lt (not_le.mp hxa)
      · exact ha.1 y hy

theorem sortBy_sorted (key : GNote → Rat) : ∀ l : List GNote, SortedBy key (sortBy key l) := by
  intro l
  induction l with
  | nil => simp [sortBy, SortedBy]
  | cons x xs ih => unfold sortBy; exact insertBy_sorted key x _ ih

/-- in a sorted list at least `i + 1` elements are not above the `i`-th -/
theorem count_prefix (key : GNote → Rat) : ∀ (l : List GNote), SortedBy key l → ∀ (i : Nat) (b : GNote), l[i]? = some b →
    i + 1 ≤ l.countP (fun x => decide (key x ≤ key b)) := by
  intro l
  induction l with
  | nil => intro _ i b h; simp at h
  | cons y l' ih =>
    intro hs i b h
    have hy := List.pairwise_cons.mp hs
    cases i with
    | zero =>
      simp only [List.getElem?_cons_zero, Option.some.injEq] at h
      subst h
      rw [List.countP_cons_of_pos (by simp)]
      omega
    | succ i' =>
      simp only [List.getElem?_cons_succ] at h
      have hb : b ∈ l' := List.mem_of_getElem? h
      have := ih hy.2 i' b h
      rw [List.countP_cons_of_pos (by simpa using hy.1 b hb)]
      omega

/-- in a sorted list at most `j` elements are strictly below the `j`-th -/
theorem count_below (key : GNote → Rat) : ∀ (l : List GNote), SortedBy key l → ∀ (j : Nat) (a : GNote), l[j]? = some a →
    l.countP (fun x => decide (key x < key a)) ≤ j := by
  intro l
  induction l with
  | nil => intro _ j a h; simp at h
  | cons y l' ih =>
    intro hs j a h
    have hy := List.pairwise_cons.mp hs
    cases j with
    | zero =>
      simp only [List.getElem?_cons_zero, Option.some.injEq] at h
      subst h
      rw [Nat.le_zero, List.countP_eq_zero]
      intro x hx
      simp only [decide_eq_true_eq, not_lt]
      rcases List.mem_cons.mp hx with rfl | hx
      · exact le_refl _
      · exact hy.1 x hx
    | succ j' =>
      simp only [List.getElem?_cons_succ] at h
      have := ih hy.2 j' a h
      have := List.countP_cons (p := fun x => decide (key x < key a)) (a := y) (l := l')
      split at this <;> omega

/-- if `p` implies `q` on `l` and both count the same, they hold for the same elements -/
theorem countP_eq_of_imp (p q : GNote → Bool) : ∀ (l : List GNote), (∀ x ∈ l, p x = true → q x = true) →
    l.countP p = l.countP q → ∀ x ∈ l, q x = true → p x = true := by
  intro l
  induction l with
  | nil => intro _ _ x hx; simp at hx
  | cons y l' ih =>
    intro himp hc x hx hq
    have himp' : ∀ x ∈ l', p x = true → q x = true := fun x hx => himp x (List.mem_cons_of_mem _ hx)
    have hle : l'.countP p ≤ l'.countP q := by
      apply List.countP_mono_left
      intro x hx; exact himp' x hx
    rw [List.countP_cons, List.countP_cons] at hc
    by_cases hpy : p y = true
    · have hqy := himp y (List.mem_cons_self) hpy
      simp only [hpy, hqy, if_true] at hc
      rcases List.mem_cons.mp hx with rfl | hx
      · exact hpy
      · exact ih himp' (by omega) x hx hq
    · by_cases hqy : q y = true
      · simp only [hpy, hqy, if_true] at hc
        simp only [Bool.false_eq_true, if_false] at hc
        omega
      · simp only [hpy, hqy, Bool.false_eq_true, if_false] at hc
        rcases List.mem_cons.mp hx with rfl | hx
        · exact absurd hq hqy
        · exact ih himp' (by omega) x hx hq

/-- in a sorted list the elements not above `t` are exactly the first `countP (· ≤ t)` ones -/
theorem prefix_iff (key : GNote → Rat) (t : Rat) : ∀ (l : List GNote), SortedBy key l → ∀ (j : Nat) (x : GNote), l[j]? = some x →
    (j < l.countP (fun y => decide (key y ≤ t)) ↔ key x ≤ t) := by
  intro l
  induction l with
  | nil => intro _ j x h; simp at h
  | cons y l' ih =>
    intro hs j x h
    have hy := List.pairwise_cons.mp hs
    by_cases hyt : key y ≤ t
    · rw [List.countP_cons_of_pos (by simpa using hyt)]
      cases j with
      | zero =>
        simp only [List.getElem?_cons_zero, Option.some.injEq] at h
        subst h
        simp [hyt]
      | succ j' =>
        simp only [List.getElem?_cons_succ] at h
        rw [← ih hy.2 j' x h]
        omega
    · have hall : ∀ z ∈ y :: l', ¬ key z ≤ t := by
        intro z hz hzt
        rcases List.mem_cons.mp hz with rfl | hz
        · exact hyt hzt
        · exact hyt (le_trans (hy.1 z hz) hzt)
      have hc : (y :: l').countP (fun y => decide (key y ≤ t)) = 0 := by
        rw [List.countP_eq_zero]
        intro z hz; simpa using hall z hz
      rw [hc]
      have hx : x ∈ y :: l' := List.mem_of_getElem? h
      constructor
      · intro h0; omega
      · intro hxt; exact absurd hxt (hall x hx)

/-! ### Part 2: the stretches that get rests are exactly the uncovered times -/

/-- the stretches of the `for i in range(1, n)` loop: `(i-1)`-th smallest end to `i`-th smallest start when the
    latter is larger -/
def betweenSpans : List GNote → List GNote → List (Rat × Rat)
  | b :: se, a :: ss => (if a.start > b.stop then [(b.stop, a.start)] else []) ++ betweenSpans se ss
  | _, _ => []

/-- the stretches `voiceRests` asks rests for, in its order: before the first start, after the last end, between -/
def voiceSpans (S E : Rat) (nv : List GNote) : List (Rat × Rat) :=
  let ss := sortBy (·.start) nv
  let se := sortBy (·.stop) nv
  match ss.head?, se.getLast? with
  | some a, some z =>
    (if a.start > S then [(S, a.start)] else []) ++ ((if z.stop < E then [(z.stop, E)] else []) ++ betweenSpans se ss.tail)
  | _, _ => []

theorem mem_betweenSpans : ∀ (se ss : List GNote) (sp : Rat × Rat), sp ∈ betweenSpans se ss ↔
    ∃ (i : Nat) (b a : GNote), se[i]? = some b ∧ ss[i]? = some a ∧ b.stop < a.start ∧ sp = (b.stop, a.start) := by
  intro se
  induction se with
  | nil => intro ss sp; simp [betweenSpans]
  | cons b se ih =>
    intro ss sp
    cases ss with
    | nil => simp [betweenSpans]
    | cons a ss =>
      unfold betweenSpans
      rw [List.mem_append, ih]
      constructor
      · rintro (h | ⟨i, b', a', h1, h2, h3, h4⟩)
        · split at h
          · rename_i hgt
            simp only [List.mem_singleton] at h
            exact ⟨0, b, a, by simp, by simp, hgt, h⟩
          · simp at h
        · exact ⟨i + 1, b', a', by simpa using h1, by simpa using h2, h3, h4⟩
      · rintro ⟨i, b', a', h1, h2, h3, h4⟩
        cases i with
        | zero =>
          simp only [List.getElem?_cons_zero, Option.some.injEq] at h1 h2
          subst h1; subst h2
          left
          rw [if_pos h3]; simp [h4]
        | succ i' =>
          right
          exact ⟨i', b', a', by simpa using h1, by simpa using h2, h3, h4⟩

/-- direction 1: a stretch between the `i`-th smallest end and the `(i+1)`-th smallest start is free of notes -/
theorem between_free (nv : List GNote) (hord : ∀ n ∈ nv, n.start ≤ n.stop) (i : Nat) (b a : GNote)
    (hb : (sortBy (·.stop) nv)[i]? = some b) (ha : (sortBy (·.start) nv)[i + 1]? = some a) (hlt : b.stop < a.start) :
    ∀ m ∈ nv, m.stop ≤ b.stop ∨ a.start ≤ m.start := by
  intro m hm
  by_contra hcon
  rw [not_or, not_le, not_le] at hcon
  -- p: ends not after b's end;  q: starts before a's start
  let p : GNote → Bool := fun x => decide (x.stop ≤ b.stop)
  let q : GNote → Bool := fun x => decide (x.start < a.start)
  have h1 : i + 1 ≤ nv.countP p := by
    have := count_prefix (·.stop) _ (sortBy_sorted (·.stop) nv) i b hb
    rwa [(sortBy_perm (·.stop) nv).countP_eq] at this
  have h2 : nv.countP q ≤ i + 1 := by
    have := count_below (·.start) _ (sortBy_sorted (·.start) nv) (i + 1) a ha
    rwa [(sortBy_perm (·.start) nv).countP_eq] at this
  have himp : ∀ x ∈ nv, p x = true → q x = true := by
    intro x hx hp
    simp only [p, q, decide_eq_true_eq] at hp ⊢
    exact lt_of_le_of_lt (le_trans (hord x hx) hp) hlt
  have hle : nv.countP p ≤ nv.countP q := List.countP_mono_left himp
  have := countP_eq_of_imp p q nv himp (by omega) m hm (by simpa [q] using hcon.2)
  simp only [p, decide_eq_true_eq] at this
  exact absurd this (not_le.mpr hcon.1)

/-- direction 2: an uncovered time between the first start and the last end lies in one of those stretches -/
theorem uncovered_between (nv : List GNote) (hord : ∀ n ∈ nv, n.start ≤ n.stop) (t : Rat)
    (hun : ∀ n ∈ nv, ¬ (n.start ≤ t ∧ t < n.stop))
    (a0 z : GNote) (ha0 : a0 ∈ nv) (hz : z ∈ nv) (h0 : a0.start ≤ t) (h1 : t < z.stop) :
    ∃ (i : Nat) (b a : GNote), (sortBy (·.stop) nv)[i]? = some b ∧ (sortBy (·.start) nv)[i + 1]? = some a ∧
      b.stop ≤ t ∧ t < a.start := by
  let p : GNote → Bool := fun x => decide (x.stop ≤ t)
  let q : GNote → Bool := fun x => decide (x.start ≤ t)
  have hpq : ∀ x ∈ nv, (p x = true ↔ q x = true) := by
    intro x hx
    simp only [p, q, decide_eq_true_eq]
    constructor
    · intro h; exact le_trans (hord x hx) h
    · intro h
      by_contra hc
      exact hun x hx ⟨h, not_le.mp hc⟩
  have hcount : nv.countP p = nv.countP q := by
    apply List.countP_congr
    intro x hx; exact hpq x hx
  have hpos : 0 < nv.countP p := by
    rw [List.countP_pos_iff]
    exact ⟨a0, ha0, (hpq a0 ha0).mpr (by simpa [q] using h0)⟩
  have hlt : nv.countP p < nv.length := by
    rcases Nat.lt_or_ge (nv.countP p) nv.length with h | h
    · exact h
    · have heq : nv.countP p = nv.length := le_antisymm List.countP_le_length h
      have := (List.countP_eq_length.mp heq) z hz
      simp only [p, decide_eq_true_eq] at this
      exact absurd this (not_le.mpr h1)
  obtain ⟨k, hk⟩ : ∃ k, nv.countP p = k + 1 := ⟨nv.countP p - 1, by omega⟩
  have hlen1 : (sortBy (·.stop) nv).length = nv.length := (sortBy_perm _ nv).length_eq
  have hlen2 : (sortBy (·.start) nv).length = nv.length := (sortBy_perm _ nv).length_eq
  have hkb : k < (sortBy (·.stop) nv).length := by omega
  have hka : k + 1 < (sortBy (·.start) nv).length := by omega
  refine ⟨k, (sortBy (·.stop) nv)[k], (sortBy (·.start) nv)[k + 1], List.getElem?_eq_getElem hkb,
    List.getElem?_eq_getElem hka, ?_, ?_⟩
  · have := prefix_iff (·.stop) t _ (sortBy_sorted (·.stop) nv) k _ (List.getElem?_eq_getElem hkb)
    rw [(sortBy_perm (·.stop) nv).countP_eq] at this
    exact this.mp (by show k < nv.countP p; omega)
  · have := prefix_iff (·.start) t _ (sortBy_sorted (·.start) nv) (k + 1) _ (List.getElem?_eq_getElem hka)
    rw [(sortBy_perm (·.start) nv).countP_eq] at this
    by_contra hc
    have := this.mpr (not_lt.mp hc)
    have hq : nv.countP q = k + 1 := by omega
    change k + 1 < nv.countP q at this
    omega

theorem head_sortBy_le (key : GNote → Rat) (nv : List GNote) (a : GNote) (h : (sortBy key nv).head? = some a) :
    a ∈ nv ∧ ∀ m ∈ nv, key a ≤ key m := by
  have hs := sortBy_sorted key nv
  have hp := sortBy_perm key nv
  cases hl : sortBy key nv with
  | nil => rw [hl] at h; simp at h
  | cons x xs =>
    rw [hl] at h hs hp
    simp only [List.head?_cons, Option.some.injEq] at h
    subst h
    refine ⟨hp.mem_iff.mp List.mem_cons_self, ?_⟩
    intro m hm
    rcases List.mem_cons.mp (hp.mem_iff.mpr hm) with rfl | hm
    · exact le_refl _
    · exact (List.pairwise_cons.mp hs).1 m hm

theorem getLast_sortBy_ge (key : GNote → Rat) (nv : List GNote) (z : GNote) (h : (sortBy key nv).getLast? = some z) :
    z ∈ nv ∧ ∀ m ∈ nv, key m ≤ key z := by
  have hs := sortBy_sorted key nv
  have hp := sortBy_perm key nv
  obtain ⟨init, hinit⟩ : ∃ init, sortBy key nv = init ++ [z] := by
    rcases List.getLast?_eq_some_iff.mp h with ⟨init, hi⟩
    exact ⟨init, hi⟩
  rw [hinit] at hs hp
  refine ⟨hp.mem_iff.mp (by simp), ?_⟩
  intro m hm
  have : m ∈ init ++ [z] := hp.mem_iff.mpr hm
  rcases List.mem_append.mp this with hm | hm
  · exact (List.pairwise_append.mp hs).2.2 m hm z (by simp)
  · simp only [List.mem_singleton] at hm; subst hm; exact le_refl _

/-- **the stretches are exactly the gaps**: a time of `[S, E)` lies in one of the stretches `voiceRests` asks
    rests for iff no note of the voice covers it -/
theorem voiceSpans_exact (S E : Rat) (nv : List GNote) (hne : nv ≠ []) (hord : ∀ n ∈ nv, n.start ≤ n.stop)
    (t : Rat) (hS : S ≤ t) (hE : t < E) :
    (∃ sp ∈ voiceSpans S E nv, sp.1 ≤ t ∧ t < sp.2) ↔ ∀ n ∈ nv, ¬ (n.start ≤ t ∧ t < n.stop) := by
  have hl1 : (sortBy (·.start) nv) ≠ [] := by
    intro h; have := (sortBy_perm (·.start) nv).length_eq; rw [h] at this
    exact hne (List.length_eq_zero_iff.mp this.symm)
  have hl2 : (sortBy (·.stop) nv) ≠ [] := by
    intro h; have := (sortBy_perm (·.stop) nv).length_eq; rw [h] at this
    exact hne (List.length_eq_zero_iff.mp this.symm)
  obtain ⟨a0, ha0⟩ : ∃ a0, (sortBy (·.start) nv).head? = some a0 := by
    cases h : sortBy (·.start) nv with
    | nil => exact absurd h hl1
    | cons x xs => exact ⟨x, rfl⟩
  obtain ⟨z, hz⟩ : ∃ z, (sortBy (·.stop) nv).getLast? = some z := by
    rw [← Option.isSome_iff_exists, List.getLast?_isSome]; exact hl2
  obtain ⟨ha0m, ha0le⟩ := head_sortBy_le (·.start) nv a0 ha0
  obtain ⟨hzm, hzge⟩ := getLast_sortBy_ge (·.stop) nv z hz
  have hspans : voiceSpans S E nv = (if a0.start > S then [(S, a0.start)] else []) ++
      ((if z.stop < E then [(z.stop, E)] else []) ++ betweenSpans (sortBy (·.stop) nv) (sortBy (·.start) nv).tail) := by
    unfold voiceSpans; simp only [ha0, hz]
  rw [hspans]
  constructor
  · rintro ⟨sp, hsp, h1, h2⟩ n hn ⟨hn1, hn2⟩
    rcases List.mem_append.mp hsp with hsp | hsp
    · split at hsp
      · simp only [List.mem_singleton] at hsp; subst hsp
        exact absurd (lt_of_lt_of_le h2 (ha0le n hn)) (not_lt.mpr hn1)
      · simp at hsp
    · rcases List.mem_append.mp hsp with hsp | hsp
      · split at hsp
        · simp only [List.mem_singleton] at hsp; subst hsp
          exact absurd (lt_of_lt_of_le hn2 (hzge n hn)) (not_lt.mpr h1)
        · simp at hsp
      · obtain ⟨i, b, a, hb, ha, hlt, rfl⟩ := (mem_betweenSpans _ _ sp).mp hsp
        rw [List.getElem?_tail] at ha
        rcases between_free nv hord i b a hb ha hlt n hn with h | h
        · exact absurd (lt_of_lt_of_le hn2 h) (not_lt.mpr h1)
        · exact absurd (lt_of_lt_of_le h2 h) (not_lt.mpr hn1)
  · intro hun
    by_cases hlo : t < a0.start
    · refine ⟨(S, a0.start), ?_, hS, hlo⟩
      rw [if_pos (lt_of_le_of_lt hS hlo)]; simp
    · by_cases hhi : z.stop ≤ t
      · refine ⟨(z.stop, E), ?_, hhi, hE⟩
        rw [if_pos (lt_of_le_of_lt hhi hE)]; simp
      · obtain ⟨i, b, a, hb, ha, hbt, hta⟩ :=
          uncovered_between nv hord t hun a0 z ha0m hzm (not_lt.mp hlo) (not_le.mp hhi)
        refine ⟨(b.stop, a.start), ?_, hbt, hta⟩
        apply List.mem_append_right
        apply List.mem_append_right
        rw [mem_betweenSpans]
        exact ⟨i, b, a, hb, by rw [List.getElem?_tail]; exact ha, lt_of_le_of_lt hbt hta, rfl⟩

/-! ### Part 3: the rests made for one stretch -/

/-- consecutive rests from `a` to `b`, none of negative length -/
def RTiles : Rat → Rat → List GNote → Prop
  | a, b, [] => a = b
  | a, b, r :: rest => r.start = a ∧ r.start ≤ r.stop ∧ RTiles r.stop b rest

theorem rtiles_le : ∀ (l : List GNote) (a b : Rat), RTiles a b l → a ≤ b := by
  intro l
  induction l with
  | nil => intro a b h; exact le_of_eq h
  | cons r rest ih =>
    intro a b h
    obtain ⟨h1, h2, h3⟩ := h
    have := ih _ _ h3
    linarith

/-- consecutive rests cover exactly `[a, b)` -/
theorem rtiles_cover : ∀ (l : List GNote) (a b : Rat), RTiles a b l → ∀ t : Rat,
    ((∃ r ∈ l, r.start ≤ t ∧ t < r.stop) ↔ (a ≤ t ∧ t < b)) := by
  intro l
  induction l with
  | nil =>
    intro a b h t
    have : a = b := h
    subst this
    constructor
    · rintro ⟨r, hr, _⟩; simp at hr
    · rintro ⟨h1, h2⟩; exact absurd h2 (not_lt.mpr h1)
  | cons r rest ih =>
    intro a b h t
    obtain ⟨h1, h2, h3⟩ := h
    have hle := rtiles_le _ _ _ h3
    constructor
    · rintro ⟨r', hr', c1, c2⟩
      rcases List.mem_cons.mp hr' with rfl | hr'
      · exact ⟨by linarith, by linarith⟩
      · have := (ih _ _ h3 t).mp ⟨r', hr', c1, c2⟩
        exact ⟨by linarith [this.1], this.2⟩
    · rintro ⟨c1, c2⟩
      by_cases hc : t < r.stop
      · exact ⟨r, List.mem_cons_self, by linarith, hc⟩
      · obtain ⟨r', hr', d1, d2⟩ := (ih _ _ h3 t).mpr ⟨not_lt.mp hc, c2⟩
        exact ⟨r', List.mem_cons_of_mem _ hr', d1, d2⟩

theorem lookup_mem' {β : Type} (k : String) : ∀ (l : List (String × β)) (v : β), lookup k l = some v → (k, v) ∈ l := by
  intro l
  induction l with
  | nil => intro v h; simp [lookup] at h
  | cons e rest ih =>
    intro v h
    obtain ⟨a, b⟩ := e
    unfold lookup at h
    split at h
    · rename_i hak
      simp only [Option.some.injEq] at h
      subst h; subst hak; exact List.mem_cons_self
    · exact List.mem_cons_of_mem _ (ih v h)

theorem label_durs_pos : LABEL_DURS.all (fun e => decide (0 < e.2)) = true := by decide +kernel
theorem dot_multipliers_pos : DOT_MULTIPLIERS.all (fun m => decide (0 < m)) = true := by decide +kernel

/-- a symbolic duration never lasts a negative time -/
theorem numeric_nonneg (sd : SymDur) (div : Nat) (x : Rat) (h : symbolicToNumeric sd div = some x) : 0 ≤ x := by
  obtain ⟨ty, dots, a, n⟩ := sd
  unfold symbolicToNumeric at h
  simp only at h
  split at h
  · rename_i d m h1 h2
    simp only [Option.some.injEq] at h
    have hd : 0 < d := by
      have := (List.all_eq_true.mp label_durs_pos) _ (lookup_mem' ty _ d h1)
      simpa using this
    have hm : 0 < m := by
      have := (List.all_eq_true.mp dot_multipliers_pos) _ (List.mem_of_getElem? h2)
      simpa using this
    have hdiv : (0 : Rat) ≤ (div : Rat) := Nat.cast_nonneg div
    rw [← h]
    apply mul_nonneg (mul_nonneg (mul_nonneg hdiv hd.le) hm.le)
    apply div_nonneg
    · split
      · norm_num
      · exact Nat.cast_nonneg _
    · split
      · norm_num
      · exact Nat.cast_nonneg _
  · simp at h

theorem numericSum_cons (sd : SymDur) (rest : List SymDur) (div : Rat) :
    numericSum (sd :: rest) div = (match symbolicToNumeric sd div, numericSum rest div with
      | some x, some y => some (x + y)
      | _, _ => none) := by
  unfold numericSum; rfl

/-- what the rests carry: the voice they were asked for, and either no value (`{}`) or one symbolic duration
    that lasts exactly as long as the rest under the divisions `div` -/
def RestOK (div : Nat) (v : Int) (r : GNote) : Prop :=
  r.voice = v ∧ (r.added = some .empty ∨
    ∃ sd, r.added = some (.single sd) ∧ symbolicToNumeric sd div = some (r.stop - r.start))

theorem compositeRests_spec (div : Nat) (v : Int) (staffOf : Nat → Int) : ∀ (l : List SymDur) (j : Nat) (st : Rat)
    (rests : List GNote), compositeRests div v staffOf j st l = some rests →
    ∃ total, numericSum l div = some total ∧ RTiles st (st + total) rests ∧ ∀ r ∈ rests, RestOK div v r := by
  intro l
  induction l with
  | nil =>
    intro j st rests h
    simp only [compositeRests, Option.some.injEq] at h
    subst h
    exact ⟨0, by simp [numericSum], by simp [RTiles], by simp⟩
  | cons sd rest ih =>
    intro j st rests h
    unfold compositeRests at h
    split at h
    · simp at h
    · rename_i x hx
      cases hr : compositeRests div v staffOf (j + 1) (st + x) rest with
      | none => rw [hr] at h; simp at h
      | some tl =>
        rw [hr] at h
        simp only [Option.map_some, Option.some.injEq] at h
        subst h
        obtain ⟨tot, h1, h2, h3⟩ := ih _ _ _ hr
        refine ⟨x + tot, ?_, ?_, ?_⟩
        · rw [numericSum_cons, hx, h1]
        · refine ⟨rfl, ?_, ?_⟩
          · have := numeric_nonneg sd div x hx
            show st ≤ st + x
            linarith
          · show RTiles (st + x) (st + (x + tot)) tl
            rw [← add_assoc]; exact h2
        · intro r hr'
          rcases List.mem_cons.mp hr' with rfl | hr'
          · exact ⟨rfl, Or.inr ⟨sd, rfl, by simpa using hx⟩⟩
          · exact h3 r hr'

theorem estimate_some_pos (dur : Rat) (div : Nat) (c : Bool) (e : Est) (h : estimate dur div c = some e) : 0 < div := by
  rcases Nat.eq_zero_or_pos div with h0 | h0
  · subst h0; simp [estimate] at h
  · exact h0

/-- **the rests made for a stretch** `[a, b)` with integer ends: they tile it, and every symbolic duration
    among them lasts exactly as long as its rest under the divisions `div` used for the stretch -/
theorem mkRests_spec (com : Bool) (a b : Nat) (hab : a ≤ b) (div : Nat) (hbig : div ≤ 1099511627776) (v staff : Int)
    (staffOf : Nat → Int) (rests : List GNote)
    (h : mkRests com (a : Rat) (b : Rat) div v staff staffOf = some rests) :
    RTiles (a : Rat) (b : Rat) rests ∧ ∀ r ∈ rests, RestOK div v r := by
  have hcast : (b : Rat) - (a : Rat) = ((b - a : Nat) : Rat) := by rw [Nat.cast_sub hab]
  unfold mkRests at h
  rw [hcast] at h
  split at h
  · simp at h
  · rename_i l he
    obtain ⟨tot, h1, h2, h3⟩ := compositeRests_spec div v staffOf l 0 _ rests h
    have hdiv := estimate_some_pos _ _ _ _ he
    have := C11Dur.composite_back (b - a) div hdiv hbig com l he
    rw [this] at h1
    simp only [Option.some.injEq] at h1
    refine ⟨?_, h3⟩
    have e2 : (a : Rat) + tot = (b : Rat) := by rw [← h1, ← hcast]; ring
    rw [e2] at h2; exact h2
  · rename_i e hnc he
    simp only [Option.some.injEq] at h
    subst h
    have hle : (a : Rat) ≤ (b : Rat) := by exact_mod_cast hab
    refine ⟨⟨rfl, hle, rfl⟩, ?_⟩
    intro r hr
    simp only [List.mem_singleton] at hr
    subst hr
    refine ⟨rfl, ?_⟩
    cases e with
    | empty => exact Or.inl rfl
    | single sd =>
      right
      refine ⟨sd, rfl, ?_⟩
      have := C11Dur.estimate_back' (b - a) div com sd he
      rw [this, hcast]
    | composite l => exact absurd rfl (hnc l)

theorem compositeRests_added (div : Nat) (v : Int) (staffOf : Nat → Int) : ∀ (l : List SymDur) (j : Nat) (st : Rat)
    (rests : List GNote), compositeRests div v staffOf j st l = some rests → ∀ r ∈ rests, r.added.isSome = true := by
  intro l
  induction l with
  | nil => intro j st rests h; simp only [compositeRests, Option.some.injEq] at h; subst h; simp
  | cons sd rest ih =>
    intro j st rests h
    unfold compositeRests at h
    split at h
    · simp at h
    · rename_i x hx
      cases hr : compositeRests div v staffOf (j + 1) (st + x) rest with
      | none => rw [hr] at h; simp at h
      | some tl =>
        rw [hr] at h
        simp only [Option.map_some, Option.some.injEq] at h
        subst h
        intro r hr'
        rcases List.mem_cons.mp hr' with rfl | hr'
        · rfl
        · exact ih _ _ _ hr r hr'

/-- everything `mkRests` makes is a new rest -/
theorem mkRests_added (com : Bool) (a b : Rat) (div : Nat) (v staff : Int) (staffOf : Nat → Int) (rests : List GNote)
    (h : mkRests com a b div v staff staffOf = some rests) : ∀ r ∈ rests, r.added.isSome = true := by
  unfold mkRests at h
  split at h
  · simp at h
  · exact compositeRests_added _ _ _ _ _ _ _ h
  · simp only [Option.some.injEq] at h
    subst h
    intro r hr
    simp only [List.mem_singleton] at hr
    subst hr; rfl

/-! ### Part 4: `fill_rests` only inserts rests, each made by `mkRests` for some stretch -/

theorem catOpts_some : ∀ (l : List (Option (List GNote))) (out : List GNote), catOpts l = some out →
    (∀ o ∈ l, ∃ part, o = some part ∧ ∀ r ∈ part, r ∈ out) ∧ (∀ r ∈ out, ∃ part, some part ∈ l ∧ r ∈ part) := by
  intro l
  induction l with
  | nil =>
    intro out h
    simp only [catOpts, Option.some.injEq] at h
    subst h
    simp
  | cons o rest ih =>
    intro out h
    cases o with
    | none => simp [catOpts] at h
    | some part =>
      unfold catOpts at h
      cases hr : catOpts rest with
      | none => rw [hr] at h; simp at h
      | some tl =>
        rw [hr] at h
        simp only [Option.map_some, Option.some.injEq] at h
        subst h
        obtain ⟨i1, i2⟩ := ih tl hr
        constructor
        · intro o ho
          rcases List.mem_cons.mp ho with rfl | ho
          · exact ⟨part, rfl, fun r hr => List.mem_append_left _ hr⟩
          · obtain ⟨p, hp1, hp2⟩ := i1 o ho
            exact ⟨p, hp1, fun r hr => List.mem_append_right _ (hp2 r hr)⟩
        · intro r hr'
          rcases List.mem_append.mp hr' with hr' | hr'
          · exact ⟨part, List.mem_cons_self, hr'⟩
          · obtain ⟨p, hp1, hp2⟩ := i2 r hr'
            exact ⟨p, List.mem_cons_of_mem _ hp1, hp2⟩

/-- `r` was made by `mkRests` for a stretch starting at `a`, with the divisions in force at `a` -/
def Made (qd : List (Int × Nat)) (r : GNote) : Prop :=
  ∃ (com : Bool) (a b : Rat) (voice staff : Int) (staffOf : Nat → Int) (part : List GNote),
    mkRests com a b (divsAt qd a) voice staff staffOf = some part ∧ r ∈ part

theorem made_added (qd : List (Int × Nat)) (r : GNote) (h : Made qd r) : r.added.isSome = true := by
  obtain ⟨com, a, b, voice, staff, staffOf, part, h1, h2⟩ := h
  exact mkRests_added _ _ _ _ _ _ _ _ h1 r h2

/-- an entry of the lists `catOpts` is applied to: nothing, or the rests of one stretch -/
def EntryMade (qd : List (Int × Nat)) (o : Option (List GNote)) : Prop :=
  ∀ part, o = some part → ∀ r ∈ part, Made qd r

theorem entry_ite (qd : List (Int × Nat)) (c : Prop) [Decidable c] (com : Bool) (a b : Rat) (voice staff : Int)
    (staffOf : Nat → Int) :
    EntryMade qd (if c then mkRests com a b (divsAt qd a) voice staff staffOf else some []) := by
  intro part hp r hr
  split at hp
  · exact ⟨com, a, b, voice, staff, staffOf, part, hp, hr⟩
  · simp only [Option.some.injEq] at hp; subst hp; simp at hr

theorem catOpts_made (qd : List (Int × Nat)) (l : List (Option (List GNote))) (out : List GNote)
    (h : catOpts l = some out) (hl : ∀ o ∈ l, EntryMade qd o) : ∀ r ∈ out, Made qd r := by
  intro r hr
  obtain ⟨part, hp1, hp2⟩ := (catOpts_some l out h).2 r hr
  exact hl _ hp1 part rfl r hp2

theorem betweenRests_made (qd : List (Int × Nat)) (v : Int) (staffOf : Nat → Int) : ∀ (se ss : List GNote),
    ∀ o ∈ betweenRests qd v staffOf se ss, EntryMade qd o := by
  intro se
  induction se with
  | nil => intro ss o ho; simp [betweenRests] at ho
  | cons b se ih =>
    intro ss o ho
    cases ss with
    | nil => simp [betweenRests] at ho
    | cons a ss =>
      unfold betweenRests at ho
      rcases List.mem_cons.mp ho with rfl | ho
      · exact entry_ite qd _ true b.stop a.start v b.staff staffOf
      · exact ih ss o ho

theorem voiceRests_made (qd : List (Int × Nat)) (S E : Rat) (v : Int) (nv out : List GNote)
    (h : voiceRests qd S E v nv = some out) : ∀ r ∈ out, Made qd r := by
  unfold voiceRests at h
  simp only at h
  split at h
  · rename_i a z ha hz
    apply catOpts_made qd _ out h
    intro o ho
    rcases List.mem_cons.mp ho with rfl | ho
    · exact entry_ite qd _ true S a.start v a.staff _
    · rcases List.mem_cons.mp ho with rfl | ho
      · exact entry_ite qd _ true z.stop E v z.staff _
      · exact betweenRests_made qd v _ _ _ o ho
  · simp only [Option.some.injEq] at h; subst h; intro r hr; simp at hr

theorem staffRests_made (qd : List (Int × Nat)) (k : Nat) (S E : Rat) (free : Int) (staffs : List Int) (out : List GNote)
    (h : staffRests qd k S E free staffs = some out) : ∀ r ∈ out, Made qd r := by
  unfold staffRests at h
  split at h
  · apply catOpts_made qd _ out h
    intro o ho
    obtain ⟨i, _, rfl⟩ := List.mem_map.mp ho
    simp only
    intro part hp r hr
    split at hp
    · simp only [Option.some.injEq] at hp; subst hp; simp at hr
    · exact ⟨true, S, E, free, _, _, part, hp, hr⟩
  · simp only [Option.some.injEq] at h; subst h; intro r hr; simp at hr

theorem measureRests_made (qd : List (Int × Nat)) (k : Nat) (ns : List GNote) (S E : Rat) (out : List GNote)
    (h : measureRests qd k ns S E = some out) : ∀ r ∈ out, Made qd r := by
  unfold measureRests at h
  simp only at h
  intro r hr
  obtain ⟨part, hp1, hp2⟩ := (catOpts_some _ out h).2 r hr
  rcases List.mem_cons.mp hp1 with hp1 | hp1
  · exact staffRests_made qd k S E _ _ part hp1.symm r hp2
  · obtain ⟨v, _, hv⟩ := List.mem_map.mp hp1
    exact voiceRests_made qd S E v _ part hv r hp2

theorem groupRestsG_made (qd : List (Int × Nat)) (S E : Rat) (nv out : List GNote)
    (h : groupRestsG qd S E nv = some out) : ∀ r ∈ out, Made qd r := by
  unfold groupRestsG at h
  split at h
  · rename_i a z ha hz
    apply catOpts_made qd _ out h
    intro o ho
    rcases List.mem_cons.mp ho with rfl | ho
    · exact entry_ite qd _ false S a.start a.voice a.staff _
    · rcases List.mem_cons.mp ho with rfl | ho
      · exact entry_ite qd _ false z.stop E z.voice z.staff _
      · simp at ho
  · simp only [Option.some.injEq] at h; subst h; intro r hr; simp at hr

theorem measureRestsG_made (qd : List (Int × Nat)) (uvs : List (Int × Int)) (ns : List GNote) (S E : Rat) (out : List GNote)
    (h : measureRestsG qd uvs ns S E = some out) : ∀ r ∈ out, Made qd r := by
  unfold measureRestsG at h
  split at h
  · simp only [Option.some.injEq] at h; subst h; intro r hr; simp at hr
  · simp only at h
    intro r hr
    obtain ⟨part, hp1, hp2⟩ := (catOpts_some _ out h).2 r hr
    rcases List.mem_append.mp hp1 with hp1 | hp1
    · obtain ⟨g, _, hg⟩ := List.mem_map.mp hp1
      exact groupRestsG_made qd S E _ part hg r hp2
    · obtain ⟨g, _, hg⟩ := List.mem_map.mp hp1
      exact ⟨false, S, E, g.1, g.2, _, part, hg, hp2⟩

theorem insertG_filter (r : GNote) (hr : r.added.isSome = true) : ∀ l : List GNote,
    (insertG r l).filter (fun n => n.added.isNone) = l.filter (fun n => n.added.isNone) := by
  have hr' : r.added.isNone = false := by
    cases h : r.added with
    | none => rw [h] at hr; simp at hr
    | some e => rfl
  intro l
  induction l with
  | nil => simp [insertG, hr']
  | cons a as ih =>
    unfold insertG
    split
    · rw [List.filter_cons, hr']; simp
    · rw [List.filter_cons, List.filter_cons, ih]

theorem addAll_filter : ∀ (rests : List GNote), (∀ r ∈ rests, r.added.isSome = true) → ∀ ns : List GNote,
    (addAll rests ns).filter (fun n => n.added.isNone) = ns.filter (fun n => n.added.isNone) := by
  intro rests
  induction rests with
  | nil => intro _ ns; rfl
  | cons r rest ih =>
    intro h ns
    unfold addAll
    rw [List.foldl_cons]
    have := ih (fun x hx => h x (List.mem_cons_of_mem _ hx)) (insertG r ns)
    unfold addAll at this
    rw [this, insertG_filter r (h r List.mem_cons_self)]

theorem mem_insertG (r x : GNote) : ∀ l : List GNote, x ∈ insertG r l ↔ x = r ∨ x ∈ l := by
  intro l
  induction l with
  | nil => simp [insertG]
  | cons a as ih =>
    unfold insertG
    split
    · simp
    · rw [List.mem_cons, ih, List.mem_cons]; tauto

theorem mem_addAll : ∀ (rests ns : List GNote) (x : GNote), x ∈ addAll rests ns ↔ x ∈ rests ∨ x ∈ ns := by
  intro rests
  induction rests with
  | nil => intro ns x; simp [addAll]
  | cons r rest ih =>
    intro ns x
    unfold addAll
    rw [List.foldl_cons]
    have := ih (insertG r ns) x
    unfold addAll at this
    rw [this, mem_insertG, List.mem_cons]; tauto

/-- one step of either mode: the old objects stay as they are and in order, every new one is a made rest -/
def StepOK (qd : List (Int × Nat)) (ns out : List GNote) : Prop :=
  out.filter (fun n => n.added.isNone) = ns.filter (fun n => n.added.isNone) ∧
  ∀ x ∈ out, x ∈ ns ∨ Made qd x

theorem stepOK_of_rests (qd : List (Int × Nat)) (ns rests : List GNote) (h : ∀ r ∈ rests, Made qd r) :
    StepOK qd ns (addAll rests ns) := by
  refine ⟨addAll_filter rests (fun r hr => made_added qd r (h r hr)) ns, ?_⟩
  intro x hx
  rcases (mem_addAll rests ns x).mp hx with hx | hx
  · exact Or.inr (h x hx)
  · exact Or.inl hx

theorem fold_stepOK (qd : List (Int × Nat)) (step : Option (List GNote) → (Rat × Rat) → Option (List GNote))
    (hstep : ∀ ns m out, step (some ns) m = some out → StepOK qd ns out) (hnone : ∀ m, step none m = none) :
    ∀ (ms : List (Rat × Rat)) (ns out : List GNote), ms.foldl step (some ns) = some out → StepOK qd ns out := by
  intro ms
  induction ms with
  | nil =>
    intro ns out h
    simp only [List.foldl_nil, Option.some.injEq] at h
    subst h
    exact ⟨rfl, fun x hx => Or.inl hx⟩
  | cons m rest ih =>
    intro ns out h
    rw [List.foldl_cons] at h
    cases hs : step (some ns) m with
    | none =>
      rw [hs] at h
      have : ∀ l : List (Rat × Rat), l.foldl step none = none := by
        intro l; induction l with
        | nil => rfl
        | cons y ys ihy => rw [List.foldl_cons, hnone]; exact ihy
      rw [this] at h; cases h
    | some mid =>
      rw [hs] at h
      obtain ⟨a1, a2⟩ := hstep ns m mid hs
      obtain ⟨b1, b2⟩ := ih mid out h
      refine ⟨b1.trans a1, ?_⟩
      intro x hx
      rcases b2 x hx with hx | hx
      · exact a2 x hx
      · exact Or.inr hx

theorem fillRests_ok (qd : List (Int × Nat)) (k : Nat) (ms : List (Rat × Rat)) (ns out : List GNote)
    (h : fillRests qd k ms ns = some out) : StepOK qd ns out := by
  apply fold_stepOK qd (fillMeasure qd k) _ (fun m => rfl) ms ns out h
  intro ns m out hs
  unfold fillMeasure at hs
  simp only at hs
  cases hr : measureRests qd k ns m.1 m.2 with
  | none => rw [hr] at hs; simp at hs
  | some rests =>
    rw [hr] at hs
    simp only [Option.map_some, Option.some.injEq] at hs
    subst hs
    exact stepOK_of_rests qd ns rests (measureRests_made qd k ns m.1 m.2 rests hr)

theorem fillRestsG_ok (qd : List (Int × Nat)) (uvs : List (Int × Int)) (ms : List (Rat × Rat)) (ns out : List GNote)
    (h : fillRestsG qd uvs ms ns = some out) : StepOK qd ns out := by
  apply fold_stepOK qd (fillMeasureG qd uvs) _ (fun m => rfl) ms ns out h
  intro ns m out hs
  unfold fillMeasureG at hs
  simp only at hs
  cases hr : measureRestsG qd uvs ns m.1 m.2 with
  | none => rw [hr] at hs; simp at hs
  | some rests =>
    rw [hr] at hs
    simp only [Option.map_some, Option.some.injEq] at hs
    subst hs
    exact stepOK_of_rests qd ns rests (measureRestsG_made qd uvs ns m.1 m.2 rests hr)

/-! ### Part 5: the rests of a voice in a measure cover exactly its uncovered times -/

def IsNat (q : Rat) : Prop := ∃ k : Nat, q = (k : Rat)

theorem between_entries (qd : List (Int × Nat)) (v : Int) (staffOf : Nat → Int) : ∀ (se ss : List GNote),
    (∀ o ∈ betweenRests qd v staffOf se ss, o = some [] ∨ ∃ sp ∈ betweenSpans se ss, ∃ staff,
        o = mkRests true sp.1 sp.2 (divsAt qd sp.1) v staff staffOf) ∧
    (∀ sp ∈ betweenSpans se ss, ∃ o ∈ betweenRests qd v staffOf se ss, ∃ staff,
        o = mkRests true sp.1 sp.2 (divsAt qd sp.1) v staff staffOf) := by
  intro se
  induction se with
  | nil => intro ss; simp [betweenRests, betweenSpans]
  | cons b se ih =>
    intro ss
    cases ss with
    | nil => simp [betweenRests, betweenSpans]
    | cons a ss =>
      obtain ⟨i1, i2⟩ := ih ss
      unfold betweenRests betweenSpans
      constructor
      · intro o ho
        rcases List.mem_cons.mp ho with rfl | ho
        · by_cases hc : a.start > b.stop
          · right
            refine ⟨(b.stop, a.start), ?_, b.staff, ?_⟩
            · rw [if_pos hc]; simp
            · rw [if_pos hc]
          · left; rw [if_neg hc]
        · rcases i1 o ho with h | ⟨sp, hsp, staff, hst⟩
          · exact Or.inl h
          · exact Or.inr ⟨sp, List.mem_append_right _ hsp, staff, hst⟩
      · intro sp hsp
        rcases List.mem_append.mp hsp with hsp | hsp
        · by_cases hc : a.start > b.stop
          · rw [if_pos hc] at hsp
            simp only [List.mem_singleton] at hsp
            subst hsp
            refine ⟨_, List.mem_cons_self, b.staff, ?_⟩
            rw [if_pos hc]
          · rw [if_neg hc] at hsp; simp at hsp
        · obtain ⟨o, ho, staff, hst⟩ := i2 sp hsp
          exact ⟨o, List.mem_cons_of_mem _ ho, staff, hst⟩

/-- the stretches have integer ends when the measure and the notes have -/
theorem span_nat (S E : Rat) (hS : IsNat S) (hE : IsNat E) (nv : List GNote)
    (hnat : ∀ n ∈ nv, IsNat n.start ∧ IsNat n.stop) :
    ∀ sp ∈ voiceSpans S E nv, ∃ a b : Nat, sp = ((a : Rat), (b : Rat)) ∧ a ≤ b := by
  have key : ∀ (x y : Rat), IsNat x → IsNat y → x < y → ∃ a b : Nat, (x, y) = ((a : Rat), (b : Rat)) ∧ a ≤ b := by
    rintro x y ⟨a, rfl⟩ ⟨b, rfl⟩ hlt
    exact ⟨a, b, rfl, by exact_mod_cast hlt.le⟩
  intro sp hsp
  unfold voiceSpans at hsp
  simp only at hsp
  split at hsp
  · rename_i a0 z ha0 hz
    have ha0m := (head_sortBy_le (·.start) nv a0 ha0).1
    have hzm := (getLast_sortBy_ge (·.stop) nv z hz).1
    rcases List.mem_append.mp hsp with hsp | hsp
    · split at hsp
      · rename_i hc
        simp only [List.mem_singleton] at hsp; subst hsp
        exact key _ _ hS (hnat a0 ha0m).1 hc
      · simp at hsp
    · rcases List.mem_append.mp hsp with hsp | hsp
      · split at hsp
        · rename_i hc
          simp only [List.mem_singleton] at hsp; subst hsp
          exact key _ _ (hnat z hzm).2 hE hc
        · simp at hsp
      · obtain ⟨i, b, a, hb, ha, hlt, rfl⟩ := (mem_betweenSpans _ _ sp).mp hsp
        have hbm : b ∈ nv := (sortBy_perm (·.stop) nv).mem_iff.mp (List.mem_of_getElem? hb)
        have ham : a ∈ nv := by
          rw [List.getElem?_tail] at ha
          exact (sortBy_perm (·.start) nv).mem_iff.mp (List.mem_of_getElem? ha)
        exact key _ _ (hnat b hbm).2 (hnat a ham).1 hlt
  · simp at hsp

/-- the entries `voiceRests` concatenates correspond to the stretches of `voiceSpans` -/
theorem voice_entries (qd : List (Int × Nat)) (S E : Rat) (v : Int) (nv rests : List GNote)
    (h : voiceRests qd S E v nv = some rests) :
    ∃ L : List (Option (List GNote)), catOpts L = some rests ∧
      (∀ o ∈ L, o = some [] ∨ ∃ sp ∈ voiceSpans S E nv, ∃ staff staffOf,
        o = mkRests true sp.1 sp.2 (divsAt qd sp.1) v staff staffOf) ∧
      (∀ sp ∈ voiceSpans S E nv, ∃ o ∈ L, ∃ staff staffOf,
        o = mkRests true sp.1 sp.2 (divsAt qd sp.1) v staff staffOf) := by
  unfold voiceRests at h
  unfold voiceSpans
  simp only at h ⊢
  split at h
  · rename_i a0 z ha0 hz
    simp only [ha0, hz]
    refine ⟨_, h, ?_, ?_⟩
    · intro o ho
      rcases List.mem_cons.mp ho with rfl | ho
      · by_cases hc : a0.start > S
        · right
          refine ⟨(S, a0.start), ?_, a0.staff, (fun _ => a0.staff), ?_⟩
          · rw [if_pos hc]; simp
          · rw [if_pos hc]
        · left; rw [if_neg hc]
      · rcases List.mem_cons.mp ho with rfl | ho
        · by_cases hc : z.stop < E
          · right
            refine ⟨(z.stop, E), ?_, z.staff, (fun _ => z.staff), ?_⟩
            · rw [if_pos hc]; simp
            · rw [if_pos hc]
          · left; rw [if_neg hc]
        · rcases (between_entries qd v _ _ _).1 o ho with h1 | ⟨sp, hsp, staff, hst⟩
          · exact Or.inl h1
          · exact Or.inr ⟨sp, List.mem_append_right _ (List.mem_append_right _ hsp), staff, _, hst⟩
    · intro sp hsp
      rcases List.mem_append.mp hsp with hsp | hsp
      · by_cases hc : a0.start > S
        · rw [if_pos hc] at hsp
          simp only [List.mem_singleton] at hsp; subst hsp
          exact ⟨_, List.mem_cons_self, a0.staff, (fun _ => a0.staff), by rw [if_pos hc]⟩
        · rw [if_neg hc] at hsp; simp at hsp
      · rcases List.mem_append.mp hsp with hsp | hsp
        · by_cases hc : z.stop < E
          · rw [if_pos hc] at hsp
            simp only [List.mem_singleton] at hsp; subst hsp
            exact ⟨_, List.mem_cons_of_mem _ List.mem_cons_self, z.staff, (fun _ => z.staff), by rw [if_pos hc]⟩
          · rw [if_neg hc] at hsp; simp at hsp
        · obtain ⟨o, ho, staff, hst⟩ := (between_entries qd v _ _ _).2 sp hsp
          exact ⟨o, List.mem_cons_of_mem _ (List.mem_cons_of_mem _ ho), staff, _, hst⟩
  · rename_i hno
    simp only [Option.some.injEq] at h
    subst h
    refine ⟨[], rfl, by simp, ?_⟩
    intro sp hsp
    split at hsp
    · rename_i a0 z ha0 hz
      exact (hno a0 z ha0 hz).elim
    · simp at hsp

/-- **one voice in one measure**: with integer times and divisions up to 2⁴⁰, the rests `voiceRests` makes cover a
    time of `[S, E)` iff no note of the voice does, and each carries the voice, and `{}` or a symbolic duration that
    lasts as long as the rest under the divisions in force at the start of its stretch -/
theorem voice_gaps (qd : List (Int × Nat)) (hbig : ∀ t, divsAt qd t ≤ 1099511627776) (S E : Rat) (hS : IsNat S) (hE : IsNat E)
    (v : Int) (nv : List GNote) (hne : nv ≠ [])
    (hnat : ∀ n ∈ nv, IsNat n.start ∧ IsNat n.stop) (hord : ∀ n ∈ nv, n.start ≤ n.stop)
    (rests : List GNote) (h : voiceRests qd S E v nv = some rests) :
    (∀ r ∈ rests, ∃ a : Rat, RestOK (divsAt qd a) v r) ∧
    ∀ t : Rat, S ≤ t → t < E →
      ((∃ r ∈ rests, r.start ≤ t ∧ t < r.stop) ↔ ∀ n ∈ nv, ¬ (n.start ≤ t ∧ t < n.stop)) := by
  obtain ⟨L, hcat, hL1, hL2⟩ := voice_entries qd S E v nv rests h
  obtain ⟨c1, c2⟩ := catOpts_some L rests hcat
  have hspec : ∀ sp ∈ voiceSpans S E nv, ∀ staff staffOf part,
      mkRests true sp.1 sp.2 (divsAt qd sp.1) v staff staffOf = some part →
      RTiles sp.1 sp.2 part ∧ ∀ r ∈ part, RestOK (divsAt qd sp.1) v r := by
    intro sp hsp staff staffOf part hp
    obtain ⟨a, b, rfl, hab⟩ := span_nat S E hS hE nv hnat sp hsp
    exact mkRests_spec true a b hab _ (hbig _) v staff staffOf part hp
  have hB : ∀ r ∈ rests, ∃ sp ∈ voiceSpans S E nv, ∃ part, r ∈ part ∧ RTiles sp.1 sp.2 part ∧
      ∀ r ∈ part, RestOK (divsAt qd sp.1) v r := by
    intro r hr
    obtain ⟨part, hp1, hp2⟩ := c2 r hr
    rcases hL1 _ hp1 with h0 | ⟨sp, hsp, staff, staffOf, hst⟩
    · simp only [Option.some.injEq] at h0; subst h0; simp at hp2
    · obtain ⟨t1, t2⟩ := hspec sp hsp staff staffOf part hst.symm
      exact ⟨sp, hsp, part, hp2, t1, t2⟩
  constructor
  · intro r hr
    obtain ⟨sp, _, part, hrp, _, hok⟩ := hB r hr
    exact ⟨sp.1, hok r hrp⟩
  · intro t hSt htE
    rw [← voiceSpans_exact S E nv hne hord t hSt htE]
    constructor
    · rintro ⟨r, hr, hc⟩
      obtain ⟨sp, hsp, part, hrp, htile, _⟩ := hB r hr
      exact ⟨sp, hsp, (rtiles_cover part _ _ htile t).mp ⟨r, hrp, hc⟩⟩
    · rintro ⟨sp, hsp, hc⟩
      obtain ⟨o, ho, staff, staffOf, hst⟩ := hL2 sp hsp
      obtain ⟨part, hp1, hp2⟩ := c1 o ho
      rw [hp1] at hst
      obtain ⟨htile, _⟩ := hspec sp hsp staff staffOf part hst.symm
      obtain ⟨r, hr, hcov⟩ := (rtiles_cover part _ _ htile t).mpr hc
      exact ⟨r, hp2 r hr, hcov⟩

/-! ### Part 6: a whole measure -/

theorem prevValue_le (B : Nat) : ∀ (rest : List (Int × Nat)) (cur : Nat) (t : Rat), cur ≤ B → (∀ e ∈ rest, e.2 ≤ B) →
    TimeMap.prevValue cur rest t ≤ B := by
  intro rest
  induction rest with
  | nil => intro cur t h _; exact h
  | cons e rest ih =>
    intro cur t h hr
    obtain ⟨t0, q⟩ := e
    unfold TimeMap.prevValue
    split
    · exact ih q t (hr (t0, q) List.mem_cons_self) (fun e he => hr e (List.mem_cons_of_mem _ he))
    · exact h

/-- the divisions `fill_rests` works with are bounded by the largest quarter duration of the part -/
theorem divsAt_le (qd : List (Int × Nat)) (B : Nat) (hB : 1 ≤ B) (h : ∀ e ∈ qd, e.2 ≤ B) (t : Rat) : divsAt qd t ≤ B := by
  unfold divsAt TimeMap.qdMap
  cases qd with
  | nil => exact hB
  | cons e rest =>
    obtain ⟨t0, q0⟩ := e
    exact prevValue_le B rest q0 t (h (t0, q0) List.mem_cons_self) (fun e he => h e (List.mem_cons_of_mem _ he))

theorem compositeRests_attr (div : Nat) (v staff : Int) (staffOf : Nat → Int) (hst : ∀ j, staffOf j = staff) :
    ∀ (l : List SymDur) (j : Nat) (st : Rat) (rests : List GNote), compositeRests div v staffOf j st l = some rests →
    ∀ r ∈ rests, r.voice = v ∧ r.staff = staff := by
  intro l
  induction l with
  | nil => intro j st rests h; simp only [compositeRests, Option.some.injEq] at h; subst h; simp
  | cons sd rest ih =>
    intro j st rests h
    unfold compositeRests at h
    split at h
    · simp at h
    · rename_i x hx
      cases hr : compositeRests div v staffOf (j + 1) (st + x) rest with
      | none => rw [hr] at h; simp at h
      | some tl =>
        rw [hr] at h
        simp only [Option.map_some, Option.some.injEq] at h
        subst h
        intro r hr'
        rcases List.mem_cons.mp hr' with rfl | hr'
        · exact ⟨rfl, hst j⟩
        · exact ih _ _ _ hr r hr'

/-- with one staff for all members, every rest `mkRests` makes has the voice and the staff it was asked for -/
theorem mkRests_attr (com : Bool) (a b : Rat) (div : Nat) (v staff : Int) (staffOf : Nat → Int) (hst : ∀ j, staffOf j = staff)
    (rests : List GNote) (h : mkRests com a b div v staff staffOf = some rests) :
    ∀ r ∈ rests, r.voice = v ∧ r.staff = staff := by
  unfold mkRests at h
  split at h
  · simp at h
  · exact compositeRests_attr div v staff staffOf hst _ _ _ _ h
  · simp only [Option.some.injEq] at h
    subst h
    intro r hr
    simp only [List.mem_singleton] at hr
    subst hr; exact ⟨rfl, rfl⟩

theorem compositeRests_voice (div : Nat) (v : Int) (staffOf : Nat → Int) :
    ∀ (l : List SymDur) (j : Nat) (st : Rat) (rests : List GNote), compositeRests div v staffOf j st l = some rests →
    ∀ r ∈ rests, r.voice = v := by
  intro l
  induction l with
  | nil => intro j st rests h; simp only [compositeRests, Option.some.injEq] at h; subst h; simp
  | cons sd rest ih =>
    intro j st rests h
    unfold compositeRests at h
    split at h
    · simp at h
    · rename_i x hx
      cases hr : compositeRests div v staffOf (j + 1) (st + x) rest with
      | none => rw [hr] at h; simp at h
      | some tl =>
        rw [hr] at h
        simp only [Option.map_some, Option.some.injEq] at h
        subst h
        intro r hr'
        rcases List.mem_cons.mp hr' with rfl | hr'
        · rfl
        · exact ih _ _ _ hr r hr'

theorem mkRests_voice (com : Bool) (a b : Rat) (div : Nat) (v staff : Int) (staffOf : Nat → Int)
    (rests : List GNote) (h : mkRests com a b div v staff staffOf = some rests) : ∀ r ∈ rests, r.voice = v := by
  unfold mkRests at h
  split at h
  · simp at h
  · exact compositeRests_voice div v staffOf _ _ _ _ h
  · simp only [Option.some.injEq] at h
    subst h
    intro r hr
    simp only [List.mem_singleton] at hr
    subst hr; rfl

theorem voiceRests_voice (qd : List (Int × Nat)) (S E : Rat) (v : Int) (nv rests : List GNote)
    (h : voiceRests qd S E v nv = some rests) : ∀ r ∈ rests, r.voice = v := by
  obtain ⟨L, hcat, hL1, _⟩ := voice_entries qd S E v nv rests h
  intro r hr
  obtain ⟨part, hp1, hp2⟩ := (catOpts_some L rests hcat).2 r hr
  rcases hL1 _ hp1 with h0 | ⟨sp, _, staff, staffOf, hst⟩
  · simp only [Option.some.injEq] at h0; subst h0; simp at hp2
  · exact mkRests_voice _ _ _ _ _ _ _ part hst.symm r hp2

theorem staffRests_voice (qd : List (Int × Nat)) (k : Nat) (S E : Rat) (free : Int) (staffs : List Int) (out : List GNote)
    (h : staffRests qd k S E free staffs = some out) : ∀ r ∈ out, r.voice = free := by
  unfold staffRests at h
  split at h
  · intro r hr
    obtain ⟨part, hp1, hp2⟩ := (catOpts_some _ out h).2 r hr
    obtain ⟨i, _, hi⟩ := List.mem_map.mp hp1
    simp only at hi
    split at hi
    · simp only [Option.some.injEq] at hi; subst hi; simp at hp2
    · exact mkRests_voice _ _ _ _ _ _ _ part hi r hp2
  · simp only [Option.some.injEq] at h; subst h; intro r hr; simp at hr

theorem getLast_sortedKeys_max (l : List Int) (m : Int) (h : (TimeMap.sortedKeys l).getLast? = some m) :
    ∀ v ∈ TimeMap.sortedKeys l, v ≤ m := by
  have hp := C02Proofs.pairwise_sortedKeys l
  obtain ⟨init, hinit⟩ := List.getLast?_eq_some_iff.mp h
  rw [hinit] at hp ⊢
  intro v hv
  rcases List.mem_append.mp hv with hv | hv
  · exact le_of_lt ((List.pairwise_append.mp hp).2.2 v hv m (by simp))
  · simp only [List.mem_singleton] at hv; subst hv; exact le_refl _

/-- **one measure, measure-wise mode**: for every voice that has something starting in the measure `[S, E)`, the
    rests of that voice which `_fill_rests_within_measure` adds cover a time of the measure iff no object of the
    voice that starts in the measure covers it (integer times, divisions up to 2⁴⁰) -/
theorem measure_gaps (qd : List (Int × Nat)) (hbig : ∀ t, divsAt qd t ≤ 1099511627776) (k : Nat) (ns : List GNote)
    (S E : Rat) (hS : IsNat S) (hE : IsNat E)
    (hnat : ∀ n ∈ window S E ns, IsNat n.start ∧ IsNat n.stop) (hord : ∀ n ∈ window S E ns, n.start ≤ n.stop)
    (rests : List GNote) (h : measureRests qd k ns S E = some rests) (v : Int) (hv : ∃ n ∈ window S E ns, n.voice = v) :
    ∀ t : Rat, S ≤ t → t < E →
      ((∃ r ∈ rests, r.voice = v ∧ r.start ≤ t ∧ t < r.stop) ↔
        ∀ n ∈ window S E ns, n.voice = v → ¬ (n.start ≤ t ∧ t < n.stop)) := by
  intro t hSt htE
  unfold measureRests at h
  simp only at h
  obtain ⟨c1, c2⟩ := catOpts_some _ rests h
  have hvmem : v ∈ TimeMap.sortedKeys ((window S E ns).map (·.voice)) := by
    rw [C02Proofs.mem_sortedKeys]
    obtain ⟨n, hn, hnv⟩ := hv
    exact List.mem_map.mpr ⟨n, hn, hnv⟩
  set nv := (window S E ns).filter (fun n => decide (n.voice = v)) with hnv
  have hent : voiceRests qd S E v nv ∈
      (staffRests qd k S E (freeVoice (TimeMap.sortedKeys ((window S E ns).map (·.voice))))
          (TimeMap.sortedKeys ((window S E ns).map (·.staff)))) ::
        (TimeMap.sortedKeys ((window S E ns).map (·.voice))).map
          (fun v => voiceRests qd S E v ((window S E ns).filter (fun n => decide (n.voice = v)))) :=
    List.mem_cons_of_mem _ (List.mem_map.mpr ⟨v, hvmem, rfl⟩)
  obtain ⟨partv, hpv1, hpv2⟩ := c1 _ hent
  have hnvne : nv ≠ [] := by
    obtain ⟨n, hn, hnv'⟩ := hv
    intro he
    have : n ∈ nv := List.mem_filter.mpr ⟨hn, by simpa using hnv'⟩
    rw [he] at this; simp at this
  have hsub : ∀ n ∈ nv, n ∈ window S E ns := fun n hn => (List.mem_filter.mp hn).1
  obtain ⟨_, hg⟩ := voice_gaps qd hbig S E hS hE v nv hnvne (fun n hn => hnat n (hsub n hn))
    (fun n hn => hord n (hsub n hn)) partv hpv1
  have hiff : (∀ n ∈ nv, ¬ (n.start ≤ t ∧ t < n.stop)) ↔
      ∀ n ∈ window S E ns, n.voice = v → ¬ (n.start ≤ t ∧ t < n.stop) := by
    constructor
    · intro h1 n hn hnv'; exact h1 n (List.mem_filter.mpr ⟨hn, by simpa using hnv'⟩)
    · intro h1 n hn
      have := List.mem_filter.mp hn
      exact h1 n this.1 (by simpa using this.2)
  rw [← hiff, ← hg t hSt htE]
  constructor
  · rintro ⟨r, hr, hrv, hc⟩
    obtain ⟨part, hp1, hp2⟩ := c2 r hr
    rcases List.mem_cons.mp hp1 with hp1 | hp1
    · -- a rest of an empty staff has a voice above all voices of the measure
      have hfree := staffRests_voice qd k S E _ _ part hp1.symm r hp2
      exfalso
      cases hl : (TimeMap.sortedKeys ((window S E ns).map (·.voice))).getLast? with
      | none =>
        rw [List.getLast?_eq_none_iff] at hl
        rw [hl] at hvmem; simp at hvmem
      | some m =>
        unfold freeVoice at hfree
        rw [hl] at hfree
        simp only at hfree
        have := getLast_sortedKeys_max _ m hl v hvmem
        omega
    · obtain ⟨v', _, hv'⟩ := List.mem_map.mp hp1
      have hrv' := voiceRests_voice qd S E v' _ part hv' r hp2
      have : v' = v := by rw [← hrv', hrv]
      subst this
      rw [hpv1] at hv'
      simp only [Option.some.injEq] at hv'
      subst hv'
      exact ⟨r, hp2, hc⟩
  · rintro ⟨r, hr, hc⟩
    exact ⟨r, hpv2 r hr, voiceRests_voice qd S E v nv partv hpv1 r hr, hc⟩

/-- **empty staves**: when fewer distinct staff values occur in the measure than the part has staves, every staff
    `1 .. nstaves` on which nothing starts is covered over the whole measure by rests of one voice that is not used
    in the measure (in a measure where nothing starts at all: every staff, voice 1 — repair C11-7) -/
theorem staff_gaps (qd : List (Int × Nat)) (hbig : ∀ t, divsAt qd t ≤ 1099511627776) (k : Nat) (ns : List GNote)
    (S E : Nat) (hSE : S ≤ E) (rests : List GNote) (h : measureRests qd k ns (S : Rat) (E : Rat) = some rests)
    (hfew : (TimeMap.sortedKeys ((window (S : Rat) (E : Rat) ns).map (·.staff))).length < k)
    (s : Nat) (hs1 : 1 ≤ s) (hsk : s ≤ k) (hempty : ∀ n ∈ window (S : Rat) (E : Rat) ns, n.staff ≠ (s : Int)) :
    ∃ free : Int, (∀ n ∈ window (S : Rat) (E : Rat) ns, n.voice < free) ∧
      ∀ t : Rat, (S : Rat) ≤ t → t < (E : Rat) → ∃ r ∈ rests, r.staff = (s : Int) ∧ r.voice = free ∧ r.start ≤ t ∧ t < r.stop := by
  unfold measureRests at h
  simp only at h
  generalize hfree : freeVoice (TimeMap.sortedKeys ((window (S : Rat) (E : Rat) ns).map (·.voice))) = free at h
  obtain ⟨c1, _⟩ := catOpts_some _ rests h
  obtain ⟨sp, hsp1, hsp2⟩ := c1 _ List.mem_cons_self
  refine ⟨free, ?_, ?_⟩
  · intro n hn
    have hm : n.voice ∈ TimeMap.sortedKeys ((window (S : Rat) (E : Rat) ns).map (·.voice)) := by
      rw [C02Proofs.mem_sortedKeys]; exact List.mem_map.mpr ⟨n, hn, rfl⟩
    cases hl : (TimeMap.sortedKeys ((window (S : Rat) (E : Rat) ns).map (·.voice))).getLast? with
    | none =>
      rw [List.getLast?_eq_none_iff] at hl
      rw [hl] at hm; simp at hm
    | some m =>
      unfold freeVoice at hfree
      rw [hl] at hfree
      simp only at hfree
      have := getLast_sortedKeys_max _ m hl _ hm
      omega
  · intro t h1 h2
    unfold staffRests at hsp1
    rw [if_pos hfew] at hsp1
    obtain ⟨d1, _⟩ := catOpts_some _ sp hsp1
    have hmem : (if (TimeMap.sortedKeys ((window (S : Rat) (E : Rat) ns).map (·.staff))).contains (((s - 1 : Nat) : Int) + 1) then some []
        else mkRests true (S : Rat) (E : Rat) (divsAt qd (S : Rat)) free (((s - 1 : Nat) : Int) + 1) (fun _ => ((s - 1 : Nat) : Int) + 1)) ∈
        (List.range k).map (fun (i : Nat) =>
          let staff : Int := (i : Int) + 1
          if (TimeMap.sortedKeys ((window (S : Rat) (E : Rat) ns).map (·.staff))).contains staff then some []
          else mkRests true (S : Rat) (E : Rat) (divsAt qd (S : Rat)) free staff (fun _ => staff)) :=
      List.mem_map.mpr ⟨s - 1, List.mem_range.mpr (by omega), rfl⟩
    have hcast : ((s - 1 : Nat) : Int) + 1 = (s : Int) := by omega
    rw [hcast] at hmem
    have hnot : (TimeMap.sortedKeys ((window (S : Rat) (E : Rat) ns).map (·.staff))).contains (s : Int) = false := by
      rw [Bool.eq_false_iff]
      intro hc
      have hc' : (s : Int) ∈ TimeMap.sortedKeys ((window (S : Rat) (E : Rat) ns).map (·.staff)) := by
        simpa using hc
      rw [C02Proofs.mem_sortedKeys] at hc'
      obtain ⟨n, hn, hns⟩ := List.mem_map.mp hc'
      exact hempty n hn hns
    rw [hnot] at hmem
    simp only [Bool.false_eq_true, if_false] at hmem
    obtain ⟨part, hp1, hp2⟩ := d1 _ hmem
    obtain ⟨htile, _⟩ := mkRests_spec true S E hSE _ (hbig _) _ _ _ part hp1
    obtain ⟨r, hr, hcov⟩ := (rtiles_cover part _ _ htile t).mpr ⟨h1, h2⟩
    have hattr := mkRests_attr true _ _ _ _ _ _ (fun _ => rfl) part hp1 r hr
    exact ⟨r, hsp2 r (hp2 r hr), hattr.2, hattr.1, hcov⟩

end C11Rests
