/-
C01 helper lemmas, part 3: the four state-changing operations keep `InvCore none ∧ links`.
-/
import PartituraModel.Proofs.C01Inv

namespace TL

theorem cleanupPoint_preserves_objs {s s' : Part} {t : Int} (h : cleanupPoint s t = .ok s') :
    s'.objs = s.objs := by
  unfold cleanupPoint at h
  cases hf : findPoint s.points t with
  | none => simp [hf] at h
  | some p =>
    simp only [hf] at h
    split at h
    · cases hr : removePoint s.points t with
      | error e => simp [hr, bind, Except.bind] at h
      | ok pts =>
        simp only [hr, bind, Except.bind, pure, Except.pure, Except.ok.injEq] at h
        subst h; rfl
    · simp only [pure, Except.pure, Except.ok.injEq] at h
      subst h; rfl

theorem removeSide_eq_cleanup {s : Part} {sd : Side} {o : ObjRef} {t : Int}
    (hat : (getObj s.objs o).at sd = some t) :
    removeSide s sd o = cleanupPoint (unregister s sd t o) t := by
  unfold removeSide
  simp only [hat]
  have e := cleanupPoint_objs
    { s with points := modifyPoint s.points t (fun p => p.setReg sd (regRemove (p.reg sd) o)) } t
    (setObj s.objs o (fun e => e.setAt sd none))
  unfold unregister
  rw [e]
  cases hc : cleanupPoint
      { s with points := modifyPoint s.points t (fun p => p.setReg sd (regRemove (p.reg sd) o)) } t with
  | error err => rfl
  | ok s2 =>
    have := cleanupPoint_preserves_objs hc
    simp only [bind, Except.bind, pure, Except.pure, Except.map]
    rw [this]

/-- the pair "all clauses but links" + links -/
def Good (s : Part) : Prop := InvCore none s ∧ LinksFrom none s.points

theorem good_iff_inv (s : Part) : Good s ↔ Inv s := (inv_iff s).symm

theorem addSide_spec {s : Part} (h : Good s) {sd : Side} {t : Int} {o : ObjRef} (ht : 0 ≤ t)
    (hfree : (getObj s.objs o).at sd = none) :
    ∃ s', addSide s sd t o = .ok s' ∧ Good s' ∧ s'.qtab = s.qtab
      ∧ s'.objs = setObj s.objs o (fun e => e.setAt sd (some t)) ∧ s'.requested = s.requested
      ∧ (∀ x, x ∈ s'.times ↔ x ∈ s.times ∨ x = t) := by
  obtain ⟨s1, he, hc, hl, hmem, hobjs, hq, hr, htimes, -, -⟩ := ensurePoint_spec h.1 h.2 ht
  rw [addSide_eq, he]
  refine ⟨register s1 sd t o, rfl, ⟨register_inv hc hmem (by rw [hobjs]; exact hfree),
    (register_links s1 sd t o).mpr hl⟩, hq, ?_, hr, ?_⟩
  · simp [register, hobjs]
  · intro x
    rw [register_times]
    exact htimes x

theorem removeSide_spec {s : Part} (h : Good s) (sd : Side) (o : ObjRef) :
    ∃ s', removeSide s sd o = .ok s' ∧ Good s' ∧ s'.qtab = s.qtab
      ∧ s'.objs = (match (getObj s.objs o).at sd with
          | none => s.objs
          | some _ => setObj s.objs o (fun e => e.setAt sd none)) := by
  cases hat : (getObj s.objs o).at sd with
  | none =>
    refine ⟨s, ?_, h, rfl, rfl⟩
    unfold removeSide
    simp [hat, pure, Except.pure]
  | some t =>
    rw [removeSide_eq_cleanup hat]
    have hu := unregister_inv h.1 hat
    have hlu := (unregister_links s sd t o).mpr h.2
    have htu : t ∈ (unregister s sd t o).times := by
      rw [unregister_times]
      exact h.1.getObj_refOn sd o hat
    obtain ⟨s', he, hc, hl, hobjs, hq⟩ := cleanupPoint_spec hu hlu htu
    exact ⟨s', he, ⟨hc, hl⟩, by rw [hq]; rfl, by rw [hobjs]; rfl⟩

end TL
