/-
C15: lemmas about the call as a whole (Model/MergeCall.lean): flattening of arguments with foreign objects,
`mergeChecked` / `mergeCall` against `mergeParts`, more about `distinctParts`.
-/
import PartituraModel.Model.MergeCall
import PartituraModel.Proofs.C15Order

namespace C15
open Model.Merge

-- ---------------------------------------------------------------- flattening

mutual
  theorem xflattenTree_toX : ∀ t : Tree, xflattenTree t.toX = some (flattenTree t)
    | .part p => by simp [Tree.toX, xflattenTree, flattenTree]
    | .group cs => by simp [Tree.toX, xflattenTree, flattenTree, xflattenList_toX cs]
  theorem xflattenList_toX : ∀ ts : List Tree, xflattenList (Tree.listToX ts) = some (flattenList ts)
    | [] => by simp [Tree.listToX, xflattenList, flattenList]
    | t :: ts => by simp [Tree.listToX, xflattenList, flattenList, xflattenTree_toX t, xflattenList_toX ts]
end

theorem xiterParts_toX (s : Shape) : xiterParts s.toX = some (iterParts s) := by
  cases s with
  | one t => simp [Shape.toX, xiterParts, iterParts, xflattenTree_toX]
  | many ts => simp [Shape.toX, xiterParts, iterParts, xflattenList_toX]

theorem xflattenList_parts (l : List APart) : xflattenList (l.map .part) = some l := by
  induction l with
  | nil => simp [xflattenList]
  | cons p ps ih => simp [xflattenList, xflattenTree, ih]

/-- one element that cannot be flattened spoils the list, wherever it stands -/
theorem xflattenList_none_of_mem {ts : List XTree} {t : XTree} (ht : t ∈ ts) (hbad : xflattenTree t = none) :
    xflattenList ts = none := by
  induction ts with
  | nil => simp at ht
  | cons a as ih =>
    rcases List.mem_cons.mp ht with rfl | h
    · simp [xflattenList, hbad]
    · simp only [xflattenList, ih h]
      cases xflattenTree a <;> rfl

theorem xargParts_toX (a : Arg) : (xargParts a.toX).toOption = argParts a := by
  cases a with
  | plain s => simp [Arg.toX, xargParts, xiterParts_toX, argParts, Except.toOption]
  | score s ops =>
    simp only [Arg.toX, xargParts, argParts]
    cases runOps (mkScore s) ops <;> simp [Except.toOption]

-- ---------------------------------------------------------------- the checks

theorem mergeChecked_toOption (m : Mode) (parts : List APart) :
    (mergeChecked m parts).toOption = mergeParts m (distinctParts parts) := by
  unfold mergeChecked
  match h : distinctParts parts with
  | [] => simp [mergeParts, Except.toOption]
  | [p] => simp [mergeParts, Except.toOption]
  | p :: q :: rest =>
    simp only
    by_cases hd : ((p :: q :: rest).all fun p => 0 < p.divs) = true
    · simp only [hd, Bool.not_true, Bool.false_eq_true, if_false]
      cases mergeParts m (p :: q :: rest) <;> simp [Except.toOption]
    · simp only [hd, Bool.not_false, if_true, Except.toOption]
      rw [mergeParts_two]
      simp [hd]

theorem modeOf_cases (r : String) :
    (r = "voice" ∧ modeOf r = some .voice) ∨ (r = "staff" ∧ modeOf r = some .staff)
      ∨ (r = "auto" ∧ modeOf r = some .auto) ∨ (r ∉ ["voice", "staff", "auto"] ∧ modeOf r = none) := by
  unfold modeOf
  by_cases h1 : r = "voice"
  · left; subst h1; exact ⟨rfl, by decide⟩
  · by_cases h2 : r = "staff"
    · right; left; subst h2; exact ⟨rfl, by decide⟩
    · by_cases h3 : r = "auto"
      · right; right; left; subst h3; exact ⟨rfl, by decide⟩
      · right; right; right
        refine ⟨by simp [h1, h2, h3], ?_⟩
        simp [h1, h2, h3]

theorem values_contains_iff (r : String) :
    Gen.C15.reassignValues.contains r = true ↔ r ∈ ["voice", "staff", "auto"] := by
  rw [List.contains_iff_mem]
  constructor <;> intro h <;> simp only [Gen.C15.reassignValues, List.mem_cons, List.not_mem_nil, or_false] at h ⊢ <;>
    tauto

theorem mergeCall_of_mode {r : String} {m : Mode} (hm : modeOf r = some m) (a : XArg) :
    mergeCall (some r) a = (xargParts a).bind (mergeChecked m) := by
  have hv : Gen.C15.reassignValues.contains r = true := by
    rw [values_contains_iff]
    rcases modeOf_cases r with ⟨h, _⟩ | ⟨h, _⟩ | ⟨h, _⟩ | ⟨_, h⟩
    · simp [h]
    · simp [h]
    · simp [h]
    · rw [h] at hm; cases hm
  simp only [mergeCall, Option.getD_some, hv, Bool.not_true, Bool.false_eq_true, if_false, hm]
  cases xargParts a <;> rfl

-- ---------------------------------------------------------------- more about distinctParts

theorem filter_distinctParts (k : Nat) : ∀ xs : List APart,
    (distinctParts xs).filter (fun q => q.pid != k) = distinctParts (xs.filter fun q => q.pid != k)
  | [] => rfl
  | x :: xs => by
    have ih := filter_distinctParts k xs
    rw [distinctParts_cons]
    by_cases hx : x.pid = k
    · have h1 : (x.pid != k) = false := by simp [hx]
      simp only [List.filter_cons, h1, Bool.false_eq_true, if_false, List.filter_filter]
      rw [← ih]
      congr 1
      funext q
      simp [hx]
    · have h1 : (x.pid != k) = true := by simp [hx]
      simp only [List.filter_cons, h1, if_true, distinctParts_cons, List.filter_filter]
      rw [← ih, List.filter_filter]
      congr 2
      funext q
      exact Bool.and_comm _ _

/-- listing again a Part object that was listed before changes nothing, wherever it is listed again -/
theorem distinctParts_relisted : ∀ (l r : List APart) (p : APart), (∃ q ∈ l, q.pid = p.pid) →
    distinctParts (l ++ [p] ++ r) = distinctParts (l ++ r)
  | [], _, _, h => by simp at h
  | a :: l, r, p, h => by
    obtain ⟨q, hq, hqp⟩ := h
    simp only [List.cons_append, distinctParts_cons]
    congr 1
    by_cases ha : a.pid = p.pid
    · rw [filter_distinctParts, filter_distinctParts]
      congr 1
      simp only [List.filter_append]
      have : [p].filter (fun q => q.pid != a.pid) = [] := by simp [ha]
      rw [this, List.append_nil]
    · rcases List.mem_cons.mp hq with rfl | hq'
      · exact absurd hqp ha
      · have := distinctParts_relisted l r p ⟨q, hq', hqp⟩
        simp only [List.append_assoc, List.cons_append, List.nil_append] at this ⊢
        rw [this]

end C15
