/-
Helper lemmas for C05, inverse direction: what `fromArray` returns and what the table of the
created part holds.
-/
import PartituraModel.Proofs.C05Rows

namespace NoteArray

open List

theorem finish_ok (d : Nat) (l : List (Int × Int × Int)) (d' : Nat) (l' : List (Int × Int × Int))
    (h : finish d l = .ok (d', l')) :
    d' = d ∧ l' = l ∧ ∀ x ∈ l, 0 ≤ x.1 ∧ 0 ≤ x.2.1 := by
  unfold finish at h
  split at h
  · cases h
  · split at h
    · cases h
    · rename_i h1 h2
      cases h
      refine ⟨rfl, rfl, ?_⟩
      intro x hx
      simp only [any_eq_true, decide_eq_true_eq, not_exists, not_and, not_lt] at h1 h2
      exact ⟨h2 x hx, h1 x hx⟩

theorem sortArr_perm (hasDiv : Bool) (a : List ARow) : sortArr hasDiv a ~ a := isort_perm _ a

/-- with division columns the notes of the new part are the array's (onset_div, duration_div,
    pitch) triples, none negative -/
theorem fromArray_div (hb ht : Bool) (a : List ARow) (dv : Option Nat) (d : Nat)
    (l : List (Int × Int × Int)) (h : fromArray hb true ht a dv = .ok (d, l)) :
    l ~ a.map divTriple ∧ ∀ x ∈ l, 0 ≤ x.1 ∧ 0 ≤ x.2.1 := by
  have key : ∀ d0, finish d0 ((sortArr true a).map divTriple) = .ok (d, l) →
      l ~ a.map divTriple ∧ ∀ x ∈ l, 0 ≤ x.1 ∧ 0 ≤ x.2.1 := by
    intro d0 hf
    obtain ⟨_, hl, hnn⟩ := finish_ok _ _ _ _ hf
    subst hl
    exact ⟨(sortArr_perm true a).map divTriple, hnn⟩
  unfold fromArray at h
  split at h
  · cases h
  · split at h
    · cases h
    · simp only [Bool.not_true, Bool.false_eq_true, ↓reduceIte] at h
      split at h
      · split at h
        · cases h
        · split at h
          · cases h
          · exact key _ h
      · split at h
        · exact key _ h
        · split at h
          · cases h
          · exact key _ h

/-- with division columns and a `divs` argument the new part has exactly these divisions -/
theorem fromArray_div_divs (hb ht : Bool) (a : List ARow) (dv d : Nat)
    (l : List (Int × Int × Int)) (h : fromArray hb true ht a (some dv) = .ok (d, l)) : d = dv := by
  unfold fromArray at h
  split at h
  · cases h
  · split at h
    · cases h
    · simp only [Bool.not_true, Bool.false_eq_true, ↓reduceIte] at h
      split at h
      · split at h
        · cases h
        · exact (finish_ok _ _ _ _ h).1
      · exact (finish_ok _ _ _ _ h).1

-- ------------------------------------------------------------------ the created part

theorem mkNotes_forall₂ (spell : Int → String × Int × Int) :
    ∀ (l : List (Int × Int × Int)) (i : Nat),
      Forall₂ (fun x n => ∃ j, n = mkNote spell j x) l (mkNotes spell i l) := by
  intro l
  induction l with
  | nil => intro i; exact Forall₂.nil
  | cons x l ih => intro i; exact Forall₂.cons ⟨i, rfl⟩ (ih (i + 1))

theorem mkNotes_all (spell : Int → String × Int × Int) :
    ∀ (l : List (Int × Int × Int)) (i : Nat), ∀ n ∈ mkNotes spell i l, ∃ j x, n = mkNote spell j x := by
  intro l
  induction l with
  | nil => intro i n h; simp [mkNotes] at h
  | cons x l ih =>
    intro i n h
    rcases mem_cons.mp h with rfl | h
    · exact ⟨i, x, rfl⟩
    · exact ih (i + 1) n h

theorem notesTied_mkNotes (spell : Int → String × Int × Int) (l : List (Int × Int × Int)) (i : Nat) :
    notesTied (mkNotes spell i l) = mkNotes spell i l := by
  unfold notesTied
  rw [filter_eq_self]
  intro n hn
  obtain ⟨j, x, rfl⟩ := mkNotes_all spell l i n hn
  unfold Note.pitched mkNote
  by_cases hx : x.2.1 > 0 <;> simp [hx]

theorem durationTied_untied (notes : List Note) (n : Note) (h : n.tieNext = none) (hl : notes ≠ []) :
    durationTied notes n = some n.dur := by
  unfold durationTied
  cases notes with
  | nil => exact absurd rfl hl
  | cons a l => simp [chainFrom, h, durSum]

theorem forall₂_compose {α β γ : Type} {A : α → β → Prop} {B : β → γ → Prop} {C : α → γ → Prop} :
    ∀ {l : List α} {m : List β} {r : List γ}, Forall₂ A l m → Forall₂ B m r →
      (∀ x n y, x ∈ l → n ∈ m → A x n → B n y → C x y) → Forall₂ C l r := by
  intro l m r hA
  induction hA generalizing r with
  | nil => intro hB _; cases hB; exact Forall₂.nil
  | cons ha _ ih =>
    intro hB hC
    cases hB with
    | cons hb hB' =>
      refine Forall₂.cons (hC _ _ _ mem_cons_self mem_cons_self ha hb) (ih hB' ?_)
      intro x n y hx hn
      exact hC x n y (mem_cons_of_mem _ hx) (mem_cons_of_mem _ hn)

theorem forall₂_eq_map {α β : Type} (f : β → α) :
    ∀ {l : List α} {r : List β}, Forall₂ (fun x y => f y = x) l r → r.map f = l := by
  intro l r h
  induction h with
  | nil => rfl
  | cons hab _ ih => simp [hab, ih]

def rowTriple (r : Row) : Int × Int × Int := (r.onsetDiv, r.durDiv, r.pitch)

/-- the table of the created part, before sorting, holds the triples the part was created from -/
theorem rows_createPart (d : Nat) (l : List (Int × Int × Int)) (M : Maps)
    (spell : Int → String × Int × Int) (o : Opts) (out : List Row)
    (hspell : ∀ x ∈ l, Model.spellingToMidi (spell x.2.2).1 (some (spell x.2.2).2.1) (spell x.2.2).2.2 = some x.2.2)
    (h : rows (createPart d l M spell) o = some out) :
    out.map rowTriple ~ l := by
  obtain ⟨dv, rs, _, hout, hf⟩ := rows_structure _ _ _ h
  have hnotes : (createPart d l M spell).notes = mkNotes spell 0 l := rfl
  rw [hnotes, notesTied_mkNotes] at hf
  have hC : Forall₂ (fun x r => rowTriple r = x) l rs := by
    apply forall₂_compose (mkNotes_forall₂ spell l 0) hf
    intro x n r hx hn ⟨j, hj⟩ ⟨d', pch, m, hd, hp, _, hr⟩
    have hne : mkNotes spell 0 l ≠ [] := by
      intro he; rw [he] at hn; simp at hn
    have hd2 := durationTied_untied (mkNotes spell 0 l) n (by rw [hj]; rfl) hne
    rw [hd] at hd2
    have hdd : d' = n.dur := by simpa using hd2
    have hsp := hspell x hx
    subst hj
    have hpp : pch = x.2.2 := by
      have : Model.spellingToMidi (mkNote spell j x).step (mkNote spell j x).alter (mkNote spell j x).octave
          = some x.2.2 := hsp
      rw [hp] at this
      simpa using this
    subst hr
    unfold rowTriple finalRow mkRow
    simp only [hdd, hpp]
    show ((mkNote spell j x).onset, (mkNote spell j x).onset + (mkNote spell j x).dur - (mkNote spell j x).onset, x.2.2) = x
    have : (mkNote spell j x).onset = x.1 := rfl
    have h2 : (mkNote spell j x).dur = x.2.1 := rfl
    rw [this, h2]
    obtain ⟨a, b, c⟩ := x
    simp
  have hm := forall₂_eq_map rowTriple hC
  rw [hout, ← hm]
  exact ((isort_perm _ _).trans (isort_perm _ _)).map rowTriple

end NoteArray
