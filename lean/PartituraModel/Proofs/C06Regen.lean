/-
C06 helper lemmas (round 3): list plumbing for the loaded performance, `adjust_time` under a constant tempo,
the half-tick bound, membership in the exporter's insertion list.
-/
import PartituraModel.Model.PerfMidi
import PartituraModel.Model.PerfMidiRegen
import PartituraModel.Proofs.C06Adjust
import PartituraModel.Proofs.Round

namespace C06Regen
open Model Model.PerfMidi C06Adjust

theorem zip3_zipIdx {α β γ : Type} (l : List α) (k : Nat) (f : α × Nat → β) (g : α × Nat → γ) :
    l.zip (((l.zipIdx k).map f).zip ((l.zipIdx k).map g)) = (l.zipIdx k).map fun p => (p.1, f p, g p) := by
  induction l generalizing k with
  | nil => rfl
  | cons a l ih => simp [List.zipIdx_cons, ih]

theorem mapM_all_some {α β : Type} (f : α → Option β) (g : α → β) (l : List α) (h : ∀ a ∈ l, f a = some (g a)) :
    l.mapM f = some (l.map g) := by
  induction l with
  | nil => rfl
  | cons a l ih =>
    rw [List.mapM_cons, h a (List.mem_cons_self), ih (fun b hb => h b (List.mem_cons_of_mem _ hb))]
    rfl

/-- the loop of `adjust_time` under a constant tempo is linear in the tick -/
theorem adjustLoop_const (ppq : Nat) (k : Int) (time : Rat) (lt : Int) (m : Nat) (tc : List (Int × Nat))
    (h : ∀ c ∈ tc, c.2 = m) : adjustLoop k ppq time lt m tc = time + ((k - lt : Int) : Rat) * unit ppq m := by
  induction tc generalizing time lt with
  | nil => unfold adjustLoop; rfl
  | cons c rest ih =>
    obtain ⟨ct, m'⟩ := c
    have hm : m' = m := h (ct, m') List.mem_cons_self
    subst hm
    unfold adjustLoop
    split
    · rfl
    · rw [ih _ _ (fun c hc => h c (List.mem_cons_of_mem _ hc)), tickToSec_eq]
      push_cast
      ring

/-- a time converted to the nearest tick and back is at most half a tick away -/
theorem half_tick (mpq ppq : Nat) (hm : 0 < mpq) (hp : 0 < ppq) (t : Rat) :
    |tickToSec (quant mpq ppq t) mpq ppq - t| ≤ (mpq : Rat) / (2 * 1000000 * ppq) := by
  have hm' : (0 : Rat) < (mpq : Rat) := by exact_mod_cast hm
  have hp' : (0 : Rat) < (ppq : Rat) := by exact_mod_cast hp
  have hn : |((secToTick t mpq ppq : Int) : Rat) - 1000000 * (ppq : Rat) * t / (mpq : Rat)| ≤ 1 / 2 :=
    Round.roundHalfEven_close _
  unfold quant
  have e : tickToSec (secToTick t mpq ppq) mpq ppq - t
      = ((mpq : Rat) / (1000000 * ppq)) * (((secToTick t mpq ppq : Int) : Rat) - 1000000 * (ppq : Rat) * t / (mpq : Rat)) := by
    unfold tickToSec
    field_simp
  rw [e, abs_mul, abs_of_pos (by positivity : (0 : Rat) < (mpq : Rat) / (1000000 * ppq))]
  calc (mpq : Rat) / (1000000 * ppq) * |((secToTick t mpq ppq : Int) : Rat) - 1000000 * (ppq : Rat) * t / (mpq : Rat)|
      ≤ (mpq : Rat) / (1000000 * ppq) * (1 / 2) := by
        exact mul_le_mul_of_nonneg_left hn (by positivity)
    _ = (mpq : Rat) / (2 * 1000000 * ppq) := by field_simp

theorem partEvents_sub_foldl (q : Rat → Int) (parts : List PPart) (acc : List Ins) :
    (∀ x ∈ acc, x ∈ parts.foldl (insertPart q) acc) ∧
    (∀ p ∈ parts, ∀ x ∈ partEvents q p, x ∈ parts.foldl (insertPart q) acc) := by
  induction parts generalizing acc with
  | nil => exact ⟨fun x hx => hx, fun p hp => absurd hp List.not_mem_nil⟩
  | cons p0 rest ih =>
    have hacc : ∀ x ∈ acc, x ∈ insertPart q acc p0 := by
      intro x hx
      unfold insertPart
      exact List.mem_append_left _ (List.mem_append_left _ hx)
    have hp0 : ∀ x ∈ partEvents q p0, x ∈ insertPart q acc p0 := by
      intro x hx
      unfold insertPart
      exact List.mem_append_left _ (List.mem_append_right _ hx)
    refine ⟨fun x hx => (ih _).1 x (hacc x hx), ?_⟩
    intro p hp x hx
    rcases List.mem_cons.mp hp with rfl | hp
    · exact (ih _).1 x (hp0 x hx)
    · exact (ih _).2 p hp x hx

end C06Regen
