/-
C07 — a STRUCTURAL sufficient condition for `noEarly`: when a component of a composite line is searched
over the whole line, no anchored match of its pattern starts inside the text written in front of it.

The text in front is the rendering of an out_pattern (`snote(…)` + `-`, `insertion-`, `ornament(…)-` …).
`neOK` walks that out_pattern symbolically (literal characters are known, field texts are not) and
accepts when at every offset

* inside a literal: the component's first literal `H` (`note(`) clashes with the known characters, or it
  matches completely (`note(` inside `snote(`) and then the comma count decides: the pattern's groups
  exclude the comma, so a match consumes exactly `litCommas` commas and its closing literal (`)`) would
  have to stand in the piece between the c-th and the (c+1)-th comma - a piece made of field texts only;
* inside a field text: `H` cannot be completed because the character that follows the field is none of
  the characters of `H` after its first, while `H` contains a marker character `m` (`(`) field texts
  do not contain.

The only conditions on the field texts are: no `m` in the fields in front, and no `,` / closing
character in the fields the comma count walks over ("identifiers without separators").
-/
import PartituraModel.Model.Template
import PartituraModel.Proofs.C07Search

namespace Model.Template

-- ---------------------------------------------------------------- symbolic text

inductive Sym
  | ch (c : Char)
  | fld (n : String)
  deriving DecidableEq, Repr

def flat : List OSeg → List Sym
  | [] => []
  | .lit s :: o => s.toList.map Sym.ch ++ flat o
  | .fld n :: o => .fld n :: flat o

def renderS (v : String → List Char) : List Sym → List Char
  | [] => []
  | .ch c :: r => c :: renderS v r
  | .fld n :: r => v n ++ renderS v r

def symFields : List Sym → List String
  | [] => []
  | .ch _ :: r => symFields r
  | .fld n :: r => n :: symFields r

theorem renderS_append (v : String → List Char) (a b : List Sym) :
    renderS v (a ++ b) = renderS v a ++ renderS v b := by
  induction a with
  | nil => rfl
  | cons s a ih => cases s <;> simp [renderS, ih]

theorem renderS_chars (v : String → List Char) (l : List Char) : renderS v (l.map Sym.ch) = l := by
  induction l with
  | nil => rfl
  | cons c l ih => simp [renderS, ih]

theorem renderS_flat (v : String → List Char) (o : List OSeg) : renderS v (flat o) = render o v := by
  induction o with
  | nil => rfl
  | cons s o ih =>
    cases s with
    | lit s => simp [flat, render, renderS_append, renderS_chars, ih]
    | fld n => simp [flat, render, renderS, ih]

-- ---------------------------------------------------------------- the first literal against known characters

inductive Tri
  | clash
  | full (rest : List Sym)
  | unknown
  deriving DecidableEq, Repr

/-- match a literal of plain characters against the symbolic text: `clash` = a known character differs,
    `full r` = the literal is matched by known characters and `r` follows, `unknown` = a field text or the
    end is reached first -/
def symLit : List PChar → List Sym → Tri
  | [], r => .full r
  | .ch c :: P, .ch d :: r => if c = d then symLit P r else .clash
  | _, _ => .unknown

theorem symLit_clash (v : String → List Char) (y : List Char) : ∀ (P : List PChar) (syms : List Sym),
    symLit P syms = .clash → litMatch P (renderS v syms ++ y) = none := by
  intro P
  induction P with
  | nil => intro syms h; simp [symLit] at h
  | cons p P ih =>
    intro syms h
    cases p with
    | dot => simp [symLit] at h
    | ch c =>
      cases syms with
      | nil => simp [symLit] at h
      | cons s r =>
        cases s with
        | fld n => simp [symLit] at h
        | ch d =>
          simp only [symLit] at h
          by_cases hcd : c = d
          · simp only [hcd, if_true] at h
            simp only [renderS, List.cons_append, litMatch, PChar.matches, hcd, beq_self_eq_true, if_true]
            exact ih r h
          · simp only [renderS, List.cons_append, litMatch, PChar.matches]
            have : (c == d) = false := by simpa using hcd
            simp [this]

theorem symLit_full (v : String → List Char) (y : List Char) : ∀ (P : List PChar) (syms r : List Sym),
    symLit P syms = .full r → litMatch P (renderS v syms ++ y) = some (renderS v r ++ y) := by
  intro P
  induction P with
  | nil => intro syms r h; simp only [symLit, Tri.full.injEq] at h; subst h; simp [litMatch]
  | cons p P ih =>
    intro syms r h
    cases p with
    | dot => simp [symLit] at h
    | ch c =>
      cases syms with
      | nil => simp [symLit] at h
      | cons s r' =>
        cases s with
        | fld n => simp [symLit] at h
        | ch d =>
          simp only [symLit] at h
          by_cases hcd : c = d
          · simp only [hcd, if_true] at h
            simp only [renderS, List.cons_append, litMatch, PChar.matches, hcd, beq_self_eq_true, if_true]
            exact ih r' r h
          · simp [hcd] at h

-- ---------------------------------------------------------------- what an anchored match consumes

/-- `m` is a text the segment list matches completely -/
def Matches : List Seg → List Char → Prop
  | [], m => m = []
  | .lit p :: q, m => ∃ l m', m = l ++ m' ∧ litAgree p l = true ∧ Matches q m'
  | .fld _ cls _ :: q, m => ∃ f m', m = f ++ m' ∧ f.all cls.mem = true ∧ Matches q m'

theorem litMatch_some : ∀ (p : List PChar) (x x' : List Char), litMatch p x = some x' →
    ∃ l, x = l ++ x' ∧ litAgree p l = true := by
  intro p
  induction p with
  | nil => intro x x' h; simp only [litMatch, Option.some.injEq] at h; exact ⟨[], by simp [h], rfl⟩
  | cons a p ih =>
    intro x x' h
    cases x with
    | nil => simp [litMatch] at h
    | cons c x =>
      simp only [litMatch] at h
      by_cases hm : a.matches c = true
      · simp only [hm, if_true] at h
        obtain ⟨l, hl, ha⟩ := ih x x' h
        exact ⟨c :: l, by simp [hl], by simp [litAgree, hm, ha]⟩
      · simp [hm] at h

theorem tryLens_some {R : Type} (k : List Char → Option R) (s : List Char) (lo : Nat) : ∀ (g : Nat) (a : List Char) (r : R),
    tryLens k s lo g = some (a, r) → ∃ n, n ≤ g ∧ a = s.take n ∧ k (s.drop n) = some r := by
  intro g
  induction g with
  | zero =>
    intro a r h
    simp only [tryLens] at h
    split at h
    · cases hk : k s with
      | none => simp [hk] at h
      | some r' =>
        simp only [hk, Option.map_some, Option.some.injEq, Prod.mk.injEq] at h
        exact ⟨0, Nat.le_refl _, by simp [h.1], by simp [hk, h.2]⟩
    · simp at h
  | succ n ih =>
    intro a r h
    simp only [tryLens] at h
    split at h
    · simp at h
    · split at h
      · rename_i r' hk
        simp only [Option.some.injEq, Prod.mk.injEq] at h
        exact ⟨n + 1, Nat.le_refl _, h.1.symm, by rw [hk, h.2]⟩
      · obtain ⟨m, hm, ha, hk⟩ := ih a r h
        exact ⟨m, by omega, ha, hk⟩

theorem take_all_of_le_takeWhile (f : Char → Bool) : ∀ (s : List Char) (n : Nat), n ≤ (s.takeWhile f).length →
    (s.take n).all f = true := by
  intro s
  induction s with
  | nil => intro n _; simp
  | cons c s ih =>
    intro n h
    cases n with
    | zero => simp
    | succ n =>
      simp only [List.takeWhile_cons] at h
      by_cases hc : f c = true
      · simp only [hc, if_true, List.length_cons] at h
        simp only [List.take_succ_cons, List.all_cons, hc, Bool.true_and]
        exact ih n (by omega)
      · simp [hc] at h

theorem matchSegs_Matches : ∀ (q : List Seg) (x : List Char) (g : List (String × List Char)),
    matchSegs q x = some g → ∃ m r, x = m ++ r ∧ Matches q m := by
  intro q
  induction q with
  | nil => intro x g _; exact ⟨[], x, rfl, rfl⟩
  | cons sg q ih =>
    intro x g h
    cases sg with
    | lit p =>
      simp only [matchSegs] at h
      split at h
      · rename_i s' hs'
        obtain ⟨l, hl, ha⟩ := litMatch_some p x s' hs'
        obtain ⟨m', r, hm, hM⟩ := ih s' g h
        exact ⟨l ++ m', r, by rw [hl, hm]; simp, l, m', rfl, ha, hM⟩
      · simp at h
    | fld name cls lo =>
      simp only [matchSegs, Option.map_eq_some_iff] at h
      obtain ⟨⟨a, r'⟩, ht, _⟩ := h
      obtain ⟨n, hn, ha, hk⟩ := tryLens_some _ _ _ _ _ _ ht
      obtain ⟨m', r, hm, hM⟩ := ih _ _ hk
      refine ⟨x.take n ++ m', r, ?_, x.take n, m', rfl, take_all_of_le_takeWhile _ _ _ hn, hM⟩
      rw [List.append_assoc, ← hm, List.take_append_drop]

-- ---------------------------------------------------------------- comma pieces

/-- `z` occurs in `x` behind exactly `c` commas and before the next one -/
def inPiece (z : Char) : Nat → List Char → Bool
  | _, [] => false
  | c, d :: x =>
    if d = ',' then (match c with | 0 => false | c' + 1 => inPiece z c' x)
    else if c = 0 then (d == z || inPiece z 0 x) else inPiece z c x

def commas (l : List Char) : Nat := (l.filter (· == ',')).length

theorem inPiece_skip (z : Char) (y : List Char) : ∀ (l : List Char) (c : Nat), inPiece z c y = true →
    inPiece z (commas l + c) (l ++ y) = true := by
  intro l
  induction l with
  | nil => intro c h; simpa [commas] using h
  | cons d l ih =>
    intro c h
    by_cases hd : d = ','
    · subst hd
      have e : commas (',' :: l) + c = (commas l + c) + 1 := by
        simp [commas]; omega
      rw [e]
      simp only [List.cons_append, inPiece, if_true]
      exact ih c h
    · have e : commas (d :: l) + c = commas l + c := by
        simp [commas, hd]
      rw [e]
      simp only [List.cons_append, inPiece, hd, if_false]
      by_cases h0 : commas l + c = 0
      · simp only [h0, if_true]
        have := ih c h
        rw [h0] at this
        simp [this]
      · simp only [h0, if_false]
        exact ih c h

theorem inPiece_mem (z : Char) (_hz : z ≠ ',') (y : List Char) : ∀ (l : List Char), commas l = 0 → z ∈ l →
    inPiece z 0 (l ++ y) = true := by
  intro l
  induction l with
  | nil => intro _ h; simp at h
  | cons d l ih =>
    intro hc hm
    have hd : d ≠ ',' := by
      intro e; subst e; simp [commas] at hc
    have hc' : commas l = 0 := by simpa [commas, hd] using hc
    simp only [List.cons_append, inPiece, hd, if_false, if_true]
    rcases List.mem_cons.mp hm with e | hm'
    · subst e; simp
    · simp [ih hc' hm']

theorem litAgree_chars : ∀ (p : List PChar) (l : List Char), p.all (· != PChar.dot) = true → litAgree p l = true →
    commas l = (p.filter (· == PChar.ch ',')).length ∧ ∀ z, PChar.ch z ∈ p → z ∈ l := by
  intro p
  induction p with
  | nil =>
    intro l _ h
    cases l with
    | nil => simp [commas]
    | cons c l => simp [litAgree] at h
  | cons a p ih =>
    intro l hp h
    cases l with
    | nil => simp [litAgree] at h
    | cons c l =>
      simp only [litAgree, Bool.and_eq_true] at h
      simp only [List.all_cons, Bool.and_eq_true] at hp
      obtain ⟨ih1, ih2⟩ := ih l hp.2 h.2
      cases a with
      | dot => simp at hp
      | ch a =>
        have hac : a = c := by simpa [PChar.matches] using h.1
        subst hac
        constructor
        · by_cases hc : a = ','
          · subst hc; simp [commas] at ih1 ⊢; exact ih1
          · have h1 : (PChar.ch a == PChar.ch ',') = false := by
              simp [hc]
            simp only [commas, List.filter_cons, h1, Bool.false_eq_true, if_false]
            have h2 : (a == ',') = false := by simpa using hc
            simp only [h2, Bool.false_eq_true, if_false]
            exact ih1
        · intro z hz
          simp only [List.mem_cons, PChar.ch.injEq] at hz
          rcases hz with e | hz
          · subst e; simp
          · simp [ih2 z hz]

/-- the last segment is a literal without comma and wildcard that contains `z` -/
def lastLitHas (z : Char) : List Seg → Bool
  | [] => false
  | s :: q =>
    match q with
    | [] => (match s with
      | .lit p => p.contains (PChar.ch z) && p.all (fun c => c != PChar.ch ',' && c != PChar.dot)
      | .fld _ _ _ => false)
    | _ :: _ => lastLitHas z q

theorem all_notComma_commas : ∀ (f : List Char), f.all CharClass.notComma.mem = true → commas f = 0 := by
  intro f
  induction f with
  | nil => intro _; rfl
  | cons c f ih =>
    intro h
    simp only [List.all_cons, Bool.and_eq_true, CharClass.mem, bne_iff_ne, ne_eq] at h
    have h2 : (c == ',') = false := by simpa using h.1
    simp only [commas, List.filter_cons, h2, Bool.false_eq_true, if_false]
    exact ih (by simpa [CharClass.mem] using h.2)

/-- **comma count**: a match of a pattern whose groups exclude the comma has its closing character `z`
    in the piece behind exactly `litCommas` commas -/
theorem Matches_inPiece (z : Char) (hz : z ≠ ',') : ∀ (q : List Seg) (m r : List Char),
    Matches q m → commaFree q = true → lastLitHas z q = true → inPiece z (litCommas q) (m ++ r) = true := by
  intro q
  induction q with
  | nil => intro m r _ _ h; simp [lastLitHas] at h
  | cons sg q ih =>
    intro m r hM hcf hl
    cases sg with
    | lit p =>
      obtain ⟨l, m', hm, ha, hM'⟩ := hM
      simp only [commaFree, Bool.and_eq_true] at hcf
      obtain ⟨hc1, hc2⟩ := litAgree_chars p l hcf.1 ha
      subst hm
      cases q with
      | nil =>
        simp only [Matches] at hM'
        subst hM'
        simp only [lastLitHas, Bool.and_eq_true, List.contains_iff_mem] at hl
        have hzl := hc2 z (by simpa using hl.1)
        have hnc : (p.filter (· == PChar.ch ',')).length = 0 := by
          rw [List.length_eq_zero_iff, List.filter_eq_nil_iff]
          intro a ha'
          have := List.all_eq_true.mp hl.2 a ha'
          simp only [Bool.and_eq_true, bne_iff_ne, ne_eq] at this
          simpa using this.1
        simp only [litCommas, hnc, Nat.add_zero, List.append_nil]
        exact inPiece_mem z hz r l (by rw [hc1, hnc]) hzl
      | cons s' q' =>
        have hl' : lastLitHas z (s' :: q') = true := by simpa [lastLitHas] using hl
        have := ih m' r hM' hcf.2 hl'
        have e : litCommas (Seg.lit p :: s' :: q') = commas l + litCommas (s' :: q') := by
          simp only [litCommas, hc1]
        rw [e, List.append_assoc]
        exact inPiece_skip z _ l _ this
    | fld name cls lo =>
      obtain ⟨f, m', hm, hf, hM'⟩ := hM
      simp only [commaFree, Bool.and_eq_true, beq_iff_eq] at hcf
      subst hm
      cases q with
      | nil => simp [lastLitHas] at hl
      | cons s' q' =>
        have hl' : lastLitHas z (s' :: q') = true := by simpa [lastLitHas] using hl
        have := ih m' r hM' hcf.2 hl'
        have hc0 : commas f = 0 := all_notComma_commas f (by rw [← hcf.1]; exact hf)
        have e : litCommas (Seg.fld name cls lo :: s' :: q') = commas f + litCommas (s' :: q') := by
          simp only [litCommas, hc0, Nat.zero_add]
        rw [e, List.append_assoc]
        exact inPiece_skip z _ f _ this

-- ---------------------------------------------------------------- the piece of a symbolic text

/-- walk the symbolic text to the piece behind `c` commas: `some names` = that piece is reached and
    closed by a comma, holds no literal `z`, and `names` are the fields walked over (their texts must
    hold neither `,` nor `z`); `none` = cannot tell -/
def winOK (z : Char) : Nat → List Sym → Option (List String)
  | _, [] => none
  | c, .fld n :: r => (winOK z c r).map (n :: ·)
  | c, .ch d :: r =>
    if d = ',' then (match c with | 0 => some [] | c' + 1 => winOK z c' r)
    else if c = 0 ∧ d = z then none else winOK z c r

def CleanText (z : Char) (x : List Char) : Prop := ∀ d ∈ x, d ≠ ',' ∧ d ≠ z

theorem inPiece_clean (z : Char) (y : List Char) (c : Nat) : ∀ (f : List Char), CleanText z f →
    inPiece z c (f ++ y) = inPiece z c y := by
  intro f
  induction f with
  | nil => intro _; rfl
  | cons d f ih =>
    intro h
    have hd := h d (by simp)
    have ih' := ih (fun e he => h e (by simp [he]))
    simp only [List.cons_append, inPiece, hd.1, if_false]
    by_cases hc : c = 0
    · subst hc
      have : (d == z) = false := by simpa using hd.2
      simp [this, ih']
    · simp [hc, ih']

theorem winOK_sound (z : Char) (v : String → List Char) (y : List Char) : ∀ (syms : List Sym) (c : Nat) (names : List String),
    winOK z c syms = some names → (∀ n ∈ names, CleanText z (v n)) →
    inPiece z c (renderS v syms ++ y) = false := by
  intro syms
  induction syms with
  | nil => intro c names h; simp [winOK] at h
  | cons s r ih =>
    intro c names h hclean
    cases s with
    | fld n =>
      simp only [winOK, Option.map_eq_some_iff] at h
      obtain ⟨ns, hns, hnames⟩ := h
      subst hnames
      simp only [renderS, List.append_assoc]
      rw [inPiece_clean z _ c (v n) (hclean n (by simp))]
      exact ih c ns hns (fun m hm => hclean m (by simp [hm]))
    | ch d =>
      simp only [winOK] at h
      simp only [renderS, List.cons_append, inPiece]
      by_cases hd : d = ','
      · simp only [hd, if_true] at h ⊢
        cases c with
        | zero => rfl
        | succ c' => exact ih c' names h hclean
      · simp only [hd, if_false] at h ⊢
        by_cases hc : c = 0
        · subst hc
          by_cases hdz : d = z
          · simp [hdz] at h
          · simp only [true_and, hdz, if_false] at h
            have : (d == z) = false := by simpa using hdz
            simp only [if_true, this, Bool.false_or]
            exact ih 0 names h hclean
        · have hcz : ¬ (c = 0 ∧ d = z) := fun e => hc e.1
          simp only [hcz, if_false] at h
          simp only [hc, if_false]
          exact ih c names h hclean

-- ---------------------------------------------------------------- every offset of the text in front

/-- no character of `P` is `d` and `P` contains the marker `m` -/
def tailAvoids (P : List PChar) (d m : Char) : Bool :=
  P.all (fun p => match p with | .ch c => c != d | .dot => false) && P.contains (PChar.ch m)

theorem litMatch_avoid (P : List PChar) (d m : Char) (y : List Char) : ∀ (u : List Char),
    P.all (fun p => match p with | .ch c => c != d | .dot => false) = true → PChar.ch m ∈ P → m ∉ u →
    litMatch P (u ++ d :: y) = none := by
  intro u
  induction u generalizing P with
  | nil =>
    intro hall hm _
    cases P with
    | nil => simp at hm
    | cons p P =>
      simp only [List.all_cons, Bool.and_eq_true] at hall
      cases p with
      | dot => simp at hall
      | ch c =>
        have : (c == d) = false := by simpa using hall.1
        simp [litMatch, PChar.matches, this]
  | cons a u ih =>
    intro hall hm hu
    cases P with
    | nil => simp at hm
    | cons p P =>
      simp only [List.all_cons, Bool.and_eq_true] at hall
      cases p with
      | dot => simp at hall
      | ch c =>
        simp only [List.cons_append, litMatch, PChar.matches]
        by_cases hca : c = a
        · subst hca
          simp only [beq_self_eq_true, if_true]
          have hcm : c ≠ m := by
            intro e; subst e; exact hu (by simp)
          have hm' : PChar.ch m ∈ P := by
            simp only [List.mem_cons, PChar.ch.injEq] at hm
            rcases hm with e | hm
            · exact absurd e.symm hcm
            · exact hm
          exact ih P hall.2 hm' (fun e => hu (by simp [e]))
        · have : (c == a) = false := by simpa using hca
          simp [this]

/-- the structural check of all offsets of the symbolic text in front of a component whose pattern is
    `lit H :: q'`; `some names` = no anchored match can start there provided no field text holds the marker
    `m` and the texts of `names` hold neither `,` nor `z` -/
def neOK (H : List PChar) (q' : List Seg) (z m : Char) : List Sym → Option (List String)
  | [] => some []
  | .ch d :: r =>
    match (match symLit H (.ch d :: r) with
      | .clash => some []
      | .full r' => if commaFree q' && lastLitHas z q' && z != ',' then winOK z (litCommas q') r' else none
      | .unknown => none), neOK H q' z m r with
    | some a, some b => some (a ++ b)
    | _, _ => none
  | .fld _ :: r =>
    match r with
    | .ch d :: _ => if tailAvoids (H.drop 1) d m then neOK H q' z m r else none
    | _ => none

theorem neOK_sound (H : List PChar) (q' : List Seg) (z m : Char) (v : String → List Char) (y : List Char)
    (hH : H ≠ []) : ∀ (syms : List Sym) (names : List String),
    neOK H q' z m syms = some names → (∀ n ∈ symFields syms, m ∉ v n) → (∀ n ∈ names, CleanText z (v n)) →
    ∀ k, k < (renderS v syms).length → matchSegs (Seg.lit H :: q') ((renderS v syms ++ y).drop k) = none := by
  intro syms
  induction syms with
  | nil => intro names _ _ _ k hk; simp [renderS] at hk
  | cons s r ih =>
    intro names h hm hclean k hk
    cases s with
    | ch d =>
      simp only [neOK] at h
      split at h
      · rename_i a b ha hb
        injection h with h
        subst h
        cases k with
        | zero =>
          simp only [List.drop_zero, matchSegs]
          split at ha
          · rename_i hcl
            rw [symLit_clash v y H _ hcl]
          · rename_i r' hfull
            split at ha
            · rename_i hcond
              simp only [Bool.and_eq_true, bne_iff_ne, ne_eq] at hcond
              rw [symLit_full v y H _ r' hfull]
              simp only
              cases hms : matchSegs q' (renderS v r' ++ y) with
              | none => rfl
              | some g =>
                exfalso
                obtain ⟨mm, rr, hx, hM⟩ := matchSegs_Matches q' _ g hms
                have h1 := Matches_inPiece z hcond.2 q' mm rr hM hcond.1.1 hcond.1.2
                rw [← hx] at h1
                have h2 := winOK_sound z v y r' (litCommas q') a ha (fun n hn => hclean n (by simp [hn]))
                rw [h1] at h2
                exact absurd h2 (by simp)
            · simp at ha
          · simp at ha
        | succ k =>
          simp only [renderS, List.cons_append, List.drop_succ_cons]
          simp only [renderS, List.length_cons] at hk
          exact ih b hb (fun n hn => hm n (by simpa [symFields] using hn))
            (fun n hn => hclean n (by simp [hn])) k (by omega)
      · simp at h
    | fld n =>
      simp only [neOK] at h
      split at h
      · rename_i d r'
        split at h
        · rename_i hta
          simp only [tailAvoids, Bool.and_eq_true, List.contains_iff_mem] at hta
          have hmem : PChar.ch m ∈ H.drop 1 := by simpa using hta.2
          simp only [renderS, List.append_assoc]
          by_cases hkv : k < (v n).length
          · -- inside the field text
            rw [List.drop_append_of_le_length (by omega)]
            have hne : (v n).drop k ≠ [] := by
              intro e
              have := congrArg List.length e
              simp at this; omega
            cases hu : (v n).drop k with
            | nil => exact absurd hu hne
            | cons a u =>
              have hmu : m ∉ u := by
                intro hin
                have : m ∈ (v n).drop k := by rw [hu]; simp [hin]
                exact hm n (by simp [symFields]) (List.mem_of_mem_drop this)
              cases H with
              | nil => exact absurd rfl hH
              | cons h0 P =>
                simp only [List.drop_succ_cons, List.drop_zero] at hta hmem
                simp only [matchSegs, List.cons_append, litMatch]
                have := litMatch_avoid P d m (renderS v r' ++ y) u hta.1 hmem hmu
                split
                · rename_i s' heq
                  simp [this] at heq
                · rfl
          · -- behind the field text
            have hk2 : (v n).length ≤ k := by omega
            rw [List.drop_append, List.drop_eq_nil_of_le hk2, List.nil_append]
            simp only [renderS, List.length_append] at hk
            exact ih names h (fun n' hn' => hm n' (by
              simp only [symFields, List.mem_cons] at hn' ⊢; exact Or.inr hn')) hclean (k - (v n).length) (by
              simp only [renderS] at hk ⊢; omega)
        · simp at h
      · simp at h

/-- **structural `noEarly`**: in front of a component whose pattern is `lit H :: q'` stands the rendering of
    the out_pattern `o`; if the symbolic check accepts, no field text in front holds the marker and the
    walked fields hold no separators, then no anchored match starts in front - whatever the texts are -/
theorem noEarly_struct (H : List PChar) (q' : List Seg) (z m : Char) (o : List OSeg) (v : String → List Char)
    (s : List Char) (names : List String) (hH : H ≠ [])
    (hok : neOK H q' z m (flat o) = some names)
    (hm : ∀ n ∈ symFields (flat o), m ∉ v n) (hclean : ∀ n ∈ names, CleanText z (v n)) :
    noEarly (Seg.lit H :: q') (render o v) s = true := by
  unfold noEarly
  rw [List.all_eq_true]
  intro k hk
  simp only [List.mem_range] at hk
  have := neOK_sound H q' z m v s hH (flat o) names hok hm hclean k (by rw [renderS_flat]; exact hk)
  rw [renderS_flat] at this
  simp [this]

-- ---------------------------------------------------------------- the check for a component

/-- the marker character of a component's first literal (`note(`, `ptime([`) and the character that
    closes a performed note -/
def marker : Char := '('
def closer : Char := ')'

/-- the structural check of the text in front of component `b`, written with the out_pattern `o`:
    `some names` = no anchored match of `b`'s pattern can start in front of it, provided no field text in
    front holds `(` and the texts of the fields `names` hold neither `,` nor `)` -/
def earlyNames (o : List OSeg) (b : Template) : Option (List String) :=
  match b.pat with
  | .lit H :: q' => if H.isEmpty then none else neOK H q' closer marker (flat o)
  | _ => none

/-- `noEarly` for the last component of a composite, from the structural check -/
theorem early_of_names (o : List OSeg) (b : Template) (names : List String) (v : String → List Char) (s : List Char)
    (hn : earlyNames o b = some names) (hm : ∀ n ∈ symFields (flat o), marker ∉ v n)
    (hclean : ∀ n ∈ names, CleanText closer (v n)) : noEarly b.pat (render o v) s = true := by
  unfold earlyNames at hn
  split at hn
  · rename_i H q' hpat
    split at hn
    · simp at hn
    · rename_i hne
      rw [hpat]
      exact noEarly_struct H q' closer marker o v s names (by
        intro e; subst e; simp at hne) hn hm hclean
  · simp at hn


end Model.Template
