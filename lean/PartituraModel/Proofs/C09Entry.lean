/-
C09 helper lemmas (round 5): what the segment table and the enumerated paths provide for the unfolded part — segments
of positive length, valid indices — so that the theorems about `variant` / `suffixIds` can be stated for the public entry
points with no side condition.
-/
import PartituraModel.Proofs.C09IdShape
import PartituraModel.Proofs.C09Walk
import PartituraModel.Model.UnfoldEntry

namespace C09
open Model.Unfold

/-- every segment `add_segments` builds has positive length -/
theorem mkSegments_pos (L : Layout) (g : List Seg) (h : mkSegments L = some g) :
    ∀ (i : Nat) (s : Seg), g[i]? = some s → s.start < s.stp := by
  unfold mkSegments at h
  split at h
  · simp at h
  · simp only at h
    split at h
    · simp at h
    · have hsorted : StrictSorted ((mkTable L).map (·.1)) := mkTable_sorted L
      have hget := buildSegs_get _ _ _ _ _ g h
      intro i s hs
      obtain ⟨a1, a2⟩ := hget i s hs
      exact sorted_get_lt _ hsorted i (i + 1) _ _ (by omega) a1 a2

/-- the segments named by an enumerated path exist -/
theorem walk_indices (g : List Seg) : ∀ (p : List Nat), Walk g p →
    (∀ l, p.getLast? = some l → ∃ s, g[l]? = some s) → ∀ i ∈ p, ∃ s, g[i]? = some s := by
  intro p
  induction p with
  | nil => intro _ _ i hi; simp at hi
  | cons a rest ih =>
    intro hw hl i hi
    cases rest with
    | nil =>
      simp only [List.mem_singleton] at hi
      subst hi
      exact hl i (by simp)
    | cons b rest' =>
      obtain ⟨⟨s, hs, _⟩, hw'⟩ := hw
      rcases List.mem_cons.mp hi with rfl | hi'
      · exact ⟨s, hs⟩
      · exact ih hw' (fun l hlast => hl l (by simpa [List.getLast?_cons_cons] using hlast)) i hi'

theorem visitsFrom_some (g : List Seg) : ∀ (p : List Nat) (off : Int), (∀ i ∈ p, ∃ s, g[i]? = some s) →
    ∃ vs, visitsFrom g off p = some vs := by
  intro p
  induction p with
  | nil => intro off _; exact ⟨[], rfl⟩
  | cons a rest ih =>
    intro off h
    obtain ⟨s, hs⟩ := h a (by simp)
    obtain ⟨vs, hvs⟩ := ih (off + (s.stp - s.start)) (fun i hi => h i (List.mem_cons_of_mem _ hi))
    exact ⟨{ s := s.start, e := s.stp, off := off } :: vs, by simp [visitsFrom, hs, hvs]⟩

/-- the visits of a path: same length, and visit `k` is segment `path[k]` -/
theorem visits_get (g : List Seg) (path : List Nat) (vs : List Visit) (h : visitsOf g path = some vs)
    (k : Nat) (v : Visit) (hv : vs[k]? = some v) :
    ∃ (j : Nat) (s : Seg), path[k]? = some j ∧ g[j]? = some s ∧ v.s = s.start ∧ v.e = s.stp := by
  obtain ⟨_, hlen, hget⟩ := visitsFrom_ok g path 0 vs h
  have hl : vs.length = path.length := by
    have := congrArg List.length hlen
    simpa [visitLens] using this
  have hk : k < path.length := by
    have := (List.getElem?_eq_some_iff.mp hv).1
    omega
  obtain ⟨s, v', hs, hv', e1, e2⟩ := hget k path[k] (List.getElem?_eq_getElem hk)
  rw [hv] at hv'
  simp only [Option.some.injEq] at hv'
  subst hv'
  exact ⟨path[k], s, List.getElem?_eq_getElem hk, hs, e1, e2⟩

/-- consecutive segments share their boundary -/
theorem mkSegments_contiguous (L : Layout) (g : List Seg) (h : mkSegments L = some g) :
    ∀ (i : Nat) (s t : Seg), g[i]? = some s → g[i + 1]? = some t → s.stp = t.start := by
  unfold mkSegments at h
  split at h
  · simp at h
  · simp only at h
    split at h
    · simp at h
    · have hget := buildSegs_get _ _ _ _ _ g h
      intro i s t hs ht
      obtain ⟨_, a2⟩ := hget i s hs
      obtain ⟨b1, _⟩ := hget (i + 1) t ht
      rw [a2] at b1
      simpa using b1

theorem mapM_some_length {α β : Type} (f : α → Option β) : ∀ (l : List α), (∀ x ∈ l, ∃ y, f x = some y) →
    ∃ ys, l.mapM f = some ys ∧ ys.length = l.length := by
  intro l
  induction l with
  | nil => intro _; exact ⟨[], rfl, rfl⟩
  | cons a as ih =>
    intro h
    obtain ⟨y, hy⟩ := h a (by simp)
    obtain ⟨ys, hys, hl⟩ := ih (fun x hx => h x (List.mem_cons_of_mem _ hx))
    refine ⟨y :: ys, ?_, by simp [hl]⟩
    simp only [List.mapM_cons, hy, hys]
    rfl

/-! ### the maximal and the minimal enumeration follow one destination at a time -/

theorem dests_single (st : PState) (h : st.noRepeats = true ∨ st.allRepeats = true) (ds : List Dest)
    (hd : st.dests = some ds) : ∃ d, ds = [d] := by
  unfold PState.dests at hd
  cases hs : st.segs[st.cur]? with
  | none => simp [hs] at hd
  | some s =>
    simp only [hs] at hd
    cases hli : lastIndex s.to (st.used st.cur) with
    | none => simp [hli] at hd
    | some li =>
      simp only [hli] at hd
      by_cases hn : st.noRepeats = true
      · simp only [hn, if_true] at hd
        cases hl : s.to.getLast? with
        | none => simp [hl] at hd
        | some d => simp [hl] at hd; exact ⟨d, hd.symm⟩
      · have ha : st.allRepeats = true := by
          rcases h with h | h
          · exact absurd h hn
          · exact h
        simp only [hn, ha, Bool.or_true, if_true] at hd
        cases li with
        | none =>
          simp only at hd
          cases hh : s.to.head? with
          | none => simp [hh] at hd
          | some d => simp [hh] at hd; exact ⟨d, hd.symm⟩
        | some k =>
          simp only at hd
          by_cases hk : k + 1 < s.to.length
          · simp only [hk, if_true] at hd
            cases hh : s.to[k + 1]? with
            | none => simp [hh] at hd
            | some d => simp [hh] at hd; exact ⟨d, hd.symm⟩
          · simp only [hk, if_false] at hd
            cases hh : s.to.head? with
            | none => simp [hh] at hd
            | some d => simp [hh] at hd; exact ⟨d, hd.symm⟩

theorem jump_flags (il : Bool) (st st' : PState) (j : Nat) (h : st.jump il j = some st')
    (hf : st.noRepeats = true ∨ st.allRepeats = true) : st'.noRepeats = true ∨ st'.allRepeats = true := by
  unfold PState.jump at h
  split at h
  · rename_i sj sp _ _
    split at h
    · simp only [Option.some.injEq] at h
      subst h
      by_cases hj : st.jumped = true <;> cases il <;> simp [hj] <;> (rcases hf with hf | hf <;> simp [hf])
    · simp only [Option.some.injEq] at h
      subst h
      exact hf
  · cases h

theorem unfoldFrom_single (il : Bool) : ∀ (f : Nat) (st : PState) (ps : List (List Nat)),
    (st.noRepeats = true ∨ st.allRepeats = true) → unfoldFrom il f st = some ps → ∃ p, ps = [p] := by
  intro f
  induction f with
  | zero => intro st ps _ h; simp [unfoldFrom] at h
  | succ f ih =>
    intro st ps hf h
    simp only [unfoldFrom] at h
    cases hd : st.dests with
    | none => simp [hd] at h
    | some ds =>
      simp only [hd] at h
      obtain ⟨d, rfl⟩ := dests_single st hf ds hd
      cases d with
      | fin =>
        simp only [stepList, Option.map_some, Option.some.injEq] at h
        exact ⟨st.path, h.symm⟩
      | seg j =>
        simp only [stepList] at h
        cases hj : st.jump il j with
        | none => simp [hj] at h
        | some st' =>
          simp only [hj] at h
          cases hr : unfoldFrom il f st' with
          | none => simp [hr] at h
          | some a =>
            simp only [hr, Option.some.injEq] at h
            obtain ⟨p, rfl⟩ := ih st' a (jump_flags il st st' j hj hf) hr
            exact ⟨p, by rw [← h]; rfl⟩

end C09
