/-
C03 — the direction, sound and attributes codecs read back.
-/
import PartituraModel.Model.XmlDir
import PartituraModel.Proofs.C03Text

namespace C03.Dir
open Model Model.XmlNote Model.XmlDir C03.Text

/-! ### `<direction>` -/

theorem staff_read (front : List Xml) (hfront : ∀ x ∈ front, x.tag = .directionType) (staff : Option Int) :
    tagInt (find .staff (front ++ dirStaffEl staff)) = some (if staff = some 1 then none else staff) := by
  unfold find
  rw [findall_append, findall_none [Tag.directionType] (fun x hx => by simp [hfront x hx]) (by decide)]
  cases staff with
  | none => simp [dirStaffEl, findall, tagInt]
  | some s =>
    by_cases h1 : s = 1
    · simp [dirStaffEl, h1, findall, tagInt]
    · simp [dirStaffEl, h1, findall, leaf, Xml.tag, tagInt, Xml.text, showIntC_ne_nil, parseIntC_showIntC]

theorem types_read (front : List Xml) (hfront : ∀ x ∈ front, x.tag = .directionType) (staff : Option Int) :
    findall .directionType (front ++ dirStaffEl staff) = front := by
  rw [findall_append, findall_all hfront]
  cases staff with
  | none => simp [dirStaffEl, findall]
  | some s => by_cases h1 : s = 1 <;> simp [dirStaffEl, h1, findall, leaf, Xml.tag]

theorem truthy_staff (staff : Option Int) :
    truthy (if staff = some 1 then none else staff) = if staff = some 1 then none else truthy staff := by
  split <;> simp [truthy]

theorem intOr_nat_one (k : Nat) : intOr (attrInt (.el t [(.number, natDigits k), (.type, typ)] [] []) .number) 1 =
    intOr (some (k : Int)) 1 := by
  simp [attrInt, Xml.get, Xml.attrs, Model.lookup, parseIntC_natDigits]

theorem dir_roundtrip (d : DirW) (h : WellFormedDir d) : readDir (writeDir d) = some (canonDir d) := by
  cases d with
  | dyn name staff =>
    have hf : ∀ x ∈ [dirType [.el .dynamics [] [] [empty (.other name)]]], x.tag = Tag.directionType := by simp [dirType, Xml.tag]
    simp only [readDir, writeDir, Xml.kids, staff_read _ hf, types_read _ hf, canonDir]
    simp [truthy_staff, readDirType, dirType, Xml.kids, Xml.tag, empty]
  | wedgeStart cresc number staff =>
    have hf : ∀ x ∈ [dirType [.el .wedge [(.number, natDigits number), (.type, if cresc then sCresc else sDim)] [] []]],
        x.tag = Tag.directionType := by simp [dirType, Xml.tag]
    simp only [readDir, writeDir, Xml.kids, staff_read _ hf, types_read _ hf, canonDir]
    cases cresc <;>
      simp [truthy_staff, readDirType, dirType, Xml.kids, Xml.tag, intOr_nat_one, Xml.get, Xml.attrs, Model.lookup, sCresc, sDim]
  | words text dashes staff =>
    have hne : filterString text ≠ [] := h
    cases dashes with
    | none =>
      have hf : ∀ x ∈ [dirType [leaf .words (filterString text)]] ++ ([] : List Xml), x.tag = Tag.directionType := by
        simp [dirType, Xml.tag]
      simp only [readDir, writeDir, Xml.kids, staff_read _ hf, types_read _ hf, canonDir]
      simp [truthy_staff, readDirType, dirType, Xml.kids, Xml.tag, leaf, Xml.text, hne]
    | some k =>
      have hf : ∀ x ∈ [dirType [leaf .words (filterString text)]] ++
          [dirType [.el .dashes [(.number, natDigits k), (.type, sStart)] [] []]], x.tag = Tag.directionType := by
        simp [dirType, Xml.tag]
      simp only [readDir, writeDir, Xml.kids, staff_read _ hf, types_read _ hf, canonDir]
      simp [truthy_staff, readDirType, dirType, Xml.kids, Xml.tag, leaf, Xml.text, hne, intOr_nat_one, rangeType, Xml.get, Xml.attrs,
        Model.lookup]
  | rangeStop isWedge number =>
    cases isWedge <;>
      simp [readDir, writeDir, Xml.kids, find, findall, dirType, Xml.tag, tagInt, truthy, canonDir, readDirType,
        intOr_nat_one, rangeType, Xml.get, Xml.attrs, Model.lookup, sStop, sStart, sCresc, sDim]
  | pedalStart line staff =>
    have hf : ∀ x ∈ [dirType [.el .pedal ([(.type, sStart)] ++ (if line then [(.line, sYes)] else [])) [] []]],
        x.tag = Tag.directionType := by simp [dirType, Xml.tag]
    simp only [readDir, writeDir, Xml.kids, staff_read _ hf, types_read _ hf, canonDir]
    cases line <;>
      simp [truthy_staff, readDirType, dirType, Xml.kids, Xml.tag, rangeType, Xml.get, Xml.attrs, Model.lookup, attrInt, intOr, sStart,
        sStop, sYes]
  | pedalStop line staff =>
    have hf : ∀ x ∈ [dirType [.el .pedal ([(.type, sStop)] ++ (if line then [(.line, sYes)] else [(.sign, sYes)])) [] []]],
        x.tag = Tag.directionType := by simp [dirType, Xml.tag]
    simp only [readDir, writeDir, Xml.kids, staff_read _ hf, types_read _ hf, canonDir]
    cases line <;>
      simp [truthy_staff, readDirType, dirType, Xml.kids, Xml.tag, rangeType, Xml.get, Xml.attrs, Model.lookup, attrInt, intOr, sStart,
        sStop, sYes]

/-! ### `<sound tempo>` -/

theorem takeWhile_stop {α : Type} (p : α → Bool) (l : List α) (a : α) (r : List α) (hl : ∀ x ∈ l, p x = true)
    (ha : p a = false) : (l ++ a :: r).takeWhile p = l := by
  induction l with
  | nil => simp [ha]
  | cons b l ih =>
    simp only [List.cons_append, List.takeWhile_cons, hl b (by simp), if_true]
    rw [ih fun x hx => hl x (List.mem_cons_of_mem _ hx)]

theorem dropWhile_stop {α : Type} (p : α → Bool) (l : List α) (a : α) (r : List α) (hl : ∀ x ∈ l, p x = true)
    (ha : p a = false) : (l ++ a :: r).dropWhile p = a :: r := by
  induction l with
  | nil => simp [ha]
  | cons b l ih =>
    simp only [List.cons_append, List.dropWhile_cons, hl b (by simp), if_true]
    exact ih fun x hx => hl x (List.mem_cons_of_mem _ hx)

theorem digit_ne_dot (c : Char) (h : c.isDigit = true) : (c != '.') = true := by
  have : c ≠ '.' := by intro e; subst e; revert h; decide
  simpa using this

theorem takeWhile_digits (l : Str) (h : ∀ c ∈ l, c.isDigit = true) : l.takeWhile (· != '.') = l :=
  takeWhile_all _ _ fun c hc => digit_ne_dot c (h c hc)

theorem dropWhile_digits (l : Str) (h : ∀ c ∈ l, c.isDigit = true) : l.dropWhile (· != '.') = [] := by
  induction l with
  | nil => rfl
  | cons b l ih =>
    simp only [List.dropWhile_cons, digit_ne_dot b (h b (by simp)), if_true]
    exact ih fun x hx => h x (List.mem_cons_of_mem _ hx)

theorem stripZeros_id (fp : Str) (h : fp.getLast? ≠ some '0') : stripZeros fp = fp := by
  unfold stripZeros
  cases hr : fp.reverse with
  | nil => simp [List.reverse_eq_nil_iff.mp hr]
  | cons c r =>
    have hfp : fp = (c :: r).reverse := by rw [← hr, List.reverse_reverse]
    have hc : c ≠ '0' := by
      intro e
      apply h
      rw [hfp, e]
      simp
    have : (c == '0') = false := by simpa using hc
    simp only [List.dropWhile_cons, this]
    simp [hfp]

theorem sound_roundtrip (t : TempoVal) (h : WellFormedTempo t) : readSound (writeSound t) = some (some t) := by
  unfold readSound writeSound
  simp only [Xml.get, Xml.attrs, Model.lookup, if_true]
  cases t with
  | whole n =>
    simp only [tempoText, parseTempo, takeWhile_digits _ (natDigits_isDigit n), dropWhile_digits _ (natDigits_isDigit n),
      allDigits_natDigits, Digits.digitsToNat_natDigits]
    rfl
  | dec ip fp =>
    obtain ⟨hne, hdig, hlast⟩ := h
    have hdot : (fun (c : Char) => c != '.') '.' = false := by decide
    have htk := takeWhile_stop (fun (c : Char) => c != '.') (natDigits ip) '.' fp
      (fun c hc => digit_ne_dot c (natDigits_isDigit ip c hc)) hdot
    have hdr := dropWhile_stop (fun (c : Char) => c != '.') (natDigits ip) '.' fp
      (fun c hc => digit_ne_dot c (natDigits_isDigit ip c hc)) hdot
    simp only [tempoText, parseTempo, htk, hdr, allDigits_natDigits, Digits.digitsToNat_natDigits, hdig,
      stripZeros_id fp hlast]
    simp [hne]

end C03.Dir
