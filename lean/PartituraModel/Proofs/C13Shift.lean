/-
C13, round 5 — the round trip with a time shift: remove_silence, a (rational, non-negative) time margin and an
`end_time` move the notes by a whole number of frames and append empty columns; the decoder recovers every
pitch, duration and velocity, and every onset up to that one shift.

Proved by reduction to `decode_encode_aux`: the roll of `notes` under `o` has the cells of the roll of the shifted
notes under `baseOpts o` (no margin, silence kept, no end time) plus empty trailing columns, which the decoder ignores.
-/
import PartituraModel.Proofs.C13RoundTrip

namespace C13
open Model Model.PianoRoll
open List

/-- options under which times can be read back up to one shift: full notes on the fixed pitch axis, velocities kept,
    a non-negative margin; `remove_silence`, `end_time`, `piano_range` are free -/
structure ShiftOpts (o : Opts) : Prop where
  td_pos : 0 < o.timeDiv
  oo : o.onsetOnly = false
  ns : o.noteSep = false
  pm : o.pitchMargin = -1
  tm : 0 ≤ o.timeMargin
  bi : o.binary = false

def baseOpts (o : Opts) : Opts := { o with timeMargin := 0, removeSilence := false, endTime := none }

theorem baseOpts_rt {o : Opts} (ho : ShiftOpts o) : RoundTripOpts (baseOpts o) :=
  ⟨ho.td_pos, ho.oo, ho.ns, ho.pm, rfl, rfl, rfl, ho.bi⟩

/-- onset (relative to the time `t0` of frame 0) and duration are whole numbers of frames, the duration at least one -/
def GridAlignedAt (o : Opts) (t0 : Rat) (n : Note) : Prop :=
  ∃ k d : Nat, 1 ≤ d ∧ (o.timeDiv : Rat) * (n.onset - t0) = k ∧ (o.timeDiv : Rat) * n.dur = d

/-- the note as the decoder can see it: its onset is its onset frame over `time_div` -/
def shiftNote (o : Opts) (t0 : Rat) (n : Note) : Note :=
  { n with onset := ((onFrame o t0 n : Int) : Rat) / (o.timeDiv : Rat) }

theorem marginFrames_nonneg {o : Opts} (ho : ShiftOpts o) : 0 ≤ marginFrames o := by
  unfold marginFrames truncRat
  have htd : (0 : Rat) ≤ (o.timeDiv : Rat) := by exact_mod_cast le_of_lt ho.td_pos
  have h : 0 ≤ o.timeMargin * (o.timeDiv : Rat) := mul_nonneg ho.tm htd
  rw [if_pos h]
  exact Rat.le_floor_iff.mpr (by simpa using h)

theorem at_frames {o : Opts} {t0 : Rat} {n : Note} (hg : GridAlignedAt o t0 n) :
    ∃ k d : Nat, 1 ≤ d ∧ onFrame o t0 n = (k : Int) + marginFrames o ∧ durFrames o n = d ∧
      (o.timeDiv : Rat) * (n.onset - t0) = k ∧ (o.timeDiv : Rat) * n.dur = d := by
  obtain ⟨k, d, hd, hk, hdur⟩ := hg
  refine ⟨k, d, hd, ?_, ?_, hk, hdur⟩
  · unfold onFrame
    rw [hk, ← Int.cast_natCast k, Round.roundHalfEven_int]
  · unfold durFrames
    simp only
    rw [hdur, ← Int.cast_natCast d, Round.roundHalfEven_int]
    split <;> omega

theorem shift_frames {o : Opts} (ho : ShiftOpts o) {t0 : Rat} {n : Note} (hg : GridAlignedAt o t0 n) :
    GridAligned (baseOpts o) (shiftNote o t0 n) ∧
    onFrame (baseOpts o) 0 (shiftNote o t0 n) = onFrame o t0 n ∧
    durFrames (baseOpts o) (shiftNote o t0 n) = durFrames o n ∧
    (shiftNote o t0 n).onset = n.onset + (((marginFrames o : Int) : Rat) / (o.timeDiv : Rat) - t0) := by
  obtain ⟨k, d, hd, hon, hdf, hk, hdur⟩ := at_frames hg
  have hm := marginFrames_nonneg ho
  have htd : ((o.timeDiv : Int) : Rat) ≠ 0 := by
    have := ho.td_pos
    exact_mod_cast (ne_of_gt this)
  obtain ⟨mN, hmN⟩ : ∃ mN : Nat, marginFrames o = (mN : Int) := ⟨(marginFrames o).toNat, (Int.toNat_of_nonneg hm).symm⟩
  have hons : (o.timeDiv : Rat) * (shiftNote o t0 n).onset = ((k + mN : Nat) : Rat) := by
    simp only [shiftNote]
    rw [hon, mul_div_cancel₀ _ htd, hmN]
    push_cast
    rfl
  have hL : onFrame (baseOpts o) 0 (shiftNote o t0 n) = ((k + mN : Nat) : Int) := by
    have h1 : (baseOpts o).timeDiv = o.timeDiv := rfl
    have h0 : (baseOpts o).timeMargin = 0 := rfl
    unfold onFrame marginFrames
    rw [h1, sub_zero, hons, ← Int.cast_natCast (k + mN), Round.roundHalfEven_int, h0, zero_mul, truncRat_zero]
    simp
  refine ⟨⟨k + mN, d, hd, hons, hdur⟩, ?_, rfl, ?_⟩
  · rw [hL, hon, hmN]
    push_cast
    rfl
  · simp only [shiftNote]
    rw [hon]
    have : n.onset - t0 = (k : Rat) / (o.timeDiv : Rat) := by
      rw [← hk]; field_simp
    push_cast
    have e : n.onset = t0 + (k : Rat) / (o.timeDiv : Rat) := by linarith
    rw [e]
    field_simp
    ring

/-! ### the roll of the shifted notes -/

section reduction
variable {o : Opts} (ho : ShiftOpts o) {notes : List Note}
  (hg : ∀ n ∈ notes, GridAlignedAt o (t0Of o notes) n)
include ho hg

/-- the notes as the decoder can see them -/
def shifted (o : Opts) (notes : List Note) : List Note := notes.map (shiftNote o (t0Of o notes))

theorem shifted_aligned : ∀ n ∈ shifted o notes, GridAligned (baseOpts o) n := by
  intro n hn
  obtain ⟨n', hn', rfl⟩ := mem_map.mp hn
  exact (shift_frames ho (hg n' hn')).1

theorem shifted_t0 (hne : notes ≠ []) : t0Of (baseOpts o) (shifted o notes) = 0 :=
  t0_zero (baseOpts_rt ho) (by simpa [shifted] using hne) (shifted_aligned ho hg)

omit hg in
theorem lowest_base (l l' : List Note) : lowestOf (baseOpts o) l = lowestOf o l' := by
  unfold lowestOf
  have : (baseOpts o).pitchMargin = o.pitchMargin := rfl
  simp [this, ho.pm]

omit hg in
theorem rowsFull_base (l l' : List Note) : rowsFull (baseOpts o) l = rowsFull o l' := by
  unfold rowsFull highestOf lowestOf
  have : (baseOpts o).pitchMargin = o.pitchMargin := rfl
  simp [this, ho.pm]

theorem offFull_shift (hne : notes ≠ []) {n : Note} (hn : n ∈ notes) :
    offFull (baseOpts o) (t0Of (baseOpts o) (shifted o notes)) (shiftNote o (t0Of o notes) n) = offFull o (t0Of o notes) n := by
  rw [shifted_t0 ho hg hne]
  obtain ⟨_, h2, h3, _⟩ := shift_frames ho (hg n hn)
  unfold offFull
  rw [h2, h3]

theorem noteCells_shift (hne : notes ≠ []) {n : Note} (hn : n ∈ notes) :
    noteCells (baseOpts o) (lowestOf (baseOpts o) (shifted o notes)) (t0Of (baseOpts o) (shifted o notes))
        (shiftNote o (t0Of o notes) n) =
      noteCells o (lowestOf o notes) (t0Of o notes) n := by
  have hoff := offFull_shift ho hg hne hn
  rw [shifted_t0 ho hg hne] at hoff ⊢
  obtain ⟨_, h2, _, _⟩ := shift_frames ho (hg n hn)
  rw [lowest_base ho (shifted o notes) notes]
  have hoo : (baseOpts o).onsetOnly = o.onsetOnly := rfl
  have hns : (baseOpts o).noteSep = o.noteSep := rfl
  have hrow : ∀ low, rowOf (baseOpts o) low (shiftNote o (t0Of o notes) n) = rowOf o low n := fun _ => rfl
  have hvel : (shiftNote o (t0Of o notes) n).vel = n.vel := rfl
  unfold noteCells offIdx
  simp only [hoo, hns, h2, hoff, hrow, hvel]

theorem fill_shift (hne : notes ≠ []) : fillOf (baseOpts o) (shifted o notes) ~ fillOf o notes := by
  unfold fillOf
  refine (Perm.flatMap_right _ (sortedNotes_perm (shifted o notes))).trans ?_
  refine Perm.trans ?_ (Perm.flatMap_right _ (sortedNotes_perm notes)).symm
  unfold shifted
  rw [flatMap_map]
  apply Perm.of_eq
  rw [flatMap_def, flatMap_def]
  congr 1
  apply map_congr_left
  intro n hn
  exact noteCells_shift ho hg hne hn

theorem maxOff_shift (hne : notes ≠ []) : maxOffOf (baseOpts o) (shifted o notes) = maxOffOf o notes := by
  rw [maxOffOf_eq, maxOffOf_eq]
  unfold shifted
  rw [map_map]
  have : notes.map (offFull (baseOpts o) (t0Of (baseOpts o) (notes.map (shiftNote o (t0Of o notes)))) ∘ shiftNote o (t0Of o notes)) =
      notes.map (offFull o (t0Of o notes)) := by
    apply map_congr_left
    intro n hn
    exact offFull_shift ho hg hne hn
  rw [this]

theorem cols_base (hne : notes ≠ []) : colsOf (baseOpts o) (shifted o notes) = some (maxOffOf o notes) := by
  unfold colsOf trailMargin
  have h0 : (baseOpts o).timeMargin = 0 := rfl
  have he : (baseOpts o).endTime = none := rfl
  rw [he, h0, maxOff_shift ho hg hne]
  simp [Rat.ceil_intCast]

omit ho in
theorem offFull_le_max {n : Note} (hn : n ∈ notes) : offFull o (t0Of o notes) n ≤ maxOffOf o notes := by
  rw [maxOffOf_eq]
  have hne : notes.map (offFull o (t0Of o notes)) ≠ [] := by
    intro h; rw [map_eq_nil_iff] at h; subst h; simp at hn
  obtain ⟨m, hm⟩ := best?_isSome_of_ne_nil (fun a b : Int => decide (b ≤ a)) hne
  have hm' : maxInt? (notes.map (offFull o (t0Of o notes))) = some m := hm
  rw [hm']
  exact ((maxInt?_some_iff _ _).mp hm').2 _ (mem_map.mpr ⟨n, hn, rfl⟩)

omit ho in
/-- every filled column lies before the last offset frame -/
theorem fill_col_lt {e : Entry} (he : e ∈ fillOf o notes) : e.2.1 < maxOffOf o notes := by
  obtain ⟨p, j, v⟩ := e
  obtain ⟨n, hn, _, _, _, h4⟩ := (mem_fillOf o notes p j v).mp he
  have := offCell_le_offFull o (t0Of o notes) n
  have := offFull_le_max hg hn
  simp only
  omega

omit hg in
/-- the last offset frame is a column count the roll has room for -/
theorem max_le_cols {r : Roll} (h : makePianoroll o notes = some r) : maxOffOf o notes ≤ r.cols := by
  obtain ⟨_, _, N, hN, _, rfl⟩ := (makePianoroll_eq_some o notes r).mp h
  have htd : (0 : Rat) ≤ (o.timeDiv : Rat) := by exact_mod_cast le_of_lt ho.td_pos
  have htm : 0 ≤ trailMargin o := mul_nonneg htd ho.tm
  unfold colsOf at hN
  simp only [rollOf]
  cases he : o.endTime with
  | none =>
    rw [he] at hN
    simp only [Option.some.injEq] at hN
    rw [← hN]
    have : ((maxOffOf o notes : Int) : Rat) ≤ trailMargin o + (maxOffOf o notes : Rat) := by linarith
    exact_mod_cast le_trans this Rat.le_ceil
  | some e =>
    rw [he] at hN
    simp only at hN
    split at hN
    · simp at hN
    · rename_i hlt
      simp only [Option.some.injEq] at hN
      rw [← hN]
      have h1 : ((maxOffOf o notes : Int) : Rat) ≤ (e - t0Of o notes) * (o.timeDiv : Rat) := not_lt.mp hlt
      have : ((maxOffOf o notes : Int) : Rat) ≤ trailMargin o + (o.timeDiv : Rat) * (e - t0Of o notes) := by
        rw [mul_comm] at h1; linarith
      exact_mod_cast le_trans this Rat.le_ceil

end reduction

/-- empty trailing columns do not change the maximal runs -/
theorem maxRun_trailing {f g : Nat → Int} {T T₀ : Nat} (hT : T₀ ≤ T) (hfg : ∀ t, f t = g t)
    (hz : ∀ t, T₀ ≤ t → g t = 0) (x : Run) : MaxRun f T x ↔ MaxRun g T₀ x := by
  unfold MaxRun
  constructor
  · rintro ⟨h1, h2, h3, h4, h5, h6⟩
    have hoff : x.off ≤ T₀ := by
      by_contra hc
      have := h4 (x.off - 1) (by omega) (by omega)
      rw [hfg, hz _ (by omega)] at this
      exact h1 this.symm
    refine ⟨h1, h2, hoff, fun s a b => by rw [← hfg]; exact h4 s a b, ?_, ?_⟩
    · rcases h5 with h | h
      · exact Or.inl h
      · exact Or.inr (by rw [← hfg]; exact h)
    · rcases h6 with h | h
      · exact Or.inl (by omega)
      · exact Or.inr (by rw [← hfg]; exact h)
  · rintro ⟨h1, h2, h3, h4, h5, h6⟩
    refine ⟨h1, h2, by omega, fun s a b => by rw [hfg]; exact h4 s a b, ?_, ?_⟩
    · rcases h5 with h | h
      · exact Or.inl h
      · exact Or.inr (by rw [hfg]; exact h)
    · rcases h6 with h | h
      · by_cases hTT : T₀ = T
        · exact Or.inl (by omega)
        · right
          rw [hfg, h, hz _ (le_refl _)]
          exact fun hc => h1 hc.symm
      · exact Or.inr (by rw [hfg]; exact h)

/-- two rolls with the same fill keys, the larger one having only empty columns beyond the smaller one -/
theorem cell_eq_trailing (r r' : Roll) (hrows : r.rows = r'.rows) (hst : r.rowStart = r'.rowStart)
    (hbin : r.binary = r'.binary) (hk : ∀ p j, keyMax r.fill p j = keyMax r'.fill p j) (hc : r'.cols ≤ r.cols)
    (hz : ∀ e ∈ r.fill, e.2.1 < r'.cols) : ∀ p j, r.cell p j = r'.cell p j := by
  intro p j
  unfold Roll.cell
  rw [hrows, hst, hbin, hk]
  by_cases hj : j < r'.cols
  · have hj' : j < r.cols := by omega
    by_cases hc1 : 0 ≤ p ∧ p < r'.rows ∧ 0 ≤ j
    · rw [if_pos ⟨hc1.1, hc1.2.1, hc1.2.2, hj'⟩, if_pos ⟨hc1.1, hc1.2.1, hc1.2.2, hj⟩]
    · rw [if_neg (fun h => hc1 ⟨h.1, h.2.1, h.2.2.1⟩), if_neg (fun h => hc1 ⟨h.1, h.2.1, h.2.2.1⟩)]
  · rw [if_neg (fun h : 0 ≤ p ∧ p < r'.rows ∧ 0 ≤ j ∧ j < r'.cols => hj h.2.2.2)]
    split
    · have : keyMax r'.fill (p + r'.rowStart) j = none := by
        rw [← hk, keyMax_none_iff]
        intro e he hc'
        have := hz e he
        omega
      rw [this]
    · rfl

/-- **round trip up to one shift** (reduction to `decode_encode_aux`) -/
theorem decode_encode_shift_aux (o : Opts) (notes : List Note) (r : Roll) (ho : ShiftOpts o)
    (h : makePianoroll o notes = some r) (hg : ∀ n ∈ notes, GridAlignedAt o (t0Of o notes) n)
    (hv : ∀ n ∈ notes, 0 < n.vel) (hnt : NonTouching notes)
    (hpr : o.pianoRange = true → ∀ n ∈ notes, 21 ≤ n.pitch ∧ n.pitch ≤ 108) :
    ∃ out, decode r.rows.toNat r.toCols (o.timeDiv : Rat) = some out ∧
      out ~ notes.map (fun n => (n.pitch, ((onFrame o (t0Of o notes) n : Int) : Rat) / (o.timeDiv : Rat), n.dur, n.vel)) := by
  obtain ⟨hne, hd, N, hN, hb, hr⟩ := (makePianoroll_eq_some o notes r).mp h
  have hLN : maxOffOf o notes ≤ N := by
    have := max_le_cols ho h
    rw [hr] at this
    exact this
  -- the roll of the shifted notes
  have h0 : makePianoroll (baseOpts o) (shifted o notes) = some (rollOf (baseOpts o) (shifted o notes) (maxOffOf o notes)) := by
    rw [makePianoroll_eq_some]
    refine ⟨by simpa [shifted] using hne, ?_, maxOffOf o notes, cols_base ho hg hne, ?_, rfl⟩
    · intro n hn
      obtain ⟨n', hn', rfl⟩ := mem_map.mp hn
      exact hd n' hn'
    · intro e he
      have he' : e ∈ fillOf o notes := (fill_shift ho hg hne).mem_iff.mp he
      have hbb := hb e he'
      have hlt := fill_col_lt hg he'
      rw [rowsFull_base ho (shifted o notes) notes]
      simp only [inBounds, Bool.and_eq_true, decide_eq_true_eq] at hbb ⊢
      exact ⟨⟨⟨hbb.1.1.1, hbb.1.1.2⟩, hbb.1.2⟩, hlt⟩
  set r0 := rollOf (baseOpts o) (shifted o notes) (maxOffOf o notes) with hr0
  -- the decoder on it
  have hnt0 : NonTouching (shifted o notes) := by
    unfold NonTouching shifted
    rw [pairwise_map]
    refine hnt.imp_of_mem ?_
    intro a b ha hb' hR hp
    obtain ⟨_, _, _, ea⟩ := shift_frames ho (hg a ha)
    obtain ⟨_, _, _, eb⟩ := shift_frames ho (hg b hb')
    have hda : (shiftNote o (t0Of o notes) a).dur = a.dur := rfl
    have hdb : (shiftNote o (t0Of o notes) b).dur = b.dur := rfl
    rw [ea, eb, hda, hdb]
    rcases hR hp with h1 | h1
    · left; linarith
    · right; linarith
  obtain ⟨out0, hout0, hperm0⟩ := decode_encode_aux (baseOpts o) (shifted o notes) r0 (baseOpts_rt ho) h0
    (shifted_aligned ho hg)
    (by intro n hn; obtain ⟨n', hn', rfl⟩ := mem_map.mp hn; exact hv n' hn')
    hnt0
    (by intro hp n hn; obtain ⟨n', hn', rfl⟩ := mem_map.mp hn; exact hpr hp n' hn')
  -- same rows, same cells, more (empty) columns
  have hrows : r.rows = r0.rows := by
    rw [hr, hr0]
    simp only [rollOf]
    rw [rowsFull_base ho (shifted o notes) notes]
    rfl
  have hcell : ∀ p j, r.cell p j = r0.cell p j := by
    apply cell_eq_trailing
    · exact hrows
    · rw [hr, hr0]; rfl
    · rw [hr, hr0]; rfl
    · intro p j
      rw [hr, hr0]
      exact (keyMax_perm (fill_shift ho hg hne) p j).symm
    · rw [hr, hr0]; exact hLN
    · intro e he
      rw [hr] at he
      rw [hr0]
      exact fill_col_lt hg he
  -- the runs
  have hruns : decodeRuns r.toCols ~ decodeRuns r0.toCols := by
    obtain ⟨n1, _, m1⟩ := decodeRuns_spec r.toCols
    obtain ⟨n2, _, m2⟩ := decodeRuns_spec r0.toCols
    rw [perm_ext_iff_of_nodup n1 n2]
    intro x
    rw [m1 x, m2 x, length_toCols, length_toCols]
    apply maxRun_trailing
    · rw [hr, hr0]; simp only [rollOf]; omega
    · intro t; rw [cellAt_toCols, cellAt_toCols, hcell]
    · intro t ht
      rw [cellAt_toCols]
      unfold Roll.cell
      rw [if_neg]
      intro hc
      have := hc.2.2.2
      omega
  have hshape : (r.rows.toNat = 128 ∧ rowStartOf o = 0) ∨ (r.rows.toNat = 88 ∧ rowStartOf o = 21) := by
    by_cases hp : o.pianoRange = true
    · right
      have := (shape_rows_aux o notes r h).2.1 ho.pm hp
      simp [this, rowStartOf, hp, tbl_piano_lo]
    · left
      have hp' : o.pianoRange = false := by simpa using hp
      have := (shape_rows_aux o notes r h).1 ho.pm hp'
      simp [this, rowStartOf, hp']
  have htd0 : ((o.timeDiv : Int) : Rat) ≠ 0 := by
    have := ho.td_pos
    exact_mod_cast (ne_of_gt this)
  have hdec := decode_eq r.rows.toNat r.toCols (o.timeDiv : Rat) (rowStartOf o) hshape (Or.inl htd0)
  have hdec0 := decode_eq r0.rows.toNat r0.toCols (o.timeDiv : Rat) (rowStartOf o) (by rw [← hrows]; exact hshape) (Or.inl htd0)
  have htd' : (baseOpts o).timeDiv = o.timeDiv := rfl
  rw [htd', hdec0, Option.some.injEq] at hout0
  refine ⟨_, hdec, ?_⟩
  refine (hruns.map _).trans ?_
  rw [hout0]
  refine hperm0.trans ?_
  unfold shifted
  rw [map_map]
  exact Perm.refl _

end C13
