/-
C03 — helper lemmas for the element codecs: Python's `str(int)` / `int(str)` / `parse_ints` invert each other,
`find`/`findall` over lists of elements whose tags are known.
-/
import PartituraModel.Model.XmlNote
import PartituraModel.Proofs.Digits

namespace C03.Text
open Model Model.XmlNote

theorem isDigit_not_blank (c : Char) (h : c.isDigit = true) : isBlank c = false := by
  unfold Char.isDigit at h
  simp only [Bool.and_eq_true, decide_eq_true_eq] at h
  have h1 : c.val ≥ 48 := h.1
  unfold isBlank
  have : c ≠ ' ' ∧ c ≠ '\t' ∧ c ≠ '\n' ∧ c ≠ '\r' := by
    refine ⟨?_, ?_, ?_, ?_⟩ <;> (intro e; subst e; revert h1; decide)
  simp [this.1, this.2.1, this.2.2.1, this.2.2.2]

theorem strip_id (s : List Char) (h : ∀ c ∈ s, isBlank c = false) : stripChars s = s := by
  unfold stripChars
  have h1 : s.dropWhile isBlank = s := by
    cases s with
    | nil => rfl
    | cons c r => simp [h c (by simp)]
  rw [h1]
  have h2 : s.reverse.dropWhile isBlank = s.reverse := by
    cases hr : s.reverse with
    | nil => rfl
    | cons c r =>
      have : c ∈ s := by
        have : c ∈ s.reverse := by rw [hr]; simp
        simpa using this
      simp [h c this]
  rw [h2, List.reverse_reverse]

theorem natDigits_isDigit (n : Nat) : ∀ c ∈ natDigits n, c.isDigit = true :=
  fun c hc => (Digits.natDigits_all n c hc).1

theorem allDigits_natDigits (n : Nat) : allDigits (natDigits n) = true := by
  unfold allDigits
  rw [Bool.and_eq_true]
  constructor
  · cases h : natDigits n with
    | nil => exact absurd h (Digits.natDigits_ne_nil n)
    | cons c r => rfl
  · rw [List.all_eq_true]; exact natDigits_isDigit n

theorem strip_natDigits (n : Nat) : stripChars (natDigits n) = natDigits n :=
  strip_id _ fun c hc => isDigit_not_blank c (natDigits_isDigit n c hc)

theorem natDigits_head (n : Nat) : ∃ c r, natDigits n = c :: r ∧ c.isDigit = true := by
  cases h : natDigits n with
  | nil => exact absurd h (Digits.natDigits_ne_nil n)
  | cons c r => exact ⟨c, r, rfl, natDigits_isDigit n c (by rw [h]; simp)⟩

/-- `int(str(n)) = n` -/
theorem parseIntC_natDigits (n : Nat) : parseIntC (natDigits n) = some (n : Int) := by
  unfold parseIntC
  rw [strip_natDigits]
  obtain ⟨c, r, hcr, hd⟩ := natDigits_head n
  have hm : c ≠ '-' := by intro e; subst e; revert hd; decide
  have hp : c ≠ '+' := by intro e; subst e; revert hd; decide
  have ha := allDigits_natDigits n
  have hv := Digits.digitsToNat_natDigits n
  rw [hcr] at ha hv ⊢
  split
  · rename_i heq; simp only [List.cons.injEq] at heq; exact absurd heq.1 hm
  · rename_i heq; simp only [List.cons.injEq] at heq; exact absurd heq.1 hp
  · simp [ha, hv]

/-- `int("{}".format(i)) = i` for every integer -/
theorem parseIntC_showIntC (i : Int) : parseIntC (showIntC i) = some i := by
  unfold showIntC
  split
  · rename_i hneg
    have hs : stripChars ('-' :: natDigits (-i).toNat) = '-' :: natDigits (-i).toNat := by
      apply strip_id
      intro c hc
      simp only [List.mem_cons] at hc
      rcases hc with rfl | hc
      · decide
      · exact isDigit_not_blank c (natDigits_isDigit _ c hc)
    unfold parseIntC
    simp only [hs, allDigits_natDigits, if_true, Digits.digitsToNat_natDigits]
    congr 1
    omega
  · rename_i hpos
    rw [parseIntC_natDigits]
    congr 1
    omega

theorem natDigits_ne_nil (n : Nat) : natDigits n ≠ [] := Digits.natDigits_ne_nil n

theorem showIntC_ne_nil (i : Int) : showIntC i ≠ [] := by
  unfold showIntC
  split
  · simp
  · exact natDigits_ne_nil _

theorem takeWhile_all {α : Type} (p : α → Bool) (l : List α) (h : ∀ x ∈ l, p x = true) : l.takeWhile p = l := by
  induction l with
  | nil => rfl
  | cons a r ih =>
    simp only [List.takeWhile_cons, h a (by simp), if_true]
    rw [ih fun x hx => h x (List.mem_cons_of_mem _ hx)]

/-- `parse_ints(str(n))[0] = n` -/
theorem firstInt_natDigits (n : Nat) : firstInt (natDigits n) = some n := by
  unfold firstInt
  obtain ⟨c, r, hcr, hd⟩ := natDigits_head n
  have hall := natDigits_isDigit n
  have h1 : (natDigits n).dropWhile (fun c => !c.isDigit) = natDigits n := by
    rw [hcr]; simp [hd]
  have h2 : (natDigits n).takeWhile Char.isDigit = natDigits n := by
    exact takeWhile_all _ _ hall
  simp only [h1, h2, natDigits_ne_nil n, if_false, Digits.digitsToNat_natDigits]

/-! ### `intOr`, `truthy` -/

theorem intOr_truthy (v : Option Int) (d : Int) : intOr (truthy v) d = intOr v d := by
  unfold intOr truthy
  cases v with
  | none => rfl
  | some i => by_cases h : i = 0 <;> simp [h]

/-! ### `findall` on lists whose tags are known -/

theorem findall_append (t : Tag) (a b : List Xml) : findall t (a ++ b) = findall t a ++ findall t b := by
  simp [findall]

theorem findall_none {t : Tag} {l : List Xml} (ts : List Tag) (h : ∀ x ∈ l, x.tag ∈ ts) (hn : t ∉ ts) :
    findall t l = [] := by
  unfold findall
  rw [List.filter_eq_nil_iff]
  intro x hx
  have := h x hx
  simp only [beq_iff_eq]
  intro e
  exact hn (e ▸ this)

theorem findall_all {t : Tag} {l : List Xml} (h : ∀ x ∈ l, x.tag = t) : findall t l = l := by
  unfold findall
  rw [List.filter_eq_self]
  intro x hx
  simp [h x hx]

end C03.Text
