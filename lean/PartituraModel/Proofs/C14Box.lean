/-
C14 (round 5) — helper lemmas for the `Performance` container: the explicit form of the renumbering, how the set of
(part, track) pairs, its sorted enumeration and the positions in it change under the renumbering.
-/
import PartituraModel.Proofs.C14Arrays
import PartituraModel.Model.PedalHist

namespace C14P
open Model Model.Pedal

variable {α β : Type}

theorem indexOf_mem_of_some [DecidableEq α] (x : α) (l : List α) (k : Nat) (h : indexOf x l = some k) : x ∈ l :=
  List.mem_of_getElem? (indexOf_getElem x l k h)

theorem indexOf_none_of_not_mem [DecidableEq α] (x : α) (l : List α) (h : x ∉ l) : indexOf x l = none := by
  cases hk : indexOf x l with
  | none => rfl
  | some k => exact absurd (indexOf_mem_of_some x l k hk) h

/-- positions are kept by a map that is injective towards the element looked for -/
theorem indexOf_map_inj [DecidableEq α] [DecidableEq β] (g : α → β) (x : α) (l : List α)
    (hinj : ∀ a ∈ l, g a = g x → a = x) : indexOf (g x) (l.map g) = indexOf x l := by
  induction l with
  | nil => rfl
  | cons a rest ih =>
    simp only [List.map_cons, indexOf]
    by_cases h : a = x
    · subst h; simp
    · have h' : g a ≠ g x := fun e => h (hinj a List.mem_cons_self e)
      rw [if_neg h', if_neg h, ih (fun b hb => hinj b (List.mem_cons_of_mem _ hb))]

/-- first-occurrence deduplication commutes with a map that is injective on the list -/
theorem dedup_map_inj [DecidableEq α] [DecidableEq β] (g : α → β) (l : List α)
    (hinj : ∀ a ∈ l, ∀ b ∈ l, g a = g b → a = b) : dedup (l.map g) = (dedup l).map g := by
  induction l with
  | nil => rfl
  | cons a rest ih =>
    have ih' := ih (fun x hx y hy => hinj x (List.mem_cons_of_mem _ hx) y (List.mem_cons_of_mem _ hy))
    simp only [List.map_cons, dedup, ih', List.filter_map]
    congr 2
    apply List.filter_congr
    intro b hb
    have hb' : b ∈ rest := (mem_dedup rest b).mp hb
    by_cases h : b = a
    · subst h; simp
    · have : g b ≠ g a := fun e => h (hinj b (List.mem_cons_of_mem _ hb') a List.mem_cons_self e)
      simp [h, this]

/-- `sorted(...)` commutes with a map that keeps the order of the elements of the list -/
theorem sortKeys_map (g : Nat × Int → Nat × Int) (l : List (Nat × Int))
    (hmono : ∀ a ∈ l, ∀ b ∈ l, keyLe a b = true → keyLe (g a) (g b) = true) :
    sortKeys (l.map g) = (sortKeys l).map g := by
  apply List.Perm.eq_of_pairwise (le := fun a b => keyLe a b = true)
  · intro a b _ _ h1 h2; exact keyLe_antisymm a b h1 h2
  · exact sorted_sortKeys _
  · rw [List.pairwise_map]
    apply List.Pairwise.imp_of_mem _ (sorted_sortKeys l)
    intro a b ha hb hab
    exact hmono a ((perm_sortKeys l).mem_iff.mp ha) b ((perm_sortKeys l).mem_iff.mp hb) hab
  · exact (perm_sortKeys _).trans ((perm_sortKeys l).map g).symm

-- ------------------------------------------------------------------ the renumbering in explicit form

/-- the new numbers of one part under the numbering `f` of the (part, track) pairs -/
def renumTriple (f : Nat × Int → Nat) (p : PartTracks × Nat) : List Nat × List Nat × List Nat :=
  (p.1.notes.map (fun t => f (p.2, t)), p.1.controls.map (fun t => f (p.2, trackOr t)),
   p.1.programs.map (fun t => f (p.2, trackOr t)))

/-- position in the enumeration `u` (0 for a pair that is not in it: never looked up) -/
def rankIn (u : List (Nat × Int)) (k : Nat × Int) : Nat := (trackMap u k).getD 0

theorem part_keys (parts : List PartTracks) (p : PartTracks × Nat) (hp : p ∈ parts.zipIdx) :
    (∀ t ∈ p.1.notes, (p.2, t) ∈ trackKeys parts)
    ∧ (∀ t ∈ p.1.controls, (p.2, trackOr t) ∈ trackKeys parts)
    ∧ (∀ t ∈ p.1.programs, (p.2, trackOr t) ∈ trackKeys parts) := by
  unfold trackKeys
  refine ⟨?_, ?_, ?_⟩
  · intro t ht
    apply List.mem_append_left; apply List.mem_append_left
    exact List.mem_flatMap.mpr ⟨p, hp, List.mem_map.mpr ⟨t, ht, rfl⟩⟩
  · intro t ht
    apply List.mem_append_left; apply List.mem_append_right
    exact List.mem_flatMap.mpr ⟨p, hp, List.mem_map.mpr ⟨t, ht, rfl⟩⟩
  · intro t ht
    apply List.mem_append_right
    exact List.mem_flatMap.mpr ⟨p, hp, List.mem_map.mpr ⟨t, ht, rfl⟩⟩

/-- `sanitize_track_numbers` with an enumeration that holds every pair: it never fails and gives every note,
    control and program the position of its (part, track) pair -/
theorem sanitizeWith_explicit (parts : List PartTracks) (u : List (Nat × Int))
    (hu : ∀ k ∈ trackKeys parts, k ∈ u) :
    sanitizeWith u parts = some (parts.zipIdx.map (renumTriple (rankIn u))) := by
  have hget : ∀ k ∈ trackKeys parts, ∃ j, trackMap u k = some j :=
    fun k hk => (indexOf_some_of_mem k u (hu k hk)).imp fun _ h => h.1
  unfold sanitizeWith
  apply mapM'_eq_some
  intro p hp
  obtain ⟨k1, k2, k3⟩ := part_keys parts p hp
  unfold sanitizePart renumTriple rankIn
  rw [mapM'_eq_some (fun t => trackMap u (p.2, t)) (fun t => (trackMap u (p.2, t)).getD 0) p.1.notes
      (by intro t ht; obtain ⟨j, hj⟩ := hget _ (k1 t ht); simp [hj]),
    mapM'_eq_some (fun t => trackMap u (p.2, trackOr t)) (fun t => (trackMap u (p.2, trackOr t)).getD 0) p.1.controls
      (by intro t ht; obtain ⟨j, hj⟩ := hget _ (k2 t ht); simp [hj]),
    mapM'_eq_some (fun t => trackMap u (p.2, trackOr t)) (fun t => (trackMap u (p.2, trackOr t)).getD 0) p.1.programs
      (by intro t ht; obtain ⟨j, hj⟩ := hget _ (k3 t ht); simp [hj])]

/-- the sorted enumeration of the pairs: the one the code uses -/
def sortedKeys (parts : List PartTracks) : List (Nat × Int) := sortKeys (dedup (trackKeys parts))

theorem mem_sortedKeys (parts : List PartTracks) (k : Nat × Int) : k ∈ sortedKeys parts ↔ k ∈ trackKeys parts :=
  ((perm_sortKeys _).mem_iff).trans (mem_dedup _ k)

/-- the state of the parts after the renumbering -/
def renumbered (parts : List PartTracks) : List PartTracks :=
  parts.zipIdx.map (fun p => applyTracks (renumTriple (rankIn (sortedKeys parts)) p))

/-- a pair after the renumbering: same part, the position as the track -/
def newKey (parts : List PartTracks) (k : Nat × Int) : Nat × Int := (k.1, (rankIn (sortedKeys parts) k : Int))

theorem sanitizeSorted_explicit (parts : List PartTracks) :
    sanitizeSorted parts = some (parts.zipIdx.map (renumTriple (rankIn (sortedKeys parts)))) :=
  sanitizeWith_explicit parts _ (fun k hk => (mem_sortedKeys parts k).mpr hk)

theorem trackOr_some (x : Int) : trackOr (some x) = x := rfl

theorem zipIdx_map_zipIdx (l : List α) (F : α × Nat → β) (k : Nat) :
    ((l.zipIdx k).map F).zipIdx k = (l.zipIdx k).map (fun p => (F p, p.2)) := by
  induction l generalizing k with
  | nil => rfl
  | cons a rest ih => simp [List.zipIdx_cons, ih (k + 1)]

/-- the pairs of the renumbered parts are the images of the old pairs, in the same order -/
theorem trackKeys_renumbered (parts : List PartTracks) :
    trackKeys (renumbered parts) = (trackKeys parts).map (newKey parts) := by
  unfold trackKeys renumbered
  rw [zipIdx_map_zipIdx]
  simp only [List.flatMap_map, List.map_append, List.map_flatMap, applyTracks, renumTriple, List.map_map,
    Function.comp_def, trackOr_some, newKey]

theorem rank_inj (parts : List PartTracks) (a b : Nat × Int) (ha : a ∈ trackKeys parts) (hb : b ∈ trackKeys parts)
    (h : rankIn (sortedKeys parts) a = rankIn (sortedKeys parts) b) : a = b := by
  obtain ⟨j₁, e₁, _⟩ := indexOf_some_of_mem a _ ((mem_sortedKeys parts a).mpr ha)
  obtain ⟨j₂, e₂, _⟩ := indexOf_some_of_mem b _ ((mem_sortedKeys parts b).mpr hb)
  unfold rankIn trackMap at h
  rw [e₁, e₂] at h
  simp only [Option.getD_some] at h
  subst h
  exact indexOf_inj a b _ j₁ e₁ e₂

theorem newKey_inj (parts : List PartTracks) (a b : Nat × Int) (ha : a ∈ trackKeys parts) (hb : b ∈ trackKeys parts)
    (h : newKey parts a = newKey parts b) : a = b := by
  have h2 := (Prod.mk.inj h).2
  exact rank_inj parts a b ha hb (by exact_mod_cast h2)

theorem newKey_mono (parts : List PartTracks) (a b : Nat × Int) (ha : a ∈ trackKeys parts) (hb : b ∈ trackKeys parts)
    (h : keyLe a b = true) : keyLe (newKey parts a) (newKey parts b) = true := by
  obtain ⟨j₁, e₁, _⟩ := indexOf_some_of_mem a _ ((mem_sortedKeys parts a).mpr ha)
  obtain ⟨j₂, e₂, _⟩ := indexOf_some_of_mem b _ ((mem_sortedKeys parts b).mpr hb)
  have hle : j₁ ≤ j₂ := indexOf_sorted_mono _ (sorted_sortKeys _) a b j₁ j₂ e₁ e₂ h
  rcases (keyLe_iff a b).mp h with h1 | ⟨h1, _⟩
  · exact (keyLe_iff _ _).mpr (Or.inl h1)
  · apply (keyLe_iff _ _).mpr
    right
    refine ⟨h1, ?_⟩
    simp only [newKey, rankIn, trackMap, e₁, e₂, Option.getD_some]
    exact_mod_cast hle

/-- the sorted enumeration after the renumbering is the image of the one before -/
theorem sortedKeys_renumbered (parts : List PartTracks) :
    sortedKeys (renumbered parts) = (sortedKeys parts).map (newKey parts) := by
  unfold sortedKeys
  rw [trackKeys_renumbered, dedup_map_inj _ _ (fun a ha b hb => newKey_inj parts a b ha hb)]
  apply sortKeys_map
  intro a ha b hb
  exact newKey_mono parts a b ((mem_dedup _ a).mp ha) ((mem_dedup _ b).mp hb)

/-- a pair keeps its position -/
theorem rank_newKey (parts : List PartTracks) (k : Nat × Int) (hk : k ∈ trackKeys parts) :
    trackMap (sortedKeys (renumbered parts)) (newKey parts k) = trackMap (sortedKeys parts) k := by
  rw [sortedKeys_renumbered]
  unfold trackMap
  apply indexOf_map_inj
  intro a ha e
  exact newKey_inj parts a k ((mem_sortedKeys parts a).mp ha) hk e

theorem zip_map_self (l : List α) (K : α → β) : l.zip (l.map K) = l.map (fun x => (x, K x)) := by
  induction l with
  | nil => rfl
  | cons a rest ih => simp [ih]

end C14P
