/-
C12, round 6 — frequency → pitch → frequency over ℝ for formulas of the shape the source uses (see Proofs/C12Freq.lean):
the frequency of ANY real pitch number `p` differs from `f` by the factor 2^((p − x)/O), where x is the unrounded pitch
number of `f`.
-/
import Mathlib.Analysis.SpecialFunctions.Log.Base

namespace C12Freq

theorem back (D M O R R' : ℝ) (k : ℕ) (hD : 0 < D) (hO : O ≠ 0) (hM : M = D * 2 ^ k) (hk : (k : ℝ) * O = R - R')
    (f a4 : ℝ) (hf : 0 < f) (h : 0 < a4) (p : ℝ) :
    a4 / D * (2 : ℝ) ^ ((p - R) / O) = f * (2 : ℝ) ^ ((p - (O * Real.logb 2 (M * f / a4) + R')) / O) := by
  have h2 : (0 : ℝ) < 2 := by norm_num
  have hMpos : 0 < M := by rw [hM]; positivity
  have hq : 0 < M * f / a4 := by positivity
  have hpow : (2 : ℝ) ^ (Real.logb 2 (M * f / a4)) = M * f / a4 := Real.rpow_logb h2 (by norm_num) hq
  generalize Real.logb 2 (M * f / a4) = L at hpow
  have e : (p - R) / O = (p - (O * L + R')) / O + L + (-(k : ℝ)) := by
    field_simp
    linarith
  rw [e, Real.rpow_add h2, Real.rpow_add h2, hpow, Real.rpow_neg (le_of_lt h2), Real.rpow_natCast, hM]
  field_simp

end C12Freq
