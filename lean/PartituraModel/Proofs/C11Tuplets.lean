/-
C11 — helper lemmas about the model of `find_tuplets` (Model/Tuplets.lean): it only writes symbolic durations, and
what sounds does not depend on symbolic durations.
-/
import PartituraModel.Model.Tuplets
import PartituraModel.Proofs.C11Dur
import PartituraModel.Proofs.C11Walk

namespace C11Tup
open Model Model.Dur Model.Meas Model.Tup Gen

/-- a note without its symbolic duration -/
def strip (n : Note) : Note := { n with sym := none }

theorem find_strip (ns : List Note) (k : Nat) :
    (ns.map strip).find? (fun n => decide (n.key = k)) = (ns.find? (fun n => decide (n.key = k))).map strip := by
  induction ns with
  | nil => rfl
  | cons a as ih =>
    simp only [List.map_cons, List.find?_cons]
    have : (strip a).key = a.key := rfl
    rw [this]
    split
    · rfl
    · exact ih

theorem chainEndDur_strip (ns : List Note) : ∀ (fuel : Nat) (n : Note),
    chainEndDur (ns.map strip) fuel (strip n) = chainEndDur ns fuel n := by
  intro fuel
  induction fuel with
  | zero => intro n; rfl
  | succ fuel ih =>
    intro n
    unfold chainEndDur
    have h1 : (strip n).tieNext = n.tieNext := rfl
    have h2 : (strip n).stop = n.stop := rfl
    have h3 : (strip n).start = n.start := rfl
    rw [h1, h2, h3]
    cases hn : n.tieNext with
    | none => rfl
    | some k =>
      simp only [Option.bind_some]
      rw [find_strip]
      cases hf : ns.find? (fun n => decide (n.key = k)) with
      | none => rfl
      | some nx =>
        simp only [Option.map_some]
        rw [ih nx]

/-- what sounds does not depend on the symbolic durations -/
theorem sounding_strip (ns : List Note) : sounding (ns.map strip) = sounding ns := by
  unfold sounding
  rw [List.length_map, List.filter_map, List.map_map]
  apply List.map_congr_left
  intro n _
  simp only [Function.comp]
  rw [chainEndDur_strip]
  rfl

theorem sounding_of_strip_eq (ns ns' : List Note) (h : ns'.map strip = ns.map strip) : sounding ns' = sounding ns := by
  rw [← sounding_strip ns', h, sounding_strip]

theorem assign_strip (sd : SymDur) (keys : List Nat) (ns : List Note) : (assign sd keys ns).map strip = ns.map strip := by
  unfold assign
  rw [List.map_map]
  apply List.map_congr_left
  intro n _
  simp only [Function.comp]
  split <;> rfl

theorem scanGroup_strip (qd : List (Int × Nat)) (group : List Note) (actual : Nat) : ∀ (fuel tupStart : Nat) (st : TState),
    (scanGroup qd group actual fuel tupStart st).notes.map strip = st.notes.map strip := by
  intro fuel
  induction fuel with
  | zero => intro _ st; rfl
  | succ fuel ih =>
    intro tupStart st
    unfold scanGroup
    split
    · dsimp only
      split
      · split
        · exact ih _ _
        · split
          · exact ih _ _
          · split
            · split
              · rw [ih]; exact assign_strip _ _ _
              · exact ih _ _
            · exact ih _ _
      · rfl
    · rfl

theorem doGroup_strip (qd : List (Int × Nat)) (st : TState) (group : List Note) :
    (doGroup qd st group).notes.map strip = st.notes.map strip := by
  unfold doGroup
  generalize searchFor = l
  induction l generalizing st with
  | nil => rfl
  | cons a as ih =>
    rw [List.foldl_cons, ih]
    split
    · rfl
    · exact scanGroup_strip _ _ _ _ _ _

theorem findTupletsBy_strip (noSym : Note → Bool) (qd : List (Int × Nat)) (ns : List Note) :
    (findTupletsBy noSym qd ns).notes.map strip = ns.map strip := by
  unfold findTupletsBy
  generalize candidatesBy noSym ns = gs
  suffices h : ∀ (st : TState), (gs.foldl (doGroup qd) st).notes.map strip = st.notes.map strip from h ⟨ns, []⟩
  induction gs with
  | nil => intro st; rfl
  | cons g gs ih =>
    intro st
    rw [List.foldl_cons, ih, doGroup_strip]

/-- no candidate, no change -/
theorem candidates_none (noSym : Note → Bool) (h : ∀ n, noSym n = false) (ns : List Note) : candidatesBy noSym ns = [] := by
  unfold candidatesBy
  have : ∀ (st : List (List Note) × Option Nat), ns.foldl (candStep noSym) st = st := by
    induction ns with
    | nil => intro st; rfl
    | cons a as ih =>
      intro st
      rw [List.foldl_cons]
      have : candStep noSym st a = st := by unfold candStep; rw [h a]; rfl
      rw [this, ih]
  rw [this]; rfl

/-- a straight value relabelled `actual : 2` lasts the duration of one of `actual` equal notes that together last
    twice the value -/
theorem relabel_straight (h div actual d : Nat) (ty : String) (hact : 0 < actual) (hsum : 2 * h = actual * d)
    (hest : estimate (h : Rat) div false = some (.single (ty, 0, none, none))) :
    symbolicToNumeric (ty, 0, some actual, some 2) div = some (d : Rat) := by
  have hb := C11Dur.estimate_back' h div false _ hest
  unfold symbolicToNumeric at hb ⊢
  simp only at hb ⊢
  split at hb
  · rename_i dl m h1 h2
    simp only [Option.some.injEq] at hb ⊢
    have ha : ((actual : Nat) : Rat) ≠ 0 := by exact_mod_cast (Nat.pos_iff_ne_zero.mp hact)
    simp only [Option.getD_none, Option.getD_some, Nat.cast_one, one_ne_zero, if_false, div_one, mul_one] at hb
    simp only [Option.getD_some, Nat.cast_ofNat, OfNat.ofNat_ne_zero, if_false, ha]
    have hs : (2 : Rat) * (h : Rat) = (actual : Rat) * (d : Rat) := by exact_mod_cast hsum
    rw [← mul_div_assoc, hb]
    field_simp
    linarith
  · simp at hb

end C11Tup
