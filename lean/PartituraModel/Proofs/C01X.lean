/-
C01 helper lemmas, round 5: the `TimePoint` methods called directly (`tpRegister`, `tpUnregister`), the Slur
setters, the ghost `allowEmpty`, and the argument conventions of Model/TimelineX.lean.
-/
import PartituraModel.Proofs.C01Cache
import Mathlib.Algebra.Order.Floor.Ring
import Mathlib.Data.Rat.Floor

namespace TL

-- ------------------------------------------------------------------ the ghost

theorem allowEmpty_points (s : Part) (t : Int) : (allowEmpty s t).points = s.points := by
  unfold allowEmpty; split <;> [split <;> rfl; rfl]

theorem allowEmpty_objs (s : Part) (t : Int) : (allowEmpty s t).objs = s.objs := by
  unfold allowEmpty; split <;> [split <;> rfl; rfl]

theorem allowEmpty_qtab (s : Part) (t : Int) : (allowEmpty s t).qtab = s.qtab := by
  unfold allowEmpty; split <;> [split <;> rfl; rfl]

theorem allowEmpty_times (s : Part) (t : Int) : (allowEmpty s t).times = s.times := by
  unfold Part.times; rw [allowEmpty_points]

theorem allowEmpty_requested_sup (s : Part) (t : Int) : ∀ x ∈ s.requested, x ∈ (allowEmpty s t).requested := by
  intro x hx
  unfold allowEmpty
  split
  · split
    · exact List.mem_append.mpr (Or.inl hx)
    · exact hx
  · exact hx

theorem findPoint_mem {pts : List Point} {t : Int} {p : Point} (h : findPoint pts t = some p) :
    p ∈ pts ∧ p.t = t := by
  unfold findPoint at h
  exact ⟨List.mem_of_find?_eq_some h, by simpa using List.find?_some h⟩

theorem allowEmpty_requested_sub (s : Part) (t : Int) :
    ∀ x ∈ (allowEmpty s t).requested, x ∈ s.requested ∨ (x = t ∧ t ∈ s.times) := by
  intro x hx
  unfold allowEmpty at hx
  split at hx
  · rename_i p hf
    split at hx
    · rcases List.mem_append.mp hx with h | h
      · exact Or.inl h
      · simp only [List.mem_singleton] at h
        obtain ⟨hp, hpt⟩ := findPoint_mem hf
        exact Or.inr ⟨h, List.mem_map.mpr ⟨p, hp, hpt⟩⟩
    · exact Or.inl hx
  · exact Or.inl hx

theorem listed_allowEmpty (s : Part) (t : Int) (sd : Side) (x : Int) (o : ObjRef) :
    Listed (allowEmpty s t) sd x o ↔ Listed s sd x o := by
  unfold Listed; rw [allowEmpty_points]

theorem strict_allowEmpty (s : Part) (t : Int) : Strict (allowEmpty s t) ↔ Strict s := by
  unfold Strict; rw [allowEmpty_points, allowEmpty_objs]

/-- a point that is the only one allowed to be empty may be recorded in the ghost instead -/
theorem allowEmpty_wcore {s : Part} {t : Int} (h : WCore (some t) s) : WCore none (allowEmpty s t) := by
  have hp := allowEmpty_points s t
  have ho := allowEmpty_objs s t
  have hq := allowEmpty_qtab s t
  have ht := allowEmpty_times s t
  refine ⟨by rw [ht]; exact h.sorted, by rw [hp]; exact h.nonneg, by rw [hp]; exact h.regNodup,
    by rw [ho]; exact h.objsNodup, by rw [hp, ho]; exact h.backListed, by rw [ho, ht]; exact h.refOn,
    by rw [hp, ho]; exact h.listedKnown, ?_, ?_, by rw [hp, hq]; exact h.quarter, by rw [hq]; exact h.qsorted,
    by rw [hq]; exact h.qhead⟩
  · rw [hp]
    intro p hpm
    rcases h.nonempty p hpm with a | a | a | a
    · exact Or.inl a
    · exact Or.inr (Or.inl a)
    · exact Or.inr (Or.inr (Or.inl (allowEmpty_requested_sup s t _ a)))
    · have hpt : p.t = t := by simpa using a
      have hmem : t ∈ s.points.map (·.t) := List.mem_map.mpr ⟨p, hpm, hpt⟩
      obtain ⟨pre, b, r, hsplit, hbt, h1, h2⟩ := split_at_time h.sorted hmem
      have hf : findPoint s.points t = some b := by rw [hsplit]; exact findPoint_split pre r b t h1 hbt
      have hpb : p = b := by
        rw [hsplit] at hpm
        rcases List.mem_append.mp hpm with hm | hm
        · have := h1 p hm; omega
        · rcases List.mem_cons.mp hm with rfl | hm
          · rfl
          · have := h2 p hm; omega
      subst hpb
      unfold allowEmpty
      simp only [hf]
      split
      · right; right; left
        rw [hpt]
        exact List.mem_append.mpr (Or.inr (by simp))
      · rename_i hc
        by_cases hr : t ∈ s.requested
        · right; right; left; rw [hpt]; exact hr
        · have hlen : ¬ (p.starting.length + p.ending.length = 0) := fun e => hc ⟨e, hr⟩
          by_cases hs : p.starting = []
          · right; left
            intro he
            apply hlen
            simp [hs, he]
          · left; exact hs
  · intro x hx
    rw [ht]
    rcases allowEmpty_requested_sub s t x hx with a | ⟨rfl, a⟩
    · exact h.requestedOn x a
    · exact a

-- ------------------------------------------------------------------ TimePoint.add_*_object / remove_*_object

theorem tpRegister_eq (s : Part) (sd : Side) (t : Int) (o : ObjRef) : tpRegister s sd t o = register s sd t o := rfl

theorem tpUnregister_eq (s : Part) (sd : Side) (t : Int) (o : ObjRef) :
    tpUnregister s sd t o = allowEmpty (unregister s sd t o) t := rfl

theorem tpRegister_wgood {s : Part} (h : WGood s) {sd : Side} {t : Int} (o : ObjRef) (ht : t ∈ s.times) :
    WGood (tpRegister s sd t o) :=
  ⟨register_winv (h.1.weaken (some t)) ht, (register_links s sd t o).mpr h.2⟩

theorem tpUnregister_wgood {s : Part} (h : WGood s) (sd : Side) (t : Int) (o : ObjRef) :
    WGood (tpUnregister s sd t o) := by
  rw [tpUnregister_eq]
  refine ⟨allowEmpty_wcore (unregister_winv h.1), ?_⟩
  rw [allowEmpty_points]
  exact (unregister_links s sd t o).mpr h.2

theorem tpRegister_good {s : Part} (h : Good s) {sd : Side} {t : Int} {o : ObjRef} (ht : t ∈ s.times)
    (hfree : (getObj s.objs o).at sd = none) : Good (tpRegister s sd t o) :=
  ⟨register_inv (h.1.weaken (some t)) ht hfree, (register_links s sd t o).mpr h.2⟩

/-- `Inv` survives `tp.remove_*_object(o)` when `tp` is the point `o` refers to (what the Slur setters do) -/
theorem tpUnregister_inv {s : Part} (h : Inv s) {sd : Side} {t : Int} {o : ObjRef}
    (hat : (getObj s.objs o).at sd = some t) : Inv (tpUnregister s sd t o) := by
  have hg := (good_iff_inv s).mpr h
  have hu : InvCore (some t) (unregister s sd t o) := unregister_inv hg.1 hat
  have hstrict : Strict (unregister s sd t o) := fun sd' e he p hp => (hu.listed sd' e he p hp).mp
  rw [tpUnregister_eq]
  refine (inv_iff_winv_strict _).mpr ⟨(wgood_iff_winv _).mp ⟨allowEmpty_wcore hu.toWCore, ?_⟩,
    (strict_allowEmpty _ _).mpr hstrict⟩
  rw [allowEmpty_points]
  exact (unregister_links s sd t o).mpr hg.2

theorem tpRegister_inv {s : Part} (h : Inv s) {sd : Side} {t : Int} {o : ObjRef} (ht : t ∈ s.times)
    (hfree : (getObj s.objs o).at sd = none) : Inv (tpRegister s sd t o) :=
  (good_iff_inv _).mp (tpRegister_good ((good_iff_inv s).mpr h) ht hfree)

/-- the listings after `tp.remove_*_object(o)`: the one AT `t` is gone, nothing else -/
theorem tpUnregister_listed (s : Part) (sd : Side) (t : Int) (o : ObjRef) (sd' : Side) (x : Int) (o' : ObjRef) :
    Listed (tpUnregister s sd t o) sd' x o' ↔ Listed s sd' x o' ∧ ¬ (o' = o ∧ sd' = sd ∧ x = t) := by
  rw [tpUnregister_eq, listed_allowEmpty, unregister_listed]

theorem tpRegister_listed {s : Part} {sd : Side} {t : Int} {o : ObjRef} (ht : t ∈ s.times)
    (sd' : Side) (x : Int) (o' : ObjRef) :
    Listed (tpRegister s sd t o) sd' x o' ↔ Listed s sd' x o' ∨ (o' = o ∧ sd' = sd ∧ x = t) :=
  register_listed ht sd' x o'

/-- the references after `tp.remove_*_object(o)`: `o`'s side is cleared WHATEVER it was -/
theorem tpUnregister_refs {s : Part} (hn : (s.objs.map (·.ref)).Nodup) (sd : Side) (t : Int) (o : ObjRef)
    (sd' : Side) (o' : ObjRef) :
    (getObj (tpUnregister s sd t o).objs o').at sd'
      = if o' = o ∧ sd' = sd then none else (getObj s.objs o').at sd' := by
  rw [tpUnregister_eq, allowEmpty_objs]
  unfold unregister
  simp only
  by_cases ho : o' = o
  · subst ho
    rw [getObj_setObj_same hn (fun e => by simp), setAt_at]
    by_cases hs : sd' = sd <;> simp [hs]
  · rw [getObj_setObj_other hn (fun e => by simp) ho]
    simp [ho]

theorem tpRegister_refs {s : Part} (hn : (s.objs.map (·.ref)).Nodup) (sd : Side) (t : Int) (o : ObjRef)
    (sd' : Side) (o' : ObjRef) :
    (getObj (tpRegister s sd t o).objs o').at sd'
      = if o' = o ∧ sd' = sd then some t else (getObj s.objs o').at sd' := by
  unfold tpRegister
  simp only
  by_cases ho : o' = o
  · subst ho
    rw [getObj_setObj_same hn (fun e => by simp), setAt_at]
    by_cases hs : sd' = sd <;> simp [hs]
  · rw [getObj_setObj_other hn (fun e => by simp) ho]
    simp [ho]

-- ------------------------------------------------------------------ the Slur setters

theorem slurSetStart_wgood {s : Part} (h : WGood s) (slur : ObjRef) : WGood (slurSetStart s slur) := by
  unfold slurSetStart
  split
  · exact tpUnregister_wgood h _ _ _
  · exact h

theorem slurSetEnd_wgood {s : Part} (h : WGood s) (slur note : ObjRef) : WGood (slurSetEnd s slur note) := by
  unfold slurSetEnd
  have h1 : WGood (match (getObj s.objs slur).stop with
      | some t => tpUnregister s .stop t slur
      | none => s) := by
    split
    · exact tpUnregister_wgood h _ _ _
    · exact h
  simp only
  split
  · rename_i t' ht'
    exact tpRegister_wgood h1 slur (h1.1.getObj_refOn .stop note ht')
  · exact h1

theorem slurSetStart_inv {s : Part} (h : Inv s) (slur : ObjRef) : Inv (slurSetStart s slur) := by
  unfold slurSetStart
  split
  · rename_i t ht
    exact tpUnregister_inv h (sd := .start) ht
  · exact h

theorem slurSetEnd_inv {s : Part} (h : Inv s) (slur note : ObjRef) : Inv (slurSetEnd s slur note) := by
  unfold slurSetEnd
  have h1 : Inv (match (getObj s.objs slur).stop with
      | some t => tpUnregister s .stop t slur
      | none => s) ∧ (getObj (match (getObj s.objs slur).stop with
      | some t => tpUnregister s .stop t slur
      | none => s).objs slur).at .stop = none := by
    split
    · rename_i t ht
      refine ⟨tpUnregister_inv h (sd := .stop) ht, ?_⟩
      rw [tpUnregister_refs h.objsNodup]
      simp
    · rename_i hn
      exact ⟨h, hn⟩
  simp only
  split
  · rename_i t' ht'
    have hg := (good_iff_inv _).mpr h1.1
    exact tpRegister_inv h1.1 (hg.1.toWCore.getObj_refOn .stop note ht') h1.2
  · exact h1.1

-- ------------------------------------------------------------------ bounds given as reals

/-- `searchsortedQ` at a real bound is `searchsorted` at any integer with the same integers below it -/
theorem searchsortedQ_eq (ts : List Int) (x : Rat) (k : Int) (hk : ∀ y : Int, (y : Rat) < x ↔ y < k) :
    searchsortedQ ts x = searchsorted ts k := by
  induction ts with
  | nil => rfl
  | cons y ys ih =>
    simp only [searchsortedQ, searchsorted, ih]
    by_cases h : y < k
    · simp [h, (hk y).mpr h]
    · have : ¬ (y : Rat) < x := fun hc => h ((hk y).mp hc)
      simp [h, this]

theorem lt_iff_lt_ceil (x : Rat) (y : Int) : (y : Rat) < x ↔ y < ⌈x⌉ := Int.lt_ceil.symm

theorem searchsortedQ_ceil (ts : List Int) (x : Rat) : searchsortedQ ts x = searchsorted ts ⌈x⌉ :=
  searchsortedQ_eq ts x ⌈x⌉ (lt_iff_lt_ceil x)

theorem searchsortedQ_int (ts : List Int) (k : Int) : searchsortedQ ts (k : Rat) = searchsorted ts k :=
  searchsortedQ_eq ts k k (fun y => by exact_mod_cast Iff.rfl)

/-- `iter_all` with the bounds as reals (any accepted form), mode and flag already decoded -/
def iterAllQ (s : Part) (cls : Option Nat) (a b : Option Rat) (incl : Bool) (mode : Mode) : List ObjRef :=
  let si := startIdxQ s.points a
  let ei := endIdxQ s.points b
  ((s.points.drop si).take (ei - si)).flatMap fun p => iterReg (p.reg mode.side) cls (inclEff cls incl)

theorem iterAllQ_eq_ceil (s : Part) (cls : Option Nat) (a b : Option Rat) (incl : Bool) (mode : Mode) :
    iterAllQ s cls a b incl mode = iterAll s cls (a.map Int.ceil) (b.map Int.ceil) incl mode := by
  unfold iterAllQ iterAll
  have h1 : startIdxQ s.points a = startIdx s.points (a.map Int.ceil) := by
    cases a <;> simp [startIdxQ, startIdx, searchsortedQ_ceil]
  have h2 : endIdxQ s.points b = endIdx s.points (b.map Int.ceil) := by
    cases b <;> simp [endIdxQ, endIdx, searchsortedQ_ceil]
  rw [h1, h2]

-- ------------------------------------------------------------------ strings and omitted arguments

theorem whichSides_default : whichSides none = (true, true) := by decide
theorem whichSides_start : whichSides (some "start") = (true, false) := by decide
theorem whichSides_end : whichSides (some "end") = (false, true) := by decide
theorem whichSides_both : whichSides (some "both") = (true, true) := by decide

theorem whichSides_other (w : String) (h1 : w ≠ "start") (h2 : w ≠ "end") (h3 : w ≠ "both") :
    whichSides (some w) = (false, false) := by
  simp [whichSides, Gen.C01Sig.removeStartWhich, Gen.C01Sig.removeEndWhich, Gen.C01Sig.removeUnknownStart,
    Gen.C01Sig.removeUnknownEnd, h1, h2, h3]

theorem modeOfString_ending : modeOfString "ending" = .ending := by decide
theorem modeOfString_starting : modeOfString "starting" = .starting := by decide

theorem modeOfString_other (m : String) (h1 : m ≠ "ending") : (modeOfString m).side = .start := by
  unfold modeOfString
  simp only [Gen.C01Sig.iterAllEndingModes, Gen.C01Sig.iterAllStartingModes, Gen.C01Sig.iterAllUnknownModeEnding,
    List.mem_singleton, h1, if_false]
  split <;> rfl

theorem iterAllX_eq (s : Part) (cls : Option Nat) (a b : Bound) (incl : Option Bool) (mode : Option String) :
    iterAllX s cls a b incl mode
      = iterAllQ s cls a.key b.key (incl.getD false) (modeOfString (mode.getD "starting")) := by
  cases a <;> cases b <;> rfl

end TL
