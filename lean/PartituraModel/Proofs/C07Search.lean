/-
C07 — format-then-search returns the encoded fields (generic, by induction over the segment list).
-/
import PartituraModel.Model.Template

namespace Model.Template

theorem litMatch_append_of_litAgree (p : List PChar) (s rest : List Char) (h : litAgree p s = true) :
    litMatch p (s ++ rest) = some rest := by
  induction p generalizing s with
  | nil =>
    cases s with
    | nil => simp [litMatch]
    | cons c cs => simp [litAgree] at h
  | cons a ps ih =>
    cases s with
    | nil => simp [litAgree] at h
    | cons c cs =>
      simp only [litAgree, Bool.and_eq_true] at h
      simp only [List.cons_append, litMatch, h.1, if_true]
      exact ih cs h.2

theorem litMatch_append_of_litPrefix (p : List PChar) (s rest : List Char) (h : litPrefix p s = true) :
    ∃ r, litMatch p (s ++ rest) = some r := by
  induction p generalizing s with
  | nil => exact ⟨s ++ rest, by simp [litMatch]⟩
  | cons a ps ih =>
    cases s with
    | nil => simp [litPrefix] at h
    | cons c cs =>
      simp only [litPrefix, Bool.and_eq_true] at h
      obtain ⟨r, hr⟩ := ih cs h.2
      exact ⟨r, by simp only [List.cons_append, litMatch, h.1, if_true]; exact hr⟩

/-- the backtracking loop stops at length `m` when the continuation succeeds there and fails at every
    longer length it tries first -/
theorem tryLens_spec {R : Type} (k : List Char → Option R) (s : List Char) (lo m g : Nat) (r : R)
    (hlo : lo ≤ m) (hmg : m ≤ g) (hk : k (s.drop m) = some r)
    (hno : ∀ j, m < j → j ≤ g → k (s.drop j) = none) :
    tryLens k s lo g = some (s.take m, r) := by
  induction g with
  | zero =>
    have hm : m = 0 := by omega
    subst hm
    have hl : lo = 0 := by omega
    subst hl
    simp only [List.drop_zero] at hk
    simp [tryLens, hk]
  | succ n ih =>
    by_cases hm : m = n + 1
    · subst hm
      have : ¬ (n + 1 < lo) := by omega
      simp only [tryLens, this, if_false, hk]
    · have hmn : m ≤ n := by omega
      have h1 : ¬ (n + 1 < lo) := by omega
      have h2 : k (s.drop (n + 1)) = none := hno (n + 1) (by omega) (by omega)
      simp only [tryLens, h1, if_false, h2]
      exact ih hmn (fun j hj1 hj2 => hno j hj1 (by omega))

theorem length_le_takeWhile_append (f : Char → Bool) (x rest : List Char) (h : x.all f = true) :
    x.length ≤ ((x ++ rest).takeWhile f).length := by
  induction x with
  | nil => simp
  | cons c cs ih =>
    simp only [List.all_cons, Bool.and_eq_true] at h
    simp only [List.cons_append, List.takeWhile_cons, h.1, if_true, List.length_cons]
    have := ih h.2
    omega

theorem allBetween_spec (lo hi : Nat) (f : Nat → Bool) (h : allBetween lo hi f = true) :
    ∀ j, lo < j → j ≤ hi → f j = true := by
  intro j h1 h2
  unfold allBetween at h
  rw [List.all_eq_true] at h
  have := h (j - lo - 1) (by simp; omega)
  have e : lo + 1 + (j - lo - 1) = j := by omega
  rw [e] at this
  exact this

/-- **format-then-match** (general side condition) -/
theorem matchSegs_render (q : List Seg) : ∀ (o : List OSeg) (v : String → List Char) (tail : List Char),
    agree o q = true → fieldsOKGen o q v tail = true →
    matchSegs q (render o v ++ tail) = some (groupsOf q v) := by
  induction q with
  | nil =>
    intro o v tail ha _
    cases o with
    | nil => simp [matchSegs, groupsOf]
    | cons a o => cases a <;> simp [agree] at ha
  | cons sg q ih =>
    intro o v tail ha hf
    cases o with
    | nil => simp [agree] at ha
    | cons a o =>
      cases a with
      | lit s =>
        cases sg with
        | fld n' cls lo => simp [agree] at ha
        | lit p =>
          rw [agree] at ha
          rw [Bool.and_eq_true] at ha
          obtain ⟨hlit, hag⟩ := ha
          simp only [fieldsOKGen] at hf
          simp only [render, List.append_assoc, matchSegs, groupsOf]
          split at hlit
          next he =>
            simp only [Bool.and_eq_true, List.isEmpty_iff] at he
            obtain ⟨ho, hq⟩ := he
            subst ho; subst hq
            obtain ⟨r, hr⟩ := litMatch_append_of_litPrefix p s.toList (render [] v ++ tail) hlit
            rw [hr]
            simp [matchSegs, groupsOf]
          next he =>
            have hl := litMatch_append_of_litAgree p s.toList (render o v ++ tail) hlit
            rw [hl]
            exact ih o v tail hag hf
      | fld n =>
        cases sg with
        | lit p => simp [agree] at ha
        | fld n' cls lo =>
          simp only [agree, Bool.and_eq_true, beq_iff_eq] at ha
          obtain ⟨⟨hn, _⟩, hag⟩ := ha
          subst hn
          simp only [fieldsOKGen, Bool.and_eq_true, decide_eq_true_eq] at hf
          obtain ⟨⟨⟨hall, hlo⟩, hbt⟩, hrest⟩ := hf
          have hrec := ih o v tail hag hrest
          simp only [render, List.append_assoc, matchSegs, groupsOf]
          have hspec := tryLens_spec (matchSegs q) (v n ++ (render o v ++ tail)) lo (v n).length
            (((v n ++ (render o v ++ tail)).takeWhile cls.mem).length) (groupsOf q v) hlo
            (length_le_takeWhile_append _ _ _ hall)
            (by rw [List.drop_left]; exact hrec)
            (fun j h1 h2 => by
              have := allBetween_spec _ _ _ hbt j h1 h2
              simpa [Option.isNone_iff_eq_none] using this)
          rw [hspec]
          simp

theorem isNone_matchSegs_of_headLit (q : List Seg) (t : List Char)
    (h : (litMatch (headLit q) t).isNone = true) : (matchSegs q t).isNone = true := by
  cases q with
  | nil => simp [headLit, litMatch] at h
  | cons sg r =>
    cases sg with
    | lit p =>
      simp only [headLit, Option.isNone_iff_eq_none] at h
      simp [matchSegs, h]
    | fld n c l => simp [headLit, litMatch] at h

theorem allBetween_mono (lo hi : Nat) (f g : Nat → Bool) (hfg : ∀ j, f j = true → g j = true)
    (h : allBetween lo hi f = true) : allBetween lo hi g = true := by
  unfold allBetween at *
  rw [List.all_eq_true] at *
  intro i hi'
  exact hfg _ (h i hi')

/-- the structural side condition implies the general one -/
theorem fieldsOKGen_of_fieldsOK (q : List Seg) : ∀ (o : List OSeg) (v : String → List Char) (tail : List Char),
    fieldsOK o q v tail = true → fieldsOKGen o q v tail = true := by
  induction q with
  | nil =>
    intro o v tail h
    cases o with
    | nil => simp [fieldsOKGen]
    | cons a o => cases a <;> simp [fieldsOK] at h
  | cons sg q ih =>
    intro o v tail h
    cases o with
    | nil => simp [fieldsOK] at h
    | cons a o =>
      cases a with
      | lit s =>
        cases sg with
        | fld n' cls lo => simp [fieldsOK] at h
        | lit p =>
          simp only [fieldsOK] at h
          simp only [fieldsOKGen]
          exact ih o v tail h
      | fld n =>
        cases sg with
        | lit p => simp [fieldsOK] at h
        | fld n' cls lo =>
          simp only [fieldsOK, Bool.and_eq_true, decide_eq_true_eq] at h
          obtain ⟨⟨⟨hall, hlo⟩, hbt⟩, hrest⟩ := h
          simp only [fieldsOKGen, Bool.and_eq_true, decide_eq_true_eq]
          refine ⟨⟨⟨hall, hlo⟩, ?_⟩, ih o v tail hrest⟩
          exact allBetween_mono _ _ _ _ (fun j hj => isNone_matchSegs_of_headLit q _ hj) hbt

theorem search_of_matchSegs (q : List Seg) (s : List Char) (r : List (String × List Char))
    (h : matchSegs q s = some r) : search q s = some r := by
  cases s with
  | nil => simpa [search] using h
  | cons c s => simp [search, h]

/-- `search` skips a prefix at whose offsets the anchored match fails -/
theorem search_skip (q : List Seg) (pre s : List Char) (r : List (String × List Char))
    (hno : ∀ k, k < pre.length → matchSegs q ((pre ++ s).drop k) = none)
    (h : matchSegs q s = some r) : search q (pre ++ s) = some r := by
  induction pre with
  | nil => simpa using search_of_matchSegs q s r h
  | cons c pre ih =>
    have h0 := hno 0 (by simp)
    simp only [List.drop_zero] at h0
    simp only [List.cons_append, search]
    simp only [List.cons_append] at h0
    rw [h0]
    apply ih
    intro k hk
    have := hno (k + 1) (by simp; omega)
    simpa using this

/-- no anchored match of `q` starts inside the prefix `pre` of the line `pre ++ s` (decidable) -/
def noEarly (q : List Seg) (pre s : List Char) : Bool :=
  (List.range pre.length).all fun k => (matchSegs q ((pre ++ s).drop k)).isNone

theorem noEarly_spec (q : List Seg) (pre s : List Char) (h : noEarly q pre s = true) :
    ∀ k, k < pre.length → matchSegs q ((pre ++ s).drop k) = none := by
  intro k hk
  unfold noEarly at h
  rw [List.all_eq_true] at h
  have := h k (by simp; exact hk)
  simpa [Option.isNone_iff_eq_none] using this

end Model.Template
