/-
C13, round 5 — the lemmas of Proofs/C13.lean and Proofs/C13Cells.lean about frames, fill list, shape and cells,
once more for the rasteriser `makeWith fl` of Model/PianoRollFloat.lean with an ARBITRARY rounding function `fl`
after every floating-point operation (`fl = f64`: the code; `fl = id`: the exact model).  None of them needs
anything about `fl`: minimum length, separation, collision handling, bounds, order independence and the index rows
are facts about the integer frames, whatever rounding produced them.
-/
import PartituraModel.Model.PianoRollFloat
import PartituraModel.Proofs.C13
import PartituraModel.Proofs.C13Cells
import PartituraModel.Proofs.C13Float

namespace C13
open Model Model.PianoRoll
open List

theorem lit_min_frames : Gen.C13L_MIN_FRAMES = 1 := by decide
theorem lit_sep_on : Gen.C13L_SEP_ON = 1 := by decide
theorem lit_sep_off : Gen.C13L_SEP_OFF = 0 := by decide
theorem lit_min_shown : Gen.C13L_MIN_SHOWN = 1 := by decide

/-- exclusive end of the frames that are actually filled -/
def offCellG (fl : Rat → Rat) (o : Opts) (t0 : Rat) (n : Note) : Int :=
  if o.onsetOnly then onFrameG fl o t0 n + 1 else offIdxG fl o t0 n

theorem durFramesG_pos (fl : Rat → Rat) (o : Opts) (n : Note) : 1 ≤ durFramesG fl o n := by
  unfold durFramesG
  simp only [lit_min_frames]
  split <;> omega

theorem onFrameG_lt_offFullG (fl : Rat → Rat) (o : Opts) (t0 : Rat) (n : Note) : onFrameG fl o t0 n < offFullG fl o t0 n := by
  unfold offFullG
  have := durFramesG_pos fl o n
  omega

theorem onFrameG_lt_offIdxG (fl : Rat → Rat) (o : Opts) (t0 : Rat) (n : Note) : onFrameG fl o t0 n < offIdxG fl o t0 n := by
  unfold offIdxG
  have := onFrameG_lt_offFullG fl o t0 n
  simp only [lit_min_shown, lit_sep_on, lit_sep_off]
  split
  · exact this
  · split <;> omega

theorem onFrameG_lt_offCellG (fl : Rat → Rat) (o : Opts) (t0 : Rat) (n : Note) : onFrameG fl o t0 n < offCellG fl o t0 n := by
  unfold offCellG
  have := onFrameG_lt_offIdxG fl o t0 n
  split <;> omega

theorem offCellG_le_offFullG (fl : Rat → Rat) (o : Opts) (t0 : Rat) (n : Note) : offCellG fl o t0 n ≤ offFullG fl o t0 n := by
  unfold offCellG offIdxG
  have := onFrameG_lt_offFullG fl o t0 n
  simp only [lit_min_shown, lit_sep_on, lit_sep_off]
  split
  · omega
  · split <;> split <;> omega

theorem mem_noteCellsG (fl : Rat → Rat) (o : Opts) (lowest : Int) (t0 : Rat) (n : Note) (p j v : Int) :
    (p, j, v) ∈ noteCellsG fl o lowest t0 n ↔
      p = rowOf o lowest n ∧ v = n.vel ∧ onFrameG fl o t0 n ≤ j ∧ j < offCellG fl o t0 n := by
  unfold noteCellsG offCellG
  simp only
  by_cases h : o.onsetOnly = true
  · simp only [h, if_true, mem_singleton, Prod.mk.injEq]
    constructor
    · rintro ⟨h1, h2, h3⟩; exact ⟨h1, h3, by omega, by omega⟩
    · rintro ⟨h1, h2, h3, h4⟩; exact ⟨h1, by omega, h2⟩
  · have h' : o.onsetOnly = false := by simpa using h
    simp only [h', Bool.false_eq_true, ↓reduceIte, mem_map, mem_range, Prod.mk.injEq]
    constructor
    · rintro ⟨k, hk, h1, h2, h3⟩
      exact ⟨h1.symm, h3.symm, by omega, by omega⟩
    · rintro ⟨h1, h2, h3, h4⟩
      exact ⟨(j - onFrameG fl o t0 n).toNat, by omega, h1.symm, by omega, h2.symm⟩

theorem mem_fillOfG (fl : Rat → Rat) (o : Opts) (notes : List Note) (p j v : Int) :
    (p, j, v) ∈ fillOfG fl o notes ↔
      ∃ n ∈ notes, rowOf o (lowestOf o notes) n = p ∧ n.vel = v ∧
        onFrameG fl o (t0Of o notes) n ≤ j ∧ j < offCellG fl o (t0Of o notes) n := by
  unfold fillOfG
  rw [mem_flatMap]
  constructor
  · rintro ⟨n, hn, hc⟩
    rw [mem_noteCellsG] at hc
    exact ⟨n, mem_sortedNotes.mp hn, hc.1.symm, hc.2.1.symm, hc.2.2.1, hc.2.2.2⟩
  · rintro ⟨n, hn, h1, h2, h3, h4⟩
    exact ⟨n, mem_sortedNotes.mpr hn, (mem_noteCellsG ..).mpr ⟨h1.symm, h2.symm, h3, h4⟩⟩

theorem maxOffOfG_eq (fl : Rat → Rat) (o : Opts) (notes : List Note) :
    maxOffOfG fl o notes = (maxInt? (notes.map (offFullG fl o (t0Of o notes)))).getD 0 := by
  unfold maxOffOfG maxInt?
  rw [best?_perm linearLe_intGe ((sortedNotes_perm notes).map _)]


section perm
variable (fl : Rat → Rat) (o : Opts) {notes notes' : List Note} (hp : notes ~ notes')
include hp


theorem maxOffOfG_perm : maxOffOfG fl o notes = maxOffOfG fl o notes' := by
  rw [maxOffOfG_eq, maxOffOfG_eq, t0Of_perm o hp]
  unfold maxInt?
  rw [best?_perm linearLe_intGe (hp.map _)]

theorem colsOfG_perm : colsOfG fl o notes = colsOfG fl o notes' := by
  unfold colsOfG
  rw [maxOffOfG_perm fl o hp, t0Of_perm o hp]

theorem fillOfG_perm : fillOfG fl o notes ~ fillOfG fl o notes' := by
  unfold fillOfG
  rw [lowestOf_perm o hp, t0Of_perm o hp]
  exact Perm.flatMap_right _ (((sortedNotes_perm notes).trans hp).trans (sortedNotes_perm notes').symm)


end perm



/-- the roll assembled when no check fails -/
def rollOfG (fl : Rat → Rat) (o : Opts) (notes : List Note) (N : Int) : Roll :=
  { rows := if o.pianoRange then slicedRows (rowsFull o notes) else rowsFull o notes
    cols := N
    rowStart := rowStartOf o
    binary := o.binary
    fill := fillOfG fl o notes
    idx := idxOfG fl o notes }

theorem makeWith_eq_some (fl : Rat → Rat) (o : Opts) (notes : List Note) (r : Roll) :
    makeWith fl o notes = some r ↔
      notes ≠ [] ∧ (∀ n ∈ notes, 0 ≤ n.dur) ∧
      ∃ N, colsOfG fl o notes = some N ∧
        (∀ e ∈ fillOfG fl o notes, inBounds (rowsFull o notes) N e = true) ∧ r = rollOfG fl o notes N := by
  unfold makeWith rollOfG
  by_cases h1 : notes.isEmpty = true
  · have : notes = [] := isEmpty_iff.mp h1
    simp [this]
  · have hne : notes ≠ [] := fun h => h1 (isEmpty_iff.mpr h)
    rw [if_neg h1]
    by_cases h2 : (notes.any fun n => decide (n.dur < 0)) = true
    · rw [if_pos h2]
      simp only [reduceCtorEq, false_iff, not_and]
      intro _ hall
      rw [any_eq_true] at h2
      obtain ⟨n, hn, hd⟩ := h2
      have := hall n hn
      simp only [decide_eq_true_eq] at hd
      exact absurd this (not_le.mpr hd)
    · rw [if_neg h2]
      have hdur : ∀ n ∈ notes, 0 ≤ n.dur := by
        intro n hn
        by_contra hc
        apply h2
        rw [any_eq_true]
        exact ⟨n, hn, by simpa using hc⟩
      cases hc : colsOfG fl o notes with
      | none => simp
      | some N =>
        simp only
        by_cases h3 : (fillOfG fl o notes).all (inBounds (rowsFull o notes) N) = true
        · rw [if_pos h3]
          rw [all_eq_true] at h3
          constructor
          · intro h; exact ⟨hne, hdur, N, rfl, h3, (Option.some.inj h).symm⟩
          · rintro ⟨_, _, N', hN', _, hr⟩
            rw [Option.some.injEq] at hN'
            subst hN'
            rw [hr]
        · rw [if_neg h3]
          simp only [reduceCtorEq, false_iff, not_and, not_exists]
          intro _ _ N' hN' hb
          rw [Option.some.injEq] at hN'
          subst hN'
          exact absurd (all_eq_true.mpr hb) h3

/-- `pr_idx[idx.argsort()]` is the table of index rows in input order -/
theorem idxOfG_eq (fl : Rat → Rat) (o : Opts) (notes : List Note) :
    PianoRoll.idxOfG fl o notes = notes.map (idxRowG fl o (lowestOf o notes) (t0Of o notes) (idxStartOf o)) := by
  unfold PianoRoll.idxOfG
  exact unsort_sorted (idxRowG fl o (lowestOf o notes) (t0Of o notes) (idxStartOf o)) notes


/-- note `n` sounds in cell `(p, j)` of the un-sliced roll -/
def CoversG (fl : Rat → Rat) (o : Opts) (notes : List Note) (n : Note) (p j : Int) : Prop :=
  rowOf o (lowestOf o notes) n = p ∧
    onFrameG fl o (t0Of o notes) n ≤ j ∧ j < offCellG fl o (t0Of o notes) n

theorem cell_valueG_aux (fl : Rat → Rat) (o : Opts) (notes : List Note) (r : Roll) (h : makeWith fl o notes = some r)
    (p j : Int) (hp0 : 0 ≤ p) (hp1 : p < r.rows) :
    ((¬ ∃ n ∈ notes, CoversG fl o notes n (p + r.rowStart) j) → r.cell p j = 0) ∧
    ((∃ n ∈ notes, CoversG fl o notes n (p + r.rowStart) j) →
      ∃ n ∈ notes, CoversG fl o notes n (p + r.rowStart) j ∧
        (∀ n' ∈ notes, CoversG fl o notes n' (p + r.rowStart) j → n'.vel ≤ n.vel) ∧
        r.cell p j = if o.binary = true ∧ n.vel ≠ 0 then 1 else n.vel) := by
  obtain ⟨_, _, N, _, hb, rfl⟩ := (makeWith_eq_some fl o notes r).mp h
  have hcov : ∀ n ∈ notes, ∀ q, CoversG fl o notes n q j → (q, j, n.vel) ∈ fillOfG fl o notes := by
    intro n hn q hc
    exact (mem_fillOfG ..).mpr ⟨n, hn, hc.1, rfl, hc.2.1, hc.2.2⟩
  constructor
  · intro hno
    unfold Roll.cell
    split
    · have : keyMax (rollOfG fl o notes N).fill (p + (rollOfG fl o notes N).rowStart) j = none := by
        rw [keyMax_none_iff]
        rintro ⟨a, b, c⟩ he ⟨h1, h2⟩
        simp only at h1 h2
        subst h1 h2
        obtain ⟨n, hn, h3, h4, h5, h6⟩ := (mem_fillOfG ..).mp he
        exact hno ⟨n, hn, h3, h5, h6⟩
      rw [this]
    · rfl
  · rintro ⟨n0, hn0, hc0⟩
    have hj := hb _ (hcov n0 hn0 _ hc0)
    simp only [inBounds, Bool.and_eq_true, decide_eq_true_eq] at hj
    cases hk : keyMax (fillOfG fl o notes) (p + (rollOfG fl o notes N).rowStart) j with
    | none =>
      exfalso
      rw [keyMax_none_iff] at hk
      exact hk _ (hcov n0 hn0 _ hc0) ⟨rfl, rfl⟩
    | some v =>
      obtain ⟨hv1, hv2⟩ := (keyMax_some_iff ..).mp hk
      obtain ⟨n, hn, h3, h4, h5, h6⟩ := (mem_fillOfG ..).mp hv1
      refine ⟨n, hn, ⟨h3, h5, h6⟩, ?_, ?_⟩
      · intro n' hn' hc'
        rw [h4]
        exact hv2 _ (hcov n' hn' _ hc') rfl rfl
      · unfold Roll.cell
        have hg : 0 ≤ p ∧ p < (rollOfG fl o notes N).rows ∧ 0 ≤ j ∧ j < (rollOfG fl o notes N).cols :=
          ⟨hp0, hp1, hj.1.2, hj.2⟩
        rw [if_pos hg]
        have : keyMax (rollOfG fl o notes N).fill (p + (rollOfG fl o notes N).rowStart) j = some v := hk
        rw [this, h4]
        simp only [rollOfG]
        by_cases hbin : o.binary = true <;> by_cases hv0 : v = 0 <;> simp [hbin, hv0]

theorem cells_in_rangeG_aux (fl : Rat → Rat) (o : Opts) (notes : List Note) (r : Roll) (h : makeWith fl o notes = some r)
    (n : Note) (hn : n ∈ notes) (q j : Int) (hc : CoversG fl o notes n q j) :
    0 ≤ q ∧ q < rowsFull o notes ∧ 0 ≤ j ∧ j < r.cols := by
  obtain ⟨_, _, N, _, hb, rfl⟩ := (makeWith_eq_some fl o notes r).mp h
  have := hb _ ((mem_fillOfG fl o notes q j n.vel).mpr ⟨n, hn, hc.1, rfl, hc.2.1, hc.2.2⟩)
  simpa [inBounds, rollOfG, and_assoc] using this

/-! ### `compute_pianoroll` before `_make_pianoroll` -/

/-! ### two rounding functions that produce the same frames produce the same roll -/

/-- the number of columns as a function of the last offset frame `L` -/
def colsFrom (fl : Rat → Rat) (o : Opts) (t0 : Rat) (L : Int) : Option Int :=
  match o.endTime with
  | none => some (Rat.ceil (fl (trailMarginG fl o + (L : Rat))))
  | some e =>
    let e' := fl (fl e - t0)
    if fl (e' * (o.timeDiv : Rat)) < (L : Rat) then none
    else some (Rat.ceil (fl (trailMarginG fl o + fl ((o.timeDiv : Rat) * e'))))

theorem colsOfG_eq (fl : Rat → Rat) (o : Opts) (notes : List Note) :
    colsOfG fl o notes = colsFrom fl o (t0Of o notes) (maxOffOfG fl o notes) := rfl

theorem makeWith_congr (fl fl' : Rat → Rat) (o : Opts) (notes : List Note)
    (hf : ∀ n ∈ notes, onFrameG fl o (t0Of o notes) n = onFrameG fl' o (t0Of o notes) n ∧
      durFramesG fl o n = durFramesG fl' o n)
    (hc : colsFrom fl o (t0Of o notes) (maxOffOfG fl' o notes) = colsFrom fl' o (t0Of o notes) (maxOffOfG fl' o notes)) :
    makeWith fl o notes = makeWith fl' o notes := by
  have hoff : ∀ n ∈ notes, offFullG fl o (t0Of o notes) n = offFullG fl' o (t0Of o notes) n := by
    intro n hn
    unfold offFullG
    rw [(hf n hn).1, (hf n hn).2]
  have hidx : ∀ n ∈ notes, offIdxG fl o (t0Of o notes) n = offIdxG fl' o (t0Of o notes) n := by
    intro n hn
    unfold offIdxG
    rw [hoff n hn, (hf n hn).1]
  have hmax : maxOffOfG fl o notes = maxOffOfG fl' o notes := by
    unfold maxOffOfG
    have : (sortedNotes notes).map (offFullG fl o (t0Of o notes)) = (sortedNotes notes).map (offFullG fl' o (t0Of o notes)) :=
      map_congr_left fun n hn => hoff n (mem_sortedNotes.mp hn)
    rw [this]
  have hcols : colsOfG fl o notes = colsOfG fl' o notes := by
    rw [colsOfG_eq, colsOfG_eq, hmax, hc]
  have hfill : fillOfG fl o notes = fillOfG fl' o notes := by
    unfold fillOfG
    rw [flatMap_def, flatMap_def]
    congr 1
    apply map_congr_left
    intro n hn
    have hn' := mem_sortedNotes.mp hn
    unfold noteCellsG
    rw [(hf n hn').1, hidx n hn']
  have hix : idxOfG fl o notes = idxOfG fl' o notes := by
    rw [idxOfG_eq, idxOfG_eq]
    apply map_congr_left
    intro n hn
    unfold idxRowG
    rw [(hf n hn).1, hidx n hn]
  unfold makeWith
  rw [hcols, hfill, hix]

/-- with no rounding at all `makeWith` is the exact model of Model/PianoRoll.lean -/
theorem makeWith_id_aux (o : Opts) (notes : List Note) : makeWith id o notes = makePianoroll o notes := rfl

/-! ### when binary64 rounding does not move a frame -/

/-- **a frame is stable** under any perturbation that does not reach a half-integer: if every point `k + 1/2` is
    farther from `x` than `y` is, `y` rounds to the same integer -/
theorem roundHalfEven_stable (x y : ℚ) (h : ∀ k : ℤ, |y - x| < |x - ((k : ℚ) + 1 / 2)|) :
    roundHalfEven y = roundHalfEven x := by
  have hx := Round.roundHalfEven_close x
  have hy := Round.roundHalfEven_close y
  rw [abs_le] at hx hy
  have h1 := h (roundHalfEven x)
  have h2 := h (roundHalfEven x - 1)
  push_cast at h2
  have hd := abs_nonneg (y - x)
  have hyx := abs_le.mp (le_refl |y - x|)
  -- x lies strictly between the two half-integers around its rounding
  have hlt1 : x < (roundHalfEven x : ℚ) + 1 / 2 := by
    rcases lt_or_eq_of_le (by linarith : x ≤ (roundHalfEven x : ℚ) + 1 / 2) with h' | h'
    · exact h'
    · have e : x - ((roundHalfEven x : ℚ) + 1 / 2) = 0 := by linarith
      rw [e] at h1; simp at h1; linarith
  have hlt2 : (roundHalfEven x : ℚ) - 1 / 2 < x := by
    rcases lt_or_eq_of_le (by linarith : (roundHalfEven x : ℚ) - 1 / 2 ≤ x) with h' | h'
    · exact h'
    · have e : x - ((roundHalfEven x : ℚ) - 1 + 1 / 2) = 0 := by linarith
      rw [e] at h2; simp at h2; linarith
  rw [abs_of_neg (by linarith : x - ((roundHalfEven x : ℚ) + 1 / 2) < 0)] at h1
  rw [abs_of_pos (by linarith : 0 < x - ((roundHalfEven x : ℚ) - 1 + 1 / 2))] at h2
  have a1 : ((roundHalfEven y : ℤ) : ℚ) < ((roundHalfEven x + 1 : ℤ) : ℚ) := by push_cast; linarith
  have a2 : ((roundHalfEven x - 1 : ℤ) : ℚ) < ((roundHalfEven y : ℤ) : ℚ) := by push_cast; linarith
  have b1 : roundHalfEven y < roundHalfEven x + 1 := by exact_mod_cast a1
  have b2 : roundHalfEven x - 1 < roundHalfEven y := by exact_mod_cast a2
  omega

open C13Float in
/-- a binary64 number is returned unchanged -/
theorem f64_dyadic (m k : Int) (hm : m.natAbs < 2 ^ 53) (hk : -1074 ≤ k) :
    f64 ((m : ℚ) * (2 : ℚ) ^ k) = (m : ℚ) * (2 : ℚ) ^ k := by
  unfold f64
  rw [← pow2_eq]
  exact roundBin_exact 53 (-1074) m k hm hk

open C13Float in
/-- relative error of one binary64 operation (exact result 0, or in the normal range) -/
theorem f64_err (q : ℚ) (h : q = 0 ∨ (2 : ℚ) ^ (-1022 : Int) ≤ |q|) :
    |f64 q - q| ≤ |q| * (2 : ℚ) ^ (-53 : Int) := by
  unfold f64
  rcases h with h | h
  · subst h; simp [roundBin_zero]
  · have := roundBin_rel 53 (-1074) q (by rw [pow2_eq]; norm_num; exact h)
    rw [pow2_eq] at this
    exact_mod_cast this

/-- error of `c * (s rounded)`, rounded: at most `|c * s| * 2^-51` -/
theorem f64_mul_err (c s : ℚ) (hs : s = 0 ∨ (2 : ℚ) ^ (-1022 : Int) ≤ |s|)
    (hp : c * f64 s = 0 ∨ (2 : ℚ) ^ (-1022 : Int) ≤ |c * f64 s|) :
    |f64 (c * f64 s) - c * s| ≤ |c * s| * (2 : ℚ) ^ (-51 : Int) := by
  have e1 := f64_err s hs
  have e2 := f64_err (c * f64 s) hp
  set u : ℚ := (2 : ℚ) ^ (-53 : Int) with hu
  have hu0 : 0 < u := by positivity
  have hu1 : u ≤ 1 := by rw [hu]; norm_num
  have h51 : (2 : ℚ) ^ (-51 : Int) = 4 * u := by rw [hu]; norm_num
  rw [h51]
  have hs' : |f64 s| ≤ |s| * (1 + u) := by
    have := abs_sub_abs_le_abs_sub (f64 s) s
    nlinarith [abs_nonneg s]
  have t1 : |c * f64 s - c * s| ≤ |c| * |s| * u := by
    rw [← mul_sub, abs_mul]
    nlinarith [abs_nonneg c]
  have t2 : |c * f64 s| ≤ |c| * |s| * (1 + u) := by
    rw [abs_mul]
    nlinarith [abs_nonneg c]
  have t3 : |f64 (c * f64 s) - c * s| ≤ |f64 (c * f64 s) - c * f64 s| + |c * f64 s - c * s| :=
    abs_sub_le _ _ _
  have hcs : |c * s| = |c| * |s| := abs_mul c s
  rw [hcs]
  have hnn : 0 ≤ |c| * |s| := mul_nonneg (abs_nonneg c) (abs_nonneg s)
  have t4 : |f64 (c * f64 s) - c * f64 s| ≤ |c| * |s| * (1 + u) * u :=
    le_trans e2 (mul_le_mul_of_nonneg_right t2 hu0.le)
  have t5 : |c| * |s| * (u * u) ≤ |c| * |s| * u :=
    mul_le_mul_of_nonneg_left (by nlinarith) hnn
  have t6 : 0 ≤ |c| * |s| * u := mul_nonneg hnn hu0.le
  nlinarith

end C13
