/-
C04 — the helper dictionaries of `map_to_track_channel` / `assign_group_part_voice` hand out ranks that
identify their keys: two inputs get the same rank exactly when they are equal (for the nested helper:
when they are equal under the same outer key).
-/
import PartituraModel.Model.MidiModes
import Mathlib.Data.List.Basic

namespace C04M
open Model Model.MidiModes

section generic
variable {α : Type} [DecidableEq α]

theorem indexOf_none_iff (x : α) (d : List α) : indexOf x d = none ↔ x ∉ d := by
  induction d with
  | nil => simp [indexOf]
  | cons a as ih =>
    simp only [indexOf]
    by_cases h : a = x
    · simp [h]
    · simp only [h, if_false, Option.map_eq_none_iff, ih, List.mem_cons]
      constructor
      · intro h1 h2
        rcases h2 with h2 | h2
        · exact h h2.symm
        · exact h1 h2
      · intro h1 h2
        exact h1 (Or.inr h2)

theorem indexOf_get (x : α) (d : List α) (i : Nat) (h : indexOf x d = some i) : d[i]? = some x := by
  induction d generalizing i with
  | nil => simp [indexOf] at h
  | cons a as ih =>
    simp only [indexOf] at h
    by_cases hax : a = x
    · simp only [hax, if_true, Option.some.injEq] at h
      subst h
      simp [hax]
    · simp only [hax, if_false, Option.map_eq_some_iff] at h
      obtain ⟨j, hj, rfl⟩ := h
      simpa using ih j hj

theorem indexOf_lt (x : α) (d : List α) (i : Nat) (h : indexOf x d = some i) : i < d.length := by
  have := indexOf_get x d i h
  exact (List.getElem?_eq_some_iff.mp this).1

theorem indexOf_inj (x y : α) (d : List α) (i : Nat) (hx : indexOf x d = some i) (hy : indexOf y d = some i) : x = y := by
  have h1 := indexOf_get x d i hx
  have h2 := indexOf_get y d i hy
  rw [h1] at h2
  exact Option.some.inj h2

theorem indexOf_append (x : α) (d e : List α) (i : Nat) (h : indexOf x d = some i) : indexOf x (d ++ e) = some i := by
  induction d generalizing i with
  | nil => simp [indexOf] at h
  | cons a as ih =>
    simp only [indexOf, List.cons_append] at h ⊢
    by_cases hax : a = x
    · simpa [hax] using h
    · simp only [hax, if_false, Option.map_eq_some_iff] at h ⊢
      obtain ⟨j, hj, rfl⟩ := h
      exact ⟨j, ih j hj, rfl⟩

theorem indexOf_append_new (x : α) (d : List α) (h : x ∉ d) : indexOf x (d ++ [x]) = some d.length := by
  induction d with
  | nil => simp [indexOf]
  | cons a as ih =>
    have hax : ¬ a = x := fun h' => h (h' ▸ List.mem_cons_self)
    have hx : x ∉ as := fun h' => h (List.mem_cons_of_mem _ h')
    simp only [indexOf, List.cons_append, hax, if_false, ih hx]
    simp

/-- what `setdefault` leaves behind: the key is in the dict with the returned rank, old entries keep
    their ranks, and the dict grows by at most this key -/
theorem setdefaultRank_spec (d : List α) (x : α) :
    indexOf x (setdefaultRank d x).1 = some (setdefaultRank d x).2 ∧
    (∀ y i, indexOf y d = some i → indexOf y (setdefaultRank d x).1 = some i) ∧
    (∀ y, y ∈ (setdefaultRank d x).1 → y ∈ d ∨ y = x) ∧
    d.length ≤ (setdefaultRank d x).1.length ∧
    (x ∈ d → indexOf x d = some (setdefaultRank d x).2) ∧
    (x ∉ d → (setdefaultRank d x).2 = d.length) := by
  unfold setdefaultRank
  cases h : indexOf x d with
  | some i =>
    refine ⟨h, fun y j hy => hy, fun y hy => Or.inl hy, Nat.le_refl _, fun _ => rfl, ?_⟩
    intro hx
    exact absurd ((indexOf_none_iff x d).mpr hx) (by rw [h]; simp)
  | none =>
    have hx : x ∉ d := (indexOf_none_iff x d).mp h
    refine ⟨indexOf_append_new x d hx, fun y j hy => indexOf_append y d [x] j hy, ?_, by simp, fun h' => absurd h' hx, fun _ => rfl⟩
    intro y hy
    simp only [List.mem_append, List.mem_cons, List.not_mem_nil, or_false] at hy
    exact hy

theorem rankLoop_length (d xs : List α) : (rankLoop d xs).length = xs.length := by
  induction xs generalizing d with
  | nil => rfl
  | cons x xs ih => simp [rankLoop, ih]

theorem rankLoop_spec (d xs : List α) :
    ∀ p ∈ xs.zip (rankLoop d xs), (p.1 ∈ d → indexOf p.1 d = some p.2) ∧ (p.1 ∉ d → d.length ≤ p.2) := by
  induction xs generalizing d with
  | nil => intro p hp; simp [rankLoop] at hp
  | cons x xs ih =>
    intro p hp
    obtain ⟨s1, s2, s3, s4, s5, s6⟩ := setdefaultRank_spec d x
    simp only [rankLoop, List.zip_cons_cons, List.mem_cons] at hp
    rcases hp with rfl | hp
    · exact ⟨s5, fun h => Nat.le_of_eq (s6 h).symm⟩
    · obtain ⟨i1, i2⟩ := ih _ p hp
      constructor
      · intro hin
        cases hi : indexOf p.1 d with
        | none => exact absurd hin ((indexOf_none_iff _ _).mp hi)
        | some i =>
          have h1 := s2 p.1 i hi
          have hmem : p.1 ∈ (setdefaultRank d x).1 := by
            by_contra hnot
            rw [(indexOf_none_iff _ _).mpr hnot] at h1
            cases h1
          rw [i1 hmem] at h1
          exact congrArg some (Option.some.inj h1).symm ▸ rfl
      · intro hnin
        by_cases hmem : p.1 ∈ (setdefaultRank d x).1
        · rcases s3 p.1 hmem with h | h
          · exact absurd h hnin
          · have := i1 hmem
            rw [h, s1] at this
            have hr : (setdefaultRank d x).2 = p.2 := Option.some.inj this
            have := s6 (h ▸ hnin)
            omega
        · exact Nat.le_trans s4 (i2 hmem)

/-- two inputs get the same rank exactly when they are equal -/
theorem rankLoop_inj (d xs : List α) :
    ∀ p ∈ xs.zip (rankLoop d xs), ∀ q ∈ xs.zip (rankLoop d xs), (p.2 = q.2 ↔ p.1 = q.1) := by
  induction xs generalizing d with
  | nil => intro p hp; simp [rankLoop] at hp
  | cons x xs ih =>
    obtain ⟨s1, s2, s3, s4, s5, s6⟩ := setdefaultRank_spec d x
    have hxmem : x ∈ (setdefaultRank d x).1 := by
      by_contra hnot
      rw [(indexOf_none_iff _ _).mpr hnot] at s1
      cases s1
    -- the head against an element of the tail
    have key : ∀ q ∈ xs.zip (rankLoop (setdefaultRank d x).1 xs), ((setdefaultRank d x).2 = q.2 ↔ x = q.1) := by
      intro q hq
      obtain ⟨i1, i2⟩ := rankLoop_spec _ xs q hq
      by_cases hmem : q.1 ∈ (setdefaultRank d x).1
      · constructor
        · intro h
          exact indexOf_inj x q.1 _ _ s1 (h ▸ i1 hmem)
        · intro h
          have := i1 hmem
          rw [← h, s1] at this
          exact Option.some.inj this
      · have h1 := i2 hmem
        have h2 := indexOf_lt x _ _ s1
        constructor
        · intro h; omega
        · intro h; exact absurd (h ▸ hxmem) hmem
    intro p hp q hq
    simp only [rankLoop, List.zip_cons_cons, List.mem_cons] at hp hq
    rcases hp with rfl | hp <;> rcases hq with rfl | hq
    · simp
    · exact key q hq
    · have := key p hp
      constructor
      · intro h; exact (this.mp h.symm).symm
      · intro h; exact (this.mpr h.symm).symm
    · exact ih _ p hp q hq

end generic

section nested
variable {α β : Type} [DecidableEq α] [DecidableEq β]

omit [DecidableEq β] in
theorem lookup_map_replace (d : List (α × List β)) (a a' : α) (v : List β) :
    lookup a' (d.map (fun e => if e.1 = a then (e.1, v) else e)) =
      if a' = a then (lookup a d).map (fun _ => v) else lookup a' d := by
  induction d with
  | nil => simp [lookup]
  | cons e rest ih =>
    obtain ⟨k, w⟩ := e
    simp only [List.map_cons]
    by_cases hka : k = a
    · subst hka
      by_cases ha' : a' = k
      · subst ha'
        simp [lookup]
      · have : ¬ k = a' := fun h => ha' h.symm
        simp only [if_true, lookup, this, if_false, ha']
        rw [ih]
        simp [ha']
    · simp only [hka, if_false, lookup]
      by_cases hk' : k = a'
      · subst hk'
        simp [hka]
      · simp only [hk', if_false]
        rw [ih]

omit [DecidableEq β] in
theorem lookup_append_new (d : List (α × List β)) (a a' : α) (v : List β) (h : lookup a d = none) :
    lookup a' (d ++ [(a, v)]) = if a' = a then some v else lookup a' d := by
  induction d with
  | nil =>
    simp only [List.nil_append, lookup]
    by_cases h' : a = a'
    · subst h'; simp
    · have : ¬ a' = a := fun h'' => h' h''.symm
      simp [h', this]
  | cons e rest ih =>
    obtain ⟨k, w⟩ := e
    simp only [lookup] at h
    by_cases hka : k = a
    · simp [hka] at h
    · simp only [hka, if_false] at h
      simp only [List.cons_append, lookup]
      by_cases hk' : k = a'
      · subst hk'
        simp [hka]
      · simp only [hk', if_false]
        exact ih h

/-- the nested helper acts on the inner dict of its outer key only, as `setdefault` on that dict -/
theorem setdefaultNested_spec (d : List (α × List β)) (a : α) (b : β) :
    (setdefaultNested d a b).2 = (setdefaultRank (innerOf d a) b).2 ∧
    ∀ a', innerOf (setdefaultNested d a b).1 a' = if a' = a then (setdefaultRank (innerOf d a) b).1 else innerOf d a' := by
  unfold setdefaultNested
  cases h : lookup a d with
  | some inner =>
    refine ⟨rfl, ?_⟩
    intro a'
    simp only [innerOf]
    rw [lookup_map_replace]
    by_cases ha' : a' = a
    · subst ha'
      simp [h]
    · simp [ha']
  | none =>
    refine ⟨rfl, ?_⟩
    intro a'
    simp only [innerOf]
    rw [lookup_append_new d a a' _ h]
    by_cases ha' : a' = a
    · subst ha'
      simp
    · simp [ha']

theorem nestedLoop_length (d : List (α × List β)) (ps : List (α × β)) : (nestedLoop d ps).length = ps.length := by
  induction ps generalizing d with
  | nil => rfl
  | cons p ps ih => obtain ⟨a, b⟩ := p; simp [nestedLoop, ih]

theorem nestedLoop_spec (d : List (α × List β)) (ps : List (α × β)) :
    ∀ p ∈ ps.zip (nestedLoop d ps),
      (p.1.2 ∈ innerOf d p.1.1 → indexOf p.1.2 (innerOf d p.1.1) = some p.2) ∧
      (p.1.2 ∉ innerOf d p.1.1 → (innerOf d p.1.1).length ≤ p.2) := by
  induction ps generalizing d with
  | nil => intro p hp; simp [nestedLoop] at hp
  | cons x ps ih =>
    obtain ⟨a, b⟩ := x
    intro p hp
    obtain ⟨n1, n2⟩ := setdefaultNested_spec d a b
    obtain ⟨s1, s2, s3, s4, s5, s6⟩ := setdefaultRank_spec (innerOf d a) b
    simp only [nestedLoop, List.zip_cons_cons, List.mem_cons] at hp
    rcases hp with rfl | hp
    · simp only
      rw [n1]
      exact ⟨s5, fun h => Nat.le_of_eq (s6 h).symm⟩
    · obtain ⟨i1, i2⟩ := ih _ p hp
      rw [n2 p.1.1] at i1 i2
      by_cases hpa : p.1.1 = a
      · simp only [hpa, if_true] at i1 i2
        rw [hpa]
        constructor
        · intro hin
          cases hi : indexOf p.1.2 (innerOf d a) with
          | none => exact absurd hin ((indexOf_none_iff _ _).mp hi)
          | some i =>
            have h1 := s2 p.1.2 i hi
            have hmem : p.1.2 ∈ (setdefaultRank (innerOf d a) b).1 := by
              by_contra hnot
              rw [(indexOf_none_iff _ _).mpr hnot] at h1
              cases h1
            rw [i1 hmem] at h1
            rw [Option.some.inj h1]
        · intro hnin
          by_cases hmem : p.1.2 ∈ (setdefaultRank (innerOf d a) b).1
          · rcases s3 p.1.2 hmem with h | h
            · exact absurd h hnin
            · have := i1 hmem
              rw [h, s1] at this
              have hr : (setdefaultRank (innerOf d a) b).2 = p.2 := Option.some.inj this
              have := s6 (h ▸ hnin)
              omega
          · exact Nat.le_trans s4 (i2 hmem)
      · simp only [hpa, if_false] at i1 i2
        exact ⟨i1, i2⟩

/-- under the same outer key, two inputs get the same rank exactly when their inner keys are equal -/
theorem nestedLoop_inj (d : List (α × List β)) (ps : List (α × β)) :
    ∀ p ∈ ps.zip (nestedLoop d ps), ∀ q ∈ ps.zip (nestedLoop d ps), p.1.1 = q.1.1 → (p.2 = q.2 ↔ p.1.2 = q.1.2) := by
  induction ps generalizing d with
  | nil => intro p hp; simp [nestedLoop] at hp
  | cons x ps ih =>
    obtain ⟨a, b⟩ := x
    obtain ⟨n1, n2⟩ := setdefaultNested_spec d a b
    obtain ⟨s1, s2, s3, s4, s5, s6⟩ := setdefaultRank_spec (innerOf d a) b
    have hbmem : b ∈ (setdefaultRank (innerOf d a) b).1 := by
      by_contra hnot
      rw [(indexOf_none_iff _ _).mpr hnot] at s1
      cases s1
    have key : ∀ q ∈ ps.zip (nestedLoop (setdefaultNested d a b).1 ps), a = q.1.1 →
        ((setdefaultNested d a b).2 = q.2 ↔ b = q.1.2) := by
      intro q hq haq
      obtain ⟨i1, i2⟩ := nestedLoop_spec _ ps q hq
      rw [n2 q.1.1] at i1 i2
      simp only [← haq, if_true] at i1 i2
      rw [n1]
      by_cases hmem : q.1.2 ∈ (setdefaultRank (innerOf d a) b).1
      · constructor
        · intro h
          exact indexOf_inj b q.1.2 _ _ s1 (h ▸ i1 hmem)
        · intro h
          have := i1 hmem
          rw [← h, s1] at this
          exact Option.some.inj this
      · have h1 := i2 hmem
        have h2 := indexOf_lt b _ _ s1
        constructor
        · intro h; omega
        · intro h; exact absurd (h ▸ hbmem) hmem
    intro p hp q hq hpq
    simp only [nestedLoop, List.zip_cons_cons, List.mem_cons] at hp hq
    rcases hp with rfl | hp <;> rcases hq with rfl | hq
    · simp
    · exact key q hq hpq
    · have := key p hp hpq.symm
      constructor
      · intro h; exact (this.mp h.symm).symm
      · intro h; exact (this.mpr h.symm).symm
    · exact ih _ p hp q hq hpq

end nested

-- ------------------------------------------------------------------ zip plumbing

section zips
variable {α α' β β' γ : Type}

theorem mem_zip_zip {l1 : List α} {l2 : List β} {l3 : List γ} {a : α} {b : β} {c : γ}
    (h : (a, (b, c)) ∈ l1.zip (l2.zip l3)) : (a, b) ∈ l1.zip l2 ∧ (a, c) ∈ l1.zip l3 := by
  induction l1 generalizing l2 l3 with
  | nil => simp at h
  | cons x xs ih =>
    cases l2 with
    | nil => simp at h
    | cons y ys =>
      cases l3 with
      | nil => simp at h
      | cons z zs =>
        simp only [List.zip_cons_cons, List.mem_cons, Prod.mk.injEq] at h ⊢
        rcases h with ⟨rfl, rfl, rfl⟩ | h
        · exact ⟨Or.inl ⟨rfl, rfl⟩, Or.inl ⟨rfl, rfl⟩⟩
        · obtain ⟨h1, h2⟩ := ih h
          exact ⟨Or.inr h1, Or.inr h2⟩

theorem mem_zip_map_left (f : α → α') {l1 : List α} {l2 : List β} {a : α} {b : β}
    (h : (a, b) ∈ l1.zip l2) : (f a, b) ∈ (l1.map f).zip l2 := by
  induction l1 generalizing l2 with
  | nil => simp at h
  | cons x xs ih =>
    cases l2 with
    | nil => simp at h
    | cons y ys =>
      simp only [List.map_cons, List.zip_cons_cons, List.mem_cons, Prod.mk.injEq] at h ⊢
      rcases h with ⟨rfl, rfl⟩ | h
      · exact Or.inl ⟨rfl, rfl⟩
      · exact Or.inr (ih h)

theorem mem_zip_map_right (g : β → β') {l1 : List α} {l2 : List β} {a : α} {b' : β'}
    (h : (a, b') ∈ l1.zip (l2.map g)) : ∃ b, (a, b) ∈ l1.zip l2 ∧ g b = b' := by
  induction l1 generalizing l2 with
  | nil => simp at h
  | cons x xs ih =>
    cases l2 with
    | nil => simp at h
    | cons y ys =>
      simp only [List.map_cons, List.zip_cons_cons, List.mem_cons, Prod.mk.injEq] at h
      rcases h with ⟨rfl, rfl⟩ | h
      · exact ⟨y, List.mem_cons_self, rfl⟩
      · obtain ⟨b, hb, hg⟩ := ih h
        exact ⟨b, List.mem_cons_of_mem _ hb, hg⟩

theorem mem_zip_zipWith {δ : Type} (f : β → γ → δ) {l1 : List α} {l2 : List β} {l3 : List γ} {a : α} {d : δ}
    (h : (a, d) ∈ l1.zip (List.zipWith f l2 l3)) : ∃ b c, (a, b) ∈ l1.zip l2 ∧ (a, c) ∈ l1.zip l3 ∧ f b c = d := by
  induction l1 generalizing l2 l3 with
  | nil => simp at h
  | cons x xs ih =>
    cases l2 with
    | nil => simp at h
    | cons y ys =>
      cases l3 with
      | nil => simp at h
      | cons z zs =>
        simp only [List.zipWith_cons_cons, List.zip_cons_cons, List.mem_cons, Prod.mk.injEq] at h
        rcases h with ⟨rfl, rfl⟩ | h
        · exact ⟨y, z, List.mem_cons_self, List.mem_cons_self, rfl⟩
        · obtain ⟨b, c, h1, h2, h3⟩ := ih h
          exact ⟨b, c, List.mem_cons_of_mem _ h1, List.mem_cons_of_mem _ h2, h3⟩

end zips

-- ------------------------------------------------------------------ ranks of a key list

section ranksOf
variable {κ α : Type} [DecidableEq α]

/-- the rank column computed from a projection of the keys identifies the projection -/
theorem ranks_proj (f : κ → α) (keys : List κ) :
    ∀ a ∈ keys.zip (ranks (keys.map f)), ∀ b ∈ keys.zip (ranks (keys.map f)), (a.2 = b.2 ↔ f a.1 = f b.1) := by
  intro a ha b hb
  exact rankLoop_inj [] (keys.map f) (f a.1, a.2) (mem_zip_map_left f ha) (f b.1, b.2) (mem_zip_map_left f hb)

theorem nranks_proj {β : Type} [DecidableEq β] (f : κ → α) (g : κ → β) (keys : List κ) :
    ∀ a ∈ keys.zip (nranks (keys.map fun k => (f k, g k))), ∀ b ∈ keys.zip (nranks (keys.map fun k => (f k, g k))),
      f a.1 = f b.1 → (a.2 = b.2 ↔ g a.1 = g b.1) := by
  intro a ha b hb hf
  exact nestedLoop_inj [] (keys.map fun k => (f k, g k)) ((f a.1, g a.1), a.2) (mem_zip_map_left (fun k => (f k, g k)) ha)
    ((f b.1, g b.1), b.2) (mem_zip_map_left (fun k => (f k, g k)) hb) hf

end ranksOf

-- ------------------------------------------------------------------ export modes

/-- which keys share a track / a (track, channel) pair, per export mode -/
def SameTrack (mode : Nat) (a b : Key) : Prop :=
  match mode with
  | 0 => kPart a = kPart b
  | 1 => kGroup a = kGroup b
  | 2 => True
  | 3 => kPart a = kPart b
  | 4 => True
  | _ => kPart a = kPart b ∧ kVoice a = kVoice b

def SameTC (mode : Nat) (a b : Key) : Prop :=
  match mode with
  | 0 => kPart a = kPart b ∧ kVoice a = kVoice b
  | 1 => kGroup a = kGroup b ∧ kPart a = kPart b
  | 2 => kPart a = kPart b
  | 3 => kPart a = kPart b
  | 4 => True
  | _ => kPart a = kPart b ∧ kVoice a = kVoice b

theorem export_modes (mode : Nat) (hm : mode ≤ 5) (keys : List Key) (tcs : List (Nat × Nat))
    (h : mapToTrackChannel mode keys = some tcs) :
    ∀ a ∈ keys.zip tcs, ∀ b ∈ keys.zip tcs,
      (a.2.1 = b.2.1 ↔ SameTrack mode a.1 b.1) ∧ (a.2 = b.2 ↔ SameTC mode a.1 b.1) := by
  intro a ha b hb
  obtain ⟨ka, ta, ca⟩ := a
  obtain ⟨kb, tb, cb⟩ := b
  simp only [Prod.mk.injEq]
  match mode, hm with
  | 0, _ =>
    simp only [mapToTrackChannel, Option.some.injEq] at h
    subst h
    obtain ⟨ha1, ha2⟩ := mem_zip_zip ha
    obtain ⟨hb1, hb2⟩ := mem_zip_zip hb
    obtain ⟨na, hna, rfl⟩ := mem_zip_map_right _ ha2
    obtain ⟨nb, hnb, rfl⟩ := mem_zip_map_right _ hb2
    have r := ranks_proj kPart keys (ka, ta) ha1 (kb, tb) hb1
    simp only at r
    refine ⟨r, ?_⟩
    simp only [SameTC]
    constructor
    · rintro ⟨h1, h2⟩
      have hp := r.mp h1
      exact ⟨hp, ((nranks_proj kPart kVoice keys (ka, na) hna (kb, nb) hnb hp).mp (by omega))⟩
    · rintro ⟨h1, h2⟩
      exact ⟨r.mpr h1, by have e := (nranks_proj kPart kVoice keys (ka, na) hna (kb, nb) hnb h1).mpr h2; simp only at e; omega⟩
  | 1, _ =>
    simp only [mapToTrackChannel, Option.some.injEq] at h
    subst h
    obtain ⟨ha1, ha2⟩ := mem_zip_zip ha
    obtain ⟨hb1, hb2⟩ := mem_zip_zip hb
    obtain ⟨na, hna, rfl⟩ := mem_zip_map_right _ ha2
    obtain ⟨nb, hnb, rfl⟩ := mem_zip_map_right _ hb2
    have r := ranks_proj kGroup keys (ka, ta) ha1 (kb, tb) hb1
    simp only at r
    refine ⟨r, ?_⟩
    simp only [SameTC]
    constructor
    · rintro ⟨h1, h2⟩
      have hp := r.mp h1
      exact ⟨hp, ((nranks_proj kGroup kPart keys (ka, na) hna (kb, nb) hnb hp).mp (by omega))⟩
    · rintro ⟨h1, h2⟩
      exact ⟨r.mpr h1, by have e := (nranks_proj kGroup kPart keys (ka, na) hna (kb, nb) hnb h1).mpr h2; simp only at e; omega⟩
  | 2, _ =>
    simp only [mapToTrackChannel, Option.some.injEq] at h
    subst h
    obtain ⟨ra, hra, ea⟩ := mem_zip_map_right _ ha
    obtain ⟨rb, hrb, eb⟩ := mem_zip_map_right _ hb
    simp only [Prod.mk.injEq] at ea eb
    obtain ⟨rfl, rfl⟩ := ea
    obtain ⟨rfl, rfl⟩ := eb
    have r := ranks_proj kPart keys (ka, ra) hra (kb, rb) hrb
    simp only at r
    simp only [SameTrack, SameTC, true_and]
    constructor
    · intro h; exact r.mp (by omega)
    · intro h; rw [r.mpr h]
  | 3, _ =>
    simp only [mapToTrackChannel, Option.some.injEq] at h
    subst h
    obtain ⟨ra, hra, ea⟩ := mem_zip_map_right _ ha
    obtain ⟨rb, hrb, eb⟩ := mem_zip_map_right _ hb
    simp only [Prod.mk.injEq] at ea eb
    obtain ⟨rfl, rfl⟩ := ea
    obtain ⟨rfl, rfl⟩ := eb
    have r := ranks_proj kPart keys (ka, ra) hra (kb, rb) hrb
    simp only at r
    simp only [SameTrack, SameTC, and_true]
    exact ⟨r, r⟩
  | 4, _ =>
    simp only [mapToTrackChannel, Option.some.injEq] at h
    subst h
    obtain ⟨_, _, ea⟩ := mem_zip_map_right _ ha
    obtain ⟨_, _, eb⟩ := mem_zip_map_right _ hb
    simp only [Prod.mk.injEq] at ea eb
    obtain ⟨rfl, rfl⟩ := ea
    obtain ⟨rfl, rfl⟩ := eb
    simp [SameTrack, SameTC]
  | 5, _ =>
    simp only [mapToTrackChannel, Option.some.injEq] at h
    subst h
    obtain ⟨ra, hra, ea⟩ := mem_zip_map_right _ ha
    obtain ⟨rb, hrb, eb⟩ := mem_zip_map_right _ hb
    simp only [Prod.mk.injEq] at ea eb
    obtain ⟨rfl, rfl⟩ := ea
    obtain ⟨rfl, rfl⟩ := eb
    have r := ranks_proj (fun k => (kPart k, kVoice k)) keys (ka, ra) hra (kb, rb) hrb
    simp only [Prod.mk.injEq] at r
    simp only [SameTrack, SameTC, and_true]
    exact ⟨r, r⟩

-- ------------------------------------------------------------------ import modes

/-- which (track, channel) pairs land in the same (part, voice) cell / the same part group, per import mode -/
def SameCellIn (mode : Nat) (a b : Nat × Nat) : Prop :=
  match mode with
  | 0 => a = b
  | 1 => a = b
  | 2 => a.1 = b.1
  | 3 => a.1 = b.1
  | 4 => True
  | _ => a = b

theorem import_modes (mode : Nat) (hm : mode ≤ 5) (trch : List (Nat × Nat)) :
    ∀ a ∈ trch.zip (assignGroupPartVoice mode trch), ∀ b ∈ trch.zip (assignGroupPartVoice mode trch),
      ((a.2.2.1 = b.2.2.1 ∧ a.2.2.2 = b.2.2.2) ↔ SameCellIn mode a.1 b.1) ∧
      (mode = 1 → (a.2.1 = b.2.1 ↔ a.1.1 = b.1.1)) := by
  intro a ha b hb
  obtain ⟨tca, ga, pa, va⟩ := a
  obtain ⟨tcb, gb, pb, vb⟩ := b
  match mode, hm with
  | 0, _ =>
    simp only [assignGroupPartVoice] at ha hb
    obtain ⟨ra, na, hra, hna, ea⟩ := mem_zip_zipWith _ ha
    obtain ⟨rb, nb, hrb, hnb, eb⟩ := mem_zip_zipWith _ hb
    simp only [Prod.mk.injEq] at ea eb
    obtain ⟨rfl, rfl, rfl⟩ := ea
    obtain ⟨rfl, rfl, rfl⟩ := eb
    have r := ranks_proj (fun x : Nat × Nat => x.1) trch (tca, ra) hra (tcb, rb) hrb
    simp only at r
    have hna' : (tca, na) ∈ trch.zip (nranks (trch.map fun k => (k.1, k.2))) := by simpa using hna
    have hnb' : (tcb, nb) ∈ trch.zip (nranks (trch.map fun k => (k.1, k.2))) := by simpa using hnb
    refine ⟨?_, fun h => absurd h (by decide)⟩
    simp only [Option.some.injEq, SameCellIn]
    constructor
    · rintro ⟨h1, h2⟩
      have ht := r.mp h1
      have := (nranks_proj (fun x : Nat × Nat => x.1) (fun x => x.2) trch (tca, na) hna' (tcb, nb) hnb' ht).mp (by omega)
      exact Prod.ext ht this
    · intro h
      subst h
      refine ⟨r.mpr rfl, ?_⟩
      have e := (nranks_proj (fun x : Nat × Nat => x.1) (fun x => x.2) trch (tca, na) hna' (tca, nb) hnb' rfl).mpr rfl
      simp only at e
      omega
  | 1, _ =>
    simp only [assignGroupPartVoice] at ha hb
    obtain ⟨ra, na, hra, hna, ea⟩ := mem_zip_zipWith _ ha
    obtain ⟨rb, nb, hrb, hnb, eb⟩ := mem_zip_zipWith _ hb
    simp only [Prod.mk.injEq] at ea eb
    obtain ⟨rfl, rfl, rfl⟩ := ea
    obtain ⟨rfl, rfl, rfl⟩ := eb
    have r := ranks_proj (fun x : Nat × Nat => x.1) trch (tca, ra) hra (tcb, rb) hrb
    have hna' : (tca, na) ∈ trch.zip (ranks (trch.map fun k => k)) := by simpa using hna
    have hnb' : (tcb, nb) ∈ trch.zip (ranks (trch.map fun k => k)) := by simpa using hnb
    have r2 := ranks_proj (fun x : Nat × Nat => x) trch (tca, na) hna' (tcb, nb) hnb'
    simp only at r r2
    refine ⟨?_, fun _ => by simpa using r⟩
    simp only [Option.some.injEq, and_true, SameCellIn]
    exact r2
  | 2, _ =>
    simp only [assignGroupPartVoice] at ha hb
    obtain ⟨ra, hra, ea⟩ := mem_zip_map_right _ ha
    obtain ⟨rb, hrb, eb⟩ := mem_zip_map_right _ hb
    simp only [Prod.mk.injEq] at ea eb
    obtain ⟨rfl, rfl, rfl⟩ := ea
    obtain ⟨rfl, rfl, rfl⟩ := eb
    have r := ranks_proj (fun x : Nat × Nat => x.1) trch (tca, ra) hra (tcb, rb) hrb
    simp only at r
    refine ⟨?_, fun h => absurd h (by decide)⟩
    simp only [Option.some.injEq, true_and, SameCellIn]
    constructor
    · intro h; exact r.mp (by omega)
    · intro h; rw [r.mpr h]
  | 3, _ =>
    simp only [assignGroupPartVoice] at ha hb
    obtain ⟨ra, hra, ea⟩ := mem_zip_map_right _ ha
    obtain ⟨rb, hrb, eb⟩ := mem_zip_map_right _ hb
    simp only [Prod.mk.injEq] at ea eb
    obtain ⟨rfl, rfl, rfl⟩ := ea
    obtain ⟨rfl, rfl, rfl⟩ := eb
    have r := ranks_proj (fun x : Nat × Nat => x.1) trch (tca, ra) hra (tcb, rb) hrb
    simp only at r
    refine ⟨?_, fun h => absurd h (by decide)⟩
    simp only [Option.some.injEq, and_true, SameCellIn]
    exact r
  | 4, _ =>
    simp only [assignGroupPartVoice] at ha hb
    obtain ⟨_, _, ea⟩ := mem_zip_map_right _ ha
    obtain ⟨_, _, eb⟩ := mem_zip_map_right _ hb
    simp only [Prod.mk.injEq] at ea eb
    obtain ⟨rfl, rfl, rfl⟩ := ea
    obtain ⟨rfl, rfl, rfl⟩ := eb
    exact ⟨by simp [SameCellIn], fun h => absurd h (by decide)⟩
  | 5, _ =>
    simp only [assignGroupPartVoice] at ha hb
    obtain ⟨ra, hra, ea⟩ := mem_zip_map_right _ ha
    obtain ⟨rb, hrb, eb⟩ := mem_zip_map_right _ hb
    simp only [Prod.mk.injEq] at ea eb
    obtain ⟨rfl, rfl, rfl⟩ := ea
    obtain ⟨rfl, rfl, rfl⟩ := eb
    have hra' : (tca, ra) ∈ trch.zip (ranks (trch.map fun k => k)) := by simpa using hra
    have hrb' : (tcb, rb) ∈ trch.zip (ranks (trch.map fun k => k)) := by simpa using hrb
    have r := ranks_proj (fun x : Nat × Nat => x) trch (tca, ra) hra' (tcb, rb) hrb'
    simp only at r
    refine ⟨?_, fun h => absurd h (by decide)⟩
    simp only [Option.some.injEq, and_true, SameCellIn]
    exact r

-- ------------------------------------------------------------------ sorted (track, channel) list

theorem mem_insertTC (k x : Nat × Nat) (l : List (Nat × Nat)) : x ∈ insertTC k l ↔ x = k ∨ x ∈ l := by
  induction l with
  | nil => simp [insertTC]
  | cons a as ih =>
    simp only [insertTC]
    split
    · simp
    · split
      · rename_i h
        subst h
        simp
      · simp only [List.mem_cons, ih]
        constructor
        · rintro (h | h | h)
          · exact Or.inr (Or.inl h)
          · exact Or.inl h
          · exact Or.inr (Or.inr h)
        · rintro (h | h | h)
          · exact Or.inr (Or.inl h)
          · exact Or.inl h
          · exact Or.inr (Or.inr h)

theorem mem_sortedTC (x : Nat × Nat) (l : List (Nat × Nat)) : x ∈ sortedTC l ↔ x ∈ l := by
  induction l with
  | nil => simp [sortedTC]
  | cons a as ih =>
    have : sortedTC (a :: as) = insertTC a (sortedTC as) := rfl
    rw [this, mem_insertTC, ih]
    simp

theorem assign_length (mode : Nat) (trch : List (Nat × Nat)) : (assignGroupPartVoice mode trch).length = trch.length := by
  have r1 : ∀ {α : Type} [DecidableEq α] (xs : List α), (ranks xs).length = xs.length := fun xs => rankLoop_length [] xs
  have r2 : (nranks trch).length = trch.length := nestedLoop_length [] trch
  unfold assignGroupPartVoice
  split <;> simp [r1, r2]

/-- every (track, channel) of the list has a cell -/
theorem assign_total (mode : Nat) (trch : List (Nat × Nat)) (tc : Nat × Nat) (h : tc ∈ trch) :
    ∃ c, (tc, c) ∈ trch.zip (assignGroupPartVoice mode trch) := by
  obtain ⟨i, hi, rfl⟩ := List.mem_iff_getElem.mp h
  have hl := assign_length mode trch
  refine ⟨(assignGroupPartVoice mode trch)[i]'(by omega), ?_⟩
  rw [List.mem_iff_getElem]
  exact ⟨i, by simp [hl, hi], by simp⟩

end C04M
