/-
C03 helper lemmas: the importer handles the `<slur>`/`<tuplet>` elements of one note sorted by number
(`noteOrder`); elements with different numbers do not interact, so this re-ordering does not change which
ranges are recovered.
-/
import PartituraModel.Model.RangeNumbers
import Mathlib.Data.List.Perm.Basic

namespace C03.Order
open Model.Ranges

/-- `pairCore` seen from the two entries it can touch: the values under `(true, k)` and `(false, k)` -/
def coreVals (ct : Bool) (vt vf : Option Pending) (m : Mark) :
    (Option Pending × Option Pending) × List (Nat × Nat) × List Pending :=
  if m.isStart then
    match vf with
    | some p =>
      match p.stopNote with
      | some (e, te) =>
        if ct && decide (te < m.time) then
          ((some { startNote := some (m.note, m.time), stopNote := none }, none), [],
            [p] ++ (match vt with | some q => [q] | none => []))
        else ((vt, none), [(m.note, e)], [])
      | none => ((vt, none), [], [])
    | none =>
      ((some { startNote := some (m.note, m.time), stopNote := none }, none), [],
        (match vt with | some q => [q] | none => []))
  else
    match vt with
    | some p =>
      match p.startNote with
      | some (b, tb) =>
        if ct && decide (m.time < tb) then
          ((none, some { startNote := none, stopNote := some (m.note, m.time) }), [],
            (match vf with | some q => [q] | none => []))
        else ((none, vf), [(b, m.note)], [])
      | none => ((none, vf), [], [])
    | none =>
      ((none, some { startNote := none, stopNote := some (m.note, m.time) }), [],
        (match vf with | some q => [q] | none => []))

/-- put two values under the keys of number `k` -/
def put (k : Nat) (v : Option Pending × Option Pending) (o : Ongoing) : Ongoing := fun key =>
  if key = (true, k) then v.1 else if key = (false, k) then v.2 else o key

theorem pairCore_eq (ct : Bool) (o : Ongoing) (m : Mark) :
    pairCore ct o m =
      (put m.number (coreVals ct (o (true, m.number)) (o (false, m.number)) m).1 o,
        (coreVals ct (o (true, m.number)) (o (false, m.number)) m).2.1,
        (coreVals ct (o (true, m.number)) (o (false, m.number)) m).2.2) := by
  have hne : ((true, m.number) : Bool × Nat) ≠ (false, m.number) := by simp
  unfold pairCore coreVals
  by_cases hs : m.isStart = true
  · simp only [hs, if_true, ofind]
    cases hvf : o (false, m.number) with
    | none =>
      simp only
      refine Prod.ext ?_ (by simp only [ofind]; cases o (true, m.number) <;> rfl)
      funext key
      simp only [oset, put]
      by_cases h1 : key = (true, m.number)
      · simp [h1]
      · by_cases h2 : key = (false, m.number)
        · subst h2; simp [hvf]
        · simp [h1, h2]
    | some p =>
      simp only
      cases hst : p.stopNote with
      | none =>
        simp only
        refine Prod.ext ?_ rfl
        funext key
        simp only [oerase, put]
        by_cases h1 : key = (true, m.number)
        · subst h1; simp
        · by_cases h2 : key = (false, m.number)
          · simp [h2]
          · simp [h1, h2]
      | some et =>
        obtain ⟨e, te⟩ := et
        simp only
        by_cases hrogue : (ct && decide (te < m.time)) = true
        · simp only [hrogue, if_true]
          refine Prod.ext ?_ (by simp [oerase, ofind]; cases o (true, m.number) <;> rfl)
          funext key
          by_cases h1 : key = (true, m.number)
          · simp [h1, oset, oerase, put]
          · by_cases h2 : key = (false, m.number)
            · simp [h2, oset, oerase, put]
            · simp [h1, h2, oset, oerase, put]
        · simp only [hrogue, Bool.false_eq_true, if_false]
          refine Prod.ext ?_ rfl
          funext key
          simp only [oerase, put]
          by_cases h1 : key = (true, m.number)
          · subst h1; simp
          · by_cases h2 : key = (false, m.number)
            · simp [h2]
            · simp [h1, h2]
  · have hs' : m.isStart = false := by simpa using hs
    simp only [hs', Bool.false_eq_true, if_false, ofind]
    cases hvt : o (true, m.number) with
    | none =>
      simp only
      refine Prod.ext ?_ (by simp only [ofind]; cases o (false, m.number) <;> rfl)
      funext key
      simp only [oset, put]
      by_cases h1 : key = (true, m.number)
      · subst h1; simp [hvt]
      · by_cases h2 : key = (false, m.number)
        · simp [h2]
        · simp [h1, h2]
    | some p =>
      simp only
      cases hst : p.startNote with
      | none =>
        simp only
        refine Prod.ext ?_ rfl
        funext key
        simp only [oerase, put]
        by_cases h1 : key = (true, m.number)
        · simp [h1]
        · by_cases h2 : key = (false, m.number)
          · subst h2; simp
          · simp [h1, h2]
      | some bt =>
        obtain ⟨b, tb⟩ := bt
        simp only
        by_cases hrogue : (ct && decide (m.time < tb)) = true
        · simp only [hrogue, if_true]
          refine Prod.ext ?_ (by simp [oerase, ofind]; cases o (false, m.number) <;> rfl)
          funext key
          simp only [oset, oerase, put]
          by_cases h1 : key = (true, m.number)
          · simp [h1]
          · by_cases h2 : key = (false, m.number)
            · simp [h2]
            · simp [h1, h2]
        · simp only [hrogue, Bool.false_eq_true, if_false]
          refine Prod.ext ?_ rfl
          funext key
          simp only [oerase, put]
          by_cases h1 : key = (true, m.number)
          · simp [h1]
          · by_cases h2 : key = (false, m.number)
            · subst h2; simp
            · simp [h1, h2]

/-- two reader states are the same up to the order in which completed and lost ranges were recorded -/
def PEq (s s' : PState) : Prop := s.ongoing = s'.ongoing ∧ s.done.Perm s'.done ∧ s.lost.Perm s'.lost

theorem PEq.refl (s : PState) : PEq s s := ⟨rfl, List.Perm.refl _, List.Perm.refl _⟩

theorem PEq.trans {a b c : PState} (h1 : PEq a b) (h2 : PEq b c) : PEq a c :=
  ⟨h1.1.trans h2.1, h1.2.1.trans h2.2.1, h1.2.2.trans h2.2.2⟩

theorem pairStep_congr (ct : Bool) {s s' : PState} (h : PEq s s') (m : Mark) :
    PEq (pairStep ct s m) (pairStep ct s' m) := by
  obtain ⟨ho, hd, hl⟩ := h
  unfold pairStep
  rw [ho]
  exact ⟨rfl, hd.append_right _, hl.append_right _⟩

theorem pairAll_congr (ct : Bool) (l : List Mark) {s s' : PState} (h : PEq s s') :
    PEq (pairAll ct s l) (pairAll ct s' l) := by
  induction l generalizing s s' with
  | nil => exact h
  | cons m rest ih => exact ih (pairStep_congr ct h m)

theorem put_other {k : Nat} {v : Option Pending × Option Pending} {o : Ongoing} {key : Bool × Nat}
    (h : key.2 ≠ k) : put k v o key = o key := by
  unfold put
  have h1 : key ≠ (true, k) := fun hc => h (by rw [hc])
  have h2 : key ≠ (false, k) := fun hc => h (by rw [hc])
  simp [h1, h2]

/-- elements with different numbers commute -/
theorem pairStep_comm (ct : Bool) (s : PState) (m1 m2 : Mark) (hne : m1.number ≠ m2.number) :
    PEq (pairStep ct (pairStep ct s m1) m2) (pairStep ct (pairStep ct s m2) m1) := by
  unfold pairStep
  simp only [pairCore_eq]
  -- the second step sees what the first one saw under its own number
  have e1 : ∀ b, put m1.number (coreVals ct (s.ongoing (true, m1.number)) (s.ongoing (false, m1.number)) m1).1
      s.ongoing (b, m2.number) = s.ongoing (b, m2.number) := fun b => put_other (by simpa using hne.symm)
  have e2 : ∀ b, put m2.number (coreVals ct (s.ongoing (true, m2.number)) (s.ongoing (false, m2.number)) m2).1
      s.ongoing (b, m1.number) = s.ongoing (b, m1.number) := fun b => put_other (by simpa using hne)
  simp only [e1, e2]
  refine ⟨?_, ?_, ?_⟩
  · funext key
    unfold put
    by_cases h1 : key = (true, m1.number)
    · subst h1
      have : ((true, m1.number) : Bool × Nat) ≠ (true, m2.number) := by simpa using hne
      have : ((true, m1.number) : Bool × Nat) ≠ (false, m2.number) := by simp
      simp_all
    · by_cases h2 : key = (false, m1.number)
      · subst h2
        have : ((false, m1.number) : Bool × Nat) ≠ (true, m2.number) := by simp
        have : ((false, m1.number) : Bool × Nat) ≠ (false, m2.number) := by simpa using hne
        simp_all
      · simp [h1, h2]
  · rw [List.perm_iff_count]; intro a; simp only [List.count_append]; omega
  · rw [List.perm_iff_count]; intro a
    classical
    simp only [List.count_append]; omega

theorem pairAll_cons (ct : Bool) (s : PState) (m : Mark) (l : List Mark) :
    pairAll ct s (m :: l) = pairAll ct (pairStep ct s m) l := rfl

theorem pairAll_append (ct : Bool) (s : PState) (a b : List Mark) :
    pairAll ct s (a ++ b) = pairAll ct (pairAll ct s a) b := by
  unfold pairAll; rw [List.foldl_append]

/-- moving an element past elements with other numbers does not change the outcome -/
theorem pairAll_insert (ct : Bool) (lt : Mark → Mark → Bool) (x : Mark) :
    ∀ (l : List Mark) (s : PState), (∀ y ∈ l, lt y x = true → y.number ≠ x.number) →
      PEq (pairAll ct s (insertMark lt x l)) (pairAll ct s (x :: l)) := by
  intro l
  induction l with
  | nil => intro s _; exact PEq.refl _
  | cons y ys ih =>
    intro s h
    unfold insertMark
    by_cases hyx : lt y x = true
    · simp only [hyx, if_true]
      rw [pairAll_cons]
      refine (ih (pairStep ct s y) (fun z hz => h z (List.mem_cons_of_mem _ hz))).trans ?_
      rw [pairAll_cons, pairAll_cons, pairAll_cons]
      exact pairAll_congr ct ys (pairStep_comm ct s y x (h y (List.mem_cons_self ..) hyx))
    · simp only [hyx, if_false]
      exact PEq.refl _

/-- sorting the elements by number (stably) does not change the outcome -/
theorem pairAll_sort_number (ct : Bool) :
    ∀ (l : List Mark) (s : PState),
      PEq (pairAll ct s (sortMarks (fun a b => decide (a.number < b.number)) l)) (pairAll ct s l) := by
  intro l
  induction l with
  | nil => intro s; exact PEq.refl _
  | cons x xs ih =>
    intro s
    unfold sortMarks
    refine (pairAll_insert ct _ x _ s ?_).trans ?_
    · intro y _ hy
      simp at hy; omega
    · rw [pairAll_cons, pairAll_cons]
      exact ih _

/-! ### the elements of one note, note by note -/

abbrev numLt : Mark → Mark → Bool := fun a b => decide (a.number < b.number)
abbrev typeLt : Mark → Mark → Bool := fun a b => !a.isStart && b.isStart

theorem insertMark_perm (lt : Mark → Mark → Bool) (x : Mark) (l : List Mark) : (insertMark lt x l).Perm (x :: l) := by
  induction l with
  | nil => simp [insertMark]
  | cons y ys ih =>
    unfold insertMark
    split
    · exact (List.Perm.cons y ih).trans (List.Perm.swap x y ys)
    · exact List.Perm.refl _

theorem sortMarks_perm (lt : Mark → Mark → Bool) (l : List Mark) : (sortMarks lt l).Perm l := by
  induction l with
  | nil => simp [sortMarks]
  | cons x xs ih => exact (insertMark_perm lt x _).trans (List.Perm.cons x ih)

/-- stops before starts -/
def TypeSorted (l : List Mark) : Prop := l.Pairwise fun a b => typeLt b a = false

theorem sortMarks_type_id {l : List Mark} (h : TypeSorted l) : sortMarks typeLt l = l := by
  induction l with
  | nil => rfl
  | cons x xs ih =>
    unfold sortMarks
    rw [ih (List.pairwise_cons.mp h).2]
    cases xs with
    | nil => rfl
    | cons y ys =>
      have := (List.pairwise_cons.mp h).1 y (List.mem_cons_self ..)
      simp only [insertMark, this, Bool.false_eq_true, if_false]

theorem noteOrder_eq {l : List Mark} (h : TypeSorted l) : noteOrder l = sortMarks numLt l := by
  unfold noteOrder
  rw [sortMarks_type_id h]

theorem typeSorted_append {A B : List Mark} (hA : ∀ a ∈ A, a.isStart = false) (hB : ∀ b ∈ B, b.isStart = true) :
    TypeSorted (A ++ B) := by
  unfold TypeSorted
  rw [List.pairwise_append]
  refine ⟨?_, ?_, ?_⟩
  · refine List.pairwise_of_forall_mem_list ?_
    intro a ha b _
    simp [typeLt, hA a ha]
  · refine List.pairwise_of_forall_mem_list ?_
    intro a _ b hb
    simp [typeLt, hB b hb]
  · intro a ha b hb
    simp [typeLt, hA a ha]

/-- reading the groups note by note, each in the importer's order, is reading them as written -/
theorem pairAll_groups (ct : Bool) :
    ∀ (groups : List (List Mark)) (s : PState), (∀ g ∈ groups, TypeSorted g) →
      PEq (pairAll ct s (groups.flatMap noteOrder)) (pairAll ct s groups.flatten) := by
  intro groups
  induction groups with
  | nil => intro s _; exact PEq.refl _
  | cons g rest ih =>
    intro s h
    rw [List.flatMap_cons, List.flatten_cons, pairAll_append, pairAll_append,
      noteOrder_eq (h g (List.mem_cons_self ..))]
    refine (pairAll_congr ct _ (pairAll_sort_number ct g s)).trans ?_
    exact ih _ (fun g' hg' => h g' (List.mem_cons_of_mem _ hg'))

/-- the runs of one note: none is empty, a run belongs to one note, neighbouring runs to different notes -/
def GroupsOK : List (List Mark) → Prop
  | [] => True
  | g :: rest =>
    g ≠ [] ∧ (∀ a ∈ g, ∀ b ∈ g, a.note = b.note) ∧
      (∀ a ∈ g, ∀ g' ∈ rest.head?, ∀ b ∈ g', a.note ≠ b.note) ∧ GroupsOK rest

theorem groupByNote_cons_run (m : Mark) (g : List Mark) (gs : List (List Mark)) (rest : List Mark)
    (h : groupByNote rest = g :: gs) :
    groupByNote (m :: rest) =
      match g with
      | [] => [m] :: gs
      | x :: _ => if x.note = m.note then (m :: g) :: gs else [m] :: g :: gs := by
  cases g <;> simp [groupByNote, h]

theorem groupByNote_flatten : ∀ (groups : List (List Mark)), GroupsOK groups →
    groupByNote groups.flatten = groups := by
  intro groups
  induction groups with
  | nil => intro _; rfl
  | cons g rest ih =>
    intro h
    obtain ⟨hne, hsame, hdiff, hrest⟩ := h
    have ihr := ih hrest
    rw [List.flatten_cons]
    -- run through the elements of `g`
    suffices hkey : ∀ (g1 : List Mark), g1 ≠ [] → (∀ a ∈ g1, a ∈ g) →
        groupByNote (g1 ++ rest.flatten) = g1 :: rest from hkey g hne (fun a ha => ha)
    intro g1
    induction g1 with
    | nil => intro h; exact absurd rfl h
    | cons m g2 ih2 =>
      intro _ hsub
      cases g2 with
      | nil =>
        simp only [List.cons_append, List.nil_append]
        cases hr : rest with
        | nil => simp [groupByNote]
        | cons g' gs =>
          have hg' : groupByNote (rest.flatten) = g' :: gs := by rw [ihr, hr]
          rw [hr] at hg'
          rw [groupByNote_cons_run m g' gs _ hg']
          have hg'ne : g' ≠ [] := by rw [hr] at hrest; exact hrest.1
          cases g' with
          | nil => exact absurd rfl hg'ne
          | cons x xs =>
            have : x.note ≠ m.note := by
              have := hdiff m (hsub m (List.mem_cons_self ..)) (x :: xs) (by rw [hr]; simp) x (List.mem_cons_self ..)
              exact fun hc => this hc.symm
            simp [this]
      | cons m2 g3 =>
        have ih' := ih2 (by simp) (fun a ha => hsub a (List.mem_cons_of_mem _ ha))
        simp only [List.cons_append] at ih' ⊢
        rw [groupByNote_cons_run m (m2 :: g3) rest _ ih']
        have : m2.note = m.note :=
          hsame m2 (hsub m2 (List.mem_cons_of_mem _ (List.mem_cons_self ..))) m (hsub m (List.mem_cons_self ..))
        simp [this]

/-- **what the importer's `readMarks` does with groups written stops-first**: the same as reading them in the
    written order -/
theorem readMarks_groups (ct : Bool) (groups : List (List Mark)) (hok : GroupsOK groups)
    (hts : ∀ g ∈ groups, TypeSorted g) :
    PEq (readMarks ct groups.flatten)
      (pairAll ct { ongoing := fun _ => none, done := [], lost := [] } groups.flatten) := by
  unfold readMarks
  rw [groupByNote_flatten groups hok]
  exact pairAll_groups ct groups _ hts

/-! ### as written (sorted by number inside the stops and inside the starts of a note) vs. as numbered -/

/-- the elements of one note in the order the exporter numbers them: its stops, then its starts -/
def toggled (g : List Mark × List Mark) : List Mark := g.1 ++ g.2

/-- … and in the order it writes them: each of the two sorted by number -/
def written (g : List Mark × List Mark) : List Mark := sortMarks numLt g.1 ++ sortMarks numLt g.2

theorem mem_written {g : List Mark × List Mark} {a : Mark} : a ∈ written g ↔ a ∈ toggled g := by
  unfold written toggled
  simp only [List.mem_append, (sortMarks_perm numLt g.1).mem_iff, (sortMarks_perm numLt g.2).mem_iff]

theorem groupsOK_written : ∀ (tg : List (List Mark × List Mark)), GroupsOK (tg.map toggled) →
    GroupsOK (tg.map written) := by
  intro tg
  induction tg with
  | nil => intro _; trivial
  | cons g rest ih =>
    intro h
    obtain ⟨hne, hsame, hdiff, hrest⟩ := h
    refine ⟨?_, ?_, ?_, ih hrest⟩
    · intro hc
      apply hne
      cases ht : toggled g with
      | nil => rfl
      | cons x xs =>
        have : x ∈ written g := mem_written.mpr (by rw [ht]; exact List.mem_cons_self ..)
        rw [hc] at this; cases this
    · intro a ha b hb
      exact hsame a (mem_written.mp ha) b (mem_written.mp hb)
    · intro a ha g' hg' b hb
      cases rest with
      | nil => simp at hg'
      | cons g2 rest' =>
        simp only [List.map_cons, List.head?_cons, Option.mem_def, Option.some.injEq] at hg'
        subst hg'
        exact hdiff a (mem_written.mp ha) (toggled g2) (by simp) b (mem_written.mp hb)

theorem typeSorted_written {g : List Mark × List Mark} (h1 : ∀ a ∈ g.1, a.isStart = false)
    (h2 : ∀ b ∈ g.2, b.isStart = true) : TypeSorted (written g) :=
  typeSorted_append (fun a ha => h1 a ((sortMarks_perm numLt g.1).mem_iff.mp ha))
    (fun b hb => h2 b ((sortMarks_perm numLt g.2).mem_iff.mp hb))

theorem pairAll_written (ct : Bool) : ∀ (tg : List (List Mark × List Mark)) (s : PState),
    PEq (pairAll ct s (tg.map written).flatten) (pairAll ct s (tg.map toggled).flatten) := by
  intro tg
  induction tg with
  | nil => intro s; exact PEq.refl _
  | cons g rest ih =>
    intro s
    simp only [List.map_cons, List.flatten_cons, written, toggled, pairAll_append]
    refine (pairAll_congr ct _ (pairAll_congr ct _ (pairAll_sort_number ct g.1 s))).trans ?_
    refine (pairAll_congr ct _ (pairAll_sort_number ct g.2 _)).trans ?_
    exact ih _

/-- the importer's reader on what is written = reading the elements in the order they were numbered -/
theorem readMarks_written (ct : Bool) (tg : List (List Mark × List Mark)) (hok : GroupsOK (tg.map toggled))
    (hkind : ∀ g ∈ tg, (∀ a ∈ g.1, a.isStart = false) ∧ (∀ b ∈ g.2, b.isStart = true)) :
    PEq (readMarks ct (tg.map written).flatten)
      (pairAll ct { ongoing := fun _ => none, done := [], lost := [] } (tg.map toggled).flatten) := by
  refine (readMarks_groups ct _ (groupsOK_written tg hok) ?_).trans (pairAll_written ct tg _)
  intro g hg
  obtain ⟨g0, hg0, rfl⟩ := List.mem_map.mp hg
  exact typeSorted_written (hkind g0 hg0).1 (hkind g0 hg0).2

end C03.Order
