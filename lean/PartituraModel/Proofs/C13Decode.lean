/-
Correctness of the run-length decoder `pianoroll_to_notearray` (C13), for every matrix:
the column-wise bookkeeping with the `active_notes` dict projects, pitch by pitch, onto a
one-row run-length machine, and that machine emits exactly the maximal runs of the row.
-/
import PartituraModel.Proofs.C13

namespace C13
open Model Model.PianoRoll
open List

/-! ### the one-row machine -/

def newRun (p t : Nat) (v : Int) : Run := { pitch := p, vel := v, on := t, off := t + 1 }
def bump (x : Run) : Run := { x with off := x.off + 1 }

/-- what one time step does to the runs of pitch `p`: `st.1` the open run (at most one), `st.2` the closed ones -/
def stepRow (p t : Nat) (v : Int) (st : List Run × List Run) : List Run × List Run :=
  if v = 0 then ([], st.2 ++ st.1)
  else
    match st.1.head? with
    | none => (st.1 ++ [newRun p t v], st.2)
    | some r => if v ≠ r.vel then ([newRun p t v], st.2 ++ [r]) else (st.1.map bump, st.2)

def rowFold (p : Nat) : Nat → List Int → (List Run × List Run) → (List Run × List Run)
  | _, [], st => st
  | t, v :: vs, st => rowFold p (t + 1) vs (stepRow p t v st)

/-- an open run at time `t`: constant non-zero value since `on`, not extendable to the left -/
def Open (f : Nat → Int) (p t : Nat) (a : Run) : Prop :=
  a.pitch = p ∧ a.vel ≠ 0 ∧ a.on < t ∧ a.off = t ∧ (∀ s, a.on ≤ s → s < t → f s = a.vel) ∧
    (a.on = 0 ∨ f (a.on - 1) ≠ a.vel)

/-- a run closed before time `t` -/
def Closed (f : Nat → Int) (p t : Nat) (x : Run) : Prop :=
  x.pitch = p ∧ x.vel ≠ 0 ∧ x.on < x.off ∧ x.off < t ∧ (∀ s, x.on ≤ s → s < x.off → f s = x.vel) ∧
    (x.on = 0 ∨ f (x.on - 1) ≠ x.vel) ∧ f x.off ≠ x.vel

theorem open_unique {f : Nat → Int} {p t : Nat} {a b : Run} (ha : Open f p t a) (hb : Open f p t b) : a = b := by
  obtain ⟨a1, a2, a3, a4, a5, a6⟩ := ha
  obtain ⟨b1, b2, b3, b4, b5, b6⟩ := hb
  have hv : a.vel = b.vel := by
    have h1 := a5 (t - 1) (by omega) (by omega)
    have h2 := b5 (t - 1) (by omega) (by omega)
    rw [← h1, ← h2]
  have hon : a.on = b.on := by
    rcases Nat.lt_trichotomy a.on b.on with h | h | h
    · exfalso
      rcases b6 with h0 | h0
      · omega
      · exact h0 (by rw [a5 (b.on - 1) (by omega) (by omega), hv])
    · exact h
    · exfalso
      rcases a6 with h0 | h0
      · omega
      · exact h0 (by rw [b5 (a.on - 1) (by omega) (by omega), hv])
  cases a; cases b
  simp_all

structure Inv (f : Nat → Int) (p t : Nat) (st : List Run × List Run) : Prop where
  len : st.1.length ≤ 1
  opn : ∀ a ∈ st.1, Open f p t a
  some : 0 < t → f (t - 1) ≠ 0 → st.1 ≠ []
  cls : ∀ x, x ∈ st.2 ↔ Closed f p t x
  nodup : st.2.Nodup

/-- a closed-by-`t+1` run that ends at `t` is an open run at `t` whose value changes at `t` -/
theorem closed_succ {f : Nat → Int} {p t : Nat} {x : Run} :
    Closed f p (t + 1) x ↔ Closed f p t x ∨ (Open f p t x ∧ f t ≠ x.vel) := by
  constructor
  · rintro ⟨h1, h2, h3, h4, h5, h6, h7⟩
    by_cases h : x.off < t
    · exact Or.inl ⟨h1, h2, h3, h, h5, h6, h7⟩
    · have : x.off = t := by omega
      right
      subst this
      exact ⟨⟨h1, h2, h3, rfl, h5, h6⟩, h7⟩
  · rintro (⟨h1, h2, h3, h4, h5, h6, h7⟩ | ⟨⟨h1, h2, h3, h4, h5, h6⟩, h7⟩)
    · exact ⟨h1, h2, h3, by omega, h5, h6, h7⟩
    · subst h4
      exact ⟨h1, h2, h3, by omega, h5, h6, h7⟩

theorem inv_step {f : Nat → Int} {p t : Nat} {st : List Run × List Run} (h : Inv f p t st) :
    Inv f p (t + 1) (stepRow p t (f t) st) := by
  obtain ⟨A, D⟩ := st
  obtain ⟨hlen, hopn, hsome, hcls, hnd⟩ := h
  simp only at hlen hopn hsome hcls hnd
  unfold stepRow
  by_cases hv : f t = 0
  · -- the open run (if any) is closed
    simp only [hv, if_true]
    refine ⟨by simp, by simp, ?_, ?_, ?_⟩
    · intro _ h0; simp only [Nat.add_sub_cancel] at h0; exact absurd hv h0
    · intro x
      simp only [mem_append, closed_succ, hcls]
      constructor
      · rintro (hx | hx)
        · exact Or.inl hx
        · have ho := hopn x hx
          exact Or.inr ⟨ho, by rw [hv]; exact fun h0 => ho.2.1 h0.symm⟩
      · rintro (hx | ⟨ho, _⟩)
        · exact Or.inl hx
        · right
          have hne : A ≠ [] := by
            apply hsome (by have := ho.2.2.1; omega)
            rw [ho.2.2.2.2.1 (t - 1) (by have := ho.2.2.1; omega) (by have := ho.2.2.1; omega)]
            exact ho.2.1
          cases A with
          | nil => exact absurd rfl hne
          | cons a A' =>
            have : x = a := open_unique ho (hopn a (by simp))
            simp [this]
    · simp only
      rw [nodup_append]
      refine ⟨hnd, ?_, ?_⟩
      · cases A with
        | nil => simp
        | cons a A' =>
          cases A' with
          | nil => simp
          | cons b B => simp at hlen
      · intro x hx y hy hxy
        subst hxy
        have h1 := ((hcls x).mp hx).2.2.2.1
        have h2 := (hopn x hy).2.2.2.1
        omega
  · simp only [hv, if_false]
    cases A with
    | nil =>
      -- a new run starts
      simp only [head?_nil, nil_append]
      have hprev : t = 0 ∨ f (t - 1) = 0 := by
        by_contra hc
        rw [not_or] at hc
        exact hsome (by omega) hc.2 rfl
      refine ⟨by simp, ?_, by simp, ?_, hnd⟩
      · intro a ha
        simp only [mem_singleton] at ha
        subst ha
        refine ⟨rfl, hv, by simp [newRun], rfl, ?_, ?_⟩
        · intro s h1 h2
          simp only [newRun] at h1 h2 ⊢
          have : s = t := by omega
          rw [this]
        · simp only [newRun]
          rcases hprev with h0 | h0
          · exact Or.inl h0
          · right; rw [h0]; exact fun h => hv h.symm
      · intro x
        simp only [closed_succ, hcls]
        constructor
        · exact Or.inl
        · rintro (hx | ⟨ho, _⟩)
          · exact hx
          · exfalso
            have h3 := ho.2.2.1
            have := ho.2.2.2.2.1 (t - 1) (by omega) (by omega)
            rcases hprev with h0 | h0
            · omega
            · rw [h0] at this; exact ho.2.1 this.symm
    | cons a A' =>
      have hA' : A' = [] := by
        cases A' with
        | nil => rfl
        | cons b B => simp at hlen
      subst hA'
      have hoa := hopn a (by simp)
      simp only [head?_cons]
      by_cases hne : f t ≠ a.vel
      · -- the value changes: close `a`, open a new run
        rw [if_pos hne]
        refine ⟨by simp, ?_, by simp, ?_, ?_⟩
        · intro b hb
          simp only [mem_singleton] at hb
          subst hb
          refine ⟨rfl, hv, by simp [newRun], rfl, ?_, ?_⟩
          · intro s h1 h2
            simp only [newRun] at h1 h2 ⊢
            have : s = t := by omega
            rw [this]
          · simp only [newRun]
            right
            rw [hoa.2.2.2.2.1 (t - 1) (by have := hoa.2.2.1; omega) (by have := hoa.2.2.1; omega)]
            exact fun h => hne h.symm
        · intro x
          simp only [mem_append, mem_singleton, closed_succ, hcls]
          constructor
          · rintro (hx | hx)
            · exact Or.inl hx
            · subst hx; exact Or.inr ⟨hoa, hne⟩
          · rintro (hx | ⟨ho, _⟩)
            · exact Or.inl hx
            · exact Or.inr (open_unique ho hoa)
        · simp only
          rw [nodup_append]
          refine ⟨hnd, by simp, ?_⟩
          intro x hx y hy hxy
          simp only [mem_singleton] at hy
          subst hxy hy
          have h1 := ((hcls x).mp hx).2.2.2.1
          have h2 := hoa.2.2.2.1
          omega
      · -- same value: the open run grows
        have heq : f t = a.vel := by
          by_contra hc; exact hne hc
        rw [if_neg hne]
        refine ⟨by simp, ?_, by simp, ?_, hnd⟩
        · intro b hb
          simp only [map_cons, map_nil, mem_singleton] at hb
          subst hb
          obtain ⟨h1, h2, h3, h4, h5, h6⟩ := hoa
          refine ⟨h1, h2, by simp only [bump]; omega, by simp only [bump]; omega, ?_, h6⟩
          intro s hs1 hs2
          simp only [bump] at hs1 hs2 ⊢
          by_cases hst : s < t
          · exact h5 s hs1 hst
          · have : s = t := by omega
            rw [this, heq]
        · intro x
          simp only [closed_succ, hcls]
          constructor
          · exact Or.inl
          · rintro (hx | ⟨ho, hch⟩)
            · exact hx
            · exfalso
              have := open_unique ho hoa
              subst this
              exact hch heq

/-- the values of the row from time `t` on are `vs` -/
def RowFrom (f : Nat → Int) (t : Nat) (vs : List Int) : Prop := ∀ k, k < vs.length → vs[k]? = some (f (t + k))

theorem inv_fold {f : Nat → Int} {p : Nat} (vs : List Int) :
    ∀ (t : Nat) (st : List Run × List Run), Inv f p t st → RowFrom f t vs →
      Inv f p (t + vs.length) (rowFold p t vs st) := by
  induction vs with
  | nil => intro t st h _; simpa [rowFold] using h
  | cons v vs ih =>
    intro t st h hrow
    have hv : v = f t := by
      have := hrow 0 (by simp)
      simpa using this
    subst hv
    have hrow' : RowFrom f (t + 1) vs := by
      intro k hk
      have := hrow (k + 1) (by simp; omega)
      simp only [getElem?_cons_succ] at this
      rw [this]
      congr 2
      omega
    have := ih (t + 1) _ (inv_step h) hrow'
    simp only [rowFold, length_cons]
    have e : t + (vs.length + 1) = t + 1 + vs.length := by omega
    rw [e]
    exact this

theorem inv_init (f : Nat → Int) (p : Nat) : Inv f p 0 ([], []) :=
  ⟨by simp, by simp, by simp, by simp [Closed], by simp⟩

/-- a maximal run of a row of length `T` -/
def MaxRun (f : Nat → Int) (T : Nat) (x : Run) : Prop :=
  x.vel ≠ 0 ∧ x.on < x.off ∧ x.off ≤ T ∧ (∀ s, x.on ≤ s → s < x.off → f s = x.vel) ∧
    (x.on = 0 ∨ f (x.on - 1) ≠ x.vel) ∧ (x.off = T ∨ f x.off ≠ x.vel)

theorem inv_final {f : Nat → Int} {p T : Nat} {st : List Run × List Run} (h : Inv f p T st) :
    (st.2 ++ st.1).Nodup ∧ ∀ x, x ∈ st.2 ++ st.1 ↔ (x.pitch = p ∧ MaxRun f T x) := by
  obtain ⟨A, D⟩ := st
  obtain ⟨hlen, hopn, hsome, hcls, hnd⟩ := h
  simp only at hlen hopn hsome hcls hnd ⊢
  constructor
  · rw [nodup_append]
    refine ⟨hnd, ?_, ?_⟩
    · cases A with
      | nil => simp
      | cons a A' =>
        cases A' with
        | nil => simp
        | cons b B => simp at hlen
    · intro x hx y hy hxy
      subst hxy
      have h1 := ((hcls x).mp hx).2.2.2.1
      have h2 := (hopn x hy).2.2.2.1
      omega
  · intro x
    simp only [mem_append, hcls]
    constructor
    · rintro (⟨h1, h2, h3, h4, h5, h6, h7⟩ | hx)
      · exact ⟨h1, h2, h3, by omega, h5, h6, Or.inr h7⟩
      · obtain ⟨h1, h2, h3, h4, h5, h6⟩ := hopn x hx
        exact ⟨h1, h2, by omega, by omega, by rw [h4]; exact h5, h6, Or.inl h4⟩
    · rintro ⟨h1, h2, h3, h4, h5, h6, h7⟩
      by_cases hoff : x.off = T
      · right
        have ho : Open f p T x := ⟨h1, h2, by omega, hoff, by rw [← hoff]; exact h5, h6⟩
        have hne : A ≠ [] := by
          apply hsome (by omega)
          rw [h5 (T - 1) (by omega) (by omega)]
          exact h2
        cases A with
        | nil => exact absurd rfl hne
        | cons a A' =>
          have : x = a := open_unique ho (hopn a (by simp))
          simp [this]
      · left
        rcases h7 with h7 | h7
        · exact absurd h7 hoff
        · exact ⟨h1, h2, h3, by omega, h5, h6, h7⟩

/-! ### projecting the column-wise machine onto one pitch -/

def isP (p : Nat) (r : Run) : Bool := r.pitch == p

def proj (p : Nat) (st : List Run × List Run) : List Run × List Run :=
  (st.1.filter (isP p), st.2.filter (isP p))

/-- the non-zero branch of `stepRow` -/
def stepRowNZ (p t : Nat) (v : Int) (st : List Run × List Run) : List Run × List Run :=
  match st.1.head? with
  | none => (st.1 ++ [newRun p t v], st.2)
  | some r => if v ≠ r.vel then ([newRun p t v], st.2 ++ [r]) else (st.1.map bump, st.2)

theorem stepRow_nz {p t : Nat} {v : Int} (hv : v ≠ 0) (st : List Run × List Run) :
    stepRow p t v st = stepRowNZ p t v st := by
  unfold stepRow stepRowNZ
  rw [if_neg hv]

theorem filter_isP_of_ne {p q : Nat} (h : q ≠ p) (l : List Run) :
    (l.filter (fun x => x.pitch != q)).filter (isP p) = l.filter (isP p) := by
  rw [filter_filter]
  apply filter_congr
  intro x _
  by_cases hx : x.pitch = p
  · simp [isP, hx, Ne.symm h]
  · simp [isP, hx]

theorem filter_isP_same (p : Nat) (l : List Run) :
    (l.filter (fun x => x.pitch != p)).filter (isP p) = [] := by
  rw [filter_filter, filter_eq_nil_iff]
  intro x _
  simp only [isP, Bool.and_eq_true, beq_iff_eq, bne_iff_ne, ne_eq]
  intro hc
  exact hc.2 hc.1

theorem filter_isP_map_other {p q : Nat} (h : q ≠ p) (l : List Run) :
    (l.map (fun x => if x.pitch == q then { x with off := x.off + 1 } else x)).filter (isP p) = l.filter (isP p) := by
  induction l with
  | nil => rfl
  | cons a l ih =>
    simp only [map_cons, filter_cons, ih]
    by_cases ha : a.pitch = q
    · have hap : a.pitch ≠ p := by rw [ha]; exact h
      simp [isP, ha, hap, h]
    · simp [isP, ha]

theorem filter_isP_map_same (p : Nat) (l : List Run) :
    (l.map (fun x => if x.pitch == p then { x with off := x.off + 1 } else x)).filter (isP p) =
      (l.filter (isP p)).map bump := by
  induction l with
  | nil => rfl
  | cons a l ih =>
    simp only [map_cons, filter_cons, ih]
    by_cases ha : a.pitch = p
    · simp [isP, ha, bump]
    · simp [isP, ha]

theorem find_isP (p : Nat) (l : List Run) : l.find? (fun r => r.pitch == p) = (l.filter (isP p)).head? := by
  induction l with
  | nil => rfl
  | cons a l ih =>
    by_cases ha : a.pitch = p
    · simp [find?_cons, filter_cons, isP, ha]
    · have hb : (a.pitch == p) = false := by simpa using ha
      simp only [find?_cons, filter_cons, isP, hb, Bool.false_eq_true, if_false]
      exact ih

theorem proj_stepNote_other {p q : Nat} (h : q ≠ p) (t : Nat) (v : Int) (st : List Run × List Run) :
    proj p (stepNote t st (q, v)) = proj p st := by
  obtain ⟨act, done⟩ := st
  unfold stepNote proj
  simp only
  cases hf : act.find? (fun r => r.pitch == q) with
  | none =>
    simp only [filter_append, filter_cons, filter_nil, isP]
    have : ((q == p) = false) := by simpa using h
    simp [this]
  | some r =>
    have hr : r.pitch = q := by
      have := find?_some hf
      simpa using this
    simp only
    split
    · simp only [filter_append, filter_isP_of_ne h, filter_cons, filter_nil, isP, hr]
      have : ((q == p) = false) := by simpa using h
      simp [this]
    · simp only [filter_isP_map_other h]

theorem proj_stepNote_same (p t : Nat) (v : Int) (st : List Run × List Run) :
    proj p (stepNote t st (p, v)) = stepRowNZ p t v (proj p st) := by
  obtain ⟨act, done⟩ := st
  unfold stepNote proj stepRowNZ
  simp only
  rw [find_isP]
  cases hf : (act.filter (isP p)).head? with
  | none =>
    simp only [filter_append, filter_cons, filter_nil, isP, newRun, beq_self_eq_true, if_true]
  | some r =>
    have hr : r.pitch = p := by
      have hm : r ∈ act.filter (isP p) := mem_of_mem_head? hf
      have := (mem_filter.mp hm).2
      simpa [isP] using this
    simp only
    split
    · simp only [filter_append, filter_isP_same, filter_cons, filter_nil, isP, hr, newRun, beq_self_eq_true,
        if_true, nil_append]
    · simp only [filter_isP_map_same]

/-- folding `stepNote` over entries of other pitches leaves the projection alone -/
theorem proj_foldl_other {p t : Nat} (L : List (Nat × Int)) (hL : ∀ pv ∈ L, pv.1 ≠ p) (st : List Run × List Run) :
    proj p (L.foldl (stepNote t) st) = proj p st := by
  induction L generalizing st with
  | nil => rfl
  | cons pv L ih =>
    simp only [foldl_cons]
    rw [ih (fun x hx => hL x (by simp [hx]))]
    obtain ⟨q, v⟩ := pv
    exact proj_stepNote_other (hL (q, v) (by simp)) t v st

theorem proj_foldl_hit {p t : Nat} {v : Int} (L1 L2 : List (Nat × Int)) (h1 : ∀ pv ∈ L1, pv.1 ≠ p)
    (h2 : ∀ pv ∈ L2, pv.1 ≠ p) (st : List Run × List Run) :
    proj p ((L1 ++ (p, v) :: L2).foldl (stepNote t) st) = stepRowNZ p t v (proj p st) := by
  rw [foldl_append, foldl_cons, proj_foldl_other L2 h2, proj_stepNote_same, proj_foldl_other L1 h1]

/-! ### the active entries of a column -/

def valAt (col : List Int) (p : Nat) : Int := col[p]?.getD 0

theorem mem_enumCol {i : Nat} {col : List Int} {pv : Nat × Int} :
    pv ∈ activeOf.enumCol i col ↔ i ≤ pv.1 ∧ col[pv.1 - i]? = some pv.2 := by
  induction col generalizing i with
  | nil => simp [activeOf.enumCol]
  | cons a col ih =>
    simp only [activeOf.enumCol, mem_cons, ih]
    constructor
    · rintro (rfl | ⟨h1, h2⟩)
      · simp
      · refine ⟨by omega, ?_⟩
        have : pv.1 - i = (pv.1 - (i + 1)) + 1 := by omega
        rw [this, getElem?_cons_succ]
        exact h2
    · rintro ⟨h1, h2⟩
      by_cases he : pv.1 = i
      · left
        rw [he, Nat.sub_self, getElem?_cons_zero, Option.some.injEq] at h2
        exact Prod.ext he h2.symm
      · right
        refine ⟨by omega, ?_⟩
        have : pv.1 - i = (pv.1 - (i + 1)) + 1 := by omega
        rw [this, getElem?_cons_succ] at h2
        exact h2

theorem mem_activeOf {col : List Int} {pv : Nat × Int} :
    pv ∈ activeOf col ↔ col[pv.1]? = some pv.2 ∧ pv.2 ≠ 0 := by
  unfold activeOf
  rw [mem_filter, mem_enumCol]
  simp

/-- the entry of pitch `p` splits the active list; no other entry has that pitch -/
theorem enumCol_split {i p : Nat} {col : List Int} {v : Int} (hp : i ≤ p) (h : col[p - i]? = some v) :
    ∃ L1 L2, activeOf.enumCol i col = L1 ++ (p, v) :: L2 ∧ (∀ pv ∈ L1, pv.1 ≠ p) ∧ (∀ pv ∈ L2, pv.1 ≠ p) := by
  induction col generalizing i with
  | nil => simp at h
  | cons a col ih =>
    by_cases he : p = i
    · subst he
      rw [Nat.sub_self, getElem?_cons_zero, Option.some.injEq] at h
      subst h
      refine ⟨[], activeOf.enumCol (p + 1) col, by simp [activeOf.enumCol], by simp, ?_⟩
      intro pv hpv
      have := (mem_enumCol.mp hpv).1
      omega
    · have hsub : p - i = (p - (i + 1)) + 1 := by omega
      rw [hsub, getElem?_cons_succ] at h
      obtain ⟨L1, L2, e, h1, h2⟩ := ih (i := i + 1) (by omega) h
      refine ⟨(i, a) :: L1, L2, by simp [activeOf.enumCol, e], ?_, h2⟩
      intro pv hpv
      simp only [mem_cons] at hpv
      rcases hpv with rfl | hpv
      · exact fun hc => he hc.symm
      · exact h1 pv hpv

theorem activeOf_split {p : Nat} {col : List Int} (hv : valAt col p ≠ 0) :
    ∃ L1 L2, activeOf col = L1 ++ (p, valAt col p) :: L2 ∧ (∀ pv ∈ L1, pv.1 ≠ p) ∧ (∀ pv ∈ L2, pv.1 ≠ p) := by
  have hget : col[p]? = some (valAt col p) := by
    unfold valAt at hv ⊢
    cases hc : col[p]? with
    | none => simp [hc] at hv
    | some w => simp
  obtain ⟨L1, L2, e, h1, h2⟩ := enumCol_split (i := 0) (Nat.zero_le p) (by simpa using hget)
  refine ⟨L1.filter (fun pv => pv.2 != 0), L2.filter (fun pv => pv.2 != 0), ?_, ?_, ?_⟩
  · unfold activeOf
    rw [e, filter_append, filter_cons]
    simp [hv]
  · intro pv hpv; exact h1 pv (mem_filter.mp hpv).1
  · intro pv hpv; exact h2 pv (mem_filter.mp hpv).1

theorem activeOf_none {p : Nat} {col : List Int} (hv : valAt col p = 0) : ∀ pv ∈ activeOf col, pv.1 ≠ p := by
  intro pv hpv hc
  obtain ⟨h1, h2⟩ := mem_activeOf.mp hpv
  unfold valAt at hv
  rw [← hc, h1] at hv
  exact h2 (by simpa using hv)

theorem isActive_iff (col : List Int) (r : Run) :
    (activeOf col).any (fun pv => pv.1 == r.pitch) = true ↔ valAt col r.pitch ≠ 0 := by
  rw [any_eq_true]
  constructor
  · rintro ⟨pv, hpv, he⟩
    obtain ⟨h1, h2⟩ := mem_activeOf.mp hpv
    have he' : pv.1 = r.pitch := by simpa using he
    unfold valAt
    rw [← he', h1]
    simpa using h2
  · intro hv
    obtain ⟨L1, L2, e, _, _⟩ := activeOf_split hv
    exact ⟨(r.pitch, valAt col r.pitch), by rw [e]; simp, by simp⟩

/-- one time step of the whole machine is one step of every row machine -/
theorem proj_stepCol (p t : Nat) (col : List Int) (st : List Run × List Run) :
    proj p (stepCol st (t, col)) = stepRow p t (valAt col p) (proj p st) := by
  obtain ⟨act, done⟩ := st
  unfold stepCol
  simp only
  by_cases hv : valAt col p = 0
  · rw [proj_foldl_other _ (activeOf_none hv)]
    unfold stepRow proj
    simp only [hv, if_true, filter_append]
    have h1 : (act.filter fun r => (activeOf col).any (fun pv => pv.1 == r.pitch)).filter (isP p) = [] := by
      rw [filter_filter, filter_eq_nil_iff]
      intro x _
      simp only [Bool.and_eq_true, not_and]
      intro hx hact
      have hxp : x.pitch = p := by simpa [isP] using hx
      have := (isActive_iff col x).mp hact
      rw [hxp] at this
      exact this hv
    have h2 : (act.filter fun r => !(activeOf col).any (fun pv => pv.1 == r.pitch)).filter (isP p) = act.filter (isP p) := by
      rw [filter_filter]
      apply filter_congr
      intro x _
      by_cases hx : isP p x = true
      · have hxp : x.pitch = p := by simpa [isP] using hx
        have : (activeOf col).any (fun pv => pv.1 == x.pitch) = false := by
          rw [Bool.eq_false_iff]
          intro hact
          have := (isActive_iff col x).mp hact
          rw [hxp] at this
          exact this hv
        simp [hx, this]
      · simp [hx]
    rw [h1, h2]
  · obtain ⟨L1, L2, e, hL1, hL2⟩ := activeOf_split hv
    rw [e, proj_foldl_hit L1 L2 hL1 hL2, stepRow_nz hv, ← e]
    congr 1
    unfold proj
    simp only [filter_append]
    have h1 : (act.filter fun r => (activeOf col).any (fun pv => pv.1 == r.pitch)).filter (isP p) = act.filter (isP p) := by
      rw [filter_filter]
      apply filter_congr
      intro x _
      by_cases hx : isP p x = true
      · have hxp : x.pitch = p := by simpa [isP] using hx
        have : (activeOf col).any (fun pv => pv.1 == x.pitch) = true := by
          rw [isActive_iff, hxp]; exact hv
        simp [hx, this]
      · simp [hx]
    have h2 : (act.filter fun r => !(activeOf col).any (fun pv => pv.1 == r.pitch)).filter (isP p) = [] := by
      rw [filter_filter, filter_eq_nil_iff]
      intro x _
      simp only [Bool.and_eq_true, not_and]
      intro hx
      have hxp : x.pitch = p := by simpa [isP] using hx
      have : (activeOf col).any (fun pv => pv.1 == x.pitch) = true := by
        rw [isActive_iff, hxp]; exact hv
      simp [this]
    rw [h1, h2, append_nil]

theorem proj_foldl_cols (p : Nat) (cols : List (List Int)) :
    ∀ (i : Nat) (st : List Run × List Run),
      proj p ((enumCols i cols).foldl stepCol st) = rowFold p i (cols.map (valAt · p)) (proj p st) := by
  induction cols with
  | nil => intro i st; rfl
  | cons c cols ih =>
    intro i st
    simp only [enumCols, foldl_cons, map_cons, rowFold]
    rw [ih, proj_stepCol]

/-! ### the decoder emits exactly the maximal runs -/

/-- `pianoroll[p, t]` of a matrix given by its columns (0 outside) -/
def cellAt (cols : List (List Int)) (p t : Nat) : Int :=
  match cols[t]? with
  | some c => valAt c p
  | none => 0

theorem rowFrom_cols (p : Nat) (cols : List (List Int)) :
    RowFrom (cellAt cols p) 0 (cols.map (valAt · p)) := by
  intro k hk
  simp only [length_map] at hk
  simp only [getElem?_map, Nat.zero_add, cellAt]
  rw [getElem?_eq_getElem hk]
  rfl

theorem runLe_iff (a b : Run) : runLe a b = true ↔
    (a.on < b.on ∨ (a.on = b.on ∧ (a.pitch < b.pitch ∨ (a.pitch = b.pitch ∧
      (a.off < b.off ∨ (a.off = b.off ∧ a.vel ≤ b.vel)))))) := by
  unfold runLe
  by_cases h1 : a.on = b.on <;> by_cases h2 : a.pitch = b.pitch <;> by_cases h3 : a.off = b.off <;>
    simp [h1, h2, h3]

theorem totalPre_runLe : TotalPre runLe where
  total a b := by
    rw [runLe_iff, runLe_iff]; omega
  trans a b c := by
    rw [runLe_iff, runLe_iff, runLe_iff]; omega

/-- the state reached after all columns -/
def finalState (cols : List (List Int)) : List Run × List Run := (enumCols 0 cols).foldl stepCol ([], [])

theorem decodeRuns_eq (cols : List (List Int)) :
    decodeRuns cols = sortRuns ((finalState cols).2 ++ (finalState cols).1) := by
  unfold decodeRuns finalState
  rfl

theorem final_proj (cols : List (List Int)) (p : Nat) :
    (((finalState cols).2 ++ (finalState cols).1).filter (isP p)).Nodup ∧
    ∀ x, x ∈ ((finalState cols).2 ++ (finalState cols).1).filter (isP p) ↔
      (x.pitch = p ∧ MaxRun (cellAt cols p) cols.length x) := by
  have hproj := proj_foldl_cols p cols 0 ([], [])
  have hinv := inv_fold (f := cellAt cols p) (p := p) (cols.map (valAt · p)) 0 ([], [])
    (inv_init _ _) (rowFrom_cols p cols)
  have hp0 : proj p ([], []) = ([], []) := rfl
  rw [hp0] at hproj
  rw [← hproj] at hinv
  simp only [length_map, Nat.zero_add] at hinv
  have := inv_final hinv
  simp only [proj] at this
  rw [filter_append]
  exact this

/-- **decoder correctness, any matrix**: the decoded runs are without repetition, sorted by
    (onset, pitch, offset, velocity), and are exactly the maximal horizontal runs of one non-zero value -/
theorem decodeRuns_spec (cols : List (List Int)) :
    (decodeRuns cols).Nodup ∧ (decodeRuns cols).Pairwise (fun a b => runLe a b = true) ∧
    ∀ x, x ∈ decodeRuns cols ↔ MaxRun (cellAt cols x.pitch) cols.length x := by
  rw [decodeRuns_eq]
  set l := (finalState cols).2 ++ (finalState cols).1 with hl
  have hperm : sortRuns l ~ l := sortBy_perm runLe l
  refine ⟨?_, sortBy_pairwise totalPre_runLe l, ?_⟩
  · rw [hperm.nodup_iff, nodup_iff_count]
    intro a
    have h1 : count a (l.filter (isP a.pitch)) = count a l := count_filter (by simp [isP])
    rw [← h1]
    exact nodup_iff_count.mp (final_proj cols a.pitch).1 a
  · intro x
    rw [hperm.mem_iff]
    have h1 : x ∈ l ↔ x ∈ l.filter (isP x.pitch) := by
      rw [mem_filter]; simp [isP]
    rw [h1, (final_proj cols x.pitch).2 x]
    simp

end C13
