/-
C04 — the importer: the notes handed to `create_part`, over all parts, are exactly the notes paired
in the tracks of the file (for every file and every mode for which `load_score_midi` returns).
-/
import Mathlib.Data.List.Perm.Basic
import Mathlib.Data.List.Forall2
import PartituraModel.Proofs.C04Group
import PartituraModel.Proofs.C04Modes
import PartituraModel.Proofs.C04Export
import PartituraModel.Model.ScoreMidi
import Mathlib.Tactic.FieldSimp
import Mathlib.Tactic.Ring

namespace C04I
open Model Model.Ticks Model.MidiPair Model.MidiModes Model.ScoreMidi

-- ------------------------------------------------------------------ `sorted(notes_by_track_ch.keys())`

def ltTC (a b : Nat × Nat) : Prop := a.1 < b.1 ∨ (a.1 = b.1 ∧ a.2 < b.2)

theorem ltTC_trans {a b c : Nat × Nat} (h1 : ltTC a b) (h2 : ltTC b c) : ltTC a c := by
  unfold ltTC at *
  omega

theorem ltTC_tri (a b : Nat × Nat) (h1 : ¬ ltTC a b) (h2 : a ≠ b) : ltTC b a := by
  unfold ltTC at *
  have : a.1 ≠ b.1 ∨ a.2 ≠ b.2 := by
    by_contra hc
    simp only [not_or, ne_eq, not_not] at hc
    exact h2 (Prod.ext hc.1 hc.2)
  omega

theorem insertTC_sorted (k : Nat × Nat) (l : List (Nat × Nat)) (h : l.Pairwise ltTC) : (insertTC k l).Pairwise ltTC := by
  induction l with
  | nil => simp [insertTC]
  | cons a as ih =>
    obtain ⟨h1, h2⟩ := List.pairwise_cons.mp h
    unfold insertTC
    by_cases hlt : k.1 < a.1 ∨ (k.1 = a.1 ∧ k.2 < a.2)
    · rw [if_pos hlt]
      refine List.pairwise_cons.mpr ⟨?_, h⟩
      intro x hx
      rcases List.mem_cons.mp hx with rfl | hx
      · exact hlt
      · exact ltTC_trans hlt (h1 x hx)
    · rw [if_neg hlt]
      by_cases heq : k = a
      · rw [if_pos heq]; exact h
      · rw [if_neg heq]
        refine List.pairwise_cons.mpr ⟨?_, ih h2⟩
        intro x hx
        rcases (C04M.mem_insertTC k x as).mp hx with rfl | hx
        · exact ltTC_tri _ _ hlt heq
        · exact h1 x hx

theorem sortedTC_sorted (l : List (Nat × Nat)) : (sortedTC l).Pairwise ltTC := by
  induction l with
  | nil => simp [sortedTC]
  | cons a as ih => exact insertTC_sorted a _ ih

theorem sortedTC_nodup (l : List (Nat × Nat)) : (sortedTC l).Nodup := by
  refine (sortedTC_sorted l).imp ?_
  intro a b h hab
  subst hab
  unfold ltTC at h
  omega

-- ------------------------------------------------------------------ small list facts

theorem flatMap_filter_nonempty {α β : Type} (f : α → List β) (l : List α) :
    (l.filter fun e => !(f e).isEmpty).flatMap f = l.flatMap f := by
  induction l with
  | nil => rfl
  | cons x xs ih =>
    by_cases hx : (f x).isEmpty = true
    · rw [List.filter_cons_of_neg (by simp [hx]), List.flatMap_cons, ih, List.isEmpty_iff.mp hx, List.nil_append]
    · rw [List.filter_cons_of_pos (by simpa using hx), List.flatMap_cons, List.flatMap_cons, ih]

theorem zip_map_fst {α β : Type} (l : List α) (r : List β) (h : l.length = r.length) : (l.zip r).map (·.1) = l := by
  induction l generalizing r with
  | nil => simp
  | cons a as ih =>
    cases r with
    | nil => simp at h
    | cons b bs => simp [ih bs (by simpa using h)]

theorem zip_map_snd {α β : Type} (l : List α) (r : List β) (h : l.length = r.length) : (l.zip r).map (·.2) = r := by
  induction l generalizing r with
  | nil => cases r <;> simp at h ⊢
  | cons a as ih =>
    cases r with
    | nil => simp at h
    | cons b bs => simp [ih bs (by simpa using h)]

-- ------------------------------------------------------------------ the notes of all parts

/-- what `create_part` receives of a note, without the voice -/
def strip (n : Int × Nat × Int × Int) : Int × Nat × Int := (n.1, n.2.1, n.2.2.1)

/-- (onset, pitch, duration) of a paired note -/
def noteRow (n : NoteRec) : Int × Nat × Int := (n.on, n.pitch, n.off - n.on)

theorem byTrCh_notes (withNotes : List TrackRead) :
    ((notesByTrCh withNotes).flatMap (·.2)).Perm (withNotes.flatMap (·.2.1)) := by
  unfold notesByTrCh
  rw [List.flatMap_assoc]
  apply List.Perm.flatMap_left
  intro e _
  rw [List.flatMap_map, C04G.channelsOf_eq]
  exact C04G.firstSeen_group_perm (fun n : NoteRec => n.ch) e.2.1

theorem cellNotes_strip (byTrCh : List ((Nat × Nat) × List NoteRec)) (cells : List ((Nat × Nat) × Cell)) :
    (cellNotes byTrCh cells).map strip =
      cells.flatMap fun e => ((byTrCh.filter (fun x => x.1 = e.1)).flatMap (·.2)).map noteRow := by
  unfold cellNotes
  rw [List.map_flatMap]
  apply List.flatMap_congr
  intro e _
  rw [List.map_map]
  rfl

theorem zipIdx_pairs (tracks : List (List (Int × Msg))) (k : Nat) :
    ((tracks.zipIdx k).flatMap fun a : List (Int × Msg) × Nat => (pairAbs (absoluteFrom 0 a.1)).map noteRow) =
      tracks.flatMap fun tr => (pairTrack tr).map noteRow := by
  induction tracks generalizing k with
  | nil => rfl
  | cons t ts ih =>
    rw [List.zipIdx_cons, List.flatMap_cons, List.flatMap_cons, ih (k + 1)]
    rfl

theorem load_inv (mode ticks : Nat) (tracks : List (List (Int × Msg))) (imp : Imported)
    (h : loadScoreMidi mode ticks tracks = some imp) :
    let byTrCh := notesByTrCh ((readTracks tracks).filter fun e => !e.2.1.isEmpty)
    let trch := sortedTC (byTrCh.map (·.1))
    let gpv := assignGroupPartVoice mode trch
    (firstSeen (gpv.map (·.2.1))).mapM (importPart ticks byTrCh trch gpv (sigTables (readTracks tracks))) = some imp.parts ∧
    imp.tempos = (readTracks tracks).flatMap (fun e => e.2.2.2.2) := by
  unfold loadScoreMidi at h
  intro byTrCh trch gpv
  dsimp only at h
  split at h
  · exact absurd h (by simp)
  · simp only [Option.map_eq_some_iff] at h
    obtain ⟨parts, hp, rfl⟩ := h
    exact ⟨hp, rfl⟩

/-- the notes of all imported parts are the notes paired in all tracks -/
theorem import_notes (mode ticks : Nat) (tracks : List (List (Int × Msg))) (imp : Imported)
    (h : loadScoreMidi mode ticks tracks = some imp) :
    (imp.parts.flatMap fun e => e.2.notes.map strip).Perm (tracks.flatMap fun tr => (pairTrack tr).map noteRow) ∧
    ∀ e ∈ imp.parts, e.2.divs = ticks := by
  obtain ⟨hp, _⟩ := load_inv mode ticks tracks imp h
  generalize hby : notesByTrCh ((readTracks tracks).filter fun e => !e.2.1.isEmpty) = byTrCh at hp
  generalize htr : sortedTC (byTrCh.map (·.1)) = trch at hp
  generalize hg : assignGroupPartVoice mode trch = gpv at hp
  have hlen : trch.length = gpv.length := by rw [← hg]; exact (C04M.assign_length mode trch).symm
  have hf := C04E.mapM_some _ _ _ hp
  constructor
  · -- part after part: the cells of the part
    have e1 : (imp.parts.flatMap fun e => e.2.notes.map strip) =
        (firstSeen (gpv.map (·.2.1))).flatMap fun q => (cellNotes byTrCh (cellsOf trch gpv q)).map strip := by
      symm
      apply C04E.forall₂_flatMap_eq hf
      intro q e hqe
      cases q with
      | none => simp [importPart] at hqe
      | some pid =>
        simp only [importPart, Option.some.injEq] at hqe
        subst hqe
        rfl
    rw [e1]
    simp only [cellNotes_strip, cellsOf]
    rw [← List.flatMap_assoc]
    have hz : (trch.zip gpv).map (fun e => e.2.2.1) = gpv.map (·.2.1) := by
      rw [← zip_map_snd trch gpv hlen, List.map_map, zip_map_snd trch gpv hlen]
      rfl
    have g1 := C04G.firstSeen_group_perm (fun e : (Nat × Nat) × Cell => e.2.2.1) (trch.zip gpv)
    rw [hz] at g1
    refine (g1.flatMap_right _).trans ?_
    -- cell after cell: the notes stored under its (track, channel)
    have e2 : ((trch.zip gpv).flatMap fun e => ((byTrCh.filter (fun x => x.1 = e.1)).flatMap (·.2)).map noteRow) =
        (trch.flatMap fun k => byTrCh.filter (fun x => x.1 = k)).flatMap fun x => x.2.map noteRow := by
      conv_rhs => rw [← zip_map_fst trch gpv hlen]
      rw [List.flatMap_map, List.flatMap_assoc]
      apply List.flatMap_congr
      intro e _
      rw [List.map_flatMap]
    rw [e2]
    have g2 := C04G.group_perm_all (fun x : (Nat × Nat) × List NoteRec => x.1) trch (htr ▸ sortedTC_nodup _) byTrCh (by
      intro x hx
      rw [← htr]
      exact (C04M.mem_sortedTC _ _).mpr (List.mem_map.mpr ⟨x, hx, rfl⟩))
    refine (g2.flatMap_right _).trans ?_
    -- channel after channel: the notes of the track
    have e3 : (byTrCh.flatMap fun x => x.2.map noteRow) = (byTrCh.flatMap (·.2)).map noteRow := by
      rw [List.map_flatMap]
    rw [e3, ← hby]
    refine ((byTrCh_notes _).map noteRow).trans (List.Perm.of_eq ?_)
    rw [flatMap_filter_nonempty (fun e : TrackRead => e.2.1), List.map_flatMap]
    unfold readTracks
    rw [List.flatMap_map]
    exact zipIdx_pairs tracks 0
  · intro e he
    obtain ⟨q, _, hq⟩ := C04E.forall₂_mem_right hf e he
    cases q with
    | none => simp [importPart] at hq
    | some pid =>
      simp only [importPart, Option.some.injEq] at hq
      subst hq
      rfl

-- ------------------------------------------------------------------ musical time

/-- ticks to musical time: divide by the quarter duration of the created part, add the origin -/
def toMusical (P : Nat) (o : Rat) (r : Int × Nat × Int) : Rat × Rat × Nat :=
  ((r.1 : Rat) / (P : Rat) + o, (r.2.2 : Rat) / (P : Rat), r.2.1)

theorem importedRows_eq (o : Rat) (imp : Imported) (P : Nat) (hd : ∀ e ∈ imp.parts, e.2.divs = P) :
    importedRows o imp = (imp.parts.flatMap fun e => e.2.notes.map strip).map (toMusical P o) := by
  unfold importedRows
  rw [List.map_flatMap]
  apply List.flatMap_congr
  intro e he
  rw [List.map_map]
  apply List.map_congr_left
  intro n _
  simp only [Function.comp, toMusical, strip, placeNote, hd e he]
  congr 2
  push_cast
  ring

theorem writtenRows_musical (P : Nat) (o : Rat) (parts : List PartIn) (hP : 0 < P)
    (hex : ∀ x ∈ parts, ∀ t, ((tick P x.base o t : Int) : Rat) = (P : Rat) * (quarter x.base t - o)) :
    (writtenRows P o parts).map (toMusical P o) = scoreRows parts := by
  unfold writtenRows scoreRows
  rw [List.map_flatMap]
  apply List.flatMap_congr
  intro x hx
  rw [List.map_map]
  apply List.map_congr_left
  intro n _
  have hP' : (P : Rat) ≠ 0 := by exact_mod_cast (Nat.pos_iff_ne_zero.mp hP)
  simp only [Function.comp, toMusical]
  rw [Int.cast_sub, hex x hx, hex x hx]
  refine Prod.ext ?_ (Prod.ext ?_ rfl)
  · simp only
    field_simp
    ring
  · simp only
    field_simp
    ring

end C04I
