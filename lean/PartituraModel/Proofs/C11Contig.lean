/-
C11 (round 5) — what stage 1 of `tie_notes` keeps of every tie LINK of the list: any relation between the end, pitch,
voice and staff of a note and the start, pitch, voice and staff of the note it is tied to that holds for adjacent copies
— in particular "the next note starts where this one ends" (contiguity) and "same pitch, voice and staff".
With it `sanitize_part`'s tie check is discharged for the OUTPUT of `tie_notes`, not assumed.
-/
import PartituraModel.Proofs.C11Sound

namespace C11Contig
open Model Model.Dur Model.Meas C11Tie C11Walk C11Rows

/-- what a link relation may read of the two notes -/
abbrev Face := Nat × String × Option Int × Option Int

def outFace (n : Note) : Face := (n.stop, n.pitch, n.voice, n.staff)
def inFace (n : Note) : Face := (n.start, n.pitch, n.voice, n.staff)

/-- every tie link of the list (found by key, as the model follows links) satisfies `P` -/
def LinkRel (P : Face → Face → Prop) (ns : List Note) : Prop :=
  ∀ x n t nx, lk ns x = some n → n.tieNext = some t → lk ns t = some nx → P (outFace n) (inFace nx)

/-- no note ends before it starts -/
def NonNeg (ns : List Note) : Prop := ∀ x n, lk ns x = some n → n.start ≤ n.stop

theorem ptiles_pos : ∀ (ps : List (Nat × Nat × Option Est)) (s e : Nat), PTiles s e ps → ∀ p ∈ ps, p.1 < p.2.1 := by
  intro ps
  induction ps with
  | nil => intro s e _ p hp; simp at hp
  | cons q rest ih =>
    intro s e h p hp
    obtain ⟨l, r, x⟩ := q
    obtain ⟨_, h2, h3⟩ := (ptiles_cons ..).mp h
    rcases List.mem_cons.mp hp with rfl | hp
    · exact h2
    · exact ih r e h3 p hp

/-- every member of a linked chain is the last one or is tied to a later member that starts where it ends -/
theorem linked_next_adj : ∀ (c : List Note) (a : Note), Linked (a :: c) → ∀ m ∈ a :: c,
    (a :: c).getLast? = some m ∨ ∃ b ∈ c, m.tieNext = some b.key ∧ b.start = m.stop := by
  intro c
  induction c with
  | nil =>
    intro a _ m hm
    simp only [List.mem_cons, List.not_mem_nil, or_false] at hm
    subst hm; left; rfl
  | cons b rest ih =>
    intro a h m hm
    obtain ⟨h1, h2, _, h4⟩ := (linked_cons2 a b rest).mp h
    rcases List.mem_cons.mp hm with rfl | hm
    · right; exact ⟨b, List.mem_cons_self, h2, h1.symm⟩
    · rcases ih b h4 m hm with h5 | ⟨b', hb', h6, h7⟩
      · left; rw [List.getLast?_cons_cons]; exact h5
      · right; exact ⟨b', List.mem_cons_of_mem _ hb', h6, h7⟩

theorem upTo_out {n n' : Note} (h : UpTo n n') : outFace n' = outFace n := by
  obtain ⟨_, _, h3, _, h5, h6, h7, _⟩ := h
  unfold outFace; rw [h3, h5, h6, h7]

theorem upTo_in {n n' : Note} (h : UpTo n n') : inFace n' = inFace n := by
  obtain ⟨_, h2, _, _, h5, h6, h7, _⟩ := h
  unfold inFace; rw [h2, h5, h6, h7]

/-- **installing a chain keeps every link relation that adjacent copies satisfy** -/
theorem install_links (P : Face → Face → Prop) (hP : ∀ f, P f f)
    (ns : List Note) (orig : Note) (base : Nat) (ps : List (Nat × Nat × Option Est))
    (hk : lk ns orig.key = some orig) (hlinks : LinksOK ns) (hbase : freshKey ns ≤ base) (hne : ps ≠ [])
    (ht : PTiles orig.start orig.stop ps) (hnn : NonNeg ns) (hrel : LinkRel P ns) :
    NonNeg (installChain ns orig (mkChain orig base ps)) ∧ LinkRel P (installChain ns orig (mkChain orig base ps)) := by
  have sp := chainFrom_spec orig base ps 0 orig.tiePrev orig.key orig.id orig.start orig.stop hne ht
  have hkeys := chainFrom_keys orig base ps 0 orig.tiePrev orig.key orig.id hne
  obtain ⟨first, more, hc, hfs, hfk, _, _⟩ := sp.head
  have hc' : mkChain orig base ps = first :: more := hc
  rw [hc']
  rw [hc, List.map_cons] at hkeys
  have hmk : more.map (·.key) = (List.range (ps.length - 1)).map (fun j => base + 0 + j) := (List.cons.inj hkeys).2
  have hnd : (more.map (·.key)).Nodup := by
    rw [hmk]
    exact List.Nodup.map (f := fun j => base + 0 + j) (by intro a b h; simp only at h; omega) List.nodup_range
  have hge : ∀ m ∈ more, base ≤ m.key := by
    intro m hm
    have : m.key ∈ more.map (·.key) := List.mem_map.mpr ⟨m, hm, rfl⟩
    rw [hmk] at this
    obtain ⟨j, _, hj⟩ := List.mem_map.mp this
    omega
  obtain ⟨r, hr, hlk⟩ := lk_install ns orig first more hfk (fun m hm => Nat.le_trans hbase (hge m hm)) hnd
  have hold : ∀ x n, lk ns x = some n → more.find? (fun (m : Note) => decide (m.key = x)) = none := by
    intro x n hn
    obtain ⟨h1, h2⟩ := lk_some ns x n hn
    have := freshKey_gt ns n h2
    rw [List.find?_eq_none]
    intro m hm hcm
    simp only [decide_eq_true_eq] at hcm
    have := hge m hm
    omega
  have hlinked : Linked (first :: more) := by rw [← hc]; exact sp.linked
  obtain ⟨lastN, hl1, hl2, hl3, _⟩ := sp.last
  rw [hc] at hl1
  have hsame : ∀ m ∈ first :: more, m.pitch = orig.pitch ∧ m.voice = orig.voice ∧ m.staff = orig.staff := by
    intro m hm; exact sp.same m (by rw [hc]; exact hm)
  have hpos : ∀ m ∈ first :: more, m.start < m.stop := by
    intro m hm
    have hb := sp.bounds
    rw [hc] at hb
    have : (m.start, m.stop, m.sym) ∈ ps := by
      rw [← hb]; exact List.mem_map.mpr ⟨m, hm, rfl⟩
    exact ptiles_pos ps _ _ ht _ this
  -- the note found under a key in the new list: `r` of a chain member, or of an old note other than `orig`
  have hcases : ∀ x n', lk (installChain ns orig (first :: more)) x = some n' →
      ∃ m, UpTo m n' ∧ (m ∈ first :: more ∨ (lk ns x = some m ∧ m.key ≠ orig.key)) := by
    intro x n' hx
    rw [hlk] at hx
    cases hf : more.find? (fun (m : Note) => decide (m.key = x)) with
    | some m =>
      rw [hf] at hx
      simp only [Option.map_some, Option.some.injEq] at hx
      subst hx
      exact ⟨m, hr m, Or.inl (List.mem_cons_of_mem _ (List.mem_of_find?_eq_some hf))⟩
    | none =>
      rw [hf] at hx
      cases hn : lk ns x with
      | none => rw [hn] at hx; simp at hx
      | some n0 =>
        rw [hn] at hx
        simp only [Option.map_some, Option.some.injEq] at hx
        subst hx
        by_cases hk0 : n0.key = orig.key
        · simp only [hk0, if_true]
          exact ⟨first, hr first, Or.inl List.mem_cons_self⟩
        · simp only [hk0, if_false]
          exact ⟨n0, hr n0, Or.inr ⟨rfl, hk0⟩⟩
  -- the note an OLD key leads to in the new list shows the same face as in the old list
  have htarget : ∀ t nx0 nx', lk ns t = some nx0 → lk (installChain ns orig (first :: more)) t = some nx' →
      inFace nx' = inFace nx0 := by
    intro t nx0 nx' h0 h'
    rw [hlk, hold t nx0 h0, h0] at h'
    simp only [Option.map_some, Option.some.injEq] at h'
    subst h'
    by_cases hk0 : nx0.key = orig.key
    · simp only [hk0, if_true]
      rw [upTo_in (hr first)]
      have : nx0 = orig := by
        have h1 := (lk_some ns t nx0 h0).1
        rw [← h1, hk0, hk] at h0
        exact (Option.some.inj h0).symm
      subst this
      obtain ⟨s1, s2, s3⟩ := hsame first List.mem_cons_self
      unfold inFace; rw [hfs, s1, s2, s3]
    · simp only [hk0, if_false]
      exact upTo_in (hr nx0)
  constructor
  · intro x n' hx
    obtain ⟨m, hu, hm⟩ := hcases x n' hx
    obtain ⟨_, h2, h3, _⟩ := hu
    rw [h2, h3]
    rcases hm with hm | ⟨hm, _⟩
    · exact Nat.le_of_lt (hpos m hm)
    · exact hnn x m hm
  · intro x n' t nx' hx htn ht'
    obtain ⟨m, hu, hm⟩ := hcases x n' hx
    rw [upTo_out hu]
    have htn' : m.tieNext = some t := by rw [← hu.2.2.2.1]; exact htn
    rcases hm with hm | ⟨hm, _⟩
    · -- a chain member
      obtain ⟨s1, s2, s3⟩ := hsame m hm
      rcases linked_next_adj more first hlinked m hm with hl | ⟨b, hb, hmb, hadj⟩
      · rw [hl1] at hl
        have : lastN = m := Option.some.inj hl
        subst this
        rw [hl3] at htn'
        obtain ⟨nx0, hnx0, _⟩ := hlinks orig (lk_some ns _ _ hk).2 t htn'
        rw [htarget t nx0 nx' hnx0 ht']
        have := hrel orig.key orig t nx0 hk htn' hnx0
        have hface : outFace lastN = outFace orig := by unfold outFace; rw [hl2, s1, s2, s3]
        rw [hface]; exact this
      · rw [hmb] at htn'
        have hbt : b.key = t := Option.some.inj htn'
        subst hbt
        have hb' : lk (installChain ns orig (first :: more)) b.key = some (r b) := by
          rw [hlk, find_self more hnd b hb]; rfl
        rw [hb'] at ht'
        have : nx' = r b := (Option.some.inj ht').symm
        subst this
        rw [upTo_in (hr b)]
        obtain ⟨b1, b2, b3⟩ := hsame b (List.mem_cons_of_mem _ hb)
        have : inFace b = outFace m := by unfold inFace outFace; rw [hadj, b1, b2, b3, s1, s2, s3]
        rw [this]; exact hP _
    · -- an old note
      obtain ⟨nx0, hnx0, _⟩ := hlinks m (lk_some ns _ _ hm).2 t htn'
      rw [htarget t nx0 nx' hnx0 ht']
      exact hrel x m t nx0 hm htn' hnx0

theorem tieOne_links (P : Face → Face → Prop) (hP : ∀ f, P f f) (qd : List (Int × Nat)) (ms : List Nat) (ns : List Note)
    (k : Nat) (hlinks : LinksOK ns) (hnn : NonNeg ns) (hrel : LinkRel P ns) :
    NonNeg (tieOne qd ms ns k) ∧ LinkRel P (tieOne qd ms ns k) := by
  unfold tieOne
  cases hn : ns.find? (·.key = k) with
  | none => exact ⟨hnn, hrel⟩
  | some note =>
    simp only
    cases hcut : cutPoints note.start note.stop ms with
    | nil => exact ⟨hnn, hrel⟩
    | cons c cs =>
      simp only
      have hlt := cutPoints_cons_lt ms note.start note.stop c cs hcut
      have hkk : note.key = k := (lk_some ns k note hn).1
      have hk : lk ns note.key = some note := by rw [hkk]; exact hn
      have ht := cutPoints_tiles (fun b => some (estimateI (b.2 - b.1) (quarterAt qd b.1))) ms note.start note.stop hlt
      rw [hcut] at ht
      have hne : (pieceBounds note.start note.stop (c :: cs)).map
          (fun b => (b.1, b.2, some (estimateI (b.2 - b.1) (quarterAt qd b.1)))) ≠ [] := by
        intro h; rw [h] at ht
        have : note.start = note.stop := ht
        omega
      exact install_links P hP ns note (freshKey ns) _ hk hlinks (Nat.le_refl _) hne ht hnn hrel

/-- **stage 1 of `tie_notes` keeps every link relation that adjacent copies satisfy** (for lists with distinct keys
    whose ties point at notes with a back link) -/
theorem tieStage1_links (P : Face → Face → Prop) (hP : ∀ f, P f f) (qd : List (Int × Nat)) (ms : List Nat)
    (ns : List Note) (hkeys : KeysOK ns) (hlinks : LinksOK ns) (hnn : NonNeg ns) (hrel : LinkRel P ns) :
    NonNeg (tieStage1 qd ms ns) ∧ LinkRel P (tieStage1 qd ms ns) := by
  unfold tieStage1
  generalize ns.map (·.key) = ks
  induction ks generalizing ns with
  | nil => exact ⟨hnn, hrel⟩
  | cons k ks ih =>
    rw [List.foldl_cons]
    obtain ⟨_, a2, a3⟩ := tieOne_rows qd ms ns k hkeys hlinks
    obtain ⟨b1, b2⟩ := tieOne_links P hP qd ms ns k hlinks hnn hrel
    exact ih (tieOne qd ms ns k) a2 a3 b1 b2

/-- the next note starts where this one ends -/
def adjP : Face → Face → Prop := fun a b => b.1 = a.1

/-- … and has the same pitch, voice and staff -/
def sameP : Face → Face → Prop := fun a b => b = a

/-- `ContigAll` (Proofs/C11Walk.lean) in terms of the lookups -/
theorem contigAll_iff (ns : List Note) (hkeys : KeysOK ns) : ContigAll ns ↔ NonNeg ns ∧ LinkRel adjP ns := by
  constructor
  · intro h
    refine ⟨fun x n hn => (h n (lk_some ns x n hn).2).1, ?_⟩
    intro x n t nx hn ht hx
    exact (h n (lk_some ns x n hn).2).2 t nx ht hx
  · rintro ⟨h1, h2⟩ n hn
    have hl := lk_self ns hkeys n hn
    exact ⟨h1 _ n hl, fun t nx ht hx => h2 n.key n t nx hl ht hx⟩

end C11Contig
