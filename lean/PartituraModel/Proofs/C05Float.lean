/-
Helper lemmas for C05 (round 2): `f32round` (Model/NoteArrayMaps.lean) is a correct rounding to 24
significant bits: `pow2` is the integer power of two, `expOf` the binary exponent, the result lies within
half a unit in the last place and is a multiple of that unit.
-/
import PartituraModel.Model.NoteArrayMaps
import PartituraModel.Proofs.Round
import Mathlib.Algebra.Order.Field.Rat
import Mathlib.Algebra.Order.Field.Power
import Mathlib.Tactic.Linarith
import Mathlib.Tactic.Positivity
import Mathlib.Tactic.FieldSimp
import Mathlib.Tactic.Ring
import Mathlib.Tactic.NormNum

namespace NoteArray
open Model

theorem pow2_eq_zpow (s : Int) : pow2 s = (2 : Rat) ^ s := by
  unfold pow2
  split
  · rename_i h
    obtain ⟨n, rfl⟩ : ∃ n : Nat, s = (n : Int) := ⟨s.toNat, by omega⟩
    simp
  · rename_i h
    obtain ⟨n, rfl⟩ : ∃ n : Nat, s = -(n : Int) := ⟨(-s).toNat, by omega⟩
    simp [zpow_neg]

theorem pow2_pos (s : Int) : 0 < pow2 s := by
  rw [pow2_eq_zpow]; positivity

theorem pow2_succ (s : Int) : pow2 (s + 1) = 2 * pow2 s := by
  rw [pow2_eq_zpow, pow2_eq_zpow, zpow_add₀ (by norm_num : (2 : Rat) ≠ 0), zpow_one, mul_comm]

theorem pow2_mono {a b : Int} (h : a ≤ b) : pow2 a ≤ pow2 b := by
  rw [pow2_eq_zpow, pow2_eq_zpow]
  exact zpow_le_zpow_right₀ (by norm_num) h

theorem ratAbs_eq (x : Rat) : ratAbs x = |x| := by
  unfold ratAbs
  split
  · rename_i h; rw [abs_of_neg h]
  · rename_i h; rw [abs_of_nonneg (not_lt.mp h)]

/-- the binary exponent: `2^e ≤ a < 2^(e+1)` -/
theorem expOf_spec (a : Rat) (ha : 0 < a) : pow2 (expOf a) ≤ a ∧ a < pow2 (expOf a + 1) := by
  have hnum : 0 < a.num := Rat.num_pos.mpr ha
  have hn0 : a.num.natAbs ≠ 0 := by omega
  have hd0 : a.den ≠ 0 := a.den_nz
  have hn1 := Nat.log2_self_le hn0
  have hn2 := @Nat.lt_log2_self a.num.natAbs
  have hd1 := Nat.log2_self_le hd0
  have hd2 := @Nat.lt_log2_self a.den
  have hcast : (a.num : Rat) = (a.num.natAbs : Rat) := by
    have : a.num = (a.num.natAbs : Int) := by omega
    conv_lhs => rw [this]
    rfl
  have ha' : a = (a.num.natAbs : Rat) / (a.den : Rat) := by
    rw [← hcast]; exact (Rat.num_div_den a).symm
  have hdpos : (0 : Rat) < (a.den : Rat) := by exact_mod_cast Nat.pos_of_ne_zero hd0
  -- casts of the four bounds
  have n1 : ((2 : Rat) ^ (a.num.natAbs.log2 : Int)) ≤ (a.num.natAbs : Rat) := by
    rw [zpow_natCast]; exact_mod_cast hn1
  have n2 : (a.num.natAbs : Rat) < (2 : Rat) ^ ((a.num.natAbs.log2 : Int) + 1) := by
    rw [show ((a.num.natAbs.log2 : Int) + 1) = ((a.num.natAbs.log2 + 1 : Nat) : Int) by push_cast; rfl, zpow_natCast]
    exact_mod_cast hn2
  have d1 : ((2 : Rat) ^ (a.den.log2 : Int)) ≤ (a.den : Rat) := by
    rw [zpow_natCast]; exact_mod_cast hd1
  have d2 : (a.den : Rat) < (2 : Rat) ^ ((a.den.log2 : Int) + 1) := by
    rw [show ((a.den.log2 : Int) + 1) = ((a.den.log2 + 1 : Nat) : Int) by push_cast; rfl, zpow_natCast]
    exact_mod_cast hd2
  set ln : Int := (a.num.natAbs.log2 : Int) with hln
  set ld : Int := (a.den.log2 : Int) with hld
  have two : (2 : Rat) ≠ 0 := by norm_num
  have pld : (0 : Rat) < (2 : Rat) ^ ld := by positivity
  -- 2^(k-1) < a < 2^(k+1) with k = ln - ld
  have hlow : (2 : Rat) ^ (ln - ld - 1) < a := by
    have e : (2 : Rat) ^ (ln - ld - 1) = (2 : Rat) ^ ln / (2 : Rat) ^ (ld + 1) := by
      rw [show ln - ld - 1 = ln - (ld + 1) by omega, zpow_sub₀ two]
    rw [e, ha', div_lt_div_iff₀ (by positivity) hdpos]
    calc (2 : Rat) ^ ln * (a.den : Rat) < (2 : Rat) ^ ln * (2 : Rat) ^ (ld + 1) := by
            apply mul_lt_mul_of_pos_left d2; positivity
      _ ≤ (a.num.natAbs : Rat) * (2 : Rat) ^ (ld + 1) := by
            apply mul_le_mul_of_nonneg_right n1; positivity
  have hhigh : a < (2 : Rat) ^ (ln - ld + 1) := by
    have e : (2 : Rat) ^ (ln - ld + 1) = (2 : Rat) ^ (ln + 1) / (2 : Rat) ^ ld := by
      rw [show ln - ld + 1 = (ln + 1) - ld by omega, zpow_sub₀ two]
    rw [e, ha', div_lt_div_iff₀ hdpos pld]
    calc (a.num.natAbs : Rat) * (2 : Rat) ^ ld ≤ (a.num.natAbs : Rat) * (a.den : Rat) := by
            apply mul_le_mul_of_nonneg_left d1; positivity
      _ < (2 : Rat) ^ (ln + 1) * (a.den : Rat) := by
            apply mul_lt_mul_of_pos_right n2 hdpos
  unfold expOf
  simp only
  rw [← hln, ← hld]
  split
  · rename_i hlt
    refine ⟨?_, ?_⟩
    · rw [pow2_eq_zpow]; exact le_of_lt hlow
    · rw [show ln - ld - 1 + 1 = ln - ld by omega]; exact hlt
  · rename_i hge
    refine ⟨not_lt.mp hge, ?_⟩
    rw [pow2_eq_zpow]; exact hhigh

/-- **`f32round` rounds to the nearest number with 24 significant bits.**  For `x ≠ 0` in the normal range
    (`2^-126 ≤ |x|`), with `e` the binary exponent of `x` (`2^e ≤ |x| < 2^(e+1)`): the result is an integer
    multiple `m` of the unit in the last place `2^(e-23)` with `0 ≤ ±m ≤ 2^24` (a binary32 value), and it is
    within half a unit of `x`. -/
theorem f32round_spec (x : Rat) (hx : x ≠ 0) (hnorm : pow2 (-126) ≤ |x|) :
    pow2 (expOf |x|) ≤ |x| ∧ |x| < pow2 (expOf |x| + 1) ∧
    |f32round x - x| ≤ pow2 (expOf |x| - 24) ∧
    ∃ m : Int, f32round x = (m : Rat) * pow2 (expOf |x| - 23) ∧ |m| ≤ 2 ^ 24 := by
  have ha : 0 < |x| := abs_pos.mpr hx
  obtain ⟨he1, he2⟩ := expOf_spec |x| ha
  set e := expOf |x| with hedef
  have he : -126 ≤ e := by
    by_contra hc
    have : e + 1 ≤ -126 := by omega
    have := pow2_mono this
    linarith
  have hs : max (e - 23) (-149) = e - 23 := by
    apply max_eq_left; omega
  have hps := pow2_pos (e - 23)
  set q : Rat := |x| / pow2 (e - 23) with hq
  have hclose := Round.roundHalfEven_close q
  have hqa : q * pow2 (e - 23) = |x| := by rw [hq]; field_simp
  -- the value before the sign is put back
  have hy : abs (((roundHalfEven q : Int) : Rat) * pow2 (e - 23) - abs x) ≤ pow2 (e - 24) := by
    have e1 : ((roundHalfEven q : Int) : Rat) * pow2 (e - 23) - |x| =
        (((roundHalfEven q : Int) : Rat) - q) * pow2 (e - 23) := by rw [← hqa]; ring
    rw [e1, abs_mul, abs_of_pos hps]
    have e2 : pow2 (e - 23) = 2 * pow2 (e - 24) := by
      rw [← pow2_succ]; congr 1; omega
    rw [e2]
    have := pow2_pos (e - 24)
    nlinarith
  -- bounds of the integer
  have hq0 : 0 ≤ q := by rw [hq]; positivity
  have hq1 : q < 2 ^ 24 := by
    rw [hq, div_lt_iff₀ hps]
    have e3 : pow2 (e + 1) = 2 ^ 24 * pow2 (e - 23) := by
      rw [pow2_eq_zpow, pow2_eq_zpow, show e + 1 = 24 + (e - 23) by omega, zpow_add₀ (by norm_num : (2 : Rat) ≠ 0)]
      norm_num
    rw [← e3]; exact he2
  have hm0 : 0 ≤ roundHalfEven q := by
    have := Round.roundHalfEven_mono hq0
    rw [show (0 : Rat) = ((0 : Int) : Rat) by norm_num, Round.roundHalfEven_int] at this
    exact this
  have hm1 : roundHalfEven q ≤ 2 ^ 24 := by
    have := Round.roundHalfEven_mono (le_of_lt hq1)
    rw [show (2 ^ 24 : Rat) = ((2 ^ 24 : Int) : Rat) by norm_num, Round.roundHalfEven_int] at this
    exact this
  refine ⟨he1, he2, ?_, ?_⟩
  · unfold f32round
    rw [if_neg hx]
    simp only [ratAbs_eq, ← hedef, hs]
    split
    · rename_i hneg
      have hxa : |x| = -x := abs_of_neg hneg
      have : -(((roundHalfEven q : Int) : Rat) * pow2 (e - 23)) - x =
          -(((roundHalfEven q : Int) : Rat) * pow2 (e - 23) - |x|) := by rw [hxa]; ring
      rw [this, abs_neg]; exact hy
    · rename_i hpos
      have hxa : |x| = x := abs_of_nonneg (not_lt.mp hpos)
      have : ((roundHalfEven q : Int) : Rat) * pow2 (e - 23) - x =
          ((roundHalfEven q : Int) : Rat) * pow2 (e - 23) - |x| := by rw [hxa]
      rw [this]; exact hy
  · unfold f32round
    rw [if_neg hx]
    simp only [ratAbs_eq, ← hedef, hs]
    split
    · refine ⟨-roundHalfEven q, by push_cast; ring, ?_⟩
      rw [abs_neg, abs_of_nonneg hm0]; exact hm1
    · exact ⟨roundHalfEven q, rfl, by rw [abs_of_nonneg hm0]; exact hm1⟩

end NoteArray
