/-
C12, round 6 — the functions of Model/ConversionsArr.lean written over the literals of Gen/C12Lits.lean coincide with
the functions the theorems of Props/C12*.lean are stated for.  Every lemma re-elaborates when a literal of the source
changes.
-/
import PartituraModel.Model.ConversionsArr
import PartituraModel.Proofs.C12Bridge

namespace C12Lits
open Model Gen Gen.C12 Gen.C12L

theorem keyNameK_eq (name : String) : keyNameToFifthsModeK name = keyNameToFifthsModeG name := by
  unfold keyNameToFifthsModeK keyNameToFifthsModeG keyNameToFifthsModeL
  cases h : name.toList with
  | nil => rfl
  | cons c rest =>
    have hb : ∀ {α β : Type} (x : Option α) (f : α → β), (x.bind fun a => some (f a)) = x.map f := by
      intro α β x f; cases x <;> rfl
    simp [k2fMinor, k2fMajor, k2fMinorMark, k2fLenEq, k2fLenThr, k2fMajorName, k2fFlatSide, k2fSharpSide]
    simp only [hb]
    rfl

theorem accStringG_eq (a : Int) : accStringG a = accString a := rfl

theorem spellingToNoteNameG_eq (s : String) (a o : Int) : spellingToNoteNameG s a o = spellingToNoteName s a o := rfl

theorem pyFormat_fsd (a n : String) : pyFormat fsdFormat.toList [a, n] = "_" ++ a ++ "/" ++ n := by
  have : fsdFormat.toList = ['_', '{', '}', '/', '{', '}'] := by decide
  rw [this]
  simp [pyFormat, String.append_assoc]

theorem formatSymbolicG_eq (x : Option (Option String × Option Nat × Option Nat × Option Nat)) :
    formatSymbolicG x = formatSymbolic x := by
  cases x with
  | none => rfl
  | some v =>
    obtain ⟨ty, dots, actual, normal⟩ := v
    have hty : strOr ty fsdTypeDefault = ty.getD "" := by
      cases ty with
      | none => rfl
      | some s =>
        by_cases h : s = ""
        · subst h; rfl
        · simp [strOr, h]
    unfold formatSymbolicG formatSymbolic
    simp only [hty]
    cases actual <;> cases normal <;> simp only [pyFormat_fsd, String.append_assoc] <;> rfl

theorem natOr_one (x : Option Nat) :
    natOr x 1 = (let n : Rat := ((x.getD 1 : Nat) : Rat); if n = 0 then 1 else n) := by
  cases x with
  | none => simp [natOr]
  | some v =>
    by_cases h : v = 0
    · subst h; simp [natOr]
    · have : ((v : Nat) : Rat) ≠ 0 := by exact_mod_cast h
      simp [natOr, h, this]

theorem symbolicToNumericG_eq (ty : String) (d : Nat) (a n : Option Nat) (divs : Rat) :
    symbolicToNumericG (some ty) (some d) a n divs = symbolicToNumeric (ty, d, a, n) divs := by
  have h1 : s2nOrNormal = 1 := rfl
  have h2 : s2nOrActual = 1 := rfl
  unfold symbolicToNumericG symbolicToNumeric
  simp only [Option.bind_some, Option.getD_some, h1, h2, natOr_one]
  rfl

/-- keys left out: no type is a KeyError, no dots are no dots -/
theorem symbolicToNumericG_absent (d a n : Option Nat) (ty : Option String) (divs : Rat) :
    symbolicToNumericG none d a n divs = none ∧
    symbolicToNumericG ty none a n divs = symbolicToNumericG ty (some 0) a n divs := by
  constructor
  · unfold symbolicToNumericG; rfl
  · rfl

theorem toQuarterTempoG_eq (u : String) (t : Rat) : toQuarterTempoG u t = toQuarterTempo u t := by
  have hs : (fun c : Char => tqtStrip.contains c) = (fun c : Char => decide (c = '.')) := by
    funext c
    simp [tqtStrip]
  unfold toQuarterTempoG toQuarterTempo
  rw [hs]
  rfl

end C12Lits
