/-
C01 helper lemmas: facts about the generated class DAG, checked by kernel evaluation of the WHOLE table
(they are re-checked whenever harness/translate_classes.py regenerates Gen/Classes.lean).
-/
import PartituraModel.Model.Timeline

namespace TL

/-- the tables have one row per class -/
theorem class_table_lengths :
    Gen.classNames.length = Gen.numClasses ∧ Gen.directSubclasses.length = Gen.numClasses
      ∧ Gen.iterSubclassesTab.length = Gen.numClasses ∧ Gen.mroTab.length = Gen.numClasses := by
  decide +kernel

/-- the modelled `iter_subclasses` reproduces the sequences the implementation yields -/
theorem iterSubclasses_eq_tab :
    ∀ c ∈ List.range Gen.numClasses, iterSubclasses c = Gen.iterSubclassesTab.getD c [] := by
  decide +kernel

/-- the DFS is duplicate-free and never yields the class itself -/
theorem iterSubclasses_nodup_tab :
    ∀ c ∈ List.range Gen.numClasses, (iterSubclasses c).Nodup ∧ c ∉ iterSubclasses c := by
  decide +kernel

/-- the DFS yields exactly the strict descendants (by the independent MRO table) -/
theorem iterSubclasses_desc_tab :
    ∀ c ∈ List.range Gen.numClasses, ∀ d ∈ List.range Gen.numClasses,
      (d ∈ iterSubclasses c ↔ (d ≠ c ∧ isSubclass d c = true)) := by
  decide +kernel

theorem isSubclass_refl_tab : ∀ c ∈ List.range Gen.numClasses, isSubclass c c = true := by
  decide +kernel

theorem objectSubclasses_tab :
    Gen.objectSubclasses.Nodup ∧ ∀ k ∈ List.range Gen.numClasses, k ∈ Gen.objectSubclasses := by
  decide +kernel

theorem dfsFuel_pos : ∃ n, dfsFuel = n + 1 := ⟨dfsFuel - 1, by decide +kernel⟩

theorem iterSubclasses_out_of_range {c : Nat} (h : Gen.numClasses ≤ c) : iterSubclasses c = [] := by
  unfold iterSubclasses
  have : Gen.directSubclasses.getD c [] = [] := by
    rw [List.getD_eq_getElem?_getD, List.getElem?_eq_none]
    · rfl
    · rw [class_table_lengths.2.1]; exact h
  rw [this]
  obtain ⟨n, hn⟩ := dfsFuel_pos
  rw [hn]
  rfl

/-- duplicate-freeness for every class argument -/
theorem iterSubclasses_nodup (c : Nat) : (iterSubclasses c).Nodup ∧ c ∉ iterSubclasses c := by
  by_cases h : c < Gen.numClasses
  · exact iterSubclasses_nodup_tab c (List.mem_range.mpr h)
  · rw [iterSubclasses_out_of_range (by omega)]
    simp

theorem subSeq_ok (cls : Option Nat) : (subSeq cls).Nodup ∧ ∀ c, cls = some c → c ∉ subSeq cls := by
  cases cls with
  | none => exact ⟨objectSubclasses_tab.1, fun c h => by cases h⟩
  | some c =>
    refine ⟨(iterSubclasses_nodup c).1, ?_⟩
    intro c' h
    cases h
    exact (iterSubclasses_nodup c).2

end TL
