/-
Helper lemmas for C05 (round 2): the composed maps (`Desc.maps`) give `mkRow` the columns the C02 / C10
models compute; unfolding of `rowsC` / `restRowsC`; part lists made of parts only.
-/
import PartituraModel.Proofs.C05Rows
import PartituraModel.Model.NoteArrayMaps

namespace NoteArray
open List Model

theorem rowsC_some (d : Desc) (notes : List Note) (o : Opts) (out : List Row)
    (h : rowsC d notes o = some out) :
    d.needOK o notes (notesTied notes) = true ∧ rows (d.part o notes) o = some out := by
  unfold rowsC at h
  split at h
  · cases h
  · split at h
    · rename_i hok; exact ⟨hok, h⟩
    · cases h

theorem needOK_mem (d : Desc) (o : Opts) (notes sel : List Note) (h : d.needOK o notes sel = true)
    (n : Note) (hn : n ∈ sel) (dur : Int) (hd : durationTied notes n = some dur) :
    d.rowOK o n.onset dur = true := by
  unfold Desc.needOK at h
  have := (List.all_eq_true.mp h) n hn
  simpa [hd] using this

theorem getD_of_isSome {α : Type} (x : Option α) (a : α) (h : x.isSome = true) : x = some (x.getD a) := by
  cases x with
  | none => cases h
  | some v => rfl

/-- what `rowOK` guarantees, unpacked -/
theorem rowOK_spec (d : Desc) (o : Opts) (on dur : Int) (h : d.rowOK o on dur = true) :
    (d.beat on).isSome ∧ (d.beat (on + dur)).isSome ∧ (d.quarter on).isSome ∧ (d.quarter (on + dur)).isSome ∧
    (o.ks = true → (d.ks on).isSome) ∧ (o.ts = true → (d.ts on).isSome) ∧ (o.metr = true → (d.metr on).isSome) := by
  unfold Desc.rowOK at h
  simp only [Bool.and_eq_true, Bool.or_eq_true, Bool.not_eq_true'] at h
  obtain ⟨⟨⟨⟨⟨⟨h1, h2⟩, h3⟩, h4⟩, h5⟩, h6⟩, h7⟩ := h
  refine ⟨h1, h2, h3, h4, ?_, ?_, ?_⟩
  · intro ho; rcases h5 with h5 | h5
    · rw [ho] at h5; cases h5
    · exact h5
  · intro ho; rcases h6 with h6 | h6
    · rw [ho] at h6; cases h6
    · exact h6
  · intro ho; rcases h7 with h7 | h7
    · rw [ho] at h7; cases h7
    · exact h7

/-- the composed columns of a row, as a predicate of the row, the note and its tied duration -/
def ComposedColumns (d : Desc) (o : Opts) (n : Note) (dur : Int) (r : Row) : Prop :=
  r.id = n.id ∧ r.onsetDiv = n.onset ∧ r.durDiv = dur ∧
  TimeMap.beatMap d.tm ((n.onset : Int) : Rat) = some r.onsetBeat ∧
  TimeMap.beatMap d.tm ((n.onset + dur : Int) : Rat) = some (r.onsetBeat + r.durBeat) ∧
  TimeMap.quarterMap d.tm ((n.onset : Int) : Rat) = some r.onsetQuarter ∧
  TimeMap.quarterMap d.tm ((n.onset + dur : Int) : Rat) = some (r.onsetQuarter + r.durQuarter) ∧
  r.key = f32round r.onsetBeat ∧
  (o.ks = true → StepMap.ksMap d.span d.kss n.onset = some (r.ksFifths, r.ksMode)) ∧
  (o.ts = true → ∃ b bt mb : Nat, StepMap.tsMap d.span d.tss n.onset = some (b, bt, mb) ∧
      r.tsBeats = b ∧ r.tsBeatType = bt ∧ r.tsMusBeats = mb) ∧
  (o.metr = true →
      StepMap.metricalMap d.span d.tss d.ms d.divsPerNotatedBeat n.onset = some (r.relOnset, some r.totMeasure) ∧
      r.isDownbeat = (if r.relOnset = 0 then 1 else 0))

theorem add_sub_cancel_rat (a b : Rat) : a + (b - a) = b := by
  rw [Rat.add_comm, Rat.sub_eq_add_neg, Rat.add_assoc, Rat.neg_add_cancel, Rat.add_zero]

/-- the row `mkRow` builds from the composed maps has the composed columns -/
theorem mkRow_composed (d : Desc) (o : Opts) (n : Note) (dur dv pch : Int) (st : String) (al oc : Int)
    (hok : d.rowOK o n.onset dur = true) :
    ComposedColumns d o n dur (mkRow (d.maps o) dv n dur pch st al oc) := by
  obtain ⟨b1, b2, q1, q2, k1, t1, m1⟩ := rowOK_spec d o n.onset dur hok
  have hb1 := getD_of_isSome _ (0 : Rat) b1
  have hb2 := getD_of_isSome _ (0 : Rat) b2
  have hq1 := getD_of_isSome _ (0 : Rat) q1
  have hq2 := getD_of_isSome _ (0 : Rat) q2
  refine ⟨rfl, rfl, ?_, hb1, ?_, hq1, ?_, rfl, ?_, ?_, ?_⟩
  · show n.onset + dur - n.onset = dur
    omega
  · show TimeMap.beatMap d.tm ((n.onset + dur : Int) : Rat) =
      some ((d.beat n.onset).getD 0 + ((d.beat (n.onset + dur)).getD 0 - (d.beat n.onset).getD 0))
    rw [add_sub_cancel_rat]
    exact hb2
  · show TimeMap.quarterMap d.tm ((n.onset + dur : Int) : Rat) =
      some ((d.quarter n.onset).getD 0 + ((d.quarter (n.onset + dur)).getD 0 - (d.quarter n.onset).getD 0))
    rw [add_sub_cancel_rat]
    exact hq2
  · intro ho
    have := getD_of_isSome _ ((0, 0) : Int × Int) (k1 ho)
    show StepMap.ksMap d.span d.kss n.onset = some (((d.maps o).ks n.onset).1, ((d.maps o).ks n.onset).2)
    simp only [Desc.maps, ho, if_true]
    exact this
  · intro ho
    have hs := t1 ho
    unfold Desc.ts at hs
    cases hv : StepMap.tsMap d.span d.tss n.onset with
    | none => rw [hv] at hs; cases hs
    | some v =>
      refine ⟨v.1, v.2.1, v.2.2, rfl, ?_, ?_, ?_⟩ <;>
      · simp only [mkRow, Desc.maps, Desc.ts, ho, if_true, hv, Option.map_some, Option.getD_some]
  · intro ho
    have hs := m1 ho
    unfold Desc.metr at hs
    cases hv : StepMap.metricalMap d.span d.tss d.ms d.divsPerNotatedBeat n.onset with
    | none => rw [hv] at hs; cases hs
    | some v =>
      obtain ⟨rel, tot⟩ := v
      cases tot with
      | none => rw [hv] at hs; cases hs
      | some tot =>
        have e : (d.maps o).metr n.onset = (rel, tot) := by
          simp only [Desc.maps, Desc.metr, ho, if_true, hv, Option.getD_some]
        refine ⟨?_, ?_⟩
        · show some (rel, some tot) = some (((d.maps o).metr n.onset).1, some ((d.maps o).metr n.onset).2)
          rw [e]
        · show (if ((d.maps o).metr n.onset).1 = 0 then (1 : Int) else 0) = if ((d.maps o).metr n.onset).1 = 0 then 1 else 0
          rfl

theorem restRowsWith_false (store : Rat → Rat) (p : Part) : restRowsWith store p false = restRows p false := by
  unfold restRows restRowsWith
  simp

theorem restRowsC_some (d : Desc) (notes : List Note) (o : Opts) (out : List Row)
    (h : restRowsC d notes o false = some out) :
    d.needOK o notes (restsOf notes) = true ∧ restRows (d.part o notes) false = some out := by
  unfold restRowsC at h
  split at h
  · cases h
  · split at h
    · rename_i hok; exact ⟨hok, by rw [← restRowsWith_false f32round]; exact h⟩
    · cases h

theorem tablesOf_parts (u : Bool) (o : Opts) : ∀ ps : List (Desc × List Note),
    tablesOf u o (ps.map fun p => Tree.part p.1 p.2) =
      NoteArray.mapM' (fun (p : Desc × List Note) => rowsC p.1 p.2 { o with divs := true }) ps := by
  intro ps
  induction ps with
  | nil => rw [List.map_nil, tablesOf]; rfl
  | cons p ps ih =>
    rw [List.map_cons, tablesOf, ih, Tree.table]
    conv_rhs => rw [NoteArray.mapM']
    cases rowsC p.1 p.2 { o with divs := true } <;>
      cases NoteArray.mapM' (fun (p : Desc × List Note) => rowsC p.1 p.2 { o with divs := true }) ps <;> rfl

theorem partsOf_parts : ∀ ps : List (Desc × List Note),
    partsOf (ps.map fun p => Tree.part p.1 p.2) = ps := by
  intro ps
  induction ps with
  | nil => rw [List.map_nil, partsOf]
  | cons p ps ih => rw [List.map_cons, partsOf, ih, Tree.parts]; rfl

end NoteArray
