/-
C18 (round 5) — lemmas about Model/CodecX.lean, second part: `monotonize_times` without abscissae,
`decode_performance` with everything it returns, `get_unique_onset_idxs` with its arguments, the columns of
`to_matched_score`, `notewise_to_onsetwise` / `onsetwise_to_notewise`.
-/
import PartituraModel.Proofs.C18Ext

namespace C18P
open Model Model.Codec

-- ------------------------------------------------------------------ arange

theorem arange_length (n : Nat) : (arange n).length = n := by simp [arange]

theorem arange_strict (n : Nat) : (arange n).Pairwise (· < ·) := by
  unfold arange
  rw [List.pairwise_map]
  refine List.Pairwise.imp ?_ (List.pairwise_lt_range (n := n))
  intro a b h
  exact_mod_cast h

-- ------------------------------------------------------------------ decode_performance, everything it returns

theorem map_zipWith4 {α β γ δ ε ζ : Type} (f : α → β → γ → δ → ε) (g : ε → ζ) (h : α → β → γ → ζ)
    (hfg : ∀ a b c d, g (f a b c d) = h a b c) (as : List α) (bs : List β) (cs : List γ) (ds : List δ)
    (hl : cs.length ≤ ds.length) : (zipWith4 f as bs cs ds).map g = zipWith3 h as bs cs := by
  induction as generalizing bs cs ds with
  | nil => simp [zipWith4, zipWith3]
  | cons a as ih =>
    cases bs with
    | nil => simp [zipWith4, zipWith3]
    | cons b bs =>
      cases cs with
      | nil => simp [zipWith4, zipWith3]
      | cons c cs =>
        cases ds with
        | nil => simp at hl
        | cons d ds =>
          simp only [zipWith4, zipWith3, List.map_cons, hfg, List.cons.injEq, true_and]
          exact ih bs cs ds (by simpa using hl)

theorem zipWith4_enumFrom {α β γ δ ε : Type} (f : α → β → γ → δ → ε) (i : Nat) (as : List α) (bs : List β)
    (cs : List γ) (ds : List δ) :
    zipWith4 (fun a b c (s : Nat × δ) => f a b c s.2) as bs cs (enumFrom i ds) = zipWith4 f as bs cs ds := by
  induction as generalizing i bs cs ds with
  | nil => simp [zipWith4]
  | cons a as ih =>
    cases bs with
    | nil => simp [zipWith4]
    | cons b bs =>
      cases cs with
      | nil => simp [zipWith4]
      | cons c cs =>
        cases ds with
        | nil => simp [zipWith4, enumFrom]
        | cons d ds => simp only [zipWith4, enumFrom, ih]

theorem getAll_length {α : Type} (l : List α) (idx : List Nat) (out : List α) (h : getAll l idx = some out) :
    out.length = idx.length := by
  unfold getAll at h
  rw [allSome_eq_some] at h
  have := congrArg List.length h
  simpa using this.symm

/-- forgetting the pitch and the alignment, `decodeFull` with `snote_ids` and as many parameter rows as ids is
    `decodePerformance` -/
theorem decodeFull_notes (n : Norm) (ss : List SRow) (ids : List String) (ps : List ParamRow)
    (info : List SRow) (hinfo : selectRows ss ids = some info) (hlen : info.length = ps.length) :
    (decodeFull n ss (some ids) ps).map (fun r => r.1.map fun (d : DNote) => (d.1, d.2.2.1, d.2.2.2.1, d.2.2.2.2))
      = decodePerformance n ss ids ps := by
  unfold decodeFull decodePerformance
  simp only [Option.getD_some, hinfo, hlen, ne_eq, not_true_eq_false, if_false]
  cases hg : getAll ps (List.map (fun x => x.1)
      (isort (fun a b => lexLe (a.2.odiv, a.2.pitch) (b.2.odiv, b.2.pitch)) (enumFrom 0 info))) with
  | none => rfl
  | some ps' =>
    simp only
    cases hd : decodeTime n (List.zipWith (fun (s : Nat × SRow) (p : ParamRow) => mkDRow s.2 p)
        (isort (fun a b => lexLe (a.2.odiv, a.2.pitch) (b.2.odiv, b.2.pitch)) (enumFrom 0 info)) ps') with
    | none => rfl
    | some od =>
      simp only [Option.map_some, Option.some.injEq]
      apply map_zipWith4
      · intro a b c d; rfl
      · have := getAll_length _ _ _ hg
        rw [this, List.length_map]

/-- the alignment returned with `return_alignment=True` pairs every id with itself -/
theorem alignment_pairs_eq (ids : List String) (info : List SRow)
    (h : List.Forall₂ (fun id (s : SRow) => s.id = id) ids info)
    (f : String → Rat × Rat → ParamRow → Nat × SRow → DNote) (hf : ∀ a b c d, (f a b c d).1 = a)
    (od : List (Rat × Rat)) (ps : List ParamRow) (order : List (Nat × SRow)) :
    ∀ p ∈ List.zipWith (fun (s : SRow) (d : DNote) => (s.id, d.1)) info (zipWith4 f ids od ps order), p.1 = p.2 := by
  induction h generalizing od ps order with
  | nil => intro p hp; simp [zipWith4] at hp
  | cons hab _ ih =>
    cases od with
    | nil => intro p hp; simp [zipWith4] at hp
    | cons x od =>
      cases ps with
      | nil => intro p hp; simp [zipWith4] at hp
      | cons q ps =>
        cases order with
        | nil => intro p hp; simp [zipWith4] at hp
        | cons o order =>
          intro p hp
          simp only [zipWith4, List.zipWith_cons_cons, List.mem_cons] at hp
          rcases hp with rfl | hp
          · simp only [hf]; exact hab
          · exact ih od ps order p hp

theorem decodeFull_alignment (n : Norm) (ss : List SRow) (ids : List String) (ps : List ParamRow)
    (notes : List DNote) (al : List (String × String)) (h : decodeFull n ss (some ids) ps = some (notes, al)) :
    ∀ p ∈ al, p.1 = p.2 := by
  unfold decodeFull at h
  simp only [Option.getD_some] at h
  cases hinfo : selectRows ss ids with
  | none => rw [hinfo] at h; simp at h
  | some info =>
    rw [hinfo] at h
    simp only at h
    split at h
    · simp at h
    · rename_i ps' _
      split at h
      · simp at h
      · rename_i od _
        simp only [Option.some.injEq, Prod.mk.injEq] at h
        rw [← h.2]
        have hs := selectRows_spec ss ids info hinfo
        apply alignment_pairs_eq ids info (hs.imp fun _ _ h => h.2)
        intro a b c d; rfl

/-- `decodeFull` when the selected rows are ordered by (onset_div, pitch): note `k` carries `snote_ids[k]`, the
    clipped pitch of the score row selected for that id, and what `decode_time` returns for that row and parameter
    row `k` -/
theorem decodeFull_sorted (n : Norm) (ss : List SRow) (ids : List String) (ps : List ParamRow)
    (info : List SRow) (hinfo : selectRows ss ids = some info) (hlen : info.length = ps.length)
    (hsorted : info.Pairwise (fun a b => lexLe (a.odiv, a.pitch) (b.odiv, b.pitch) = true)) :
    (decodeFull n ss (some ids) ps).map (·.1) =
      (decodeTime n (List.zipWith mkDRow info ps)).map fun od =>
        zipWith4 (fun id (x : Rat × Rat) (p : ParamRow) (s : SRow) =>
          ((id, clipPitch s.pitch, x.1, x.2, decodeVel p.vel) : DNote)) ids od ps info := by
  unfold decodeFull
  simp only [Option.getD_some, hinfo]
  have hord : isort (fun (a b : Nat × SRow) => lexLe (a.2.odiv, a.2.pitch) (b.2.odiv, b.2.pitch)) (enumFrom 0 info)
      = enumFrom 0 info := by
    apply isort_of_pairwise
    have : ((enumFrom 0 info).map Prod.snd).Pairwise (fun a b => lexLe (a.odiv, a.pitch) (b.odiv, b.pitch) = true) := by
      rw [enumFrom_map_snd]; exact hsorted
    exact List.pairwise_map.mp this
  rw [hord, enumFrom_map_fst, hlen, getAll_range]
  simp only
  have hrows : List.zipWith (fun (s : Nat × SRow) (p : ParamRow) => mkDRow s.2 p)
      (enumFrom 0 info) ps = List.zipWith mkDRow info ps := zipWith_enumFrom mkDRow 0 info ps
  rw [hrows]
  cases decodeTime n (List.zipWith mkDRow info ps) with
  | none => rfl
  | some od =>
    simp only [Option.map_some, Option.some.injEq]
    exact zipWith4_enumFrom (fun id (x : Rat × Rat) (p : ParamRow) (s : SRow) =>
      ((id, clipPitch s.pitch, x.1, x.2, decodeVel p.vel) : DNote)) 0 ids od ps info

theorem clipPitch_id (p : Int) (h1 : 1 ≤ p) (h2 : p ≤ 127) : clipPitch p = p := by
  unfold clipPitch clipInt
  rw [if_neg (by omega), if_neg (by omega)]

theorem clipPitch_range (p : Int) : 1 ≤ clipPitch p ∧ clipPitch p ≤ 127 := by
  unfold clipPitch clipInt
  split
  · omega
  · split <;> omega

-- ------------------------------------------------------------------ to_matched_score: the columns

theorem matchedWidthOk_true (mk arr : Bool) (fs : List String) : matchedWidthOk mk arr fs = true := by
  unfold matchedWidthOk rowWidth matchedFieldNames baseFields
  cases mk <;> cases arr <;> simp
  omega

theorem toMatchedScore_rows_idx (ss : List SRow) (ps : List PRow) (al : List ARow) (rows : List MRow)
    (h : toMatchedScore ss ps al = some rows) : ∀ r ∈ rows, ∃ s, ss[r.sidx]? = some s := by
  unfold toMatchedScore at h
  cases hp : matchedPairs ss ps al with
  | none => rw [hp] at h; simp at h
  | some l =>
    rw [hp] at h
    simp only at h
    rw [allSome_eq_some] at h
    intro r hr
    have : some r ∈ l.map (mkRow ss ps) := by rw [h]; exact List.mem_map.mpr ⟨r, hr, rfl⟩
    obtain ⟨ij, _, hmk⟩ := List.mem_map.mp this
    obtain ⟨s, p, h1, _, h3⟩ := mkRow_spec ss ps ij r hmk
    exact ⟨s, by rw [h3]; exact h1⟩

theorem allSome_isSome_of {β : Type} (l : List (Option β)) (h : ∀ o ∈ l, o.isSome) : ∃ ys, allSome l = some ys := by
  induction l with
  | nil => exact ⟨[], rfl⟩
  | cons o rest ih =>
    obtain ⟨ys, hys⟩ := ih (fun o ho => h o (List.mem_cons_of_mem _ ho))
    obtain ⟨b, hb⟩ := Option.isSome_iff_exists.mp (h o (by simp))
    exact ⟨b :: ys, by simp only [hb, allSome, hys, Option.map_some]⟩

/-- `to_matched_score` with `include_score_markings` returns whenever it returns without (one voice per score row):
    the marking columns never make the construction of the table fail (repairs C18-12, C18-13) -/
theorem toMatchedScoreX_defined (mk arr : Bool) (fs : List String) (vs : List Int)
    (ss : List SRow) (ps : List PRow) (al : List ARow) (rows : List MRow)
    (h : toMatchedScore ss ps al = some rows) (hv : vs.length = ss.length) :
    ∃ ids voices, snoteIds ss rows = some ids ∧
      toMatchedScoreX mk arr fs vs ss ps al = some (matchedFieldNames mk arr fs, rows, ids, voices) ∧
      (voices.isSome ↔ (mk = true ∧ arr = false)) := by
  have hidx := toMatchedScore_rows_idx ss ps al rows h
  obtain ⟨ids, hids⟩ : ∃ ids, snoteIds ss rows = some ids := by
    unfold snoteIds
    apply allSome_isSome_of
    intro o ho
    obtain ⟨r, hr, rfl⟩ := List.mem_map.mp ho
    obtain ⟨s, hs⟩ := hidx r hr
    simp [hs]
  obtain ⟨voices, hvo⟩ : ∃ voices, matchedVoices vs rows = some voices := by
    unfold matchedVoices
    apply allSome_isSome_of
    intro o ho
    obtain ⟨r, hr, rfl⟩ := List.mem_map.mp ho
    obtain ⟨s, hs⟩ := hidx r hr
    have hlt : r.sidx < ss.length := by
      by_contra hc
      rw [List.getElem?_eq_none (by omega)] at hs
      cases hs
    rw [List.getElem?_eq_getElem (by omega)]
    rfl
  unfold toMatchedScoreX
  rw [h]
  simp only [hids, matchedWidthOk_true, Bool.not_true, Bool.false_eq_true, if_false]
  cases mk <;> cases arr <;> simp [hvo]

-- ------------------------------------------------------------------ get_unique_onset_idxs with its arguments

variable {α : Type}

theorem runs_head (brk : α → α → Bool) (b : α) (t : List α) (g : List α) (gs : List (List α))
    (h : runs brk (b :: t) = g :: gs) : ∃ g', g = b :: g' := by
  cases t with
  | nil => simp [runs] at h; exact ⟨[], h.1.symm⟩
  | cons c t' =>
    obtain ⟨g2, gs2, h1, h2⟩ := runs_cons_cons brk b c t'
    rw [h2] at h
    split at h
    · simp only [List.cons.injEq] at h; exact ⟨[], h.1.symm⟩
    · simp only [List.cons.injEq] at h; exact ⟨g2, h.1.symm⟩

/-- inside a run no two neighbours are separated -/
theorem runs_chain (brk : α → α → Bool) (l : List α) : ∀ g ∈ runs brk l, g.IsChain (fun a b => brk a b = false) := by
  induction l with
  | nil => simp [runs]
  | cons a rest ih =>
    cases rest with
    | nil => simp [runs]
    | cons b t =>
      obtain ⟨g, gs, h1, h2⟩ := runs_cons_cons brk a b t
      rw [h2]
      rw [h1] at ih
      intro x hx
      split at hx
      · rcases List.mem_cons.mp hx with rfl | hx
        · simp
        · exact ih x hx
      · rename_i hb
        rcases List.mem_cons.mp hx with rfl | hx
        · obtain ⟨g', rfl⟩ := runs_head brk b t g gs h1
          have hg := ih (b :: g') (by simp)
          exact List.IsChain.cons_cons (by simpa using hb) hg
        · exact ih x (List.mem_cons_of_mem _ hx)

theorem groupsByEps_spec (e : Rat) (he : 0 ≤ e) (key : α → Rat) (l : List α) :
    (groupsByEps e key l).flatten.Perm (enumFrom 0 l) ∧ (∀ g ∈ groupsByEps e key l, g ≠ []) ∧
    (groupsByEps e key l).Pairwise (fun g h => ∀ a ∈ g, ∀ b ∈ h, key a.2 < key b.2) ∧
    (∀ g ∈ groupsByEps e key l, g.IsChain (fun a b => key b.2 - key a.2 ≤ e)) := by
  unfold groupsByEps
  refine ⟨by rw [runs_flatten]; exact perm_isort _ _, runs_ne_nil _ _, ?_, ?_⟩
  · have hs := pairwise_isort (fun (a b : Nat × α) => decide (key a.2 ≤ key b.2))
      (by intro a b; simp only [decide_eq_true_eq]; exact le_total _ _)
      (by intro a b c; simp only [decide_eq_true_eq]; exact le_trans) (enumFrom 0 l)
    have hs' : (isort (fun (a b : Nat × α) => decide (key a.2 ≤ key b.2)) (enumFrom 0 l)).Pairwise
        (fun a b => key a.2 ≤ key b.2) := hs.imp (by intro a b h; simpa using h)
    exact runs_separated (fun (p : Nat × α) => key p.2) e he _ hs'
  · intro g hg
    refine (runs_chain _ _ g hg).imp ?_
    intro a b h
    simpa using h

theorem groupMeans_strict_of_separated (key : α → Rat) (gs : List (Grp α)) (hne : ∀ g ∈ gs, g ≠ [])
    (hsep : gs.Pairwise (fun g h => ∀ a ∈ g, ∀ b ∈ h, key a.2 < key b.2)) :
    (groupMeans key gs).Pairwise (· < ·) := by
  unfold groupMeans
  rw [List.pairwise_map]
  apply List.Pairwise.imp_of_mem _ hsep
  intro g h hg hh hgh
  apply mean_lt _ _ (by simpa using hne g hg)
  intro x hx
  obtain ⟨a, ha, rfl⟩ := List.mem_map.mp hx
  apply lt_mean _ _ (by simpa using hne h hh)
  intro y hy
  obtain ⟨b, hb, rfl⟩ := List.mem_map.mp hy
  exact hgh a ha b hb

end C18P
