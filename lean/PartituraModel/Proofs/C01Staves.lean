/-
C01 helper lemmas, round 6: the memo `Part._number_of_staves` (Model/TimelineY.lean: `computeStaves`, `readStaves`).
`compute_number_of_staves` is a maximum, so it depends on WHICH objects the four `iter_all` calls return, not on
their order; which objects they return is determined by the listings of the starting registries.
-/
import PartituraModel.Proofs.C01Y

namespace TL

-- ------------------------------------------------------------------ the fold is a maximum

theorem stavesFold_spec (staff : ObjRef → Option Nat) (m : Nat) (l : List ObjRef) :
    m ≤ stavesFold staff m l ∧ (∀ o ∈ l, ∀ k, staff o = some k → k ≤ stavesFold staff m l)
      ∧ (stavesFold staff m l = m ∨ ∃ o ∈ l, staff o = some (stavesFold staff m l)) := by
  induction l generalizing m with
  | nil => exact ⟨Nat.le_refl _, fun _ h => absurd h List.not_mem_nil, Or.inl rfl⟩
  | cons a l ih =>
    have step : stavesFold staff m (a :: l)
        = stavesFold staff (match staff a with | some k => if k > m then k else m | none => m) l := rfl
    rw [step]
    generalize hm' : (match staff a with | some k => if k > m then k else m | none => m) = m'
    obtain ⟨i1, i2, i3⟩ := ih m'
    have hmm : m ≤ m' := by
      subst hm'
      cases staff a with
      | none => exact Nat.le_refl _
      | some k => simp only; split <;> omega
    have ha : ∀ k, staff a = some k → k ≤ m' := by
      intro k hk
      subst hm'
      simp only [hk]
      split <;> omega
    have hm'' : m' = m ∨ staff a = some m' := by
      subst hm'
      cases hs : staff a with
      | none => exact Or.inl rfl
      | some k =>
        simp only
        split
        · exact Or.inr rfl
        · exact Or.inl rfl
    refine ⟨Nat.le_trans hmm i1, ?_, ?_⟩
    · intro o ho k hk
      rcases List.mem_cons.mp ho with rfl | ho'
      · exact Nat.le_trans (ha k hk) i1
      · exact i2 o ho' k hk
    · rcases i3 with e | ⟨o, ho, hk⟩
      · rcases hm'' with e' | e'
        · exact Or.inl (by rw [e, e'])
        · exact Or.inr ⟨a, List.mem_cons_self, by rw [e]; exact e'⟩
      · exact Or.inr ⟨o, List.mem_cons_of_mem _ ho, hk⟩

theorem stavesFold_le_of_subset (staff : ObjRef → Option Nat) (m : Nat) {l l' : List ObjRef}
    (h : ∀ o, o ∈ l → o ∈ l') : stavesFold staff m l ≤ stavesFold staff m l' := by
  obtain ⟨-, -, a3⟩ := stavesFold_spec staff m l
  obtain ⟨b1, b2, -⟩ := stavesFold_spec staff m l'
  rcases a3 with e | ⟨o, ho, hk⟩
  · rw [e]; exact b1
  · exact b2 o (h o ho) _ hk

/-- the maximum depends only on which objects are in the list -/
theorem stavesFold_congr (staff : ObjRef → Option Nat) (m : Nat) {l l' : List ObjRef}
    (h : ∀ o, o ∈ l ↔ o ∈ l') : stavesFold staff m l = stavesFold staff m l' :=
  Nat.le_antisymm (stavesFold_le_of_subset staff m fun o => (h o).mp)
    (stavesFold_le_of_subset staff m fun o => (h o).mpr)

/-- several loops in a row -/
theorem stavesFoldl_spec {α : Type} (staff : ObjRef → Option Nat) (L : α → List ObjRef) (qs : List α) (m : Nat) :
    m ≤ qs.foldl (fun acc q => stavesFold staff acc (L q)) m
      ∧ (∀ q ∈ qs, ∀ o ∈ L q, ∀ k, staff o = some k → k ≤ qs.foldl (fun acc q => stavesFold staff acc (L q)) m)
      ∧ (qs.foldl (fun acc q => stavesFold staff acc (L q)) m = m
          ∨ ∃ q ∈ qs, ∃ o ∈ L q, staff o = some (qs.foldl (fun acc q => stavesFold staff acc (L q)) m)) := by
  induction qs generalizing m with
  | nil => exact ⟨Nat.le_refl _, fun _ h => absurd h List.not_mem_nil, Or.inl rfl⟩
  | cons q qs ih =>
    simp only [List.foldl_cons]
    obtain ⟨a1, a2, a3⟩ := stavesFold_spec staff m (L q)
    obtain ⟨b1, b2, b3⟩ := ih (stavesFold staff m (L q))
    refine ⟨Nat.le_trans a1 b1, ?_, ?_⟩
    · intro q' hq' o ho k hk
      rcases List.mem_cons.mp hq' with rfl | hq''
      · exact Nat.le_trans (a2 o ho k hk) b1
      · exact b2 q' hq'' o ho k hk
    · rcases b3 with e | ⟨q', hq', o, ho, hk⟩
      · rcases a3 with e' | ⟨o, ho, hk⟩
        · exact Or.inl (by rw [e, e'])
        · exact Or.inr ⟨q, List.mem_cons_self, o, ho, by rw [e]; exact hk⟩
      · exact Or.inr ⟨q', List.mem_cons_of_mem _ hq', o, ho, hk⟩

-- ------------------------------------------------------------------ who is in the answer of a whole-timeline iter_all

theorem rangePoints_all (pts : List Point) : rangePoints pts none none = pts := by
  unfold rangePoints
  simp [geOpt, ltOptB]

/-- `iter_all(C, include_subclasses=incl)` over the whole timeline returns `o` exactly when some point lists it as
starting and its class is `C` (or, with the flag, a class the subclass walk of `C` visits) -/
theorem mem_iterAll_whole {s : Part} (hs : s.times.Pairwise (· < ·)) (c : Nat) (incl : Bool) (o : ObjRef) :
    o ∈ iterAll s (some c) none none incl .starting
      ↔ (∃ x, Listed s .start x o) ∧ clsMatch (some c) incl o.cls := by
  rw [iterAll_eq hs, rangePoints_all]
  simp only [List.mem_flatMap, mem_iterReg, inclEff, Mode.side, Listed]
  constructor
  · rintro ⟨p, hp, h1, h2⟩
    exact ⟨⟨p.t, p, hp, rfl, h1⟩, h2⟩
  · rintro ⟨⟨x, p, hp, -, h1⟩, h2⟩
    exact ⟨p, hp, h1, h2⟩

theorem stavesQuery_eq (s : Part) (c : Nat) (incl : Bool) :
    iterAllX s (some c) .absent .absent (some incl) none = iterAll s (some c) none none incl .starting := by
  rw [iterAllX_eq, iterAllQ_eq_ceil]
  simp only [Bound.key, Option.map_none, Option.getD_some, Option.getD_none, modeOfString_starting]

/-- `compute_number_of_staves` is determined by the starting listings -/
theorem computeStaves_congr {s s' : Part} (hs : s.times.Pairwise (· < ·)) (hs' : s'.times.Pairwise (· < ·))
    (hl : ∀ x o, Listed s' .start x o ↔ Listed s .start x o) (staff : ObjRef → Option Nat) :
    computeStaves s' staff = computeStaves s staff := by
  unfold computeStaves
  generalize Gen.C01Views.stavesInit = m
  induction Gen.C01Views.stavesQueries generalizing m with
  | nil => rfl
  | cons q qs ih =>
    simp only [List.foldl_cons]
    have e : stavesFold staff m (iterAllX s' (some q.1) .absent .absent (some q.2) none)
        = stavesFold staff m (iterAllX s (some q.1) .absent .absent (some q.2) none) := by
      apply stavesFold_congr
      intro o
      rw [stavesQuery_eq, stavesQuery_eq, mem_iterAll_whole hs', mem_iterAll_whole hs]
      constructor
      · rintro ⟨⟨x, hx⟩, h2⟩; exact ⟨⟨x, (hl x o).mp hx⟩, h2⟩
      · rintro ⟨⟨x, hx⟩, h2⟩; exact ⟨⟨x, (hl x o).mpr hx⟩, h2⟩
    rw [e]
    exact ih _

-- ------------------------------------------------------------------ the memo along histories

/-- the memo is empty or holds what `compute_number_of_staves` would return now -/
def StavesOk (staff : ObjRef → Option Nat) (y : YPart) : Prop :=
  y.staves = none ∨ y.staves = some (computeStaves y.c.part staff)

/-- the operations that go through `Part` (everything but the direct `TimePoint` calls and the Slur / Tuplet
setters, which edit registries behind the part's back) -/
def OpY.partLevel : OpY → Bool
  | .base (.tpAdd _ _ _) => false
  | .base (.tpRemove _ _ _) => false
  | .base (.slurStart _ _) => false
  | .base (.slurEnd _ _) => false
  | .tupletStart _ _ => false
  | .tupletEnd _ _ => false
  | _ => true

theorem listed_of_same {l l' : List Point}
    (h : l'.map (fun p => (p.t, p.prev, p.next, p.starting, p.ending)) = l.map (fun p => (p.t, p.prev, p.next, p.starting, p.ending)))
    (sd : Side) (x : Int) (o : ObjRef) :
    (∃ p ∈ l', p.t = x ∧ o ∈ p.reg sd) ↔ (∃ p ∈ l, p.t = x ∧ o ∈ p.reg sd) := by
  induction l generalizing l' with
  | nil => cases l' with
    | nil => simp
    | cons a r => simp at h
  | cons a l ih =>
    cases l' with
    | nil => simp at h
    | cons a' l' =>
      simp only [List.map_cons, List.cons.injEq, Prod.mk.injEq] at h
      obtain ⟨⟨h1, -, -, h4, h5⟩, hr⟩ := h
      have hreg : a'.reg sd = a.reg sd := by cases sd <;> simp [Point.reg, h4, h5]
      simp only [List.mem_cons, exists_eq_or_imp, h1, hreg, ih hr]

theorem stepY_stavesOk {staff : ObjRef → Option Nat} {y y' : YPart} {out : OutY} (h : YInv y)
    (hs : StavesOk staff y) {op : OpY} (hq : op.qdNonneg) (hp : op.partLevel = true)
    (he : stepY staff y op = .ok (y', out)) : StavesOk staff y' := by
  have hY' : YInv y' := stepY_preserves h hq he
  cases op with
  | tupletStart tup note => cases hp
  | tupletEnd tup note => cases hp
  | view name =>
    simp only [stepY, Except.ok.injEq, Prod.mk.injEq] at he
    obtain ⟨rfl, -⟩ := he; exact hs
  | duration o =>
    simp only [stepY, Except.ok.injEq, Prod.mk.injEq] at he
    obtain ⟨rfl, -⟩ := he; exact hs
  | staves =>
    simp only [stepY, Except.ok.injEq, Prod.mk.injEq] at he
    obtain ⟨rfl, -⟩ := he
    unfold readStaves
    cases hm : y.staves with
    | some n => simp only; exact hs
    | none => simp only; exact Or.inr rfl
  | base opx =>
    simp only [stepY] at he
    cases hx : stepX y.c opx with
    | error e => rw [hx] at he; cases he
    | ok r =>
      obtain ⟨c', o'⟩ := r
      rw [hx] at he
      simp only [Except.map, Except.ok.injEq, Prod.mk.injEq] at he
      obtain ⟨rfl, -⟩ := he
      -- either the memo is reset, or the starting listings are what they were
      by_cases hr : opx.resetsStaves = true
      · left; simp only [hr, if_true]
      · have hr' : opx.resetsStaves = false := by simpa using hr
        simp only [hr', Bool.false_eq_true, if_false]
        have keep : ∀ x o, Listed c'.part .start x o ↔ Listed y.c.part .start x o := by
          have hc : y.c = lift y.c.part := (cacheOk_iff y.c).mp h.2
          cases opx with
          | tpAdd sd t o => cases hp
          | tpRemove sd t o => cases hp
          | slurStart a b => cases hp
          | slurEnd a b => cases hp
          | removeX o w => cases hr'
          | addDefault o st en => cases hr'
          | iterAllX cls a b incl mode => simp only [stepX, Except.ok.injEq, Prod.mk.injEq] at hx; rw [← hx.1]; exact fun _ _ => Iff.rfl
          | mapCached xs => simp only [stepX, Except.ok.injEq, Prod.mk.injEq] at hx; rw [← hx.1]; exact fun _ _ => Iff.rfl
          | mapFresh xs => simp only [stepX, Except.ok.injEq, Prod.mk.injEq] at hx; rw [← hx.1]; exact fun _ _ => Iff.rfl
          | base op =>
            simp only [stepX] at hx
            rw [hc, stepC_lift] at hx
            cases hst : step y.c.part op with
            | error e => rw [hst] at hx; cases hx
            | ok r =>
              obtain ⟨s', o''⟩ := r
              rw [hst] at hx
              simp only [Except.map, Except.ok.injEq, Prod.mk.injEq] at hx
              obtain ⟨rfl, -⟩ := hx
              show ∀ x o, Listed s' .start x o ↔ Listed y.c.part .start x o
              cases op with
              | add o st en => cases hr'
              | remove o w => cases hr'
              | setQD t q =>
                simp only [step, Except.ok.injEq, Prod.mk.injEq] at hst
                obtain ⟨rfl, -⟩ := hst
                have hsame := (setQD_result ((wgood_iff_winv _).mpr h.1).1.toQCore (t := t) hq q).same
                exact fun x o => listed_of_same hsame .start x o
              | getOrAdd t =>
                by_cases ht : 0 ≤ t
                · obtain ⟨s'', h1, -, -, -, -, -, h7⟩ := getOrAdd_wspec ((wgood_iff_winv _).mpr h.1) ht
                  rw [hst] at h1
                  simp only [Except.ok.injEq, Prod.mk.injEq] at h1
                  obtain ⟨rfl, -⟩ := h1
                  exact fun x o => h7 .start x o
                · exfalso
                  simp only [step, stepGetOrAdd, ensurePoint] at hst
                  have : t < 0 := by omega
                  simp [this, Except.map] at hst
              | iterAll cls a b incl mode => rw [query_state rfl hst]; exact fun _ _ => Iff.rfl
              | iterPrev t cls eq incl => rw [query_state rfl hst]; exact fun _ _ => Iff.rfl
              | iterNext t cls eq incl => rw [query_state rfl hst]; exact fun _ _ => Iff.rfl
              | first => rw [query_state rfl hst]; exact fun _ _ => Iff.rfl
              | last => rw [query_state rfl hst]; exact fun _ _ => Iff.rfl
              | getPoint t => rw [query_state rfl hst]; exact fun _ _ => Iff.rfl
              | quarterDurations a b => rw [query_state rfl hst]; exact fun _ _ => Iff.rfl
        rcases hs with e | e
        · left; exact e
        · right
          rw [e]
          congr 1
          exact (computeStaves_congr h.1.sorted hY'.1.sorted keep staff).symm

theorem nextY_stavesOk {staff : ObjRef → Option Nat} {y : YPart} (h : YInv y) (hs : StavesOk staff y) {op : OpY}
    (hq : op.qdNonneg) (hp : op.partLevel = true) : StavesOk staff (nextY staff y op) := by
  unfold nextY
  cases he : stepY staff y op with
  | error e => exact hs
  | ok r =>
    obtain ⟨y', out⟩ := r
    exact stepY_stavesOk h hs hq hp he

theorem runY_stavesOk {staff : ObjRef → Option Nat} {y : YPart} (h : YInv y) (hs : StavesOk staff y)
    (ops : List OpY) (hq : ∀ op ∈ ops, op.qdNonneg) (hp : ∀ op ∈ ops, op.partLevel = true) :
    StavesOk staff (runY staff y ops) := by
  induction ops generalizing y with
  | nil => exact hs
  | cons op ops ih =>
    rw [runY_cons]
    exact ih (nextY_yinv h (hq op (by simp))) (nextY_stavesOk h hs (hq op (by simp)) (hp op (by simp)))
      (fun op' h' => hq op' (by simp [h'])) (fun op' h' => hp op' (by simp [h']))

end TL
