/-
Refinement: `soundOffs` (the literal mirror of `adjust_offsets_w_sustain`) never fails and computes, per note,
`if pedal down before the release then min(closing sentinel, pedal-up moments ≥ release, re-strikes ≥ release) else release`.
-/
import PartituraModel.Proofs.C14Pedal
import PartituraModel.Proofs.C14Clip

namespace C14P
open Model Model.Pedal

/-- sounding end of note `n = ns[i]` in the vocabulary of the property -/
def soundOffSpec (ns : List Note) (cs : List Control) (thr : Int) (i : Nat) (n : Note) : Rat :=
  if downBefore n.off (pedalStream cs thr) then
    minOf ((closing ns (pedalStream cs thr)).getD n.off) (upTimes n.off (pedalStream cs thr) ++ restrikes ns i n)
  else n.off

theorem map_zipIdx_fst {α β : Type} (f : α → β) (l : List α) (k : Nat) :
    (l.zipIdx k).map (fun m => f m.1) = l.map f := by
  induction l generalizing k with
  | nil => rfl
  | cons a rest ih => simp [List.zipIdx_cons, ih]

theorem checkSoundOff_ok (n : Note) (x : Rat) (h : n.off ≤ x) : checkSoundOff n x = some x := by
  unfold checkSoundOff
  by_cases h0 : n.off < 0
  · simp [h0]
  · have h1 : ¬ x < 0 := by intro hx; exact h0 (lt_of_le_of_lt h hx)
    have h2 : ¬ x < n.off := not_lt.mpr h
    simp [h0, h1, h2]

theorem sorted_le_last {α : Type} (key : α → Rat) (l : List α) (pl : α) (hs : SortedBy key l)
    (hl : l.getLast? = some pl) : ∀ e ∈ l, key e ≤ key pl := by
  obtain ⟨ys, rfl⟩ := List.getLast?_eq_some_iff.mp hl
  intro e he
  rcases List.mem_append.mp he with h | h
  · exact (List.pairwise_append.mp hs).2.2 e h pl (List.mem_singleton.mpr rfl)
  · rw [List.mem_singleton.mp h]

theorem lastState_eq_downBefore (r : Rat) (E : List Ev) :
    lastState false (E.filter (fun e => decide (e.1 < r))) = downBefore r E := by
  unfold lastState downBefore
  cases (E.filter (fun e => decide (e.1 < r))).getLast? <;> rfl

theorem restrikes_ge (ns : List Note) (i : Nat) (n : Note) : ∀ y ∈ restrikes ns i n, n.off ≤ y := by
  intro y hy
  obtain ⟨m, hm, rfl⟩ := List.mem_map.mp hy
  have := (List.mem_filter.mp hm).2
  simp only [Bool.and_eq_true, decide_eq_true_eq] at this
  exact this.2

theorem upTimes_ge (r : Rat) (E : List Ev) : ∀ y ∈ upTimes r E, r ≤ y := by
  intro y hy
  obtain ⟨e, he, rfl⟩ := List.mem_map.mp hy
  have := (List.mem_filter.mp he).2
  simp only [Bool.and_eq_true, decide_eq_true_eq] at this
  exact this.1

theorem off_le_maxOf (n0 : Note) (rest : List Note) (n : Note) (hn : n ∈ n0 :: rest) :
    n.off ≤ maxOf n0.off (rest.map (·.off)) := by
  apply le_maxOf
  rcases List.mem_cons.mp hn with rfl | h
  · exact Or.inl rfl
  · exact Or.inr (List.mem_map.mpr ⟨n, h, rfl⟩)

theorem minOf_le_off (n0 : Note) (rest : List Note) (n : Note) (hn : n ∈ n0 :: rest) :
    minOf n0.off (rest.map (·.off)) ≤ n.off := by
  apply minOf_le
  rcases List.mem_cons.mp hn with rfl | h
  · exact Or.inl rfl
  · exact Or.inr (List.mem_map.mpr ⟨n, h, rfl⟩)

/-- the closing sentinel lies after every release -/
theorem closing_gt (ns : List Note) (E : List Ev) (c : Rat) (hc : closing ns E = some c) (n : Note) (hn : n ∈ ns) :
    n.off < c := by
  unfold closing at hc
  cases ns with
  | nil => cases hn
  | cons n0 rest =>
    cases hl : E.getLast? with
    | none => simp [hl] at hc
    | some pl =>
      simp only [hl, Option.some.injEq] at hc
      have h1 := off_le_maxOf n0 rest n hn
      have h2 : maxOf n0.off (rest.map (·.off)) + 1 ≤ c := by rw [← hc]; exact le_max_right _ _
      linarith

/-- the sounding end is never before the release -/
theorem spec_ge_off (ns : List Note) (cs : List Control) (thr : Int) (i : Nat) (n : Note) (hn : n ∈ ns) :
    n.off ≤ soundOffSpec ns cs thr i n := by
  unfold soundOffSpec
  split
  · apply le_foldl_min
    · cases hc : closing ns (pedalStream cs thr) with
      | none => exact le_refl _
      | some c => exact le_of_lt (closing_gt ns _ c hc n hn)
    · intro y hy
      rcases List.mem_append.mp hy with h | h
      · exact upTimes_ge _ _ y h
      · exact restrikes_ge _ _ _ y h
  · exact le_refl _

/-- `adjust_offsets_w_sustain` never fails and computes `soundOffSpec` for every note -/
theorem soundOffs_eq (ns : List Note) (cs : List Control) (thr : Int) :
    soundOffs ns cs thr = some (ns.zipIdx.map (fun m => soundOffSpec ns cs thr m.2 m.1)) := by
  cases ns with
  | nil => rfl
  | cons n0 rest =>
    unfold soundOffs
    cases hped : pedalEvents cs thr with
    | nil =>
      -- no pedal events: every note keeps its release
      have hstream : pedalStream cs thr = [] := by simp [pedalStream, hped, sortBy]
      simp only
      have : ∀ m ∈ (n0 :: rest).zipIdx, soundOffSpec (n0 :: rest) cs thr m.2 m.1 = m.1.off := by
        intro m _
        simp [soundOffSpec, hstream, downBefore]
      rw [List.map_congr_left this]
      have h2 := mapM'_eq_some (fun n : Note => checkSoundOff n n.off) (fun n => n.off) (n0 :: rest)
        (fun n _ => checkSoundOff_ok n n.off (le_refl _))
      rw [h2]
      congr 1
      exact (map_zipIdx_fst (fun n : Note => n.off) (n0 :: rest) 0).symm
    | cons p ps =>
      simp only
      have hE : SortedBy (·.1) (sortBy (fun e : Ev => e.1) (p :: ps)) := sorted_sortBy _ _
      have hstream : pedalStream cs thr = sortBy (fun e : Ev => e.1) (p :: ps) := by simp [pedalStream, hped]
      -- the table exists
      cases hT : pedalTable (sortBy (fun e : Ev => e.1) (p :: ps)) (minOf n0.off (rest.map (·.off)))
          (maxOf n0.off (rest.map (·.off))) with
      | none =>
        exfalso
        unfold pedalTable at hT
        have hlen := length_sortBy (fun e : Ev => e.1) (p :: ps)
        cases hs : sortBy (fun e : Ev => e.1) (p :: ps) with
        | nil => simp [hs] at hlen
        | cons q qs =>
          rw [hs] at hT
          cases hl : (q :: qs).getLast? with
          | none => simp at hl
          | some pl => simp [hl] at hT
      | some T =>
        simp only
        apply mapM'_eq_some
        intro m hm
        have hmem : m.1 ∈ n0 :: rest := by
          have := List.mem_zipIdx_iff_getElem?.mp hm
          exact List.mem_of_getElem? this
        obtain ⟨pl, hpl, hend⟩ := pedalEnd_table _ _ _ m.1.off T hT hE
          (minOf_le_off n0 rest m.1 hmem) (off_le_maxOf n0 rest m.1 hmem)
        rw [hend]
        simp only
        have hcl : closing (n0 :: rest) (pedalStream cs thr)
            = some (max (pl.1 + 1) (maxOf n0.off (rest.map (·.off)) + 1)) := by
          rw [hstream]; simp [closing, hpl]
        have hle : ∀ e ∈ sortBy (fun e : Ev => e.1) (p :: ps),
            e.1 ≤ max (pl.1 + 1) (maxOf n0.off (rest.map (·.off)) + 1) := by
          intro e he
          have := sorted_le_last (fun e : Ev => e.1) _ pl hE hpl e he
          have h2 : pl.1 + 1 ≤ max (pl.1 + 1) (maxOf n0.off (rest.map (·.off)) + 1) := le_max_left _ _
          linarith
        rw [specEnd_eq _ _ false _ hE hle, lastState_eq_downBefore, restrikeClip_spec]
        have hspec : soundOffSpec (n0 :: rest) cs thr m.2 m.1 =
            minOf (if downBefore m.1.off (sortBy (fun e : Ev => e.1) (p :: ps)) then
                minOf (max (pl.1 + 1) (maxOf n0.off (rest.map (·.off)) + 1))
                  (upTimes m.1.off (sortBy (fun e : Ev => e.1) (p :: ps)))
              else m.1.off) (restrikes (n0 :: rest) m.2 m.1) := by
          unfold soundOffSpec
          rw [hcl, hstream]
          split
          · simp [minOf, List.foldl_append]
          · symm
            exact foldl_min_eq_init _ _ (restrikes_ge _ _ _)
        rw [← hspec]
        exact checkSoundOff_ok _ _ (spec_ge_off _ _ _ _ _ hmem)

theorem soundOffAt_eq (ns : List Note) (cs : List Control) (thr : Int) (i : Nat) :
    soundOffAt ns cs thr i = ns[i]?.map (fun n => soundOffSpec ns cs thr i n) := by
  unfold soundOffAt
  rw [soundOffs_eq]
  simp only [List.getElem?_map, List.getElem?_zipIdx, Option.map_map]
  cases ns[i]? <;> simp

end C14P
