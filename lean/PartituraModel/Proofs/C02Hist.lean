/-
C02 helper lemmas (round 2): `set_quarter_duration` keeps the quarter lists well formed.
-/
import PartituraModel.Model.TimeMapHist
import PartituraModel.Proofs.C02Args

namespace C02Proofs
open Model.TimeMap

/-- every entry after `set_quarter_duration(t, q)` is the new one or an old one with its time (the
value of an old entry at time `t` is replaced) -/
theorem setQDAux_mem (t : Int) (q : Nat) : ∀ (l : List (Int × Nat)) (prev : Option Nat) (e : Int × Nat),
    e ∈ setQDAux t q prev l → e = (t, q) ∨ e ∈ l
  | [], prev, e, h => by
    unfold setQDAux at h
    split_ifs at h
    · simp at h
    · simp only [List.mem_singleton] at h; exact Or.inl h
  | (t0, q0) :: rest, prev, e, h => by
    unfold setQDAux at h
    split_ifs at h with h1 h2 h3
    · rcases List.mem_cons.mp h with h | h
      · exact Or.inr (by rw [h]; exact List.mem_cons_self)
      · rcases setQDAux_mem t q rest _ e h with h | h
        · exact Or.inl h
        · exact Or.inr (List.mem_cons_of_mem _ h)
    · rcases List.mem_cons.mp h with h | h
      · exact Or.inl (by rw [h, h2])
      · exact Or.inr (List.mem_cons_of_mem _ h)
    · exact Or.inr h
    · rcases List.mem_cons.mp h with h | h
      · exact Or.inl h
      · exact Or.inr h

theorem setQDAux_times (t : Int) (q : Nat) (l : List (Int × Nat)) (prev : Option Nat) (x : Int)
    (h : x ∈ (setQDAux t q prev l).map (·.1)) : x = t ∨ x ∈ l.map (·.1) := by
  obtain ⟨e, he, rfl⟩ := List.mem_map.mp h
  rcases setQDAux_mem t q l prev e he with h | h
  · exact Or.inl (by rw [h])
  · exact Or.inr (List.mem_map.mpr ⟨e, h, rfl⟩)

/-- the change times stay strictly increasing -/
theorem setQDAux_pairwise (t : Int) (q : Nat) : ∀ (l : List (Int × Nat)) (prev : Option Nat),
    (l.map (·.1)).Pairwise (· < ·) → ((setQDAux t q prev l).map (·.1)).Pairwise (· < ·)
  | [], prev, _ => by
    unfold setQDAux
    split_ifs <;> simp
  | (t0, q0) :: rest, prev, hp => by
    have hp' := List.pairwise_cons.mp (by simpa using hp : (t0 :: rest.map (·.1)).Pairwise (· < ·))
    unfold setQDAux
    split_ifs with h1 h2 h3
    · simp only [List.map_cons, List.pairwise_cons]
      refine ⟨?_, setQDAux_pairwise t q rest _ hp'.2⟩
      intro x hx
      rcases setQDAux_times t q rest _ x hx with h | h
      · omega
      · exact hp'.1 x h
    · simpa using hp
    · exact hp
    · simp only [List.map_cons, List.pairwise_cons]
      refine ⟨?_, by simpa using hp⟩
      intro x hx
      rcases List.mem_cons.mp hx with h | h
      · omega
      · have := hp'.1 x h; omega

/-- the first entry stays at time 0 when no negative time is used -/
theorem setQD_head (a : Nat) (r : List (Int × Nat)) (t : Int) (q : Nat) (ht : 0 ≤ t) :
    ∃ a' r', setQD ((0, a) :: r) t q = (0, a') :: r' := by
  unfold setQD setQDAux
  by_cases h1 : (0 : Int) < t
  · rw [if_pos h1]; exact ⟨a, _, rfl⟩
  · rw [if_neg h1, if_pos (by omega)]; exact ⟨q, _, rfl⟩

/-- in a strictly increasing list with two or more elements the head is smaller than the last -/
theorem head_lt_lastOf (a b : Int) (rest : List Int) (hp : (a :: b :: rest).Pairwise (· < ·)) :
    a < lastOf (a :: b :: rest) := by
  have hp' := List.pairwise_cons.mp hp
  have h1 : a < b := hp'.1 b List.mem_cons_self
  have h2 := le_lastOf (b :: rest) hp'.2 b List.mem_cons_self
  simp only [lastOf]
  omega

end C02Proofs
