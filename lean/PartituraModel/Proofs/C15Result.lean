/-
C15 helper lemmas, part 3: when `mergeParts` succeeds and what its result is.
-/
import PartituraModel.Proofs.C15Voices

namespace C15
open Model.Merge

theorem insertBy_perm (le : Elem → Elem → Bool) (x : Elem) (l : List Elem) :
    (insertBy le x l).Perm (x :: l) := by
  induction l with
  | nil => exact List.Perm.refl _
  | cons y ys ih =>
    simp only [insertBy]
    split
    · exact List.Perm.refl _
    · exact ((ih.cons y).trans (List.Perm.swap x y ys))

theorem isort_perm (le : Elem → Elem → Bool) (l : List Elem) : (isort le l).Perm l := by
  induction l with
  | nil => exact List.Perm.refl _
  | cons x xs ih =>
    have : isort le (x :: xs) = insertBy le x (isort le xs) := rfl
    rw [this]
    exact (insertBy_perm le x _).trans (ih.cons x)

theorem keysOk_ctxOf (L : Nat) (first : Bool) (vo so np : Nat) (p : APart) {e : Elem} (he : e ∈ allElems p) :
    keysOk (ctxOf L first vo so np p) e = true := by
  simp only [keysOk, ctxOf, Bool.and_eq_true, Bool.or_eq_true, Bool.not_eq_true']
  constructor
  · cases hg : isGeneric e.cls with
    | false => exact Or.inl rfl
    | true =>
      right
      cases hv : e.voice with
      | none => rfl
      | some v => simpa using voice_mem_uVoices he hg hv
  · cases hs : withStaff e.cls with
    | false => exact Or.inl rfl
    | true => right; simpa using staff_mem_uStaves he hs

/-- after the repairs the dictionary lookups of auto mode cannot fail -/
theorem keysFrom_true (m : Mode) (L : Nat) (first : Bool) (vo so np : Nat) (ps : List APart) :
    keysFrom m L first vo so np ps = true := by
  induction ps generalizing first vo so np with
  | nil => rfl
  | cons p ps ih =>
    simp only [keysFrom, Bool.and_eq_true, List.all_eq_true]
    exact ⟨fun e he => keysOk_ctxOf L first vo so np p (List.mem_filter.mp he).1, ih _ _ _ _⟩

/-- the result of `mergeParts` on two or more parts -/
theorem mergeParts_two (m : Mode) (p q : APart) (rest : List APart) :
    mergeParts m (p :: q :: rest) =
      if (p :: q :: rest).all (fun p => 0 < p.divs) && voicesGiven (p :: q :: rest) then
        some (.merged (lcmList ((p :: q :: rest).map (·.divs)))
          (isort iterLe (mergeFrom m (lcmList ((p :: q :: rest).map (·.divs))) true 0 0 0 (p :: q :: rest))))
      else none := by
  simp only [mergeParts, keysFrom_true, Bool.or_true, Bool.and_true]

theorem mergeParts_merged_iff {m : Mode} {ps : List APart} {L : Nat} {es : List Elem} :
    mergeParts m ps = some (.merged L es) ↔
      2 ≤ ps.length ∧ (∀ p ∈ ps, 0 < p.divs) ∧ voicesGiven ps = true ∧ L = lcmList (ps.map (·.divs))
        ∧ es = isort iterLe (mergeFrom m L true 0 0 0 ps) := by
  match ps with
  | [] => simp [mergeParts]
  | [p] => simp [mergeParts]
  | p :: q :: rest =>
    rw [mergeParts_two]
    constructor
    · intro h
      split at h
      · rename_i hc
        simp only [Bool.and_eq_true, List.all_eq_true, decide_eq_true_eq] at hc
        simp only [Option.some.injEq, Result.merged.injEq] at h
        obtain ⟨rfl, rfl⟩ := h
        exact ⟨by simp, hc.1, hc.2, rfl, rfl⟩
      · cases h
    · rintro ⟨_, hpos, hv, rfl, rfl⟩
      have : ((p :: q :: rest).all (fun p => 0 < p.divs) && voicesGiven (p :: q :: rest)) = true := by
        simp only [Bool.and_eq_true, List.all_eq_true, decide_eq_true_eq]
        exact ⟨hpos, hv⟩
      rw [if_pos this]

theorem merged_perm {m : Mode} {ps : List APart} {L : Nat} {es : List Elem}
    (h : mergeParts m ps = some (.merged L es)) : es.Perm (mergeFrom m L true 0 0 0 ps) := by
  obtain ⟨_, _, _, _, rfl⟩ := mergeParts_merged_iff.mp h
  exact isort_perm _ _

end C15
