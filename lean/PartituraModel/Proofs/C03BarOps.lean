/-
C03 — `do_barlines` (grouping by onset), the pairing of repeats and endings through `ongoing`, `<harmony>`, `<print>`.
-/
import PartituraModel.Model.XmlBar
import Mathlib.Data.List.Perm.Basic
import Mathlib.Tactic.Linarith

namespace C03.BarOps
open Model Model.XmlNote Model.XmlBar

/-! ### `sorted(by_onset.keys())` -/

theorem mem_insertKey {x y : Nat} {l : List Nat} : y ∈ insertKey x l ↔ y = x ∨ y ∈ l := by
  induction l with
  | nil => simp [insertKey]
  | cons z zs ih =>
    unfold insertKey
    by_cases h1 : x < z
    · simp [h1]
    · by_cases h2 : x = z
      · subst h2; simp
      · simp only [h1, h2, if_false, List.mem_cons, ih]
        tauto

theorem insertKey_sorted (x : Nat) {l : List Nat} (h : l.Pairwise (· < ·)) : (insertKey x l).Pairwise (· < ·) := by
  induction l with
  | nil => simp [insertKey]
  | cons z zs ih =>
    obtain ⟨hz, hzs⟩ := List.pairwise_cons.mp h
    unfold insertKey
    by_cases h1 : x < z
    · simp only [h1, if_true]
      refine List.pairwise_cons.mpr ⟨?_, h⟩
      intro y hy
      rcases List.mem_cons.mp hy with rfl | hy
      · exact h1
      · exact Nat.lt_trans h1 (hz y hy)
    · by_cases h2 : x = z
      · simpa [h1, h2] using h
      · simp only [h1, h2, if_false]
        refine List.pairwise_cons.mpr ⟨?_, ih hzs⟩
        intro y hy
        rcases mem_insertKey.mp hy with rfl | hy
        · omega
        · exact hz y hy

theorem sortedKeys_sorted (l : List Nat) : (sortedKeys l).Pairwise (· < ·) := by
  induction l with
  | nil => simp [sortedKeys]
  | cons x xs ih => exact insertKey_sorted x ih

theorem mem_sortedKeys {t : Nat} {l : List Nat} : t ∈ sortedKeys l ↔ t ∈ l := by
  induction l with
  | nil => simp [sortedKeys]
  | cons x xs ih =>
    show t ∈ insertKey x (sortedKeys xs) ↔ _
    rw [mem_insertKey, ih, List.mem_cons]

theorem sortedKeys_nodup (l : List Nat) : (sortedKeys l).Nodup :=
  (sortedKeys_sorted l).imp (fun h => Nat.ne_of_lt h)

/-! ### every entry of `by_onset` is in exactly one barline -/

theorem sum_single {α : Type} [DecidableEq α] (ks : List α) (hnd : ks.Nodup) (k : α) (c : Nat) :
    (ks.map fun t => if k = t then c else 0).sum = if k ∈ ks then c else 0 := by
  induction ks with
  | nil => simp
  | cons t ts ih =>
    obtain ⟨hnot, hts⟩ := List.nodup_cons.mp hnd
    rw [List.map_cons, List.sum_cons, ih hts]
    by_cases h1 : k = t
    · subst h1; simp [hnot]
    · simp [h1]

/-- grouping a list by key over a duplicate-free list of keys that contains every key loses and adds nothing -/
theorem groups_perm {β : Type} [DecidableEq β] (es : List (Nat × β)) (ks : List Nat) (hnd : ks.Nodup)
    (hall : ∀ e ∈ es, e.1 ∈ ks) : (ks.flatMap fun t => es.filter fun e => e.1 == t).Perm es := by
  rw [List.perm_iff_count]
  intro x
  rw [List.count_flatMap]
  have : (List.map (List.count x ∘ fun t => es.filter fun e => e.1 == t) ks) =
      ks.map fun t => if x.1 = t then es.count x else 0 := by
    apply List.map_congr_left
    intro t _
    simp only [Function.comp]
    by_cases h : x.1 = t
    · rw [if_pos h, List.count_filter (by simpa using h)]
    · rw [if_neg h]
      apply List.count_eq_zero.mpr
      intro hm
      exact h (by simpa using (List.mem_filter.mp hm).2)
  rw [this, sum_single ks hnd]
  by_cases hx : x.1 ∈ ks
  · simp [hx]
  · have : x ∉ es := fun hm => hx (hall x hm)
    simp [hx, List.count_eq_zero.mpr this]

theorem itemsAt_pairs (es : List (Nat × BarItem)) (t : Nat) :
    (itemsAt es t).map (fun i => (t, i)) = es.filter fun e => e.1 == t := by
  unfold itemsAt
  rw [List.map_map]
  conv_rhs => rw [← List.map_id (es.filter fun e => e.1 == t)]
  apply List.map_congr_left
  intro e he
  have : e.1 = t := by simpa using (List.mem_filter.mp he).2
  simp [← this]

theorem barGroups_cover (start stop : Nat) (s : BarSrc) :
    ((barGroups start stop s).flatMap fun g => g.2.2.map fun i => (g.1, i)).Perm (entries s) := by
  unfold barGroups
  rw [List.flatMap_map]
  simp only [itemsAt_pairs]
  exact groups_perm (entries s) _ (sortedKeys_nodup _) (fun e he => mem_sortedKeys.mpr (List.mem_map_of_mem he))

theorem barGroups_onsets (start stop : Nat) (s : BarSrc) :
    ((barGroups start stop s).map (·.1)).Pairwise (· < ·) := by
  unfold barGroups
  rw [List.map_map]
  have : ((fun g : Nat × Loc × List BarItem => g.1) ∘ fun t => (t, locOf start stop t, itemsAt (entries s) t)) = id := rfl
  rw [this, List.map_id]
  exact sortedKeys_sorted ((entries s).map (·.1))

theorem barGroups_nonempty (start stop : Nat) (s : BarSrc) :
    ∀ g ∈ barGroups start stop s, g.2.1 = locOf start stop g.1 ∧ g.2.2 ≠ [] := by
  intro g hg
  unfold barGroups at hg
  obtain ⟨t, ht, rfl⟩ := List.mem_map.mp hg
  refine ⟨rfl, ?_⟩
  obtain ⟨e, he, het⟩ := List.mem_map.mp (mem_sortedKeys.mp ht)
  unfold itemsAt
  intro hnil
  have : e ∈ (entries s).filter fun e => e.1 == t := List.mem_filter.mpr ⟨he, by simp [het]⟩
  rw [List.map_eq_nil_iff] at hnil
  rw [hnil] at this
  cases this

/-! ### repeats through `ongoing["repeat"]` -/

def _root_.Model.XmlBar.BarOp.rep? : BarOp → Option (RepDir × Nat)
  | .rep d pos => some (d, pos)
  | .ending _ _ _ => none

def _root_.Model.XmlBar.BarOp.end? : BarOp → Option (EndType × Option Str × Nat)
  | .rep _ _ => none
  | .ending ty n pos => some (ty, n, pos)

/-- the calls of `_handle_repeat` a list of repeats causes when each is met first at its start, then at its end -/
def repCalls (rs : List (Nat × Nat)) : List (RepDir × Nat) :=
  rs.flatMap fun r => [(RepDir.forward, r.1), (RepDir.backward, r.2)]

def endCalls (es : List (Option Str × Nat × Nat)) (stopNumbers : List (Option Str)) : List (EndType × Option Str × Nat) :=
  (es.zip stopNumbers).flatMap fun p => [(EndType.start, p.1.1, p.1.2.1), (EndType.stop, p.2, p.1.2.2)]

theorem mapIdx_id_of {α : Type} (f : Nat → α → α) (l : List α) (h : ∀ i (hi : i < l.length), f i l[i] = l[i]) :
    l.mapIdx f = l := by
  apply List.ext_getElem (by simp)
  intro i h1 h2
  simp [h i h2]

theorem setRepStop_last (l : List RepObj) (o : RepObj) (t : Nat) :
    setRepStop (l ++ [o]) l.length t = l ++ [{ o with stop := some t }] := by
  unfold setRepStop
  rw [List.mapIdx_append]
  simp only [List.mapIdx_cons, List.mapIdx_nil, Nat.zero_add, if_true]
  congr 1
  exact mapIdx_id_of _ l (fun i hi => by simp [Nat.ne_of_lt hi])

theorem setEndStop_last (l : List EndObj) (o : EndObj) (t : Nat) :
    setEndStop (l ++ [o]) l.length t = l ++ [{ o with stop := some t }] := by
  unfold setEndStop
  rw [List.mapIdx_append]
  simp only [List.mapIdx_cons, List.mapIdx_nil, Nat.zero_add, if_true]
  congr 1
  exact mapIdx_id_of _ l (fun i hi => by simp [Nat.ne_of_lt hi])

/-- `_handle_repeat` on the part of the state it touches -/
def repStep (s : List RepObj × Option Nat) (c : RepDir × Nat) : List RepObj × Option Nat :=
  match c.1 with
  | .forward => (s.1 ++ [{ start := some c.2, stop := none }], some s.1.length)
  | .backward =>
    match s.2 with
    | some i => (setRepStop s.1 i c.2, none)
    | none => (s.1 ++ [{ start := none, stop := some c.2 }], none)
  | .other => s

def endStep (s : List EndObj × Option Nat) (c : EndType × Option Str × Nat) : List EndObj × Option Nat :=
  match c.1 with
  | .start => (s.1 ++ [{ number := c.2.1, start := some c.2.2, stop := none }], some s.1.length)
  | .stop =>
    match s.2 with
    | some i => (setEndStop s.1 i c.2.2, none)
    | none => (s.1 ++ [{ number := c.2.1, start := none, stop := some c.2.2 }], none)
  | .other => s

theorem applyOp_repState (st : BarState) (op : BarOp) :
    ((applyOp st op).repeats, (applyOp st op).openRepeat) =
      match op.rep? with
      | some c => repStep (st.repeats, st.openRepeat) c
      | none => (st.repeats, st.openRepeat) := by
  cases op with
  | rep d pos =>
    simp only [BarOp.rep?, applyOp, handleRepeat, repStep]
    cases d with
    | forward => rfl
    | backward => cases st.openRepeat <;> rfl
    | other => rfl
  | ending ty n pos =>
    simp only [BarOp.rep?, applyOp, handleEnding]
    cases ty with
    | start => rfl
    | stop => cases st.openEnding <;> rfl
    | other => rfl

theorem applyOp_endState (st : BarState) (op : BarOp) :
    ((applyOp st op).endings, (applyOp st op).openEnding) =
      match op.end? with
      | some c => endStep (st.endings, st.openEnding) c
      | none => (st.endings, st.openEnding) := by
  cases op with
  | ending ty n pos =>
    simp only [BarOp.end?, applyOp, handleEnding, endStep]
    cases ty with
    | start => rfl
    | stop => cases st.openEnding <;> rfl
    | other => rfl
  | rep d pos =>
    simp only [BarOp.end?, applyOp, handleRepeat]
    cases d with
    | forward => rfl
    | backward => cases st.openRepeat <;> rfl
    | other => rfl

/-- the repeats after any sequence of calls depend on the repeat calls alone -/
theorem foldl_repState (ops : List BarOp) (st : BarState) :
    ((ops.foldl applyOp st).repeats, (ops.foldl applyOp st).openRepeat) =
      (ops.filterMap BarOp.rep?).foldl repStep (st.repeats, st.openRepeat) := by
  induction ops generalizing st with
  | nil => rfl
  | cons op ops ih =>
    rw [List.foldl_cons, ih, applyOp_repState, List.filterMap_cons]
    cases h : op.rep? <;> simp

theorem foldl_endState (ops : List BarOp) (st : BarState) :
    ((ops.foldl applyOp st).endings, (ops.foldl applyOp st).openEnding) =
      (ops.filterMap BarOp.end?).foldl endStep (st.endings, st.openEnding) := by
  induction ops generalizing st with
  | nil => rfl
  | cons op ops ih =>
    rw [List.foldl_cons, ih, applyOp_endState, List.filterMap_cons]
    cases h : op.end? <;> simp

theorem repCalls_fold (rs : List (Nat × Nat)) (base : List RepObj) :
    (repCalls rs).foldl repStep (base, none) = (base ++ rs.map fun r => ⟨some r.1, some r.2⟩, none) := by
  induction rs generalizing base with
  | nil => simp [repCalls]
  | cons r rs ih =>
    have : repCalls (r :: rs) = (RepDir.forward, r.1) :: (RepDir.backward, r.2) :: repCalls rs := by
      simp [repCalls]
    rw [this, List.foldl_cons, List.foldl_cons]
    simp only [repStep, setRepStop_last]
    rw [ih]
    simp

theorem endCalls_fold (es : List (Option Str × Nat × Nat)) (ns : List (Option Str)) (hlen : ns.length = es.length)
    (base : List EndObj) :
    (endCalls es ns).foldl endStep (base, none) = (base ++ es.map fun e => ⟨e.1, some e.2.1, some e.2.2⟩, none) := by
  induction es generalizing base ns with
  | nil => simp [endCalls]
  | cons e es ih =>
    cases ns with
    | nil => simp at hlen
    | cons n ns =>
      have : endCalls (e :: es) (n :: ns) =
          (EndType.start, e.1, e.2.1) :: (EndType.stop, n, e.2.2) :: endCalls es ns := by
        simp [endCalls]
      rw [this, List.foldl_cons, List.foldl_cons]
      simp only [endStep, setEndStop_last]
      rw [ih ns (by simpa using hlen)]
      simp

/-! ### `<harmony>` -/

theorem splitOn_of_not_contains (c : Char) (t : Str) (h : t.contains c = false) : splitOn c t = [t] := by
  induction t with
  | nil => rfl
  | cons x xs ih =>
    have hx : x ≠ c ∧ xs.contains c = false := by
      simp only [List.contains_cons, Bool.or_eq_false_iff, beq_eq_false_iff_ne, ne_eq] at h
      exact ⟨fun e => h.1 e.symm, h.2⟩
    unfold splitOn
    rw [ih hx.2]
    simp [hx.1]

theorem harmony_roundtrip (w : HarmW) (h : WellFormedHarm w) : readHarmony (writeHarmony w) = canonHarmony w := by
  cases w with
  | roman t =>
    obtain ⟨hne, hbar⟩ := h
    have hf : find tFunction [leaf tFunction t, kindEl []] = some (leaf tFunction t) := by
      simp [find, findall, leaf, Xml.tag, kindEl, tFunction, tKind, nFunction, nKind]
    have hmem : '|' ∉ t := by simpa using hbar
    simp only [readHarmony, writeHarmony, Xml.kids, hf, canonHarmony]
    simp [leaf, Xml.text, hne, hmem]
  | chord root kind bass =>
    have hroot : root ≠ [] := h
    simp only [readHarmony, writeHarmony, Xml.kids, canonHarmony]
    cases bass with
    | none =>
      simp [find, findall, findPath, leaf, Xml.tag, Xml.kids, Xml.text, kindEl, tFunction, tKind, tRoot, tRootStep, tBass,
        tBassStep, nFunction, nKind, nRoot, nRootStep, nBass, nBassStep, hroot, Xml.get, Xml.attrs, Model.lookup]
    | some b =>
      by_cases hb : b = [] <;>
      simp [find, findall, findPath, leaf, Xml.tag, Xml.kids, Xml.text, kindEl, tFunction, tKind, tRoot, tRootStep, tBass,
        tBassStep, nFunction, nKind, nRoot, nRootStep, nBass, nBassStep, hroot, Xml.get, Xml.attrs, Model.lookup, hb]
  | cadence t =>
    have hbar : t.contains '|' = false := h
    have hf : find tFunction [leaf tFunction ('|' :: t), kindEl []] = some (leaf tFunction ('|' :: t)) := by
      simp [find, findall, leaf, Xml.tag, kindEl, tFunction, tKind, nFunction, nKind]
    have hs : splitOn '|' ('|' :: t) = [[], t] := by
      unfold splitOn
      rw [splitOn_of_not_contains '|' t hbar]
      simp
    simp only [readHarmony, writeHarmony, Xml.kids, hf, canonHarmony]
    simp [leaf, Xml.text, hs]

/-! ### `<print>` -/

theorem print_roundtrip (p s : Bool) : readPrint (writePrint p s) = (p, s) := by
  cases p <;> cases s <;> decide

end C03.BarOps
