/-
C04 (round 5) — when `saveScoreMidi` returns: every tick the exporter writes is the image of a timeline position
(or 0), no image is negative for a well-formed score, and the other three failure points (origin, signature of a
measure, unsupported mode / no note at all) are decided by the input.
-/
import PartituraModel.Proofs.C04Export

namespace C04Tot
open Model Model.Ticks Model.MidiPair Model.MidiModes Model.ScoreMidi

-- ------------------------------------------------------------------ keys of the dicts

section dicts
variable {β : Type} (Q : Int → Prop)

def KeysQ (d : List (Int × β)) : Prop := ∀ e ∈ d, Q e.1

theorem keysQ_dictAppend (d : List (Int × List β)) (k : Int) (v : β) (h : KeysQ Q d) (hk : Q k) :
    KeysQ Q (dictAppend d k v) := by
  unfold dictAppend
  split
  · intro e he
    obtain ⟨e', he', rfl⟩ := List.mem_map.mp he
    split
    · exact hk
    · exact h e' he'
  · intro e he
    rcases List.mem_append.mp he with h1 | h1
    · exact h e h1
    · simp only [List.mem_singleton] at h1
      subst h1
      exact hk

theorem keysQ_dictSet (d : List (Int × β)) (k : Int) (v : β) (h : KeysQ Q d) (hk : Q k) :
    KeysQ Q (dictSet d k v) := by
  unfold dictSet
  split
  · intro e he
    obtain ⟨e', he', rfl⟩ := List.mem_map.mp he
    split
    · exact hk
    · exact h e' he'
  · intro e he
    rcases List.mem_append.mp he with h1 | h1
    · exact h e h1
    · simp only [List.mem_singleton] at h1
      subst h1
      exact hk

theorem keysQ_foldl_append {γ : Type} (kf : γ → Int) (vf : γ → β) (l : List γ) (d : List (Int × List β))
    (h : KeysQ Q d) (hk : ∀ x ∈ l, Q (kf x)) :
    KeysQ Q (l.foldl (fun d x => dictAppend d (kf x) (vf x)) d) := by
  induction l generalizing d with
  | nil => exact h
  | cons x xs ih =>
    simp only [List.foldl_cons]
    exact ih _ (keysQ_dictAppend Q d _ _ h (hk x List.mem_cons_self)) (fun y hy => hk y (List.mem_cons_of_mem _ hy))

end dicts

theorem mem_flattenDict (d : MetaDict) (x : Int × Msg) (hx : x ∈ flattenDict d) : ∃ e ∈ d, x.1 = e.1 := by
  simp only [flattenDict, List.mem_flatMap, List.mem_map] at hx
  obtain ⟨e, he, m, _, rfl⟩ := hx
  exact ⟨e, he, rfl⟩

theorem tscMeasures_keys (Q : Int → Prop) (b : TimeBase) (tk : Nat → Int) (hQ : ∀ t, Q (tk t)) (tsTimes : List Nat)
    (ms : List (Nat × Nat)) (d : MetaDict) (irr : List Nat) (r : MetaDict × List Nat)
    (h : tscMeasures b tk tsTimes ms d irr = some r) (hd : KeysQ Q d) : KeysQ Q r.1 := by
  induction ms generalizing d irr with
  | nil =>
    simp only [tscMeasures, Option.some.injEq] at h
    subst h
    exact hd
  | cons m rest ih =>
    obtain ⟨s, e⟩ := m
    unfold tscMeasures at h
    split at h
    · cases h
    · dsimp only at h
      split at h
      · generalize refineBeats 8 _ _ = rb at h
        obtain ⟨nb, nbt⟩ := rb
        dsimp only at h
        have h1 := keysQ_dictAppend Q d (tk s) (Msg.timeSig (truncInt nb) nbt) hd (hQ s)
        refine ih _ _ h ?_
        split
        · exact h1
        · exact keysQ_dictAppend Q _ (tk e) _ h1 (hQ e)
      · exact ih _ _ h hd

/-- the measure loop returns when every measure has a time signature in force at its start -/
theorem tscMeasures_some (b : TimeBase) (tk : Nat → Int) (tsTimes : List Nat) (ms : List (Nat × Nat))
    (d : MetaDict) (irr : List Nat) (h : ∀ m ∈ ms, (tsAt b m.1).isSome) :
    (tscMeasures b tk tsTimes ms d irr).isSome := by
  induction ms generalizing d irr with
  | nil => simp [tscMeasures]
  | cons m rest ih =>
    obtain ⟨s, e⟩ := m
    unfold tscMeasures
    have hs := h (s, e) List.mem_cons_self
    cases hts : tsAt b s with
    | none => rw [hts] at hs; cases hs
    | some v =>
      obtain ⟨beats, bt⟩ := v
      simp only
      split
      · exact ih _ _ (fun m hm => h m (List.mem_cons_of_mem _ hm))
      · exact ih _ _ (fun m hm => h m (List.mem_cons_of_mem _ hm))

/-- and only then -/
theorem tscMeasures_none (b : TimeBase) (tk : Nat → Int) (tsTimes : List Nat) (ms : List (Nat × Nat))
    (d : MetaDict) (irr : List Nat) (m : Nat × Nat) (hm : m ∈ ms) (h : tsAt b m.1 = none) :
    tscMeasures b tk tsTimes ms d irr = none := by
  induction ms generalizing d irr with
  | nil => cases hm
  | cons m' rest ih =>
    obtain ⟨s, e⟩ := m'
    unfold tscMeasures
    cases hts : tsAt b s with
    | none => rfl
    | some v =>
      obtain ⟨beats, bt⟩ := v
      simp only
      rcases List.mem_cons.mp hm with rfl | hm'
      · rw [h] at hts; cases hts
      · split
        · exact ih _ _ hm'
        · exact ih _ _ hm'

theorem partMetas_keys (Q : Int → Prop) (a : Anacrusis) (p : PartIn) (tk : Nat → Int) (hQ : ∀ t, Q (tk t)) (h0 : Q 0)
    (d : MetaDict) (h : partMetas a p tk = some d) : KeysQ Q d := by
  unfold partMetas at h
  simp only [Option.map_eq_some_iff] at h
  obtain ⟨d0, hd0, rfl⟩ := h
  have hks : ∀ d1 : MetaDict, KeysQ Q d1 →
      KeysQ Q (p.ks.foldl (fun d ks => dictAppend d (tk ks.1) (.keySig ks.2)) d1) := by
    intro d1 h1
    exact keysQ_foldl_append Q (fun ks : Nat × String => tk ks.1) (fun ks => Msg.keySig ks.2) p.ks d1 h1 (fun x _ => hQ x.1)
  apply hks
  cases a with
  | timeSigChange =>
    simp only at hd0
    split at hd0
    · cases hd0
    · rename_i dd irr hm
      simp only [Option.some.injEq] at hd0
      subst hd0
      have h1 : KeysQ Q dd := tscMeasures_keys Q p.base tk hQ _ _ _ _ (dd, irr) hm (by intro e he; cases he)
      have h2 : KeysQ Q (dd.map fun e => if e.2.length = 2 then (e.1, e.2.drop 1) else e) := by
        intro e he
        obtain ⟨e', he', rfl⟩ := List.mem_map.mp he
        split
        · exact h1 e' he'
        · exact h1 e' he'
      generalize (dd.map fun e => if e.2.length = 2 then (e.1, e.2.drop 1) else e) = d2 at h2 ⊢
      generalize p.base.ts = tsl
      induction tsl generalizing d2 with
      | nil => exact h2
      | cons ts rest ih =>
        simp only [List.foldl_cons]
        apply ih
        split
        · exact h2
        · exact keysQ_dictAppend Q _ _ _ h2 (hQ _)
  | shift =>
    simp only [Option.some.injEq] at hd0
    subst hd0
    generalize hz : p.base.ts.zipIdx = z
    have : ∀ d1 : MetaDict, KeysQ Q d1 → KeysQ Q (z.foldl (fun d (x : (Nat × Nat × Nat) × Nat) =>
        dictAppend d (if Anacrusis.shift = Anacrusis.padBar ∧ x.2 = 0 then (0 : Int) else tk x.1.1) (Msg.timeSig x.1.2.1 x.1.2.2)) d1) := by
      intro d1 h1
      exact keysQ_foldl_append Q _ _ z d1 h1 (fun x _ => by split; exact h0; exact hQ _)
    exact this [] (by intro e he; cases he)
  | padBar =>
    simp only [Option.some.injEq] at hd0
    subst hd0
    generalize hz : p.base.ts.zipIdx = z
    have : ∀ d1 : MetaDict, KeysQ Q d1 → KeysQ Q (z.foldl (fun d (x : (Nat × Nat × Nat) × Nat) =>
        dictAppend d (if True ∧ x.2 = 0 then (0 : Int) else tk x.1.1) (Msg.timeSig x.1.2.1 x.1.2.2)) d1) := by
      intro d1 h1
      exact keysQ_foldl_append Q _ _ z d1 h1 (fun x _ => by split; exact h0; exact hQ _)
    exact this [] (by intro e he; cases he)

theorem partMetas_isSome (a : Anacrusis) (p : PartIn) (tk : Nat → Int)
    (h : a = .timeSigChange → ∀ m ∈ p.measures, (tsAt p.base m.1).isSome) : (partMetas a p tk).isSome := by
  unfold partMetas
  cases a with
  | timeSigChange =>
    have := tscMeasures_some p.base tk (p.base.ts.map (·.1)) p.measures [] [] (h rfl)
    obtain ⟨r, hr⟩ := Option.isSome_iff_exists.mp this
    simp [hr]
  | shift => simp
  | padBar => simp

theorem exportTempos_keys_aux (Q : Int → Prop) (tk : PartIn → Nat → Int) (h0 : Q 0) (ps : List PartIn)
    (hQ : ∀ x ∈ ps, ∀ t, Q (tk x t)) (d : List (Int × Nat)) (hd : KeysQ Q d) :
    KeysQ Q (ps.foldl (fun d x =>
      let d' := x.tempos.foldl (fun d tp => dictSet d (tk x tp.1) tp.2) d
      if d'.isEmpty then [(0, 500000)] else d') d) := by
  induction ps generalizing d with
  | nil => exact hd
  | cons x xs ih =>
    simp only [List.foldl_cons]
    apply ih (fun y hy => hQ y (List.mem_cons_of_mem _ hy))
    have h1 : KeysQ Q (x.tempos.foldl (fun d tp => dictSet d (tk x tp.1) tp.2) d) := by
      generalize x.tempos = tl
      induction tl generalizing d with
      | nil => exact hd
      | cons tp rest ih2 =>
        simp only [List.foldl_cons]
        exact ih2 _ (keysQ_dictSet Q d _ _ hd (hQ x List.mem_cons_self tp.1))
    split
    · intro e he
      simp only [List.mem_singleton] at he
      subst he
      exact h0
    · exact h1

theorem exportTempos_keys (Q : Int → Prop) (tk : PartIn → Nat → Int) (h0 : Q 0) (parts : List PartIn)
    (hQ : ∀ x ∈ parts, ∀ t, Q (tk x t)) : KeysQ Q (exportTempos tk parts) :=
  exportTempos_keys_aux Q tk h0 parts hQ [] (by intro e he; cases he)

theorem mapM_isSome {α β : Type} (f : α → Option β) (l : List α) (h : ∀ x ∈ l, (f x).isSome) : (l.mapM f).isSome := by
  induction l with
  | nil => simp
  | cons x xs ih =>
    rw [List.mapM_cons]
    obtain ⟨y, hy⟩ := Option.isSome_iff_exists.mp (h x List.mem_cons_self)
    obtain ⟨ys, hys⟩ := Option.isSome_iff_exists.mp (ih (fun z hz => h z (List.mem_cons_of_mem _ hz)))
    simp [hy, hys]

theorem mem_of_mem_zipIdx {α : Type} {l : List α} {xi : α × Nat} (h : xi ∈ l.zipIdx) : xi.1 ∈ l := by
  obtain ⟨a, i⟩ := xi
  exact (List.mem_zipIdx h).2.2 ▸ List.getElem_mem _

theorem exportMetas_isSome (a : Anacrusis) (tk : PartIn → Nat → Int) (parts : List PartIn)
    (h : a = .timeSigChange → ∀ x ∈ parts, ∀ m ∈ x.measures, (tsAt x.base m.1).isSome) :
    (exportMetas a tk parts).isSome := by
  unfold exportMetas
  apply mapM_isSome
  intro xi hxi
  obtain ⟨d, hd⟩ := Option.isSome_iff_exists.mp (partMetas_isSome a xi.1 (tk xi.1) (fun ha => h ha xi.1 (mem_of_mem_zipIdx hxi)))
  obtain ⟨x, i⟩ := xi
  simp [hd]

-- ------------------------------------------------------------------ every tick of a track

/-- every event of a written track stands at tick 0 or at the tick of some timeline position of some part -/
theorem exportTrack_ticks (Q : Int → Prop) (a : Anacrusis) (tk : PartIn → Nat → Int) (h0 : Q 0)
    (parts : List PartIn) (hQ : ∀ x ∈ parts, ∀ t, Q (tk x t)) (metas : List (Nat × List (Int × Msg))) (hm : exportMetas a tk parts = some metas)
    (ktc : List (Key × (Nat × Nat))) (vel tr : Nat) :
    ∀ e ∈ exportTrack (exportTempos tk parts) metas (exportRecs tk parts) ktc vel tr, Q e.1 := by
  intro e he
  unfold exportTrack trackOrder at he
  rw [C04S.mem_sortEv] at he
  simp only [trackEvents, List.mem_append] at he
  have hrec : ∀ n ∈ trackNotes (exportRecs tk parts) (fun k => lookup k ktc) tr vel, Q n.on ∧ Q n.off := by
    intro n hn
    have := (C04E.trackNotes_perm (exportRecs tk parts) ktc tr vel).mem_iff.mp hn
    obtain ⟨r, hr, hroute⟩ := List.mem_filterMap.mp this
    have hon : n.on = r.on ∧ n.off = r.off := by
      unfold C04E.route at hroute
      split at hroute
      · split at hroute
        · cases hroute; exact ⟨rfl, rfl⟩
        · cases hroute
      · cases hroute
    simp only [exportRecs, List.mem_flatMap, List.mem_map] at hr
    obtain ⟨xi, hxi, nn, _, rfl⟩ := hr
    rw [hon.1, hon.2]
    exact ⟨hQ _ (mem_of_mem_zipIdx hxi) _, hQ _ (mem_of_mem_zipIdx hxi) _⟩
  rcases he with (((h1 | h1) | h1) | h1) | h1
  · split at h1
    · obtain ⟨t, ht, rfl⟩ := List.mem_map.mp h1
      exact exportTempos_keys Q tk h0 parts hQ t ht
    · cases h1
  · obtain ⟨xi, hxi, _, d, hd, hx⟩ := (C04E.mem_trackMetas a tk parts metas hm ktc tr e).mp h1
    obtain ⟨e', he', hk⟩ := mem_flattenDict d e hx
    rw [hk]
    exact partMetas_keys Q a xi.1 (tk xi.1) (hQ xi.1 (mem_of_mem_zipIdx hxi)) h0 d hd e' he'
  · simp only [noteEvents, List.mem_map, List.mem_filter] at h1
    obtain ⟨n, ⟨hn, _⟩, rfl⟩ := h1
    exact (hrec n hn).2
  · simp only [noteEvents, List.mem_flatMap, List.mem_filter] at h1
    obtain ⟨n, ⟨hn, _⟩, hx⟩ := h1
    simp only [List.mem_cons, List.mem_nil_iff, or_false] at hx
    rcases hx with rfl | rfl
    · exact (hrec n hn).1
    · exact (hrec n hn).2
  · simp only [noteEvents, List.mem_map, List.mem_filter] at h1
    obtain ⟨n, ⟨hn, _⟩, rfl⟩ := h1
    exact (hrec n hn).1

-- ------------------------------------------------------------------ no negative tick

theorem tick_nonneg (P : Nat) (b : TimeBase) (o : Rat) (t : Nat) (h : o ≤ quarter b t) : 0 ≤ tick P b o t := by
  unfold tick
  have h0 : roundHalfEven ((0 : Int) : Rat) = 0 := Round.roundHalfEven_int 0
  rw [← h0]
  apply Round.roundHalfEven_mono
  unfold toTick
  have hP : (0 : Rat) ≤ (P : Rat) := by exact_mod_cast Nat.zero_le P
  have : (0 : Rat) ≤ quarter b t - o := by linarith
  simpa using mul_nonneg hP this

theorem quarter_mono (b : TimeBase) (hw : C04T.WellFormed b) (x y : Nat) (hxy : x ≤ y) : quarter b x ≤ quarter b y := by
  have := C04T.quarterRaw_mono b hw x y hxy
  unfold quarter
  linarith

/-- `shift` / `time_sig_change`: the origin is at or before the start of every part -/
theorem origin_le (a : Anacrusis) (ha : a ≠ .padBar) (bases : List TimeBase) (o : Rat) (ho : origin a bases = some o) :
    ∀ b ∈ bases, o ≤ quarter b 0 := by
  intro b hb
  unfold origin at ho
  split at ho
  · cases ho
  · rename_i i q0 harg
    have hle := C04T.argminFirst_le _ i q0 harg (quarter b 0) (List.mem_map.mpr ⟨b, hb, rfl⟩)
    split at ho
    · cases a with
      | shift => simp only [Option.some.injEq] at ho; subst ho; exact hle
      | timeSigChange => simp only [Option.some.injEq] at ho; subst ho; exact hle
      | padBar => exact absurd rfl ha
    · rename_i hneg
      simp only [Option.some.injEq] at ho
      subst ho
      have : (0 : Rat) ≤ q0 := not_lt.mp hneg
      linarith

theorem argminFirst_isSome (l : List Rat) (h : l ≠ []) : (argminFirst l).isSome := by
  cases l with
  | nil => exact absurd rfl h
  | cons x rest =>
    unfold argminFirst
    cases argminFirst rest with
    | none => rfl
    | some v =>
      obtain ⟨i, y⟩ := v
      simp only
      split <;> rfl

theorem origin_isSome (a : Anacrusis) (ha : a ≠ .padBar) (bases : List TimeBase) (h : bases ≠ []) :
    (origin a bases).isSome := by
  unfold origin
  have := argminFirst_isSome (bases.map fun b => quarter b 0) (by simpa using h)
  obtain ⟨v, hv⟩ := Option.isSome_iff_exists.mp this
  obtain ⟨i, q0⟩ := v
  rw [hv]
  simp only
  split
  · cases a with
    | shift => rfl
    | timeSigChange => rfl
    | padBar => exact absurd rfl ha
  · rfl

/-- `pad_bar`: the origin is defined when the part that starts earliest has a time signature with a non-zero beat
    type in force at 0, and it is at or before the start of every part when that part's pickup is not longer than a
    bar of that signature -/
theorem origin_pad (bases : List TimeBase) (h : bases ≠ [])
    (hts : ∀ b ∈ bases, ∃ beats bt, tsAt b 0 = some (beats, bt) ∧ 0 < bt ∧ -((beats : Rat) / ((bt : Rat) / 4)) ≤ quarter b 0) :
    ∃ o, origin .padBar bases = some o ∧ ∀ b ∈ bases, o ≤ quarter b 0 := by
  unfold origin
  have := argminFirst_isSome (bases.map fun b => quarter b 0) (by simpa using h)
  obtain ⟨v, hv⟩ := Option.isSome_iff_exists.mp this
  obtain ⟨i, q0⟩ := v
  rw [hv]
  have hmem := C04T.argminFirst_mem _ i q0 hv
  have hle := C04T.argminFirst_le _ i q0 hv
  simp only
  split
  · rw [List.getElem?_map] at hmem
    cases hbi : bases[i]? with
    | none => rw [hbi] at hmem; cases hmem
    | some bi =>
      rw [hbi] at hmem
      simp only [Option.map_some, Option.some.injEq] at hmem
      obtain ⟨beats, bt, hts0, hbt, hpick⟩ := hts bi (List.mem_of_getElem? hbi)
      simp only [hts0]
      have hbt0 : bt ≠ 0 := by omega
      simp only [hbt0, if_false]
      refine ⟨_, rfl, ?_⟩
      intro b hb
      have := hle (quarter b 0) (List.mem_map.mpr ⟨b, hb, rfl⟩)
      rw [← hmem] at this
      linarith
  · rename_i hneg
    refine ⟨0, rfl, ?_⟩
    intro b hb
    have := hle (quarter b 0) (List.mem_map.mpr ⟨b, hb, rfl⟩)
    have h0 : (0 : Rat) ≤ q0 := not_lt.mp hneg
    linarith

-- ------------------------------------------------------------------ the other failure points

theorem mapToTrackChannel_isSome (mode : Nat) (hm : mode ≤ 5) (keys : List Key) :
    ∃ tcs, mapToTrackChannel mode keys = some tcs := by
  match mode, hm with
  | 0, _ => exact ⟨_, rfl⟩
  | 1, _ => exact ⟨_, rfl⟩
  | 2, _ => exact ⟨_, rfl⟩
  | 3, _ => exact ⟨_, rfl⟩
  | 4, _ => exact ⟨_, rfl⟩
  | 5, _ => exact ⟨_, rfl⟩
  | n + 6, h => exact absurd h (by omega)

theorem foldl_seen_ne_nil {α : Type} [DecidableEq α] (rest acc : List α) (hacc : acc ≠ []) :
    rest.foldl (fun acc x => if acc.contains x then acc else acc ++ [x]) acc ≠ [] := by
  induction rest generalizing acc with
  | nil => exact hacc
  | cons y ys ih =>
    simp only [List.foldl_cons]
    apply ih
    split
    · exact hacc
    · simp

theorem firstSeen_ne_nil {α : Type} [DecidableEq α] (l : List α) (h : l ≠ []) : firstSeen l ≠ [] := by
  cases l with
  | nil => exact absurd rfl h
  | cons x rest =>
    unfold firstSeen
    simp only [List.foldl_cons, List.contains_nil, Bool.false_eq_true, if_false, List.nil_append]
    exact foldl_seen_ne_nil rest [x] (by simp)

theorem noteKeys_ne_nil (parts : List PartIn) (h : ∃ x ∈ parts, x.notes ≠ []) : noteKeys parts ≠ [] := by
  obtain ⟨x, hx, hn⟩ := h
  apply firstSeen_ne_nil
  obtain ⟨i, hi⟩ := List.getElem?_of_mem hx
  intro hnil
  cases hnn : x.notes with
  | nil => exact hn hnn
  | cons n rest =>
    have hmem : (x, i) ∈ parts.zipIdx := by
      rw [List.mem_zipIdx_iff_getElem?]
      simpa using hi
    have : (x.group, i, n.2.2.2) ∈ (parts.zipIdx).flatMap (fun (xi : PartIn × Nat) =>
        xi.1.notes.map fun n => (xi.1.group, xi.2, n.2.2.2)) := by
      apply List.mem_flatMap.mpr
      exact ⟨(x, i), hmem, by simp [hnn]⟩
    rw [hnil] at this
    cases this

theorem maxList_isSome (l : List Nat) (h : l ≠ []) : (maxList l).isSome := by
  cases l with
  | nil => exact absurd rfl h
  | cons a rest => rfl

end C04Tot
