/-
C15 helper lemmas, part 5 (round 2): references between elements, flattening of nested groups, rejected divisions.
-/
import PartituraModel.Proofs.C15Defs

namespace C15
open Model.Merge

-- ---------------------------------------------------------------- references

/-- membership in the merged part, in terms of the inputs -/
theorem mem_es {m : Mode} {ps : List APart} {L : Nat} {es : List Elem}
    (h : mergeParts m ps = some (.merged L es)) (e' : Elem) :
    e' ∈ es ↔ ∃ i p e, ps[i]? = some p ∧ e ∈ p.elems ∧ keep m (i == 0) e = true ∧ e' = image m L ps i p e := by
  rw [(merged_perm h).mem_iff, mem_merged]

theorem xform_refs (m : Mode) (c : Ctx) (e : Elem) : (xform m c e).refs = e.refs := by
  cases m <;> simp only [xform, rescale, renumber] <;> (repeat' split) <;> rfl

theorem hasOid_iff {es : List Elem} {k : Nat} : hasOid es k = true ↔ ∃ t ∈ es, t.oid = k := by
  simp [hasOid]

theorem mem_dangling {es : List Elem} {a r : Nat} :
    (a, r) ∈ dangling es ↔ ∃ e ∈ es, e.oid = a ∧ r ∈ e.refs ∧ ¬ ∃ t ∈ es, t.oid = r := by
  simp only [dangling, List.mem_flatMap, List.mem_map, List.mem_filter, Prod.mk.injEq,
    Bool.not_eq_true', ← Bool.not_eq_true, hasOid_iff]
  constructor
  · rintro ⟨e, he, r', ⟨hr, hn⟩, rfl, rfl⟩
    exact ⟨e, he, rfl, hr, hn⟩
  · rintro ⟨e, he, rfl, hr, hn⟩
    exact ⟨e, he, r, ⟨hr, hn⟩, rfl, rfl⟩

/-- every reference of an object of a part points to an object of the same part -/
def RefsClosed (ps : List APart) : Prop :=
  ∀ p ∈ ps, ∀ e ∈ allElems p, ∀ r ∈ e.refs, ∃ t ∈ allElems p, t.oid = r

/-- the object with identity `k` is transferred to the merged part from some input -/
def Kept (m : Mode) (ps : List APart) (k : Nat) : Prop :=
  ∃ j q t, ps[j]? = some q ∧ t ∈ allElems q ∧ keep m (j == 0) t = true ∧ t.oid = k

-- ---------------------------------------------------------------- objects that only have an end

theorem mem_tailOut {m : Mode} {c : Ctx} {p : APart} {e' : Elem} :
    e' ∈ tailOut m c p ↔ ∃ e ∈ p.tails, keep m c.first e = true ∧ e' = xform m c e := by
  simp only [tailOut, List.mem_map, List.mem_filter]
  constructor
  · rintro ⟨e, ⟨he, hk⟩, rfl⟩; exact ⟨e, he, hk, rfl⟩
  · rintro ⟨e, he, hk, rfl⟩; exact ⟨e, ⟨he, hk⟩, rfl⟩

theorem mem_tailsFrom {m : Mode} {L : Nat} {first : Bool} {vo so np : Nat} {ps : List APart} {e' : Elem} :
    e' ∈ tailsFrom m L first vo so np ps
      ↔ ∃ i p, ps[i]? = some p ∧ e' ∈ tailOut m (ctxG L first vo so np ps i p) p := by
  induction ps generalizing first vo so np with
  | nil => simp [tailsFrom]
  | cons q qs ih =>
    simp only [tailsFrom, List.mem_append]
    constructor
    · rintro (h | h)
      · exact ⟨0, q, by simp, by rw [ctxG_zero]; exact h⟩
      · obtain ⟨i, p, hp, he⟩ := ih.mp h
        exact ⟨i + 1, p, by simpa using hp, by rw [ctxG_succ]; exact he⟩
    · rintro ⟨i, p, hp, he⟩
      cases i with
      | zero =>
        simp at hp; subst hp
        rw [ctxG_zero] at he; exact Or.inl he
      | succ i =>
        simp only [List.getElem?_cons_succ] at hp
        rw [ctxG_succ] at he
        exact Or.inr (ih.mpr ⟨i, p, hp, he⟩)

/-- membership among the end-only objects of the merged part, in terms of the inputs -/
theorem mem_tails {m : Mode} {L : Nat} {ps : List APart} {e' : Elem} :
    e' ∈ tailsFrom m L true 0 0 0 ps
      ↔ ∃ i p e, ps[i]? = some p ∧ e ∈ p.tails ∧ keep m (i == 0) e = true ∧ e' = image m L ps i p e := by
  rw [mem_tailsFrom]
  constructor
  · rintro ⟨i, p, hp, he⟩
    obtain ⟨e, hmem, hk, rfl⟩ := mem_tailOut.mp he
    refine ⟨i, p, e, hp, hmem, ?_, rfl⟩
    have : (ctxG L true 0 0 0 ps i p).first = (i == 0) := ctxAt_first L ps i p
    rw [this] at hk; exact hk
  · rintro ⟨i, p, e, hp, he, hk, rfl⟩
    refine ⟨i, p, hp, mem_tailOut.mpr ⟨e, he, ?_, rfl⟩⟩
    have : (ctxG L true 0 0 0 ps i p).first = (i == 0) := ctxAt_first L ps i p
    rw [this]; exact hk

/-- everything registered on the merged part - by its start or by its end only - in terms of the inputs -/
theorem mem_registered {m : Mode} {ps : List APart} {L : Nat} {es : List Elem}
    (h : mergeParts m ps = some (.merged L es)) (e' : Elem) :
    e' ∈ es ++ mergedTails m ps
      ↔ ∃ i p e, ps[i]? = some p ∧ e ∈ allElems p ∧ keep m (i == 0) e = true ∧ e' = image m L ps i p e := by
  obtain ⟨_, _, _, hL, _⟩ := mergeParts_merged_iff.mp h
  rw [List.mem_append, mem_es h, mergedTails, ← hL, mem_tails]
  simp only [allElems, List.mem_append]
  constructor
  · rintro (⟨i, p, e, hp, he, hk, rfl⟩ | ⟨i, p, e, hp, he, hk, rfl⟩)
    · exact ⟨i, p, e, hp, Or.inl he, hk, rfl⟩
    · exact ⟨i, p, e, hp, Or.inr he, hk, rfl⟩
  · rintro ⟨i, p, e, hp, he | he, hk, rfl⟩
    · exact Or.inl ⟨i, p, e, hp, he, hk, rfl⟩
    · exact Or.inr ⟨i, p, e, hp, he, hk, rfl⟩

-- ---------------------------------------------------------------- flattening

theorem flattenList_append (a b : List Tree) : flattenList (a ++ b) = flattenList a ++ flattenList b := by
  induction a with
  | nil => simp [flattenList]
  | cons t ts ih => simp [flattenList, ih, List.append_assoc]

theorem flattenList_parts (l : List APart) : flattenList (l.map .part) = l := by
  induction l with
  | nil => simp [flattenList]
  | cons p ps ih => simp [flattenList, flattenTree, ih]

theorem flattenTree_group (ts : List Tree) : flattenTree (.group ts) = flattenList ts := by
  simp [flattenTree]

-- ---------------------------------------------------------------- divisions

theorem divsOf_eq_zero_of_length {qds : List Nat} (h : qds.length ≠ 1) : divsOf qds = 0 := by
  match qds with
  | [] => rfl
  | [d] => simp at h
  | _ :: _ :: _ => rfl

theorem mergeParts_zero_divs (m : Mode) {ps : List APart} (h2 : 2 ≤ ps.length) {p : APart} (hp : p ∈ ps)
    (h0 : p.divs = 0) : mergeParts m ps = none := by
  cases hr : mergeParts m ps with
  | none => rfl
  | some r =>
    cases r with
    | same q =>
      match ps, h2 with
      | a :: b :: rest, _ =>
        rw [mergeParts_two] at hr
        split at hr <;> cases hr
    | merged L es =>
      obtain ⟨_, hpos, _⟩ := mergeParts_merged_iff.mp hr
      have := hpos p hp
      omega

-- ---------------------------------------------------------------- tables of the source

/-- `names` (a class tuple of the source) describes exactly the classes `pred` over the whole class table:
`isinstance(e, names)` iff `pred (class of e)` -/
def Describes (names : List String) (pred : Nat → Bool) : Prop :=
  ∀ c ∈ List.range Gen.numClasses, (names.any fun n => isSub c (classId n)) = pred c

instance (names : List String) (pred : Nat → Bool) : Decidable (Describes names pred) := by
  unfold Describes; infer_instance

-- ---------------------------------------------------------------- a concrete instance with references

/-- part E, divisions 2: two notes under a slur (oid 42), the first tied to the second, a fermata on the first -/
def exE : APart := { pid := 4, divs := 2, elems := [
  { oid := 40, cls := classId "Note", start := 0, stop := some 2, voice := some 1, staff := some 1, pitch := some 60, tiePrev := false, chain := [41], refs := [43, 42, 41] },
  { oid := 42, cls := classId "Slur", start := 0, stop := some 4, voice := none, staff := none, pitch := none, tiePrev := false, chain := [], refs := [41, 40] },
  { oid := 43, cls := classId "Fermata", start := 0, stop := none, voice := none, staff := none, pitch := none, tiePrev := false, chain := [], refs := [40] },
  { oid := 41, cls := classId "Note", start := 2, stop := some 4, voice := some 1, staff := some 1, pitch := some 60, tiePrev := true, chain := [], refs := [42, 40] }] }

end C15
