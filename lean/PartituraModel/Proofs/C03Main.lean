/-
C03 helper lemmas: from a well-formed segment to the per-voice conditions of Proofs/C03Reader.lean,
and the reader over whole segments and measures.
-/
import PartituraModel.Proofs.C03Reader
import PartituraModel.Proofs.C03Voices

namespace C03.Main
open Model.Xml C03.Sort C03.Reader C03.Voices

/-! ### chord tags -/

theorem tagChords_chordOK (A : List Placed) (prev prevN : Option (Nat × Nat)) (h : prev = none ∨ prev = prevN) :
    ChordOKP prevN (tagChords prev A) := by
  induction A generalizing prev prevN with
  | nil => simp [tagChords, ChordOKP]
  | cons p rest ih =>
    simp only [tagChords, ChordOKP]
    refine ⟨?_, ?_⟩
    · intro hc
      have : prev = some (p.onset, p.dur) := by simpa using hc
      rcases h with h | h
      · rw [h] at this; cases this
      · rw [← h]; exact this
    · apply ih
      by_cases hg : p.grace = true
      · simp [hg]
      · simp [hg]

theorem tagChords_out (A : List Placed) (prev : Option (Nat × Nat)) :
    (tagChords prev A).map Placed.out = A.map Placed.out := by
  induction A generalizing prev with
  | nil => rfl
  | cons p rest ih => simp [tagChords, ih, Placed.out]

theorem tagChords_forall (P : Nat → Nat → Bool → Prop) (A : List Placed) (prev : Option (Nat × Nat))
    (h : ∀ p ∈ A, P p.onset p.dur p.grace) : ∀ p ∈ tagChords prev A, P p.onset p.dur p.grace := by
  induction A generalizing prev with
  | nil => intro p hp; simp [tagChords] at hp
  | cons q rest ih =>
    intro p hp
    simp only [tagChords, List.mem_cons] at hp
    rcases hp with rfl | hp
    · exact h q (List.mem_cons_self ..)
    · exact ih _ (fun p hp => h p (List.mem_cons_of_mem _ hp)) p hp

theorem tagChords_onsets (A : List Placed) (prev : Option (Nat × Nat)) :
    (tagChords prev A).map (·.onset) = A.map (·.onset) := by
  induction A generalizing prev with
  | nil => rfl
  | cons p rest ih => simp [tagChords, ih]

theorem onsetSorted_iff (A : List Placed) : OnsetSorted A ↔ (A.map (·.onset)).Pairwise (· ≤ ·) := by
  unfold OnsetSorted; rw [List.pairwise_map]

/-! ### the notes of a voice in document order -/

theorem onsetLt_strictWeak : StrictWeak onsetLt where
  asymm a b h := by simp [onsetLt] at *; omega
  negtrans a b c h1 h2 := by simp [onsetLt] at *; omega

theorem mem_sortVoice {n : NoteIn} {ns : List NoteIn} : n ∈ sortVoice ns ↔ n ∈ ns := by
  unfold sortVoice
  simp only [mem_isortBy]

theorem sortVoice_perm (ns : List NoteIn) : (sortVoice ns).Perm ns := by
  unfold sortVoice
  exact ((isortBy_perm _ _).trans (isortBy_perm _ _)).trans (isortBy_perm _ _)

theorem sortVoice_sorted (ns : List NoteIn) : (sortVoice ns).Pairwise (fun a b => a.onset ≤ b.onset) := by
  unfold sortVoice
  have := isortBy_sorted onsetLt_strictWeak
    (isortBy (fun a b => a.grace && !b.grace) (isortBy (fun a b => keyLt b a) ns))
  refine this.imp ?_
  intro a b h
  simp [onsetLt] at h
  exact h

theorem emitOne_spec (nStaves v : Nat) (n : NoteIn) (h4 : ∀ g ∈ n.seq, g.onset = n.onset)
    (h3 : n.grace = true → n.dur = 0) :
    ∀ p ∈ emitOne nStaves v n, p.onset = n.onset ∧ p.dur ≤ n.dur ∧ (p.grace = true → p.dur = 0) := by
  intro p hp
  unfold emitOne at hp
  by_cases hg : n.grace = true
  · simp only [hg, if_true] at hp
    by_cases hgp : n.gracePrev = true
    · simp [hgp] at hp
    · simp only [hgp, Bool.false_eq_true, if_false, List.mem_map] at hp
      obtain ⟨g, hgm, rfl⟩ := hp
      exact ⟨h4 g hgm, by simp, fun _ => rfl⟩
  · simp only [hg, Bool.false_eq_true, if_false, List.mem_singleton] at hp
    subst hp
    exact ⟨rfl, Nat.le_refl _, by simp⟩

/-- what `emitVoice` produces from notes that are well formed -/
theorem emitVoice_forall (nStaves v : Nat) (ns : List NoteIn) (lo hi : Nat)
    (h : ∀ n ∈ ns, lo ≤ n.onset ∧ n.onset + n.dur ≤ hi ∧ (n.grace = true → n.dur = 0) ∧ ∀ g ∈ n.seq, g.onset = n.onset) :
    ∀ p ∈ emitVoice nStaves v ns, lo ≤ p.onset ∧ p.onset + p.dur ≤ hi ∧ (p.grace = true → p.dur = 0) := by
  induction ns with
  | nil => intro p hp; simp [emitVoice] at hp
  | cons n rest ih =>
    intro p hp
    obtain ⟨h1, h2, h3, h4⟩ := h n (List.mem_cons_self ..)
    simp only [emitVoice, List.mem_append] at hp
    rcases hp with hp | hp
    · obtain ⟨e1, e2, e3⟩ := emitOne_spec nStaves v n h4 h3 p hp
      exact ⟨by omega, by omega, e3⟩
    · exact ih (fun n hn => h n (List.mem_cons_of_mem _ hn)) p hp

theorem emitVoice_sorted (nStaves v : Nat) (ns : List NoteIn)
    (hs : ns.Pairwise (fun a b => a.onset ≤ b.onset))
    (h : ∀ n ∈ ns, (n.grace = true → n.dur = 0) ∧ ∀ g ∈ n.seq, g.onset = n.onset) :
    OnsetSorted (emitVoice nStaves v ns) ∧ ∀ p ∈ emitVoice nStaves v ns, ∀ n ∈ ns.head?, n.onset ≤ p.onset := by
  induction ns with
  | nil => simp [emitVoice, OnsetSorted]
  | cons n rest ih =>
    have hn : ∀ m ∈ rest, n.onset ≤ m.onset := (List.pairwise_cons.mp hs).1
    obtain ⟨ihs, ihh⟩ := ih (List.pairwise_cons.mp hs).2 (fun m hm => h m (List.mem_cons_of_mem _ hm))
    have hrest : ∀ p ∈ emitVoice nStaves v rest, n.onset ≤ p.onset := by
      intro p hp
      cases rest with
      | nil => simp [emitVoice] at hp
      | cons m rest' =>
        have := ihh p hp m (by simp)
        have := hn m (List.mem_cons_self ..)
        omega
    have hhead : ∀ p ∈ emitOne nStaves v n, p.onset = n.onset := fun p hp =>
      (emitOne_spec nStaves v n (h n (List.mem_cons_self ..)).2 (h n (List.mem_cons_self ..)).1 p hp).1
    constructor
    · unfold OnsetSorted
      simp only [emitVoice]
      rw [List.pairwise_append]
      refine ⟨?_, ihs, ?_⟩
      · rw [List.pairwise_iff_forall_sublist]
        intro a b hab
        have ha := hhead a (hab.subset (by simp))
        have hb := hhead b (hab.subset (by simp))
        omega
      · intro a ha b hb
        have := hhead a ha
        have := hrest b hb
        omega
    · intro p hp m hm
      simp only [List.head?_cons, Option.mem_def, Option.some.injEq] at hm
      subst hm
      simp only [emitVoice, List.mem_append] at hp
      rcases hp with hp | hp
      · have := hhead p hp; omega
      · exact hrest p hp

/-! ### a whole segment -/

theorem voiceWF_nil (s : Segment) : VoiceWF s [] := by
  simp [VoiceWF]

theorem mem_segVoices {s : Segment} {vn : Nat × List NoteIn} (h : vn ∈ segVoices s) :
    vn ∈ assignVoices s.notes ∨ vn = (0, []) := by
  unfold segVoices at h
  simp only at h
  split at h
  · simp at h; exact Or.inr h
  · exact Or.inl (mem_isortBy.mp h)

/-- the conditions of `run_mergeVoices` hold for the voices of a well-formed segment -/
theorem segPlaced_ok (mstart nStaves : Nat) (s : Segment) (hwf : SegWF mstart s) :
    ∀ v ∈ segPlaced nStaves s, (∀ p ∈ v.2, PlacedOK mstart s.stop p) ∧ OnsetSorted v.2 ∧ ChordOKP none v.2 := by
  obtain ⟨hms, hss, _, _, hvoices⟩ := hwf
  intro v hv
  unfold segPlaced at hv
  obtain ⟨vn, hvn, rfl⟩ := List.mem_map.mp hv
  have hvwf : VoiceWF s vn.2 := by
    rcases mem_segVoices hvn with h | h
    · exact hvoices vn h
    · rw [h]; exact voiceWF_nil s
  obtain ⟨hnotes, _⟩ := hvwf
  have hnotes' : ∀ n ∈ sortVoice vn.2, s.start ≤ n.onset ∧ n.onset + n.dur ≤ s.stop ∧ (n.grace = true → n.dur = 0) ∧
      ∀ g ∈ n.seq, g.onset = n.onset := fun n hn => hnotes n (mem_sortVoice.mp hn)
  have hE := emitVoice_forall nStaves vn.1 (sortVoice vn.2) s.start s.stop hnotes'
  have hEs := (emitVoice_sorted nStaves vn.1 (sortVoice vn.2) (sortVoice_sorted vn.2)
    (fun n hn => ⟨(hnotes' n hn).2.2.1, (hnotes' n hn).2.2.2⟩)).1
  refine ⟨?_, ?_, ?_⟩
  · intro p hp
    have := tagChords_forall (fun o d g => s.start ≤ o ∧ o + d ≤ s.stop ∧ (g = true → d = 0)) _ none hE p hp
    exact ⟨by omega, this.2.1, this.2.2⟩
  · rw [onsetSorted_iff, tagChords_onsets, ← onsetSorted_iff]; exact hEs
  · exact tagChords_chordOK _ none none (Or.inl rfl)

theorem mergeMeasure_eq (voices : List (Nat × List Placed)) (other : List OtherIn) (start stop : Nat) :
    mergeMeasure voices other start stop =
      (mergeVoices other start true start voices).1 ++
        (if (mergeVoices other start true start voices).2 < stop
          then [Ev.forward (stop - (mergeVoices other start true start voices).2)] else []) := rfl

/-- what a segment must read back as: its voices one after the other, each in document order -/
def segOut (nStaves : Nat) (s : Segment) : List NoteOut :=
  ((segPlaced nStaves s).flatMap (·.2)).map Placed.out

/-- reading a well-formed segment from its start: the notes come back where they are, and the reader ends
    at the end of the segment, which is also the furthest position it has seen -/
theorem run_segment (spec : Bool) (mstart nStaves : Nat) (seg : Segment) (hwf : SegWF mstart seg) (s : RState)
    (hpos : s.pos = seg.start) (hle : s.pos ≤ s.maxt) (hB : s.maxt ≤ seg.stop) :
    ∃ s', runEvs spec mstart s (linearizeSegment nStaves seg) = some s' ∧
      s'.out = (segOut nStaves seg).reverse ++ s.out ∧ s'.pos = seg.stop ∧ s'.maxt = seg.stop := by
  have hok := segPlaced_ok mstart nStaves seg hwf
  obtain ⟨hms, hss, _, hothers, _⟩ := hwf
  have hO : ∀ o ∈ seg.others, OtherOK mstart seg.stop o := by
    intro o ho
    obtain ⟨h1, h2, h3⟩ := hothers o ho
    exact ⟨by omega, h2, h3⟩
  obtain ⟨s1, hrun, hout, hp, hle1, hB1, hmax1, hst1⟩ :=
    run_mergeVoices spec mstart seg.stop seg.start seg.others hO hms hss (segPlaced nStaves seg) true seg.start s
      hok hpos hle hB hms
  unfold linearizeSegment
  rw [mergeMeasure_eq, runEvs_append, hrun]
  simp only [Option.bind_some]
  rw [← hp]
  by_cases hlt : s1.pos < seg.stop
  · simp only [hlt, if_true, runEvs, stepEv, Option.bind_some]
    refine ⟨_, rfl, ?_, ?_, ?_⟩
    · simp only [hout, segOut, toOut]
    · simp only; omega
    · simp only; omega
  · simp only [hlt, if_false, runEvs]
    exact ⟨s1, rfl, by simp only [hout, segOut, toOut], by omega, by omega⟩

/-! ### a whole measure -/

theorem run_segments (spec : Bool) (mstart nStaves : Nat) :
    ∀ (segs : List Segment) (s : RState), Chained segs → (∀ seg ∈ segs, SegWF mstart seg) →
      (∀ seg ∈ segs.head?, s.pos = seg.start ∧ s.maxt = seg.start) →
      ∃ s', runEvs spec mstart s (segs.flatMap (linearizeSegment nStaves)) = some s' ∧
        s'.out = (segs.flatMap (segOut nStaves)).reverse ++ s.out ∧
        (∀ seg ∈ segs.getLast?, s'.pos = seg.stop ∧ s'.maxt = seg.stop) := by
  intro segs
  induction segs with
  | nil => intro s _ _ _; exact ⟨s, by simp [runEvs], by simp, by simp⟩
  | cons seg rest ih =>
    intro s hch hwf hstart
    obtain ⟨hpos, hmax⟩ := hstart seg (by simp)
    have hsegwf := hwf seg (List.mem_cons_self ..)
    obtain ⟨s1, hrun1, hout1, hp1, hm1⟩ :=
      run_segment spec mstart nStaves seg hsegwf s hpos (by omega) (by have := hsegwf.2.1; omega)
    cases rest with
    | nil =>
      refine ⟨s1, by simpa using hrun1, by simpa using hout1, ?_⟩
      intro sg hsg
      simp at hsg; subst hsg
      exact ⟨hp1, hm1⟩
    | cons seg2 rest' =>
      obtain ⟨hmeet, hch'⟩ : seg.stop = seg2.start ∧ Chained (seg2 :: rest') := hch
      obtain ⟨s', hrun, hout, hlast⟩ := ih s1 hch' (fun sg h => hwf sg (List.mem_cons_of_mem _ h))
        (by intro sg hsg; simp at hsg; subst hsg; exact ⟨by omega, by omega⟩)
      refine ⟨s', ?_, ?_, ?_⟩
      · rw [List.flatMap_cons, runEvs_append, hrun1]; exact hrun
      · rw [hout, hout1]; simp [List.flatMap_cons]
      · intro sg hsg
        apply hlast sg
        simpa [List.getLast?_cons_cons] using hsg

/-- what a measure must read back as -/
def measureOut (m : MeasureContent) : List NoteOut := m.segs.flatMap (segOut m.nStaves)

theorem interpret_linearize (spec : Bool) (m : MeasureContent) (hwf : MeasureWF m) :
    interpretWith spec m.start (linearize m) = some (measureOut m, m.stop) := by
  obtain ⟨hne, hch, hsegs⟩ := hwf
  obtain ⟨seg0, rest, hsegs0⟩ := List.exists_cons_of_ne_nil hne
  have hstart : m.start = seg0.start := by simp [MeasureContent.start, hsegs0]
  obtain ⟨s', hrun, hout, hlast⟩ :=
    run_segments spec m.start m.nStaves m.segs { pos := m.start, prev := none, maxt := m.start, out := [] } hch hsegs
      (by intro sg hsg; rw [hsegs0] at hsg; simp at hsg; subst hsg; exact ⟨hstart, hstart⟩)
  unfold interpretWith linearize
  rw [hrun]
  simp only [Option.map_some, Option.some.injEq, Prod.mk.injEq]
  constructor
  · rw [hout]; simp [measureOut]
  · unfold MeasureContent.stop
    cases hl : m.segs.getLast? with
    | none => rw [List.getLast?_eq_none_iff] at hl; exact absurd hl hne
    | some sg => exact (hlast sg hl).2

end C03.Main
