/-
C03 helper lemmas: from a well-formed segment to the per-voice conditions of Proofs/C03Reader.lean,
and the reader over whole segments and measures.
-/
import PartituraModel.Proofs.C03Reader
import PartituraModel.Proofs.C03Voices

namespace C03.Main
open Model.Xml C03.Sort C03.Reader C03.Voices

/-! ### chord tags -/

theorem tagChords_chordOK (A : List Placed) (prev prevN : Option (Nat × Nat)) (h : prev = none ∨ prev = prevN) :
    ChordOKP prevN (tagChords prev A) := by
  induction A generalizing prev prevN with
  | nil => simp [tagChords, ChordOKP]
  | cons p rest ih =>
    simp only [tagChords, ChordOKP]
    refine ⟨?_, ?_⟩
    · intro hc
      have : prev = some (p.onset, p.dur) := by simpa using hc
      rcases h with h | h
      · rw [h] at this; cases this
      · rw [← h]; exact this
    · apply ih
      by_cases hg : p.grace = true
      · simp [hg]
      · simp [hg]

theorem tagChords_out (A : List Placed) (prev : Option (Nat × Nat)) :
    (tagChords prev A).map Placed.out = A.map Placed.out := by
  induction A generalizing prev with
  | nil => rfl
  | cons p rest ih => simp [tagChords, ih, Placed.out]

theorem tagChords_forall (P : Nat → Nat → Bool → Prop) (A : List Placed) (prev : Option (Nat × Nat))
    (h : ∀ p ∈ A, P p.onset p.dur p.grace) : ∀ p ∈ tagChords prev A, P p.onset p.dur p.grace := by
  induction A generalizing prev with
  | nil => intro p hp; simp [tagChords] at hp
  | cons q rest ih =>
    intro p hp
    simp only [tagChords, List.mem_cons] at hp
    rcases hp with rfl | hp
    · exact h q (List.mem_cons_self ..)
    · exact ih _ (fun p hp => h p (List.mem_cons_of_mem _ hp)) p hp

theorem tagChords_onsets (A : List Placed) (prev : Option (Nat × Nat)) :
    (tagChords prev A).map (·.onset) = A.map (·.onset) := by
  induction A generalizing prev with
  | nil => rfl
  | cons p rest ih => simp [tagChords, ih]

theorem onsetSorted_iff (A : List Placed) : OnsetSorted A ↔ (A.map (·.onset)).Pairwise (· ≤ ·) := by
  unfold OnsetSorted; rw [List.pairwise_map]

/-! ### the notes of a voice in document order -/

theorem onsetLt_strictWeak : StrictWeak onsetLt where
  asymm a b h := by simp [onsetLt] at *; omega
  negtrans a b c h1 h2 := by simp [onsetLt] at *; omega

theorem mem_sortVoice {n : NoteIn} {ns : List NoteIn} : n ∈ sortVoice ns ↔ n ∈ ns := by
  unfold sortVoice
  simp only [mem_isortBy]

theorem sortVoice_perm (ns : List NoteIn) : (sortVoice ns).Perm ns := by
  unfold sortVoice
  exact ((isortBy_perm _ _).trans (isortBy_perm _ _)).trans (isortBy_perm _ _)

theorem sortVoice_sorted (ns : List NoteIn) : (sortVoice ns).Pairwise (fun a b => a.onset ≤ b.onset) := by
  unfold sortVoice
  have := isortBy_sorted onsetLt_strictWeak
    (isortBy (fun a b => a.grace && !b.grace) (isortBy (fun a b => keyLt b a) ns))
  refine this.imp ?_
  intro a b h
  simp [onsetLt] at h
  exact h

theorem emitOne_spec (nStaves v : Nat) (n : NoteIn) (h4 : ∀ g ∈ n.seq, g.onset = n.onset)
    (h3 : n.grace = true → n.dur = 0) :
    ∀ p ∈ emitOne nStaves v n, p.onset = n.onset ∧ p.dur ≤ n.dur ∧ (p.grace = true → p.dur = 0) := by
  intro p hp
  unfold emitOne at hp
  by_cases hg : n.grace = true
  · simp only [hg, if_true] at hp
    by_cases hgp : n.gracePrev = true
    · simp [hgp] at hp
    · simp only [hgp, Bool.false_eq_true, if_false, List.mem_map] at hp
      obtain ⟨g, hgm, rfl⟩ := hp
      exact ⟨h4 g hgm, by simp, fun _ => rfl⟩
  · simp only [hg, Bool.false_eq_true, if_false, List.mem_singleton] at hp
    subst hp
    exact ⟨rfl, Nat.le_refl _, by simp⟩

/-- what `emitVoice` produces from notes that are well formed -/
theorem emitVoice_forall (nStaves v : Nat) (ns : List NoteIn) (lo hi : Nat)
    (h : ∀ n ∈ ns, lo ≤ n.onset ∧ n.onset + n.dur ≤ hi ∧ (n.grace = true → n.dur = 0) ∧ ∀ g ∈ n.seq, g.onset = n.onset) :
    ∀ p ∈ emitVoice nStaves v ns, lo ≤ p.onset ∧ p.onset + p.dur ≤ hi ∧ (p.grace = true → p.dur = 0) := by
  induction ns with
  | nil => intro p hp; simp [emitVoice] at hp
  | cons n rest ih =>
    intro p hp
    obtain ⟨h1, h2, h3, h4⟩ := h n (List.mem_cons_self ..)
    simp only [emitVoice, List.mem_append] at hp
    rcases hp with hp | hp
    · obtain ⟨e1, e2, e3⟩ := emitOne_spec nStaves v n h4 h3 p hp
      exact ⟨by omega, by omega, e3⟩
    · exact ih (fun n hn => h n (List.mem_cons_of_mem _ hn)) p hp

theorem emitVoice_sorted (nStaves v : Nat) (ns : List NoteIn)
    (hs : ns.Pairwise (fun a b => a.onset ≤ b.onset))
    (h : ∀ n ∈ ns, (n.grace = true → n.dur = 0) ∧ ∀ g ∈ n.seq, g.onset = n.onset) :
    OnsetSorted (emitVoice nStaves v ns) ∧ ∀ p ∈ emitVoice nStaves v ns, ∀ n ∈ ns.head?, n.onset ≤ p.onset := by
  induction ns with
  | nil => simp [emitVoice, OnsetSorted]
  | cons n rest ih =>
    have hn : ∀ m ∈ rest, n.onset ≤ m.onset := (List.pairwise_cons.mp hs).1
    obtain ⟨ihs, ihh⟩ := ih (List.pairwise_cons.mp hs).2 (fun m hm => h m (List.mem_cons_of_mem _ hm))
    have hrest : ∀ p ∈ emitVoice nStaves v rest, n.onset ≤ p.onset := by
      intro p hp
      cases rest with
      | nil => simp [emitVoice] at hp
      | cons m rest' =>
        have := ihh p hp m (by simp)
        have := hn m (List.mem_cons_self ..)
        omega
    have hhead : ∀ p ∈ emitOne nStaves v n, p.onset = n.onset := fun p hp =>
      (emitOne_spec nStaves v n (h n (List.mem_cons_self ..)).2 (h n (List.mem_cons_self ..)).1 p hp).1
    constructor
    · unfold OnsetSorted
      simp only [emitVoice]
      rw [List.pairwise_append]
      refine ⟨?_, ihs, ?_⟩
      · rw [List.pairwise_iff_forall_sublist]
        intro a b hab
        have ha := hhead a (hab.subset (by simp))
        have hb := hhead b (hab.subset (by simp))
        omega
      · intro a ha b hb
        have := hhead a ha
        have := hrest b hb
        omega
    · intro p hp m hm
      simp only [List.head?_cons, Option.mem_def, Option.some.injEq] at hm
      subst hm
      simp only [emitVoice, List.mem_append] at hp
      rcases hp with hp | hp
      · have := hhead p hp; omega
      · exact hrest p hp

end C03.Main
