/-
C11 (round 5) — `fill_rests` (measure-wise) over a whole part: with pairwise disjoint, non-empty measures the rests added
for one measure start and end inside it, so the window of every other measure never sees them — the fold over
`part.measures` adds, for every measure, exactly the rests computed from the ORIGINAL objects of that measure.
-/
import PartituraModel.Proofs.C11Rests

namespace C11RestsX
open Model Model.Dur Model.Meas Model.Rests Gen C11Rests

/-- a symbolic duration lasts a positive time under positive divisions -/
theorem numeric_pos (sd : SymDur) (div : Nat) (hdiv : 0 < div) (x : Rat) (h : symbolicToNumeric sd div = some x) : 0 < x := by
  obtain ⟨ty, dots, a, n⟩ := sd
  unfold symbolicToNumeric at h
  simp only at h
  split at h
  · rename_i d m h1 h2
    simp only [Option.some.injEq] at h
    have hd : 0 < d := by
      have := (List.all_eq_true.mp label_durs_pos) _ (lookup_mem' ty _ d h1)
      simpa using this
    have hm : 0 < m := by
      have := (List.all_eq_true.mp dot_multipliers_pos) _ (List.mem_of_getElem? h2)
      simpa using this
    have hdivq : (0 : Rat) < (div : Rat) := by exact_mod_cast hdiv
    have hpos : ∀ k : Nat, (0 : Rat) < (if ((k : Nat) : Rat) = 0 then (1 : Rat) else ((k : Nat) : Rat)) := by
      intro k
      split
      · norm_num
      · rename_i hk
        have : (0 : Rat) ≤ (k : Rat) := Nat.cast_nonneg k
        exact lt_of_le_of_ne this (Ne.symm hk)
    rw [← h]
    exact mul_pos (mul_pos (mul_pos hdivq hd) hm) (div_pos (hpos _) (hpos _))
  · simp at h

theorem compositeRests_pos (div : Nat) (hdiv : 0 < div) (v : Int) (staffOf : Nat → Int) :
    ∀ (l : List SymDur) (j : Nat) (st : Rat) (rests : List GNote),
      compositeRests div v staffOf j st l = some rests → ∀ r ∈ rests, r.start < r.stop := by
  intro l
  induction l with
  | nil =>
    intro j st rests h
    simp only [compositeRests, Option.some.injEq] at h
    subst h; intro r hr; simp at hr
  | cons sd rest ih =>
    intro j st rests h
    unfold compositeRests at h
    split at h
    · simp at h
    · rename_i x hx
      cases hr : compositeRests div v staffOf (j + 1) (st + x) rest with
      | none => rw [hr] at h; simp at h
      | some tl =>
        rw [hr] at h
        simp only [Option.map_some, Option.some.injEq] at h
        subst h
        intro r hr'
        rcases List.mem_cons.mp hr' with rfl | hr'
        · have := numeric_pos sd div hdiv x (by simpa using hx)
          show st < st + x
          linarith
        · exact ih _ _ _ hr r hr'

theorem rtiles_mem : ∀ (l : List GNote) (a b : Rat), RTiles a b l → ∀ r ∈ l, a ≤ r.start ∧ r.stop ≤ b := by
  intro l
  induction l with
  | nil => intro a b _ r hr; simp at hr
  | cons x rest ih =>
    intro a b h r hr
    obtain ⟨h1, h2, h3⟩ := h
    have hle := rtiles_le _ _ _ h3
    rcases List.mem_cons.mp hr with rfl | hr
    · exact ⟨le_of_eq h1.symm, hle⟩
    · obtain ⟨i1, i2⟩ := ih _ _ h3 r hr
      exact ⟨by linarith, i2⟩

/-- the rests made for a non-empty stretch `[a, b)` with integer ends start and end inside it and are not empty -/
theorem mkRests_inside (com : Bool) (a b : Nat) (hab : a < b) (div : Nat) (hbig : div ≤ 1099511627776) (v staff : Int)
    (staffOf : Nat → Int) (rests : List GNote)
    (h : mkRests com (a : Rat) (b : Rat) div v staff staffOf = some rests) :
    ∀ r ∈ rests, (a : Rat) ≤ r.start ∧ r.start < r.stop ∧ r.stop ≤ (b : Rat) := by
  obtain ⟨htile, _⟩ := mkRests_spec com a b (Nat.le_of_lt hab) div hbig v staff staffOf rests h
  intro r hr
  obtain ⟨b1, b2⟩ := rtiles_mem rests _ _ htile r hr
  refine ⟨b1, ?_, b2⟩
  unfold mkRests at h
  split at h
  · simp at h
  · rename_i l he
    exact compositeRests_pos div (estimate_some_pos _ _ _ _ he) v staffOf l 0 _ rests h r hr
  · simp only [Option.some.injEq] at h
    subst h
    simp only [List.mem_singleton] at hr
    subst hr
    show (a : Rat) < (b : Rat)
    exact_mod_cast hab

/-- the stretches of a voice lie inside the measure and are not empty -/
theorem voiceSpans_inside (S E : Rat) (nv : List GNote)
    (hin : ∀ n ∈ nv, S ≤ n.start ∧ n.start < E ∧ n.start ≤ n.stop) :
    ∀ sp ∈ voiceSpans S E nv, S ≤ sp.1 ∧ sp.1 < sp.2 ∧ sp.2 ≤ E := by
  intro sp hsp
  unfold voiceSpans at hsp
  simp only at hsp
  split at hsp
  · rename_i a0 z ha0 hz
    have ha0m := (head_sortBy_le (·.start) nv a0 ha0).1
    have hzm := (getLast_sortBy_ge (·.stop) nv z hz).1
    rcases List.mem_append.mp hsp with hsp | hsp
    · split at hsp
      · rename_i hc
        simp only [List.mem_singleton] at hsp; subst hsp
        exact ⟨le_refl _, hc, (hin a0 ha0m).2.1.le⟩
      · simp at hsp
    · rcases List.mem_append.mp hsp with hsp | hsp
      · split at hsp
        · rename_i hc
          simp only [List.mem_singleton] at hsp; subst hsp
          obtain ⟨i1, _, i3⟩ := hin z hzm
          exact ⟨by show S ≤ z.stop; linarith, hc, le_refl _⟩
        · simp at hsp
      · obtain ⟨i, b, a, hb, ha, hlt, rfl⟩ := (mem_betweenSpans _ _ sp).mp hsp
        have hbm : b ∈ nv := (sortBy_perm (·.stop) nv).mem_iff.mp (List.mem_of_getElem? hb)
        have ham : a ∈ nv := by
          rw [List.getElem?_tail] at ha
          exact (sortBy_perm (·.start) nv).mem_iff.mp (List.mem_of_getElem? ha)
        obtain ⟨i1, _, i3⟩ := hin b hbm
        exact ⟨by show S ≤ b.stop; linarith, hlt, (hin a ham).2.1.le⟩
  · simp at hsp

/-- **the rests added for a measure lie inside it** (integer times, a non-empty measure, divisions up to 2⁴⁰) -/
theorem measureRests_inside (qd : List (Int × Nat)) (hbig : ∀ t, divsAt qd t ≤ 1099511627776) (k : Nat) (ns : List GNote)
    (S E : Nat) (hSE : S < E)
    (hnat : ∀ n ∈ window (S : Rat) (E : Rat) ns, IsNat n.start ∧ IsNat n.stop)
    (hord : ∀ n ∈ window (S : Rat) (E : Rat) ns, n.start ≤ n.stop)
    (rests : List GNote) (h : measureRests qd k ns (S : Rat) (E : Rat) = some rests) :
    ∀ r ∈ rests, (S : Rat) ≤ r.start ∧ r.start < r.stop ∧ r.stop ≤ (E : Rat) := by
  unfold measureRests at h
  simp only at h
  obtain ⟨_, c2⟩ := catOpts_some _ rests h
  intro r hr
  obtain ⟨part, hp1, hp2⟩ := c2 r hr
  rcases List.mem_cons.mp hp1 with hp1 | hp1
  · -- whole-measure rests of empty staves
    have hs := hp1.symm
    unfold staffRests at hs
    split at hs
    · obtain ⟨_, d2⟩ := catOpts_some _ part hs
      obtain ⟨q, hq1, hq2⟩ := d2 r hp2
      obtain ⟨i, _, hi⟩ := List.mem_map.mp hq1
      simp only at hi
      split at hi
      · simp only [Option.some.injEq] at hi; subst hi; simp at hq2
      · exact mkRests_inside true S E hSE _ (hbig _) _ _ _ q hi r hq2
    · simp only [Option.some.injEq] at hs; subst hs; simp at hp2
  · obtain ⟨v, _, hv⟩ := List.mem_map.mp hp1
    set nv := (window (S : Rat) (E : Rat) ns).filter (fun n => decide (n.voice = v)) with hnv
    have hsub : ∀ n ∈ nv, n ∈ window (S : Rat) (E : Rat) ns := fun n hn => (List.mem_filter.mp hn).1
    obtain ⟨L, hcat, hL1, _⟩ := voice_entries qd (S : Rat) (E : Rat) v nv part hv
    obtain ⟨q, hq1, hq2⟩ := (catOpts_some L part hcat).2 r hp2
    rcases hL1 _ hq1 with h0 | ⟨sp, hsp, staff, staffOf, hst⟩
    · simp only [Option.some.injEq] at h0; subst h0; simp at hq2
    · have hin : ∀ n ∈ nv, (S : Rat) ≤ n.start ∧ n.start < (E : Rat) ∧ n.start ≤ n.stop := by
        intro n hn
        have hw := hsub n hn
        have := (List.mem_filter.mp hw).2
        simp only [decide_eq_true_eq] at this
        exact ⟨this.1, this.2, hord n hw⟩
      obtain ⟨s1, s2, s3⟩ := voiceSpans_inside _ _ nv hin sp hsp
      obtain ⟨a, b, rfl, _⟩ := span_nat _ _ ⟨S, rfl⟩ ⟨E, rfl⟩ nv (fun n hn => hnat n (hsub n hn)) sp hsp
      have hab : a < b := by
        have s2' : (a : Rat) < (b : Rat) := s2
        exact_mod_cast s2' 
      obtain ⟨t1, t2, t3⟩ := mkRests_inside true a b hab _ (hbig _) v staff staffOf q hst.symm r hq2
      simp only at s1 s3
      exact ⟨by linarith, t2, by linarith⟩

-- ------------------------------------------------------------------ windows of other measures

theorem filter_insertG (p : GNote → Bool) (r : GNote) (hr : p r = false) : ∀ l : List GNote,
    (insertG r l).filter p = l.filter p := by
  intro l
  induction l with
  | nil => simp [insertG, hr]
  | cons a as ih =>
    unfold insertG
    split
    · rw [List.filter_cons, hr]; simp
    · rw [List.filter_cons, List.filter_cons, ih]

theorem window_addAll (S E : Rat) : ∀ (rests ns : List GNote), (∀ r ∈ rests, ¬ (S ≤ r.start ∧ r.start < E)) →
    window S E (addAll rests ns) = window S E ns := by
  intro rests
  induction rests with
  | nil => intro ns _; rfl
  | cons r rest ih =>
    intro ns h
    unfold addAll
    rw [List.foldl_cons]
    have := ih (insertG r ns) (fun x hx => h x (List.mem_cons_of_mem _ hx))
    unfold addAll at this
    rw [this]
    unfold window
    apply filter_insertG
    have := h r List.mem_cons_self
    simpa using this

/-- `_fill_rests_within_measure` reads the part only through the window of its measure -/
theorem measureRests_congr (qd : List (Int × Nat)) (k : Nat) (ns ns' : List GNote) (S E : Rat)
    (h : window S E ns = window S E ns') : measureRests qd k ns S E = measureRests qd k ns' S E := by
  unfold measureRests
  rw [h]

/-- the measures as `fill_rests` gets them -/
def castM (ms : List (Nat × Nat)) : List (Rat × Rat) := ms.map fun m => ((m.1 : Rat), (m.2 : Rat))

/-- pairwise disjoint -/
def Sep (ms : List (Nat × Nat)) : Prop := ms.Pairwise fun a b => a.2 ≤ b.1 ∨ b.2 ≤ a.1

theorem sep_mem : ∀ (ms : List (Nat × Nat)), Sep ms → ∀ a ∈ ms, ∀ b ∈ ms, a = b ∨ (a.2 ≤ b.1 ∨ b.2 ≤ a.1) := by
  intro ms
  induction ms with
  | nil => intro _ a ha; simp at ha
  | cons m rest ih =>
    intro h a ha b hb
    obtain ⟨h1, h2⟩ := List.pairwise_cons.mp h
    rcases List.mem_cons.mp ha with ha' | ha'
    · rcases List.mem_cons.mp hb with hb' | hb'
      · exact Or.inl (ha'.trans hb'.symm)
      · rw [ha']; exact Or.inr (h1 b hb')
    · rcases List.mem_cons.mp hb with hb' | hb'
      · rw [hb']; exact Or.inr ((h1 a ha').symm)
      · exact ih h2 a ha' b hb' 

/-- what the hypotheses say about the objects that start in the measures -/
def WindowsOK (ms : List (Nat × Nat)) (ns : List GNote) : Prop :=
  ∀ m ∈ ms, ∀ n ∈ window (m.1 : Rat) (m.2 : Rat) ns, (IsNat n.start ∧ IsNat n.stop) ∧ n.start ≤ n.stop

/-- **the fold over the measures decomposes**: with pairwise disjoint non-empty measures, `fill_rests` adds for every
    measure exactly the rests `_fill_rests_within_measure` computes from the ORIGINAL objects — a later measure's window
    never sees a rest added for an earlier one -/
theorem fillRests_decomposes (qd : List (Int × Nat)) (hbig : ∀ t, divsAt qd t ≤ 1099511627776) (k : Nat)
    (orig : List GNote) : ∀ (ms : List (Nat × Nat)) (cur out : List GNote),
    Sep ms → (∀ m ∈ ms, m.1 < m.2) → WindowsOK ms orig →
    (∀ m ∈ ms, window (m.1 : Rat) (m.2 : Rat) cur = window (m.1 : Rat) (m.2 : Rat) orig) →
    fillRests qd k (castM ms) cur = some out →
    (∀ m ∈ ms, ∃ rests, measureRests qd k orig (m.1 : Rat) (m.2 : Rat) = some rests) ∧
    ∀ x, x ∈ out ↔ x ∈ cur ∨ ∃ m ∈ ms, ∃ rests, measureRests qd k orig (m.1 : Rat) (m.2 : Rat) = some rests ∧ x ∈ rests := by
  intro ms
  induction ms with
  | nil =>
    intro cur out _ _ _ _ h
    simp only [fillRests, castM, List.map_nil, List.foldl_nil, Option.some.injEq] at h
    subst h
    exact ⟨by intro m hm; simp at hm, by intro x; simp⟩
  | cons m rest ih =>
    intro cur out hsep hne hwin hcur h
    obtain ⟨s1, s2⟩ := List.pairwise_cons.mp hsep
    unfold fillRests castM at h
    rw [List.map_cons, List.foldl_cons] at h
    have hm0 := hcur m List.mem_cons_self
    cases hr : measureRests qd k cur (m.1 : Rat) (m.2 : Rat) with
    | none =>
      exfalso
      have hstep : fillMeasure qd k (some cur) ((m.1 : Rat), (m.2 : Rat)) = none := by
        unfold fillMeasure; simp only [hr, Option.map_none]
      rw [hstep] at h
      have : ∀ l : List (Rat × Rat), l.foldl (fillMeasure qd k) none = none := by
        intro l; induction l with
        | nil => rfl
        | cons y ys ihy => rw [List.foldl_cons]; exact ihy
      rw [this] at h; cases h
    | some rests =>
      have hstep : fillMeasure qd k (some cur) ((m.1 : Rat), (m.2 : Rat)) = some (addAll rests cur) := by
        unfold fillMeasure; simp only [hr, Option.map_some]
      rw [hstep] at h
      have hro : measureRests qd k orig (m.1 : Rat) (m.2 : Rat) = some rests := by
        rw [← measureRests_congr qd k cur orig _ _ hm0]; exact hr
      have hw := hwin m List.mem_cons_self
      have hinside := measureRests_inside qd hbig k orig m.1 m.2 (hne m List.mem_cons_self)
        (fun n hn => (hw n hn).1) (fun n hn => (hw n hn).2) rests hro
      -- the windows of the remaining measures do not see the new rests
      have hcur' : ∀ m' ∈ rest, window (m'.1 : Rat) (m'.2 : Rat) (addAll rests cur) =
          window (m'.1 : Rat) (m'.2 : Rat) orig := by
        intro m' hm'
        rw [window_addAll _ _ rests cur]
        · exact hcur m' (List.mem_cons_of_mem _ hm')
        · intro r hr' ⟨c1, c2⟩
          obtain ⟨i1, i2, i3⟩ := hinside r hr'
          have hne' := hne m' (List.mem_cons_of_mem _ hm')
          rcases s1 m' hm' with hd | hd
          · have : (m.2 : Rat) ≤ (m'.1 : Rat) := by exact_mod_cast hd
            linarith
          · have : (m'.2 : Rat) ≤ (m.1 : Rat) := by exact_mod_cast hd
            linarith
      obtain ⟨j1, j2⟩ := ih (addAll rests cur) out s2 (fun x hx => hne x (List.mem_cons_of_mem _ hx))
        (fun x hx => hwin x (List.mem_cons_of_mem _ hx)) hcur' h
      constructor
      · intro x hx
        rcases List.mem_cons.mp hx with rfl | hx
        · exact ⟨rests, hro⟩
        · exact j1 x hx
      · intro x
        rw [j2 x, mem_addAll]
        constructor
        · rintro ((hx | hx) | ⟨m', hm', rs, h1, h2⟩)
          · exact Or.inr ⟨m, List.mem_cons_self, rests, hro, hx⟩
          · exact Or.inl hx
          · exact Or.inr ⟨m', List.mem_cons_of_mem _ hm', rs, h1, h2⟩
        · rintro (hx | ⟨m', hm', rs, h1, h2⟩)
          · exact Or.inl (Or.inr hx)
          · rcases List.mem_cons.mp hm' with rfl | hm'
            · rw [hro] at h1
              have : rests = rs := Option.some.inj h1
              subst this
              exact Or.inl (Or.inl h2)
            · exact Or.inr ⟨m', hm', rs, h1, h2⟩

/-- **fill_rests fills the gaps of every voice in every measure** (measure-wise mode; pairwise disjoint non-empty
    measures, integer times, divisions up to 2⁴⁰, a part whose objects were all there before the call): in the part
    afterwards the ADDED rests of a voice cover a time of a measure iff no object of that voice that starts in the
    measure covers it — for every measure and every voice that has something starting in it -/
theorem fill_gaps_all (qd : List (Int × Nat)) (hbig : ∀ t, divsAt qd t ≤ 1099511627776) (k : Nat) (ns out : List GNote)
    (ms : List (Nat × Nat)) (hsep : Sep ms) (hne : ∀ m ∈ ms, m.1 < m.2) (hwin : WindowsOK ms ns)
    (hold : ∀ n ∈ ns, n.added = none) (h : fillRests qd k (castM ms) ns = some out)
    (m : Nat × Nat) (hm : m ∈ ms) (v : Int) (hv : ∃ n ∈ window (m.1 : Rat) (m.2 : Rat) ns, n.voice = v)
    (t : Rat) (hS : (m.1 : Rat) ≤ t) (hE : t < (m.2 : Rat)) :
    (∃ r ∈ out, r.added.isSome = true ∧ r.voice = v ∧ r.start ≤ t ∧ t < r.stop) ↔
      ∀ n ∈ window (m.1 : Rat) (m.2 : Rat) ns, n.voice = v → ¬ (n.start ≤ t ∧ t < n.stop) := by
  obtain ⟨j1, j2⟩ := fillRests_decomposes qd hbig k ns ms ns out hsep hne hwin (fun _ _ => rfl) h
  obtain ⟨rests, hro⟩ := j1 m hm
  have hw := hwin m hm
  have hg := measure_gaps qd hbig k ns _ _ ⟨m.1, rfl⟩ ⟨m.2, rfl⟩ (fun n hn => (hw n hn).1) (fun n hn => (hw n hn).2)
    rests hro v hv t hS hE
  rw [← hg]
  constructor
  · rintro ⟨r, hr, hadd, hrv, c1, c2⟩
    rcases (j2 r).mp hr with hr | ⟨m', hm', rs, h1, h2⟩
    · rw [hold r hr] at hadd; cases hadd
    · have hw' := hwin m' hm'
      obtain ⟨i1, i2, i3⟩ := measureRests_inside qd hbig k ns m'.1 m'.2 (hne m' hm')
        (fun n hn => (hw' n hn).1) (fun n hn => (hw' n hn).2) rs h1 r h2
      rcases sep_mem ms hsep m' hm' m hm with heq | hd | hd
      · subst heq
        rw [hro] at h1
        have : rests = rs := Option.some.inj h1
        subst this
        exact ⟨r, h2, hrv, c1, c2⟩
      · exfalso
        have : (m'.2 : Rat) ≤ (m.1 : Rat) := by exact_mod_cast hd
        linarith
      · exfalso
        have : (m.2 : Rat) ≤ (m'.1 : Rat) := by exact_mod_cast hd
        linarith
  · rintro ⟨r, hr, hrv, c1, c2⟩
    refine ⟨r, (j2 r).mpr (Or.inr ⟨m, hm, rests, hro, hr⟩), ?_, hrv, c1, c2⟩
    exact made_added qd r (measureRests_made qd k ns _ _ rests hro r hr)

end C11RestsX
