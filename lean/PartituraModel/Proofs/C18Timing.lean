/-
C18 — the timing round trip: decoding the encoded groups gives back the performed onsets
(minus the mean performed onset of the first group) and the performed durations.
-/
import PartituraModel.Proofs.C18Basic
import PartituraModel.Proofs.C18Lists

namespace C18P
open Model Model.Codec

variable {α β γ δ : Type}

-- ------------------------------------------------------------------ zipWith3

theorem zipWith3_const (f : α → β → γ → δ) (h : α → δ) (gs : List α) (L : List β) (E : List γ)
    (hf : ∀ g ∈ gs, ∀ b ∈ L, ∀ e, f g b e = h g) (hL : gs.length ≤ L.length) (hE : gs.length ≤ E.length) :
    zipWith3 f gs L E = gs.map h := by
  induction gs generalizing L E with
  | nil => simp [zipWith3]
  | cons g gs ih =>
    cases L with
    | nil => simp at hL
    | cons b L =>
      cases E with
      | nil => simp at hE
      | cons e E =>
        simp only [zipWith3, List.map_cons]
        rw [hf g (by simp) b (by simp),
          ih L E (fun g' hg' b' hb' => hf g' (by simp [hg']) b' (by simp [hb'])) (by simpa using hL) (by simpa using hE)]

theorem zipWith3_length (f : α → β → γ → δ) (gs : List α) (L : List β) (E : List γ)
    (hL : gs.length ≤ L.length) (hE : gs.length ≤ E.length) : (zipWith3 f gs L E).length = gs.length := by
  induction gs generalizing L E with
  | nil => simp [zipWith3]
  | cons g gs ih =>
    cases L with
    | nil => simp at hL
    | cons b L =>
      cases E with
      | nil => simp at hE
      | cons e E =>
        simp only [zipWith3, List.length_cons]
        rw [ih L E (by simpa using hL) (by simpa using hE)]

/-- a group-wise map with group context is a plain map over the groups tagged with their context -/
def ctxG (gs : List (List α)) (L : List β) (E : List γ) : List (List (α × β × γ)) :=
  zipWith3 (fun g bc e => g.map (fun p => (p, bc, e))) gs L E

theorem zipWith3_ctx (F : γ → β → α → δ) (gs : List (List α)) (L : List β) (E : List γ) :
    zipWith3 (fun g bc e => g.map (F e bc)) gs L E = (ctxG gs L E).map (List.map (fun c => F c.2.2 c.2.1 c.1)) := by
  induction gs generalizing L E with
  | nil => simp [zipWith3, ctxG]
  | cons g gs ih =>
    cases L with
    | nil => simp [zipWith3, ctxG]
    | cons b L =>
      cases E with
      | nil => simp [zipWith3, ctxG]
      | cons e E =>
        simp only [zipWith3, ctxG, List.map_cons, List.map_map]
        rw [ih L E]
        rfl

theorem ctxG_fst (gs : List (List α)) (L : List β) (E : List γ)
    (hL : gs.length ≤ L.length) (hE : gs.length ≤ E.length) :
    (ctxG gs L E).map (List.map (·.1)) = gs := by
  have := zipWith3_ctx (fun (_ : γ) (_ : β) (p : α) => p) gs L E
  rw [← this]
  rw [zipWith3_const (fun g _ _ => g.map (fun p => p)) (fun g => g) gs L E (by intro g _ b _ e; simp) hL hE]
  simp

theorem map_map_congr (LL : List (List α)) (f g : α → β) (h : ∀ l ∈ LL, ∀ x ∈ l, f x = g x) :
    LL.map (List.map f) = LL.map (List.map g) := by
  apply List.map_congr_left
  intro l hl
  apply List.map_congr_left
  exact h l hl

-- ------------------------------------------------------------------ cumulative onsets

theorem cumFrom_length (e : Rat) (ds : List Rat) : (cumFrom e ds).length = ds.length + 1 := by
  induction ds generalizing e with
  | nil => simp [cumFrom]
  | cons d ds ih => simp [cumFrom, ih]

theorem diffs_length (l : List Rat) : (diffs l).length = l.length - 1 := by
  induction l with
  | nil => simp [diffs]
  | cons a rest ih =>
    cases rest with
    | nil => simp [diffs]
    | cons b t =>
      rw [diffs]
      simp only [List.length_cons] at ih ⊢
      omega

theorem eqOnsets_length (e0 : Rat) (bp us : List Rat) (h : bp.length = us.length) (hne : us ≠ []) :
    (eqOnsets e0 bp us).length = us.length := by
  unfold eqOnsets
  rw [cumFrom_length, List.length_zipWith, diffs_length]
  have : us.length ≠ 0 := fun h0 => hne (List.length_eq_zero_iff.mp h0)
  omega

-- ------------------------------------------------------------------ the group-wise round trip

/-- the decoder's input rows of a group, built from the encoder's output for that group -/
def rowOf (e : Rat) (bc : Rat × List Rat) (p : Nat × MNote) : Nat × DRow :=
  (p.1, toDRow p.2 (encNote e bc p).2)

/-- decoded (onset, duration) of one note before the final shift, `c` the mean performed onset of
    the first group -/
def decodedOf (c : Rat) (b : Rat) (p : Nat × MNote) : Nat × (Rat × Rat) :=
  (p.1, (p.2.po - c, artRatio b p.2.sd p.2.pd * p.2.sd * b))

/-- group by group: decoding the rows made from the encoder's output reproduces the performed
    onsets up to the constant `c`; by induction over the onset groups, for ANY beat periods -/
theorem decode_encode_groups (gs : List (Grp MNote)) (us bp : List Rat) (cols : List (List Rat))
    (a c last : Rat) (hus : us.length = gs.length) :
    zipWith3 (fun g b e' => g.map (decNote e' b))
        (zipWith3 (fun g bc e => g.map (rowOf e bc)) gs (bp.zip cols)
          (cumFrom (a + c) (List.zipWith (· * ·) bp (diffs us))))
        bp (cumFrom a (List.zipWith (· * ·) (diffs (us ++ [last])) bp))
      = zipWith3 (fun g bc (_ : Rat) => g.map (decodedOf c bc.1)) gs (bp.zip cols)
          (cumFrom (a + c) (List.zipWith (· * ·) bp (diffs us))) := by
  induction gs generalizing us bp cols a with
  | nil => simp [zipWith3]
  | cons g gs ih =>
    cases us with
    | nil => simp at hus
    | cons u us =>
      cases bp with
      | nil => simp [zipWith3]
      | cons b bp =>
        cases cols with
        | nil => simp [zipWith3]
        | cons cl cols =>
          have hus' : us.length = gs.length := by simpa using hus
          cases us with
          | nil =>
            have hgs : gs = [] := List.length_eq_zero_iff.mp hus'.symm
            subst hgs
            have hd : diffs ([u] ++ [last]) = [last - u] := by simp [diffs]
            have hd0 : diffs [u] = [] := by simp [diffs]
            rw [hd, hd0]
            simp only [List.zipWith_nil_right, cumFrom, List.zip_cons_cons, zipWith3,
              List.zipWith_cons_cons, List.map_map, List.cons.injEq, and_true]
            apply List.map_congr_left
            intro p _
            simp only [Function.comp, decNote, rowOf, toDRow, encNote, decodedOf]
            congr 2
            ring
          | cons u' us =>
            have hd1 : diffs (u :: u' :: us) = (u' - u) :: diffs (u' :: us) := by rw [diffs]
            have hd2 : diffs ((u :: u' :: us) ++ [last]) = (u' - u) :: diffs ((u' :: us) ++ [last]) := by
              simp only [List.cons_append]; rw [diffs]
            rw [hd1, hd2]
            simp only [List.zipWith_cons_cons, cumFrom, List.zip_cons_cons, zipWith3, List.map_map, List.cons.injEq]
            constructor
            · apply List.map_congr_left
              intro p _
              simp only [Function.comp, decNote, rowOf, toDRow, encNote, decodedOf]
              congr 2
              ring
            · have e1 : a + c + b * (u' - u) = (a + (u' - u) * b) + c := by ring
              rw [e1]
              exact ih (u' :: us) bp cols (a + (u' - u) * b) hus'

-- ------------------------------------------------------------------ durations, minimum shift

/-- `2^articulation_log · sd · bp` with the articulation ratio of the encoder -/
theorem dur_simp (b sd pd : Rat) (hb : 0 < b) (hsd : 0 ≤ sd) :
    artRatio b sd pd * sd * b = if sd = 0 then 0 else pd := by
  unfold artRatio
  by_cases h0 : sd = 0
  · simp [h0]
  · have hpos : 0 < sd := lt_of_le_of_ne hsd (Ne.symm h0)
    have hn : ¬ sd ≤ 0 := not_le.mpr hpos
    simp only [hn, if_false, h0]
    field_simp

theorem minL_sub (a c : Rat) (l : List Rat) : minL (a - c) (l.map (· - c)) = minL a l - c := by
  induction l generalizing a with
  | nil => simp [minL]
  | cons b bs ih =>
    simp only [List.map_cons, minL]
    have h : (if b - c < a - c then b - c else a - c) = (if b < a then b else a) - c := by
      by_cases hb : b < a
      · have : b - c < a - c := by linarith
        simp [hb, this]
      · have : ¬ (b - c < a - c) := by intro h; exact hb (by linarith)
        simp [hb, this]
    rw [h, ih]

theorem shiftMin_map (ns : List MNote) (c : Rat) (d : MNote → Rat) :
    shiftMin (ns.map fun x => (x.po - c, d x)) = ns.map fun x => (x.po - minPo ns, d x) := by
  cases ns with
  | nil => simp [shiftMin]
  | cons x rest =>
    simp only [List.map_cons, shiftMin, minPo, List.map_map]
    have h1 : (List.map (Prod.fst ∘ fun x => (x.po - c, d x)) rest) = (rest.map (·.po)).map (· - c) := by
      simp [List.map_map, Function.comp]
    rw [h1, minL_sub]
    congr 1
    · congr 1
      ring
    · apply List.map_congr_left
      intro y _
      simp only [Function.comp]
      congr 1
      ring

-- ------------------------------------------------------------------ group beat periods

theorem transposeCols_const (g : List α) (c : List Rat) (hg : g ≠ []) (k : Nat) (hk : k ≤ c.length) :
    (transposeCols (g.map fun _ => c) k).map mean = c.take k := by
  induction k with
  | zero => simp [transposeCols]
  | succ k ih =>
    have hk' : k < c.length := by omega
    simp only [transposeCols, List.map_append, List.map_cons, List.map_nil, List.map_map]
    rw [ih (by omega)]
    have : mean (List.map ((fun r => r.getD k 0) ∘ fun _ => c) g) = c[k] := by
      have e : ((fun (r : List Rat) => r.getD k 0) ∘ fun (_ : α) => c) = fun _ => c[k] := by
        funext x
        simp [Function.comp, List.getD, List.getElem?_eq_getElem hk']
      rw [e]
      exact mean_const g _ hg
    rw [this]
    exact (List.take_succ_eq_append_getElem hk').symm

/-- a group all of whose rows carry the same columns: the group beat period is the rescaled row -/
theorem groupBp_const (n : Norm) (g : Grp DRow) (c : List Rat) (hg : g ≠ []) (hc : ∀ p ∈ g, p.2.cols = c) :
    groupBp n g = rescale n c := by
  unfold groupBp
  have e : g.map (fun p => p.2.cols) = g.map (fun _ => c) := List.map_congr_left hc
  rw [e]
  cases g with
  | nil => exact absurd rfl hg
  | cons p rest =>
    simp only [List.map_cons]
    have := transposeCols_const (p :: rest) c (by simp) c.length (le_refl _)
    simp only [List.map_cons, List.take_length] at this
    rw [this]

theorem groupBp_rows (n : Norm) (gs : List (Grp MNote)) (bp : List Rat) (cols : List (List Rat)) (E : List Rat)
    (hne : ∀ g ∈ gs, g ≠ []) (hinv : List.Forall₂ (fun c b => rescale n c = some b) cols bp)
    (hlen : gs.length = bp.length) (hE : gs.length ≤ E.length) :
    (zipWith3 (fun g bc e => g.map (rowOf e bc)) gs (bp.zip cols) E).map (groupBp n) = bp.map some := by
  induction gs generalizing bp cols E with
  | nil =>
    cases bp with
    | nil => simp [zipWith3]
    | cons b bp => simp at hlen
  | cons g gs ih =>
    cases bp with
    | nil => simp at hlen
    | cons b bp =>
      cases hinv with
      | cons h1 h2 =>
        rename_i cl cols
        cases E with
        | nil => simp at hE
        | cons e E =>
          simp only [List.zip_cons_cons, zipWith3, List.map_cons, List.cons.injEq]
          constructor
          · rw [groupBp_const n (g.map (rowOf e (b, cl))) cl]
            · exact h1
            · have := hne g (by simp)
              simpa using this
            · intro p hp
              obtain ⟨q, _, rfl⟩ := List.mem_map.mp hp
              simp [rowOf, toDRow, encNote]
          · exact ih bp cols E (fun g' hg' => hne g' (by simp [hg'])) h2 (by simpa using hlen) (by simpa using hE)

theorem groupMeans_rows (gs : List (Grp MNote)) (L : List (Rat × List Rat)) (E : List Rat)
    (hL : gs.length ≤ L.length) (hE : gs.length ≤ E.length) :
    groupMeans (·.so) (zipWith3 (fun g bc e => g.map (rowOf e bc)) gs L E) = groupMeans (·.so) gs := by
  induction gs generalizing L E with
  | nil => simp [zipWith3, groupMeans]
  | cons g gs ih =>
    cases L with
    | nil => simp at hL
    | cons b L =>
      cases E with
      | nil => simp at hE
      | cons e E =>
        have := ih L E (by simpa using hL) (by simpa using hE)
        simp only [groupMeans, zipWith3, List.map_cons, List.map_map, List.cons.injEq] at this ⊢
        refine ⟨?_, this⟩
        congr 1

end C18P
