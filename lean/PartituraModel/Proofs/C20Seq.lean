/-
C20 helper lemmas for Props/C20Seq.lean (extended container protocol, Model/IterProto.lean `run3`).
-/
import PartituraModel.Model.IterProto

namespace C20SeqAux
open Model Model.IterProto

def isItem {α : Type} : Out3 α → Bool
  | .item _ => true
  | _ => false

theorem lt_of_getElem?_some {β : Type} {l : List β} {i : Nat} {b : β} (h : l[i]? = some b) : i < l.length := by
  rcases Nat.lt_or_ge i l.length with hl | hl
  · exact hl
  · rw [List.getElem?_eq_none_iff.mpr hl] at h; cases h

theorem expected3_stop {α : Type} (l : List α) (c : Nat) (hc : l[c]? = none) (k : Nat) :
    expected3 l (c + k) = Out3.stop := by
  have : l.length ≤ c := List.getElem?_eq_none_iff.mp hc
  have h2 : l[c + k]? = none := List.getElem?_eq_none_iff.mpr (by omega)
  simp [expected3, h2]

theorem range_succ_map {β : Type} (n : Nat) (g : Nat → β) :
    (List.range (1 + n)).map g = g 0 :: (List.range n).map (fun k => g (k + 1)) := by
  rw [Nat.add_comm 1, List.range_succ_eq_map]
  simp [List.map_map, Function.comp]

theorem handles_in_order3_aux {α : Type} [DecidableEq α] (parts : List α) (h : Nat) (ops : List (Op3 α)) :
    noSet ops = true →
    ∀ (s : State3) (rev : Bool) (c : Nat), s.cursors[h]? = some (rev, c) →
      nextOutputs3 h ops (run3 (parts, s) ops).2
        = (List.range (countNext3 h ops)).map (fun k => expected3 (view rev parts) (c + k)) := by
  induction ops with
  | nil => intro _ s rev c _; simp [run3, nextOutputs3, countNext3]
  | cons op ops ih =>
    intro hns s rev c hc
    have hlt : h < s.cursors.length := lt_of_getElem?_some hc
    cases op with
    | set i a => simp [noSet] at hns
    | iter =>
      have hc' : (s.cursors ++ [(false, 0)])[h]? = some (rev, c) := by
        rw [List.getElem?_append_left hlt]; exact hc
      simpa [run3, step3, nextOutputs3, countNext3] using ih (by simpa [noSet] using hns) { cursors := s.cursors ++ [(false, 0)] } rev c hc'
    | riter =>
      have hc' : (s.cursors ++ [(true, 0)])[h]? = some (rev, c) := by
        rw [List.getElem?_append_left hlt]; exact hc
      simpa [run3, step3, nextOutputs3, countNext3] using ih (by simpa [noSet] using hns) { cursors := s.cursors ++ [(true, 0)] } rev c hc'
    | len => simpa [run3, step3, nextOutputs3, countNext3] using ih (by simpa [noSet] using hns) s rev c hc
    | noattr => simpa [run3, step3, nextOutputs3, countNext3] using ih (by simpa [noSet] using hns) s rev c hc
    | contains a => simpa [run3, step3, nextOutputs3, countNext3] using ih (by simpa [noSet] using hns) s rev c hc
    | getitem i =>
      cases hp : pyIndex parts i <;>
        simpa [run3, step3, nextOutputs3, countNext3, hp] using ih (by simpa [noSet] using hns) s rev c hc
    | slice a b st =>
      cases hp : pySlice parts a b st <;>
        simpa [run3, step3, nextOutputs3, countNext3, hp] using ih (by simpa [noSet] using hns) s rev c hc
    | next h' =>
      have hns' : noSet ops = true := by simpa [noSet] using hns
      by_cases hh : h' = h
      · subst hh
        cases hp : (view rev parts)[c]? with
        | none =>
          have := ih hns' s rev c hc
          simp only [run3, step3, hc, hp, nextOutputs3, if_true, countNext3, this]
          rw [range_succ_map]
          simp only [Nat.add_zero]
          congr 1
          · simp [expected3, hp]
          · apply List.map_congr_left
            intro k _
            rw [expected3_stop _ c hp, expected3_stop _ c hp]
        | some a =>
          have hc' : (s.cursors.set h' (rev, c + 1))[h']? = some (rev, c + 1) := by
            simp [List.getElem?_set, hlt]
          have := ih hns' { cursors := s.cursors.set h' (rev, c + 1) } rev (c + 1) hc'
          simp only [run3, step3, hc, hp, nextOutputs3, if_true, countNext3, this]
          rw [range_succ_map]
          simp only [Nat.add_zero]
          congr 1
          · simp [expected3, hp]
          · apply List.map_congr_left
            intro k _
            congr 1
            omega
      · cases hc2 : s.cursors[h']? with
        | none =>
          have := ih hns' s rev c hc
          simp [run3, step3, hc2, nextOutputs3, hh, countNext3, this]
        | some rc2 =>
          obtain ⟨rev2, c2⟩ := rc2
          cases hp : (view rev2 parts)[c2]? with
          | none =>
            have := ih hns' s rev c hc
            simp [run3, step3, hc2, hp, nextOutputs3, hh, countNext3, this]
          | some a =>
            have hc' : (s.cursors.set h' (rev2, c2 + 1))[h]? = some (rev, c) := by
              rw [List.getElem?_set_ne hh]; exact hc
            have := ih hns' { cursors := s.cursors.set h' (rev2, c2 + 1) } rev c hc'
            simp [run3, step3, hc2, hp, nextOutputs3, hh, countNext3, this]

theorem setItem_length {α : Type} (parts ps : List α) (i : Int) (a : α) (h : setItem parts i a = some ps) :
    ps.length = parts.length := by
  unfold setItem at h
  split at h
  · split at h
    · cases h; simp
    · cases h
  · split at h
    · cases h; simp
    · cases h

theorem step3_length {α : Type} [DecidableEq α] (ps : List α × State3) (op : Op3 α) :
    (step3 ps op).1.1.length = ps.1.length := by
  cases op with
  | set i a =>
    simp only [step3]
    cases hs : setItem ps.1 i a with
    | none => rfl
    | some ps' => exact setItem_length _ _ _ _ hs
  | next h =>
    simp only [step3]
    cases ps.2.cursors[h]? with
    | none => rfl
    | some rc =>
      obtain ⟨rev, c⟩ := rc
      simp only
      cases (view rev ps.1)[c]? <;> rfl
  | getitem i => simp only [step3]; cases pyIndex ps.1 i <;> rfl
  | slice a b st => simp only [step3]; cases pySlice ps.1 a b st <;> rfl
  | iter => rfl
  | riter => rfl
  | len => rfl
  | contains a => rfl
  | noattr => rfl

theorem run3_length_aux {α : Type} [DecidableEq α] (ops : List (Op3 α)) :
    ∀ (ps : List α × State3), (run3 ps ops).1.1.length = ps.1.length := by
  induction ops with
  | nil => intro ps; rfl
  | cons op ops ih =>
    intro ps
    simp only [run3]
    rw [ih, step3_length]

theorem view_length {α : Type} (rev : Bool) (l : List α) : (view rev l).length = l.length := by
  cases rev <;> simp [view]

theorem view_isSome {α : Type} (rev : Bool) (l : List α) (c : Nat) :
    ((view rev l)[c]?).isSome = decide (c < l.length) := by
  by_cases h : c < l.length
  · have : c < (view rev l).length := by rw [view_length]; exact h
    simp [List.getElem?_eq_getElem this, h]
  · have : (view rev l)[c]? = none := List.getElem?_eq_none_iff.mpr (by rw [view_length]; omega)
    simp [this, h]

theorem next_count_aux {α : Type} [DecidableEq α] (h : Nat) (ops : List (Op3 α)) :
    ∀ (ps : List α) (s : State3) (rev : Bool) (c : Nat), s.cursors[h]? = some (rev, c) →
      (nextOutputs3 h ops (run3 (ps, s) ops).2).map isItem
        = (List.range (countNext3 h ops)).map (fun k => decide (c + k < ps.length)) := by
  induction ops with
  | nil => intro ps s rev c _; simp [run3, nextOutputs3, countNext3]
  | cons op ops ih =>
    intro ps s rev c hc
    have hlt : h < s.cursors.length := lt_of_getElem?_some hc
    cases op with
    | set i a =>
      cases hs : setItem ps i a with
      | none => simpa [run3, step3, nextOutputs3, countNext3, hs] using ih ps s rev c hc
      | some ps' =>
        have hl := setItem_length _ _ _ _ hs
        have := ih ps' s rev c hc
        rw [hl] at this
        simpa [run3, step3, nextOutputs3, countNext3, hs] using this
    | iter =>
      have hc' : (s.cursors ++ [(false, 0)])[h]? = some (rev, c) := by
        rw [List.getElem?_append_left hlt]; exact hc
      simpa [run3, step3, nextOutputs3, countNext3] using ih ps { cursors := s.cursors ++ [(false, 0)] } rev c hc'
    | riter =>
      have hc' : (s.cursors ++ [(true, 0)])[h]? = some (rev, c) := by
        rw [List.getElem?_append_left hlt]; exact hc
      simpa [run3, step3, nextOutputs3, countNext3] using ih ps { cursors := s.cursors ++ [(true, 0)] } rev c hc'
    | len => simpa [run3, step3, nextOutputs3, countNext3] using ih ps s rev c hc
    | noattr => simpa [run3, step3, nextOutputs3, countNext3] using ih ps s rev c hc
    | contains a => simpa [run3, step3, nextOutputs3, countNext3] using ih ps s rev c hc
    | getitem i =>
      cases hp : pyIndex ps i <;> simpa [run3, step3, nextOutputs3, countNext3, hp] using ih ps s rev c hc
    | slice a b st =>
      cases hp : pySlice ps a b st <;> simpa [run3, step3, nextOutputs3, countNext3, hp] using ih ps s rev c hc
    | next h' =>
      by_cases hh : h' = h
      · subst hh
        have hsome := view_isSome rev ps c
        cases hp : (view rev ps)[c]? with
        | none =>
          rw [hp] at hsome
          have hge : ¬ c < ps.length := by simpa using hsome.symm
          have := ih ps s rev c hc
          simp only [run3, step3, hc, hp, nextOutputs3, if_true, countNext3, List.map_cons, this]
          rw [range_succ_map]
          simp only [Nat.add_zero]
          congr 1
          all_goals first
            | (simp [isItem, hge]; done)
            | (simp [isItem, hge]; intro k _; omega)
        | some a =>
          rw [hp] at hsome
          have hltc : c < ps.length := by simpa using hsome.symm
          have hc' : (s.cursors.set h' (rev, c + 1))[h']? = some (rev, c + 1) := by
            simp [List.getElem?_set, hlt]
          have := ih ps { cursors := s.cursors.set h' (rev, c + 1) } rev (c + 1) hc'
          simp only [run3, step3, hc, hp, nextOutputs3, if_true, countNext3, List.map_cons, this]
          rw [range_succ_map]
          simp only [Nat.add_zero]
          congr 1
          all_goals first
            | (simp [isItem, hltc]; done)
            | (simp [isItem, hltc]; intro k _; omega)
      · cases hc2 : s.cursors[h']? with
        | none =>
          have := ih ps s rev c hc
          simp [run3, step3, hc2, nextOutputs3, hh, countNext3, this]
        | some rc2 =>
          obtain ⟨rev2, c2⟩ := rc2
          cases hp : (view rev2 ps)[c2]? with
          | none =>
            have := ih ps s rev c hc
            simp [run3, step3, hc2, hp, nextOutputs3, hh, countNext3, this]
          | some a =>
            have hc' : (s.cursors.set h' (rev2, c2 + 1))[h]? = some (rev, c) := by
              rw [List.getElem?_set_ne hh]; exact hc
            have := ih ps { cursors := s.cursors.set h' (rev2, c2 + 1) } rev c hc'
            simp [run3, step3, hc2, hp, nextOutputs3, hh, countNext3, this]

-- ------------------------------------------------------------------ slices

theorem filterMap_range_drop {α : Type} (l : List α) (a : Nat) :
    ∀ n : Nat, a + n ≤ l.length → (List.range n).filterMap (fun k => l[a + k]?) = (l.drop a).take n := by
  intro n
  induction n with
  | zero => intro _; simp
  | succ n ih =>
    intro h
    have hlt : a + n < l.length := by omega
    rw [List.range_succ, List.filterMap_append, ih (by omega), List.take_succ, List.getElem?_drop]
    simp [List.getElem?_eq_getElem hlt]

theorem filterMap_range_rev {α : Type} (l : List α) :
    ∀ n : Nat, n ≤ l.length →
      (List.range n).filterMap (fun k => l[l.length - 1 - k]?) = ((l.drop (l.length - n))).reverse := by
  intro n
  induction n with
  | zero => intro _; simp
  | succ n ih =>
    intro h
    have hlt : l.length - 1 - n < l.length := by omega
    rw [List.range_succ, List.filterMap_append, ih (by omega)]
    have hd : l.drop (l.length - (n + 1)) = l[l.length - 1 - n] :: l.drop (l.length - n) := by
      have h1 : l.length - (n + 1) = l.length - 1 - n := by omega
      have h2 : l.length - n = l.length - 1 - n + 1 := by omega
      rw [h1, h2]
      exact List.drop_eq_getElem_cons hlt
    rw [hd]
    simp [List.getElem?_eq_getElem hlt]

theorem slice_all {α : Type} (l : List α) : pySlice l none none none = some l := by
  have h := filterMap_range_drop l 0 l.length (by omega)
  simp only [Nat.zero_add, List.drop_zero, List.take_length] at h
  simp only [pySlice, Option.getD_none]
  by_cases hn : l.length = 0
  · have : l = [] := List.eq_nil_of_length_eq_zero hn
    subst this
    simp
  · have hpos : (0 : Int) < (l.length : Int) := by omega
    have hc : (((l.length : Int) - 0 + 1 - 1) / 1).toNat = l.length := by simp
    simp only [show ((1 : Int) = 0) = False from by simp, if_false, show ((1 : Int) > 0) = True from by simp, if_true,
      hpos, hc]
    congr 1
    refine Eq.trans ?_ h
    congr 1
    funext k
    simp

theorem slice_rev {α : Type} (l : List α) : pySlice l none none (some (-1)) = some l.reverse := by
  have h := filterMap_range_rev l l.length (Nat.le_refl _)
  simp only [Nat.sub_self, List.drop_zero] at h
  simp only [pySlice, Option.getD_some]
  have e1 : ((-1 : Int) = 0) = False := by simp
  have e2 : ((-1 : Int) > 0) = False := by simp
  simp only [e1, e2, if_false]
  by_cases hn : l.length = 0
  · have : l = [] := List.eq_nil_of_length_eq_zero hn
    subst this
    simp
  · have hlt : (-1 : Int) < (l.length : Int) - 1 := by omega
    have hc : (((l.length : Int) - 1 - -1 + - -1 - 1) / - -1).toNat = l.length := by
      have : ((l.length : Int) - 1 - -1 + - -1 - 1) = (l.length : Int) := by omega
      rw [this]; simp
    simp only [hlt, if_true, hc]
    congr 1
    refine Eq.trans ?_ h
    congr 1
    funext k
    congr 1
    omega

theorem slice_between {α : Type} (l : List α) (a b : Nat) (hab : a ≤ b) (hb : b ≤ l.length) :
    pySlice l (some (a : Int)) (some (b : Int)) none = some ((l.drop a).take (b - a)) := by
  have h := filterMap_range_drop l a (b - a) (by omega)
  simp only [pySlice, Option.getD_none]
  have e1 : ((1 : Int) = 0) = False := by simp
  have e2 : ((1 : Int) > 0) = True := by simp
  have ha0 : ¬ ((a : Int) < 0) := by omega
  have hb0 : ¬ ((b : Int) < 0) := by omega
  have ha1 : ¬ ((a : Int) > (l.length : Int)) := by omega
  have hb1 : ¬ ((b : Int) > (l.length : Int)) := by omega
  simp only [e1, e2, if_false, if_true, ha0, hb0, ha1, hb1]
  have hc : (if (a : Int) < (b : Int) then (((b : Int) - (a : Int) + 1 - 1) / 1).toNat else 0) = b - a := by
    split
    · have : ((b : Int) - (a : Int) + 1 - 1) = ((b - a : Nat) : Int) := by omega
      rw [this]; simp
    · omega
  rw [hc]
  congr 1
  refine Eq.trans ?_ h
  congr 1
  funext k
  congr 1
  omega

end C20SeqAux
