/-
C04 — the signature and tempo dictionaries of the exporter: Python `defaultdict(list)` keyed by tick
(`dictAppend`), the `tempos` dict (`dictSet`), and what `partMetas` / `exportTempos` put into them.
-/
import Mathlib.Data.List.Perm.Basic
import PartituraModel.Proofs.C04Pair
import PartituraModel.Proofs.C04Group
import PartituraModel.Model.ScoreMidi
import PartituraModel.Model.ScoreMidiSpec

namespace C04D
open Model Model.Ticks Model.MidiPair Model.MidiModes Model.ScoreMidi

def isTS : Int × Msg → Bool
  | (_, .timeSig _ _) => true
  | _ => false

def isKS : Int × Msg → Bool
  | (_, .keySig _) => true
  | _ => false

def isTempo : Int × Msg → Bool
  | (_, .tempo _) => true
  | _ => false

-- ------------------------------------------------------------------ dictAppend

variable {κ β : Type} [DecidableEq κ]

def keysOf (d : List (κ × β)) : List κ := d.map (·.1)

theorem any_key_iff (d : List (κ × β)) (k : κ) : (d.any (fun e => e.1 = k)) = true ↔ k ∈ keysOf d := by
  simp only [List.any_eq_true, decide_eq_true_eq, keysOf, List.mem_map]

theorem keys_dictAppend (d : List (κ × List β)) (k : κ) (v : β) :
    keysOf (dictAppend d k v) = if k ∈ keysOf d then keysOf d else keysOf d ++ [k] := by
  unfold dictAppend
  by_cases h : (d.any (fun e => e.1 = k)) = true
  · rw [if_pos h, if_pos ((any_key_iff d k).mp h)]
    unfold keysOf
    rw [List.map_map]
    apply List.map_congr_left
    intro e _
    by_cases he : e.1 = k <;> simp [he]
  · rw [if_neg h, if_neg (fun hk => h ((any_key_iff d k).mpr hk))]
    simp [keysOf]

theorem nodup_dictAppend (d : List (κ × List β)) (k : κ) (v : β) (h : (keysOf d).Nodup) :
    (keysOf (dictAppend d k v)).Nodup := by
  rw [keys_dictAppend]
  split
  · exact h
  · rename_i hk
    rw [List.nodup_append]
    refine ⟨h, by simp, ?_⟩
    intro a ha b hb
    simp only [List.mem_singleton] at hb
    subst hb
    exact fun e => hk (e ▸ ha)

def flat (d : List (κ × List β)) : List (κ × β) := d.flatMap fun e => e.2.map fun m => (e.1, m)

theorem flat_dictAppend (d : List (κ × List β)) (k : κ) (v : β) (h : (keysOf d).Nodup) :
    (flat (dictAppend d k v)).Perm (flat d ++ [(k, v)]) := by
  unfold dictAppend
  by_cases hany : (d.any (fun e => e.1 = k)) = true
  · rw [if_pos hany]
    have hk := (any_key_iff d k).mp hany
    clear hany
    induction d with
    | nil => simp [keysOf] at hk
    | cons e rest ih =>
      obtain ⟨k', vs⟩ := e
      simp only [keysOf, List.map_cons, List.nodup_cons] at h
      by_cases hk' : k' = k
      · subst hk'
        have hrest : rest.map (fun e => if e.1 = k' then (k', e.2 ++ [v]) else e) = rest := by
          conv_rhs => rw [← List.map_id rest]
          apply List.map_congr_left
          intro e he
          have : e.1 ≠ k' := fun h' => h.1 (h' ▸ List.mem_map.mpr ⟨e, he, rfl⟩)
          simp [this]
        simp only [List.map_cons, ↓reduceIte, hrest, flat, List.flatMap_cons, List.map_append, List.map_cons,
          List.map_nil, List.append_assoc]
        refine List.Perm.append_left _ ?_
        exact List.perm_append_comm
      · have hk2 : k ∈ keysOf rest := by
          simp only [keysOf, List.map_cons, List.mem_cons] at hk
          rcases hk with rfl | hk
          · exact absurd rfl hk'
          · exact hk
        simp only [List.map_cons, hk', ↓reduceIte, flat, List.flatMap_cons, List.append_assoc]
        exact List.Perm.append_left _ (ih h.2 hk2)
  · rw [if_neg hany]
    simp [flat]

-- ------------------------------------------------------------------ a loop of `d[key(e)].append(val(e))`

theorem foldl_dictAppend {γ : Type} (kf : γ → κ) (vf : γ → β) (l : List γ) (d : List (κ × List β))
    (h : (keysOf d).Nodup) :
    (keysOf (l.foldl (fun d e => dictAppend d (kf e) (vf e)) d)).Nodup ∧
    (flat (l.foldl (fun d e => dictAppend d (kf e) (vf e)) d)).Perm (flat d ++ l.map fun e => (kf e, vf e)) := by
  induction l generalizing d with
  | nil => simp [h]
  | cons x xs ih =>
    rw [List.foldl_cons]
    obtain ⟨h1, h2⟩ := ih (dictAppend d (kf x) (vf x)) (nodup_dictAppend d _ _ h)
    refine ⟨h1, h2.trans ?_⟩
    rw [List.map_cons]
    refine ((flat_dictAppend d (kf x) (vf x) h).append_right _).trans ?_
    simp

-- ------------------------------------------------------------------ `meta_events[part]`

theorem flattenDict_eq (d : MetaDict) : flattenDict d = flat d := rfl

/-- `shift` / `pad_bar`: the signature events of a part are exactly its time signatures and key signatures
    at the ticks of their positions (the first time signature at tick 0 for `pad_bar`) -/
theorem partMetas_plain (a : Anacrusis) (ha : a ≠ .timeSigChange) (p : PartIn) (tk : Nat → Int) :
    ∃ d, partMetas a p tk = some d ∧ (flattenDict d).Perm (tsImages a p tk ++ ksImages p tk) := by
  have hts : ∀ d0 : MetaDict, (keysOf d0).Nodup →
      (keysOf ((p.base.ts.zipIdx).foldl (fun d (x : (Nat × Nat × Nat) × Nat) =>
        dictAppend d (if a = .padBar ∧ x.2 = 0 then (0 : Int) else tk x.1.1) (Msg.timeSig x.1.2.1 x.1.2.2)) d0)).Nodup ∧
      (flat ((p.base.ts.zipIdx).foldl (fun d (x : (Nat × Nat × Nat) × Nat) =>
        dictAppend d (if a = .padBar ∧ x.2 = 0 then (0 : Int) else tk x.1.1) (Msg.timeSig x.1.2.1 x.1.2.2)) d0)).Perm
        (flat d0 ++ tsImages a p tk) := fun d0 h0 =>
    foldl_dictAppend (fun x : (Nat × Nat × Nat) × Nat => if a = .padBar ∧ x.2 = 0 then (0 : Int) else tk x.1.1)
      (fun x => Msg.timeSig x.1.2.1 x.1.2.2) _ d0 h0
  obtain ⟨n1, p1⟩ := hts [] (by simp [keysOf])
  obtain ⟨_, p2⟩ := foldl_dictAppend (fun ks : Nat × String => tk ks.1) (fun ks => Msg.keySig ks.2) p.ks _ n1
  cases a with
  | timeSigChange => exact absurd rfl ha
  | shift =>
    refine ⟨_, rfl, ?_⟩
    rw [flattenDict_eq]
    refine p2.trans ?_
    exact (p1.trans (by simp [flat])).append_right _
  | padBar =>
    refine ⟨_, rfl, ?_⟩
    rw [flattenDict_eq]
    refine p2.trans ?_
    exact (p1.trans (by simp [flat])).append_right _

-- ------------------------------------------------------------------ `time_sig_change`

/-- the measure is irregular: its length in beats differs from the beats of the signature in force -/
def irregular (b : TimeBase) (m : Nat × Nat) : Bool :=
  match tsAt b m.1 with
  | some (beats, _) => decide (beatDur b m.1 m.2 ≠ (beats : Rat))
  | none => false

def AllTS (d : MetaDict) : Prop := ∀ x ∈ flat d, isTS x = true

theorem allTS_nil : AllTS [] := by intro x hx; simp [flat] at hx

theorem allTS_dictAppend (d : MetaDict) (k : Int) (n dn : Int) (h : AllTS d) (hn : (keysOf d).Nodup) :
    AllTS (dictAppend d k (.timeSig n dn)) := by
  intro x hx
  have := (flat_dictAppend d k (Msg.timeSig n dn) hn).mem_iff.mp hx
  rcases List.mem_append.mp this with h' | h'
  · exact h x h'
  · simp only [List.mem_singleton] at h'
    subst h'
    rfl

theorem tscMeasures_spec (b : TimeBase) (tk : Nat → Int) (tsTimes : List Nat) (ms : List (Nat × Nat))
    (d : MetaDict) (irr : List Nat) (d' : MetaDict) (irr' : List Nat)
    (h : tscMeasures b tk tsTimes ms d irr = some (d', irr')) (hn : (keysOf d).Nodup) (hts : AllTS d) :
    (keysOf d').Nodup ∧ AllTS d' ∧
    (∀ k ∈ keysOf d', k ∈ keysOf d ∨ ∃ m ∈ ms, k = tk m.1 ∨ k = tk m.2) ∧
    irr' = irr ++ (ms.filter (irregular b)).map (·.1) := by
  induction ms generalizing d irr with
  | nil =>
    simp only [tscMeasures, Option.some.injEq, Prod.mk.injEq] at h
    obtain ⟨rfl, rfl⟩ := h
    exact ⟨hn, hts, fun k hk => Or.inl hk, by simp⟩
  | cons m rest ih =>
    obtain ⟨s, e⟩ := m
    simp only [tscMeasures] at h
    cases hts' : tsAt b s with
    | none => simp [hts'] at h
    | some v =>
      obtain ⟨beats, bt⟩ := v
      simp only [hts'] at h
      by_cases hd : beatDur b s e ≠ (beats : Rat)
      · rw [if_pos hd] at h
        have hirr : irregular b (s, e) = true := by simp [irregular, hts', hd]
        -- the dict after this measure
        have hn1 := nodup_dictAppend d (tk s) (Msg.timeSig (truncInt (refineBeats 8 (beatDur b s e) bt).1) (refineBeats 8 (beatDur b s e) bt).2) hn
        have ht1 := allTS_dictAppend d (tk s) (truncInt (refineBeats 8 (beatDur b s e) bt).1) (refineBeats 8 (beatDur b s e) bt).2 hts hn
        have hk1 : ∀ k ∈ keysOf (dictAppend d (tk s) (Msg.timeSig (truncInt (refineBeats 8 (beatDur b s e) bt).1) (refineBeats 8 (beatDur b s e) bt).2)),
            k ∈ keysOf d ∨ k = tk s := by
          intro k hk
          rw [keys_dictAppend] at hk
          split at hk
          · exact Or.inl hk
          · rcases List.mem_append.mp hk with h' | h'
            · exact Or.inl h'
            · exact Or.inr (by simpa using h')
        by_cases hc : tsTimes.contains e = true
        · simp only [hc, ↓reduceIte] at h
          obtain ⟨r1, r2, r3, r4⟩ := ih _ _ h hn1 ht1
          refine ⟨r1, r2, ?_, ?_⟩
          · intro k hk
            rcases r3 k hk with h' | ⟨m, hm, h'⟩
            · rcases hk1 k h' with h'' | h''
              · exact Or.inl h''
              · exact Or.inr ⟨(s, e), List.mem_cons_self, Or.inl h''⟩
            · exact Or.inr ⟨m, List.mem_cons_of_mem _ hm, h'⟩
          · rw [r4, List.filter_cons_of_pos hirr]
            simp
        · simp only [hc, Bool.false_eq_true, ↓reduceIte] at h
          have hn2 := nodup_dictAppend _ (tk e) (Msg.timeSig beats bt) hn1
          have ht2 := allTS_dictAppend _ (tk e) beats bt ht1 hn1
          obtain ⟨r1, r2, r3, r4⟩ := ih _ _ h hn2 ht2
          refine ⟨r1, r2, ?_, ?_⟩
          · intro k hk
            rcases r3 k hk with h' | ⟨m, hm, h'⟩
            · rw [keys_dictAppend] at h'
              have h'' : k ∈ keysOf (dictAppend d (tk s) (Msg.timeSig (truncInt (refineBeats 8 (beatDur b s e) bt).1) (refineBeats 8 (beatDur b s e) bt).2)) ∨ k = tk e := by
                split at h'
                · exact Or.inl h'
                · rcases List.mem_append.mp h' with h3 | h3
                  · exact Or.inl h3
                  · exact Or.inr (by simpa using h3)
              rcases h'' with h3 | h3
              · rcases hk1 k h3 with h4 | h4
                · exact Or.inl h4
                · exact Or.inr ⟨(s, e), List.mem_cons_self, Or.inl h4⟩
              · exact Or.inr ⟨(s, e), List.mem_cons_self, Or.inr h3⟩
            · exact Or.inr ⟨m, List.mem_cons_of_mem _ hm, h'⟩
          · rw [r4, List.filter_cons_of_pos hirr]
            simp
      · rw [if_neg hd] at h
        have hirr : irregular b (s, e) = false := by
          simp only [irregular, hts']
          simpa using hd
        obtain ⟨r1, r2, r3, r4⟩ := ih _ _ h hn hts
        refine ⟨r1, r2, ?_, ?_⟩
        · intro k hk
          rcases r3 k hk with h' | ⟨m, hm, h'⟩
          · exact Or.inl h'
          · exact Or.inr ⟨m, List.mem_cons_of_mem _ hm, h'⟩
        · rw [r4, List.filter_cons_of_neg (by simp [hirr])]

theorem isTS_not_isKS (x : Int × Msg) (h : isTS x = true) : isKS x = false := by
  obtain ⟨t, m⟩ := x
  cases m <;> simp_all [isTS, isKS]

theorem isKS_not_isTS (x : Int × Msg) (h : isKS x = true) : isTS x = false := by
  obtain ⟨t, m⟩ := x
  cases m <;> simp_all [isTS, isKS]

theorem isTS_not_note (x : Int × Msg) (h : isTS x = true) : C04P.isNoteMsg x = false := by
  obtain ⟨t, m⟩ := x
  cases m <;> simp_all [isTS, C04P.isNoteMsg]

theorem isKS_not_note (x : Int × Msg) (h : isKS x = true) : C04P.isNoteMsg x = false := by
  obtain ⟨t, m⟩ := x
  cases m <;> simp_all [isKS, C04P.isNoteMsg]

theorem ksImages_isKS (p : PartIn) (tk : Nat → Int) : ∀ x ∈ ksImages p tk, isKS x = true := by
  intro x hx
  simp only [ksImages, List.mem_map] at hx
  obtain ⟨ks, _, rfl⟩ := hx
  rfl

theorem tsImages_isTS (a : Anacrusis) (p : PartIn) (tk : Nat → Int) : ∀ x ∈ tsImages a p tk, isTS x = true := by
  intro x hx
  simp only [tsImages, List.mem_map] at hx
  obtain ⟨e, _, rfl⟩ := hx
  rfl

/-- splitting a list of signature events by kind -/
theorem split_kinds (l A B : List (Int × Msg)) (h : l.Perm (A ++ B)) (hA : ∀ x ∈ A, isTS x = true)
    (hB : ∀ x ∈ B, isKS x = true) : (l.filter isTS).Perm A ∧ (l.filter isKS).Perm B := by
  constructor
  · refine (h.filter isTS).trans (List.Perm.of_eq ?_)
    rw [List.filter_append, List.filter_eq_self.mpr hA,
      List.filter_eq_nil_iff.mpr (fun x hx => by simp [isKS_not_isTS x (hB x hx)]), List.append_nil]
  · refine (h.filter isKS).trans (List.Perm.of_eq ?_)
    rw [List.filter_append, List.filter_eq_self.mpr hB,
      List.filter_eq_nil_iff.mpr (fun x hx => by simp [isTS_not_isKS x (hA x hx)]), List.nil_append]

/-- `time_sig_change`: the key signatures are written at the ticks of their positions; every other event is a
    time signature; a time signature of the score that does not start an irregular measure is written at
    the tick of its position; every written time signature stands at the tick of a time signature, of a
    measure start or of a measure end -/
theorem partMetas_tsc (p : PartIn) (tk : Nat → Int) (d : MetaDict)
    (h : partMetas .timeSigChange p tk = some d) :
    ((flattenDict d).filter isKS).Perm (ksImages p tk) ∧
    (∀ x ∈ flattenDict d, isKS x = true ∨ isTS x = true) ∧
    (∀ ts ∈ p.base.ts, ts.1 ∉ (p.measures.filter (irregular p.base)).map (·.1) →
      (tk ts.1, Msg.timeSig ts.2.1 ts.2.2) ∈ flattenDict d) ∧
    (∀ x ∈ flattenDict d, isTS x = true →
      (∃ ts ∈ p.base.ts, x.1 = tk ts.1) ∨ ∃ m ∈ p.measures, x.1 = tk m.1 ∨ x.1 = tk m.2) := by
  simp only [partMetas] at h
  cases hm : tscMeasures p.base tk (p.base.ts.map (·.1)) p.measures [] [] with
  | none => simp [hm] at h
  | some r =>
    obtain ⟨d1, irr⟩ := r
    simp only [hm, Option.map_some, Option.some.injEq] at h
    obtain ⟨n1, t1, k1, i1⟩ := tscMeasures_spec _ _ _ _ _ _ _ _ hm (by simp [keysOf]) allTS_nil
    simp only [List.nil_append] at i1
    -- dropping the first of two signatures at one tick
    have hkeys : keysOf (d1.map fun e => if e.2.length = 2 then (e.1, e.2.drop 1) else e) = keysOf d1 := by
      unfold keysOf
      rw [List.map_map]
      apply List.map_congr_left
      intro e _
      by_cases he : e.2.length = 2 <;> simp [he]
    have hsub : ∀ x ∈ flat (d1.map fun e => if e.2.length = 2 then (e.1, e.2.drop 1) else e), x ∈ flat d1 := by
      intro x hx
      simp only [flat, List.mem_flatMap, List.mem_map] at hx ⊢
      obtain ⟨e', ⟨e, he, rfl⟩, m, hm', rfl⟩ := hx
      by_cases hl : e.2.length = 2
      · simp only [hl, ↓reduceIte] at hm' ⊢
        exact ⟨e, he, m, List.mem_of_mem_drop hm', rfl⟩
      · simp only [hl, ↓reduceIte] at hm' ⊢
        exact ⟨e, he, m, hm', rfl⟩
    -- the kept signatures of the score
    have hfold : ∀ d0 : MetaDict,
        p.base.ts.foldl (fun d ts => if irr.contains ts.1 then d else dictAppend d (tk ts.1) (Msg.timeSig ts.2.1 ts.2.2)) d0 =
        (p.base.ts.filter (fun ts => !irr.contains ts.1)).foldl
          (fun d ts => dictAppend d (tk ts.1) (Msg.timeSig ts.2.1 ts.2.2)) d0 := by
      intro d0
      rw [List.foldl_filter]
      congr 1
      funext d ts
      cases irr.contains ts.1 <;> simp
    rw [hfold] at h
    obtain ⟨n2, p2⟩ := foldl_dictAppend (fun ts : Nat × Nat × Nat => tk ts.1) (fun ts => Msg.timeSig ts.2.1 ts.2.2)
      (p.base.ts.filter (fun ts => !irr.contains ts.1)) _ (hkeys ▸ n1)
    obtain ⟨_, p3⟩ := foldl_dictAppend (fun ks : Nat × String => tk ks.1) (fun ks => Msg.keySig ks.2) p.ks _ n2
    rw [← h, flattenDict_eq]
    have pall := p3.trans (p2.append_right _)
    have hA : ∀ x ∈ flat (d1.map fun e => if e.2.length = 2 then (e.1, e.2.drop 1) else e) ++
        (p.base.ts.filter (fun ts => !irr.contains ts.1)).map (fun ts => (tk ts.1, Msg.timeSig ts.2.1 ts.2.2)),
        isTS x = true := by
      intro x hx
      rcases List.mem_append.mp hx with hx | hx
      · exact t1 x (hsub x hx)
      · simp only [List.mem_map] at hx
        obtain ⟨ts, _, rfl⟩ := hx
        rfl
    obtain ⟨s1, s2⟩ := split_kinds _ _ _ pall hA (ksImages_isKS p tk)
    refine ⟨s2, ?_, ?_, ?_⟩
    · intro x hx
      rcases List.mem_append.mp (pall.mem_iff.mp hx) with hx | hx
      · exact Or.inr (hA x hx)
      · exact Or.inl (ksImages_isKS p tk x hx)
    · intro ts hts hirr
      apply pall.mem_iff.mpr
      apply List.mem_append_left
      apply List.mem_append_right
      simp only [List.mem_map, List.mem_filter]
      refine ⟨ts, ⟨hts, ?_⟩, rfl⟩
      rw [i1] at *
      simpa using hirr
    · intro x hx hxt
      rcases List.mem_append.mp (pall.mem_iff.mp hx) with hx | hx
      · rcases List.mem_append.mp hx with hx | hx
        · have hx1 := hsub x hx
          have hk : x.1 ∈ keysOf d1 := by
            simp only [flat, List.mem_flatMap, List.mem_map] at hx1
            obtain ⟨e, he, m, _, rfl⟩ := hx1
            exact List.mem_map.mpr ⟨e, he, rfl⟩
          rcases k1 x.1 hk with h' | h'
          · simp [keysOf] at h'
          · exact Or.inr h'
        · simp only [List.mem_map, List.mem_filter] at hx
          obtain ⟨ts, ⟨hts, _⟩, rfl⟩ := hx
          exact Or.inl ⟨ts, hts, rfl⟩
      · have := isKS_not_isTS x (ksImages_isKS p tk x hx)
        rw [this] at hxt
        exact absurd hxt (by simp)

/-- for every anacrusis policy the key signature events of a part are its key signatures at the ticks of
    their positions -/
theorem partMetas_ks (a : Anacrusis) (p : PartIn) (tk : Nat → Int) (d : MetaDict) (h : partMetas a p tk = some d) :
    ((flattenDict d).filter isKS).Perm (ksImages p tk) := by
  by_cases ha : a = .timeSigChange
  · subst ha
    exact (partMetas_tsc p tk d h).1
  · obtain ⟨d', hd', hp⟩ := partMetas_plain a ha p tk
    rw [h] at hd'
    cases hd'
    exact (split_kinds _ _ _ hp (tsImages_isTS a p tk) (ksImages_isKS p tk)).2

/-- `shift` / `pad_bar`: the time signature events of a part -/
theorem partMetas_ts (a : Anacrusis) (ha : a ≠ .timeSigChange) (p : PartIn) (tk : Nat → Int) (d : MetaDict)
    (h : partMetas a p tk = some d) : ((flattenDict d).filter isTS).Perm (tsImages a p tk) := by
  obtain ⟨d', hd', hp⟩ := partMetas_plain a ha p tk
  rw [h] at hd'
  cases hd'
  exact (split_kinds _ _ _ hp (tsImages_isTS a p tk) (ksImages_isKS p tk)).1

/-- the signature events of a part are time or key signatures -/
theorem partMetas_kinds (a : Anacrusis) (p : PartIn) (tk : Nat → Int) (d : MetaDict) (h : partMetas a p tk = some d) :
    ∀ x ∈ flattenDict d, isKS x = true ∨ isTS x = true := by
  by_cases ha : a = .timeSigChange
  · subst ha
    exact (partMetas_tsc p tk d h).2.1
  · obtain ⟨d', hd', hp⟩ := partMetas_plain a ha p tk
    rw [h] at hd'
    cases hd'
    intro x hx
    rcases List.mem_append.mp (hp.mem_iff.mp hx) with hx | hx
    · exact Or.inr (tsImages_isTS a p tk x hx)
    · exact Or.inl (ksImages_isKS p tk x hx)

-- ------------------------------------------------------------------ the `tempos` dict

theorem keys_dictSet (d : List (κ × β)) (k : κ) (v : β) :
    keysOf (dictSet d k v) = if k ∈ keysOf d then keysOf d else keysOf d ++ [k] := by
  unfold dictSet
  by_cases h : (d.any (fun e => e.1 = k)) = true
  · rw [if_pos h, if_pos ((any_key_iff d k).mp h)]
    unfold keysOf
    rw [List.map_map]
    apply List.map_congr_left
    intro e _
    by_cases he : e.1 = k <;> simp [he]
  · rw [if_neg h, if_neg (fun hk => h ((any_key_iff d k).mpr hk))]
    simp [keysOf]

theorem nodup_dictSet (d : List (κ × β)) (k : κ) (v : β) (h : (keysOf d).Nodup) : (keysOf (dictSet d k v)).Nodup := by
  rw [keys_dictSet]
  split
  · exact h
  · rename_i hk
    rw [List.nodup_append]
    refine ⟨h, by simp, ?_⟩
    intro a ha b hb
    simp only [List.mem_singleton] at hb
    subst hb
    exact fun e => hk (e ▸ ha)

theorem mem_dictSet (d : List (κ × β)) (k : κ) (v : β) (e : κ × β) :
    e ∈ dictSet d k v ↔ e = (k, v) ∨ (e ∈ d ∧ e.1 ≠ k) := by
  unfold dictSet
  by_cases h : (d.any (fun e => e.1 = k)) = true
  · rw [if_pos h]
    simp only [List.mem_map]
    constructor
    · rintro ⟨e', he', rfl⟩
      by_cases hk : e'.1 = k
      · left; simp [hk]
      · right; simp [hk, he']
    · rintro (rfl | ⟨he, hk⟩)
      · simp only [List.any_eq_true, decide_eq_true_eq] at h
        obtain ⟨e', he', hk'⟩ := h
        exact ⟨e', he', by simp [hk']⟩
      · exact ⟨e, he, by simp [hk]⟩
  · rw [if_neg h]
    simp only [List.mem_append, List.mem_singleton]
    constructor
    · rintro (he | rfl)
      · right
        refine ⟨he, fun hk => h ?_⟩
        simp only [List.any_eq_true, decide_eq_true_eq]
        exact ⟨e, he, hk⟩
      · left; rfl
    · rintro (rfl | ⟨he, _⟩)
      · right; rfl
      · left; exact he

/-- what holds of the `tempos` dict after the parts `ps` have been read -/
structure TempoInv (tk : PartIn → Nat → Int) (ps : List PartIn) (d : List (Int × Nat)) : Prop where
  nodup : (keysOf d).Nodup
  /-- every entry is a tempo mark of some part at the tick of its position, or the default tempo -/
  src : ∀ e ∈ d, e = (0, 500000) ∨ ∃ x ∈ ps, ∃ tp ∈ x.tempos, e = (tk x tp.1, tp.2)
  /-- the tick of every tempo mark has an entry -/
  cov : ∀ x ∈ ps, ∀ tp ∈ x.tempos, tk x tp.1 ∈ keysOf d
  /-- the dict is not empty once a part has been read -/
  ne : ps ≠ [] → d ≠ []

theorem tempos_part (tk : PartIn → Nat → Int) (ps : List PartIn) (x : PartIn) (marks : List (Nat × Nat))
    (hsub : ∀ tp ∈ marks, tp ∈ x.tempos) (d : List (Int × Nat))
    (hn : (keysOf d).Nodup)
    (hs : ∀ e ∈ d, e = (0, 500000) ∨ ∃ y ∈ ps ++ [x], ∃ tp ∈ y.tempos, e = (tk y tp.1, tp.2)) :
    let d' := marks.foldl (fun d tp => dictSet d (tk x tp.1) tp.2) d
    (keysOf d').Nodup ∧
    (∀ e ∈ d', e = (0, 500000) ∨ ∃ y ∈ ps ++ [x], ∃ tp ∈ y.tempos, e = (tk y tp.1, tp.2)) ∧
    (∀ k ∈ keysOf d, k ∈ keysOf d') ∧ (∀ tp ∈ marks, tk x tp.1 ∈ keysOf d') := by
  induction marks generalizing d with
  | nil => exact ⟨hn, hs, fun k hk => hk, by simp⟩
  | cons m ms ih =>
    simp only [List.foldl_cons]
    have hn1 := nodup_dictSet d (tk x m.1) m.2 hn
    have hs1 : ∀ e ∈ dictSet d (tk x m.1) m.2, e = (0, 500000) ∨ ∃ y ∈ ps ++ [x], ∃ tp ∈ y.tempos, e = (tk y tp.1, tp.2) := by
      intro e he
      rcases (mem_dictSet d _ _ e).mp he with rfl | ⟨he, _⟩
      · exact Or.inr ⟨x, by simp, m, hsub m List.mem_cons_self, rfl⟩
      · exact hs e he
    obtain ⟨r1, r2, r3, r4⟩ := ih (fun tp htp => hsub tp (List.mem_cons_of_mem _ htp)) _ hn1 hs1
    have hk1 : ∀ k ∈ keysOf d, k ∈ keysOf (dictSet d (tk x m.1) m.2) := by
      intro k hk
      rw [keys_dictSet]
      split
      · exact hk
      · exact List.mem_append_left _ hk
    have hk2 : tk x m.1 ∈ keysOf (dictSet d (tk x m.1) m.2) := by
      rw [keys_dictSet]
      split
      · assumption
      · simp
    refine ⟨r1, r2, fun k hk => r3 k (hk1 k hk), ?_⟩
    intro tp htp
    rcases List.mem_cons.mp htp with rfl | htp
    · exact r3 _ hk2
    · exact r4 tp htp

theorem exportTempos_inv_aux (tk : PartIn → Nat → Int) (ps rest : List PartIn) (d : List (Int × Nat))
    (h : TempoInv tk ps d) :
    TempoInv tk (ps ++ rest) (rest.foldl (fun d x =>
      let d' := x.tempos.foldl (fun d tp => dictSet d (tk x tp.1) tp.2) d
      if d'.isEmpty then [(0, 500000)] else d') d) := by
  induction rest generalizing ps d with
  | nil => simpa using h
  | cons x xs ih =>
    simp only [List.foldl_cons]
    have hs0 : ∀ e ∈ d, e = (0, 500000) ∨ ∃ y ∈ ps ++ [x], ∃ tp ∈ y.tempos, e = (tk y tp.1, tp.2) := by
      intro e he
      rcases h.src e he with h' | ⟨y, hy, h'⟩
      · exact Or.inl h'
      · exact Or.inr ⟨y, List.mem_append_left _ hy, h'⟩
    obtain ⟨r1, r2, r3, r4⟩ := tempos_part tk ps x x.tempos (fun _ h' => h') d h.nodup hs0
    have hstep : TempoInv tk (ps ++ [x])
        (if (x.tempos.foldl (fun d tp => dictSet d (tk x tp.1) tp.2) d).isEmpty then [(0, 500000)]
         else x.tempos.foldl (fun d tp => dictSet d (tk x tp.1) tp.2) d) := by
      by_cases he : (x.tempos.foldl (fun d tp => dictSet d (tk x tp.1) tp.2) d).isEmpty = true
      · rw [if_pos he]
        have hnil : x.tempos.foldl (fun d tp => dictSet d (tk x tp.1) tp.2) d = [] := List.isEmpty_iff.mp he
        rw [hnil] at r3 r4
        refine ⟨by simp [keysOf], ?_, ?_, by simp⟩
        · intro e he'
          simp only [List.mem_singleton] at he'
          exact Or.inl he'
        · intro y hy tp htp
          rcases List.mem_append.mp hy with hy | hy
          · exact absurd (r3 _ (h.cov y hy tp htp)) (by simp [keysOf])
          · simp only [List.mem_singleton] at hy
            subst hy
            exact absurd (r4 tp htp) (by simp [keysOf])
      · rw [if_neg he]
        refine ⟨r1, r2, ?_, ?_⟩
        · intro y hy tp htp
          rcases List.mem_append.mp hy with hy | hy
          · exact r3 _ (h.cov y hy tp htp)
          · simp only [List.mem_singleton] at hy
            subst hy
            exact r4 tp htp
        · intro _ hnil
          rw [hnil] at he
          exact he rfl
    have := ih (ps ++ [x]) _ hstep
    simpa [List.append_assoc] using this

/-- the `tempos` dict of an export -/
theorem exportTempos_inv (tk : PartIn → Nat → Int) (parts : List PartIn) :
    TempoInv tk parts (exportTempos tk parts) := by
  have := exportTempos_inv_aux tk [] parts [] ⟨by simp [keysOf], by simp, by simp, by simp⟩
  simpa [exportTempos] using this

-- ------------------------------------------------------------------ which tempo survives on a tick

theorem lookup_dictSet (d : List (κ × β)) (k : κ) (v : β) (t : κ) :
    lookup t (dictSet d k v) = if k = t then some v else lookup t d := by
  unfold dictSet
  by_cases hany : (d.any (fun e => e.1 = k)) = true
  · rw [if_pos hany]
    have hk := (any_key_iff d k).mp hany
    clear hany
    induction d with
    | nil => simp [keysOf] at hk
    | cons e rest ih =>
      obtain ⟨a, b⟩ := e
      by_cases hak : a = k
      · subst hak
        by_cases hat : a = t
        · simp [lookup, hat]
        · simp only [List.map_cons, ↓reduceIte, lookup, hat]
          by_cases hr : a ∈ keysOf rest
          · rw [ih hr, if_neg hat]
          · have : rest.map (fun e => if e.1 = a then (a, v) else e) = rest := by
              conv_rhs => rw [← List.map_id rest]
              apply List.map_congr_left
              intro e he
              have : e.1 ≠ a := fun h' => hr (h' ▸ List.mem_map.mpr ⟨e, he, rfl⟩)
              simp [this]
            rw [this]
      · have hk2 : k ∈ keysOf rest := by
          simp only [keysOf, List.map_cons, List.mem_cons] at hk
          rcases hk with rfl | hk
          · exact absurd rfl hak
          · exact hk
        simp only [List.map_cons, hak, ↓reduceIte, lookup]
        by_cases hat : a = t
        · have : k ≠ t := fun h' => hak (hat.trans h'.symm)
          simp [hat, this]
        · simp only [hat, ↓reduceIte]
          exact ih hk2
  · rw [if_neg hany]
    have hk : k ∉ keysOf d := fun h' => hany ((any_key_iff d k).mpr h')
    clear hany
    induction d with
    | nil => simp [lookup]
    | cons e rest ih =>
      obtain ⟨a, b⟩ := e
      have hak : a ≠ k := fun h' => hk (by simp [keysOf, h'])
      have hk2 : k ∉ keysOf rest := fun h' => hk (by
        simp only [keysOf, List.map_cons, List.mem_cons]
        exact Or.inr h')
      simp only [List.cons_append, lookup]
      by_cases hat : a = t
      · have : k ≠ t := fun h' => hak (hat.trans h'.symm)
        simp [hat, this]
      · simp only [hat, ↓reduceIte]
        exact ih hk2

/-- the value of the last tempo mark (in reading order: part after part, mark after mark) on tick `t` -/
def lastMark (marks : List (Int × Nat)) (t : Int) : Option Nat :=
  ((marks.filter (fun m => m.1 = t)).getLast?).map (·.2)

theorem lastMark_append (marks : List (Int × Nat)) (m : Int × Nat) (t : Int) :
    lastMark (marks ++ [m]) t = if m.1 = t then some m.2 else lastMark marks t := by
  unfold lastMark
  rw [List.filter_append]
  by_cases h : m.1 = t
  · simp [h]
  · simp [h]

/-- all tempo marks of the parts at their written ticks, in reading order -/
def allMarks (tk : PartIn → Nat → Int) (parts : List PartIn) : List (Int × Nat) :=
  parts.flatMap fun x => x.tempos.map fun tp => (tk x tp.1, tp.2)

theorem tempos_part_last (tk : PartIn → Nat → Int) (x : PartIn) (marks : List (Nat × Nat)) (seen : List (Int × Nat))
    (d : List (Int × Nat)) (h : ∀ t v, lastMark seen t = some v → lookup t d = some v) :
    ∀ t v, lastMark (seen ++ marks.map fun tp => (tk x tp.1, tp.2)) t = some v →
      lookup t (marks.foldl (fun d tp => dictSet d (tk x tp.1) tp.2) d) = some v := by
  induction marks generalizing seen d with
  | nil => simpa using h
  | cons m ms ih =>
    simp only [List.map_cons, List.foldl_cons]
    have := ih (seen ++ [(tk x m.1, m.2)]) (dictSet d (tk x m.1) m.2) (by
      intro t v hv
      rw [lastMark_append] at hv
      rw [lookup_dictSet]
      by_cases hk : tk x m.1 = t
      · simpa [hk] using hv
      · simp only [hk, ↓reduceIte] at hv ⊢
        exact h t v hv)
    simpa [List.append_assoc] using this

theorem exportTempos_last_aux (tk : PartIn → Nat → Int) (ps rest : List PartIn) (d : List (Int × Nat))
    (h : ∀ t v, lastMark (allMarks tk ps) t = some v → lookup t d = some v) :
    ∀ t v, lastMark (allMarks tk (ps ++ rest)) t = some v →
      lookup t (rest.foldl (fun d x =>
        let d' := x.tempos.foldl (fun d tp => dictSet d (tk x tp.1) tp.2) d
        if d'.isEmpty then [(0, 500000)] else d') d) = some v := by
  induction rest generalizing ps d with
  | nil => simpa using h
  | cons x xs ih =>
    simp only [List.foldl_cons]
    have hstep := tempos_part_last tk x x.tempos (allMarks tk ps) d h
    have hmarks : allMarks tk (ps ++ [x]) = allMarks tk ps ++ x.tempos.map fun tp => (tk x tp.1, tp.2) := by
      simp [allMarks]
    have := ih (ps ++ [x])
      (if (x.tempos.foldl (fun d tp => dictSet d (tk x tp.1) tp.2) d).isEmpty then [(0, 500000)]
       else x.tempos.foldl (fun d tp => dictSet d (tk x tp.1) tp.2) d) (by
      intro t v hv
      rw [hmarks] at hv
      have hl := hstep t v hv
      by_cases he : (x.tempos.foldl (fun d tp => dictSet d (tk x tp.1) tp.2) d).isEmpty = true
      · rw [List.isEmpty_iff.mp he] at hl
        simp [lookup] at hl
      · rw [if_neg he]
        exact hl)
    simpa [List.append_assoc] using this

/-- when several tempo marks stand on one tick, the `tempos` dict holds the one read last -/
theorem exportTempos_last (tk : PartIn → Nat → Int) (parts : List PartIn) :
    ∀ t v, lastMark (allMarks tk parts) t = some v → lookup t (exportTempos tk parts) = some v := by
  have := exportTempos_last_aux tk [] parts [] (by
    intro t v hv
    simp [allMarks, lastMark] at hv)
  simpa [exportTempos] using this

end C04D
