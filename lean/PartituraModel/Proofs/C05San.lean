/-
Helper lemmas for C05, round 5: the notes `create_part` adds satisfy every side condition of C11's theorems about
`tie_notes` / `find_tuplets` / `sanitize_part` (distinct keys, no dangling ties, chains that end, contiguous links),
so `sanitize=True` is covered by C11's statement without any hypothesis left.
-/
import PartituraModel.Model.NoteArrayTs
import PartituraModel.Props.C11Sound

namespace NoteArray
open List Model Model.Meas C11Walk C11Rows C11Sound

theorem createdMeasNotes_spec (d : Nat) : ∀ (l : List (Int × Int × Int)) (i : Nat),
    ∀ n ∈ createdMeasNotes d i l, i ≤ n.key ∧ n.tieNext = none ∧ n.tiePrev = none ∧ n.start ≤ n.stop := by
  intro l
  induction l with
  | nil => intro i n hn; simp [createdMeasNotes] at hn
  | cons x l ih =>
    intro i n hn
    unfold createdMeasNotes at hn
    rcases mem_append.mp hn with h | h
    · split at h
      · rename_i hpos
        simp only [mem_singleton] at h
        subst h
        refine ⟨Nat.le_refl _, rfl, rfl, ?_⟩
        show x.1.toNat ≤ (x.1 + x.2.1).toNat
        omega
      · simp at h
    · obtain ⟨h1, h2⟩ := ih (i + 1) n h
      exact ⟨by omega, h2⟩

theorem createdMeasNotes_keys (d : Nat) : ∀ (l : List (Int × Int × Int)) (i : Nat),
    ((createdMeasNotes d i l).map (·.key)).Pairwise (· < ·) := by
  intro l
  induction l with
  | nil => intro i; simp [createdMeasNotes]
  | cons x l ih =>
    intro i
    unfold createdMeasNotes
    rw [map_append, pairwise_append]
    refine ⟨?_, ih (i + 1), ?_⟩
    · split <;> simp
    · intro a ha b hb
      obtain ⟨n, hn, rfl⟩ := mem_map.mp hb
      have := (createdMeasNotes_spec d l (i + 1) n hn).1
      split at ha
      · simp only [map_cons, map_nil, mem_singleton] at ha
        rw [ha]
        omega
      · simp at ha

theorem createdMeasNotes_keysOK (d : Nat) (l : List (Int × Int × Int)) (i : Nat) :
    KeysOK (createdMeasNotes d i l) := by
  unfold KeysOK
  exact (createdMeasNotes_keys d l i).imp (fun h => Nat.ne_of_lt h)

theorem createdMeasNotes_linksOK (d : Nat) (l : List (Int × Int × Int)) (i : Nat) :
    LinksOK (createdMeasNotes d i l) := by
  intro n hn t ht
  rw [(createdMeasNotes_spec d l i n hn).2.1] at ht
  cases ht

theorem createdMeasNotes_walkable (d : Nat) (l : List (Int × Int × Int)) (i : Nat) :
    Walkable (createdMeasNotes d i l) := by
  intro n hn _
  exact ⟨_, _, Walk.last n.key n (lk_self _ (createdMeasNotes_keysOK d l i) n hn) (createdMeasNotes_spec d l i n hn).2.1⟩

theorem createdMeasNotes_contig (d : Nat) (l : List (Int × Int × Int)) (i : Nat) :
    ContigAll (createdMeasNotes d i l) := by
  intro n hn
  obtain ⟨_, h2, _, h4⟩ := createdMeasNotes_spec d l i n hn
  refine ⟨h4, ?_⟩
  intro t nx ht
  rw [h2] at ht
  cases ht

/-- what the created notes sound like before anything is tied: every note its own (onset, duration) -/
theorem sounding_createdMeasNotes (d : Nat) (l : List (Int × Int × Int)) (i : Nat) :
    (sounding (createdMeasNotes d i l)).map (fun r => (r.1, r.2.1)) =
      (createdMeasNotes d i l).map fun n => (n.start, n.stop - n.start) := by
  unfold sounding
  rw [map_map]
  have hf : (createdMeasNotes d i l).filter (fun n => n.tiePrev.isNone) = createdMeasNotes d i l := by
    rw [filter_eq_self]
    intro n hn
    rw [(createdMeasNotes_spec d l i n hn).2.2.1]; rfl
  rw [hf]
  apply map_congr_left
  intro n hn
  have h2 := (createdMeasNotes_spec d l i n hn).2.1
  simp only [Function.comp]
  cases hlen : (createdMeasNotes d i l).length with
  | zero => simp [chainEndDur]
  | succ k => simp [chainEndDur, h2]

end NoteArray
