/-
C11 — the concrete bar-end map of `add_measures` (C02's beat maps, `Model.Meas.barEnd`) satisfies what the
measure theorems need when every stretch of one time signature lies on one linear piece of the beat map on which a
beat lasts a whole number of divisions.

Part 1: `add_measures` cannot tell a bar-end map `f` from its integral completion `integ f` as long as, on the
        integer positions of each stretch, `f` answers a later position that is integral whenever it lies before the
        end of the stretch (`LocalOK`).  `integ f` is `Integral` for every `f`, so the theorems of Proofs/C11Meas apply.
Part 2: the concrete map is `LocalOK` on such a stretch, with the closed form `n + beats * L`.
-/
import PartituraModel.Proofs.C11Meas
import PartituraModel.Props.C02

namespace C11Bar
open Model Model.Dur Model.Meas C11Meas

/-! ### Part 1: the integral completion -/

/-- `v` rounded up to an integer position after `pos` -/
def fixUp (pos v : Rat) : Rat :=
  if pos < ((v.ceil.toNat : Nat) : Rat) then ((v.ceil.toNat : Nat) : Rat) else ((pos.floor.toNat + 1 : Nat) : Rat)

def integ (f : Rat → Nat → Option Rat) : Rat → Nat → Option Rat := fun pos beats => (f pos beats).map (fixUp pos)

theorem integ_integral (f : Rat → Nat → Option Rat) : Integral (integ f) := by
  intro n beats v h
  unfold integ at h
  cases hf : f (n : Rat) beats with
  | none => rw [hf] at h; simp at h
  | some x =>
    rw [hf] at h
    simp only [Option.map_some, Option.some.injEq] at h
    unfold fixUp at h
    split at h
    · rename_i hlt
      exact ⟨_, h.symm, by exact_mod_cast hlt⟩
    · rw [floor_nat] at h
      exact ⟨n + 1, h.symm, by omega⟩

theorem ceil_nat (k : Nat) : ((k : Rat).ceil).toNat = k := by
  have e : ((k : Nat) : Rat) = ((k : Int) : Rat) := by simp
  rw [e, Rat.ceil_intCast]
  simp

/-- on the integer positions `lo ≤ n < hi` the map answers a later position, integral if before `hi` -/
def LocalOK (f : Rat → Nat → Option Rat) (lo hi beats : Nat) : Prop :=
  ∀ n : Nat, lo ≤ n → n < hi → ∀ v : Rat, f (n : Rat) beats = some v → (n : Rat) < v ∧ (v < (hi : Rat) → ∃ k : Nat, v = (k : Rat))

/-- what the loop does with the answer is the same for `f` and `integ f`, and it is an integer in `(n, hi]` -/
theorem agree (hi n : Nat) (hn : n < hi) (v : Rat) (h1 : (n : Rat) < v) (h2 : v < (hi : Rat) → ∃ k : Nat, v = (k : Rat)) :
    snap (pyMin (hi : Rat) (fixUp (n : Rat) v)) = snap (pyMin (hi : Rat) v) ∧
    ∃ k : Nat, snap (pyMin (hi : Rat) v) = (k : Rat) ∧ n < k ∧ k ≤ hi := by
  by_cases hv : v < (hi : Rat)
  · obtain ⟨k, rfl⟩ := h2 hv
    have hnk : n < k := by exact_mod_cast h1
    have hkh : k < hi := by exact_mod_cast hv
    have hfix : fixUp (n : Rat) (k : Rat) = (k : Rat) := by
      unfold fixUp
      rw [ceil_nat, if_pos (by exact_mod_cast hnk)]
    rw [hfix]
    refine ⟨rfl, k, ?_, hnk, le_of_lt hkh⟩
    rw [pyMin_nat, snap_nat, Nat.min_eq_right (le_of_lt hkh)]
  · have hge : (hi : Rat) ≤ v := not_lt.mp hv
    have hceil : (hi : Rat) ≤ ((v.ceil.toNat : Nat) : Rat) := by
      have h0 : (0 : Int) ≤ v.ceil := by
        have hv0 : (0 : Rat) ≤ v := le_trans (Nat.cast_nonneg hi) hge
        have : (-1 : Int) < v.ceil := Rat.lt_ceil_iff.mpr (by push_cast; linarith)
        omega
      have e : ((v.ceil.toNat : Nat) : Rat) = ((v.ceil : Int) : Rat) := by
        have : ((v.ceil.toNat : Nat) : Int) = v.ceil := Int.toNat_of_nonneg h0
        exact_mod_cast this
      rw [e]
      exact le_trans hge Rat.le_ceil
    have hfix : fixUp (n : Rat) v = ((v.ceil.toNat : Nat) : Rat) := by
      unfold fixUp
      rw [if_pos (lt_of_lt_of_le (by exact_mod_cast hn) hceil)]
    have e1 : pyMin (hi : Rat) v = (hi : Rat) := by unfold pyMin; rw [if_neg hv]
    have e2 : pyMin (hi : Rat) (fixUp (n : Rat) v) = (hi : Rat) := by
      rw [hfix]; unfold pyMin; rw [if_neg (not_lt.mpr hceil)]
    rw [e1, e2]
    exact ⟨rfl, hi, snap_nat hi, hn, le_refl _⟩

theorem firstInWindow_mem (lo hi : Rat) : ∀ (l : List Measure) (i : Nat) (x : Measure), firstInWindow lo hi l = some (i, x) →
    x ∈ l ∧ lo ≤ (x.start : Rat) ∧ (x.start : Rat) < hi := by
  intro l
  induction l with
  | nil => intro i x h; simp [firstInWindow] at h
  | cons m ms ih =>
    intro i x h
    by_cases hc : lo ≤ (m.start : Rat) ∧ (m.start : Rat) < hi
    · rw [firstInWindow_cons_pos _ _ _ _ hc] at h
      simp only [Option.some.injEq, Prod.mk.injEq] at h
      obtain ⟨_, rfl⟩ := h
      exact ⟨List.mem_cons_self, hc⟩
    · rw [firstInWindow_cons_neg _ _ _ _ hc] at h
      cases hr : firstInWindow lo hi ms with
      | none => rw [hr] at h; simp at h
      | some p =>
        obtain ⟨j, y⟩ := p
        rw [hr] at h
        simp only [Option.map_some, Option.some.injEq, Prod.mk.injEq] at h
        obtain ⟨_, rfl⟩ := h
        obtain ⟨a, b⟩ := ih j y hr
        exact ⟨List.mem_cons_of_mem _ a, b⟩

/-- every measure is non-empty -/
def NonEmpty (ms : List Measure) : Prop := ∀ m ∈ ms, m.start < m.stop

theorem nonEmpty_setNumber (i : Nat) (k : Int) (ms : List Measure) (h : NonEmpty ms) : NonEmpty (setNumber i k ms) := by
  unfold setNumber
  intro m hm
  rw [List.mem_iff_getElem] at hm
  obtain ⟨j, hj, rfl⟩ := hm
  rw [List.getElem_modify]
  have hj' : j < ms.length := by simpa using hj
  split
  · exact h (ms[j]) (List.getElem_mem hj')
  · exact h (ms[j]) (List.getElem_mem hj')

theorem mem_insertMeasure (x y : Measure) : ∀ l : List Measure, y ∈ insertMeasure x l ↔ y = x ∨ y ∈ l := by
  intro l
  induction l with
  | nil => simp [insertMeasure]
  | cons a as ih =>
    unfold insertMeasure
    split
    · simp
    · rw [List.mem_cons, ih, List.mem_cons]; tauto

theorem nonEmpty_insert (x : Measure) (hx : x.start < x.stop) (ms : List Measure) (h : NonEmpty ms) :
    NonEmpty (insertMeasure x ms) := by
  intro m hm
  rcases (mem_insertMeasure x m ms).mp hm with rfl | hm
  · exact hx
  · exact h m hm

/-- one stretch: same result for `f` and `integ f`, and the measures stay non-empty -/
theorem seg_congr (f : Rat → Nat → Option Rat) (lo hi beats : Nat) (hloc : LocalOK f lo hi beats) :
    ∀ (fuel : Nat) (s : St), (∃ n : Nat, s.pos = (n : Rat) ∧ lo ≤ n) → NonEmpty s.ms →
      segLoop f hi beats fuel s = segLoop (integ f) hi beats fuel s ∧
      ∀ st, segLoop f hi beats fuel s = .ok st → NonEmpty st.ms := by
  intro fuel
  induction fuel with
  | zero => intro s _ _; exact ⟨rfl, fun st h => by simp [segLoop] at h⟩
  | succ fuel ih =>
    intro s hpos hne
    obtain ⟨n, hn, hlo⟩ := hpos
    by_cases hlt : s.pos < (hi : Rat)
    swap
    · rw [seg_stop _ _ _ _ _ hlt, seg_stop _ _ _ _ _ hlt]
      exact ⟨rfl, fun st h => by simp only [Except.ok.injEq] at h; subst h; exact hne⟩
    · have hnh : n < hi := by rw [hn] at hlt; exact_mod_cast hlt
      cases hfv : f s.pos beats with
      | none =>
        have hg : integ f s.pos beats = none := by unfold integ; rw [hfv]; rfl
        have e1 : segLoop f hi beats (fuel + 1) s = .error "nan" := by
          rw [seg_eq, if_neg (not_not.mpr hlt)]; simp only [hfv]
        have e2 : segLoop (integ f) hi beats (fuel + 1) s = .error "nan" := by
          rw [seg_eq, if_neg (not_not.mpr hlt)]; simp only [hg]
        rw [e1, e2]
        exact ⟨rfl, fun st h => by cases h⟩
      | some v =>
        have hg : integ f s.pos beats = some (fixUp s.pos v) := by unfold integ; rw [hfv]; rfl
        obtain ⟨l1, l2⟩ := hloc n hlo hnh v (by rw [← hn]; exact hfv)
        obtain ⟨a1, k, a2, a3, a4⟩ := agree hi n hnh v l1 l2
        have hme : snap (pyMin (hi : Rat) (fixUp s.pos v)) = snap (pyMin (hi : Rat) v) := by rw [hn]; exact a1
        cases hwin : firstInWindow s.pos (snap (pyMin (hi : Rat) v)) s.ms with
        | none =>
          have hwin' : firstInWindow s.pos (snap (pyMin (hi : Rat) (fixUp s.pos v))) s.ms = none := by rw [hme]; exact hwin
          rw [seg_new f _ _ _ _ _ hlt hfv hwin, seg_new (integ f) _ _ _ _ _ hlt hg hwin', hme]
          apply ih
          · exact ⟨k, a2, by omega⟩
          · apply nonEmpty_insert _ _ _ hne
            show s.pos.floor.toNat < (snap (pyMin (hi : Rat) v)).floor.toNat
            rw [a2, hn, floor_nat, floor_nat]; exact a3
        | some p =>
          obtain ⟨i, ex⟩ := p
          have hwin' : firstInWindow s.pos (snap (pyMin (hi : Rat) (fixUp s.pos v))) s.ms = some (i, ex) := by
            rw [hme]; exact hwin
          obtain ⟨hexm, hex1, _⟩ := firstInWindow_mem _ _ _ _ _ hwin
          have hexne := hne ex hexm
          by_cases h4 : (ex.start : Rat) = s.pos
          · by_cases h5 : (ex.stop : Rat) > s.pos
            · rw [seg_at f _ _ _ _ _ _ _ hlt hfv hwin h4 h5, seg_at (integ f) _ _ _ _ _ _ _ hlt hg hwin' h4 h5]
              apply ih
              · refine ⟨ex.stop, rfl, ?_⟩
                have : n < ex.stop := by rw [hn] at h5; exact_mod_cast h5
                omega
              · exact nonEmpty_setNumber _ _ _ hne
            · have e1 : segLoop f hi beats (fuel + 1) s = .error "assert" := by
                rw [seg_eq, if_neg (not_not.mpr hlt)]
                simp only [hfv, hwin, h4, if_true, h5, not_false_eq_true]
              have e2 : segLoop (integ f) hi beats (fuel + 1) s = .error "assert" := by
                rw [seg_eq, if_neg (not_not.mpr hlt)]
                simp only [hg, hwin', h4, if_true, h5, not_false_eq_true]
              rw [e1, e2]
              exact ⟨rfl, fun st h => by cases h⟩
          · rw [seg_filler f _ _ _ _ _ _ _ hlt hfv hwin h4, seg_filler (integ f) _ _ _ _ _ _ _ hlt hg hwin' h4]
            have hlt2 : n < ex.start := by
              rw [hn] at hex1 h4
              have h6 : n ≤ ex.start := by exact_mod_cast hex1
              have h7 : ex.start ≠ n := by intro hc; apply h4; exact_mod_cast hc
              omega
            apply ih
            · exact ⟨ex.stop, rfl, by omega⟩
            · apply nonEmpty_insert _ _ _ (nonEmpty_setNumber _ _ _ hne)
              show s.pos.floor.toNat < ex.start
              rw [hn, floor_nat]; exact hlt2

/-- every stretch is `LocalOK` -/
def AllLocalOK (f : Rat → Nat → Option Rat) (l : List (Nat × Nat × Nat)) : Prop :=
  ∀ x ∈ l, LocalOK f x.1 x.2.1 x.2.2

theorem run_congr (f : Rat → Nat → Option Rat) (fuel : Nat) : ∀ (l : List (Nat × Nat × Nat)) (ms : List Measure) (mc : Int),
    AllLocalOK f l → NonEmpty ms → runStretches f fuel l ms mc = runStretches (integ f) fuel l ms mc := by
  intro l
  induction l with
  | nil => intro ms mc _ _; rfl
  | cons x rest ih =>
    intro ms mc hl hne
    obtain ⟨s, e, b⟩ := x
    obtain ⟨c1, c2⟩ := seg_congr f s e b (hl (s, e, b) List.mem_cons_self) fuel ⟨(s : Rat), ms, mc⟩
      ⟨s, rfl, le_refl _⟩ hne
    unfold runStretches
    rw [← c1]
    cases hseg : segLoop f e b fuel ⟨(s : Rat), ms, mc⟩ with
    | error err => rfl
    | ok st =>
      simp only
      exact ih st.ms st.mc (fun x hx => hl x (List.mem_cons_of_mem _ hx)) (c2 st hseg)

theorem td_nonEmpty : ∀ (l : List Measure) (n : Nat), TD n l → NonEmpty l := by
  intro l
  induction l with
  | nil => intro n _ m hm; simp at hm
  | cons a as ih =>
    intro n h m hm
    obtain ⟨_, h2, h3⟩ := (td_cons ..).mp h
    rcases List.mem_cons.mp hm with rfl | hm
    · exact h2
    · exact ih _ h3 m hm

/-- **`add_measures` cannot tell `f` from `integ f`** on a part whose existing measures are non-empty when `f` is
    `LocalOK` on every stretch -/
theorem addMeasures_congr (f : Rat → Nat → Option Rat) (p : PartM) (fuel : Nat) (l : List (Nat × Nat × Nat))
    (hl : stretches p = some l) (hloc : AllLocalOK f l) (hne : NonEmpty p.measures) :
    addMeasuresWith f p fuel = addMeasuresWith (integ f) p fuel := by
  unfold addMeasuresWith
  rw [hl]
  simp only
  rw [run_congr f fuel l p.measures 1 hloc hne]

/-! ### Part 2: the concrete bar-end map on a linear stretch -/

open Model.TimeMap C02Proofs

/-- the stretch `x = (start, end, beats)` lies on one linear piece of the (notated) beat map — no quarter-duration
    change strictly inside it — and on that piece a beat lasts `L` divisions:
    `divs = L * fac`, i.e. `L = 4 * quarter_duration / beat_type` -/
def StretchBeat (p : PartM) (x : Nat × Nat × Nat) (L : Nat) : Prop :=
  ∃ (pre post : List KP) (k k' : KP), keypoints (toTimeMapPart p) .notated = pre ++ k :: k' :: post ∧
    k.t ≤ (x.1 : Int) ∧ (x.2.1 : Int) ≤ k'.t ∧ 0 < L ∧ k.divs = (L : Rat) * k.fac

theorem beatMap_eq (p : PartM) (x : Rat) : beatMap (toTimeMapPart p) x = fwd (toTimeMapPart p) .notated x := rfl
theorem invBeatMap_eq (p : PartM) (y : Rat) : invBeatMap (toTimeMapPart p) y = inv (toTimeMapPart p) .notated y := rfl

/-- **closed form of the bar end** on a linear stretch: from an integer position `n` of the stretch `[s, e)` a bar of
    `b` beats ends at `n + b * L` if that is not beyond the end of the stretch; otherwise the map answers a position
    at or beyond the end of the stretch -/
theorem barEnd_linear (p : PartM) (hwf : WF (toTimeMapPart p) .notated) (s e b L : Nat)
    (hfs : p.first ≤ s) (hel : e ≤ p.last) (hlin : StretchBeat p (s, e, b) L) (n : Nat) (hsn : s ≤ n) (hne : n < e)
    (v : Rat) (h : barEnd p (n : Rat) b = some v) :
    (v = ((n + b * L : Nat) : Rat) ∧ n + b * L ≤ e) ∨ ((e : Rat) ≤ v ∧ e < n + b * L) := by
  obtain ⟨pre, post, k, k', hk, hks, hek, hL, hdiv⟩ := hlin
  simp only at hks hek
  have hkm : k ∈ keypoints (toTimeMapPart p) .notated := by rw [hk]; simp
  obtain ⟨hdpos, hfpos⟩ := (keypoints_ok (toTimeMapPart p) .notated hwf).1.2 k hkm
  have hLq : (0 : Rat) < (L : Rat) := by exact_mod_cast hL
  have hr : k.fac / k.divs = 1 / (L : Rat) := by
    rw [hdiv]; field_simp
  have hkn : ((k.t : Int) : Rat) ≤ (n : Rat) := by
    have : k.t ≤ (n : Int) := le_trans hks (by exact_mod_cast hsn)
    exact_mod_cast this
  have hnk' : (n : Rat) ≤ ((k'.t : Int) : Rat) := by
    have : (n : Int) ≤ k'.t := le_trans (by exact_mod_cast hne.le) hek
    exact_mod_cast this
  have hke : ((k.t : Int) : Rat) ≤ (e : Rat) := le_trans hkn (by exact_mod_cast hne.le)
  have hek' : (e : Rat) ≤ ((k'.t : Int) : Rat) := by exact_mod_cast hek
  obtain ⟨yk, hyk, hfn⟩ := C02.fwd_segment (toTimeMapPart p) .notated hwf pre post k k' hk (n : Rat) hkn hnk'
  obtain ⟨yk2, hyk2, hfe⟩ := C02.fwd_segment (toTimeMapPart p) .notated hwf pre post k k' hk (e : Rat) hke hek'
  rw [hyk] at hyk2
  simp only [Option.some.injEq] at hyk2
  subst hyk2
  have hfirst : (((toTimeMapPart p).first : Int) : Rat) ≤ ((toTimeMapPart p).last : Rat) := by
    show (((p.first : Nat) : Int) : Rat) ≤ (((p.last : Nat) : Int) : Rat)
    have : p.first ≤ p.last := by omega
    exact_mod_cast this
  obtain ⟨bl, hbl⟩ := C02.fwd_defined (toTimeMapPart p) .notated hwf ((toTimeMapPart p).last : Rat) hfirst (le_refl _)
  have hlastcast : (((toTimeMapPart p).last : Int) : Rat) = (p.last : Rat) := by
    show (((p.last : Nat) : Int) : Rat) = _
    simp
  rw [hlastcast] at hbl
  rw [hr] at hfn hfe
  unfold barEnd at h
  simp only [beatMap_eq, invBeatMap_eq, hfn, hbl] at h
  have helast : (e : Rat) ≤ (p.last : Rat) := by exact_mod_cast hel
  have hmono := C02.fwd_mono (toTimeMapPart p) .notated hwf (e : Rat) (p.last : Rat) _ _ helast hfe hbl
  unfold pyMin at h
  split at h
  · -- the end of the part comes first
    rename_i hlt
    have := C02.inv_fwd (toTimeMapPart p) .notated hwf _ _ hbl
    rw [this] at h
    simp only [Option.some.injEq] at h
    right
    refine ⟨by rw [← h]; exact helast, ?_⟩
    have h1 : (e : Rat) < (n : Rat) + (b : Rat) * (L : Rat) := by
      have h2 : ((e : Rat) - (k.t : Rat)) * (1 / (L : Rat)) < ((n : Rat) - (k.t : Rat)) * (1 / (L : Rat)) + (b : Rat) := by
        linarith
      have h3 := mul_lt_mul_of_pos_right h2 hLq
      have e1 : ((e : Rat) - (k.t : Rat)) * (1 / (L : Rat)) * (L : Rat) = (e : Rat) - (k.t : Rat) := by field_simp
      have e2 : (((n : Rat) - (k.t : Rat)) * (1 / (L : Rat)) + (b : Rat)) * (L : Rat) =
          (n : Rat) - (k.t : Rat) + (b : Rat) * (L : Rat) := by field_simp
      rw [e1, e2] at h3
      linarith
    exact_mod_cast h1
  · rename_i hnlt
    by_cases hc : n + b * L ≤ e
    · -- a whole bar fits
      left
      refine ⟨?_, hc⟩
      have hkc : ((k.t : Int) : Rat) ≤ ((n + b * L : Nat) : Rat) := by
        refine le_trans hkn ?_
        exact_mod_cast Nat.le_add_right n (b * L)
      have hck' : ((n + b * L : Nat) : Rat) ≤ ((k'.t : Int) : Rat) := le_trans (by exact_mod_cast hc) hek'
      obtain ⟨yk3, hyk3, hfc⟩ := C02.fwd_segment (toTimeMapPart p) .notated hwf pre post k k' hk _ hkc hck'
      rw [hyk] at hyk3
      simp only [Option.some.injEq] at hyk3
      subst hyk3
      rw [hr] at hfc
      have hval : yk + (((n + b * L : Nat) : Rat) - (k.t : Rat)) * (1 / (L : Rat)) =
          yk + ((n : Rat) - (k.t : Rat)) * (1 / (L : Rat)) + (b : Rat) := by
        push_cast
        field_simp
        ring
      rw [hval] at hfc
      have := C02.inv_fwd (toTimeMapPart p) .notated hwf _ _ hfc
      rw [this] at h
      simp only [Option.some.injEq] at h
      exact h.symm
    · -- the bar would end beyond the stretch
      right
      have hc' : e < n + b * L := by omega
      refine ⟨?_, hc'⟩
      have hfv := C02.fwd_inv (toTimeMapPart p) .notated hwf _ _ h
      by_contra hve
      have hve' : v < (e : Rat) := not_le.mp hve
      have := C02.fwd_strictMono (toTimeMapPart p) .notated hwf v (e : Rat) _ _ hve' hfv hfe
      have h1 : (e : Rat) < (n : Rat) + (b : Rat) * (L : Rat) := by exact_mod_cast hc'
      have h2 : ((e : Rat) - (k.t : Rat)) * (1 / (L : Rat)) < ((n : Rat) - (k.t : Rat)) * (1 / (L : Rat)) + (b : Rat) := by
        have e2 : ((n : Rat) - (k.t : Rat)) * (1 / (L : Rat)) + (b : Rat) =
            ((n : Rat) + (b : Rat) * (L : Rat) - (k.t : Rat)) * (1 / (L : Rat)) := by field_simp; ring
        rw [e2]
        apply mul_lt_mul_of_pos_right _ (one_div_pos.mpr hLq)
        linarith
      linarith

theorem sc_le : ∀ (l : List (Nat × Nat × Nat)) (a z : Nat), SC a z l → a ≤ z := by
  intro l
  induction l with
  | nil => intro a z h; exact le_of_eq h
  | cons x rest ih =>
    intro a z h
    obtain ⟨s, e, b⟩ := x
    obtain ⟨h1, h2, h3⟩ := (sc_cons ..).mp h
    have := ih _ _ h3
    omega

theorem sc_bounds : ∀ (l : List (Nat × Nat × Nat)) (a z : Nat), SC a z l → ∀ x ∈ l, a ≤ x.1 ∧ x.2.1 ≤ z := by
  intro l
  induction l with
  | nil => intro a z _ x hx; simp at hx
  | cons y rest ih =>
    intro a z h x hx
    obtain ⟨s, e, b⟩ := y
    obtain ⟨h1, h2, h3⟩ := (sc_cons ..).mp h
    rcases List.mem_cons.mp hx with rfl | hx
    · exact ⟨by simp only; omega, by simp only; exact sc_le _ _ _ h3⟩
    · obtain ⟨i1, i2⟩ := ih _ _ h3 x hx
      exact ⟨by omega, i2⟩

/-- the side condition for real parts: positive divisions and signature numbers (`WF`), every stretch has a positive
    number of beats per bar, and every non-empty stretch is linear with a whole number of divisions per beat -/
def BarsIntegral (p : PartM) (l : List (Nat × Nat × Nat)) : Prop :=
  WF (toTimeMapPart p) .notated ∧ ∀ x ∈ l, 0 < x.2.2 ∧ (x.1 < x.2.1 → ∃ L, StretchBeat p x L)

/-- under `BarsIntegral` the concrete bar-end map is `LocalOK` on every stretch -/
theorem barEnd_localOK (p : PartM) (l : List (Nat × Nat × Nat)) (hsc : SC p.first p.last l) (hb : BarsIntegral p l) :
    AllLocalOK (barEnd p) l := by
  intro x hx n hlo hhi v hv
  obtain ⟨s, e, b⟩ := x
  simp only at hlo hhi hv
  obtain ⟨hbpos, hlin⟩ := hb.2 (s, e, b) hx
  simp only at hbpos hlin
  obtain ⟨L, hL⟩ := hlin (by omega)
  obtain ⟨b1, b2⟩ := sc_bounds l _ _ hsc (s, e, b) hx
  have hLpos : 0 < L := by obtain ⟨_, _, _, _, _, _, _, h, _⟩ := hL; exact h
  rcases barEnd_linear p hb.1 s e b L b1 b2 hL n hlo hhi v hv with ⟨h1, h2⟩ | ⟨h1, h2⟩
  · refine ⟨?_, fun _ => ⟨_, h1⟩⟩
    rw [h1]
    have : 0 < b * L := Nat.mul_pos hbpos hLpos
    exact_mod_cast (by omega : n < n + b * L)
  · refine ⟨lt_of_lt_of_le (by exact_mod_cast hhi) h1, ?_⟩
    intro hc
    exact absurd h1 (not_le.mpr hc)

end C11Bar
