/-
C18 — the matched-note tables.
-/
import PartituraModel.Proofs.C18Lists
import Mathlib.Data.List.Forall2

namespace C18P
open Model Model.Codec

theorem lexLe_total (a b : Int × Int) : lexLe a b = true ∨ lexLe b a = true := by
  simp only [lexLe, Bool.or_eq_true, Bool.and_eq_true, decide_eq_true_eq]
  omega

theorem lexLe_trans (a b c : Int × Int) (h1 : lexLe a b = true) (h2 : lexLe b c = true) : lexLe a c = true := by
  simp only [lexLe, Bool.or_eq_true, Bool.and_eq_true, decide_eq_true_eq] at *
  omega

/-- when `to_matched_score` does not raise, its pairs are the matches with both ids present,
    in alignment order (before sorting) -/
theorem notePairs_eq (ss : List SRow) (ps : List PRow) (al : List ARow) (l : List (Nat × Nat))
    (h : notePairs ss ps al = some l) : l = matchedNotes ss ps al := by
  induction al generalizing l with
  | nil =>
    simp only [notePairs, Option.some.injEq] at h
    simp [matchedNotes, ← h]
  | cons a rest ih =>
    rw [notePairs] at h
    cases hr : notePairs ss ps rest with
    | none => rw [hr] at h; simp at h
    | some tl =>
      rw [hr] at h
      have ih' := ih tl hr
      simp only at h
      unfold matchedNotes
      rw [List.filterMap_cons]
      unfold matchedNotes at ih'
      by_cases hm : a.label = "match"
      · simp only [hm, if_true] at h ⊢
        cases hs : a.sid with
        | none => rw [hs] at h; simp at h
        | some s =>
          rw [hs] at h
          simp only at h
          cases hi : sIndex ss s with
          | none =>
            rw [hi] at h
            simp only [Option.some.injEq] at h
            cases hp : a.pid <;> simp [← h, ih', hi]
          | some i =>
            rw [hi] at h
            simp only at h
            cases hp : a.pid with
            | none => rw [hp] at h; simp at h
            | some p =>
              rw [hp] at h
              simp only at h
              cases hj : pIndex ps p with
              | none => rw [hj] at h; simp at h
              | some j =>
                rw [hj] at h
                simp only [Option.some.injEq] at h
                simp [← h, ih', hi, hj]
      · simp only [hm, if_false, Option.some.injEq] at h ⊢
        rw [← h, ih']

/-- membership in the table of `get_matched_notes` -/
theorem mem_matchedNotes (ss : List SRow) (ps : List PRow) (al : List ARow) (i j : Nat) :
    (i, j) ∈ matchedNotes ss ps al ↔
      ∃ a ∈ al, a.label = "match" ∧ ∃ s p, a.sid = some s ∧ a.pid = some p ∧
        sIndex ss s = some i ∧ pIndex ps p = some j := by
  unfold matchedNotes
  rw [List.mem_filterMap]
  constructor
  · rintro ⟨a, ha, h⟩
    refine ⟨a, ha, ?_⟩
    by_cases hm : a.label = "match"
    · simp only [hm, if_true] at h
      refine ⟨hm, ?_⟩
      cases hs : a.sid with
      | none => rw [hs] at h; simp at h
      | some s =>
        cases hp : a.pid with
        | none => rw [hs, hp] at h; simp at h
        | some p =>
          rw [hs, hp] at h
          simp only at h
          cases hi : sIndex ss s with
          | none => rw [hi] at h; simp at h
          | some i' =>
            cases hj : pIndex ps p with
            | none => rw [hi, hj] at h; simp at h
            | some j' =>
              rw [hi, hj] at h
              simp only [Option.some.injEq, Prod.mk.injEq] at h
              exact ⟨s, p, rfl, rfl, by rw [← h.1]; exact hi, by rw [← h.2]; exact hj⟩
    · simp [hm] at h
  · rintro ⟨a, ha, hm, s, p, hs, hp, hi, hj⟩
    exact ⟨a, ha, by simp [hm, hs, hp, hi, hj]⟩

/-- the table of `to_matched_score`, when it does not raise: a permutation of the matches with
    both ids present, ordered by (onset_div, pitch), each row built from its two notes -/
theorem matchedPairs_spec (ss : List SRow) (ps : List PRow) (al : List ARow) (l : List (Nat × Nat))
    (h : matchedPairs ss ps al = some l) :
    l.Perm (matchedNotes ss ps al) ∧
      l.Pairwise (fun a b => lexLe (sKey ss a.1) (sKey ss b.1) = true) := by
  unfold matchedPairs at h
  cases hn : notePairs ss ps al with
  | none => rw [hn] at h; simp at h
  | some l0 =>
    rw [hn] at h
    simp only [Option.map_some, Option.some.injEq] at h
    have h0 := notePairs_eq ss ps al l0 hn
    subst h
    constructor
    · rw [← h0]; exact perm_isort _ _
    · exact pairwise_isort (fun (a b : Nat × Nat) => lexLe (sKey ss a.1) (sKey ss b.1))
        (fun a b => lexLe_total (sKey ss a.1) (sKey ss b.1))
        (fun a b c => lexLe_trans (sKey ss a.1) (sKey ss b.1) (sKey ss c.1)) l0

end C18P
