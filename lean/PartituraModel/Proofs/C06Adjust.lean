/-
C06 helper lemmas: `adjust_time` is the integral of the tempo map.
-/
import PartituraModel.Model.PerfMidi
import PartituraModel.Proofs.Round
import Mathlib.Tactic.Linarith
import Mathlib.Tactic.Ring
import Mathlib.Tactic.FieldSimp
import Mathlib.Tactic.Positivity
import Mathlib.Algebra.Order.Field.Rat

namespace C06Adjust
open Model Model.PerfMidi

/-- seconds per tick under tempo `mpq` -/
def unit (ppq mpq : Nat) : Rat := (mpq : Rat) / ((ppq : Rat) * 1000000)

theorem unit_nonneg (ppq mpq : Nat) : 0 ≤ unit ppq mpq := by
  unfold unit; positivity

theorem unit_pos (ppq mpq : Nat) (hp : 0 < ppq) (hm : 0 < mpq) : 0 < unit ppq mpq := by
  unfold unit
  have h1 : (0 : Rat) < (mpq : Rat) := by exact_mod_cast hm
  have h2 : (0 : Rat) < (ppq : Rat) := by exact_mod_cast hp
  positivity

/-- Σ over the tempo segments: the segment that starts at `cur.1` with tempo `cur.2` lasts until the next
    change (or for ever); the part of it before tick `k` counts -/
def integral (ppq : Nat) (k : Int) : Int × Nat → List (Int × Nat) → Rat
  | cur, [] => (max (k - cur.1) 0 : Int) * unit ppq cur.2
  | cur, nxt :: rest => (max (min k nxt.1 - cur.1) 0 : Int) * unit ppq cur.2 + integral ppq k nxt rest

/-- tempo changes in order of tick, none before `lo` -/
def SortedFrom (lo : Int) : List (Int × Nat) → Prop
  | [] => True
  | c :: rest => lo ≤ c.1 ∧ SortedFrom c.1 rest

theorem tickToSec_eq (d : Int) (mpq ppq : Nat) : tickToSec d mpq ppq = (d : Rat) * unit ppq mpq := by
  unfold tickToSec unit
  rw [div_eq_mul_inv, div_eq_mul_inv]
  ring

theorem integral_nonneg (ppq : Nat) (k : Int) (cur : Int × Nat) (rest : List (Int × Nat)) :
    0 ≤ integral ppq k cur rest := by
  induction rest generalizing cur with
  | nil =>
    unfold integral
    have : (0 : Rat) ≤ ((max (k - cur.1) 0 : Int) : Rat) := by exact_mod_cast le_max_right _ _
    exact mul_nonneg this (unit_nonneg _ _)
  | cons nxt rest ih =>
    unfold integral
    have : (0 : Rat) ≤ ((max (min k nxt.1 - cur.1) 0 : Int) : Rat) := by exact_mod_cast le_max_right _ _
    exact add_nonneg (mul_nonneg this (unit_nonneg _ _)) (ih nxt)

/-- nothing is integrated before the current segment starts -/
theorem integral_zero (ppq : Nat) (k : Int) (cur : Int × Nat) (rest : List (Int × Nat))
    (hk : k ≤ cur.1) (hs : SortedFrom cur.1 rest) : integral ppq k cur rest = 0 := by
  induction rest generalizing cur with
  | nil =>
    unfold integral
    have : max (k - cur.1) 0 = 0 := by omega
    rw [this]; simp
  | cons nxt rest ih =>
    unfold integral
    obtain ⟨h1, h2⟩ := hs
    have : max (min k nxt.1 - cur.1) 0 = 0 := by omega
    rw [this, ih nxt (by omega) h2]; simp

/-- the loop of `adjust_time`, started inside the segment (`lastTick ≤ tick`), adds the integral -/
theorem adjustLoop_eq (ppq : Nat) (k : Int) (time : Rat) (lt : Int) (lm : Nat) (tc : List (Int × Nat))
    (hk : lt ≤ k) (hs : SortedFrom lt tc) :
    adjustLoop k ppq time lt lm tc = time + integral ppq k (lt, lm) tc := by
  induction tc generalizing time lt lm with
  | nil =>
    unfold adjustLoop integral
    have : max (k - lt) 0 = k - lt := by omega
    simp only [this]
    rfl
  | cons c rest ih =>
    obtain ⟨ct, m⟩ := c
    obtain ⟨h1, h2⟩ := hs
    simp only at h1 h2
    unfold adjustLoop integral
    split
    · rename_i hlt
      have hz : integral ppq k (ct, m) rest = 0 := integral_zero ppq k (ct, m) rest (by simp; omega) h2
      have : max (min k ct - lt) 0 = k - lt := by omega
      simp only [this, hz, add_zero]
      rfl
    · rename_i hge
      have hge' : ct ≤ k := by omega
      rw [ih _ ct m hge' h2, tickToSec_eq]
      have : max (min k ct - lt) 0 = ct - lt := by omega
      simp only [this]
      ring

theorem integral_mono (ppq : Nat) (a b : Int) (hab : a ≤ b) (cur : Int × Nat) (rest : List (Int × Nat)) :
    integral ppq a cur rest ≤ integral ppq b cur rest := by
  induction rest generalizing cur with
  | nil =>
    unfold integral
    have : ((max (a - cur.1) 0 : Int) : Rat) ≤ ((max (b - cur.1) 0 : Int) : Rat) := by
      exact_mod_cast (by omega : max (a - cur.1) 0 ≤ max (b - cur.1) 0)
    exact mul_le_mul_of_nonneg_right this (unit_nonneg _ _)
  | cons nxt rest ih =>
    unfold integral
    have : ((max (min a nxt.1 - cur.1) 0 : Int) : Rat) ≤ ((max (min b nxt.1 - cur.1) 0 : Int) : Rat) := by
      exact_mod_cast (by omega : max (min a nxt.1 - cur.1) 0 ≤ max (min b nxt.1 - cur.1) 0)
    exact add_le_add (mul_le_mul_of_nonneg_right this (unit_nonneg _ _)) (ih nxt)

/-- all tempi positive -/
def AllPos (l : List (Int × Nat)) : Prop := ∀ c ∈ l, 0 < c.2

theorem integral_strictMono (ppq : Nat) (hp : 0 < ppq) (a b : Int) (hab : a < b)
    (cur : Int × Nat) (rest : List (Int × Nat)) (hcur : cur.1 ≤ a) (hm : 0 < cur.2)
    (hs : SortedFrom cur.1 rest) (hpos : AllPos rest) :
    integral ppq a cur rest < integral ppq b cur rest := by
  induction rest generalizing cur with
  | nil =>
    unfold integral
    have : ((max (a - cur.1) 0 : Int) : Rat) < ((max (b - cur.1) 0 : Int) : Rat) := by
      exact_mod_cast (by omega : max (a - cur.1) 0 < max (b - cur.1) 0)
    exact mul_lt_mul_of_pos_right this (unit_pos _ _ hp hm)
  | cons nxt rest ih =>
    obtain ⟨h1, h2⟩ := hs
    have hmn : 0 < nxt.2 := hpos nxt (List.mem_cons_self)
    have hpos' : AllPos rest := fun c hc => hpos c (List.mem_cons_of_mem _ hc)
    unfold integral
    by_cases hn : nxt.1 ≤ a
    · -- both are past the next change: the first terms agree
      have e1 : max (min a nxt.1 - cur.1) 0 = max (min b nxt.1 - cur.1) 0 := by omega
      rw [e1]
      have := ih nxt hn hmn h2 hpos'
      linarith
    · -- `a` is inside the current segment
      have hza : integral ppq a nxt rest = 0 := integral_zero ppq a nxt rest (by omega) h2
      rw [hza, add_zero]
      have hlt : ((max (min a nxt.1 - cur.1) 0 : Int) : Rat) < ((max (min b nxt.1 - cur.1) 0 : Int) : Rat) := by
        exact_mod_cast (by omega : max (min a nxt.1 - cur.1) 0 < max (min b nxt.1 - cur.1) 0)
      have := mul_lt_mul_of_pos_right hlt (unit_pos _ _ hp hm)
      have hnn := integral_nonneg ppq b nxt rest
      linarith

/-- `adjust_time` on a list that starts at a non-negative tick -/
theorem adjustTime_eq (ppq : Nat) (k : Int) (t0 : Int) (m0 : Nat) (rest : List (Int × Nat))
    (hk : 0 ≤ k) (hs : SortedFrom 0 ((t0, m0) :: rest)) :
    adjustTime k ((t0, m0) :: rest) ppq = some (integral ppq k (0, m0) ((t0, m0) :: rest)) := by
  unfold adjustTime
  simp only
  rw [adjustLoop_eq ppq k 0 0 m0 _ hk hs, zero_add]

-- ------------------------------------------------------------------ SortedFrom of a sorted list

theorem sortedFrom_of_pairwise (lo : Int) (l : List (Int × Nat))
    (hlo : ∀ c ∈ l, lo ≤ c.1) (h : l.Pairwise (fun a b => tempoLe a b = true)) : SortedFrom lo l := by
  induction l generalizing lo with
  | nil => trivial
  | cons c rest ih =>
    rw [List.pairwise_cons] at h
    refine ⟨hlo c (List.mem_cons_self), ih c.1 ?_ h.2⟩
    intro d hd
    have := h.1 d hd
    simpa [tempoLe] using this

theorem tempoLe_total (a b : Int × Nat) : tempoLe a b = true ∨ tempoLe b a = true := by
  simp only [tempoLe, decide_eq_true_eq]; omega

theorem tempoLe_trans (a b c : Int × Nat) (h1 : tempoLe a b = true) (h2 : tempoLe b c = true) :
    tempoLe a c = true := by
  simp only [tempoLe, decide_eq_true_eq] at *; omega

end C06Adjust
