/-
C17: the double-accidental bound of ps13 — finite table part and octave-shift invariance.
-/
import PartituraModel.Proofs.C17Ps13
import Mathlib.Tactic.Ring
import Mathlib.Tactic.FieldSimp

namespace C17P
open Model Model.Ps13 Gen

/-- alteration given to a note of chromatic pitch `cp` whose morph is `m` -/
def alterOf (cp m : Int) : Int := (p2pn cp (morpheticPitch cp m)).2.1

/-- WHOLE finite domain (12 x 12 x 12): first-note chroma c0, note chroma cj, tonic chroma ct.
    The alteration of a note whose morph is the one the tonic `ct` assigns to it is at most a
    double accidental. -/
theorem acc_table : ∀ c0 cj ct : Fin 12,
    -2 ≤ alterOf (cj.val : Int) (morphForTonic (c0.val : Int) (cj.val : Int) (ct.val : Int)) ∧
    alterOf (cj.val : Int) (morphForTonic (c0.val : Int) (cj.val : Int) (ct.val : Int)) ≤ 2 := by
  decide +kernel


theorem octDiff_shift (cp m d : Int) :
    octDiff cp m (cp / 12 + d) = octDiff (cp % 12) m ((cp % 12) / 12 + d) := by
  have h0 : (cp % 12) / 12 = 0 := by omega
  have h1 : (cp % 12) % 12 = cp % 12 := by omega
  unfold octDiff
  rw [h0, h1]
  congr 1
  push_cast
  ring

/-- `compute_morphetic_pitch` commutes with octave shifts of the chromatic pitch -/
theorem morpheticPitch_shift (cp m : Int) :
    morpheticPitch cp m = morpheticPitch (cp % 12) m + 7 * (cp / 12) := by
  have h0 : (cp % 12) / 12 = 0 := by omega
  have e0 := octDiff_shift cp m 0
  have e1 := octDiff_shift cp m 1
  have e2 : octDiff cp m (cp / 12 - 1) = octDiff (cp % 12) m (cp % 12 / 12 - 1) := by
    have := octDiff_shift cp m (-1)
    simpa only [Int.sub_eq_add_neg] using this
  simp only [Int.add_zero] at e0
  unfold morpheticPitch
  rw [e0, e1, e2, h0]
  unfold morpheticPitchOf
  generalize argBestNE _ _ _ = k
  simp only []
  split
  · omega
  · split <;> omega

/-- the alteration depends on the chromatic pitch only through its chroma -/
theorem alterOf_shift (cp m : Int) : alterOf cp m = alterOf (cp % 12) m := by
  unfold alterOf
  rw [morpheticPitch_shift cp m]
  generalize morpheticPitch (cp % 12) m = x
  simp only [p2pn, undChroma]
  have : (x + 7 * (cp / 12)) % 7 = x % 7 := by omega
  rw [this]
  omega

end C17P
