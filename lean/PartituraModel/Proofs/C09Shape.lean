/-
C09 helper lemmas, part 3: the shape families (chains with simple repeats, no structure),
disjointness of the segments and the copy count.
-/
import PartituraModel.Proofs.C09Variant

namespace C09
open Model.Unfold

/-! ### chains with simple repeats -/

def nextDest (n i : Nat) : Dest := if i + 1 = n then .fin else .seg (i + 1)

def chainSeg (n i : Nat) (b : Bool) (ty : SegType) (t : Int × Int) : Seg :=
  { start := t.1, stp := t.2, to := if b then [.seg i, nextDest n i] else [nextDest n i], await := [], ty := ty }

/-- the segment table of a part whose only structure is a set of pairwise disjoint simple repeats:
section `i` is repeated iff `flags[i]` -/
def chainGraph (flags : List Bool) (tys : List SegType) (times : List (Int × Int)) : List Seg :=
  (enum 0 flags).map fun q => chainSeg flags.length q.1 q.2 (tys.getD q.1 .dflt) (times.getD q.1 (0, 0))

def allPaths : Nat → List Bool → List (List Nat)
  | _, [] => [[]]
  | i, false :: fs => (allPaths (i + 1) fs).map fun s => i :: s
  | i, true :: fs => ((allPaths (i + 1) fs).map fun s => i :: i :: s) ++ ((allPaths (i + 1) fs).map fun s => i :: s)

def maxPath : Nat → List Bool → List Nat
  | _, [] => []
  | i, false :: fs => i :: maxPath (i + 1) fs
  | i, true :: fs => i :: i :: maxPath (i + 1) fs

def minPath : Nat → List Bool → List Nat
  | _, [] => []
  | i, _ :: fs => i :: minPath (i + 1) fs

theorem allPaths_length (flags : List Bool) (i : Nat) : (allPaths i flags).length = 2 ^ (flags.count true) := by
  induction flags generalizing i with
  | nil => simp [allPaths]
  | cons b fs ih =>
    cases b with
    | false => simp [allPaths, ih]
    | true =>
      simp only [allPaths, List.length_append, List.length_map, ih, List.count_cons_self]
      rw [Nat.pow_succ]; omega

/-! ### no structure -/

theorem no_repeats_graph (first last : Int) (h : first < last) :
    mkSegments { first := first, last := last } =
      some [{ start := first, stp := last, to := [.fin], await := [],
              ty := if first = 0 then .leapEnd else .dflt }] := by
  have hne : ¬ last = first := by omega
  have htb : mkTable { first := first, last := last } =
      [(first, { isStart := true }), (last, { isEnd := true })] := by
    simp [mkTable, tblUpd, h]
  have hget : tblGet last [(first, ({ isStart := true } : BInfo)), (last, { isEnd := true })] =
      some { isEnd := true } := by
    simp [tblGet, hne]
  have hid : idOf [first, last] last = some .fin := by
    simp [idOf, idxOf, hne]
  have hproc : procSeg { first := first, last := last }
      [(first, { isStart := true }), (last, { isEnd := true })] [first, last] 0 first last
      { info := [{}] } =
      some { info := [{ to := [(Tag.plain, Dest.fin)], ty := if first = 0 then .leapEnd else .dflt }] } := by
    unfold procSeg
    rw [hget, hid]
    simp only [stRepeatStart, stRepeatEnd, stVoltaStart, stVoltaEnd, stLeapEnd, stToCoda, stJumpBack, stFine,
      stEnd, stFirst, Option.isSome_none, Bool.false_and, Bool.false_eq_true, if_false, Option.bind_some,
      if_true, addTo, modAt]
    by_cases h0 : first = 0 <;> simp [setTy, modAt, h0]
  unfold mkSegments
  simp only [Layout.supported, List.all_nil, Bool.not_true, Bool.false_eq_true, if_false, htb, List.map_cons,
    List.map_nil, List.length_cons, List.length_nil]
  simp only [procAll, List.replicate, hproc]
  by_cases h0 : first = 0 <;>
    simp [buildSegs, cleanTo, nav1Of, insSorted, insVolta, h0]

theorem no_repeats_aux (first last : Int) (h : first < last) (nr ar il : Bool) (fuel : Nat) :
    (mkSegments { first := first, last := last }).bind (fun g => getPaths g nr ar il (fuel + 1)) = some [[0]] := by
  rw [no_repeats_graph first last h]
  cases nr <;> cases ar <;>
    simp [getPaths, unfoldFrom, initState, PState.dests, lastIndex, stepList, PState.path]

/-! ### enumeration on a chain with simple repeats -/

theorem enum_get {α : Type} (l : List α) (k i : Nat) : (enum k l)[i]? = (l[i]?).map fun a => (k + i, a) := by
  induction l generalizing k i with
  | nil => simp [enum]
  | cons x xs ih =>
    cases i with
    | zero => simp [enum]
    | succ i =>
      simp only [enum, List.getElem?_cons_succ, ih]
      congr 1
      funext a
      congr 1
      omega

theorem chainGraph_get (flags : List Bool) (tys : List SegType) (times : List (Int × Int)) (i : Nat) :
    (chainGraph flags tys times)[i]? =
      (flags[i]?).map fun b => chainSeg flags.length i b (tys.getD i .dflt) (times.getD i (0, 0)) := by
  unfold chainGraph
  rw [List.getElem?_map, enum_get]
  cases flags[i]? <;> simp

theorem path_eq (st : PState) : st.path = st.prev.reverse ++ [st.cur] := by simp [PState.path]

theorem dests_fresh (st : PState) (s : Seg) (hs : st.segs[st.cur]? = some s) (hu : st.used st.cur = []) :
    st.dests = (if st.noRepeats then s.to.getLast?.map fun d => [d]
      else if s.forceSeq || st.allRepeats then s.to.head?.map fun d => [d] else some s.to) := by
  unfold PState.dests
  rw [hs]
  simp [lastIndex, hu]

theorem dests_second (st : PState) (s : Seg) (c : Nat) (nx : Dest) (hs : st.segs[st.cur]? = some s)
    (hto : s.to = [.seg c, nx]) (hnx : nx ≠ .seg c) (hu : st.used st.cur = [.seg c]) :
    st.dests = some [nx] := by
  unfold PState.dests
  rw [hs]
  have hnx' : ¬ (nx = Dest.seg c) := hnx
  have hli : lastIndex s.to (st.used st.cur) = some (some 0) := by
    simp [lastIndex, hu, hto, positions, hnx']
  rw [hto] at hli
  simp only [hto, hli]
  cases st.noRepeats <;> cases (s.forceSeq || st.allRepeats) <;> simp

/-- the state after an ordinary step to segment `j` -/
def afterJump (st : PState) (j : Nat) : PState :=
  { st with cur := j, prev := st.cur :: st.prev,
            used := fun k => if k = st.cur then st.used k ++ [Dest.seg j] else st.used k }

theorem jump_plain (il : Bool) (st : PState) (j : Nat) (sj sp : Seg) (hj : st.segs[j]? = some sj)
    (hp : st.segs[st.cur]? = some sp) (hnl : sp.ty ≠ .leapStart) :
    st.jump il j = some (afterJump st j) := by
  unfold PState.jump afterJump
  rw [hj, hp]
  simp [hnl]

def pathsFrom (nr ar : Bool) (i : Nat) (rest : List Bool) : List (List Nat) :=
  if nr then [minPath i rest] else if ar then [maxPath i rest] else allPaths i rest

theorem pathsFrom_nil (nr ar : Bool) (i : Nat) : pathsFrom nr ar i [] = [[]] := by
  cases nr <;> cases ar <;> simp [pathsFrom, minPath, maxPath, allPaths]

theorem pathsFrom_false (nr ar : Bool) (i : Nat) (fs : List Bool) :
    pathsFrom nr ar i (false :: fs) = (pathsFrom nr ar (i + 1) fs).map fun s => i :: s := by
  cases nr <;> cases ar <;> simp [pathsFrom, minPath, maxPath, allPaths]

section chain
variable (flags : List Bool) (tys : List SegType) (times : List (Int × Int))
variable (il nr ar : Bool)

theorem chain_ty (hty : ∀ t ∈ tys, t ≠ SegType.leapStart) (i : Nat) : tys.getD i .dflt ≠ SegType.leapStart := by
  rw [List.getD_eq_getElem?_getD]
  cases h : tys[i]? with
  | none => simp
  | some t => simpa using hty t (List.mem_of_getElem? h)

/-- what the induction hypothesis says about the tail `fs` starting at section `i'` -/
def ChainIH (i' : Nat) (fs : List Bool) : Prop :=
  ∀ (fuel : Nat), 2 * fs.length ≤ fuel → ∀ (st : PState), st.segs = chainGraph flags tys times → st.cur = i' →
    (∀ k, i' ≤ k → st.used k = []) → st.noRepeats = nr → st.allRepeats = ar →
    unfoldFrom il fuel st = some ((pathsFrom nr ar i' fs).map fun sfx => st.prev.reverse ++ sfx)

theorem advanceStep (hty : ∀ t ∈ tys, t ≠ SegType.leapStart) (i : Nat) (b : Bool) (fs : List Bool) (hdrop : flags.drop i = b :: fs)
    (ih : fs ≠ [] → ChainIH flags tys times il nr ar (i + 1) fs)
    (f : Nat) (hf : 2 * fs.length ≤ f) (st : PState) (hsegs : st.segs = chainGraph flags tys times)
    (hcur : st.cur = i) (hused : ∀ k, i < k → st.used k = []) (hnr : st.noRepeats = nr) (har : st.allRepeats = ar) :
    stepList (unfoldFrom il f) il st [nextDest flags.length i] =
      some ((pathsFrom nr ar (i + 1) fs).map fun sfx => st.path ++ sfx) := by
  have hlen : (flags.drop i).length = fs.length + 1 := by rw [hdrop]; simp
  rw [List.length_drop] at hlen
  have hget : flags[i]? = some b := by
    have := congrArg (fun l => l[0]?) hdrop
    simpa using this
  have hsp : st.segs[st.cur]? = some (chainSeg flags.length i b (tys.getD i .dflt) (times.getD i (0, 0))) := by
    rw [hsegs, hcur, chainGraph_get, hget]; rfl
  by_cases hfs : fs = []
  · subst hfs
    have : i + 1 = flags.length := by simp at hlen; omega
    simp [nextDest, this, stepList, pathsFrom_nil]
  · have hlt : i + 1 < flags.length := by
      cases fs with
      | nil => exact absurd rfl hfs
      | cons x xs => simp at hlen; omega
    have hne : ¬ (i + 1 = flags.length) := by omega
    have hdrop' : flags.drop (i + 1) = fs := by
      have := congrArg List.tail hdrop
      simpa [List.tail_drop] using this
    obtain ⟨b', fs', hfs'⟩ : ∃ b' fs', fs = b' :: fs' := by
      cases fs with
      | nil => exact absurd rfl hfs
      | cons x xs => exact ⟨x, xs, rfl⟩
    have hget' : flags[i + 1]? = some b' := by
      have := congrArg (fun l => l[0]?) hdrop'
      rw [hfs'] at this
      simpa using this
    have hsj : st.segs[i + 1]? = some (chainSeg flags.length (i + 1) b' (tys.getD (i + 1) .dflt) (times.getD (i + 1) (0, 0))) := by
      rw [hsegs, chainGraph_get, hget']; rfl
    have hj := jump_plain il st (i + 1) _ _ hsj hsp (chain_ty tys hty i)
    simp only [nextDest, hne, if_false, stepList, hj]
    have := ih hfs f hf (afterJump st (i + 1)) hsegs rfl
      (by intro k hk
          show (if k = st.cur then st.used k ++ [Dest.seg (i + 1)] else st.used k) = []
          rw [if_neg (by omega)]; exact hused k (by omega)) hnr har
    rw [this]
    simp [path_eq, hcur, afterJump]

theorem advance (hty : ∀ t ∈ tys, t ≠ SegType.leapStart) (i : Nat) (b : Bool) (fs : List Bool) (hdrop : flags.drop i = b :: fs)
    (ih : fs ≠ [] → ChainIH flags tys times il nr ar (i + 1) fs)
    (f : Nat) (hf : 2 * fs.length ≤ f) (st : PState) (hsegs : st.segs = chainGraph flags tys times)
    (hcur : st.cur = i) (hused : ∀ k, i < k → st.used k = []) (hnr : st.noRepeats = nr) (har : st.allRepeats = ar)
    (hd : st.dests = some [nextDest flags.length i]) :
    unfoldFrom il (f + 1) st = some ((pathsFrom nr ar (i + 1) fs).map fun sfx => st.path ++ sfx) := by
  rw [unfoldFrom, hd]
  exact advanceStep flags tys times il nr ar hty i b fs hdrop ih f hf st hsegs hcur hused hnr har

theorem nextDest_ne (n i : Nat) : nextDest n i ≠ Dest.seg i := by
  unfold nextDest
  split
  · simp
  · intro h; injection h with h; omega

theorem chain_unfold (hty : ∀ t ∈ tys, t ≠ SegType.leapStart) :
    ∀ (rest : List Bool) (i : Nat), flags.drop i = rest → rest ≠ [] → ChainIH flags tys times il nr ar i rest := by
  intro rest
  induction rest with
  | nil => intro i _ h; exact absurd rfl h
  | cons b fs ihfs =>
    intro i hdrop _ fuel hfuel st hsegs hcur hused hnr har
    have hdrop' : flags.drop (i + 1) = fs := by
      have := congrArg List.tail hdrop
      simpa [List.tail_drop] using this
    have ih : fs ≠ [] → ChainIH flags tys times il nr ar (i + 1) fs := fun h => ihfs (i + 1) hdrop' h
    have hget : flags[i]? = some b := by
      have := congrArg (fun l => l[0]?) hdrop
      simpa using this
    have hsp : st.segs[st.cur]? = some (chainSeg flags.length i b (tys.getD i .dflt) (times.getD i (0, 0))) := by
      rw [hsegs, hcur, chainGraph_get, hget]; rfl
    have hu0 : st.used st.cur = [] := by rw [hcur]; exact hused i (Nat.le_refl _)
    have hfresh := dests_fresh st _ hsp hu0
    simp only [List.length_cons] at hfuel
    obtain ⟨f, rfl⟩ : ∃ f, fuel = f + 1 := ⟨fuel - 1, by omega⟩
    have hpre : ∀ (l : List (List Nat)), (l.map fun sfx => st.path ++ sfx) =
        ((l.map fun s => i :: s).map fun sfx => st.prev.reverse ++ sfx) := by
      intro l; simp [path_eq, hcur]
    cases b with
    | false =>
      have hd : st.dests = some [nextDest flags.length i] := by
        rw [hfresh]; cases st.noRepeats <;> cases st.allRepeats <;> simp [chainSeg]
      rw [advance flags tys times il nr ar hty i false fs hdrop ih f (by omega) st hsegs hcur
        (fun k hk => hused k (by omega)) hnr har hd, pathsFrom_false, hpre]
    | true =>
      cases hnrv : nr with
      | true =>
        have hd : st.dests = some [nextDest flags.length i] := by
          rw [hfresh, hnr, hnrv]; simp [chainSeg]
        rw [advance flags tys times il nr ar hty i true fs hdrop ih f (by omega) st hsegs hcur
          (fun k hk => hused k (by omega)) hnr har hd, hpre, hnrv]
        simp [pathsFrom, minPath]
      | false =>
        -- the self-repeat: jump to i, then the only destination left is the next section
        have hsi : st.segs[i]? = some (chainSeg flags.length i true (tys.getD i .dflt) (times.getD i (0, 0))) := by
          have := hsp
          rw [hcur] at this
          exact this
        have hself := jump_plain il st i _ _ hsi hsp (chain_ty tys hty i)
        obtain ⟨f', rfl⟩ : ∃ f', f = f' + 1 := ⟨f - 1, by omega⟩
        let st1 : PState := afterJump st i
        have hsp1 : st1.segs[st1.cur]? = some (chainSeg flags.length i true (tys.getD i .dflt) (times.getD i (0, 0))) := hsi
        have hd1 : st1.dests = some [nextDest flags.length i] :=
          dests_second st1 _ i (nextDest flags.length i) hsp1 (by simp [chainSeg]) (nextDest_ne _ _)
            (by show (if i = st.cur then st.used i ++ [Dest.seg i] else st.used i) = [Dest.seg i]
                rw [if_pos hcur.symm, ← hcur, hu0]; rfl)
        have hrun1 := advance flags tys times il nr ar hty i true fs hdrop ih f' (by omega) st1 hsegs rfl
          (by intro k hk
              show (if k = st.cur then st.used k ++ [Dest.seg i] else st.used k) = []
              rw [if_neg (by omega)]; exact hused k (by omega))
          hnr har hd1
        have hpath1 : st1.path = st.prev.reverse ++ [i, i] := by
          simp [path_eq, st1, hcur, afterJump]
        cases harv : ar with
        | true =>
          have hd : st.dests = some [Dest.seg i] := by
            rw [hfresh, hnr, hnrv, har, harv]; simp [chainSeg]
          rw [unfoldFrom, hd]
          simp only [stepList, hself]
          rw [hrun1, hpath1, hnrv, harv]
          simp [pathsFrom, maxPath]
        | false =>
          have hd : st.dests = some [Dest.seg i, nextDest flags.length i] := by
            rw [hfresh, hnr, hnrv, har, harv]; simp [chainSeg]
          rw [unfoldFrom, hd]
          have hstep := advanceStep flags tys times il nr ar hty i true fs hdrop ih (f' + 1) (by omega) st hsegs hcur
            (fun k hk => hused k (by omega)) hnr har
          simp only [stepList, hself] at hstep ⊢
          rw [hrun1, hstep, hpath1, hnrv, harv]
          simp [pathsFrom, allPaths, path_eq, hcur, Function.comp_def]

end chain

theorem simple_repeats_aux (flags : List Bool) (tys : List SegType) (times : List (Int × Int))
    (hty : ∀ t ∈ tys, t ≠ SegType.leapStart) (il : Bool) (fuel : Nat) (hf : 2 * flags.length + 1 ≤ fuel)
    (hne : flags ≠ []) :
    (∃ ps, getPaths (chainGraph flags tys times) false false il fuel = some ps ∧
        ps.length = 2 ^ (flags.count true) ∧ ps = allPaths 0 flags) ∧
    getPaths (chainGraph flags tys times) false true il fuel = some [maxPath 0 flags] ∧
    getPaths (chainGraph flags tys times) true false il fuel = some [minPath 0 flags] := by
  have key : ∀ nr ar, getPaths (chainGraph flags tys times) nr ar il fuel = some (pathsFrom nr ar 0 flags) := by
    intro nr ar
    have := chain_unfold flags tys times il nr ar hty flags 0 (by simp) hne fuel (by omega)
      (initState (chainGraph flags tys times) nr ar) rfl rfl (by intro k _; rfl) rfl rfl
    simpa [getPaths, initState] using this
  refine ⟨⟨allPaths 0 flags, ?_, allPaths_length flags 0, rfl⟩, ?_, ?_⟩
  · simpa [pathsFrom] using key false false
  · simpa [pathsFrom] using key false true
  · simpa [pathsFrom] using key true false

theorem maxPath_ge (flags : List Bool) (k j : Nat) (h : j ∈ maxPath k flags) : k ≤ j := by
  induction flags generalizing k with
  | nil => simp [maxPath] at h
  | cons x xs ih =>
    cases x <;> simp only [maxPath, List.mem_cons] at h
    · rcases h with h | h
      · omega
      · have := ih (k + 1) h; omega
    · rcases h with h | h | h
      · omega
      · omega
      · have := ih (k + 1) h; omega

theorem minPath_ge (flags : List Bool) (k j : Nat) (h : j ∈ minPath k flags) : k ≤ j := by
  induction flags generalizing k with
  | nil => simp [minPath] at h
  | cons x xs ih =>
    simp only [minPath, List.mem_cons] at h
    rcases h with h | h
    · omega
    · have := ih (k + 1) h; omega

theorem max_min_counts_aux (flags : List Bool) (k i : Nat) (b : Bool) (h : flags[i - k]? = some b) (hk : k ≤ i) :
    (maxPath k flags).count i = (if b then 2 else 1) ∧ (minPath k flags).count i = 1 := by
  induction flags generalizing k with
  | nil => simp at h
  | cons x xs ih =>
    by_cases hik : i = k
    · subst hik
      simp only [Nat.sub_self, List.getElem?_cons_zero, Option.some.injEq] at h
      subst h
      have h1 : (maxPath (i + 1) xs).count i = 0 :=
        List.count_eq_zero.mpr (fun hm => by have := maxPath_ge xs (i + 1) i hm; omega)
      have h2 : (minPath (i + 1) xs).count i = 0 :=
        List.count_eq_zero.mpr (fun hm => by have := minPath_ge xs (i + 1) i hm; omega)
      cases x <;> simp [maxPath, minPath, h1, h2]
    · have hlt : k < i := by omega
      have e : i - k = (i - (k + 1)) + 1 := by omega
      rw [e, List.getElem?_cons_succ] at h
      obtain ⟨i1, i2⟩ := ih (k + 1) h (by omega)
      have hne : ¬ (k = i) := by omega
      cases x <;> simp [maxPath, minPath, List.count_cons, hne, i1, i2]

/-! ### how often an object is copied -/

/-- the segments are pairwise disjoint intervals -/
def DisjointSegs (g : List Seg) : Prop :=
  ∀ (a b : Nat) (sa sb : Seg), g[a]? = some sa → g[b]? = some sb → a ≠ b →
    sa.stp ≤ sb.start ∨ sb.stp ≤ sa.start

theorem enum_filter_idx {α : Type} (P : Nat × α → Bool) (l : List α) (k i : Nat) (a : α) (hk : k ≤ i)
    (h : l[i - k]? = some a) :
    ((enum k l).filter (fun q => decide (q.1 = i) && P q)).length = if P (i, a) then 1 else 0 := by
  induction l generalizing k with
  | nil => simp at h
  | cons x xs ih =>
    simp only [enum, List.filter_cons]
    by_cases hik : i = k
    · subst hik
      simp only [Nat.sub_self, List.getElem?_cons_zero, Option.some.injEq] at h
      subst h
      have htail : (enum (i + 1) xs).filter (fun q => decide (q.1 = i) && P q) = [] := by
        rw [List.filter_eq_nil_iff]
        intro q hq
        obtain ⟨j, y⟩ := q
        have := ((enum_mem xs (i + 1) j y).mp hq).1
        have hne : ¬ (j = i) := by omega
        simp [hne]
      rw [htail]
      cases P (i, x) <;> simp
    · have e : i - k = (i - (k + 1)) + 1 := by omega
      rw [e, List.getElem?_cons_succ] at h
      have hne : ¬ (k = i) := by omega
      simp only [hne, decide_false, Bool.false_and, Bool.false_eq_true, if_false]
      exact ih (k + 1) (by omega) h

theorem win_count (g : List Seg) (hdis : DisjointSegs g) (o : Obj) (j : Nat) (s : Seg) (hj : g[j]? = some s)
    (hin : s.start ≤ o.start ∧ o.start < s.stp) :
    ∀ (path : List Nat) (off : Int) (vs : List Visit), visitsFrom g off path = some vs →
      (vs.filter fun v => inWin v o).length = path.count j := by
  intro path
  induction path with
  | nil =>
    intro off vs h
    simp only [visitsFrom, Option.some.injEq] at h
    subst h; simp
  | cons a rest ih =>
    intro off vs h
    simp only [visitsFrom] at h
    cases hg : g[a]? with
    | none => simp [hg] at h
    | some sa =>
      simp only [hg] at h
      cases hr : visitsFrom g (off + (sa.stp - sa.start)) rest with
      | none => simp [hr] at h
      | some vs' =>
        simp only [hr, Option.map_some, Option.some.injEq] at h
        subst h
        have hrec := ih _ _ hr
        simp only [List.filter_cons, List.count_cons]
        by_cases haj : a = j
        · subst haj
          rw [hg] at hj
          simp only [Option.some.injEq] at hj
          subst hj
          have : inWin ⟨sa.start, sa.stp, off⟩ o = true := by simp [inWin, hin.1, hin.2]
          simp [this, hrec]
        · have : inWin ⟨sa.start, sa.stp, off⟩ o = false := by
            cases hw : inWin ⟨sa.start, sa.stp, off⟩ o with
            | false => rfl
            | true =>
              simp only [inWin, Bool.and_eq_true, decide_eq_true_eq] at hw
              rcases hdis a j sa s hg hj haj with h1 | h1 <;> omega
          have hne : ¬ ((a == j) = true) := by simpa using haj
          simp [this, hrec, hne]

theorem flat_count (objs : List Obj) (i : Nat) (o : Obj) (hi : objs[i]? = some o)
    (hd : o.kind.dropped = false) (hs : o.kind.isSig = false) :
    ∀ (vs : List Visit) (k : Nat),
      (((enum k vs).flatMap fun nv =>
          ((enum 0 objs).filter (copyable nv.2)).map fun q => core (mkCopy q.1 nv.1 q.2 (nv.2.off - nv.2.s))).filter
        fun t => decide (t.1 = i)).length = (vs.filter fun v => inWin v o).length := by
  intro vs
  induction vs with
  | nil => intro k; simp [enum]
  | cons v vs ih =>
    intro k
    simp only [enum, List.flatMap_cons, List.filter_append, List.length_append, ih, List.filter_cons]
    have hhead : ((((enum 0 objs).filter (copyable v)).map fun q => core (mkCopy q.1 k q.2 (v.off - v.s))).filter
        fun t => decide (t.1 = i)).length = if inWin v o then 1 else 0 := by
      rw [List.filter_map, List.length_map, List.filter_filter]
      have hfun : (fun q : Nat × Obj => ((fun t : Nat × Nat × Kind × Int × Option Int × List Int × Option String × Bool =>
            decide (t.1 = i)) ∘ fun q => core (mkCopy q.1 k q.2 (v.off - v.s))) q && copyable v q) =
          fun q => decide (q.1 = i) && copyable v q := by
        funext q; rfl
      rw [hfun, enum_filter_idx (copyable v) objs 0 i o (Nat.zero_le _) (by simpa using hi)]
      simp [copyable, hd, hs]
    rw [hhead]
    cases inWin v o <;> simp <;> omega

theorem copies_count_aux (g : List Seg) (path : List Nat) (vs : List Visit) (hvs : visitsOf g path = some vs)
    (hdis : DisjointSegs g) (p : APart) (i : Nat) (o : Obj) (hi : p.objs[i]? = some o)
    (hd : o.kind.dropped = false) (hs : o.kind.isSig = false)
    (j : Nat) (s : Seg) (hj : g[j]? = some s) (hin : s.start ≤ o.start ∧ o.start < s.stp) :
    (((variant p vs).objs.filter keepP).filter fun c => decide (c.orig = i)).length = path.count j := by
  have h1 := variantObjs_keep p.objs vs 0 []
  simp only [List.filter_nil, List.map_nil, List.nil_append] at h1
  have h2 : (((variant p vs).objs.filter keepP).filter fun c => decide (c.orig = i)).length =
      ((((variant p vs).objs.filter keepP).map core).filter fun t => decide (t.1 = i)).length := by
    rw [List.filter_map, List.length_map]
    rfl
  rw [h2]
  show ((((variantObjs p.objs 0 vs []).filter keepP).map core).filter fun t => decide (t.1 = i)).length = _
  rw [h1, flat_count p.objs i o hi hd hs vs 0]
  exact win_count g hdis o j s hj hin path 0 vs hvs

/-! ### the segments are the intervals between consecutive boundary times -/

def StrictSorted : List Int → Prop
  | [] => True
  | [_] => True
  | a :: b :: r => a < b ∧ StrictSorted (b :: r)

theorem keys_tblUpd (t : Int) (f : BInfo → BInfo) (tb : BTable) :
    (tblUpd t f tb).map (·.1) = insInt t (tb.map (·.1)) := by
  induction tb with
  | nil => simp [tblUpd, insInt]
  | cons x xs ih =>
    obtain ⟨u, b⟩ := x
    simp only [tblUpd, List.map_cons, insInt]
    split
    · simp
    · split
      · simp
      · simp [ih]

theorem sorted_tail (a : Int) (r : List Int) (h : StrictSorted (a :: r)) : StrictSorted r := by
  cases r with
  | nil => trivial
  | cons b r' => exact h.2

theorem sorted_head_lt (a : Int) (r : List Int) (h : StrictSorted (a :: r)) : ∀ y ∈ r, a < y := by
  induction r generalizing a with
  | nil => intro y hy; simp at hy
  | cons b r' ih =>
    intro y hy
    simp only [List.mem_cons] at hy
    rcases hy with hy | hy
    · subst hy; exact h.1
    · have := ih b h.2 y hy
      have := h.1
      omega

theorem sorted_cons (a : Int) (r : List Int) (hr : StrictSorted r) (h : ∀ y ∈ r, a < y) : StrictSorted (a :: r) := by
  cases r with
  | nil => trivial
  | cons b r' => exact ⟨h b List.mem_cons_self, hr⟩

theorem insInt_sorted (x : Int) (l : List Int) (h : StrictSorted l) : StrictSorted (insInt x l) := by
  induction l with
  | nil => trivial
  | cons y ys ih =>
    simp only [insInt]
    split
    · rename_i hxy
      exact ⟨hxy, h⟩
    · split
      · exact h
      · rename_i h1 h2
        apply sorted_cons
        · exact ih (sorted_tail y ys h)
        · intro z hz
          rw [insInt_mem] at hz
          rcases hz with hz | hz
          · subst hz; omega
          · exact sorted_head_lt y ys h z hz

def SortedTb (tb : BTable) : Prop := StrictSorted (tb.map (·.1))

theorem sortedTb_upd (t : Int) (f : BInfo → BInfo) (tb : BTable) (h : SortedTb tb) : SortedTb (tblUpd t f tb) := by
  unfold SortedTb
  rw [keys_tblUpd]
  exact insInt_sorted t _ h

theorem sortedTb_foldl {α : Type} (step : BTable → α → BTable)
    (hstep : ∀ tb a, SortedTb tb → SortedTb (step tb a)) (l : List α) (tb : BTable) (h : SortedTb tb) :
    SortedTb (l.foldl step tb) := by
  induction l generalizing tb with
  | nil => exact h
  | cons a as ih => exact ih _ (hstep tb a h)

theorem mkTable_sorted (L : Layout) : SortedTb (mkTable L) := by
  unfold mkTable
  apply sortedTb_upd
  apply sortedTb_upd
  apply sortedTb_foldl _ (fun tb a h => sortedTb_upd _ _ _ h)
  apply sortedTb_foldl _ (fun tb a h => sortedTb_upd _ _ _ h)
  apply sortedTb_foldl _ (fun tb a h => sortedTb_upd _ _ _ h)
  apply sortedTb_foldl _ (fun tb a h => sortedTb_upd _ _ _ h)
  apply sortedTb_foldl _ (fun tb a h => sortedTb_upd _ _ _ h)
  apply sortedTb_foldl _ (fun tb a h => sortedTb_upd _ _ _ h)
  apply sortedTb_foldl _ (fun tb a h => sortedTb_upd _ _ _ (sortedTb_upd _ _ _ h))
  apply sortedTb_foldl _ (fun tb a h => sortedTb_upd _ _ _ (sortedTb_upd _ _ _ h))
  trivial

theorem sorted_get_lt (l : List Int) (h : StrictSorted l) :
    ∀ (i j : Nat) (x y : Int), i < j → l[i]? = some x → l[j]? = some y → x < y := by
  induction l with
  | nil => intro i j x y _ hx; simp at hx
  | cons a r ih =>
    intro i j x y hij hx hy
    cases j with
    | zero => omega
    | succ j =>
      simp only [List.getElem?_cons_succ] at hy
      cases i with
      | zero =>
        simp only [List.getElem?_cons_zero, Option.some.injEq] at hx
        subst hx
        exact sorted_head_lt _ r h y (List.mem_of_getElem? hy)
      | succ i =>
        simp only [List.getElem?_cons_succ] at hx
        exact ih (sorted_tail a r h) i j x y (by omega) hx hy

theorem buildSegs_get (times : List Int) (info : List SegInfo) :
    ∀ (ts : List Int) (k : Nat) (infs : List SegInfo) (g : List Seg), buildSegs times info k ts infs = some g →
      ∀ (i : Nat) (s : Seg), g[i]? = some s → ts[i]? = some s.start ∧ ts[i + 1]? = some s.stp := by
  intro ts
  induction ts with
  | nil =>
    intro k infs g h i s hs
    simp only [buildSegs, Option.some.injEq] at h
    subst h; simp at hs
  | cons a r ih =>
    intro k infs g h i s hs
    cases r with
    | nil =>
      simp only [buildSegs, Option.some.injEq] at h
      subst h; simp at hs
    | cons b r' =>
      cases infs with
      | nil =>
        simp only [buildSegs, Option.some.injEq] at h
        subst h; simp at hs
      | cons inf infs' =>
        simp only [buildSegs] at h
        cases hc : cleanTo k inf.to with
        | none => simp [hc] at h
        | some pr =>
          obtain ⟨to, aw⟩ := pr
          simp only [hc, Option.bind_eq_bind, Option.bind_some] at h
          cases ht : buildSegs times info (k + 1) (b :: r') infs' with
          | none => simp [ht] at h
          | some tl =>
            simp only [ht, Option.bind_some, Option.some.injEq] at h
            subst h
            cases i with
            | zero =>
              simp only [List.getElem?_cons_zero, Option.some.injEq] at hs
              subst hs
              simp
            | succ i =>
              simp only [List.getElem?_cons_succ] at hs ⊢
              exact ih (k + 1) infs' tl ht i s hs

theorem mkSegments_disjoint (L : Layout) (g : List Seg) (h : mkSegments L = some g) : DisjointSegs g := by
  unfold mkSegments at h
  split at h
  · simp at h
  · simp only at h
    split at h
    · simp at h
    · rename_i st _
      have hsorted : StrictSorted ((mkTable L).map (·.1)) := mkTable_sorted L
      have hget := buildSegs_get _ _ _ _ _ g h
      intro a b sa sb ha hb hab
      obtain ⟨a1, a2⟩ := hget a sa ha
      obtain ⟨b1, b2⟩ := hget b sb hb
      rcases Nat.lt_or_gt_of_ne hab with hlt | hlt
      · left
        by_cases he : a + 1 = b
        · subst he
          rw [a2] at b1
          simp only [Option.some.injEq] at b1
          omega
        · have := sorted_get_lt _ hsorted (a + 1) b _ _ (by omega) a2 b1
          omega
      · right
        by_cases he : b + 1 = a
        · subst he
          rw [b2] at a1
          simp only [Option.some.injEq] at a1
          omega
        · have := sorted_get_lt _ hsorted (b + 1) a _ _ (by omega) b2 a1
          omega

/-! ### the new timeline is strictly increasing -/

theorem outPoints_sorted (out : List OObj) (acc : List Int) (h : StrictSorted acc) :
    StrictSorted (outPoints out acc) := by
  unfold outPoints
  induction out generalizing acc with
  | nil => exact h
  | cons o os ih =>
    simp only [List.foldl_cons]
    apply ih
    cases objPoint o with
    | none => exact h
    | some t => exact insInt_sorted t acc h

theorem foldl_ins_sorted {α : Type} (f : α → Int) (l : List α) (acc : List Int) (h : StrictSorted acc) :
    StrictSorted (l.foldl (fun acc x => insInt (f x) acc) acc) := by
  induction l generalizing acc with
  | nil => exact h
  | cons a as ih => exact ih _ (insInt_sorted _ _ h)

theorem shiftedPoints_sorted (points : List Int) (vs : List Visit) (acc : List Int) (h : StrictSorted acc) :
    StrictSorted (shiftedPoints points vs acc) := by
  unfold shiftedPoints
  induction vs generalizing acc with
  | nil => exact h
  | cons v vs ih =>
    simp only [List.foldl_cons]
    exact ih _ (foldl_ins_sorted _ _ _ h)

theorem variantPoints_sorted (points : List Int) (vs : List Visit) (out : List OObj) :
    StrictSorted (variantPoints points vs out) :=
  outPoints_sorted out _ (shiftedPoints_sorted points vs [] trivial)

end C09
