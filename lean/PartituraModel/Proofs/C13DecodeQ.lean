/-
C13, round 5 — the decoder on real-valued rolls (Model/PianoRollDecodeQ.lean):
it extends the integer decoder, and it is the integer decoder run on the matrix of CODES
`code q = 0 if q = 0 else enc (int q)` (`enc` an order-preserving injection of ℤ into ℤ ∖ {0}),
which transfers the whole correctness theorem `decodeRuns_spec` to real-valued rolls.
-/
import PartituraModel.Model.PianoRollDecodeQ
import PartituraModel.Proofs.C13Decode
import PartituraModel.Proofs.C13Float

namespace C13
open Model Model.PianoRoll
open List

/-! ### integer part -/

theorem truncRat_intCast (v : Int) : truncRat (v : Rat) = v := by
  unfold truncRat
  split
  · exact Rat.floor_intCast v
  · exact Rat.ceil_intCast v

/-! ### the column-wise step, shared by both decoders -/

theorem stepCol_eq_stepActive (st : List Run × List Run) (tc : Nat × List Int) :
    stepCol st tc = stepActive st (tc.1, activeOf tc.2) := rfl

theorem enumColQ_cast (i : Nat) (col : List Int) :
    enumColQ i (col.map (fun v : Int => (v : Rat))) = (activeOf.enumCol i col).map (fun pv => (pv.1, (pv.2 : Rat))) := by
  induction col generalizing i with
  | nil => rfl
  | cons a col ih => simp [enumColQ, activeOf.enumCol, ih]

theorem activeOfQ_cast (col : List Int) : activeOfQ (col.map (fun v : Int => (v : Rat))) = activeOf col := by
  unfold activeOfQ activeOf
  rw [enumColQ_cast, filter_map, map_map]
  have hf : ((fun pv : Nat × Rat => pv.2 != 0) ∘ fun pv : Nat × Int => (pv.1, (pv.2 : Rat))) = fun pv => pv.2 != 0 := by
    funext pv
    have : ((pv.2 : Rat) = 0) ↔ pv.2 = 0 := by exact_mod_cast Iff.rfl
    rw [Bool.eq_iff_iff]
    simp only [Function.comp, bne_iff_ne, ne_eq, this]
  rw [hf]
  conv_rhs => rw [← map_id (filter (fun pv => pv.2 != 0) (activeOf.enumCol 0 col))]
  apply map_congr_left
  intro pv _
  simp [Function.comp, truncRat_intCast]

theorem foldl_cols_cast (cols : List (List Int)) (i : Nat) (st : List Run × List Run) :
    (enumColsQ i (cols.map (fun c : List Int => c.map (fun v : Int => (v : Rat))))).foldl (fun st tc => stepActive st (tc.1, activeOfQ tc.2)) st =
      (enumCols i cols).foldl stepCol st := by
  induction cols generalizing i st with
  | nil => rfl
  | cons c cols ih =>
    simp only [map_cons, enumColsQ, enumCols, foldl_cons]
    rw [activeOfQ_cast, ih]
    rfl

/-- on an integer roll the real-valued decoder finds the runs of the integer decoder -/
theorem decodeRunsQ_cast (cols : List (List Int)) :
    decodeRunsQ (cols.map (fun c : List Int => c.map (fun v : Int => (v : Rat)))) = decodeRuns cols := by
  unfold decodeRunsQ decodeRuns
  rw [foldl_cols_cast]

/-! ### coding (activity, integer part) into one non-zero integer -/

/-- an order-preserving injection ℤ → ℤ ∖ {0} -/
def enc (v : Int) : Int := if 0 ≤ v then v + 1 else v

/-- the code of a cell: 0 for an inactive cell, else the coded integer part -/
def code (q : Rat) : Int := if q = 0 then 0 else enc (truncRat q)

def encRun (r : Run) : Run := { r with vel := enc r.vel }

theorem enc_ne_zero (v : Int) : enc v ≠ 0 := by unfold enc; split <;> omega
theorem enc_inj {a b : Int} : enc a = enc b ↔ a = b := by unfold enc; split <;> split <;> omega
theorem enc_le {a b : Int} : enc a ≤ enc b ↔ a ≤ b := by unfold enc; split <;> split <;> omega

theorem code_eq_enc {q : Rat} {v : Int} : code q = enc v ↔ q ≠ 0 ∧ truncRat q = v := by
  unfold code
  split
  · rename_i h
    constructor
    · intro h'; exact absurd h'.symm (enc_ne_zero v)
    · rintro ⟨h', _⟩; exact absurd h h'
  · rename_i h
    rw [enc_inj]
    exact ⟨fun h' => ⟨h, h'⟩, fun h' => h'.2⟩

theorem code_ne_zero {q : Rat} : code q ≠ 0 ↔ q ≠ 0 := by
  unfold code
  split
  · rename_i h; simp [h]
  · rename_i h; simp [h, enc_ne_zero]

theorem encRun_inj : Function.Injective encRun := by
  intro a b h
  cases a; cases b
  simp only [encRun, Run.mk.injEq, enc_inj] at h
  simp [h]

theorem runLe_enc (a b : Run) : runLe (encRun a) (encRun b) = runLe a b := by
  rw [Bool.eq_iff_iff, runLe_iff, runLe_iff]
  simp only [encRun, enc_le]

/-! ### the simulation -/

def mapSt (st : List Run × List Run) : List Run × List Run := (st.1.map encRun, st.2.map encRun)

theorem stepNote_enc (ts : Nat) (st : List Run × List Run) (p : Nat) (v : Int) :
    stepNote ts (mapSt st) (p, enc v) = mapSt (stepNote ts st (p, v)) := by
  obtain ⟨act, done⟩ := st
  unfold stepNote mapSt
  simp only [find?_map]
  have hc : ((fun r : Run => r.pitch == p) ∘ encRun) = fun r => r.pitch == p := by
    funext r; rfl
  rw [hc]
  cases hf : act.find? (fun r => r.pitch == p) with
  | none => simp [encRun]
  | some r =>
    simp only [Option.map_some]
    have hv : (enc v ≠ (encRun r).vel) ↔ (v ≠ r.vel) := by
      simp only [encRun, ne_eq, enc_inj]
    by_cases hne : v ≠ r.vel
    · rw [if_pos (hv.mpr hne), if_pos hne]
      simp only [filter_map, map_append, map_cons, map_nil]
      have : ((fun x : Run => x.pitch != p) ∘ encRun) = fun x => x.pitch != p := by funext x; rfl
      rw [this]
      simp [encRun]
    · rw [if_neg (fun h => hne (hv.mp h)), if_neg hne]
      simp only [map_map]
      congr 1
      apply map_congr_left
      intro x _
      simp only [Function.comp, encRun]
      by_cases hx : (x.pitch == p) = true <;> simp [hx]

theorem foldl_stepNote_enc (ts : Nat) (active : List (Nat × Int)) (st : List Run × List Run) :
    (active.map fun pv => (pv.1, enc pv.2)).foldl (stepNote ts) (mapSt st) = mapSt (active.foldl (stepNote ts) st) := by
  induction active generalizing st with
  | nil => rfl
  | cons pv active ih =>
    simp only [map_cons, foldl_cons]
    rw [stepNote_enc, ih]

theorem stepActive_enc (st : List Run × List Run) (ts : Nat) (active : List (Nat × Int)) :
    stepActive (mapSt st) (ts, active.map fun pv => (pv.1, enc pv.2)) = mapSt (stepActive st (ts, active)) := by
  obtain ⟨act, done⟩ := st
  unfold stepActive
  simp only [mapSt]
  have hany : ∀ r : Run, ((active.map fun pv => (pv.1, enc pv.2)).any fun pv => pv.1 == (encRun r).pitch) =
      (active.any fun pv => pv.1 == r.pitch) := by
    intro r
    rw [any_map]
    rfl
  have h1 : (act.map encRun).filter (fun r => !(active.map fun pv => (pv.1, enc pv.2)).any fun pv => pv.1 == r.pitch) =
      (act.filter fun r => !active.any fun pv => pv.1 == r.pitch).map encRun := by
    rw [filter_map]
    congr 1
    apply filter_congr
    intro r _
    simp only [Function.comp]
    rw [hany]
  have h2 : (act.map encRun).filter (fun r => (active.map fun pv => (pv.1, enc pv.2)).any fun pv => pv.1 == r.pitch) =
      (act.filter fun r => active.any fun pv => pv.1 == r.pitch).map encRun := by
    rw [filter_map]
    congr 1
    apply filter_congr
    intro r _
    simp only [Function.comp]
    rw [hany]
  rw [h1, h2, ← map_append]
  exact foldl_stepNote_enc ts active (_, _)

theorem enumCol_code (i : Nat) (col : List Rat) :
    activeOf.enumCol i (col.map code) = (enumColQ i col).map (fun pv => (pv.1, code pv.2)) := by
  induction col generalizing i with
  | nil => rfl
  | cons a col ih => simp [enumColQ, activeOf.enumCol, ih]

theorem activeOf_code (col : List Rat) :
    activeOf (col.map code) = (activeOfQ col).map fun pv => (pv.1, enc pv.2) := by
  unfold activeOf activeOfQ
  rw [enumCol_code, filter_map, map_map]
  have hf : ((fun pv : Nat × Int => pv.2 != 0) ∘ fun pv : Nat × Rat => (pv.1, code pv.2)) = fun pv => pv.2 != 0 := by
    funext pv
    rw [Bool.eq_iff_iff]
    simp only [Function.comp, bne_iff_ne]
    exact code_ne_zero
  rw [hf]
  apply map_congr_left
  intro pv hpv
  have hq : pv.2 ≠ 0 := by simpa using (mem_filter.mp hpv).2
  simp only [Function.comp, code, if_neg hq]

theorem foldl_cols_code (cols : List (List Rat)) (i : Nat) (st : List Run × List Run) :
    (enumCols i (cols.map (·.map code))).foldl stepCol (mapSt st) =
      mapSt ((enumColsQ i cols).foldl (fun st tc => stepActive st (tc.1, activeOfQ tc.2)) st) := by
  induction cols generalizing i st with
  | nil => rfl
  | cons c cols ih =>
    simp only [map_cons, enumColsQ, enumCols, foldl_cons]
    rw [stepCol_eq_stepActive, activeOf_code, stepActive_enc, ih]

theorem insertBy_map {α β : Type} (f : α → β) (le : α → α → Bool) (le' : β → β → Bool)
    (h : ∀ a b, le' (f a) (f b) = le a b) (x : α) (l : List α) :
    insertBy le' (f x) (l.map f) = (insertBy le x l).map f := by
  induction l with
  | nil => rfl
  | cons y l ih =>
    simp only [map_cons, insertBy, h]
    split
    · rfl
    · simp [ih]

theorem sortBy_map {α β : Type} (f : α → β) (le : α → α → Bool) (le' : β → β → Bool)
    (h : ∀ a b, le' (f a) (f b) = le a b) (l : List α) :
    sortBy le' (l.map f) = (sortBy le l).map f := by
  induction l with
  | nil => rfl
  | cons x l ih => simp only [map_cons, sortBy, ih, insertBy_map f le le' h]

/-- **the real-valued decoder is the integer decoder on the coded matrix** -/
theorem decodeRuns_code (cols : List (List Rat)) :
    decodeRuns (cols.map (·.map code)) = (decodeRunsQ cols).map encRun := by
  unfold decodeRuns decodeRunsQ
  have := foldl_cols_code cols 0 ([], [])
  have h0 : mapSt ([], []) = ([], []) := rfl
  rw [h0] at this
  rw [this]
  simp only [mapSt, sortRuns]
  rw [← map_append, sortBy_map encRun runLe runLe runLe_enc]

/-! ### the runs of a real-valued roll -/

/-- `pianoroll[p, t]` of a real-valued matrix given by its columns (0 outside) -/
def cellAtQ (cols : List (List Rat)) (p t : Nat) : Rat :=
  match cols[t]? with
  | some c => c[p]?.getD 0
  | none => 0

theorem cellAt_code (cols : List (List Rat)) (p t : Nat) :
    cellAt (cols.map (·.map code)) p t = code (cellAtQ cols p t) := by
  unfold cellAt cellAtQ valAt
  rw [getElem?_map]
  cases cols[t]? with
  | none => simp [code]
  | some c =>
    simp only [Option.map_some, getElem?_map]
    cases c[p]? with
    | none => simp [code]
    | some q => simp

/-- a maximal run of a row of a real-valued roll: non-zero cells of one integer part `vel`, bounded on both sides by
    the edge of the roll, a zero cell, or a cell of another integer part -/
def MaxRunQ (g : Nat → Rat) (T : Nat) (x : Run) : Prop :=
  x.on < x.off ∧ x.off ≤ T ∧ (∀ s, x.on ≤ s → s < x.off → g s ≠ 0 ∧ truncRat (g s) = x.vel) ∧
    (x.on = 0 ∨ g (x.on - 1) = 0 ∨ truncRat (g (x.on - 1)) ≠ x.vel) ∧
    (x.off = T ∨ g x.off = 0 ∨ truncRat (g x.off) ≠ x.vel)

theorem maxRun_code (g : Nat → Rat) (T : Nat) (x : Run) :
    MaxRun (fun t => code (g t)) T (encRun x) ↔ MaxRunQ g T x := by
  unfold MaxRun MaxRunQ
  simp only [encRun]
  have hne : ∀ q : Rat, code q ≠ enc x.vel ↔ (q = 0 ∨ truncRat q ≠ x.vel) := by
    intro q
    rw [ne_eq, code_eq_enc]
    by_cases h0 : q = 0 <;> simp [h0]
  constructor
  · rintro ⟨_, h2, h3, h4, h5, h6⟩
    refine ⟨h2, h3, fun s a b => code_eq_enc.mp (h4 s a b), ?_, ?_⟩
    · rcases h5 with h | h
      · exact Or.inl h
      · exact Or.inr ((hne _).mp h)
    · rcases h6 with h | h
      · exact Or.inl h
      · exact Or.inr ((hne _).mp h)
  · rintro ⟨h2, h3, h4, h5, h6⟩
    refine ⟨enc_ne_zero _, h2, h3, fun s a b => code_eq_enc.mpr (h4 s a b), ?_, ?_⟩
    · rcases h5 with h | h
      · exact Or.inl h
      · exact Or.inr ((hne _).mpr h)
    · rcases h6 with h | h
      · exact Or.inl h
      · exact Or.inr ((hne _).mpr h)

theorem decodeRunsQ_spec_aux (cols : List (List Rat)) :
    (decodeRunsQ cols).Nodup ∧ (decodeRunsQ cols).Pairwise (fun a b => runLe a b = true) ∧
    ∀ x, x ∈ decodeRunsQ cols ↔ MaxRunQ (cellAtQ cols x.pitch) cols.length x := by
  obtain ⟨h1, h2, h3⟩ := decodeRuns_spec (cols.map (·.map code))
  rw [decodeRuns_code] at h1 h2 h3
  refine ⟨Nodup.of_map _ h1, ?_, ?_⟩
  · rw [pairwise_map] at h2
    exact h2.imp (fun {a b} h => by rwa [runLe_enc] at h)
  · intro x
    have := h3 (encRun x)
    rw [mem_map_of_injective encRun_inj, length_map] at this
    rw [this]
    have hp : (encRun x).pitch = x.pitch := rfl
    rw [hp]
    have hfun : cellAt (cols.map (·.map code)) x.pitch = fun t => code (cellAtQ cols x.pitch t) := by
      funext t; exact cellAt_code cols x.pitch t
    rw [hfun]
    exact maxRun_code _ _ x

/-! ### storage -/

theorem storeCol_eq (q : Rat) : storeCol q = storeF32 q := rfl

end C13
