/-
Helper lemmas for C05, round 5: the loop that collects the CHANGES of a signature column
(`changes`, Model/NoteArrayTs.lean), and what a "previous"-interpolation table made from them
(`StepMap.lastLE`, property C10) returns at the onset of every row.
-/
import PartituraModel.Model.NoteArrayTs
import PartituraModel.Proofs.C05Inverse
import PartituraModel.Proofs.C05Back
import PartituraModel.Props.C12
import Mathlib.Data.List.Destutter
import Mathlib.Data.Prod.Lex
import Mathlib.Algebra.Order.Field.Rat

namespace NoteArray
open List Model

section Changes
variable {α : Type} [DecidableEq α]

theorem changes_cons (p : Int × α) (l : List (Int × α)) :
    changes (p :: l) = (0, p.2) :: changesFrom p.2 l := by
  simp [changes, changesFrom]

/-- the values of the change list are the column with repetitions of neighbours removed -/
theorem changesFrom_values (s : α) (l : List (Int × α)) :
    s :: (changesFrom s l).map (·.2) = List.destutter' (· ≠ ·) s (l.map (·.2)) := by
  induction l generalizing s with
  | nil => simp [changesFrom]
  | cons p l ih =>
    by_cases h : p.2 = s
    · simp only [changesFrom, h, ↓reduceIte, map_cons, destutter'_cons, ne_eq, not_true_eq_false]
      exact ih s
    · have h' : s ≠ p.2 := fun e => h e.symm
      simp only [changesFrom, h, ↓reduceIte, map_cons, destutter'_cons, ne_eq, h', not_false_eq_true]
      rw [ih p.2]

theorem changes_values (l : List (Int × α)) :
    (changes l).map (·.2) = (l.map (·.2)).destutter (· ≠ ·) := by
  cases l with
  | nil => rfl
  | cons p l =>
    rw [changes_cons, map_cons, map_cons, destutter_cons']
    exact changesFrom_values p.2 l

/-- every change is a row of the column (at that row's onset) -/
theorem changesFrom_sublist (s : α) (l : List (Int × α)) : (changesFrom s l).Sublist l := by
  induction l generalizing s with
  | nil => exact Sublist.slnil
  | cons p l ih =>
    unfold changesFrom
    split
    · exact (ih s).cons p
    · exact (ih p.2).cons_cons p

/-- two consecutive changes differ in value -/
theorem changesFrom_chain (s : α) (l : List (Int × α)) :
    (s :: (changesFrom s l).map (·.2)).IsChain (· ≠ ·) := by
  rw [changesFrom_values]
  exact List.isChain_destutter' _ _ _

/-- the value the last row at or before `x` carries in a column ordered by onset (`s` when there is none) -/
def lastValue (s : α) : List (Int × α) → Int → α
  | [], _ => s
  | p :: l, x => if p.1 ≤ x then lastValue p.2 l x else s

/-- rows are ordered by onset -/
def OnsetSorted (l : List (Int × α)) : Prop := l.Pairwise (fun p q => p.1 ≤ q.1)

/-- rows with the same onset carry the same value -/
def Consistent (l : List (Int × α)) : Prop := ∀ p ∈ l, ∀ q ∈ l, p.1 = q.1 → p.2 = q.2

theorem lastLE_head_gt {β : Type} (tbl : StepMap.Tbl β) (x : Int)
    (h : ∀ e ∈ tbl.head?, x < e.1) : StepMap.lastLE tbl x = none := by
  cases tbl with
  | nil => rfl
  | cons e rest =>
    have : x < e.1 := h e (by simp)
    simp [StepMap.lastLE, this]

/-- a "previous" table made of a first value `s` and the changes of a column ordered by onset returns, at every
    time, the value of the last row at or before that time -/
theorem lastLE_changesFrom (s : α) (l : List (Int × α)) (x : Int) (hs : OnsetSorted l) :
    (StepMap.lastLE (changesFrom s l) x).getD s = lastValue s l x := by
  induction l generalizing s with
  | nil => rfl
  | cons p l ih =>
    have hs' : OnsetSorted l := (pairwise_cons.mp hs).2
    have hle : ∀ q ∈ l, p.1 ≤ q.1 := (pairwise_cons.mp hs).1
    by_cases h : p.2 = s
    · simp only [changesFrom, h, ↓reduceIte, lastValue]
      by_cases hx : p.1 ≤ x
      · simp only [hx, ↓reduceIte]
        rw [ih s hs']
      · simp only [hx, ↓reduceIte]
        rw [lastLE_head_gt]
        · rfl
        · intro e he
          have hmem : e ∈ changesFrom s l := mem_of_mem_head? he
          have := hle e ((changesFrom_sublist s l).subset hmem)
          omega
    · simp only [changesFrom, h, ↓reduceIte, lastValue, StepMap.lastLE]
      by_cases hx : p.1 ≤ x
      · have hx' : ¬ x < p.1 := by omega
        simp only [hx, hx', ↓reduceIte]
        rw [← ih p.2 hs']
        cases StepMap.lastLE (changesFrom p.2 l) x <;> rfl
      · have hx' : x < p.1 := by omega
        simp [hx, hx']

omit [DecidableEq α] in
theorem lastValue_const (v : α) (l : List (Int × α)) (x : Int)
    (h : ∀ q ∈ l, q.1 ≤ x → q.2 = v) : lastValue v l x = v := by
  induction l with
  | nil => rfl
  | cons p l ih =>
    unfold lastValue
    split
    · rename_i hx
      rw [h p mem_cons_self hx]
      exact ih (fun q hq => h q (mem_cons_of_mem _ hq))
    · rfl

omit [DecidableEq α] in
/-- in a column ordered by onset whose rows agree at equal onsets, the value in force at a row's onset is the
    row's own value -/
theorem lastValue_at_row (s : α) (l : List (Int × α)) (hs : OnsetSorted l) (hc : Consistent l) :
    ∀ p ∈ l, lastValue s l p.1 = p.2 := by
  induction l generalizing s with
  | nil => intro p hp; simp at hp
  | cons q l ih =>
    have hs' : OnsetSorted l := (pairwise_cons.mp hs).2
    have hle : ∀ r ∈ l, q.1 ≤ r.1 := (pairwise_cons.mp hs).1
    have hc' : Consistent l := fun a ha b hb => hc a (mem_cons_of_mem _ ha) b (mem_cons_of_mem _ hb)
    intro p hp
    rcases mem_cons.mp hp with rfl | hp'
    · simp only [lastValue, Int.le_refl, ↓reduceIte]
      apply lastValue_const
      intro r hr hrx
      have := hle r hr
      exact hc r (mem_cons_of_mem _ hr) p mem_cons_self (by omega)
    · have : q.1 ≤ p.1 := hle p hp'
      simp only [lastValue, this, ↓reduceIte]
      exact ih q.2 hs' hc' p hp'

/-- THE TABLE LEMMA.  `firstAtZero (changes rows)` - what `note_array_to_score` hands to `create_part` - read by
    "previous" interpolation at the onset of any row gives that row's value: the rebuilt part carries a change wherever
    the column changes, also when it returns to an earlier value. -/
theorem lastLE_changes_at_row (l : List (Int × α)) (hs : OnsetSorted l) (hc : Consistent l)
    (hnn : ∀ p ∈ l, 0 ≤ p.1) : ∀ p ∈ l, StepMap.lastLE (firstAtZero (changes l)) p.1 = some p.2 := by
  cases l with
  | nil => intro p hp; simp at hp
  | cons q l =>
    intro p hp
    have h0 : ¬ p.1 < 0 := by have := hnn p hp; omega
    have hA := lastLE_changesFrom q.2 (q :: l) p.1 hs
    rw [lastValue_at_row q.2 (q :: l) hs hc p hp] at hA
    have hq : changesFrom q.2 (q :: l) = changesFrom q.2 l := by simp [changesFrom]
    rw [changes_cons]
    simp only [firstAtZero, StepMap.lastLE, h0, ↓reduceIte]
    rw [hq] at hA
    cases hl : StepMap.lastLE (changesFrom q.2 l) p.1 with
    | none => rw [hl] at hA; simpa using hA
    | some w => rw [hl] at hA; simpa using hA

/-- mapping the values of a table commutes with reading it -/
theorem lastLE_map {β γ : Type} (f : β → γ) (tbl : StepMap.Tbl β) (x : Int) :
    StepMap.lastLE (tbl.map fun p => (p.1, f p.2)) x = (StepMap.lastLE tbl x).map f := by
  induction tbl with
  | nil => rfl
  | cons e rest ih =>
    simp only [map_cons, StepMap.lastLE]
    split
    · rfl
    · rw [ih]
      cases StepMap.lastLE rest x <;> rfl

end Changes

-- ------------------------------------------------------------------ the sorted array

def lexKey (k : Rat × Int × Rat) : Rat ×ₗ Int ×ₗ Rat := toLex (k.1, toLex (k.2.1, k.2.2))

theorem leLex_iff (a b : Rat × Int × Rat) : leLex a b = true ↔ lexKey a ≤ lexKey b := by
  unfold leLex lexKey
  simp only [Bool.or_eq_true, Bool.and_eq_true, decide_eq_true_eq, Prod.Lex.toLex_le_toLex]

/-- the array after `np.lexsort` is ordered by onset_div -/
theorem sortArr_sorted (a : List ARow) :
    (sortArr true a).Pairwise (fun r r' => r.onsetDiv ≤ r'.onsetDiv) := by
  have h := isort_sorted (fun r => lexKey (sortKey true r))
    (fun x y => leLex (sortKey true x) (sortKey true y)) (fun x y => leLex_iff _ _) a
  refine h.imp ?_
  intro r r' hle
  unfold lexKey sortKey at hle
  simp only [↓reduceIte, Prod.Lex.toLex_le_toLex] at hle
  rcases hle with h1 | ⟨h1, _⟩
  · exact_mod_cast le_of_lt h1
  · exact_mod_cast le_of_eq h1

-- ------------------------------------------------------------------ the signature maps of the created part

/-- a time signature of the list handed to `create_part`, as `time_signature_map` reports it -/
def tsValue (v : Int × Int) : StepMap.TSv := (v.1.toNat, v.2.toNat, StepMap.musicalBeats v.1.toNat)

def tsTriples (tl : List (Int × (Int × Int))) : List (Int × Nat × Nat) :=
  tl.map fun x => (x.1, x.2.1.toNat, x.2.2.toNat)

theorem tsRows_tsTriples (tl : List (Int × (Int × Int))) :
    StepMap.tsRows (tsTriples tl) = tl.map fun p => (p.1, tsValue p.2) := by
  unfold StepMap.tsRows tsTriples tsValue
  rw [map_map]
  rfl

/-- `time_signature_map` of a part whose time signatures start at time 0 is "previous" interpolation in the list -/
theorem tsMap_lastLE (tl : List (Int × (Int × Int))) (last x : Int) (hne : tl ≠ [])
    (h0 : ∀ e ∈ tl.head?, e.1 = 0) (hx : 0 ≤ x) :
    StepMap.tsMap (some (0, last)) (tsTriples tl) x = (StepMap.lastLE tl x).map tsValue := by
  unfold StepMap.tsMap StepMap.tsTable
  rw [tsRows_tsTriples, ← lastLE_map]
  have hx' : ¬ x < 0 := by omega
  cases tl with
  | nil => exact absurd rfl hne
  | cons e rest =>
    have he : e.1 = 0 := h0 e (by simp)
    cases rest with
    | nil =>
      simp [StepMap.backfill, StepMap.interpPrev, StepMap.lastLE, he, hx']
    | cons e2 rest2 =>
      simp [StepMap.backfill, StepMap.interpPrev, he]

-- ------------------------------------------------------------------ the table of the created part

/-- the columns of a row this file speaks about: (onset, duration, pitch), the time signature, the key signature -/
def rowCols (r : Row) : (Int × Int × Int) × (Int × Int × Int) × (Int × Int) :=
  (rowTriple r, (r.tsBeats, r.tsBeatType, r.tsMusBeats), (r.ksFifths, r.ksMode))

/-- `rows_createPart` with the signature columns: the table of the created part holds, for every triple the part
    was created from, the triple and what the part's signature maps say at its onset -/
theorem rows_createPart_cols (d : Nat) (l : List (Int × Int × Int)) (M : Maps)
    (spell : Int → String × Int × Int) (o : Opts) (out : List Row)
    (hspell : ∀ x ∈ l, Model.spellingToMidi (spell x.2.2).1 (some (spell x.2.2).2.1) (spell x.2.2).2.2 = some x.2.2)
    (h : rows (createPart d l M spell) o = some out) :
    out.map rowCols ~ l.map fun x => (x, M.ts x.1, M.ks x.1) := by
  obtain ⟨dv, rs, _, hout, hf⟩ := rows_structure _ _ _ h
  have hnotes : (createPart d l M spell).notes = mkNotes spell 0 l := rfl
  rw [hnotes, notesTied_mkNotes] at hf
  have hC : Forall₂ (fun x r => rowCols r = (x, M.ts x.1, M.ks x.1)) l rs := by
    apply forall₂_compose (mkNotes_forall₂ spell l 0) hf
    intro x n r hx hn ⟨j, hj⟩ ⟨d', pch, m, hd, hp, _, hr⟩
    have hne : mkNotes spell 0 l ≠ [] := by
      intro he; rw [he] at hn; simp at hn
    have hd2 := durationTied_untied (mkNotes spell 0 l) n (by rw [hj]; rfl) hne
    rw [hd] at hd2
    have hdd : d' = n.dur := by simpa using hd2
    have hsp := hspell x hx
    subst hj
    have hpp : pch = x.2.2 := by
      have : Model.spellingToMidi (mkNote spell j x).step (mkNote spell j x).alter (mkNote spell j x).octave
          = some x.2.2 := hsp
      rw [hp] at this
      simpa using this
    subst hr
    have hM : (createPart d l M spell).maps = M := rfl
    rw [hM]
    unfold rowCols rowTriple finalRow mkRow
    simp only [hdd, hpp]
    have h1 : (mkNote spell j x).onset = x.1 := rfl
    have h2 : (mkNote spell j x).dur = x.2.1 := rfl
    rw [h1, h2]
    obtain ⟨a, b, c⟩ := x
    simp
  have hm : rs.map rowCols = l.map fun x => (x, M.ts x.1, M.ks x.1) :=
    (forall₂_map_eq (fun x => (x, M.ts x.1, M.ks x.1)) rowCols (fun _ _ hab => hab.symm) hC).symm
  rw [hout, ← hm]
  exact ((isort_perm _ _).trans (isort_perm _ _)).map rowCols

theorem dummySpell_keeps (p : Int) :
    Model.spellingToMidi (dummySpell p).1 (some (dummySpell p).2.1) (dummySpell p).2.2 = some p := by
  obtain ⟨s, a, o, hm, hs, _⟩ := C12.midi_spelling p
  unfold dummySpell
  rw [hm]
  exact hs

-- ------------------------------------------------------------------ fromArrayX

theorem rowsC_rows (desc : Desc) (notes : List Note) (o : Opts) (out : List Row)
    (h : rowsC desc notes o = some out) : rows (desc.part o notes) o = some out := by
  unfold rowsC at h
  split at h
  · cases h
  · split at h
    · exact h
    · cases h

/-- what `fromArrayX` returns when it succeeds -/
theorem fromArrayX_ok (hb hd ht hk : Bool) (a : List ARow) (dv : Option Nat) (tsl : List (Int × Int × Int))
    (est san : Bool) (x : XOut) (h : fromArrayX hb hd ht hk a dv tsl est san = .ok x) :
    ∃ d l kss ms,
      fromArray hb hd ht a dv = .ok (d, l) ∧
      invKeySigs hk (sortArr hd a) l = some kss ∧
      createdMeasures d (invTimeSigs hd ht (sortArr hd a) l d tsl est) san
        (xLast (invTimeSigs hd ht (sortArr hd a) l d tsl est) kss (xAna hb ht (sortArr hd a) l d) l)
        (xAna hb ht (sortArr hd a) l d) = .ok ms ∧
      x.divs = d ∧ x.kss = kss ∧ x.measures = ms ∧
      x.tss = (invTimeSigs hd ht (sortArr hd a) l d tsl est).getD [] ∧
      rowsC (createdDesc d (invTimeSigs hd ht (sortArr hd a) l d tsl est) kss ms
          (xLast (invTimeSigs hd ht (sortArr hd a) l d tsl est) kss (xAna hb ht (sortArr hd a) l d) l))
        (mkNotes dummySpell 0 l) xOpts = some x.rows := by
  unfold fromArrayX at h
  cases hfa : fromArray hb hd ht a dv with
  | error e => rw [hfa] at h; cases h
  | ok dl =>
    obtain ⟨d, l⟩ := dl
    rw [hfa] at h
    simp only at h
    cases hks : invKeySigs hk (sortArr hd a) l with
    | none => rw [hks] at h; cases h
    | some kss =>
      rw [hks] at h
      simp only at h
      cases hms : createdMeasures d (invTimeSigs hd ht (sortArr hd a) l d tsl est) san
          (xLast (invTimeSigs hd ht (sortArr hd a) l d tsl est) kss (xAna hb ht (sortArr hd a) l d) l)
          (xAna hb ht (sortArr hd a) l d) with
      | error e => rw [hms] at h; cases h
      | ok ms =>
        rw [hms] at h
        simp only at h
        cases hrows : rowsC (createdDesc d (invTimeSigs hd ht (sortArr hd a) l d tsl est) kss ms
            (xLast (invTimeSigs hd ht (sortArr hd a) l d tsl est) kss (xAna hb ht (sortArr hd a) l d) l))
            (mkNotes dummySpell 0 l) xOpts with
        | none => rw [hrows] at h; cases h
        | some rows =>
          rw [hrows] at h
          cases h
          exact ⟨d, l, kss, ms, rfl, hks, hms, rfl, rfl, rfl, rfl, hrows⟩

theorem createdDesc_part (d : Nat) (ts : Option (List (Int × (Int × Int)))) (kss : List (Int × Int × Mode))
    (ms : List (Int × Int)) (last : Int) (l : List (Int × Int × Int)) (o : Opts) :
    (createdDesc d ts kss ms last).part o (mkNotes dummySpell 0 l)
      = createPart d l ((createdDesc d ts kss ms last).maps o) dummySpell := rfl

theorem createdDesc_span (d : Nat) (ts : Option (List (Int × (Int × Int)))) (kss : List (Int × Int × Mode))
    (ms : List (Int × Int)) (last : Int) : (createdDesc d ts kss ms last).span = some (0, last) := by
  unfold Desc.span createdDesc
  by_cases h : 0 < last <;> simp [h]

theorem createdDesc_tss (d : Nat) (tl : List (Int × (Int × Int))) (kss : List (Int × Int × Mode))
    (ms : List (Int × Int)) (last : Int) : (createdDesc d (some tl) kss ms last).tss = tsTriples tl := by
  unfold Desc.tss createdDesc tsTriples
  simp only [Option.getD_some, map_map]
  rfl

/-- the time signature the created part states at time `x ≥ 0`: "previous" interpolation in the list it was given -/
theorem createdDesc_ts (d : Nat) (tl : List (Int × (Int × Int))) (kss : List (Int × Int × Mode))
    (ms : List (Int × Int)) (last x : Int) (hne : tl ≠ []) (h0 : ∀ e ∈ tl.head?, e.1 = 0) (hx : 0 ≤ x) :
    (createdDesc d (some tl) kss ms last).ts x =
      (StepMap.lastLE tl x).map fun v =>
        ((v.1.toNat : Int), (v.2.toNat : Int), (StepMap.musicalBeats v.1.toNat : Int)) := by
  unfold Desc.ts
  rw [createdDesc_span, createdDesc_tss, tsMap_lastLE tl last x hne h0 hx, Option.map_map]
  rfl

-- ------------------------------------------------------------------ arrays with division and signature columns

/-- valid time-signature columns: rows with the same onset carry the same signature, no negative numbers -/
def TsColumnsOK (a : List ARow) : Prop :=
  (∀ r ∈ a, ∀ r' ∈ a, r.onsetDiv = r'.onsetDiv → tsSig r = tsSig r') ∧ ∀ r ∈ a, 0 ≤ r.tsBeats ∧ 0 ≤ r.tsBeatType

theorem onsetsWith_map {β : Type} (f : ARow → β) (sa : List ARow) :
    onsetsWith f sa (sa.map divTriple) = sa.map fun r => (r.onsetDiv, f r) := by
  unfold onsetsWith
  induction sa with
  | nil => rfl
  | cons r sa ih => simp only [map_cons, zipWith_cons_cons, ih]; rfl

/-- the time-signature column the loop runs over -/
def tsColumn (sa : List ARow) : List (Int × (Int × Int)) := sa.map fun r => (r.onsetDiv, tsSig r)

theorem tsColumn_sorted (a : List ARow) : OnsetSorted (tsColumn (sortArr true a)) := by
  unfold OnsetSorted tsColumn
  rw [pairwise_map]
  exact sortArr_sorted a

theorem tsColumn_consistent (a : List ARow) (hok : TsColumnsOK a) : Consistent (tsColumn (sortArr true a)) := by
  intro p hp q hq hpq
  obtain ⟨r, hr, rfl⟩ := mem_map.mp hp
  obtain ⟨r', hr', rfl⟩ := mem_map.mp hq
  exact hok.1 r ((sortArr_perm true a).mem_iff.mp hr) r' ((sortArr_perm true a).mem_iff.mp hr') hpq

theorem firstAtZero_changes_ne {α : Type} [DecidableEq α] (p : Int × α) (l : List (Int × α)) :
    firstAtZero (changes (p :: l)) ≠ [] ∧ ∀ e ∈ (firstAtZero (changes (p :: l))).head?, e.1 = 0 := by
  rw [changes_cons]
  simp [firstAtZero]

/-- the created part states, at the onset of every row of the (sorted) array, the time signature that row carries -/
theorem created_ts_at_row (a : List ARow) (hok : TsColumnsOK a) (hnn : ∀ r ∈ a, 0 ≤ r.onsetDiv)
    (d : Nat) (kss : List (Int × Int × Mode)) (ms : List (Int × Int)) (last : Int) :
    ∀ r ∈ sortArr true a,
      (createdDesc d (some (firstAtZero (changes (tsColumn (sortArr true a))))) kss ms last).ts r.onsetDiv
        = some (r.tsBeats, r.tsBeatType, (StepMap.musicalBeats r.tsBeats.toNat : Int)) := by
  intro r hr
  have hra : r ∈ a := (sortArr_perm true a).mem_iff.mp hr
  have hp : (r.onsetDiv, tsSig r) ∈ tsColumn (sortArr true a) := mem_map.mpr ⟨r, hr, rfl⟩
  have hnn' : ∀ p ∈ tsColumn (sortArr true a), 0 ≤ p.1 := by
    intro p hp
    obtain ⟨r', hr', rfl⟩ := mem_map.mp hp
    exact hnn r' ((sortArr_perm true a).mem_iff.mp hr')
  have hL := lastLE_changes_at_row (tsColumn (sortArr true a)) (tsColumn_sorted a) (tsColumn_consistent a hok) hnn'
    _ hp
  have hne : firstAtZero (changes (tsColumn (sortArr true a))) ≠ [] ∧
      ∀ e ∈ (firstAtZero (changes (tsColumn (sortArr true a)))).head?, e.1 = 0 := by
    cases hcol : tsColumn (sortArr true a) with
    | nil => rw [hcol] at hp; simp at hp
    | cons p l => exact firstAtZero_changes_ne p l
  rw [createdDesc_ts d _ kss ms last r.onsetDiv hne.1 hne.2 (hnn r hra), hL]
  have h1 := (hok.2 r hra).1
  have h2 := (hok.2 r hra).2
  simp only [Option.map_some, tsSig, Option.some.injEq, Prod.mk.injEq, and_true]
  exact ⟨Int.toNat_of_nonneg h1, Int.toNat_of_nonneg h2⟩

theorem invTimeSigs_columns (hd : Bool) (sa : List ARow) (l : List (Int × Int × Int)) (d : Nat)
    (tsl : List (Int × Int × Int)) (est : Bool) :
    invTimeSigs hd true sa l d tsl est = some (firstAtZero (changes (onsetsWith tsSig sa l))) := by
  unfold invTimeSigs; rfl

theorem maps_ts_on (desc : Desc) (t : Int) : (desc.maps xOpts).ts t = (desc.ts t).getD (0, 0, 0) := rfl

/-- arrays with division and time-signature columns: the table of the part `note_array_to_score` makes holds, for
    every row of the array, its onset, duration, pitch AND its time signature -/
theorem fromArrayX_ts_back (hb hk : Bool) (a : List ARow) (dv : Option Nat) (tsl : List (Int × Int × Int))
    (est san : Bool) (x : XOut) (h : fromArrayX hb true true hk a dv tsl est san = .ok x) (hok : TsColumnsOK a) :
    x.rows.map (fun r => (r.onsetDiv, r.durDiv, r.pitch, r.tsBeats, r.tsBeatType))
      ~ a.map (fun r => (r.onsetDiv, r.durDiv, r.pitch, r.tsBeats, r.tsBeatType)) := by
  obtain ⟨d, l, kss, ms, hfa, _, _, _, _, _, _, hrows⟩ := fromArrayX_ok _ _ _ _ _ _ _ _ _ _ h
  have hl := fromArray_div_eq hb true a dv d l hfa
  have hnn : ∀ r ∈ a, 0 ≤ r.onsetDiv := by
    intro r hr
    obtain ⟨hperm, hpos⟩ := fromArray_div hb true a dv d l hfa
    exact (hpos (divTriple r) (hperm.mem_iff.mpr (mem_map_of_mem hr))).1
  rw [invTimeSigs_columns, hl, onsetsWith_map] at hrows
  generalize xLast _ kss _ _ = last at hrows
  have hrows' := rowsC_rows _ _ _ _ hrows
  rw [createdDesc_part] at hrows'
  have hP := rows_createPart_cols d ((sortArr true a).map divTriple) _ dummySpell xOpts x.rows
    (fun y _ => dummySpell_keeps y.2.2) hrows'
  have hP2 := hP.map (fun c : (Int × Int × Int) × (Int × Int × Int) × (Int × Int) =>
    (c.1.1, c.1.2.1, c.1.2.2, c.2.1.1, c.2.1.2.1))
  rw [map_map, map_map, map_map] at hP2
  refine (hP2.trans (Perm.of_eq ?_)).trans ((sortArr_perm true a).map _)
  apply map_congr_left
  intro r hr
  have hts := created_ts_at_row a hok hnn d kss ms last r hr
  simp only [Function.comp, divTriple, maps_ts_on]
  rw [show tsColumn (sortArr true a) = (sortArr true a).map fun r => (r.onsetDiv, tsSig r) from rfl] at hts
  rw [hts]
  rfl

end NoteArray
