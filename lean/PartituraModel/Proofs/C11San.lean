/-
C11 (round 5) — the whole of `sanitize_part` (Model/Sanitize.lean): on a part whose structures are complete it is the
identity; on every part it leaves every plain note where it is, with its extent, pitch, voice, staff and id (only tie
links are ever cleared).
-/
import PartituraModel.Proofs.C11Contig

namespace C11San
open Model Model.Dur Model.Meas Model.San C11Walk C11Rows

/-- every grace note (found by key) has a main note -/
def GracesComplete (gs : List Grace) : Prop :=
  ∀ k g, lkG gs k = some g → (mainNote gs (gs.length + 1) g).isSome = true

theorem graceStep_noop (notes : List Note) (gs : List Grace) (rem : List Nat) (k : Nat) (h : GracesComplete gs) :
    graceStep notes (gs, rem) k = (gs, rem) := by
  unfold graceStep
  cases hg : lkG gs k with
  | none => rfl
  | some g =>
    have hm := h k g hg
    simp only
    have hnone : (mainNote gs (gs.length + 1) g).isNone = false := by
      cases hmm : mainNote gs (gs.length + 1) g with
      | none => rw [hmm] at hm; cases hm
      | some _ => rfl
    simp only [hnone, Bool.false_eq_true, if_false, hg]

theorem graceLoop_noop (notes : List Note) (gs : List Grace) (h : GracesComplete gs) : graceLoop notes gs = (gs, []) := by
  unfold graceLoop
  generalize gs.map (·.key) = ks
  generalize ([] : List Nat) = rem
  induction ks with
  | nil => rfl
  | cons k ks ih => rw [List.foldl_cons, graceStep_noop notes gs rem k h]; exact ih

theorem filter_complete (l : List Span) (h : ∀ s ∈ l, spanComplete s = true) : l.filter spanComplete = l :=
  List.filter_eq_self.mpr h

/-- **sanitising a part without incomplete structures changes nothing** -/
theorem sanitizePart_noop (s : SanState) (tol : Nat) (hg : GracesComplete s.graces)
    (ht : ∀ t ∈ s.tuplets, spanComplete t = true) (hs : ∀ t ∈ s.slurs, spanComplete t = true) (hc : ContigAll s.notes) :
    sanitizePart s tol = s := by
  unfold sanitizePart
  rw [graceLoop_noop s.notes s.graces hg, filter_complete _ ht, filter_complete _ hs, sanitize_noop s.notes tol hc]
  simp

/-- a note without its tie links -/
def untie (n : Note) : Note := { n with tieNext := none, tiePrev := none }

theorem sanitizeStep_untie (tol : Nat) (acc : List Note) (h : Note) :
    (sanitizeStep tol acc h).map untie = acc.map untie := by
  unfold sanitizeStep
  split
  · rfl
  · simp only
    split
    · rw [List.map_map]
      apply List.map_congr_left
      intro m _
      simp only [Function.comp]
      split <;> rfl
    · rfl

/-- **the tie check never removes, moves or alters a plain note**: whatever the list and the tolerance, the notes are
    the same afterwards but for tie links (which are only ever cleared) -/
theorem sanitizeTies_untie (ns : List Note) (tol : Nat) : (sanitizeTies ns tol).map untie = ns.map untie := by
  unfold sanitizeTies
  generalize ns.filter (fun n => n.tiePrev.isNone ∧ n.tieNext.isSome) = heads
  induction heads generalizing ns with
  | nil => rfl
  | cons h rest ih => rw [List.foldl_cons, ih (sanitizeStep tol ns h), sanitizeStep_untie]

-- ------------------------------------------------------------------ the tie check reads times and links only

/-- write other pitches, voices, staves and ids on the notes (any functions of the key) -/
def repaint (π : Nat → String) (ν σ : Nat → Option Int) (ι : Nat → Option String) (n : Note) : Note :=
  { n with pitch := π n.key, voice := ν n.key, staff := σ n.key, id := ι n.key }

section
variable (π : Nat → String) (ν σ : Nat → Option Int) (ι : Nat → Option String)

theorem find_repaint (ns : List Note) (k : Nat) :
    (ns.map (repaint π ν σ ι)).find? (·.key = k) = (ns.find? (·.key = k)).map (repaint π ν σ ι) :=
  lk_map (repaint π ν σ ι) (fun _ => rfl) ns k

theorem chainEndDur_repaint (ns : List Note) : ∀ (fuel : Nat) (n : Note),
    chainEndDur (ns.map (repaint π ν σ ι)) fuel (repaint π ν σ ι n) = chainEndDur ns fuel n := by
  intro fuel
  induction fuel with
  | zero => intro n; rfl
  | succ f ih =>
    intro n
    unfold chainEndDur
    have hb : ((repaint π ν σ ι n).tieNext.bind fun k => (ns.map (repaint π ν σ ι)).find? (·.key = k)) =
        (n.tieNext.bind fun k => ns.find? (·.key = k)).map (repaint π ν σ ι) := by
      show (n.tieNext.bind _) = _
      cases n.tieNext with
      | none => rfl
      | some t => simp only [Option.bind_some]; exact find_repaint π ν σ ι ns t
    rw [hb]
    cases n.tieNext.bind fun k => ns.find? (·.key = k) with
    | none => rfl
    | some nx => simp only [Option.map_some]; rw [ih nx]; rfl

theorem chainKeys_repaint (ns : List Note) : ∀ (fuel : Nat) (n : Note),
    chainKeys (ns.map (repaint π ν σ ι)) fuel (repaint π ν σ ι n) = chainKeys ns fuel n := by
  intro fuel
  induction fuel with
  | zero => intro n; rfl
  | succ f ih =>
    intro n
    unfold chainKeys
    have hb : ((repaint π ν σ ι n).tieNext.bind fun k => (ns.map (repaint π ν σ ι)).find? (·.key = k)) =
        (n.tieNext.bind fun k => ns.find? (·.key = k)).map (repaint π ν σ ι) := by
      show (n.tieNext.bind _) = _
      cases n.tieNext with
      | none => rfl
      | some t => simp only [Option.bind_some]; exact find_repaint π ν σ ι ns t
    rw [hb]
    cases n.tieNext.bind fun k => ns.find? (·.key = k) with
    | none => rfl
    | some nx => simp only [Option.map_some]; rw [ih nx]; rfl

theorem sanitizeStep_repaint (tol : Nat) (acc : List Note) (h : Note) :
    sanitizeStep tol (acc.map (repaint π ν σ ι)) (repaint π ν σ ι h) = (sanitizeStep tol acc h).map (repaint π ν σ ι) := by
  unfold sanitizeStep
  have hk : (repaint π ν σ ι h).key = h.key := rfl
  rw [hk, find_repaint]
  cases acc.find? (·.key = h.key) with
  | none => rfl
  | some n =>
    simp only [Option.map_some, List.length_map]
    rw [chainEndDur_repaint, chainKeys_repaint]
    have hs : (repaint π ν σ ι n).start = n.start := rfl
    rw [hs]
    split
    · rw [List.map_map, List.map_map]
      apply List.map_congr_left
      intro m _
      simp only [Function.comp]
      have hmk : (repaint π ν σ ι m).key = m.key := rfl
      rw [hmk]
      split <;> rfl
    · rfl

/-- **the tie check of `sanitize_part` reads keys, times and tie links only**: however the notes are spelled
    (`alter` `None` or `0`, G♯ or A♭), whatever their voices, staves and ids — the same links are cleared -/
theorem sanitizeTies_repaint (ns : List Note) (tol : Nat) :
    sanitizeTies (ns.map (repaint π ν σ ι)) tol = (sanitizeTies ns tol).map (repaint π ν σ ι) := by
  unfold sanitizeTies
  have hf : (ns.map (repaint π ν σ ι)).filter (fun n => n.tiePrev.isNone ∧ n.tieNext.isSome) =
      (ns.filter (fun n => n.tiePrev.isNone ∧ n.tieNext.isSome)).map (repaint π ν σ ι) := by
    rw [List.filter_map]; rfl
  rw [hf]
  clear hf
  generalize ns.filter (fun n => n.tiePrev.isNone ∧ n.tieNext.isSome) = heads
  induction heads generalizing ns with
  | nil => rfl
  | cons h rest ih =>
    rw [List.map_cons, List.foldl_cons, List.foldl_cons, sanitizeStep_repaint]
    exact ih (sanitizeStep tol ns h)

end

end C11San
