/-
C11 (round 6) — the grace-note loop of `sanitize_part` (Model/Sanitize.lean: `graceStep`, `graceLoop`).

The loop only ever rewrites `grace_next` of a grace note to a plain note (`setNext … (.note x)`); `Reach` collects the
lists that can arise that way.  Along `Reach` having a main note is monotone (`reach_main`): a rewritten link shortens
the way to a main note, it never cuts it.  From this the two halves of the documented purpose follow for the loop as it
is written (`graceLoop_inv`): a grace note that has a main note is never listed for removal, and every grace note that
is not listed has one afterwards.
-/
import PartituraModel.Model.Sanitize

namespace C11Grace
open Model Model.Dur Model.Meas Model.San

/-- what `setNext` does to one grace note -/
def upd (L : Nat) (nx : GNext) (g : Grace) : Grace := if g.key = L then { g with next := nx } else g

theorem upd_key (L : Nat) (nx : GNext) (g : Grace) : (upd L nx g).key = g.key := by unfold upd; split <;> rfl
theorem upd_start (L : Nat) (nx : GNext) (g : Grace) : (upd L nx g).start = g.start := by unfold upd; split <;> rfl
theorem upd_voice (L : Nat) (nx : GNext) (g : Grace) : (upd L nx g).voice = g.voice := by unfold upd; split <;> rfl
theorem upd_next (L : Nat) (nx : GNext) (g : Grace) : (upd L nx g).next = g.next ∨ (upd L nx g).next = nx := by
  unfold upd; split
  · exact Or.inr rfl
  · exact Or.inl rfl

theorem setNext_eq (gs : List Grace) (L : Nat) (nx : GNext) : setNext gs L nx = gs.map (upd L nx) := rfl

theorem lkG_map (f : Grace → Grace) (hf : ∀ g, (f g).key = g.key) (gs : List Grace) (k : Nat) :
    lkG (gs.map f) k = (lkG gs k).map f := by
  unfold lkG
  induction gs with
  | nil => rfl
  | cons a as ih =>
    simp only [List.map_cons, List.find?_cons, hf]
    split
    · rfl
    · exact ih

theorem lkG_setNext (gs : List Grace) (L : Nat) (nx : GNext) (k : Nat) :
    lkG (setNext gs L nx) k = (lkG gs k).map (upd L nx) :=
  lkG_map (upd L nx) (upd_key L nx) gs k

theorem lkG_mem (gs : List Grace) (k : Nat) (g : Grace) (h : lkG gs k = some g) : g ∈ gs ∧ g.key = k := by
  unfold lkG at h
  exact ⟨List.mem_of_find?_eq_some h, by simpa using List.find?_some h⟩

/-- with distinct keys a grace note is found under its own key -/
theorem lkG_self : ∀ (gs : List Grace), (gs.map (·.key)).Nodup → ∀ g ∈ gs, lkG gs g.key = some g := by
  intro gs
  induction gs with
  | nil => intro _ g hg; cases hg
  | cons a as ih =>
    intro hnd g hg
    rw [List.map_cons, List.nodup_cons] at hnd
    unfold lkG
    rw [List.find?_cons]
    rcases List.mem_cons.mp hg with rfl | hmem
    · simp
    · have hne : ¬ (a.key = g.key) := fun h => hnd.1 (h ▸ List.mem_map.mpr ⟨g, hmem, rfl⟩)
      simp only [hne, decide_false]
      exact ih hnd.2 g hmem

/-- **a link rewritten to a plain note never takes a main note away**: the way from `g` to its main note either avoids
    the rewritten grace note, or now ends there -/
theorem mainNote_setNext (gs : List Grace) (L x : Nat) : ∀ (fuel : Nat) (g : Grace),
    (mainNote gs fuel g).isSome = true →
    (mainNote (setNext gs L (.note x)) fuel (upd L (.note x) g)).isSome = true := by
  intro fuel
  induction fuel with
  | zero => intro g h; simp [mainNote] at h
  | succ f ih =>
    intro g h
    by_cases hk : g.key = L
    · have hn : (upd L (.note x) g).next = .note x := by simp [upd, hk]
      unfold mainNote
      rw [hn]
      rfl
    · have hu : upd L (.note x) g = g := by simp [upd, hk]
      rw [hu]
      unfold mainNote at h ⊢
      cases hn : g.next with
      | none => rw [hn] at h; simp at h
      | note k => rfl
      | grace k =>
        rw [hn] at h
        simp only at h ⊢
        rw [lkG_setNext]
        cases hl : lkG gs k with
        | none => rw [hl] at h; simp at h
        | some hh =>
          rw [hl] at h
          simp only [Option.map_some]
          exact ih hh h

/-- the lists the loop can produce from `gs`: links rewritten, one at a time, to plain notes satisfying `P` -/
inductive Reach (P : Nat → Prop) (gs : List Grace) : List Grace → Prop
  | refl : Reach P gs gs
  | step (gs' : List Grace) (L x : Nat) : Reach P gs gs' → P x → Reach P gs (setNext gs' L (.note x))

theorem reach_trans {P : Nat → Prop} {a b c : List Grace} (h1 : Reach P a b) (h2 : Reach P b c) : Reach P a c := by
  induction h2 with
  | refl => exact h1
  | step gs' L x _ hp ih => exact Reach.step gs' L x ih hp

/-- a reachable list is the old one with some `grace_next` rewritten: same grace notes (key, time, voice) in the same
    order, and every link is the old one or a plain note satisfying `P` -/
theorem reach_map {P : Nat → Prop} {gs gs' : List Grace} (h : Reach P gs gs') :
    ∃ f : Grace → Grace, gs' = gs.map f ∧ ∀ g, (f g).key = g.key ∧ (f g).start = g.start ∧ (f g).voice = g.voice ∧
      ((f g).next = g.next ∨ ∃ x, P x ∧ (f g).next = .note x) := by
  induction h with
  | refl => exact ⟨id, (List.map_id _).symm, fun g => ⟨rfl, rfl, rfl, Or.inl rfl⟩⟩
  | step gs'' L x _ hp ih =>
    obtain ⟨f, hf, hprop⟩ := ih
    refine ⟨upd L (.note x) ∘ f, ?_, ?_⟩
    · rw [setNext_eq, hf, List.map_map]
    · intro g
      obtain ⟨a, b, c, d⟩ := hprop g
      simp only [Function.comp]
      refine ⟨by rw [upd_key, a], by rw [upd_start, b], by rw [upd_voice, c], ?_⟩
      rcases upd_next L (.note x) (f g) with e | e
      · rw [e]; exact d
      · exact Or.inr ⟨x, hp, e⟩

theorem reach_keys {P : Nat → Prop} {gs gs' : List Grace} (h : Reach P gs gs') : gs'.map (·.key) = gs.map (·.key) := by
  obtain ⟨f, hf, hprop⟩ := reach_map h
  rw [hf, List.map_map]
  apply List.map_congr_left
  intro g _
  exact (hprop g).1

theorem reach_length {P : Nat → Prop} {gs gs' : List Grace} (h : Reach P gs gs') : gs'.length = gs.length := by
  have := congrArg List.length (reach_keys h)
  simpa using this

/-- **having a main note is monotone along the loop** (any fuel) -/
theorem reach_main {P : Nat → Prop} {gs gs' : List Grace} (h : Reach P gs gs') (fuel k : Nat) (g : Grace)
    (hg : lkG gs k = some g) (hm : (mainNote gs fuel g).isSome = true) :
    ∃ g', lkG gs' k = some g' ∧ (mainNote gs' fuel g').isSome = true := by
  induction h with
  | refl => exact ⟨g, hg, hm⟩
  | step gs'' L x _ _ ih =>
    obtain ⟨g', hl, hm'⟩ := ih
    exact ⟨upd L (.note x) g', by rw [lkG_setNext, hl]; rfl, mainNote_setNext gs'' L x fuel g' hm'⟩

-- ------------------------------------------------------------------ one turn of the loop

/-- the plain notes that may adopt a grace note of `gs`: they start where a grace note starts and have its voice -/
def Adopter (notes : List Note) (gs : List Grace) (x : Nat) : Prop :=
  ∃ no ∈ notes, no.key = x ∧ ∃ g ∈ gs, no.start = g.start ∧ no.voice = g.voice

theorem offers_reach (notes : List Note) (gs0 : List Grace) (k : Nat) (voice : Option Int) (fuel : Nat) :
    ∀ (cands : List Note) (acc : List Grace),
      (∀ no ∈ cands, no.voice = voice → Adopter notes gs0 no.key) →
      Reach (Adopter notes gs0) acc (cands.foldl (offer k voice fuel) acc) := by
  intro cands
  induction cands with
  | nil => intro acc _; exact Reach.refl
  | cons c cs ih =>
    intro acc hc
    rw [List.foldl_cons]
    have hstep : Reach (Adopter notes gs0) acc (offer k voice fuel acc c) := by
      unfold offer
      split
      · rename_i hv
        split
        · exact Reach.step acc _ _ Reach.refl (hc c (List.mem_cons_self) hv)
        · exact Reach.refl
      · exact Reach.refl
    exact reach_trans hstep (ih _ (fun no hno hv => hc no (List.mem_cons_of_mem _ hno) hv))

-- ------------------------------------------------------------------ WHICH note adopts

theorem upd_upd (L : Nat) (a b : GNext) (g : Grace) : upd L b (upd L a g) = upd L b g := by
  unfold upd
  by_cases h : g.key = L
  · simp [h]
  · simp [h]

theorem setNext_setNext (gs : List Grace) (L : Nat) (a b : GNext) : setNext (setNext gs L a) L b = setNext gs L b := by
  rw [setNext_eq, setNext_eq, setNext_eq, List.map_map]
  apply List.map_congr_left
  intro g _
  exact upd_upd L a b g

/-- the last grace note of a sequence is still the last one after it was given a main note -/
theorem lastInSeq_setNext (gs : List Grace) (x : Nat) : ∀ (fuel : Nat) (g : Grace) (L : Nat),
    lastInSeq gs fuel g = L → lastInSeq (setNext gs L (.note x)) fuel (upd L (.note x) g) = L := by
  intro fuel
  induction fuel with
  | zero =>
    intro g L h
    unfold lastInSeq at h ⊢
    rw [upd_key]; exact h
  | succ f ih =>
    intro g L h
    by_cases hk : g.key = L
    · have hn : (upd L (.note x) g).next = .note x := by simp [upd, hk]
      unfold lastInSeq
      rw [hn]
      simp only
      rw [upd_key]; exact hk
    · have hu : upd L (.note x) g = g := by simp [upd, hk]
      rw [hu]
      unfold lastInSeq at h ⊢
      cases hn : g.next with
      | none => rw [hn] at h; exact absurd h hk
      | note k => rw [hn] at h; exact absurd h hk
      | grace k =>
        rw [hn] at h
        simp only at h ⊢
        rw [lkG_setNext]
        cases hl : lkG gs k with
        | none => rw [hl] at h; exact absurd h hk
        | some hh =>
          rw [hl] at h
          simp only [Option.map_some]
          exact ih hh L h

/-- **the offers in closed form**: after the inner loop over the plain notes that start with the grace note `k`, the LAST
    one of its voice (in iteration order) is the `grace_next` of the last grace note of `k`'s sequence; without such a
    note nothing changes -/
theorem offers_closed (k : Nat) (voice : Option Int) (fuel : Nat) : ∀ (cands : List Note) (acc : List Grace) (g : Grace),
    lkG acc k = some g →
    cands.foldl (offer k voice fuel) acc =
      match (cands.filter fun no => no.voice = voice).getLast? with
      | none => acc
      | some c => setNext acc (lastInSeq acc fuel g) (.note c.key) := by
  intro cands
  induction cands with
  | nil => intro acc g _; rfl
  | cons c cs ih =>
    intro acc g hg
    rw [List.foldl_cons]
    by_cases hv : c.voice = voice
    · have hoff : offer k voice fuel acc c = setNext acc (lastInSeq acc fuel g) (.note c.key) := by
        unfold offer
        rw [if_pos hv, hg]
      have hg' : lkG (offer k voice fuel acc c) k = some (upd (lastInSeq acc fuel g) (.note c.key) g) := by
        rw [hoff, lkG_setNext, hg]; rfl
      rw [ih _ _ hg']
      have hlast : lastInSeq (offer k voice fuel acc c) fuel (upd (lastInSeq acc fuel g) (.note c.key) g) =
          lastInSeq acc fuel g := by
        rw [hoff]; exact lastInSeq_setNext acc c.key fuel g _ rfl
      rw [hlast, List.filter_cons, if_pos (by simpa using hv)]
      cases hcs : (cs.filter fun no => no.voice = voice) with
      | nil => simp [hoff]
      | cons d ds =>
        rw [List.getLast?_cons_cons]
        cases hgl : (d :: ds).getLast? with
        | none => simp at hgl
        | some e =>
          simp only
          rw [hoff, setNext_setNext]
    · have hoff : offer k voice fuel acc c = acc := by
        unfold offer
        rw [if_neg hv]
      rw [hoff, ih acc g hg, List.filter_cons, if_neg (by simpa using hv)]

/-- one turn of the loop in closed form, for a grace note without main note -/
theorem graceStep_closed (notes : List Note) (st : List Grace × List Nat) (k : Nat) (g : Grace)
    (hg : lkG st.1 k = some g) (hm : mainNote st.1 (st.1.length + 1) g = none) :
    (graceStep notes st k).1 =
      match ((notes.filter fun n => n.start = g.start).filter fun no => no.voice = g.voice).getLast? with
      | none => st.1
      | some c => setNext st.1 (lastInSeq st.1 (st.1.length + 1) g) (.note c.key) := by
  have h1 : (graceStep notes st k).1 =
      (notes.filter fun n => n.start = g.start).foldl (offer k g.voice (st.1.length + 1)) st.1 := by
    unfold graceStep
    rw [hg]
    simp only [hm, Option.isNone_none, if_true]
    split
    · split <;> rfl
    · rfl
  rw [h1]
  exact offers_closed k g.voice (st.1.length + 1) _ st.1 g hg

/-- a grace note that has a main note leaves the state of the loop as it is -/
theorem graceStep_complete (notes : List Note) (st : List Grace × List Nat) (k : Nat) (g : Grace)
    (hg : lkG st.1 k = some g) (hm : (mainNote st.1 (st.1.length + 1) g).isSome = true) :
    graceStep notes st k = st := by
  unfold graceStep
  rw [hg]
  have hnone : (mainNote st.1 (st.1.length + 1) g).isNone = false := by
    cases hmm : mainNote st.1 (st.1.length + 1) g with
    | none => rw [hmm] at hm; cases hm
    | some _ => rfl
  simp only [hnone, Bool.false_eq_true, if_false, hg]

/-- the state of the loop after the keys `done`: the list is reachable from the entered one; every processed grace note
    that is not listed for removal has a main note; nothing listed had one when it was entered -/
structure Inv (notes : List Note) (gs0 : List Grace) (done : List Nat) (st : List Grace × List Nat) : Prop where
  reach : Reach (Adopter notes gs0) gs0 st.1
  kept : ∀ k ∈ done, k ∉ st.2 → ∀ g, lkG st.1 k = some g → (mainNote st.1 (st.1.length + 1) g).isSome = true
  listed : ∀ k ∈ st.2, k ∈ done ∧ ∀ g0, lkG gs0 k = some g0 → (mainNote gs0 (gs0.length + 1) g0).isSome = false

theorem graceStep_inv (notes : List Note) (gs0 : List Grace) (done : List Nat) (st : List Grace × List Nat) (k : Nat)
    (h : Inv notes gs0 done st) : Inv notes gs0 (done ++ [k]) (graceStep notes st k) := by
  obtain ⟨hreach, hkept, hlisted⟩ := h
  unfold graceStep
  cases hg : lkG st.1 k with
  | none =>
    simp only
    refine ⟨hreach, ?_, ?_⟩
    · intro k' hk' hnot g hl
      rcases List.mem_append.mp hk' with hd | hk1
      · exact hkept k' hd hnot g hl
      · rw [List.mem_singleton] at hk1; subst hk1; rw [hg] at hl; cases hl
    · intro k' hk'
      exact ⟨List.mem_append_left _ (hlisted k' hk').1, (hlisted k' hk').2⟩
  | some g =>
    simp only
    -- the list after the offers
    generalize hgs1 : (if (mainNote st.1 (st.1.length + 1) g).isNone then
        (notes.filter fun n => n.start = g.start).foldl (offer k g.voice (st.1.length + 1)) st.1 else st.1) = gs1
    have hgmem := lkG_mem st.1 k g hg
    have hstep : Reach (Adopter notes gs0) st.1 gs1 := by
      rw [← hgs1]
      split
      · apply offers_reach notes gs0 k g.voice _
        intro no hno hv
        obtain ⟨hmem, hst⟩ := List.mem_filter.mp hno
        obtain ⟨f, hf, hprop⟩ := reach_map hreach
        rw [hf] at hgmem
        obtain ⟨g0, hg0, hfg⟩ := List.mem_map.mp hgmem.1
        refine ⟨no, hmem, rfl, g0, hg0, ?_, ?_⟩
        · rw [← (hprop g0).2.1, hfg]; simpa using hst
        · rw [← (hprop g0).2.2.1, hfg]; exact hv
      · exact Reach.refl
    have hreach1 := reach_trans hreach hstep
    have hlen : gs1.length = st.1.length := reach_length hstep
    have hlen0 : st.1.length = gs0.length := reach_length hreach
    -- processed grace notes keep their main note
    have hkeep : ∀ k' ∈ done, k' ∉ st.2 → ∀ g', lkG gs1 k' = some g' →
        (mainNote gs1 (gs1.length + 1) g').isSome = true := by
      intro k' hd hnot g' hl
      obtain ⟨f, hf, hprop⟩ := reach_map hstep
      have hl0 : ∃ g'', lkG st.1 k' = some g'' := by
        rw [hf, lkG_map f (fun g => (hprop g).1)] at hl
        cases hh : lkG st.1 k' with
        | none => rw [hh] at hl; cases hl
        | some g'' => exact ⟨g'', rfl⟩
      obtain ⟨g'', hl''⟩ := hl0
      obtain ⟨g3, hl3, hm3⟩ := reach_main hstep (st.1.length + 1) k' g'' hl'' (hkept k' hd hnot g'' hl'')
      rw [hl] at hl3
      cases hl3
      rw [hlen]
      exact hm3
    cases hg1 : lkG gs1 k with
    | none =>
      simp only
      refine ⟨hreach1, ?_, ?_⟩
      · intro k' hk' hnot g' hl
        rcases List.mem_append.mp hk' with hd | hk1
        · exact hkeep k' hd hnot g' hl
        · rw [List.mem_singleton] at hk1; subst hk1; rw [hg1] at hl; cases hl
      · intro k' hk'
        exact ⟨List.mem_append_left _ (hlisted k' hk').1, (hlisted k' hk').2⟩
    | some g1 =>
      simp only
      rw [hlen.symm]
      by_cases hmn : (mainNote gs1 (gs1.length + 1) g1).isNone = true
      · rw [if_pos hmn]
        refine ⟨hreach1, ?_, ?_⟩
        · intro k' hk' hnot g' hl
          have hnot1 : k' ∉ st.2 := fun hh => hnot (List.mem_append_left _ hh)
          rcases List.mem_append.mp hk' with hd | hk1
          · exact hkeep k' hd hnot1 g' hl
          · rw [List.mem_singleton] at hk1; subst hk1
            exact absurd (List.mem_append_right _ (List.mem_singleton.mpr rfl)) hnot
        · intro k' hk'
          rcases List.mem_append.mp hk' with hold | hnew
          · exact ⟨List.mem_append_left _ (hlisted k' hold).1, (hlisted k' hold).2⟩
          · rw [List.mem_singleton] at hnew; subst hnew
            refine ⟨List.mem_append_right _ (List.mem_singleton.mpr rfl), ?_⟩
            intro g0 hl0
            cases hm0 : (mainNote gs0 (gs0.length + 1) g0).isSome with
            | false => rfl
            | true =>
              obtain ⟨g3, hl3, hm3⟩ := reach_main hreach1 (gs0.length + 1) k' g0 hl0 hm0
              rw [hg1] at hl3
              cases hl3
              rw [← hlen0, ← hlen] at hm3
              rw [Option.isNone_iff_eq_none] at hmn
              rw [hmn] at hm3
              cases hm3
      · rw [if_neg hmn]
        refine ⟨hreach1, ?_, ?_⟩
        · intro k' hk' hnot g' hl
          rcases List.mem_append.mp hk' with hd | hk1
          · exact hkeep k' hd hnot g' hl
          · rw [List.mem_singleton] at hk1; subst hk1
            rw [hg1] at hl
            cases hl
            show (mainNote gs1 (gs1.length + 1) g1).isSome = true
            cases hh : mainNote gs1 (gs1.length + 1) g1 with
            | none => rw [hh] at hmn; exact absurd rfl hmn
            | some _ => rfl
        · intro k' hk'
          exact ⟨List.mem_append_left _ (hlisted k' hk').1, (hlisted k' hk').2⟩

theorem foldl_inv (notes : List Note) (gs0 : List Grace) : ∀ (ks done : List Nat) (st : List Grace × List Nat),
    Inv notes gs0 done st → Inv notes gs0 (done ++ ks) (ks.foldl (graceStep notes) st) := by
  intro ks
  induction ks with
  | nil => intro done st h; simpa using h
  | cons k ks ih =>
    intro done st h
    rw [List.foldl_cons]
    have := ih (done ++ [k]) _ (graceStep_inv notes gs0 done st k h)
    simpa [List.append_assoc] using this

/-- **the invariant at the end of the grace-note loop**, all keys processed -/
theorem graceLoop_inv (notes : List Note) (gs : List Grace) :
    Inv notes gs (gs.map (·.key)) (graceLoop notes gs) := by
  unfold graceLoop
  have h0 : Inv notes gs [] (gs, []) :=
    ⟨Reach.refl, fun k hk => absurd hk List.not_mem_nil, fun k hk => absurd hk List.not_mem_nil⟩
  simpa using foldl_inv notes gs (gs.map (·.key)) [] (gs, []) h0

end C11Grace
