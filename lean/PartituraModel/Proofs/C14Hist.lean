/-
C14 (round 5) — helper lemmas for histories with removals / insertions / copies / control edits.
-/
import PartituraModel.Proofs.C14Dict
import PartituraModel.Model.PedalHist

namespace C14P
open Model Model.Pedal

theorem mem_removeAt {α : Type} (l : List α) (i : Nat) (x : α) (h : x ∈ removeAt l i) : x ∈ l := by
  induction l generalizing i with
  | nil => simp [removeAt] at h
  | cons a rest ih =>
    cases i with
    | zero => exact List.mem_cons_of_mem _ h
    | succ i' =>
      simp only [removeAt, List.mem_cons] at h
      rcases h with h | h
      · rw [h]; exact List.mem_cons_self
      · exact List.mem_cons_of_mem _ (ih i' h)

theorem length_removeAt {α : Type} (l : List α) (i : Nat) (h : i < l.length) : (removeAt l i).length + 1 = l.length := by
  induction l generalizing i with
  | nil => simp at h
  | cons a rest ih =>
    cases i with
    | zero => simp [removeAt]
    | succ i' =>
      simp only [removeAt, List.length_cons]
      have := ih i' (by simpa using h)
      omega

theorem mem_insertAt {α : Type} (l : List α) (i : Nat) (b x : α) (h : x ∈ insertAt l i b) : x = b ∨ x ∈ l := by
  induction l generalizing i with
  | nil =>
    simp only [insertAt, List.mem_singleton] at h
    exact Or.inl h
  | cons a rest ih =>
    cases i with
    | zero =>
      simp only [insertAt, List.mem_cons] at h
      rcases h with h | h | h
      · exact Or.inl h
      · exact Or.inr (by rw [h]; exact List.mem_cons_self)
      · exact Or.inr (List.mem_cons_of_mem _ h)
    | succ i' =>
      simp only [insertAt, List.mem_cons] at h
      rcases h with h | h
      · exact Or.inr (by rw [h]; exact List.mem_cons_self)
      · rcases ih i' h with h' | h'
        · exact Or.inl h'
        · exact Or.inr (List.mem_cons_of_mem _ h')

theorem length_insertAt {α : Type} (l : List α) (i : Nat) (b : α) : (insertAt l i b).length = l.length + 1 := by
  induction l generalizing i with
  | nil => simp [insertAt]
  | cons a rest ih =>
    cases i with
    | zero => simp [insertAt]
    | succ i' => simp [insertAt, ih i']

/-- the completed dictionary of a note's own dictionary is the note -/
theorem defaulted_toRaw (n : PNote) : defaulted (toRaw n) n.pitch = n := by
  cases n
  simp [defaulted, toRaw]

/-- `note.copy()` is the note itself when the validators pass on its current values, and raises otherwise -/
theorem copyNote_eq (n : PNote) : copyNote n = if validInit n = true then some n else none := by
  unfold copyNote initNote
  have h : (toRaw n).pitch.or (toRaw n).midiPitch = some n.pitch := rfl
  rw [h]
  simp only [defaulted_toRaw]

theorem setAt_self {α : Type} (l : List α) (i : Nat) (a : α) (h : l[i]? = some a) : setAt l i a = l := by
  induction l generalizing i with
  | nil => rfl
  | cons b rest ih =>
    cases i with
    | zero =>
      simp only [List.getElem?_cons_zero, Option.some.injEq] at h
      rw [h]; rfl
    | succ i' =>
      simp only [List.getElem?_cons_succ] at h
      simp only [setAt, ih i' h]

end C14P
