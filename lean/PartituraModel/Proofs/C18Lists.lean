/-
C18 — helper lemmas about the list plumbing of the codec model: stable insertion sort,
runs, tagging with indices, scatter/lookup, naturality of the onset grouping.
-/
import PartituraModel.Model.Codec
import Mathlib.Data.List.Perm.Basic
import Mathlib.Data.List.Nodup
import Mathlib.Data.List.Range
import Mathlib.Tactic.Linarith

namespace C18P
open Model Model.Codec

variable {α β γ : Type}

-- ------------------------------------------------------------------ insertion sort

theorem perm_insertBy (le : α → α → Bool) (a : α) (l : List α) : (insertBy le a l).Perm (a :: l) := by
  induction l with
  | nil => simp [insertBy]
  | cons b bs ih =>
    simp only [insertBy]
    split
    · exact List.Perm.refl _
    · exact (List.Perm.cons b ih).trans (List.Perm.swap a b bs)

theorem perm_isort (le : α → α → Bool) (l : List α) : (isort le l).Perm l := by
  induction l with
  | nil => simp [isort]
  | cons a as ih =>
    simp only [isort]
    exact (perm_insertBy le a _).trans (List.Perm.cons a ih)

theorem insertBy_map (f : α → β) (le : α → α → Bool) (le' : β → β → Bool)
    (h : ∀ a b, le' (f a) (f b) = le a b) (a : α) (l : List α) :
    insertBy le' (f a) (l.map f) = (insertBy le a l).map f := by
  induction l with
  | nil => simp [insertBy]
  | cons b bs ih =>
    simp only [List.map_cons, insertBy, h]
    split
    · simp
    · simp [ih]

theorem isort_map (f : α → β) (le : α → α → Bool) (le' : β → β → Bool)
    (h : ∀ a b, le' (f a) (f b) = le a b) (l : List α) :
    isort le' (l.map f) = (isort le l).map f := by
  induction l with
  | nil => simp [isort]
  | cons a as ih =>
    simp only [List.map_cons, isort, ih]
    exact insertBy_map f le le' h a _

/-- the output of the sort is ordered, for a total and transitive comparison -/
theorem pairwise_insertBy (le : α → α → Bool) (htot : ∀ a b, le a b = true ∨ le b a = true)
    (htr : ∀ a b c, le a b = true → le b c = true → le a c = true) (a : α) (l : List α)
    (hl : l.Pairwise (fun x y => le x y = true)) : (insertBy le a l).Pairwise (fun x y => le x y = true) := by
  induction l with
  | nil => simp [insertBy]
  | cons b bs ih =>
    simp only [insertBy]
    have hb := List.pairwise_cons.mp hl
    split
    · rename_i hab
      refine List.pairwise_cons.mpr ⟨?_, hl⟩
      intro y hy
      rcases List.mem_cons.mp hy with rfl | hy
      · exact hab
      · exact htr a b y hab (hb.1 y hy)
    · rename_i hab
      have hba : le b a = true := by
        rcases htot a b with h | h
        · exact absurd h hab
        · exact h
      refine List.pairwise_cons.mpr ⟨?_, ih hb.2⟩
      intro y hy
      have := (perm_insertBy le a bs).mem_iff.mp hy
      rcases List.mem_cons.mp this with rfl | hy
      · exact hba
      · exact hb.1 y hy

theorem pairwise_isort (le : α → α → Bool) (htot : ∀ a b, le a b = true ∨ le b a = true)
    (htr : ∀ a b c, le a b = true → le b c = true → le a c = true) (l : List α) :
    (isort le l).Pairwise (fun x y => le x y = true) := by
  induction l with
  | nil => simp [isort]
  | cons a as ih =>
    simp only [isort]
    exact pairwise_insertBy le htot htr a _ ih

-- ------------------------------------------------------------------ runs

theorem runs_cons_ne_nil (brk : α → α → Bool) (a : α) (l : List α) : runs brk (a :: l) ≠ [] := by
  induction l generalizing a with
  | nil => simp [runs]
  | cons b t ih =>
    cases h : runs brk (b :: t) with
    | nil => exact absurd h (ih b)
    | cons g gs =>
      rw [runs.eq_2 brk a b t g gs h]
      split <;> simp

theorem runs_cons_cons (brk : α → α → Bool) (a b : α) (t : List α) :
    ∃ g gs, runs brk (b :: t) = g :: gs ∧
      runs brk (a :: b :: t) = if brk a b then [a] :: g :: gs else (a :: g) :: gs := by
  have hne := runs_cons_ne_nil brk b t
  cases h : runs brk (b :: t) with
  | nil => exact absurd h hne
  | cons g gs => exact ⟨g, gs, rfl, runs.eq_2 brk a b t g gs h⟩

theorem runs_flatten (brk : α → α → Bool) (l : List α) : (runs brk l).flatten = l := by
  induction l with
  | nil => simp [runs]
  | cons a rest ih =>
    cases rest with
    | nil => simp [runs]
    | cons b t =>
      obtain ⟨g, gs, h1, h2⟩ := runs_cons_cons brk a b t
      rw [h2]
      rw [h1] at ih
      split
      · simp only [List.flatten_cons, List.singleton_append]
        rw [← List.flatten_cons, ih]
      · simp only [List.flatten_cons, List.cons_append]
        rw [← List.flatten_cons, ih]

theorem runs_ne_nil (brk : α → α → Bool) (l : List α) : ∀ g ∈ runs brk l, g ≠ [] := by
  induction l with
  | nil => simp [runs]
  | cons a rest ih =>
    cases rest with
    | nil => simp [runs]
    | cons b t =>
      obtain ⟨g, gs, h1, h2⟩ := runs_cons_cons brk a b t
      rw [h2]
      rw [h1] at ih
      intro x hx
      split at hx
      · rcases List.mem_cons.mp hx with rfl | hx
        · simp
        · exact ih x hx
      · rcases List.mem_cons.mp hx with rfl | hx
        · simp
        · exact ih x (List.mem_cons_of_mem _ hx)

theorem runs_map (f : α → β) (brk : α → α → Bool) (brk' : β → β → Bool)
    (h : ∀ a b, brk' (f a) (f b) = brk a b) (l : List α) :
    runs brk' (l.map f) = (runs brk l).map (List.map f) := by
  induction l with
  | nil => simp [runs]
  | cons a rest ih =>
    cases rest with
    | nil => simp [runs]
    | cons b t =>
      obtain ⟨g, gs, h1, h2⟩ := runs_cons_cons brk a b t
      obtain ⟨g', gs', h1', h2'⟩ := runs_cons_cons brk' (f a) (f b) (t.map f)
      simp only [List.map_cons] at ih ⊢
      rw [h2', h2, h]
      rw [h1', h1] at ih
      simp only [List.map_cons, List.cons.injEq] at ih
      obtain ⟨hg, hgs⟩ := ih
      split <;> simp [hg, hgs]

-- ------------------------------------------------------------------ tagging

theorem enumFrom_map (f : α → β) (i : Nat) (l : List α) :
    enumFrom i (l.map f) = (enumFrom i l).map (fun p => (p.1, f p.2)) := by
  induction l generalizing i with
  | nil => simp [enumFrom]
  | cons a as ih => simp [enumFrom, ih]

theorem enumFrom_map_fst (i : Nat) (l : List α) : (enumFrom i l).map Prod.fst = List.range' i l.length := by
  induction l generalizing i with
  | nil => simp [enumFrom]
  | cons a as ih => simp [enumFrom, ih, List.range'_succ]

theorem enumFrom_length (i : Nat) (l : List α) : (enumFrom i l).length = l.length := by
  induction l generalizing i with
  | nil => simp [enumFrom]
  | cons a as ih => simp [enumFrom, ih]

theorem mem_enumFrom (i : Nat) (l : List α) (k : Nat) (hk : k < l.length) : (i + k, l[k]) ∈ enumFrom i l := by
  induction l generalizing i k with
  | nil => simp at hk
  | cons a as ih =>
    cases k with
    | zero => simp [enumFrom]
    | succ k =>
      simp only [enumFrom, List.getElem_cons_succ, List.mem_cons]
      right
      have := ih (i + 1) k (by simpa using hk)
      have e : i + 1 + k = i + (k + 1) := by omega
      rw [e] at this
      exact this

/-- zipping a list with a second list is a map over the tagged list, the second list read by index -/
theorem enumFrom_zipWith (f : α → β → γ) (i : Nat) (l : List α) (m : List β) (G : Nat → β)
    (hlen : l.length = m.length) (hG : ∀ k (hk : k < m.length), G (i + k) = m[k]) :
    enumFrom i (List.zipWith f l m) = (enumFrom i l).map (fun p => (p.1, f p.2 (G p.1))) := by
  induction l generalizing i m with
  | nil => simp [enumFrom]
  | cons a as ih =>
    cases m with
    | nil => simp at hlen
    | cons b bs =>
      simp only [List.zipWith_cons_cons, enumFrom, List.map_cons, List.cons.injEq, Prod.mk.injEq, true_and]
      constructor
      · have := hG 0 (by simp)
        simp at this
        rw [this]
      · apply ih (i + 1) bs (by simpa using hlen)
        intro k hk
        have := hG (k + 1) (by simpa using hk)
        simp only [List.getElem_cons_succ] at this
        rw [← this]
        congr 1
        omega

-- ------------------------------------------------------------------ grouping

/-- the grouping only looks at the keys: it commutes with any re-labelling of the tagged notes
    that preserves the keys -/
theorem groupsBy_tagged (key : α → Rat) (key' : β → Rat) (l : List α) (l' : List β)
    (φ : Nat × α → Nat × β) (hE : enumFrom 0 l' = (enumFrom 0 l).map φ)
    (hk : ∀ p, key' (φ p).2 = key p.2) :
    groupsBy key' l' = (groupsBy key l).map (List.map φ) := by
  unfold groupsBy
  rw [hE]
  rw [isort_map φ (fun a b => decide (key a.2 ≤ key b.2)) (fun a b => decide (key' a.2 ≤ key' b.2))
    (by intro a b; simp [hk])]
  rw [runs_map φ (fun a b => decide (key b.2 - key a.2 > eps)) (fun a b => decide (key' b.2 - key' a.2 > eps))
    (by intro a b; simp [hk])]

theorem groupsBy_flatten_perm (key : α → Rat) (l : List α) : (groupsBy key l).flatten.Perm (enumFrom 0 l) := by
  unfold groupsBy
  rw [runs_flatten]
  exact perm_isort _ _

theorem groupsBy_ne_nil (key : α → Rat) (l : List α) : ∀ g ∈ groupsBy key l, g ≠ [] := by
  unfold groupsBy
  exact runs_ne_nil _ _

theorem groupsBy_ne_nil_of_ne_nil (key : α → Rat) (l : List α) (h : l ≠ []) : groupsBy key l ≠ [] := by
  intro h0
  have := groupsBy_flatten_perm key l
  rw [h0] at this
  simp only [List.flatten_nil] at this
  have := this.length_eq
  simp [enumFrom_length] at this
  exact h (List.length_eq_zero_iff.mp this.symm)

-- ------------------------------------------------------------------ scatter

theorem allSome_eq_some (l : List (Option β)) (ys : List β) : allSome l = some ys ↔ l = ys.map some := by
  induction l generalizing ys with
  | nil =>
    simp only [allSome, Option.some.injEq]
    constructor
    · intro h; subst h; rfl
    · intro h
      cases ys with
      | nil => rfl
      | cons y ys => simp at h
  | cons o rest ih =>
    cases o with
    | none =>
      simp only [allSome]
      constructor
      · intro h; cases h
      · intro h
        cases ys with
        | nil => simp at h
        | cons y ys => simp at h
    | some b =>
      simp only [allSome, Option.map_eq_some_iff]
      constructor
      · rintro ⟨zs, hz, rfl⟩
        simp [(ih zs).mp hz]
      · intro h
        cases ys with
        | nil => simp at h
        | cons y ys =>
          simp only [List.map_cons, List.cons.injEq, Option.some.injEq] at h
          exact ⟨ys, (ih ys).mpr h.2, by rw [h.1]⟩

theorem lookup_mem_nodup (T : List (Nat × β)) (hnd : (T.map Prod.fst).Nodup) (i : Nat) (v : β)
    (h : (i, v) ∈ T) : lookup i T = some v := by
  induction T with
  | nil => simp at h
  | cons p rest ih =>
    obtain ⟨a, b⟩ := p
    simp only [List.map_cons, List.nodup_cons] at hnd
    simp only [lookup]
    rcases List.mem_cons.mp h with heq | hmem
    · cases heq
      simp
    · have : a ≠ i := by
        intro e
        subst e
        exact hnd.1 (List.mem_map.mpr ⟨(a, v), hmem, rfl⟩)
      simp only [this, if_false]
      exact ih hnd.2 hmem

/-- scattering any permutation of a tagged list gives the list back -/
theorem scatter_perm (xs : List β) (T : List (Nat × β)) (h : T.Perm (enumFrom 0 xs)) :
    scatter xs.length T = some xs := by
  unfold scatter
  rw [allSome_eq_some]
  have hnd : (T.map Prod.fst).Nodup := by
    have := (h.map Prod.fst).nodup_iff
    rw [this, enumFrom_map_fst]
    exact List.nodup_range'
  apply List.ext_getElem
  · simp
  · intro k h1 h2
    simp only [List.getElem_map, List.getElem_range]
    have hk : k < xs.length := by simpa using h1
    apply lookup_mem_nodup T hnd
    have := mem_enumFrom 0 xs k hk
    rw [Nat.zero_add] at this
    exact h.mem_iff.mpr this

/-- scattering a list whose tags are a permutation of `0..n-1`: every tagged value lands at its index -/
theorem scatter_exists (n : Nat) (T : List (Nat × β)) (h : (T.map Prod.fst).Perm (List.range n)) :
    ∃ ps, scatter n T = some ps ∧ ps.length = n ∧ ∀ i v, (i, v) ∈ T → ps[i]? = some v := by
  have hnd : (T.map Prod.fst).Nodup := h.nodup_iff.mpr List.nodup_range
  have hall : ∀ i, i < n → ∃ v, (i, v) ∈ T := by
    intro i hi
    have : i ∈ T.map Prod.fst := h.mem_iff.mpr (List.mem_range.mpr hi)
    obtain ⟨p, hp, rfl⟩ := List.mem_map.mp this
    exact ⟨p.2, hp⟩
  -- the list of looked-up values
  have hsome : ∀ k (hk : k < n), ∃ v, lookup k T = some v ∧ (k, v) ∈ T := by
    intro k hk
    obtain ⟨v, hv⟩ := hall k hk
    exact ⟨v, lookup_mem_nodup T hnd k v hv, hv⟩
  have key : ∀ m, m ≤ n → ∃ ps : List β, (List.range m).map (fun i => lookup i T) = ps.map some := by
    intro m
    induction m with
    | zero => intro _; exact ⟨[], by simp⟩
    | succ m ih =>
      intro hm
      obtain ⟨ps, hps⟩ := ih (by omega)
      obtain ⟨v, hv, _⟩ := hsome m (by omega)
      refine ⟨ps ++ [v], ?_⟩
      rw [List.range_succ, List.map_append, hps]
      simp [hv]
  obtain ⟨ps, hps⟩ := key n (le_refl n)
  have hlen : ps.length = n := by
    have := congrArg List.length hps
    simpa using this.symm
  refine ⟨ps, ?_, hlen, ?_⟩
  · unfold scatter
    rw [allSome_eq_some]
    exact hps
  · intro i v hv
    have hi : i < n := by
      have : i ∈ T.map Prod.fst := List.mem_map.mpr ⟨(i, v), hv, rfl⟩
      exact List.mem_range.mp (h.mem_iff.mp this)
    have h1 := lookup_mem_nodup T hnd i v hv
    have h2 : ((List.range n).map (fun i => lookup i T))[i]? = (ps.map some)[i]? := by rw [hps]
    simp only [List.getElem?_map] at h2
    rw [List.getElem?_range hi] at h2
    simp only [Option.map_some, h1] at h2
    cases hp : ps[i]? with
    | none => rw [hp] at h2; simp at h2
    | some w => rw [hp] at h2; simp at h2; rw [h2]

end C18P
