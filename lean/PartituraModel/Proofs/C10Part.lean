/-
Helper lemmas for Props/C10Part.lean (round 2): the maps of Model/StepMapPart.lean.
-/
import PartituraModel.Model.StepMapPart
import PartituraModel.Proofs.C10
import PartituraModel.Props.C02

namespace C10
open Model Model.StepMap

/-! ### time signatures with stored musical beats -/

/-- the time signatures as a table keyed by start time (for `SortedLT` / `InForce`) -/
def tsTbl (ts : List TimeMap.TSig) : Tbl TimeMap.TSig := ts.map fun s => (s.t, s)

theorem tsRowsE_eq (ts : List TimeMap.TSig) :
    tsRowsE ts = mapVal (fun s : TimeMap.TSig => (s.beats, s.beatType, s.mb)) (tsTbl ts) := by
  unfold tsRowsE tsTbl mapVal
  rw [List.map_map]
  rfl

theorem tsTableOf_of_ne_nil (span : Span) (rows : Tbl TSv) (h : rows ≠ []) :
    tsTableOf span rows = backfill span (dupSingle rows) := by
  unfold tsTableOf dupSingle
  cases rows with
  | nil => exact absurd rfl h
  | cons a rest => cases rest <;> rfl

theorem tsMapE_eq_lookupPrev (f l x : Int) (ts : List TimeMap.TSig) (h : ts ≠ []) (hx : f ≤ x) :
    tsMapE (some (f, l)) ts x = lookupPrev (tsRowsE ts) x := by
  unfold tsMapE
  have hne : tsRowsE ts ≠ [] := by
    cases ts with
    | nil => exact absurd rfl h
    | cons a b => simp [tsRowsE]
  rw [tsTableOf_of_ne_nil _ _ hne, interpPrev_backfill _ f l x (dupSingle_ne_nil _ hne) hx, lookupPrev_dupSingle]

/-- the old table (default musical beats) is the new one on the rows with the default table -/
theorem tsTable_eq_tableOf (span : Span) (tss : List (Int × Nat × Nat)) :
    tsTable span tss = tsTableOf span (tsRows tss) := rfl

theorem tsMapE_default (span : Span) (x : Int) (hx : (spanOrZero span).1 ≤ x) :
    tsMapE span [] x = some (4, 4, 4) := by
  have := tsMap_default span x hx
  unfold tsMap at this
  rw [tsTable_eq_tableOf] at this
  exact this

/-! ### the executable sortedness check -/

theorem sortedTimes_iff : ∀ l : List Int, sortedTimes l = true ↔ l.Pairwise (· ≤ ·)
  | [] => by simp [sortedTimes]
  | [a] => by simp [sortedTimes]
  | a :: b :: rest => by
    have ih := sortedTimes_iff (b :: rest)
    simp only [sortedTimes, Bool.and_eq_true, decide_eq_true_eq, ih]
    constructor
    · rintro ⟨hab, hp⟩
      rw [List.pairwise_cons]
      refine ⟨?_, hp⟩
      intro c hc
      rcases List.mem_cons.mp hc with rfl | hc'
      · exact hab
      · have := (List.pairwise_cons.mp hp).1 c hc'
        omega
    · intro hp
      rw [List.pairwise_cons] at hp
      exact ⟨hp.1 b List.mem_cons_self, hp.2⟩

/-! ### the measure tables for arbitrary `beats_per_bar`, `divs_per_beat` -/

theorem measureTbl_tiles (span : Span) (ms : List (Int × Int)) (b d : Option Rat)
    (x : Int) (ht : Ordered ms) (i : Nat) (s e : Int) (hi : ms[i]? = some (s, e)) (hs : s ≤ x) (he : x < e) :
    interpPrev (measureTable span ms b d) x = (corrected ms b d)[i]? := by
  have hne : ms ≠ [] := by intro h; rw [h] at hi; simp at hi
  rw [measureTable_eq _ _ _ _ hne, map_self_eq_zip]
  obtain ⟨hg, hle⟩ := corrected_get ms b d i s e hi
  have := tiles_lastLE_zip (corrected ms b d) (corrected ms b d) x
    (ordered_corrected _ _ _ ht) rfl i _ e hg (by omega) he
  rw [hg] at this ⊢
  exact interpPrev_of_some _ x _ this

theorem measureNumberTbl_tiles (span : Span) (ms : List (Int × Int × Option Int)) (b d : Option Rat)
    (x : Int) (ht : Ordered (strip ms)) (filled : List Int)
    (hf : allSome (fillNumbers (ms.map (·.2.2))) = some filled)
    (i : Nat) (s e n : Int) (hi : ms[i]? = some (s, e, some n)) (hs : s ≤ x) (he : x < e) :
    (measureNumberTable span ms b d).map (fun tbl => interpPrev tbl x) = some (some n) := by
  cases ms with
  | nil => simp at hi
  | cons a rest =>
    obtain ⟨s0, e0, n0⟩ := a
    unfold measureNumberTable
    simp only [hf, Option.map_some, Option.some.injEq]
    have hstarts : pickupStart s0 e0 b d :: rest.map (·.1)
        = (corrected (strip ((s0, e0, n0) :: rest)) b d).map (·.1) := by
      simp [strip, corrected, List.map_map, Function.comp_def]
    rw [hstarts]
    have hi' : (strip ((s0, e0, n0) :: rest))[i]? = some (s, e) := by
      unfold strip; rw [List.getElem?_map, hi]; rfl
    obtain ⟨hg, hle⟩ := corrected_get _ b d i s e hi'
    have hlen : filled.length = (corrected (strip ((s0, e0, n0) :: rest)) b d).length := by
      rw [corrected_length, allSome_length _ _ hf, fillNumbers_length]; simp [strip]
    have := tiles_lastLE_zip _ filled x (ordered_corrected _ b d ht) hlen i _ e hg (by omega) he
    have hfi : filled[i]? = some n := by
      apply allSome_get _ _ hf i n
      apply fillNumbers_get
      rw [List.getElem?_map, hi]; rfl
    rw [hfi] at this
    exact interpPrev_of_some _ x _ this

theorem barLookupsTbl_tiles (span : Span) (ms : List (Int × Int)) (b d : Option Rat) (ht : Ordered ms) :
    barLookups (measureTable span ms b d) ms = some (corrected ms b d) := by
  apply barLookups_eq _ _ _ (corrected_length _ _ _)
  intro j m hm
  obtain ⟨s, e⟩ := m
  have hlt : s < e := ht.mem_lt (s, e) (List.mem_of_getElem? hm)
  obtain ⟨hg, _⟩ := corrected_get ms b d j s e hm
  refine ⟨_, hg, ?_⟩
  have := measureTbl_tiles span ms b d s ht j s e hm (Int.le_refl _) hlt
  rw [hg] at this
  exact this

theorem metricalTbl_tiles (span : Span) (ms : List (Int × Int)) (b d : Option Rat)
    (x : Int) (ht : Tiles ms) (i : Nat) (s e : Int) (hi : ms[i]? = some (s, e)) (hs : s ≤ x) (he : x < e) :
    metricalFromTable (measureTable span ms b d) ms x
      = some (x - (if i = 0 then pickupStart s e b d else s), some (e - (if i = 0 then pickupStart s e b d else s))) := by
  unfold metricalFromTable
  rw [barLookupsTbl_tiles span ms b d ht.ordered]
  obtain ⟨hg, hle⟩ := corrected_get ms b d i s e hi
  exact metricalOfBars_tiles _ x (tiles_corrected _ _ _ ht) i _ e hg (by omega) he

theorem metricalTbl_ordered (span : Span) (ms : List (Int × Int)) (b d : Option Rat)
    (x : Int) (ht : Ordered ms) (i : Nat) (s e : Int) (hi : ms[i]? = some (s, e)) (hs : s ≤ x) (he : x < e) :
    (metricalFromTable (measureTable span ms b d) ms x).map (·.1)
      = some (x - (if i = 0 then pickupStart s e b d else s)) := by
  unfold metricalFromTable
  rw [barLookupsTbl_tiles span ms b d ht]
  obtain ⟨hg, hle⟩ := corrected_get ms b d i s e hi
  exact metricalOfBars_ordered _ x (ordered_corrected _ _ _ ht) i _ e hg (by omega) he

/-- `bars` of a description are the measures without their numbers -/
theorem bars_eq_strip (p : PartD) : bars p = strip p.ms := rfl

/-! ### `divs_per_beat` through the beat maps of C02 -/

/-- the value in force at a time where something is assigned is that assignment -/
theorem inforce_at_assigned (assign : List (Int × Rat)) (dflt : Rat) (t : Int) (v w : Rat)
    (h : C02Proofs.InForce assign dflt t v) (ha : TimeMap.lastAssoc assign t = some w) : v = w := by
  rcases h with ⟨s, hst, hv, hnone⟩ | ⟨_, hnone⟩
  · rcases Int.lt_or_eq_of_le hst with hlt | heq
    · have := hnone t hlt (Int.le_refl _)
      rw [ha] at this; cases this
    · subst heq
      rw [ha] at hv
      injection hv with hv
      exact hv.symm
  · have := hnone t (Int.le_refl _)
    rw [ha] at this; cases this

theorem lastAssoc_none_of_not_key {α : Type} (l : List (Int × α)) (t : Int) (h : t ∉ l.map (·.1)) :
    TimeMap.lastAssoc l t = none := by
  cases hv : TimeMap.lastAssoc l t with
  | none => rfl
  | some v => exact absurd (C02Proofs.lastAssoc_key_mem l t (by rw [hv]; simp)) h

/-- the factor assigned at time 0 when the first signature starts there and the others later -/
theorem facAssign_at_zero (m : TimeMap.Mode) (hm : m ≠ .quarter) (s0 : TimeMap.TSig) (rest : List TimeMap.TSig)
    (hs0 : s0.t = 0) (hlater : ∀ s ∈ rest, 0 < s.t) :
    TimeMap.lastAssoc (TimeMap.facAssign m (s0 :: rest)) 0 = some (TimeMap.factorOf m s0) := by
  have hrest : TimeMap.lastAssoc (TimeMap.facAssign m rest) 0 = none := by
    apply lastAssoc_none_of_not_key
    intro hmem
    obtain ⟨e, he, he0⟩ := List.mem_map.mp hmem
    cases m with
    | quarter => exact hm rfl
    | notated =>
      simp only [TimeMap.facAssign] at he
      obtain ⟨s, hs, rfl⟩ := List.mem_map.mp he
      have := hlater s hs
      simp only at he0
      omega
    | musical =>
      simp only [TimeMap.facAssign] at he
      obtain ⟨s, hs, rfl⟩ := List.mem_map.mp he
      have := hlater s hs
      simp only at he0
      omega
  cases m with
  | quarter => exact absurd rfl hm
  | notated =>
    simp only [TimeMap.facAssign] at hrest ⊢
    simp only [List.map_cons, TimeMap.lastAssoc, hrest, hs0, if_true]
  | musical =>
    simp only [TimeMap.facAssign] at hrest ⊢
    simp only [List.map_cons, TimeMap.lastAssoc, hrest, hs0, if_true]

theorem beatMode_ne_quarter (tp : TimeMap.Part) : TimeMap.beatMode tp ≠ .quarter := by
  unfold TimeMap.beatMode
  split <;> simp

/-- `divs_per_beat` is the position one beat after position 0 -/
theorem divsPerBeat_fwd (p : PartD) (h : C02Proofs.WF (timePart p) (TimeMap.beatMode (timePart p))) (b0 d : Rat)
    (h0 : TimeMap.beatMap (timePart p) 0 = some b0) (hd : divsPerBeat p = some d) :
    TimeMap.beatMap (timePart p) d = some (b0 + 1) := by
  unfold divsPerBeat at hd
  rw [h0] at hd
  simp only [Option.bind_some] at hd
  have := C02.fwd_inv _ _ h d (1 + b0) hd
  rw [add_comm]
  exact this

/-- closed form when the first stretch of the beat map (from key point `k` at time 0 to the next key point `k'`)
    is at least one beat long -/
theorem divsPerBeat_closed (p : PartD) (h : C02Proofs.WF (timePart p) (TimeMap.beatMode (timePart p)))
    (k k' : TimeMap.KP) (post : List TimeMap.KP)
    (hk : TimeMap.keypoints (timePart p) (TimeMap.beatMode (timePart p)) = k :: k' :: post)
    (hk0 : k.t = 0) (hreach : k.divs / k.fac ≤ (k'.t : Rat)) :
    divsPerBeat p = some (k.divs / k.fac) := by
  have hkm : k ∈ TimeMap.keypoints (timePart p) (TimeMap.beatMode (timePart p)) := by rw [hk]; simp
  obtain ⟨hd, hf⟩ := (C02Proofs.keypoints_ok _ _ h).1.2 k hkm
  have hpos : (0 : Rat) ≤ k.divs / k.fac := div_nonneg (le_of_lt hd) (le_of_lt hf)
  have hkt : ((k.t : Int) : Rat) = 0 := by rw [hk0]; simp
  obtain ⟨yk, h1, h2⟩ := C02.fwd_segment _ _ h [] post k k' (by simpa using hk) (k.divs / k.fac)
    (by rw [hkt]; exact hpos) hreach
  rw [hkt] at h1 h2
  have e : yk + (k.divs / k.fac - 0) * (k.fac / k.divs) = 1 + yk := by
    have h1' : k.divs ≠ 0 := ne_of_gt hd
    have h2' : k.fac ≠ 0 := ne_of_gt hf
    field_simp
    ring
  rw [e] at h2
  unfold divsPerBeat
  show (TimeMap.fwd (timePart p) (TimeMap.beatMode (timePart p)) 0).bind _ = _
  rw [h1]
  simp only [Option.bind_some]
  exact C02.inv_fwd _ _ h _ _ h2

theorem beatsPerBar_simple (p : PartD) (l : Int) (s0 : TimeMap.TSig) (rest : List TimeMap.TSig)
    (hspan : p.span = some (0, l)) (hts : p.ts = s0 :: rest) (hs0 : s0.t = 0) (hlater : ∀ s ∈ rest, 0 < s.t) :
    beatsPerBar p = some (if p.musical then (s0.mb : Rat) else (s0.beats : Rat)) := by
  unfold beatsPerBar
  rw [hspan, hts, tsMapE_eq_lookupPrev 0 l 0 _ (by simp) (Int.le_refl _)]
  have : lookupPrev (tsRowsE (s0 :: rest)) 0 = some (s0.beats, s0.beatType, s0.mb) := by
    unfold tsRowsE
    rw [List.map_cons]
    apply lookupPrev_of_some
    rw [lastLE_cons_of_le _ _ _ 0 (by omega)]
    have hn : lastLE (rest.map fun s => (s.t, (s.beats, s.beatType, s.mb))) 0 = none := by
      cases rest with
      | nil => rfl
      | cons a r =>
        rw [List.map_cons]
        exact lastLE_cons_of_lt _ _ _ 0 (hlater a List.mem_cons_self)
    rw [hn]
    rfl
  rw [this]
  rfl


theorem length_filterMap_of_isSome {β γ : Type} (f : β → Option γ) :
    ∀ l : List β, (∀ a ∈ l, (f a).isSome) → (l.filterMap f).length = l.length
  | [], _ => rfl
  | a :: rest, h => by
    have ha := h a List.mem_cons_self
    obtain ⟨b, hb⟩ := Option.isSome_iff_exists.mp ha
    rw [List.filterMap_cons_some hb, List.length_cons, List.length_cons,
      length_filterMap_of_isSome f rest (fun a' ha' => h a' (List.mem_cons_of_mem _ ha'))]

end C10
