/-
C02 helper lemmas (round 3): call histories of `set_quarter_duration` in any order of times.

* what `inForceR` picks (`inForceR_spec`, `inForceR_first`, `inForceR_of_split`);
* the structure of one call of the list surgery (`setQDAux_struct`): an entry stored at `t` is replaced and the
  times stay as they are; without an entry at `t` the call is dropped when the value stored just before `t`
  (`prevOf`) is the new one, else exactly the time `t` is added.
-/
import PartituraModel.Model.TimeMapCalls
import PartituraModel.Proofs.C02QDLaw

namespace C02Proofs
open Model.TimeMap

-- ------------------------------------------------------------------ inForceR

/-- `inForceR` answers `none` only when no call lies at or before `x`; otherwise a call of the list, at or
before `x`, whose time is the greatest such -/
theorem inForceR_spec (x : Rat) : ∀ (l : List (Int × Nat)),
    (inForceR l x = none → ∀ c ∈ l, ¬ ((c.1 : Rat) ≤ x)) ∧
    (∀ b, inForceR l x = some b → b ∈ l ∧ (b.1 : Rat) ≤ x ∧ ∀ c ∈ l, (c.1 : Rat) ≤ x → c.1 ≤ b.1)
  | [] => by
    refine ⟨fun _ c hc => by simp at hc, fun b hb => ?_⟩
    simp [inForceR] at hb
  | c :: h => by
    obtain ⟨ihn, ihs⟩ := inForceR_spec x h
    cases hh : inForceR h x with
    | none =>
      have hn := ihn hh
      by_cases hc : (c.1 : Rat) ≤ x
      · have e : inForceR (c :: h) x = some c := by simp only [inForceR, hh, if_pos hc]
        refine ⟨fun h0 => (by rw [e] at h0; cases h0), fun b hb => ?_⟩
        rw [e] at hb
        cases hb
        refine ⟨List.mem_cons_self, hc, fun d hd hdx => ?_⟩
        rcases List.mem_cons.mp hd with hd | hd
        · rw [hd]
        · exact absurd hdx (hn d hd)
      · have e : inForceR (c :: h) x = none := by simp only [inForceR, hh, if_neg hc]
        refine ⟨fun _ d hd => ?_, fun b hb => by rw [e] at hb; cases hb⟩
        rcases List.mem_cons.mp hd with hd | hd
        · rw [hd]; exact hc
        · exact hn d hd
    | some b' =>
      obtain ⟨hbm, hbx, hbmax⟩ := ihs b' hh
      by_cases hc : (c.1 : Rat) ≤ x ∧ b'.1 ≤ c.1
      · have e : inForceR (c :: h) x = some c := by simp only [inForceR, hh, if_pos hc]
        refine ⟨fun h0 => (by rw [e] at h0; cases h0), fun b hb => ?_⟩
        rw [e] at hb
        cases hb
        refine ⟨List.mem_cons_self, hc.1, fun d hd hdx => ?_⟩
        rcases List.mem_cons.mp hd with hd | hd
        · rw [hd]
        · have := hbmax d hd hdx; omega
      · have e : inForceR (c :: h) x = some b' := by simp only [inForceR, hh, if_neg hc]
        refine ⟨fun h0 => (by rw [e] at h0; cases h0), fun b hb => ?_⟩
        rw [e] at hb
        cases hb
        refine ⟨List.mem_cons_of_mem _ hbm, hbx, fun d hd hdx => ?_⟩
        rcases List.mem_cons.mp hd with hd | hd
        · subst hd
          by_contra hlt
          exact hc ⟨hdx, by omega⟩
        · exact hbmax d hd hdx

theorem inForceR_none_iff (x : Rat) (l : List (Int × Nat)) :
    inForceR l x = none ↔ ∀ c ∈ l, ¬ ((c.1 : Rat) ≤ x) := by
  constructor
  · exact (inForceR_spec x l).1
  · intro h
    cases hb : inForceR l x with
    | none => rfl
    | some b =>
      obtain ⟨hm, hx, _⟩ := (inForceR_spec x l).2 b hb
      exact absurd hx (h b hm)

/-- the call picked is the MOST RECENT one with its time: nothing before it in the list has the same time -/
theorem inForceR_first (x : Rat) : ∀ (l : List (Int × Nat)) (b : Int × Nat), inForceR l x = some b →
    ∃ pre post, l = pre ++ b :: post ∧ ∀ c ∈ pre, c.1 ≠ b.1
  | [], b, hb => by simp [inForceR] at hb
  | c :: h, b, hb => by
    cases hh : inForceR h x with
    | none =>
      by_cases hc : (c.1 : Rat) ≤ x
      · have e : inForceR (c :: h) x = some c := by simp only [inForceR, hh, if_pos hc]
        rw [e] at hb; cases hb
        exact ⟨[], h, rfl, fun d hd => by simp at hd⟩
      · have e : inForceR (c :: h) x = none := by simp only [inForceR, hh, if_neg hc]
        rw [e] at hb; cases hb
    | some b' =>
      by_cases hc : (c.1 : Rat) ≤ x ∧ b'.1 ≤ c.1
      · have e : inForceR (c :: h) x = some c := by simp only [inForceR, hh, if_pos hc]
        rw [e] at hb; cases hb
        exact ⟨[], h, rfl, fun d hd => by simp at hd⟩
      · have e : inForceR (c :: h) x = some b' := by simp only [inForceR, hh, if_neg hc]
        rw [e] at hb; cases hb
        obtain ⟨pre, post, hl, hpre⟩ := inForceR_first x h b hh
        obtain ⟨_, hbx, _⟩ := (inForceR_spec x h).2 b hh
        refine ⟨c :: pre, post, by rw [hl]; rfl, fun d hd => ?_⟩
        rcases List.mem_cons.mp hd with hd | hd
        · rw [hd]
          intro heq
          apply hc
          rw [heq]
          exact ⟨hbx, le_refl _⟩
        · exact hpre d hd

/-- conversely: a call at or before `x` such that everything more recent that lies at or before `x` is
strictly earlier, and everything older that lies at or before `x` is not later, is the one picked -/
theorem inForceR_of_split (x : Rat) (b : Int × Nat) (post : List (Int × Nat)) (hbx : (b.1 : Rat) ≤ x)
    (hpost : ∀ c ∈ post, (c.1 : Rat) ≤ x → c.1 ≤ b.1) : ∀ (pre : List (Int × Nat)),
    (∀ c ∈ pre, (c.1 : Rat) ≤ x → c.1 < b.1) → inForceR (pre ++ b :: post) x = some b
  | [], _ => by
    cases hh : inForceR post x with
    | none => simp only [List.nil_append, inForceR, hh, if_pos hbx]
    | some b' =>
      obtain ⟨hm, hx, _⟩ := (inForceR_spec x post).2 b' hh
      have := hpost b' hm hx
      simp only [List.nil_append, inForceR, hh, if_pos (And.intro hbx this)]
  | a :: pre, hpre => by
    have ih := inForceR_of_split x b post hbx hpost pre (fun c hc => hpre c (List.mem_cons_of_mem _ hc))
    have hne : ¬ ((a.1 : Rat) ≤ x ∧ b.1 ≤ a.1) := by
      intro h
      have := hpre a List.mem_cons_self h.1
      omega
    simp only [List.cons_append, inForceR, ih, if_neg hne]

-- ------------------------------------------------------------------ one call of the list surgery

/-- the value stored just before time `t` (`quarters[i-1]` for `i = searchsorted(times, t)`), `p` when no
entry lies before `t` -/
def prevOf : Option Nat → List (Int × Nat) → Int → Option Nat
  | p, [], _ => p
  | p, (t0, q0) :: r, t => if t0 < t then prevOf (some q0) r t else p

theorem cast_le_pred (t0 t : Int) : ((t0 : Rat) ≤ (t : Rat) - 1) ↔ t0 < t := by
  constructor
  · intro h
    have h' : ((t0 : Int) : Rat) ≤ ((t - 1 : Int) : Rat) := by push_cast; exact h
    have : t0 ≤ t - 1 := by exact_mod_cast h'
    omega
  · intro h
    have : t0 ≤ t - 1 := by omega
    have h' : ((t0 : Int) : Rat) ≤ ((t - 1 : Int) : Rat) := by exact_mod_cast this
    push_cast at h'
    exact h'

/-- it is the value `quarter_duration_map` returns at `t - 1` -/
theorem prevOf_eq (t : Int) : ∀ (l : List (Int × Nat)) (cur : Nat),
    prevOf (some cur) l t = some (prevValue cur l ((t : Rat) - 1))
  | [], _ => rfl
  | (t0, q0) :: r, cur => by
    unfold prevOf prevValue
    by_cases h : t0 < t
    · rw [if_pos h, if_pos ((cast_le_pred t0 t).mpr h)]
      exact prevOf_eq t r q0
    · rw [if_neg h, if_neg (fun h' => h ((cast_le_pred t0 t).mp h'))]

theorem setQDAux_struct (t : Int) (q : Nat) : ∀ (l : List (Int × Nat)) (prev : Option Nat),
    (l.map (·.1)).Pairwise (· < ·) →
    (t ∈ l.map (·.1) → (setQDAux t q prev l).map (·.1) = l.map (·.1)) ∧
    (t ∉ l.map (·.1) → prevOf prev l t = some q → setQDAux t q prev l = l) ∧
    (t ∉ l.map (·.1) → prevOf prev l t ≠ some q →
      ∀ u, u ∈ (setQDAux t q prev l).map (·.1) ↔ u = t ∨ u ∈ l.map (·.1))
  | [], prev, _ => by
    refine ⟨fun h => by simp at h, fun _ hp => ?_, fun _ hp u => ?_⟩
    · simp only [prevOf] at hp
      simp only [setQDAux, if_pos hp]
    · simp only [prevOf] at hp
      simp only [setQDAux, if_neg hp, List.map_cons, List.map_nil, List.mem_singleton, List.not_mem_nil, or_false]
  | (t0, q0) :: rest, prev, hp => by
    have hp' := List.pairwise_cons.mp (by simpa using hp : (t0 :: rest.map (·.1)).Pairwise (· < ·))
    obtain ⟨ih1, ih2, ih3⟩ := setQDAux_struct t q rest (some q0) hp'.2
    by_cases h1 : t0 < t
    · have e : setQDAux t q prev ((t0, q0) :: rest) = (t0, q0) :: setQDAux t q (some q0) rest := by
        simp only [setQDAux, if_pos h1]
      have ep : prevOf prev ((t0, q0) :: rest) t = prevOf (some q0) rest t := by
        simp only [prevOf, if_pos h1]
      have hmem : t ∈ ((t0, q0) :: rest).map (·.1) ↔ t ∈ rest.map (·.1) := by
        simp only [List.map_cons, List.mem_cons]
        constructor
        · rintro (h | h)
          · omega
          · exact h
        · exact Or.inr
      rw [e, ep]
      refine ⟨fun h => ?_, fun h hq => ?_, fun h hq u => ?_⟩
      · simp only [List.map_cons, ih1 (hmem.mp h)]
      · rw [ih2 (fun h' => h (hmem.mpr h')) hq]
      · have := ih3 (fun h' => h (hmem.mpr h')) hq u
        simp only [List.map_cons, List.mem_cons, this]
        constructor
        · rintro (h | h | h)
          · exact Or.inr (Or.inl h)
          · exact Or.inl h
          · exact Or.inr (Or.inr h)
        · rintro (h | h | h)
          · exact Or.inr (Or.inl h)
          · exact Or.inl h
          · exact Or.inr (Or.inr h)
    · by_cases h2 : t0 = t
      · have e : setQDAux t q prev ((t0, q0) :: rest) = (t0, q) :: rest := by
          simp only [setQDAux, if_neg h1, if_pos h2]
        have hin : t ∈ ((t0, q0) :: rest).map (·.1) := by
          simp only [List.map_cons, List.mem_cons]; exact Or.inl h2.symm
        rw [e]
        exact ⟨fun _ => rfl, fun h => absurd hin h, fun h => absurd hin h⟩
      · have h3 : t < t0 := by omega
        have ep : prevOf prev ((t0, q0) :: rest) t = prev := by simp only [prevOf, if_neg h1]
        have hnot : t ∉ ((t0, q0) :: rest).map (·.1) := by
          simp only [List.map_cons, List.mem_cons]
          rintro (h | h)
          · omega
          · have := hp'.1 t h; omega
        rw [ep]
        refine ⟨fun h => absurd h hnot, fun _ hq => ?_, fun _ hq u => ?_⟩
        · simp only [setQDAux, if_neg h1, if_neg h2, if_pos hq]
        · simp only [setQDAux, if_neg h1, if_neg h2, if_neg hq, List.map_cons, List.mem_cons]

end C02Proofs
