/-
C02 helper lemmas, part 2: the key-point construction of `_time_interpolator`
(sorted keys, carry-forward loop = "value in force", cumulative knots form a strictly
increasing chain when all divisions and factors are positive).
-/
import PartituraModel.Proofs.C02Interp

namespace C02Proofs
open Model.TimeMap

-- ------------------------------------------------------------------ sorted keys

theorem mem_insertKey (x k : Int) : ∀ l : List Int, x ∈ insertKey k l ↔ x = k ∨ x ∈ l
  | [] => by simp [insertKey]
  | a :: as => by
    unfold insertKey
    by_cases h1 : k < a
    · rw [if_pos h1]; simp
    · rw [if_neg h1]
      by_cases h2 : k = a
      · rw [if_pos h2]; subst h2; simp
      · rw [if_neg h2]
        simp only [List.mem_cons, mem_insertKey x k as]
        tauto

theorem pairwise_insertKey (k : Int) : ∀ l : List Int, l.Pairwise (· < ·) → (insertKey k l).Pairwise (· < ·)
  | [], _ => by simp [insertKey]
  | a :: as, h => by
    rw [List.pairwise_cons] at h
    unfold insertKey
    by_cases h1 : k < a
    · rw [if_pos h1]
      rw [List.pairwise_cons]
      refine ⟨?_, List.pairwise_cons.mpr h⟩
      intro x hx
      rcases List.mem_cons.mp hx with hx | hx
      · subst hx; exact h1
      · exact lt_trans h1 (h.1 x hx)
    · rw [if_neg h1]
      by_cases h2 : k = a
      · rw [if_pos h2]; exact List.pairwise_cons.mpr h
      · rw [if_neg h2]
        rw [List.pairwise_cons]
        refine ⟨?_, pairwise_insertKey k as h.2⟩
        intro x hx
        rcases (mem_insertKey x k as).mp hx with hx | hx
        · subst hx; omega
        · exact h.1 x hx

theorem mem_sortedKeys (x : Int) : ∀ l : List Int, x ∈ sortedKeys l ↔ x ∈ l
  | [] => by simp [sortedKeys]
  | a :: as => by
    have ih := mem_sortedKeys x as
    unfold sortedKeys at ih ⊢
    rw [List.foldr_cons, mem_insertKey, ih]
    simp [eq_comm]

theorem pairwise_sortedKeys : ∀ l : List Int, (sortedKeys l).Pairwise (· < ·)
  | [] => by simp [sortedKeys]
  | a :: as => by
    have ih := pairwise_sortedKeys as
    unfold sortedKeys at ih ⊢
    rw [List.foldr_cons]
    exact pairwise_insertKey a _ ih

-- ------------------------------------------------------------------ lastAssoc

theorem lastAssoc_mem {α : Type} : ∀ (l : List (Int × α)) (t : Int) (v : α),
    lastAssoc l t = some v → (t, v) ∈ l
  | [], _, _, h => by simp [lastAssoc] at h
  | (k, w) :: rest, t, v, h => by
    unfold lastAssoc at h
    cases hr : lastAssoc rest t with
    | some u =>
      rw [hr] at h
      injection h with h
      subst h
      exact List.mem_cons_of_mem _ (lastAssoc_mem rest t u hr)
    | none =>
      rw [hr] at h
      by_cases hk : k = t
      · simp only [hk, if_true] at h
        injection h with h
        subst h; subst hk
        exact List.mem_cons_self
      · simp only [hk, if_false] at h
        cases h

theorem lastAssoc_key_mem {α : Type} (l : List (Int × α)) (t : Int) (h : lastAssoc l t ≠ none) :
    t ∈ l.map (·.1) := by
  cases hv : lastAssoc l t with
  | none => exact absurd hv h
  | some v => exact List.mem_map.mpr ⟨(t, v), lastAssoc_mem l t v hv, rfl⟩

-- ------------------------------------------------------------------ the carry loop, one component

/-- one component of the carry-forward loop -/
def carry1 (assign : List (Int × Rat)) : List Int → Rat → List (Int × Rat)
  | [], _ => []
  | t :: rest, cur =>
    let v := match lastAssoc assign t with | some q => q | none => cur
    (t, v) :: carry1 assign rest v

theorem carry_divs (qd fs : List (Int × Rat)) : ∀ (keys : List Int) (cd cb : Rat),
    (carry qd fs keys cd cb).map (fun k => (k.t, k.divs)) = carry1 qd keys cd
  | [], _, _ => rfl
  | t :: rest, cd, cb => by
    simp only [carry, carry1, List.map_cons]
    rw [carry_divs qd fs rest] <;> rfl

theorem carry_fac (qd fs : List (Int × Rat)) : ∀ (keys : List Int) (cd cb : Rat),
    (carry qd fs keys cd cb).map (fun k => (k.t, k.fac)) = carry1 fs keys cb
  | [], _, _ => rfl
  | t :: rest, cd, cb => by
    simp only [carry, carry1, List.map_cons]
    rw [carry_fac qd fs rest] <;> rfl

theorem carry_times (qd fs : List (Int × Rat)) : ∀ (keys : List Int) (cd cb : Rat),
    (carry qd fs keys cd cb).map (·.t) = keys
  | [], _, _ => rfl
  | t :: rest, cd, cb => by
    simp only [carry, List.map_cons]
    rw [carry_times qd fs rest]

/-- `v` is the value in force at `t`: the value assigned at the latest assignment time `≤ t`,
    or the default when nothing was assigned at or before `t` -/
def InForce (assign : List (Int × Rat)) (dflt : Rat) (t : Int) (v : Rat) : Prop :=
  (∃ s, s ≤ t ∧ lastAssoc assign s = some v ∧ ∀ s', s < s' → s' ≤ t → lastAssoc assign s' = none)
  ∨ (v = dflt ∧ ∀ s', s' ≤ t → lastAssoc assign s' = none)

theorem carry1_inforce (assign : List (Int × Rat)) (dflt : Rat) : ∀ (keys : List Int) (cur : Rat) (lo : Int),
    keys.Pairwise (· < ·) → (∀ k ∈ keys, lo ≤ k) →
    (∀ s, lo ≤ s → lastAssoc assign s ≠ none → s ∈ keys) →
    InForce assign dflt (lo - 1) cur →
    ∀ e ∈ carry1 assign keys cur, InForce assign dflt e.1 e.2
  | [], _, _, _, _, _, _ => by simp [carry1]
  | t :: rest, cur, lo, hp, hlo, hall, hinv => by
    rw [List.pairwise_cons] at hp
    have hlot : lo ≤ t := hlo t List.mem_cons_self
    -- nothing is assigned in [lo, t)
    have hgap : ∀ s', lo ≤ s' → s' < t → lastAssoc assign s' = none := by
      intro s' h1 h2
      by_contra hne
      rcases List.mem_cons.mp (hall s' h1 hne) with h | h
      · omega
      · have := hp.1 s' h; omega
    -- the value carried into `t` is in force just before `t`
    have hbefore : InForce assign dflt (t - 1) cur := by
      rcases hinv with ⟨s, hs, hv, hn⟩ | ⟨hd, hn⟩
      · refine Or.inl ⟨s, by omega, hv, ?_⟩
        intro s' h1 h2
        by_cases h3 : s' ≤ lo - 1
        · exact hn s' h1 h3
        · exact hgap s' (by omega) (by omega)
      · refine Or.inr ⟨hd, ?_⟩
        intro s' h2
        by_cases h3 : s' ≤ lo - 1
        · exact hn s' h3
        · exact hgap s' (by omega) (by omega)
    intro e he
    unfold carry1 at he
    -- the value at `t`
    have hat : InForce assign dflt t (match lastAssoc assign t with | some q => q | none => cur) := by
      cases hv : lastAssoc assign t with
      | some q =>
        exact Or.inl ⟨t, le_refl _, hv, by intro s' h1 h2; omega⟩
      | none =>
        rcases hbefore with ⟨s, hs, hv', hn⟩ | ⟨hd, hn⟩
        · refine Or.inl ⟨s, by omega, hv', ?_⟩
          intro s' h1 h2
          by_cases h3 : s' = t
          · subst h3; exact hv
          · exact hn s' h1 (by omega)
        · refine Or.inr ⟨hd, ?_⟩
          intro s' h2
          by_cases h3 : s' = t
          · subst h3; exact hv
          · exact hn s' (by omega)
    rcases List.mem_cons.mp he with he | he
    · subst he; exact hat
    · refine carry1_inforce assign dflt rest _ (t + 1) hp.2 ?_ ?_ ?_ e he
      · intro k hk; have := hp.1 k hk; omega
      · intro s h1 hne
        rcases List.mem_cons.mp (hall s (by omega) hne) with h | h
        · omega
        · exact h
      · have : t + 1 - 1 = t := by omega
        rw [this]; exact hat

theorem carry1_pos (assign : List (Int × Rat)) (hpos : ∀ e ∈ assign, 0 < e.2) :
    ∀ (keys : List Int) (cur : Rat), 0 < cur → ∀ e ∈ carry1 assign keys cur, 0 < e.2
  | [], _, _ => by simp [carry1]
  | t :: rest, cur, hc => by
    intro e he
    unfold carry1 at he
    have hv : 0 < (match lastAssoc assign t with | some q => q | none => cur) := by
      cases h : lastAssoc assign t with
      | some q => exact hpos (t, q) (lastAssoc_mem assign t q h)
      | none => exact hc
    rcases List.mem_cons.mp he with he | he
    · subst he; exact hv
    · exact carry1_pos assign hpos rest _ hv e he

-- ------------------------------------------------------------------ knots of a key-point list

/-- key points with strictly increasing times and positive divisions and factors -/
def KPsOK (kps : List KP) : Prop :=
  (kps.map (·.t)).Pairwise (· < ·) ∧ ∀ k ∈ kps, 0 < k.divs ∧ 0 < k.fac

/-- knots to the right of key point `k` whose ordinate is `y` -/
def tailKnots (k : KP) (y : Rat) : List KP → List (Rat × Rat)
  | [] => []
  | k' :: rest =>
    ((k'.t : Rat), y + k.fac * (((k'.t : Int) : Rat) - (k.t : Rat)) / k.divs) ::
      tailKnots k' (y + k.fac * (((k'.t : Int) : Rat) - (k.t : Rat)) / k.divs) rest

theorem knots_eq : ∀ (rest : List KP) (k : KP) (y : Rat),
    knots (k :: rest) y = ((k.t : Rat), y) :: tailKnots k y rest
  | [], _, _ => rfl
  | k' :: rest, k, y => by
    simp only [knots, tailKnots]
    rw [knots_eq rest k']

theorem step_pos (k k' : KP) (ht : k.t < k'.t) (hd : 0 < k.divs) (hf : 0 < k.fac) :
    0 < k.fac * (((k'.t : Int) : Rat) - (k.t : Rat)) / k.divs := by
  have : ((k.t : Int) : Rat) < ((k'.t : Int) : Rat) := by exact_mod_cast ht
  exact div_pos (mul_pos hf (by linarith)) hd

theorem tailKnots_chain : ∀ (rest : List KP) (k : KP) (y : Rat), KPsOK (k :: rest) →
    Chain (k.t : Rat) y (tailKnots k y rest)
  | [], _, _, _ => trivial
  | k' :: rest, k, y, h => by
    obtain ⟨hp, hpos⟩ := h
    simp only [List.map_cons, List.pairwise_cons] at hp
    have ht : k.t < k'.t := hp.1 k'.t List.mem_cons_self
    have hk := hpos k List.mem_cons_self
    have hs := step_pos k k' ht hk.1 hk.2
    refine ⟨by exact_mod_cast ht, by linarith, ?_⟩
    exact tailKnots_chain rest k' _ ⟨by simpa using hp.2, fun q hq => hpos q (List.mem_cons_of_mem _ hq)⟩

theorem knots_ok (kps : List KP) (y : Rat) (h : KPsOK kps) (h2 : 2 ≤ kps.length) :
    KnotsOK (knots kps y) := by
  match kps, h2 with
  | k :: k' :: rest, _ =>
    rw [knots_eq]
    exact ⟨by simp [tailKnots], tailKnots_chain (k' :: rest) k y h⟩

/-- the knots around two consecutive key points -/
theorem knots_split : ∀ (pre : List KP) (k k' : KP) (post : List KP) (y : Rat),
    ∃ (pre' : List (Rat × Rat)) (yk : Rat) (post' : List (Rat × Rat)),
      knots (pre ++ k :: k' :: post) y =
        pre' ++ ((k.t : Rat), yk) ::
          ((k'.t : Rat), yk + k.fac * (((k'.t : Int) : Rat) - (k.t : Rat)) / k.divs) :: post'
      ∧ pre'.length = pre.length
  | [], k, k', post, y => by
    refine ⟨[], y, tailKnots k' (y + k.fac * (((k'.t : Int) : Rat) - (k.t : Rat)) / k.divs) post, ?_, rfl⟩
    simp only [List.nil_append]
    rw [knots_eq]
    simp [tailKnots]
  | p :: pre, k, k', post, y => by
    cases hpre : pre ++ k :: k' :: post with
    | nil => simp at hpre
    | cons q rest =>
      obtain ⟨pre', yk, post', h, hl⟩ := knots_split pre k k' post (y + p.fac * (((q.t : Int) : Rat) - (p.t : Rat)) / p.divs)
      refine ⟨((p.t : Rat), y) :: pre', yk, post', ?_, by simp [hl]⟩
      rw [List.cons_append, hpre]
      simp only [knots]
      rw [← hpre, h]
      rfl

theorem interp_segment (pre : List (Rat × Rat)) (u yu v yv : Rat) (post : List (Rat × Rat)) (x : Rat)
    (hk : KnotsOK (pre ++ (u, yu) :: (v, yv) :: post)) (hu : u ≤ x) (hv : x ≤ v) :
    interp (pre ++ (u, yu) :: (v, yv) :: post) x = some ((yv - yu) / (v - u) * (x - u) + yu) := by
  cases pre with
  | nil =>
    simp only [List.nil_append] at hk ⊢
    rw [interp_cons2, if_neg (not_lt.mpr hu)]
    unfold interpAux
    rw [if_pos hv]
  | cons p pre' =>
    obtain ⟨x0, y0⟩ := p
    have hc : Chain x0 y0 (pre' ++ (u, yu) :: (v, yv) :: post) := hk.2
    have hlt : ∀ (l : List (Rat × Rat)) (a b : Rat), Chain a b (l ++ (u, yu) :: (v, yv) :: post) → a < u := by
      intro l
      induction l with
      | nil => intro a b h; exact h.1
      | cons q l ih =>
        intro a b h
        obtain ⟨q1, q2⟩ := q
        have := ih q1 q2 h.2.2
        linarith [h.1]
    have hx0 : x0 < u := hlt pre' x0 y0 hc
    cases hl : pre' ++ (u, yu) :: (v, yv) :: post with
    | nil => simp at hl
    | cons q rest =>
      rw [List.cons_append, hl, interp_cons2, if_neg (by linarith), ← hl]
      exact interpAux_segment pre' x0 y0 u yu v yv post x hc hu hv

end C02Proofs
