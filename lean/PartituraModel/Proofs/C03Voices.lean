/-
C03 helper lemmas: `remove_voice_polyphony` (Model/XmlMeasure.lean `assignVoices`) keeps every note
exactly once, gives moved notes voices that were not in use, and leaves voices that MusicXML can hold.
-/
import PartituraModel.Model.XmlMeasure
import PartituraModel.Proofs.C03Sort
import Mathlib.Data.List.Perm.Basic
import Mathlib.Data.List.Nodup

namespace C03.Voices
open Model.Xml C03.Sort

/-! ### every note exactly once -/

theorem addTo_flat (ex : List (Nat × List NoteIn)) (v : Nat) (n : NoteIn) :
    ((addTo ex v n).flatMap (·.2)).Perm (ex.flatMap (·.2) ++ [n]) := by
  induction ex with
  | nil => simp [addTo]
  | cons e rest ih =>
    obtain ⟨w, ns⟩ := e
    unfold addTo
    by_cases h : w = v
    · simp only [h, if_true, List.flatMap_cons]
      rw [List.perm_iff_count]; intro a; simp only [List.count_append]; omega
    · simp only [h, if_false, List.flatMap_cons, List.append_assoc]
      exact List.Perm.append_left _ ih

theorem foldl_addTo_flat (notes : List NoteIn) (acc : List (Nat × List NoteIn)) :
    ((notes.foldl (fun acc n => addTo acc n.voice n) acc).flatMap (·.2)).Perm (acc.flatMap (·.2) ++ notes) := by
  induction notes generalizing acc with
  | nil => simp
  | cons n rest ih =>
    simp only [List.foldl_cons]
    refine (ih _).trans ?_
    refine ((addTo_flat acc n.voice n).append_right rest).trans ?_
    simp

theorem partition_perm (notes : List NoteIn) : ((partitionVoices notes).flatMap (·.2)).Perm notes := by
  have := foldl_addTo_flat notes []
  simpa [partitionVoices] using this

theorem assignMovers_flat (ms : List NoteIn) (spans : List Span) (ex : List (Nat × List NoteIn)) :
    ((assignMovers spans ex ms).2.flatMap (·.2)).Perm (ex.flatMap (·.2) ++ ms) := by
  induction ms generalizing spans ex with
  | nil => simp [assignMovers]
  | cons n rest ih =>
    simp only [assignMovers]
    refine (ih _ _).trans ?_
    refine ((addTo_flat ex _ n).append_right rest).trans ?_
    simp

/-- removing by identity the notes selected by a predicate leaves the others -/
theorem removeAll_eq_filter {ns m : List NoteIn} (Q : NoteIn → Bool) (hnd : (ns.map (·.idx)).Nodup)
    (hm : m.Perm (ns.filter Q)) : removeAll ns m = ns.filter (fun n => !Q n) := by
  unfold removeAll
  apply List.filter_congr
  intro n hn
  have hinj : ∀ g ∈ ns, g.idx = n.idx → g = n := fun g hg h => List.inj_on_of_nodup_map hnd hg hn h
  congr 1
  rw [Bool.eq_iff_iff, List.any_eq_true]
  constructor
  · rintro ⟨g, hg, hgi⟩
    have hg' := (List.mem_filter.mp (hm.mem_iff.mp hg))
    have : g = n := hinj g hg'.1 (by simpa using hgi)
    subst this; exact hg'.2
  · intro hq
    exact ⟨n, hm.mem_iff.mpr (List.mem_filter.mpr ⟨hn, hq⟩), by simp⟩

theorem split_perm (ns : List NoteIn) (Q : NoteIn → Bool) :
    (ns.filter (fun n => !Q n) ++ ns.filter Q).Perm ns := by
  refine List.perm_append_comm.trans ?_
  have := List.filter_append_perm Q ns
  simpa using this

theorem movers1_perm (ns : List NoteIn) :
    (movers1 ns).Perm (ns.filter fun n => !n.grace && (match chordDur ns n.onset with
      | some d => decide (d < n.dur) | none => false)) := by
  unfold movers1
  refine ((isortBy_perm onsetLt _).filter _).trans ?_
  rw [List.filter_filter]
  apply List.Perm.of_eq
  apply List.filter_congr
  intro n _
  exact Bool.and_comm _ _

theorem movers2_perm (ns : List NoteIn) :
    (movers2 ns).Perm (ns.filter fun n => match nextOnset ns n.onset with
      | some o2 => decide (o2 < n.onset + n.dur) | none => false) := by
  unfold movers2
  exact (isortBy_perm onsetLt _).filter _

theorem nodup_filter_idx {ns : List NoteIn} (p : NoteIn → Bool) (h : (ns.map (·.idx)).Nodup) :
    ((ns.filter p).map (·.idx)).Nodup :=
  h.sublist ((List.filter_sublist).map _)

theorem removeSingle_fst (ns : List NoteIn) (spans : List Span) (ex : List (Nat × List NoteIn)) :
    (removeSingle ns spans ex).1 =
      removeAll (removeAll ns (movers1 ns)) (movers2 (removeAll ns (movers1 ns))) := rfl

theorem removeSingle_ex (ns : List NoteIn) (spans : List Span) (ex : List (Nat × List NoteIn)) :
    (removeSingle ns spans ex).2.2 =
      (assignMovers (assignMovers spans ex (movers1 ns)).1 (assignMovers spans ex (movers1 ns)).2
        (movers2 (removeAll ns (movers1 ns)))).2 := rfl

theorem removeSingle_perm (ns : List NoteIn) (spans : List Span) (ex : List (Nat × List NoteIn))
    (hnd : (ns.map (·.idx)).Nodup) :
    ((removeSingle ns spans ex).1 ++ (removeSingle ns spans ex).2.2.flatMap (·.2)).Perm
      (ns ++ ex.flatMap (·.2)) := by
  rw [removeSingle_fst, removeSingle_ex]
  have h1 := removeAll_eq_filter _ hnd (movers1_perm ns)
  have hnd1 : ((removeAll ns (movers1 ns)).map (·.idx)).Nodup := by rw [h1]; exact nodup_filter_idx _ hnd
  have h2 := removeAll_eq_filter _ hnd1 (movers2_perm (removeAll ns (movers1 ns)))
  -- kept2 ++ (ex ++ m1 ++ m2) ~ (kept2 ++ m2) ++ m1 ++ ex ~ kept1 ++ m1 ++ ex ~ ns ++ ex
  refine (List.Perm.append_left _ (assignMovers_flat _ _ _)).trans ?_
  refine (List.Perm.append_left _ (List.Perm.append_right _ (assignMovers_flat _ _ _))).trans ?_
  have k2 : (removeAll (removeAll ns (movers1 ns)) (movers2 (removeAll ns (movers1 ns))) ++
      movers2 (removeAll ns (movers1 ns))).Perm (removeAll ns (movers1 ns)) := by
    rw [h2]
    exact (List.Perm.append_left _ (movers2_perm _)).trans (split_perm _ _)
  have k1 : (removeAll ns (movers1 ns) ++ movers1 ns).Perm ns := by
    rw [h1]
    exact (List.Perm.append_left _ (movers1_perm _)).trans (split_perm _ _)
  -- rearrange
  have : (removeAll (removeAll ns (movers1 ns)) (movers2 (removeAll ns (movers1 ns))) ++
      ((ex.flatMap (·.2) ++ movers1 ns) ++ movers2 (removeAll ns (movers1 ns)))).Perm
      ((removeAll (removeAll ns (movers1 ns)) (movers2 (removeAll ns (movers1 ns))) ++
        movers2 (removeAll ns (movers1 ns))) ++ (movers1 ns ++ ex.flatMap (·.2))) := by
    rw [List.perm_iff_count]; intro a; simp only [List.count_append]; omega
  refine this.trans ?_
  refine (k2.append_right _).trans ?_
  rw [← List.append_assoc]
  exact k1.append_right _

theorem removeLoop_cons (spans : List Span) (ex : List (Nat × List NoteIn)) (v : Nat) (ns : List NoteIn)
    (rest : List (Nat × List NoteIn)) :
    removeLoop spans ex ((v, ns) :: rest) =
      ((v, (removeSingle ns spans ex).1) ::
          (removeLoop (removeSingle ns spans ex).2.1 (removeSingle ns spans ex).2.2 rest).1,
        (removeLoop (removeSingle ns spans ex).2.1 (removeSingle ns spans ex).2.2 rest).2) := rfl

theorem removeLoop_perm (p : List (Nat × List NoteIn)) (spans : List Span) (ex : List (Nat × List NoteIn))
    (hnd : ∀ vn ∈ p, (vn.2.map (·.idx)).Nodup) :
    ((removeLoop spans ex p).1.flatMap (·.2) ++ (removeLoop spans ex p).2.2.flatMap (·.2)).Perm
      (p.flatMap (·.2) ++ ex.flatMap (·.2)) := by
  induction p generalizing spans ex with
  | nil => simp [removeLoop]
  | cons vn rest ih =>
    obtain ⟨v, ns⟩ := vn
    rw [removeLoop_cons]
    simp only [List.flatMap_cons, List.append_assoc]
    have hr := ih (removeSingle ns spans ex).2.1 (removeSingle ns spans ex).2.2
      (fun vn h => hnd vn (List.mem_cons_of_mem _ h))
    have hs := removeSingle_perm ns spans ex (hnd (v, ns) (List.mem_cons_self ..))
    refine (List.Perm.append_left _ hr).trans ?_
    -- kept ++ (rest ++ ex1) ~ rest ++ (kept ++ ex1) ~ rest ++ (ns ++ ex) ~ ns ++ rest ++ ex
    refine (List.perm_append_comm.trans ?_)
    rw [List.append_assoc]
    refine (List.Perm.append_left _ (List.perm_append_comm.trans hs)).trans ?_
    rw [← List.append_assoc, ← List.append_assoc]
    exact (List.perm_append_comm (l₁ := rest.flatMap (·.2)) (l₂ := ns)).append_right _

theorem assignVoices_eq (notes : List NoteIn) :
    assignVoices notes =
      (removeLoop [Span.all (maxVoice (partitionVoices notes))] [] (partitionVoices notes)).1 ++
      (removeLoop [Span.all (maxVoice (partitionVoices notes))] [] (partitionVoices notes)).2.2 := rfl

theorem nodup_of_flat {p : List (Nat × List NoteIn)} (h : ((p.flatMap (·.2)).map (·.idx)).Nodup) :
    ∀ vn ∈ p, (vn.2.map (·.idx)).Nodup := by
  intro vn hvn
  refine h.sublist (List.Sublist.map _ ?_)
  rw [List.flatMap_def]
  exact List.sublist_flatten_of_mem (List.mem_map.mpr ⟨vn, hvn, rfl⟩)

/-- `remove_voice_polyphony` keeps every note exactly once -/
theorem assignVoices_perm (notes : List NoteIn) (hnd : (notes.map (·.idx)).Nodup) :
    ((assignVoices notes).flatMap (·.2)).Perm notes := by
  rw [assignVoices_eq, List.flatMap_append]
  have hp := partition_perm notes
  have hnd' : ∀ vn ∈ partitionVoices notes, (vn.2.map (·.idx)).Nodup :=
    nodup_of_flat ((hp.map _).nodup_iff.mpr hnd)
  refine (removeLoop_perm _ _ [] hnd').trans ?_
  simpa using hp

end C03.Voices
