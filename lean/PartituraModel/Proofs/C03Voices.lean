/-
C03 helper lemmas: `remove_voice_polyphony` (Model/XmlMeasure.lean `assignVoices`) keeps every note
exactly once, gives moved notes voices that were not in use, and leaves voices that MusicXML can hold.
-/
import PartituraModel.Model.XmlMeasure
import PartituraModel.Proofs.C03Sort
import Mathlib.Data.List.Perm.Basic
import Mathlib.Data.List.Nodup

namespace C03.Voices
open Model.Xml C03.Sort

/-! ### every note exactly once -/

theorem addTo_flat (ex : List (Nat × List NoteIn)) (v : Nat) (n : NoteIn) :
    ((addTo ex v n).flatMap (·.2)).Perm (ex.flatMap (·.2) ++ [n]) := by
  induction ex with
  | nil => simp [addTo]
  | cons e rest ih =>
    obtain ⟨w, ns⟩ := e
    unfold addTo
    by_cases h : w = v
    · simp only [h, if_true, List.flatMap_cons]
      rw [List.perm_iff_count]; intro a; simp only [List.count_append]; omega
    · simp only [h, if_false, List.flatMap_cons, List.append_assoc]
      exact List.Perm.append_left _ ih

theorem foldl_addTo_flat (notes : List NoteIn) (acc : List (Nat × List NoteIn)) :
    ((notes.foldl (fun acc n => addTo acc n.voice n) acc).flatMap (·.2)).Perm (acc.flatMap (·.2) ++ notes) := by
  induction notes generalizing acc with
  | nil => simp
  | cons n rest ih =>
    simp only [List.foldl_cons]
    refine (ih _).trans ?_
    refine ((addTo_flat acc n.voice n).append_right rest).trans ?_
    simp

theorem partition_perm (notes : List NoteIn) : ((partitionVoices notes).flatMap (·.2)).Perm notes := by
  have := foldl_addTo_flat notes []
  simpa [partitionVoices] using this

theorem assignMovers_flat (ms : List NoteIn) (spans : List Span) (ex : List (Nat × List NoteIn)) :
    ((assignMovers spans ex ms).2.flatMap (·.2)).Perm (ex.flatMap (·.2) ++ ms) := by
  induction ms generalizing spans ex with
  | nil => simp [assignMovers]
  | cons n rest ih =>
    simp only [assignMovers]
    refine (ih _ _).trans ?_
    refine ((addTo_flat ex _ n).append_right rest).trans ?_
    simp

/-- removing by identity the notes selected by a predicate leaves the others -/
theorem removeAll_eq_filter {ns m : List NoteIn} (Q : NoteIn → Bool) (hnd : (ns.map (·.idx)).Nodup)
    (hm : m.Perm (ns.filter Q)) : removeAll ns m = ns.filter (fun n => !Q n) := by
  unfold removeAll
  apply List.filter_congr
  intro n hn
  have hinj : ∀ g ∈ ns, g.idx = n.idx → g = n := fun g hg h => List.inj_on_of_nodup_map hnd hg hn h
  congr 1
  rw [Bool.eq_iff_iff, List.any_eq_true]
  constructor
  · rintro ⟨g, hg, hgi⟩
    have hg' := (List.mem_filter.mp (hm.mem_iff.mp hg))
    have : g = n := hinj g hg'.1 (by simpa using hgi)
    subst this; exact hg'.2
  · intro hq
    exact ⟨n, hm.mem_iff.mpr (List.mem_filter.mpr ⟨hn, hq⟩), by simp⟩

theorem split_perm (ns : List NoteIn) (Q : NoteIn → Bool) :
    (ns.filter (fun n => !Q n) ++ ns.filter Q).Perm ns := by
  refine List.perm_append_comm.trans ?_
  have := List.filter_append_perm Q ns
  simpa using this

theorem movers1_perm (ns : List NoteIn) :
    (movers1 ns).Perm (ns.filter fun n => !n.grace && (match chordDur ns n.onset with
      | some d => decide (d < n.dur) | none => false)) := by
  unfold movers1
  refine ((isortBy_perm onsetLt _).filter _).trans ?_
  rw [List.filter_filter]
  apply List.Perm.of_eq
  apply List.filter_congr
  intro n _
  exact Bool.and_comm _ _

theorem movers2_perm (ns : List NoteIn) :
    (movers2 ns).Perm (ns.filter fun n => match nextOnset ns n.onset with
      | some o2 => decide (o2 < n.onset + n.dur) | none => false) := by
  unfold movers2
  exact (isortBy_perm onsetLt _).filter _

theorem nodup_filter_idx {ns : List NoteIn} (p : NoteIn → Bool) (h : (ns.map (·.idx)).Nodup) :
    ((ns.filter p).map (·.idx)).Nodup :=
  h.sublist ((List.filter_sublist).map _)

theorem removeSingle_fst (ns : List NoteIn) (spans : List Span) (ex : List (Nat × List NoteIn)) :
    (removeSingle ns spans ex).1 =
      removeAll (removeAll ns (movers1 ns)) (movers2 (removeAll ns (movers1 ns))) := rfl

theorem removeSingle_ex (ns : List NoteIn) (spans : List Span) (ex : List (Nat × List NoteIn)) :
    (removeSingle ns spans ex).2.2 =
      (assignMovers (assignMovers spans ex (movers1 ns)).1 (assignMovers spans ex (movers1 ns)).2
        (movers2 (removeAll ns (movers1 ns)))).2 := rfl

theorem removeSingle_perm (ns : List NoteIn) (spans : List Span) (ex : List (Nat × List NoteIn))
    (hnd : (ns.map (·.idx)).Nodup) :
    ((removeSingle ns spans ex).1 ++ (removeSingle ns spans ex).2.2.flatMap (·.2)).Perm
      (ns ++ ex.flatMap (·.2)) := by
  rw [removeSingle_fst, removeSingle_ex]
  have h1 := removeAll_eq_filter _ hnd (movers1_perm ns)
  have hnd1 : ((removeAll ns (movers1 ns)).map (·.idx)).Nodup := by rw [h1]; exact nodup_filter_idx _ hnd
  have h2 := removeAll_eq_filter _ hnd1 (movers2_perm (removeAll ns (movers1 ns)))
  -- kept2 ++ (ex ++ m1 ++ m2) ~ (kept2 ++ m2) ++ m1 ++ ex ~ kept1 ++ m1 ++ ex ~ ns ++ ex
  refine (List.Perm.append_left _ (assignMovers_flat _ _ _)).trans ?_
  refine (List.Perm.append_left _ (List.Perm.append_right _ (assignMovers_flat _ _ _))).trans ?_
  have k2 : (removeAll (removeAll ns (movers1 ns)) (movers2 (removeAll ns (movers1 ns))) ++
      movers2 (removeAll ns (movers1 ns))).Perm (removeAll ns (movers1 ns)) := by
    rw [h2]
    exact (List.Perm.append_left _ (movers2_perm _)).trans (split_perm _ _)
  have k1 : (removeAll ns (movers1 ns) ++ movers1 ns).Perm ns := by
    rw [h1]
    exact (List.Perm.append_left _ (movers1_perm _)).trans (split_perm _ _)
  -- rearrange
  have : (removeAll (removeAll ns (movers1 ns)) (movers2 (removeAll ns (movers1 ns))) ++
      ((ex.flatMap (·.2) ++ movers1 ns) ++ movers2 (removeAll ns (movers1 ns)))).Perm
      ((removeAll (removeAll ns (movers1 ns)) (movers2 (removeAll ns (movers1 ns))) ++
        movers2 (removeAll ns (movers1 ns))) ++ (movers1 ns ++ ex.flatMap (·.2))) := by
    rw [List.perm_iff_count]; intro a; simp only [List.count_append]; omega
  refine this.trans ?_
  refine (k2.append_right _).trans ?_
  rw [← List.append_assoc]
  exact k1.append_right _

theorem removeLoop_cons (spans : List Span) (ex : List (Nat × List NoteIn)) (v : Nat) (ns : List NoteIn)
    (rest : List (Nat × List NoteIn)) :
    removeLoop spans ex ((v, ns) :: rest) =
      ((v, (removeSingle ns spans ex).1) ::
          (removeLoop (removeSingle ns spans ex).2.1 (removeSingle ns spans ex).2.2 rest).1,
        (removeLoop (removeSingle ns spans ex).2.1 (removeSingle ns spans ex).2.2 rest).2) := rfl

theorem removeLoop_perm (p : List (Nat × List NoteIn)) (spans : List Span) (ex : List (Nat × List NoteIn))
    (hnd : ∀ vn ∈ p, (vn.2.map (·.idx)).Nodup) :
    ((removeLoop spans ex p).1.flatMap (·.2) ++ (removeLoop spans ex p).2.2.flatMap (·.2)).Perm
      (p.flatMap (·.2) ++ ex.flatMap (·.2)) := by
  induction p generalizing spans ex with
  | nil => simp [removeLoop]
  | cons vn rest ih =>
    obtain ⟨v, ns⟩ := vn
    rw [removeLoop_cons]
    simp only [List.flatMap_cons, List.append_assoc]
    have hr := ih (removeSingle ns spans ex).2.1 (removeSingle ns spans ex).2.2
      (fun vn h => hnd vn (List.mem_cons_of_mem _ h))
    have hs := removeSingle_perm ns spans ex (hnd (v, ns) (List.mem_cons_self ..))
    refine (List.Perm.append_left _ hr).trans ?_
    -- kept ++ (rest ++ ex1) ~ rest ++ (kept ++ ex1) ~ rest ++ (ns ++ ex) ~ ns ++ rest ++ ex
    refine (List.perm_append_comm.trans ?_)
    rw [List.append_assoc]
    refine (List.Perm.append_left _ (List.perm_append_comm.trans hs)).trans ?_
    rw [← List.append_assoc, ← List.append_assoc]
    exact (List.perm_append_comm (l₁ := rest.flatMap (·.2)) (l₂ := ns)).append_right _

theorem assignVoices_eq (notes : List NoteIn) :
    assignVoices notes =
      (removeLoop [Span.all (maxVoice (partitionVoices notes))] [] (partitionVoices notes)).1 ++
      (removeLoop [Span.all (maxVoice (partitionVoices notes))] [] (partitionVoices notes)).2.2 := rfl

theorem nodup_of_flat {p : List (Nat × List NoteIn)} (h : ((p.flatMap (·.2)).map (·.idx)).Nodup) :
    ∀ vn ∈ p, (vn.2.map (·.idx)).Nodup := by
  intro vn hvn
  refine h.sublist (List.Sublist.map _ ?_)
  rw [List.flatMap_def]
  exact List.sublist_flatten_of_mem (List.mem_map.mpr ⟨vn, hvn, rfl⟩)

/-- `remove_voice_polyphony` keeps every note exactly once -/
theorem assignVoices_perm (notes : List NoteIn) (hnd : (notes.map (·.idx)).Nodup) :
    ((assignVoices notes).flatMap (·.2)).Perm notes := by
  rw [assignVoices_eq, List.flatMap_append]
  have hp := partition_perm notes
  have hnd' : ∀ vn ∈ partitionVoices notes, (vn.2.map (·.idx)).Nodup :=
    nodup_of_flat ((hp.map _).nodup_iff.mpr hnd)
  refine (removeLoop_perm _ _ [] hnd').trans ?_
  simpa using hp

/-! ### new voices are fresh and hold no two overlapping notes -/

/-- two notes do not sound at the same time -/
def NonOverlap (a b : NoteIn) : Prop := ¬ (a.onset < b.onset + b.dur ∧ b.onset < a.onset + a.dur)

theorem foldl_free_ge (spans : List Span) (s e init : Nat) :
    init ≤ spans.foldl (fun fv sp => if sp.overlaps s e then max fv (sp.voice + 1) else fv) init := by
  induction spans generalizing init with
  | nil => simp
  | cons sp rest ih =>
    simp only [List.foldl_cons]
    refine Nat.le_trans ?_ (ih _)
    split
    · exact Nat.le_max_left _ _
    · exact Nat.le_refl _

theorem foldl_free_gt (spans : List Span) (s e init : Nat) :
    ∀ sp ∈ spans, sp.overlaps s e = true →
      sp.voice < spans.foldl (fun fv sp => if sp.overlaps s e then max fv (sp.voice + 1) else fv) init := by
  induction spans generalizing init with
  | nil => intro sp h; cases h
  | cons sp0 rest ih =>
    intro sp hsp hov
    simp only [List.foldl_cons]
    rcases List.mem_cons.mp hsp with rfl | hsp
    · simp only [hov, if_true]
      have h1 := foldl_free_ge rest s e (max init (sp.voice + 1))
      have h2 : sp.voice + 1 ≤ max init (sp.voice + 1) := Nat.le_max_right _ _
      omega
    · exact ih _ sp hsp hov

theorem foldl_min_ge (l : List Span) (base init : Nat) (h0 : base ≤ init) (h : ∀ sp ∈ l, base ≤ sp.voice) :
    base ≤ l.foldl (fun m x => min m x.voice) init := by
  induction l generalizing init with
  | nil => simpa
  | cons sp rest ih =>
    simp only [List.foldl_cons]
    apply ih
    · have := h sp (List.mem_cons_self ..); omega
    · exact fun sp' h' => h sp' (List.mem_cons_of_mem _ h')

theorem minVoice_ge (spans : List Span) (base : Nat) (hne : spans ≠ []) (h : ∀ sp ∈ spans, base ≤ sp.voice) :
    base ≤ minVoice spans := by
  cases spans with
  | nil => exact absurd rfl hne
  | cons sp rest =>
    exact foldl_min_ge rest base sp.voice (h sp (List.mem_cons_self ..)) (fun sp' h' => h sp' (List.mem_cons_of_mem _ h'))

theorem findFreeVoice_gt_base (spans : List Span) (base s e : Nat) (hne : spans ≠ [])
    (h : ∀ sp ∈ spans, base ≤ sp.voice) : base < findFreeVoice spans s e := by
  unfold findFreeVoice
  have := foldl_free_ge spans s e (minVoice spans + 1)
  have := minVoice_ge spans base hne h
  omega

theorem findFreeVoice_gt_overlap (spans : List Span) (s e : Nat) :
    ∀ sp ∈ spans, sp.overlaps s e = true → sp.voice < findFreeVoice spans s e :=
  foldl_free_gt spans s e _

/-- the state of `remove_voice_polyphony` between two notes: every span is above the base voice, every moved
    note sits in a voice above the base together with its span, and the notes of a new voice do not overlap -/
structure ExInv (base : Nat) (spans : List Span) (ex : List (Nat × List NoteIn)) : Prop where
  ne : spans ≠ []
  ge : ∀ sp ∈ spans, base ≤ sp.voice
  fresh : ∀ vn ∈ ex, base < vn.1
  apart : ∀ vn ∈ ex, vn.2.Pairwise NonOverlap
  span : ∀ vn ∈ ex, ∀ m ∈ vn.2, Span.iv m.onset (m.onset + m.dur) vn.1 ∈ spans

theorem mem_addTo {ex : List (Nat × List NoteIn)} {v : Nat} {n : NoteIn} {vn : Nat × List NoteIn}
    (h : vn ∈ addTo ex v n) :
    vn ∈ ex ∨ (vn.1 = v ∧ ((∃ ms, (v, ms) ∈ ex ∧ vn.2 = ms ++ [n]) ∨ vn.2 = [n])) := by
  induction ex with
  | nil => simp [addTo] at h; subst h; exact Or.inr ⟨rfl, Or.inr rfl⟩
  | cons e rest ih =>
    obtain ⟨w, ns⟩ := e
    unfold addTo at h
    by_cases hw : w = v
    · simp only [hw, if_true, List.mem_cons] at h
      rcases h with h | h
      · subst h; subst hw
        exact Or.inr ⟨rfl, Or.inl ⟨ns, List.mem_cons_self .., rfl⟩⟩
      · exact Or.inl (List.mem_cons_of_mem _ h)
    · simp only [hw, if_false, List.mem_cons] at h
      rcases h with h | h
      · subst h; exact Or.inl (List.mem_cons_self ..)
      · rcases ih h with h' | ⟨h1, h2⟩
        · exact Or.inl (List.mem_cons_of_mem _ h')
        · refine Or.inr ⟨h1, ?_⟩
          rcases h2 with ⟨ms, hms, e⟩ | e
          · exact Or.inl ⟨ms, List.mem_cons_of_mem _ hms, e⟩
          · exact Or.inr e

theorem exInv_step {base : Nat} {spans : List Span} {ex : List (Nat × List NoteIn)} (h : ExInv base spans ex)
    (n : NoteIn) :
    ExInv base (spans ++ [Span.iv n.onset (n.onset + n.dur) (findFreeVoice spans n.onset (n.onset + n.dur))])
      (addTo ex (findFreeVoice spans n.onset (n.onset + n.dur)) n) := by
  have hfv := findFreeVoice_gt_base spans base n.onset (n.onset + n.dur) h.ne h.ge
  have hov := findFreeVoice_gt_overlap spans n.onset (n.onset + n.dur)
  -- a note already in the voice chosen for `n` does not overlap `n`
  have hapart : ∀ ms, (findFreeVoice spans n.onset (n.onset + n.dur), ms) ∈ ex → ∀ m ∈ ms, NonOverlap m n := by
    intro ms hms m hm
    have hsp := h.span _ hms m hm
    intro hcon
    have := hov _ hsp (by simp [Span.overlaps]; exact hcon)
    simp [Span.voice] at this
  refine ⟨by simp, ?_, ?_, ?_, ?_⟩
  · intro sp hsp
    rcases List.mem_append.mp hsp with hsp | hsp
    · exact h.ge sp hsp
    · simp at hsp; subst hsp; simp [Span.voice]; omega
  · intro vn hvn
    rcases mem_addTo hvn with hvn | ⟨h1, _⟩
    · exact h.fresh vn hvn
    · rw [h1]; exact hfv
  · intro vn hvn
    rcases mem_addTo hvn with hvn | ⟨h1, h2⟩
    · exact h.apart vn hvn
    · rcases h2 with ⟨ms, hms, e⟩ | e
      · rw [e, List.pairwise_append]
        exact ⟨h.apart _ hms, by simp, fun a ha b hb => by simp at hb; subst hb; exact hapart ms hms a ha⟩
      · rw [e]; simp
  · intro vn hvn m hm
    rcases mem_addTo hvn with hvn | ⟨h1, h2⟩
    · exact List.mem_append_left _ (h.span vn hvn m hm)
    · rcases h2 with ⟨ms, hms, e⟩ | e
      · rw [e] at hm
        rcases List.mem_append.mp hm with hm | hm
        · rw [h1]; exact List.mem_append_left _ (h.span _ hms m hm)
        · simp at hm; subst hm; rw [h1]; simp
      · rw [e] at hm; simp at hm; subst hm; rw [h1]; simp

theorem exInv_assignMovers {base : Nat} (ms : List NoteIn) {spans : List Span} {ex : List (Nat × List NoteIn)}
    (h : ExInv base spans ex) : ExInv base (assignMovers spans ex ms).1 (assignMovers spans ex ms).2 := by
  induction ms generalizing spans ex with
  | nil => exact h
  | cons n rest ih => exact ih (exInv_step h n)

theorem removeSingle_spans (ns : List NoteIn) (spans : List Span) (ex : List (Nat × List NoteIn)) :
    (removeSingle ns spans ex).2.1 =
      (assignMovers (assignMovers spans ex (movers1 ns)).1 (assignMovers spans ex (movers1 ns)).2
        (movers2 (removeAll ns (movers1 ns)))).1 := rfl

theorem exInv_removeSingle {base : Nat} (ns : List NoteIn) {spans : List Span} {ex : List (Nat × List NoteIn)}
    (h : ExInv base spans ex) : ExInv base (removeSingle ns spans ex).2.1 (removeSingle ns spans ex).2.2 := by
  rw [removeSingle_spans, removeSingle_ex]
  exact exInv_assignMovers _ (exInv_assignMovers _ h)

theorem exInv_removeLoop {base : Nat} (p : List (Nat × List NoteIn)) {spans : List Span}
    {ex : List (Nat × List NoteIn)} (h : ExInv base spans ex) :
    ExInv base (removeLoop spans ex p).2.1 (removeLoop spans ex p).2.2 := by
  induction p generalizing spans ex with
  | nil => exact h
  | cons vn rest ih =>
    obtain ⟨v, ns⟩ := vn
    rw [removeLoop_cons]
    exact ih (exInv_removeSingle ns h)

/-- every voice `remove_voice_polyphony` opens is above all voices in use and holds no two notes that sound
    together -/
theorem new_voices_fresh (notes : List NoteIn) :
    ∀ vn ∈ (removeLoop [Span.all (maxVoice (partitionVoices notes))] [] (partitionVoices notes)).2.2,
      maxVoice (partitionVoices notes) < vn.1 ∧ vn.2.Pairwise NonOverlap := by
  have h0 : ExInv (maxVoice (partitionVoices notes)) [Span.all (maxVoice (partitionVoices notes))] [] :=
    { ne := by simp
      ge := by intro sp hsp; simp at hsp; subst hsp; simp [Span.voice]
      fresh := by intro vn h; cases h
      apart := by intro vn h; cases h
      span := by intro vn h; cases h }
  have h := exInv_removeLoop (partitionVoices notes) h0
  exact fun vn hvn => ⟨h.fresh vn hvn, h.apart vn hvn⟩

/-! ### the voices that stay are monophonic -/

/-- what a MusicXML voice can hold without `<backup>`: the non-grace notes of one onset have one duration
    (a chord), and no note runs past the next onset -/
def Monophonic (ns : List NoteIn) : Prop :=
  (∀ a ∈ ns, ∀ b ∈ ns, a.grace = false → b.grace = false → a.onset = b.onset → a.dur = b.dur) ∧
  (∀ a ∈ ns, ∀ b ∈ ns, a.onset < b.onset → a.onset + a.dur ≤ b.onset)

theorem min?_some_of_mem {l : List Nat} {x : Nat} (h : x ∈ l) : ∃ d, l.min? = some d ∧ d ≤ x ∧ ∀ y ∈ l, d ≤ y := by
  cases hm : l.min? with
  | none => rw [List.min?_eq_none_iff] at hm; subst hm; cases h
  | some d =>
    have := List.min?_eq_some_iff.mp hm
    exact ⟨d, rfl, this.2 x h, this.2⟩

theorem removeSingle_monophonic (ns : List NoteIn) (spans : List Span) (ex : List (Nat × List NoteIn))
    (hnd : (ns.map (·.idx)).Nodup) : Monophonic (removeSingle ns spans ex).1 := by
  rw [removeSingle_fst]
  have h1 := removeAll_eq_filter _ hnd (movers1_perm ns)
  have hnd1 : ((removeAll ns (movers1 ns)).map (·.idx)).Nodup := by rw [h1]; exact nodup_filter_idx _ hnd
  have h2 := removeAll_eq_filter _ hnd1 (movers2_perm (removeAll ns (movers1 ns)))
  rw [h2]
  generalize hk : removeAll ns (movers1 ns) = kept1 at *
  constructor
  · -- one duration per onset
    intro a ha b hb hga hgb hon
    have key : ∀ x ∈ kept1, x.grace = false → x.onset = a.onset →
        ∃ d, chordDur ns a.onset = some d ∧ x.dur = d := by
      intro x hx hgx hxo
      rw [h1] at hx
      obtain ⟨hxns, hq⟩ := List.mem_filter.mp hx
      have hmem : x.dur ∈ (ns.filter fun n => !n.grace && n.onset == a.onset).map (·.dur) :=
        List.mem_map.mpr ⟨x, List.mem_filter.mpr ⟨hxns, by simp [hgx, hxo]⟩, rfl⟩
      obtain ⟨d, hd, hle, _⟩ := min?_some_of_mem hmem
      refine ⟨d, hd, ?_⟩
      have hd' : chordDur ns x.onset = some d := by rw [hxo]; exact hd
      simp only [hgx, Bool.not_false, Bool.true_and, hd', Bool.not_eq_true', decide_eq_false_iff_not] at hq
      omega
    obtain ⟨da, hda, ea⟩ := key a (List.mem_filter.mp ha).1 hga rfl
    obtain ⟨db, hdb, eb⟩ := key b (List.mem_filter.mp hb).1 hgb hon.symm
    rw [hda] at hdb
    cases hdb
    omega
  · -- no note runs past the next onset
    intro a ha b hb hlt
    obtain ⟨hak, hq⟩ := List.mem_filter.mp ha
    have hbk := (List.mem_filter.mp hb).1
    have hmem : b.onset ∈ (kept1.filter fun n => decide (a.onset < n.onset)).map (·.onset) :=
      List.mem_map.mpr ⟨b, List.mem_filter.mpr ⟨hbk, by simp [hlt]⟩, rfl⟩
    obtain ⟨o2, ho2, hle, _⟩ := min?_some_of_mem hmem
    have : nextOnset kept1 a.onset = some o2 := ho2
    simp only [this, Bool.not_eq_true', decide_eq_false_iff_not] at hq
    omega

theorem removeSingle_subset (ns : List NoteIn) (spans : List Span) (ex : List (Nat × List NoteIn)) :
    ∀ n ∈ (removeSingle ns spans ex).1, n ∈ ns := by
  intro n hn
  rw [removeSingle_fst] at hn
  unfold removeAll at hn
  exact (List.mem_filter.mp (List.mem_filter.mp hn).1).1

/-- the voices that were there before: same number, a part of their notes, monophonic -/
theorem kept_voices (p : List (Nat × List NoteIn)) (spans : List Span) (ex : List (Nat × List NoteIn))
    (hnd : ∀ vn ∈ p, (vn.2.map (·.idx)).Nodup) :
    ∀ vn ∈ (removeLoop spans ex p).1, Monophonic vn.2 ∧ ∃ ns, (vn.1, ns) ∈ p ∧ ∀ n ∈ vn.2, n ∈ ns := by
  induction p generalizing spans ex with
  | nil => intro vn h; simp [removeLoop] at h
  | cons e rest ih =>
    obtain ⟨v, ns⟩ := e
    rw [removeLoop_cons]
    intro vn hvn
    rcases List.mem_cons.mp hvn with h | h
    · subst h
      exact ⟨removeSingle_monophonic ns spans ex (hnd (v, ns) (List.mem_cons_self ..)),
        ns, List.mem_cons_self .., removeSingle_subset ns spans ex⟩
    · obtain ⟨hm, ns', hns', hsub⟩ := ih _ _ (fun vn h => hnd vn (List.mem_cons_of_mem _ h)) vn h
      exact ⟨hm, ns', List.mem_cons_of_mem _ hns', hsub⟩

theorem le_foldl_max (p : List (Nat × List NoteIn)) (init : Nat) :
    init ≤ p.foldl (fun m e => max m e.1) init ∧ ∀ e ∈ p, e.1 ≤ p.foldl (fun m e => max m e.1) init := by
  induction p generalizing init with
  | nil => simp
  | cons e rest ih =>
    simp only [List.foldl_cons]
    obtain ⟨h1, h2⟩ := ih (max init e.1)
    refine ⟨Nat.le_trans (Nat.le_max_left _ _) h1, ?_⟩
    intro e' he'
    rcases List.mem_cons.mp he' with rfl | he'
    · exact Nat.le_trans (Nat.le_max_right _ _) h1
    · exact h2 e' he'

theorem le_maxVoice {p : List (Nat × List NoteIn)} {e : Nat × List NoteIn} (h : e ∈ p) : e.1 ≤ maxVoice p :=
  (le_foldl_max p 0).2 e h

/-- the notes of a voice of `partition` all carry that voice -/
theorem partition_voice (notes : List NoteIn) :
    ∀ vn ∈ partitionVoices notes, ∀ n ∈ vn.2, n.voice = vn.1 := by
  unfold partitionVoices
  suffices h : ∀ (acc : List (Nat × List NoteIn)), (∀ vn ∈ acc, ∀ n ∈ vn.2, n.voice = vn.1) →
      ∀ vn ∈ notes.foldl (fun acc n => addTo acc n.voice n) acc, ∀ n ∈ vn.2, n.voice = vn.1 from
    h [] (by intro vn h; cases h)
  induction notes with
  | nil => intro acc h; exact h
  | cons n rest ih =>
    intro acc hacc
    simp only [List.foldl_cons]
    apply ih
    intro vn hvn m hm
    rcases mem_addTo hvn with hvn | ⟨h1, h2⟩
    · exact hacc vn hvn m hm
    · rcases h2 with ⟨ms, hms, e⟩ | e
      · rw [e] at hm
        rcases List.mem_append.mp hm with hm | hm
        · rw [h1]; exact hacc _ hms m hm
        · simp at hm; subst hm; exact h1.symm
      · rw [e] at hm; simp at hm; subst hm; exact h1.symm

end C03.Voices
