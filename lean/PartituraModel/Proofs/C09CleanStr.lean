/-
C09 helper lemmas, part 14 (round 3): the cleanup-and-order block of `_make_segments` run on the raw
destination STRINGS (`cleanToStr`) gives the id strings of what the model's `cleanTo` computes on
(tag, destination) pairs with segment NUMBERS.
-/
import PartituraModel.Proofs.C09IdStr

namespace C09
open Model.Unfold

theorem str_injective (a b : Dest) (h : a.str = b.str) : a = b := by
  cases a <;> cases b
  · simp only [Dest.str] at h
    rw [segId_injective _ _ h]
  · exact absurd h (segId_ne_end _)
  · exact absurd h.symm (segId_ne_end _)
  · rfl

theorem str_eq_end (d : Dest) : (d.str == endId) = (d == Dest.fin) := by
  cases d with
  | seg i =>
    have h1 : (segId i == endId) = false := by simpa using segId_ne_end i
    have h2 : (Dest.seg i == Dest.fin) = false := by simp
    simp only [Dest.str, h1, h2]
  | fin => simp [Dest.str]

theorem contains_map_str (l : List Dest) (d : Dest) : (l.map Dest.str).contains d.str = l.contains d := by
  induction l with
  | nil => rfl
  | cons a as ih =>
    simp only [List.map_cons, List.contains_cons, ih]
    congr 1
    cases h : d == a
    · have : d ≠ a := by simpa using h
      have : d.str ≠ a.str := fun hh => this (str_injective _ _ hh)
      simpa using this
    · have : d = a := by simpa using h
      subst this
      simp

/-! ### the two sorts -/

theorem insSorted_map (j : Nat) : ∀ acc : List Nat, (insSorted j acc).map segId = insStr (segId j) (acc.map segId) := by
  intro acc
  induction acc with
  | nil => rfl
  | cons y ys ih =>
    simp only [insSorted, List.map_cons, insStr]
    have h1 := segId_lt_iff j y
    by_cases hlt : j < y
    · simp [hlt, h1.mpr hlt]
    · have : pyLt (segId j) (segId y) = false := by
        cases h : pyLt (segId j) (segId y)
        · rfl
        · exact absurd (h1.mp h) hlt
      simp only [hlt, if_false, this, Bool.false_eq_true]
      by_cases heq : j = y
      · subst heq
        simp
      · have hne : segId j ≠ segId y := fun hh => heq (segId_injective _ _ hh)
        simp [heq, hne, ih]

/-- the plain destinations: numbers kept sorted by the model, strings sorted by the code -/
theorem plain_sort (plain : List Dest) : ∀ acc : List Nat,
    (plain.foldl (fun acc d => match d with
      | .seg j => insSorted j acc
      | .fin => acc) acc).map segId =
    ((plain.map Dest.str).filter fun d => d != endId).foldl (fun acc d => insStr d acc) (acc.map segId) := by
  induction plain with
  | nil => intro acc; rfl
  | cons d ds ih =>
    intro acc
    cases d with
    | seg j =>
      have hne : (segId j != endId) = true := by simpa using segId_ne_end j
      simp only [List.foldl_cons, List.map_cons, Dest.str, List.filter_cons, hne, if_true, ih, insSorted_map]
    | fin =>
      simp only [List.foldl_cons, List.map_cons, Dest.str, List.filter_cons, ih]
      simp

def vkey (x : Nat × Nat) : PyStr := rawStr (.volta x.1) (.seg x.2)

theorem insVolta_map (x : Nat × Nat) (hx : x.1 ≤ 10) : ∀ l : List (Nat × Nat), (∀ y ∈ l, y.1 ≤ 10) →
    (insVolta x l).map vkey = insStrStable (vkey x) (l.map vkey) := by
  intro l
  induction l with
  | nil => intro _; rfl
  | cons y ys ih =>
    intro hl
    have hy : y.1 ≤ 10 := hl y (List.mem_cons_self ..)
    have hle : pyLe (vkey y) (vkey x) = voltaLe y x := volta_key_le y x hy hx
    simp only [insVolta, List.map_cons, insStrStable]
    rw [hle]
    cases voltaLe y x
    · simp
    · simp [ih fun z hz => hl z (List.mem_cons_of_mem _ hz)]

theorem insVolta_labels (x : Nat × Nat) (hx : x.1 ≤ 10) : ∀ l : List (Nat × Nat), (∀ y ∈ l, y.1 ≤ 10) →
    ∀ y ∈ insVolta x l, y.1 ≤ 10 := by
  intro l
  induction l with
  | nil => intro _ y hy; simp [insVolta] at hy; subst hy; exact hx
  | cons z zs ih =>
    intro hl y hy
    simp only [insVolta] at hy
    split at hy
    · rcases List.mem_cons.mp hy with rfl | hy
      · exact hl _ (List.mem_cons_self ..)
      · exact ih (fun w hw => hl w (List.mem_cons_of_mem _ hw)) y hy
    · rcases List.mem_cons.mp hy with rfl | hy
      · exact hx
      · exact hl y hy

theorem volta_sort (vs : List (Nat × Nat)) (hvs : ∀ y ∈ vs, y.1 ≤ 10) : ∀ acc : List (Nat × Nat), (∀ y ∈ acc, y.1 ≤ 10) →
    (vs.foldl (fun acc x => insVolta x acc) acc).map vkey =
      (vs.map vkey).foldl (fun acc d => insStrStable d acc) (acc.map vkey) := by
  induction vs with
  | nil => intro acc _; rfl
  | cons x xs ih =>
    intro acc hacc
    have hx : x.1 ≤ 10 := hvs x (List.mem_cons_self ..)
    simp only [List.foldl_cons, List.map_cons]
    rw [ih (fun y hy => hvs y (List.mem_cons_of_mem _ hy)) _ (insVolta_labels x hx acc hacc), insVolta_map x hx acc hacc]

theorem vkey_cut (l : List (Nat × Nat)) : (l.map vkey).map (fun d => d.drop 8) = (l.map fun x => Dest.seg x.2).map Dest.str := by
  induction l with
  | nil => rfl
  | cons x xs ih =>
    simp only [List.map_cons, ih, vkey, volta_key_cut]

/-! ### the four lists the code selects by substring -/

def plainOf (raw : List (Tag × Dest)) : List Dest :=
  raw.filterMap fun p => match p.1 with
    | .plain => some p.2
    | _ => none

def nav2Of (raw : List (Tag × Dest)) : List Dest :=
  raw.filterMap fun p => match p.1 with
    | .nav2 => some p.2
    | _ => none

def voltaOf (raw : List (Tag × Dest)) : Option (List (Nat × Nat)) :=
  raw.foldr (fun p acc => match acc with
    | none => none
    | some l => match p.1, p.2 with
      | .volta lb, .seg j => some ((lb, j) :: l)
      | .volta _, .fin => none
      | _, _ => some l) (some [])

def voltaList (raw : List (Tag × Dest)) : List (Nat × Nat) :=
  raw.filterMap fun p => match p.1, p.2 with
    | .volta lb, .seg j => some (lb, j)
    | _, _ => none

def plainIdxOf (plain : List Dest) : List Nat :=
  plain.foldl (fun acc d => match d with
    | .seg j => insSorted j acc
    | .fin => acc) []

/-- every `"<n>_Volta_"` destination is a segment (never END) with a label the model knows (digit or `Z`) -/
def VoltaOK (raw : List (Tag × Dest)) : Prop :=
  ∀ p ∈ raw, ∀ lb, p.1 = Tag.volta lb → lb ≤ 10 ∧ p.2 ≠ Dest.fin

theorem voltaOK_tail {p : Tag × Dest} {raw : List (Tag × Dest)} (h : VoltaOK (p :: raw)) : VoltaOK raw :=
  fun q hq lb hl => h q (List.mem_cons_of_mem _ hq) lb hl

theorem voltaOf_eq (raw : List (Tag × Dest)) (h : VoltaOK raw) : voltaOf raw = some (voltaList raw) := by
  induction raw with
  | nil => rfl
  | cons p ps ih =>
    have ih' := ih (voltaOK_tail h)
    obtain ⟨t, d⟩ := p
    have hp := h (t, d) (List.mem_cons_self ..)
    simp only [voltaOf, List.foldr_cons] at ih' ⊢
    rw [ih']
    cases t <;> cases d <;> simp [voltaList] at hp ⊢

theorem voltaList_labels (raw : List (Tag × Dest)) (h : VoltaOK raw) : ∀ y ∈ voltaList raw, y.1 ≤ 10 := by
  induction raw with
  | nil => intro y hy; simp [voltaList] at hy
  | cons p ps ih =>
    intro y hy
    obtain ⟨t, d⟩ := p
    have hp := h (t, d) (List.mem_cons_self ..)
    cases t <;> cases d <;> simp only [voltaList, List.filterMap_cons, List.mem_cons] at hy <;>
      first
        | exact ih (voltaOK_tail h) y hy
        | (rcases hy with rfl | hy
           · exact (hp _ rfl).1
           · exact ih (voltaOK_tail h) y hy)

theorem class_nav_sub (d : Dest) : pyContains navSub (rawStr .nav1 d) = true ∧ pyContains navSub (rawStr .nav2 d) = true := by
  cases d <;> simp [rawStr, Dest.str, segId, endId, pyContains, navMark, navSub, List.isPrefixOf]

theorem filter_plain (raw : List (Tag × Dest)) :
    (raw.map rawOf).filter (fun d => !pyContains voltaSub d && !pyContains navSub d) = (plainOf raw).map Dest.str := by
  induction raw with
  | nil => rfl
  | cons p ps ih =>
    obtain ⟨t, d⟩ := p
    rw [List.map_cons, List.filter_cons]
    cases t with
    | plain =>
      have h : plainOf ((Tag.plain, d) :: ps) = d :: plainOf ps := rfl
      simp only [h, rawOf, (class_plain d).1, (class_plain d).2, Bool.not_false, Bool.and_self, if_true, List.map_cons]
      rw [← ih] <;> rfl
    | volta lb =>
      have h : plainOf ((Tag.volta lb, d) :: ps) = plainOf ps := rfl
      simp only [h, rawOf, (class_volta lb d).1, Bool.not_true, Bool.false_and, Bool.false_eq_true, if_false]
      rw [← ih] <;> rfl
    | nav1 =>
      have h : plainOf ((Tag.nav1, d) :: ps) = plainOf ps := rfl
      simp only [h, rawOf, (class_nav_sub d).1, Bool.not_true, Bool.and_false, Bool.false_eq_true, if_false]
      rw [← ih] <;> rfl
    | nav2 =>
      have h : plainOf ((Tag.nav2, d) :: ps) = plainOf ps := rfl
      simp only [h, rawOf, (class_nav_sub d).2, Bool.not_true, Bool.and_false, Bool.false_eq_true, if_false]
      rw [← ih] <;> rfl

theorem filter_volta (raw : List (Tag × Dest)) (h : VoltaOK raw) :
    (raw.map rawOf).filter (fun d => pyContains voltaSub d) = (voltaList raw).map vkey := by
  induction raw with
  | nil => rfl
  | cons p ps ih =>
    have ih' := ih (voltaOK_tail h)
    obtain ⟨t, d⟩ := p
    have hp := h (t, d) (List.mem_cons_self ..)
    rw [List.map_cons, List.filter_cons]
    cases t with
    | plain =>
      have h : voltaList ((Tag.plain, d) :: ps) = voltaList ps := by cases d <;> rfl
      simp only [h, rawOf, (class_plain d).1, Bool.false_eq_true, if_false]
      rw [← ih'] <;> rfl
    | volta lb =>
      cases d with
      | fin => exact absurd rfl (hp lb rfl).2
      | seg j =>
        have h : voltaList ((Tag.volta lb, Dest.seg j) :: ps) = (lb, j) :: voltaList ps := rfl
        simp only [h, rawOf, (class_volta lb (Dest.seg j)).1, if_true, List.map_cons]
        rw [← ih'] <;> rfl
    | nav1 =>
      have h : voltaList ((Tag.nav1, d) :: ps) = voltaList ps := by cases d <;> rfl
      simp only [h, rawOf, (class_nav1 d).1, Bool.false_eq_true, if_false]
      rw [← ih'] <;> rfl
    | nav2 =>
      have h : voltaList ((Tag.nav2, d) :: ps) = voltaList ps := by cases d <;> rfl
      simp only [h, rawOf, (class_nav2 d).1, Bool.false_eq_true, if_false]
      rw [← ih'] <;> rfl

theorem filter_nav1 (raw : List (Tag × Dest)) :
    ((raw.map rawOf).filter (fun d => pyContains (navMark 1) d)).map (fun d => d.drop 12) = (nav1Of raw).map Dest.str := by
  induction raw with
  | nil => rfl
  | cons p ps ih =>
    obtain ⟨t, d⟩ := p
    rw [List.map_cons, List.filter_cons]
    cases t with
    | plain =>
      have h : nav1Of ((Tag.plain, d) :: ps) = nav1Of ps := rfl
      simp only [h, rawOf, class_plain_not_nav d 1, Bool.false_eq_true, if_false]
      rw [← ih] <;> rfl
    | volta lb =>
      have h : nav1Of ((Tag.volta lb, d) :: ps) = nav1Of ps := rfl
      simp only [h, rawOf, class_volta_not_nav lb d 1, Bool.false_eq_true, if_false]
      rw [← ih] <;> rfl
    | nav1 =>
      have h : nav1Of ((Tag.nav1, d) :: ps) = d :: nav1Of ps := rfl
      have hc : List.drop 12 (rawStr Tag.nav1 d) = d.str := nav_key_cut 1 d
      simp only [h, rawOf, (class_nav1 d).2.1, if_true, List.map_cons, hc]
      rw [← ih] <;> rfl
    | nav2 =>
      have h : nav1Of ((Tag.nav2, d) :: ps) = nav1Of ps := rfl
      simp only [h, rawOf, (class_nav2 d).2.2, Bool.false_eq_true, if_false]
      rw [← ih] <;> rfl

theorem filter_nav2 (raw : List (Tag × Dest)) :
    ((raw.map rawOf).filter (fun d => pyContains (navMark 2) d)).map (fun d => d.drop 12) = (nav2Of raw).map Dest.str := by
  induction raw with
  | nil => rfl
  | cons p ps ih =>
    obtain ⟨t, d⟩ := p
    rw [List.map_cons, List.filter_cons]
    cases t with
    | plain =>
      have h : nav2Of ((Tag.plain, d) :: ps) = nav2Of ps := rfl
      simp only [h, rawOf, class_plain_not_nav d 2, Bool.false_eq_true, if_false]
      rw [← ih] <;> rfl
    | volta lb =>
      have h : nav2Of ((Tag.volta lb, d) :: ps) = nav2Of ps := rfl
      simp only [h, rawOf, class_volta_not_nav lb d 2, Bool.false_eq_true, if_false]
      rw [← ih] <;> rfl
    | nav1 =>
      have h : nav2Of ((Tag.nav1, d) :: ps) = nav2Of ps := rfl
      simp only [h, rawOf, (class_nav1 d).2.2, Bool.false_eq_true, if_false]
      rw [← ih] <;> rfl
    | nav2 =>
      have h : nav2Of ((Tag.nav2, d) :: ps) = d :: nav2Of ps := rfl
      have hc : List.drop 12 (rawStr Tag.nav2 d) = d.str := nav_key_cut 2 d
      simp only [h, rawOf, (class_nav2 d).2.1, if_true, List.map_cons, hc]
      rw [← ih] <;> rfl

/-! ### assembling -/

/-- the ordering half of `cleanTo` on the four lists -/
def orderNum (own : Nat) (plain : List Dest) (voltaRaw : List (Nat × Nat)) (nav1 nav2 : List Dest) : List Dest × List Dest :=
  let jumpsBack := !nav1.isEmpty
  let hasFin := plain.contains .fin || nav1.contains .fin
  let nav1 := if hasFin then nav1 ++ [Dest.fin] else nav1
  let volta := (voltaRaw.foldl (fun acc x => insVolta x acc) []).map fun x => Dest.seg x.2
  let plain' := ((plainIdxOf plain).map Dest.seg).filter fun d => !volta.contains d
  if jumpsBack then
    (volta ++ plain'.filter (fun d => !d.ahead own) ++
      (nav1.filter (· ≠ Dest.fin) ++ plain'.filter (fun d => d.ahead own) ++ nav1.filter (· = Dest.fin)), nav2)
  else (volta ++ plain' ++ nav1, nav2)

/-- `cleanTo` with its parts named -/
def cleanToNamed (own : Nat) (raw : List (Tag × Dest)) : Option (List Dest × List Dest) :=
  (voltaOf raw).bind fun voltaRaw =>
    let plain := plainOf raw
    let nav1 := nav1Of raw
    let nav2 := nav2Of raw
    let jumpsBack := !nav1.isEmpty
    let hasFin := plain.contains .fin || nav1.contains .fin
    let nav1 := if hasFin then nav1 ++ [Dest.fin] else nav1
    let volta := (voltaRaw.foldl (fun acc x => insVolta x acc) []).map fun x => Dest.seg x.2
    let plain' := ((plainIdxOf plain).map Dest.seg).filter fun d => !volta.contains d
    if jumpsBack then
      some (volta ++ plain'.filter (fun d => !d.ahead own) ++
        (nav1.filter (· ≠ Dest.fin) ++ plain'.filter (fun d => d.ahead own) ++ nav1.filter (· = Dest.fin)), nav2)
    else some (volta ++ plain' ++ nav1, nav2)

theorem cleanTo_named (own : Nat) (raw : List (Tag × Dest)) :
    cleanTo own raw = (voltaOf raw).map fun voltaRaw => orderNum own (plainOf raw) voltaRaw (nav1Of raw) (nav2Of raw) := by
  show cleanToNamed own raw = _
  unfold cleanToNamed orderNum
  cases voltaOf raw with
  | none => rfl
  | some v =>
    simp only [Option.bind_some, Option.map_some]
    split <;> rfl

theorem filter_str (l : List Dest) (P : Dest → Bool) (Q : PyStr → Bool) (h : ∀ d ∈ l, Q d.str = P d) :
    (l.map Dest.str).filter Q = (l.filter P).map Dest.str := by
  induction l with
  | nil => rfl
  | cons a as ih =>
    have ha := h a (List.mem_cons_self ..)
    have ih' := ih fun d hd => h d (List.mem_cons_of_mem _ hd)
    simp only [List.map_cons, List.filter_cons, ha, ih']
    cases P a <;> simp

theorem vkey_not_end (l : List (Nat × Nat)) : (l.map vkey).contains endId = false := by
  induction l with
  | nil => rfl
  | cons x xs ih =>
    simp only [List.map_cons, List.contains_cons, ih, Bool.or_false]
    simp [vkey, rawStr, endId, voltaMark]

theorem contains_end (l : List Dest) : (l.map Dest.str).contains endId = l.contains Dest.fin :=
  contains_map_str l Dest.fin

theorem filter_ne_end_id (l : List Dest) (h : l.contains Dest.fin = false) :
    (l.map Dest.str).filter (fun d => d != endId) = l.map Dest.str := by
  induction l with
  | nil => rfl
  | cons a as ih =>
    simp only [List.contains_cons, Bool.or_eq_false_iff] at h
    have ha : (a.str != endId) = true := by
      have := str_eq_end a
      have h1 : (a == Dest.fin) = false := by
        cases a
        · rfl
        · simp at h
      simp [bne, this, h1]
    simp only [List.map_cons, List.filter_cons, ha, if_true, ih h.2]

theorem plainIdx_str (plain : List Dest) :
    ((plain.map Dest.str).filter fun d => d != endId).foldl (fun acc d => insStr d acc) [] = (plainIdxOf plain).map segId := by
  have := plain_sort plain []
  simp only [List.map_nil] at this
  exact this.symm

theorem volta_str (vl : List (Nat × Nat)) (hvl : ∀ y ∈ vl, y.1 ≤ 10) :
    ((vl.map vkey).foldl (fun acc d => insStrStable d acc) []).map (fun d => d.drop 8) =
      ((vl.foldl (fun acc x => insVolta x acc) []).map fun x => Dest.seg x.2).map Dest.str := by
  have := volta_sort vl hvl [] (by intro y hy; cases hy)
  simp only [List.map_nil] at this
  rw [← this, vkey_cut]

theorem order_refines (own : Nat) (plain nav1 nav2 : List Dest) (vl : List (Nat × Nat)) (hvl : ∀ y ∈ vl, y.1 ≤ 10) :
    orderStr (segId own) (plain.map Dest.str) (vl.map vkey) (nav1.map Dest.str) (nav2.map Dest.str) =
      ((orderNum own plain vl nav1 nav2).1.map Dest.str, (orderNum own plain vl nav1 nav2).2.map Dest.str) := by
  -- the pieces
  have hE : (vl.map vkey ++ plain.map Dest.str ++ nav1.map Dest.str).contains endId =
      (plain.contains Dest.fin || nav1.contains Dest.fin) := by
    simp only [List.contains_append, vkey_not_end, contains_end, Bool.false_or]
  have hEmpty : (nav1.map Dest.str).isEmpty = nav1.isEmpty := by cases nav1 <;> rfl
  have hV := volta_str vl hvl
  generalize hVdef : ((vl.foldl (fun acc x => insVolta x acc) []).map fun x => Dest.seg x.2) = V at hV
  have hP : ∀ b : Bool, b = (plain.contains Dest.fin || nav1.contains Dest.fin) →
      (if b = true then (plain.map Dest.str).filter (fun d => d != endId) else plain.map Dest.str).foldl
        (fun acc d => insStr d acc) [] = (plainIdxOf plain).map segId := by
    intro b hb
    cases b with
    | true => exact plainIdx_str plain
    | false =>
      have : plain.contains Dest.fin = false := by
        cases h : plain.contains Dest.fin
        · rfl
        · rw [h] at hb; cases hb
      simp only [Bool.false_eq_true, if_false]
      rw [← filter_ne_end_id plain this]
      exact plainIdx_str plain
  have hN : ∀ b : Bool, (if b = true then nav1.map Dest.str ++ [endId] else nav1.map Dest.str) =
      (if b = true then nav1 ++ [Dest.fin] else nav1).map Dest.str := by
    intro b; cases b <;> simp [Dest.str]
  have hsegs : (plainIdxOf plain).map segId = ((plainIdxOf plain).map Dest.seg).map Dest.str := by
    rw [List.map_map]; rfl
  have hP' : ((plainIdxOf plain).map segId).filter (fun d => !(V.map Dest.str).contains d) =
      (((plainIdxOf plain).map Dest.seg).filter fun d => !V.contains d).map Dest.str := by
    rw [hsegs]
    exact filter_str _ _ _ fun d _ => by rw [contains_map_str]
  unfold orderStr orderNum
  simp only [hE, hEmpty, hP _ rfl, hN, hV, hVdef, hP']
  generalize hN'def : (if (plain.contains Dest.fin || nav1.contains Dest.fin) = true then nav1 ++ [Dest.fin] else nav1) = N'
  generalize hPdef : (((plainIdxOf plain).map Dest.seg).filter fun d => !V.contains d) = P'
  have hmem : ∀ d ∈ P', ∃ j, d = Dest.seg j := by
    intro d hd
    rw [← hPdef] at hd
    obtain ⟨j, _, rfl⟩ := List.mem_map.mp (List.mem_filter.mp hd).1
    exact ⟨j, rfl⟩
  have hA : (P'.map Dest.str).filter (fun d => pyLt (segId own) d) = (P'.filter fun d => d.ahead own).map Dest.str :=
    filter_str _ _ _ fun d hd => by
      obtain ⟨j, rfl⟩ := hmem d hd
      exact (ahead_eq own j).symm
  have hB : (P'.map Dest.str).filter (fun d => pyLe d (segId own)) = (P'.filter fun d => !d.ahead own).map Dest.str :=
    filter_str _ _ _ fun d hd => by
      obtain ⟨j, rfl⟩ := hmem d hd
      exact (not_ahead_eq own j).symm
  have hC : (N'.map Dest.str).filter (fun d => d != endId) = (N'.filter fun d => decide (d ≠ Dest.fin)).map Dest.str :=
    filter_str _ _ _ fun d _ => by
      have := str_eq_end d
      cases d <;> simp_all [bne]
  have hD : (N'.map Dest.str).filter (fun d => d == endId) = (N'.filter fun d => decide (d = Dest.fin)).map Dest.str :=
    filter_str _ _ _ fun d _ => by
      have := str_eq_end d
      cases d <;> simp_all
  cases nav1.isEmpty <;> simp [hA, hB, hC, hD]

/-- The cleanup-and-order block on the raw STRINGS gives the id strings of what the model computes on numbers. -/
theorem cleanTo_refines (own : Nat) (raw : List (Tag × Dest)) (h : VoltaOK raw) :
    (cleanTo own raw).map (fun r => (r.1.map Dest.str, r.2.map Dest.str)) =
      some (cleanToStr (segId own) (raw.map rawOf)) := by
  rw [cleanTo_named, voltaOf_eq raw h]
  simp only [Option.map_some]
  unfold cleanToStr
  rw [filter_plain, filter_volta raw h, filter_nav1, filter_nav2,
    order_refines own _ _ _ _ (voltaList_labels raw h)]

/-- every `"<n>_Volta_"` label is a decimal digit or `Z` -/
def LabelsOK (infs : List SegInfo) : Prop :=
  ∀ inf ∈ infs, ∀ p ∈ inf.to, ∀ lb, p.1 = Tag.volta lb → lb ≤ 10

theorem voltaOf_some_ne_fin (raw : List (Tag × Dest)) (l : List (Nat × Nat)) (h : voltaOf raw = some l) :
    ∀ p ∈ raw, ∀ lb, p.1 = Tag.volta lb → p.2 ≠ Dest.fin := by
  induction raw generalizing l with
  | nil => intro p hp; cases hp
  | cons q qs ih =>
    intro p hp lb hlb
    simp only [voltaOf, List.foldr_cons] at h
    cases htl : voltaOf qs with
    | none =>
      simp only [voltaOf] at htl
      rw [htl] at h
      cases h
    | some l' =>
      rcases List.mem_cons.mp hp with rfl | hp
      · simp only [voltaOf] at htl
        rw [htl] at h
        obtain ⟨t, d⟩ := p
        simp only at hlb
        subst hlb
        cases d with
        | seg j => simp
        | fin => simp at h
      · exact ih l' htl p hp lb hlb

theorem cleanTo_some_voltaOK (own : Nat) (raw : List (Tag × Dest)) (r : List Dest × List Dest)
    (h : cleanTo own raw = some r) (hl : ∀ p ∈ raw, ∀ lb, p.1 = Tag.volta lb → lb ≤ 10) : VoltaOK raw := by
  rw [cleanTo_named] at h
  cases hv : voltaOf raw with
  | none => rw [hv] at h; cases h
  | some l =>
    intro p hp lb hlb
    exact ⟨hl p hp lb hlb, voltaOf_some_ne_fin raw l hv p hp lb hlb⟩

theorem buildSegs_refines (times : List Int) (info : List SegInfo) : ∀ (i : Nat) (ts : List Int) (infs : List SegInfo) (g : List Seg),
    buildSegs times info i ts infs = some g → LabelsOK infs →
    buildStr i ts infs = g.map fun s => (s.to.map Dest.str, s.await.map Dest.str) := by
  intro i ts infs
  induction infs generalizing i ts with
  | nil =>
    intro g hg _
    cases ts with
    | nil => simp [buildSegs] at hg; subst hg; simp [buildStr]
    | cons s r =>
      cases r with
      | nil => simp [buildSegs] at hg; subst hg; simp [buildStr]
      | cons e r => simp [buildSegs] at hg; subst hg; simp [buildStr]
  | cons inf infs ih =>
    intro g hg hok
    cases ts with
    | nil => simp [buildSegs] at hg; subst hg; simp [buildStr]
    | cons s r =>
      cases r with
      | nil => simp [buildSegs] at hg; subst hg; simp [buildStr]
      | cons e r =>
        simp only [buildSegs, Option.bind_eq_bind] at hg
        cases hct : cleanTo i inf.to with
        | none => simp [hct] at hg
        | some ta =>
          have hc := cleanTo_refines i inf.to (cleanTo_some_voltaOK i _ ta hct (hok _ (List.mem_cons_self ..)))
          obtain ⟨to, aw⟩ := ta
          simp only [hct, Option.bind_some] at hg
          cases htl : buildSegs times info (i + 1) (e :: r) infs with
          | none => simp [htl] at hg
          | some tl =>
            simp only [htl, Option.bind_some, Option.some.injEq] at hg
            subst hg
            rw [hct] at hc
            simp only [Option.map_some, Option.some.injEq] at hc
            simp only [buildStr, List.map_cons, ← hc]
            rw [ih (i + 1) (e :: r) tl htl fun inf' h' => hok inf' (List.mem_cons_of_mem _ h')]

/-- Table level: when `add_segments` (the model, on numbers) succeeds and the labels are digits or `Z`, the string
algorithm builds the id strings of the same `to` / `await_to` lists. -/
theorem mkSegments_refines (L : Layout) (g : List Seg) (h : mkSegments L = some g)
    (hl : ∀ st n, procAll L (mkTable L) ((mkTable L).map (·.1)) 0 ((mkTable L).map (·.1))
        { info := List.replicate n {} } = some st → LabelsOK st.info) :
    mkSegmentsStr L = some (g.map fun s => (s.to.map Dest.str, s.await.map Dest.str)) := by
  unfold mkSegments at h
  unfold mkSegmentsStr
  cases hs : L.supported with
  | false => simp [hs] at h
  | true =>
    simp only [hs, Bool.not_true, Bool.false_eq_true, if_false, List.length_map] at h ⊢
    split at h
    · cases h
    · rename_i st hp
      rw [hp]
      simp only
      rw [buildSegs_refines _ _ 0 _ _ g h (hl st _ hp)]

end C09
