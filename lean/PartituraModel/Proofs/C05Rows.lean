/-
Helper lemmas for C05: structure of `rows` / `restRows` (one row per selected note, what is in it),
tie chains.
-/
import PartituraModel.Proofs.C05Sort

namespace NoteArray

open List

/-- `note.voice if note.voice is not None else -1` -/
def rawVoice (n : Note) : Int := match n.voice with | some v => v | none => -1

def alterOr0 (n : Note) : Int := match n.alter with | some a => a | none => 0

def fixVoice (m : Int) (r : Row) : Row := if r.voice = -1 then { r with voice := m + 1 } else r

theorem mapM'_forall₂ {α β : Type} (f : α → Option β) :
    ∀ (l : List α) (bs : List β), mapM' f l = some bs → Forall₂ (fun a b => f a = some b) l bs := by
  intro l
  induction l with
  | nil =>
    intro bs h
    simp [mapM'] at h
    subst h
    exact Forall₂.nil
  | cons a l ih =>
    intro bs h
    unfold mapM' at h
    split at h
    · rename_i b bs' hb hbs
      simp at h
      subst h
      exact Forall₂.cons hb (ih bs' hbs)
    · simp at h

theorem sanitizeVoices_eq (rs : List Row) :
    sanitizeVoices rs = match maxList (rs.map (·.voice)) with
      | none => rs
      | some m => rs.map (fixVoice m) := by
  unfold sanitizeVoices
  cases maxList (rs.map (·.voice)) with
  | none => rfl
  | some m => rfl

theorem maxList_none {l : List Int} (h : maxList l = none) : l = [] := by
  cases l with
  | nil => rfl
  | cons a l =>
    unfold maxList at h
    split at h <;> simp at h

theorem maxList_isSome {l : List Int} (h : l ≠ []) : ∃ m, maxList l = some m := by
  cases hm : maxList l with
  | none => exact absurd (maxList_none hm) h
  | some m => exact ⟨m, rfl⟩

/-- the value `maxList` returns is an upper bound and is attained -/
theorem maxList_spec : ∀ (l : List Int) (m : Int), maxList l = some m → m ∈ l ∧ ∀ x ∈ l, x ≤ m := by
  intro l
  induction l with
  | nil => intro m h; simp [maxList] at h
  | cons a l ih =>
    intro m h
    unfold maxList at h
    split at h
    · rename_i hn
      simp at h
      subst h
      have := maxList_none hn
      subst this
      simp
    · rename_i m' hm'
      simp at h
      have ⟨hmem, hub⟩ := ih m' hm'
      by_cases ham : a ≤ m'
      · simp [ham] at h
        subst h
        refine ⟨mem_cons_of_mem _ hmem, ?_⟩
        intro x hx
        rcases mem_cons.mp hx with rfl | hx
        · exact ham
        · exact hub x hx
      · simp [ham] at h
        subst h
        refine ⟨mem_cons_self, ?_⟩
        intro x hx
        rcases mem_cons.mp hx with rfl | hx
        · exact le_refl _
        · exact le_trans (hub x hx) (by omega)

-- ------------------------------------------------------------------ chains

/-- a chain in which every note starts where the previous one ends -/
def Contiguous : List Note → Prop
  | [] => True
  | [_] => True
  | a :: b :: l => b.onset = a.onset + a.dur ∧ Contiguous (b :: l)

def lastEnd : List Note → Int → Int
  | [], e => e
  | n :: l, _ => lastEnd l (n.onset + n.dur)

theorem durSum_contiguous : ∀ (c : List Note) (a : Note), Contiguous (a :: c) →
    durSum (a :: c) = lastEnd (a :: c) a.onset - a.onset := by
  intro c
  induction c with
  | nil => intro a _; simp [durSum, lastEnd]
  | cons b c ih =>
    intro a h
    obtain ⟨hb, hc⟩ := h
    have := ih b hc
    simp only [durSum, lastEnd] at this ⊢
    rw [this]
    omega

/-- the chain the model follows starts with the note itself -/
theorem chainFrom_head (notes : List Note) : ∀ (fuel : Nat) (n : Note) (c : List Note),
    chainFrom notes fuel n = some c → ∃ t, c = n :: t := by
  intro fuel
  cases fuel with
  | zero => intro n c h; simp [chainFrom] at h
  | succ f =>
    intro n c h
    unfold chainFrom at h
    split at h
    · simp at h; exact ⟨[], h.symm⟩
    · split at h
      · simp at h
      · simp only [Option.map_eq_some_iff] at h
        obtain ⟨t, _, rfl⟩ := h
        exact ⟨t, rfl⟩

/-- every link of the chain is a tie link of the note list -/
def Linked (notes : List Note) : List Note → Prop
  | [] => True
  | [a] => a.tieNext = none
  | a :: b :: l => (∃ j, a.tieNext = some j ∧ notes[j]? = some b) ∧ Linked notes (b :: l)

theorem chainFrom_linked (notes : List Note) : ∀ (fuel : Nat) (n : Note) (c : List Note),
    chainFrom notes fuel n = some c → Linked notes c := by
  intro fuel
  induction fuel with
  | zero => intro n c h; simp [chainFrom] at h
  | succ f ih =>
    intro n c h
    unfold chainFrom at h
    split at h
    · rename_i hn
      simp at h; subst h; exact hn
    · rename_i j hj
      split at h
      · simp at h
      · rename_i m hm
        simp only [Option.map_eq_some_iff] at h
        obtain ⟨t, hc, rfl⟩ := h
        obtain ⟨t', ht'⟩ := chainFrom_head notes f m t hc
        subst ht'
        exact ⟨⟨j, hj, hm⟩, ih m _ hc⟩

-- ------------------------------------------------------------------ rows

/-- the row the table holds for note `n` (voice pass applied) -/
def finalRow (M : Maps) (dv : Int) (n : Note) (d pch : Int) (m : Int) : Row :=
  { mkRow M dv n d pch n.step (alterOr0 n) n.octave with
    voice := if rawVoice n = -1 then m + 1 else rawVoice n }

theorem mkRow_voice (M : Maps) (dv : Int) (n : Note) (d p : Int) (s : String) (a o : Int) :
    (mkRow M dv n d p s a o).voice = rawVoice n := by
  unfold mkRow rawVoice; rfl

theorem fixVoice_mkRow (M : Maps) (dv : Int) (n : Note) (d pch m : Int) :
    fixVoice m (mkRow M dv n d pch n.step (alterOr0 n) n.octave) = finalRow M dv n d pch m := by
  unfold fixVoice finalRow
  rw [mkRow_voice]
  split
  · rfl
  · rename_i h
    have : (mkRow M dv n d pch n.step (alterOr0 n) n.octave).voice = rawVoice n := mkRow_voice ..
    cases hr : mkRow M dv n d pch n.step (alterOr0 n) n.octave
    rw [hr] at this
    simp at this
    simp [this]

theorem noteRow_spec (notes : List Note) (M : Maps) (dv : Int) (n : Note) (r : Row)
    (h : noteRow notes M dv n = some r) :
    ∃ d pch, durationTied notes n = some d ∧ Model.spellingToMidi n.step n.alter n.octave = some pch ∧
      r = mkRow M dv n d pch n.step (alterOr0 n) n.octave := by
  unfold noteRow at h
  cases hd : durationTied notes n with
  | none => simp [hd] at h
  | some d =>
    cases hp : Model.spellingToMidi n.step n.alter n.octave with
    | none => simp [hd, hp] at h
    | some pch =>
      simp [hd, hp] at h
      exact ⟨d, pch, rfl, rfl, by rw [← h]; rfl⟩

theorem forall₂_map_eq {α β γ : Type} (f : α → γ) (g : β → γ) {R : α → β → Prop}
    (hR : ∀ a b, R a b → f a = g b) : ∀ {l : List α} {l' : List β}, Forall₂ R l l' → l.map f = l'.map g := by
  intro l l' h
  induction h with
  | nil => rfl
  | cons hab _ ih => simp [hR _ _ hab, ih]

/-- what `rows` returns, before the sort: for every selected note, in order, its final row -/
theorem rows_structure (p : Part) (o : Opts) (out : List Row) (h : rows p o = some out) :
    ∃ dv rs, divsOf p o = some dv ∧
      out = sortRows rs ∧
      Forall₂ (fun n r => ∃ d pch m, durationTied p.notes n = some d ∧
          Model.spellingToMidi n.step n.alter n.octave = some pch ∧
          maxList ((notesTied p.notes).map rawVoice) = some m ∧
          r = finalRow p.maps dv n d pch m) (notesTied p.notes) rs := by
  unfold rows at h
  cases hdv : divsOf p o with
  | none => simp [hdv] at h
  | some dv =>
    cases hm : mapM' (noteRow p.notes p.maps dv) (notesTied p.notes) with
    | none => simp [hdv, hm] at h
    | some rs0 =>
      simp [hdv, hm] at h
      have hf := mapM'_forall₂ _ _ _ hm
      have hv : rs0.map (·.voice) = (notesTied p.notes).map rawVoice := by
        symm
        apply forall₂_map_eq rawVoice (·.voice) _ hf
        intro n r hr
        obtain ⟨d, pch, _, _, rfl⟩ := noteRow_spec _ _ _ _ _ hr
        exact (mkRow_voice ..).symm
      refine ⟨dv, sanitizeVoices rs0, rfl, h.symm, ?_⟩
      rw [sanitizeVoices_eq]
      cases hmax : maxList (rs0.map (·.voice)) with
      | none =>
        have := maxList_none hmax
        have hrs0 : rs0 = [] := by simpa using this
        subst hrs0
        rw [forall₂_nil_right_iff.mp hf]
        exact Forall₂.nil
      | some m =>
        simp only
        rw [forall₂_map_right_iff]
        apply hf.imp
        intro n r hr
        obtain ⟨d, pch, hd, hp, rfl⟩ := noteRow_spec _ _ _ _ _ hr
        exact ⟨d, pch, m, hd, hp, by rw [← hv]; exact hmax, fixVoice_mkRow ..⟩

-- ------------------------------------------------------------------ rest rows

/-- a row with the voice rule applied for note `n` -/
def withVoice (r0 : Row) (n : Note) (m : Int) : Row :=
  { r0 with voice := if rawVoice n = -1 then m + 1 else rawVoice n }

theorem fixVoice_withVoice (r0 : Row) (n : Note) (m : Int) (h : r0.voice = rawVoice n) :
    fixVoice m r0 = withVoice r0 n m := by
  unfold fixVoice withVoice
  rw [h]
  split
  · rfl
  · cases r0
    simp at h
    simp [h]

theorem restRow_spec (notes : List Note) (M : Maps) (n : Note) (r : Row)
    (h : restRow notes M n = some r) :
    ∃ d, durationTied notes n = some d ∧ r = mkRow M 0 n d 0 "0" 0 0 := by
  unfold restRow at h
  cases hd : durationTied notes n with
  | none => simp [hd] at h
  | some d =>
    simp [hd] at h
    exact ⟨d, rfl, by rw [← h]⟩

/-- what `restRows` (without collapsing) returns, before the sort -/
theorem restRows_structure (p : Part) (out : List Row) (h : restRows p false = some out) :
    ∃ rs, out = sortRows rs ∧
      Forall₂ (fun n r => ∃ d m, durationTied p.notes n = some d ∧
          maxList ((restsOf p.notes).map rawVoice) = some m ∧
          r = withVoice (mkRow p.maps 0 n d 0 "0" 0 0) n m) (restsOf p.notes) rs := by
  unfold restRows restRowsWith at h
  cases hm : mapM' (restRow p.notes p.maps) (restsOf p.notes) with
  | none => simp [hm] at h
  | some rs0 =>
    simp [hm] at h
    have hf := mapM'_forall₂ _ _ _ hm
    have hv : rs0.map (·.voice) = (restsOf p.notes).map rawVoice := by
      symm
      apply forall₂_map_eq rawVoice (·.voice) _ hf
      intro n r hr
      obtain ⟨d, _, rfl⟩ := restRow_spec _ _ _ _ hr
      exact (mkRow_voice ..).symm
    refine ⟨sanitizeVoices rs0, h.symm, ?_⟩
    rw [sanitizeVoices_eq]
    cases hmax : maxList (rs0.map (·.voice)) with
    | none =>
      have := maxList_none hmax
      have hrs0 : rs0 = [] := by simpa using this
      subst hrs0
      rw [forall₂_nil_right_iff.mp hf]
      exact Forall₂.nil
    | some m =>
      simp only
      rw [forall₂_map_right_iff]
      apply hf.imp
      intro n r hr
      obtain ⟨d, hd, rfl⟩ := restRow_spec _ _ _ _ hr
      exact ⟨d, m, hd, by rw [← hv]; exact hmax, fixVoice_withVoice _ n m (mkRow_voice ..)⟩

theorem forall₂_mem_right {α β : Type} {R : α → β → Prop} : ∀ {l : List α} {rs : List β},
    Forall₂ R l rs → ∀ r ∈ rs, ∃ n ∈ l, R n r := by
  intro l rs hf
  induction hf with
  | nil => intro r hr; simp at hr
  | cons hab _ ih =>
    intro r hr
    rcases mem_cons.mp hr with rfl | hr
    · exact ⟨_, mem_cons_self, hab⟩
    · obtain ⟨n, hn, hR⟩ := ih r hr
      exact ⟨n, mem_cons_of_mem _ hn, hR⟩

end NoteArray
