/-
Helper lemmas for C08 (Model/MatchTime.lean).
-/
import PartituraModel.Model.MatchTime
import PartituraModel.Proofs.Round
import Mathlib.Tactic.Linarith
import Mathlib.Tactic.FieldSimp
import Mathlib.Tactic.Ring
import Mathlib.Data.List.Perm.Basic
import Mathlib.Data.List.Perm.Subperm

namespace C08P
open Model Model.MatchTime

/-! ### the reader's de-duplication -/

theorem dropDeletions_sublist (ls : List Line) : (dropDeletions ls).Sublist ls := by
  unfold dropDeletions; exact List.filter_sublist

theorem dropInsertions_sublist (ls : List Line) : (dropInsertions ls).Sublist ls := by
  unfold dropInsertions; exact List.filter_sublist

theorem validate_sublist (ls : List Line) : (validate ls).Sublist ls :=
  (dropInsertions_sublist _).trans (dropDeletions_sublist _)

theorem mem_dropDeletions {ls : List Line} {l : Line} :
    l ∈ dropDeletions ls ↔ l ∈ ls ∧ ¬ (l.kind = .deletion ∧ ∃ s, l.sid = some s ∧ countSid ls s > 1) := by
  unfold dropDeletions
  rw [List.mem_filter]
  constructor
  · rintro ⟨h1, h2⟩
    refine ⟨h1, ?_⟩
    rintro ⟨hk, s, hs, hc⟩
    simp [hk, hs, hc] at h2
  · rintro ⟨h1, h2⟩
    refine ⟨h1, ?_⟩
    cases hs : l.sid with
    | none => simp
    | some s =>
      by_cases hk : l.kind = .deletion
      · have : ¬ countSid ls s > 1 := fun hc => h2 ⟨hk, s, hs, hc⟩
        simp [hk, this]
      · simp [hk]

theorem mem_dropInsertions {ls : List Line} {l : Line} :
    l ∈ dropInsertions ls ↔ l ∈ ls ∧ ¬ (l.kind = .insertion ∧ ∃ p, l.pid = some p ∧ countPid ls p > 1) := by
  unfold dropInsertions
  rw [List.mem_filter]
  constructor
  · rintro ⟨h1, h2⟩
    refine ⟨h1, ?_⟩
    rintro ⟨hk, p, hp, hc⟩
    simp [hk, hp, hc] at h2
  · rintro ⟨h1, h2⟩
    refine ⟨h1, ?_⟩
    cases hp : l.pid with
    | none => simp
    | some p =>
      by_cases hk : l.kind = .insertion
      · have : ¬ countPid ls p > 1 := fun hc => h2 ⟨hk, p, hp, hc⟩
        simp [hk, this]
      · simp [hk]

theorem countSid_sublist {a b : List Line} (h : a.Sublist b) (s : Nat) : countSid a s ≤ countSid b s := by
  unfold countSid
  exact (h.filter _).length_le

theorem countPid_sublist {a b : List Line} (h : a.Sublist b) (p : Nat) : countPid a p ≤ countPid b p := by
  unfold countPid
  exact (h.filter _).length_le

theorem countSid_pos {ls : List Line} {l : Line} {s : Nat} (hm : l ∈ ls) (hs : l.hasSnote = true)
    (hid : l.sid = some s) : 0 < countSid ls s := by
  unfold countSid
  apply List.length_pos_of_mem (a := l)
  rw [List.mem_filter]
  exact ⟨hm, by simp [hs, hid]⟩

theorem countPid_pos {ls : List Line} {l : Line} {p : Nat} (hm : l ∈ ls) (hs : l.hasNote = true)
    (hid : l.pid = some p) : 0 < countPid ls p := by
  unfold countPid
  apply List.length_pos_of_mem (a := l)
  rw [List.mem_filter]
  exact ⟨hm, by simp [hs, hid]⟩

/-- two different members of a list that both satisfy `q` make the filtered length at least 2 -/
theorem two_le_filter_length {α : Type} [DecidableEq α] {l : List α} {q : α → Bool} {a b : α}
    (ha : a ∈ l) (hb : b ∈ l) (hab : a ≠ b) (qa : q a = true) (qb : q b = true) :
    2 ≤ (l.filter q).length := by
  have ha' : a ∈ l.filter q := List.mem_filter.mpr ⟨ha, qa⟩
  have hb' : b ∈ l.filter q := List.mem_filter.mpr ⟨hb, qb⟩
  have hsub : [a, b].Subperm (l.filter q) := by
    apply List.subperm_of_subset
    · simp [hab]
    · intro x hx
      simp at hx
      rcases hx with rfl | rfl <;> assumption
  simpa using hsub.length_le

theorem countSid_perm {a b : List Line} (h : a.Perm b) (s : Nat) : countSid a s = countSid b s := by
  unfold countSid; exact (h.filter _).length_eq

theorem countPid_perm {a b : List Line} (h : a.Perm b) (p : Nat) : countPid a p = countPid b p := by
  unfold countPid; exact (h.filter _).length_eq

theorem filter_eq_self_of_forall {α : Type} {l : List α} {q : α → Bool} (h : ∀ x ∈ l, q x = true) :
    l.filter q = l := List.filter_eq_self.mpr h

/-! ### rounding near an integer -/

theorem roundHalfEven_near (r : Rat) (z : Int) (h : |r - (z : Rat)| < 1 / 2) : roundHalfEven r = z := by
  have hc := Round.roundHalfEven_close r
  rw [abs_le] at hc
  rw [abs_lt] at h
  have h1 : ((roundHalfEven r : Int) : Rat) - (z : Rat) < 1 := by linarith
  have h2 : -1 < ((roundHalfEven r : Int) : Rat) - (z : Rat) := by linarith
  have h1' : roundHalfEven r - z < 1 := by exact_mod_cast h1
  have h2' : -1 < roundHalfEven r - z := by exact_mod_cast h2
  omega

end C08P
