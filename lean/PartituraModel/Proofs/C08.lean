/-
Helper lemmas for C08 (Model/MatchTime.lean).
-/
import PartituraModel.Model.MatchTime
import PartituraModel.Proofs.Round
import Mathlib.Tactic.Linarith
import Mathlib.Tactic.FieldSimp
import Mathlib.Tactic.Ring
import Mathlib.Data.List.Perm.Basic
import Mathlib.Data.List.Perm.Subperm

namespace C08P
open Model Model.MatchTime

/-! ### the reader's de-duplication -/

theorem dropDeletions_sublist (ls : List Line) : (dropDeletions ls).Sublist ls := by
  unfold dropDeletions; exact List.filter_sublist

theorem dropInsertions_sublist (ls : List Line) : (dropInsertions ls).Sublist ls := by
  unfold dropInsertions; exact List.filter_sublist

theorem validate_sublist (ls : List Line) : (validate ls).Sublist ls :=
  (dropInsertions_sublist _).trans (dropDeletions_sublist _)

theorem mem_dropDeletions {ls : List Line} {l : Line} :
    l ∈ dropDeletions ls ↔ l ∈ ls ∧ ¬ (l.kind = .deletion ∧ ∃ s, l.sid = some s ∧ countSid ls s > 1) := by
  unfold dropDeletions
  rw [List.mem_filter]
  constructor
  · rintro ⟨h1, h2⟩
    refine ⟨h1, ?_⟩
    rintro ⟨hk, s, hs, hc⟩
    simp [hk, hs, hc] at h2
  · rintro ⟨h1, h2⟩
    refine ⟨h1, ?_⟩
    cases hs : l.sid with
    | none => simp
    | some s =>
      by_cases hk : l.kind = .deletion
      · have : ¬ countSid ls s > 1 := fun hc => h2 ⟨hk, s, hs, hc⟩
        simp [hk, this]
      · simp [hk]

theorem mem_dropInsertions {ls : List Line} {l : Line} :
    l ∈ dropInsertions ls ↔ l ∈ ls ∧ ¬ (l.kind = .insertion ∧ ∃ p, l.pid = some p ∧ countPid ls p > 1) := by
  unfold dropInsertions
  rw [List.mem_filter]
  constructor
  · rintro ⟨h1, h2⟩
    refine ⟨h1, ?_⟩
    rintro ⟨hk, p, hp, hc⟩
    simp [hk, hp, hc] at h2
  · rintro ⟨h1, h2⟩
    refine ⟨h1, ?_⟩
    cases hp : l.pid with
    | none => simp
    | some p =>
      by_cases hk : l.kind = .insertion
      · have : ¬ countPid ls p > 1 := fun hc => h2 ⟨hk, p, hp, hc⟩
        simp [hk, this]
      · simp [hk]

theorem countSid_sublist {a b : List Line} (h : a.Sublist b) (s : Nat) : countSid a s ≤ countSid b s := by
  unfold countSid
  exact (h.filter _).length_le

theorem countPid_sublist {a b : List Line} (h : a.Sublist b) (p : Nat) : countPid a p ≤ countPid b p := by
  unfold countPid
  exact (h.filter _).length_le

theorem countSid_pos {ls : List Line} {l : Line} {s : Nat} (hm : l ∈ ls) (hs : l.hasSnote = true)
    (hid : l.sid = some s) : 0 < countSid ls s := by
  unfold countSid
  apply List.length_pos_of_mem (a := l)
  rw [List.mem_filter]
  exact ⟨hm, by simp [hs, hid]⟩

theorem countPid_pos {ls : List Line} {l : Line} {p : Nat} (hm : l ∈ ls) (hs : l.hasNote = true)
    (hid : l.pid = some p) : 0 < countPid ls p := by
  unfold countPid
  apply List.length_pos_of_mem (a := l)
  rw [List.mem_filter]
  exact ⟨hm, by simp [hs, hid]⟩

/-- two different members of a list that both satisfy `q` make the filtered length at least 2 -/
theorem two_le_filter_length {α : Type} [DecidableEq α] {l : List α} {q : α → Bool} {a b : α}
    (ha : a ∈ l) (hb : b ∈ l) (hab : a ≠ b) (qa : q a = true) (qb : q b = true) :
    2 ≤ (l.filter q).length := by
  have ha' : a ∈ l.filter q := List.mem_filter.mpr ⟨ha, qa⟩
  have hb' : b ∈ l.filter q := List.mem_filter.mpr ⟨hb, qb⟩
  have hsub : [a, b].Subperm (l.filter q) := by
    apply List.subperm_of_subset
    · simp [hab]
    · intro x hx
      simp at hx
      rcases hx with rfl | rfl <;> assumption
  simpa using hsub.length_le

theorem countSid_perm {a b : List Line} (h : a.Perm b) (s : Nat) : countSid a s = countSid b s := by
  unfold countSid; exact (h.filter _).length_eq

theorem countPid_perm {a b : List Line} (h : a.Perm b) (p : Nat) : countPid a p = countPid b p := by
  unfold countPid; exact (h.filter _).length_eq

theorem filter_eq_self_of_forall {α : Type} {l : List α} {q : α → Bool} (h : ∀ x ∈ l, q x = true) :
    l.filter q = l := List.filter_eq_self.mpr h

/-! ### rounding near an integer -/

theorem roundHalfEven_near (r : Rat) (z : Int) (h : |r - (z : Rat)| < 1 / 2) : roundHalfEven r = z := by
  have hc := Round.roundHalfEven_close r
  rw [abs_le] at hc
  rw [abs_lt] at h
  have h1 : ((roundHalfEven r : Int) : Rat) - (z : Rat) < 1 := by linarith
  have h2 : -1 < ((roundHalfEven r : Int) : Rat) - (z : Rat) := by linarith
  have h1' : roundHalfEven r - z < 1 := by exact_mod_cast h1
  have h2' : -1 < roundHalfEven r - z := by exact_mod_cast h2
  omega


/-! ### exporter arithmetic -/

theorem encOffset_eq (divs den : Nat) (rel : Int) :
    encOffset divs den rel =
      ((rel * (den : Int) - encBeat divs den rel * (4 * (divs : Int)) : Int) : Rat) / ((4 * divs * den : Nat) : Rat) := by
  unfold encOffset
  rw [Rat.mkRat_eq_div]

/-- beat (in beats of type `den`) plus offset (in whole notes) is the distance from the bar line in quarters -/
theorem enc_position (divs den : Nat) (hd : 0 < divs) (hn : 0 < den) (rel : Int) :
    ((encBeat divs den rel : Int) : Rat) * 4 / (den : Rat) + 4 * encOffset divs den rel = (rel : Rat) / (divs : Rat) := by
  rw [encOffset_eq]
  have h1 : ((divs : Nat) : Rat) ≠ 0 := by exact_mod_cast (Nat.pos_iff_ne_zero.mp hd)
  have h2 : ((den : Nat) : Rat) ≠ 0 := by exact_mod_cast (Nat.pos_iff_ne_zero.mp hn)
  push_cast
  field_simp
  ring

/-- the offset is a non-negative fraction of one beat -/
theorem enc_offset_range (divs den : Nat) (hd : 0 < divs) (hn : 0 < den) (rel : Int) :
    0 ≤ encOffset divs den rel ∧ encOffset divs den rel < 1 / (den : Rat) := by
  rw [encOffset_eq]
  have hpos : (0 : Int) < 4 * (divs : Int) := by omega
  have hmod : rel * (den : Int) - encBeat divs den rel * (4 * (divs : Int)) = (rel * (den : Int)) % (4 * (divs : Int)) := by
    unfold encBeat
    have := Int.emod_add_mul_ediv (rel * (den : Int)) (4 * (divs : Int))
    linarith [Int.mul_comm ((rel * (den : Int)) / (4 * (divs : Int))) (4 * (divs : Int))]
  rw [hmod]
  have h0 : 0 ≤ (rel * (den : Int)) % (4 * (divs : Int)) := Int.emod_nonneg _ (by omega)
  have h1 : (rel * (den : Int)) % (4 * (divs : Int)) < 4 * (divs : Int) := Int.emod_lt_of_pos _ hpos
  have hD : (0 : Rat) < ((4 * divs * den : Nat) : Rat) := by
    have : 0 < 4 * divs * den := by positivity
    exact_mod_cast this
  have hden : (0 : Rat) < (den : Rat) := by exact_mod_cast hn
  constructor
  · apply div_nonneg
    · exact_mod_cast h0
    · exact le_of_lt hD
  · rw [div_lt_div_iff₀ hD hden]
    have h1' : (((rel * (den : Int)) % (4 * (divs : Int)) : Int) : Rat) < ((4 * (divs : Int) : Int) : Rat) := by exact_mod_cast h1
    push_cast at h1' ⊢
    nlinarith

/-- the beat is the number of whole beats before the note (0-based) when the note is inside the measure -/
theorem encBeat_nonneg (divs den : Nat) (hd : 0 < divs) (rel : Int) (hr : 0 ≤ rel) : 0 ≤ encBeat divs den rel := by
  unfold encBeat
  apply Int.ediv_nonneg
  · positivity
  · omega

/-! ### fractions as the file holds them -/

theorem Frac.ofRat_val (r : Rat) (h : 0 ≤ r) : (Frac.ofRat r).val = r := by
  unfold Frac.ofRat Frac.val
  have hn : 0 ≤ r.num := Rat.num_nonneg.mpr h
  have : ((r.num.toNat : Nat) : Rat) = (r.num : Rat) := by
    have := Int.toNat_of_nonneg hn
    exact_mod_cast this
  simp only [this, Nat.cast_one, mul_one]
  exact Rat.num_div_den r

theorem truncRat_int (z : Int) (h : 0 ≤ z) : truncRat (z : Rat) = z := by
  unfold truncRat
  have : (0 : Rat) ≤ (z : Rat) := by exact_mod_cast h
  simp [this, Rat.floor_intCast]

theorem encDur_eq (divs : Nat) (d : Int) : encDur divs d = (d : Rat) / ((4 * divs : Nat) : Rat) := by
  unfold encDur; rw [Rat.mkRat_eq_div]

/-! ### divisions: lcm of the denominators -/

theorem foldl_lcm_dvd (l : List Nat) : ∀ init : Nat, init ∣ l.foldl Nat.lcm init ∧ ∀ a ∈ l, a ∣ l.foldl Nat.lcm init := by
  induction l with
  | nil => intro init; simp
  | cons x rest ih =>
    intro init
    simp only [List.foldl_cons, List.mem_cons]
    obtain ⟨h1, h2⟩ := ih (Nat.lcm init x)
    refine ⟨(Nat.dvd_lcm_left init x).trans h1, ?_⟩
    rintro a (rfl | ha)
    · exact (Nat.dvd_lcm_right init a).trans h1
    · exact h2 a ha

theorem dvd_natLcm {l : List Nat} {a : Nat} (h : a ∈ l) : a ∣ natLcm l := (foldl_lcm_dvd l 1).2 a h

theorem natLcm_pos {l : List Nat} (h : ∀ a ∈ l, 0 < a) : 0 < natLcm l := by
  unfold natLcm
  suffices ∀ init, 0 < init → 0 < l.foldl Nat.lcm init from this 1 (by decide)
  induction l with
  | nil => intro init hi; simpa
  | cons x rest ih =>
    intro init hi
    simp only [List.foldl_cons]
    exact ih (fun a ha => h a (by simp [ha])) _ (Nat.lcm_pos hi (h x (by simp)))

/-! ### four-decimal beat times -/

theorem dec4_close (x : Rat) : |dec4 x - x| ≤ 1 / 20000 := by
  unfold dec4
  have h := Round.roundHalfEven_close (x * 10000)
  rw [abs_le] at h ⊢
  constructor <;> linarith


/-! ### one beat type throughout: both beat maps are linear -/

theorem rawBeats_uniform (divs den0 : Nat) (ts : List TSig) (s : TSig) (h : ∀ x ∈ s :: ts, x.den = den0) (t : Int) :
    rawBeats divs (s :: ts) t = ((t - s.t : Int) : Rat) * (den0 : Rat) / (4 * (divs : Rat)) := by
  induction ts generalizing s with
  | nil => simp [rawBeats, h s (by simp)]
  | cons s' rest ih =>
    unfold rawBeats
    have hs : s.den = den0 := h s (by simp)
    have ih' := ih s' (fun x hx => h x (by simp at hx ⊢; right; exact hx))
    split
    · rw [hs]
    · rw [ih', hs]
      push_cast
      ring

theorem mem_of_getLast? {α : Type} {l : List α} {a : α} (h : l.getLast? = some a) : a ∈ l :=
  List.mem_of_getLast? h

theorem tsQuarters_uniform (den0 : Nat) : ∀ (ts : List TSLine) (q0 : Rat), (∀ x ∈ ts, x.den = den0) →
    (∀ a rest, ts = a :: rest → q0 = a.timeB * 4 / (den0 : Rat)) →
    ∀ p ∈ tsQuarters ts q0, p.2 = p.1.timeB * 4 / (den0 : Rat) := by
  intro ts
  induction ts with
  | nil => intro q0 _ _ p hp; simp [tsQuarters] at hp
  | cons a rest ih =>
    intro q0 h hq0 p hp
    have hq : q0 = a.timeB * 4 / (den0 : Rat) := hq0 a rest rfl
    cases rest with
    | nil =>
      simp [tsQuarters] at hp
      rw [hp]; exact hq
    | cons b rest' =>
      unfold tsQuarters at hp
      simp only [List.mem_cons] at hp
      rcases hp with rfl | hp
      · exact hq
      · have ha : a.den = den0 := h a (by simp)
        refine ih _ (fun x hx => h x (by simp at hx ⊢; right; exact hx)) ?_ p hp
        intro a' r hr
        have hb : a' = b := (List.cons.inj hr).1.symm
        rw [hb, hq, ha]
        by_cases hz : (den0 : Rat) = 0
        · simp [hz]
        · field_simp
          ring

/-- with one beat type the importer's beats→quarters map is `b ↦ 4b/den` whatever the changes of beat count -/
theorem beatsToQuarters_uniform (den0 : Nat) (ts : List TSLine) (h : ∀ x ∈ ts, x.den = den0) (hne : ts ≠ [])
    (b : Rat) : beatsToQuarters ts b = b * 4 / (den0 : Rat) := by
  cases ts with
  | nil => exact absurd rfl hne
  | cons s rest =>
    have hs : s.den = den0 := h s (by simp)
    unfold beatsToQuarters
    simp only
    have hinv := tsQuarters_uniform den0 (s :: rest) (s.timeB * 4 / (s.den : Rat)) h
      (fun a r hr => by rw [(List.cons.inj hr).1, ← (List.cons.inj hr).1, hs])
    split
    · rename_i x q hlast
      have hmem : (x, q) ∈ tsQuarters (s :: rest) (s.timeB * 4 / (s.den : Rat)) :=
        (List.mem_filter.mp (List.mem_of_getLast? hlast)).1
      have hq := hinv (x, q) hmem
      have hx : x.den = den0 := by
        have : ∀ p ∈ tsQuarters (s :: rest) (s.timeB * 4 / (s.den : Rat)), p.1 ∈ s :: rest := by
          intro p hp
          clear hinv hlast hmem hq
          generalize (s.timeB * 4 / (s.den : Rat)) = q0 at hp
          induction rest generalizing s q0 with
          | nil => simp [tsQuarters] at hp; simp [hp]
          | cons b r ih =>
            unfold tsQuarters at hp
            simp only [List.mem_cons] at hp
            rcases hp with rfl | hp
            · simp
            · have := ih b (fun x hx => h x (by simp at hx ⊢; right; exact hx)) (by simp) (h b (by simp)) _ hp
              simp at this ⊢
              right; exact this
        exact h x (this (x, q) hmem)
      simp only at hq
      rw [hq, hx]
      ring
    · rw [hs]; ring

theorem denAtBeats_uniform (den0 : Nat) (ts : List TSLine) (h : ∀ x ∈ ts, x.den = den0) (hne : ts ≠ [])
    (maxTime b : Rat) : denAtBeats ts maxTime b = den0 := by
  cases ts with
  | nil => exact absurd rfl hne
  | cons s rest =>
    unfold denAtBeats
    simp only
    split
    · rename_i p hlast
      have hmem := (List.mem_filter.mp (List.mem_of_getLast? hlast)).1
      have hperm : ∀ (l : List (Rat × Nat)) (le : (Rat × Nat) → (Rat × Nat) → Bool) (x : Rat × Nat),
          x ∈ sortBy le l → x ∈ l := by
        intro l le
        induction l with
        | nil => intro x hx; simpa [sortBy] using hx
        | cons a r ih =>
          intro x hx
          unfold sortBy at hx
          have hins : ∀ (l' : List (Rat × Nat)) (y : Rat × Nat), y ∈ insertBy le a l' → y = a ∨ y ∈ l' := by
            intro l'
            induction l' with
            | nil => intro y hy; simp [insertBy] at hy; exact Or.inl hy
            | cons c r' ih' =>
              intro y hy
              unfold insertBy at hy
              split at hy
              · simp at hy ⊢; tauto
              · simp at hy ⊢
                rcases hy with rfl | hy
                · tauto
                · rcases ih' y hy with h1 | h1 <;> tauto
          rcases hins _ x hx with rfl | h2
          · simp
          · simp; right; exact ih x h2
      have := hperm _ _ p hmem
      simp only [List.mem_append, List.mem_map, List.mem_singleton] at this
      rcases this with ⟨x, hx, rfl⟩ | rfl
      · exact h x hx
      · have : ((s :: rest).getLast?.getD s) ∈ s :: rest := by
          cases hl : (s :: rest).getLast? with
          | none => simp
          | some y => simp; have := List.mem_of_getLast? hl; simpa using this
        exact h _ this
    · exact h s (by simp)

end C08P
