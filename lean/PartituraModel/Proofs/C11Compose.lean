/-
C11 (round 6) — what a tiling by measures (`C11Meas.TN`, what `add_measures` produces) gives to the functions that run
after it: the measure starts are in time order (the hypothesis of `tie_notes_within_measures`), and an interval of the
timeline that no measure starts strictly inside lies within ONE measure.
-/
import PartituraModel.Proofs.C11Meas

namespace C11Compose
open Model Model.Dur Model.Meas C11Meas

theorem tn_first_le : ∀ (l : List Measure) (a b : Nat) (k k' : Int), TN a k l b k' → ∀ m ∈ l, a ≤ m.start := by
  intro l a b k k' h m hm
  exact ((tn_disjoint l a b k k' h).2 m hm).1

/-- the starts of a tiling are in time order (strictly, measures being non-empty) -/
theorem tn_starts_sorted : ∀ (l : List Measure) (a b : Nat) (k k' : Int), TN a k l b k' →
    (l.map (·.start)).Pairwise (· ≤ ·) := by
  intro l
  induction l with
  | nil => intro a b k k' _; exact List.Pairwise.nil
  | cons m rest ih =>
    intro a b k k' h
    obtain ⟨_, e2, _, e4⟩ := (tn_cons ..).mp h
    rw [List.map_cons, List.pairwise_cons]
    refine ⟨?_, ih _ _ _ _ e4⟩
    intro s hs
    obtain ⟨m', hm', rfl⟩ := List.mem_map.mp hs
    have := tn_first_le rest _ _ _ _ e4 m' hm'
    omega

/-- **within one measure**: in a tiling of `[a, b)` an interval `[s, e)` of the timeline that no measure starts
    strictly inside lies within one measure -/
theorem tn_within : ∀ (l : List Measure) (a b : Nat) (k k' : Int), TN a k l b k' →
    ∀ s e : Nat, a ≤ s → s < e → e ≤ b → (∀ m ∈ l, ¬ (s < m.start ∧ m.start < e)) →
    ∃ m ∈ l, m.start ≤ s ∧ e ≤ m.stop := by
  intro l
  induction l with
  | nil => intro a b k k' h s e h1 h2 h3 _; have := h.1; omega
  | cons m rest ih =>
    intro a b k k' h s e h1 h2 h3 hno
    obtain ⟨e1, e2, _, e4⟩ := (tn_cons ..).mp h
    by_cases hs : s < m.stop
    · refine ⟨m, List.mem_cons_self, by omega, ?_⟩
      by_contra hlt
      have hlt' : m.stop < e := by omega
      cases rest with
      | nil => have := e4.1; omega
      | cons m2 rest2 =>
        obtain ⟨f1, _, _, _⟩ := (tn_cons ..).mp e4
        exact hno m2 (List.mem_cons_of_mem _ List.mem_cons_self) ⟨by omega, by omega⟩
    · obtain ⟨m', hm', hh⟩ := ih _ _ _ _ e4 s e (by omega) h2 h3
        (fun x hx => hno x (List.mem_cons_of_mem _ hx))
      exact ⟨m', List.mem_cons_of_mem _ hm', hh⟩

theorem tn_nonempty : ∀ (l : List Measure) (a b : Nat) (k k' : Int), TN a k l b k' → ∀ m ∈ l, m.start < m.stop := by
  intro l
  induction l with
  | nil => intro a b k k' _ m hm; cases hm
  | cons m0 rest ih =>
    intro a b k k' h m hm
    obtain ⟨_, e2, _, e4⟩ := (tn_cons ..).mp h
    rcases List.mem_cons.mp hm with rfl | hm
    · exact e2
    · exact ih _ _ _ _ e4 m hm

/-- the extents of a tiling, as `fill_rests` reads them: pairwise disjoint and non-empty -/
theorem tn_sep (l : List Measure) (a b : Nat) (k k' : Int) (h : TN a k l b k') :
    (l.map ext).Pairwise (fun x y => x.2 ≤ y.1 ∨ y.2 ≤ x.1) ∧ ∀ x ∈ l.map ext, x.1 < x.2 := by
  constructor
  · rw [List.pairwise_map]
    exact (tn_disjoint l a b k k' h).1.imp (fun hxy => Or.inl hxy)
  · intro x hx
    obtain ⟨m, hm, rfl⟩ := List.mem_map.mp hx
    exact tn_nonempty l a b k k' h m hm

end C11Compose
