/-
C18 — helper lemmas: sums and means, velocity rounding, normalisation algebra.
-/
import PartituraModel.Model.Codec
import PartituraModel.Proofs.Round
import Mathlib.Tactic.Linarith
import Mathlib.Tactic.FieldSimp
import Mathlib.Tactic.Ring
import Mathlib.Tactic.Push
import Mathlib.Algebra.Order.Field.Rat
import Mathlib.Algebra.Order.Ring.Abs

namespace C18P
open Model Model.Codec

theorem sumR_replicate_map {α : Type} (l : List α) (b : Rat) :
    sumR (l.map fun _ => b) = (l.length : Rat) * b := by
  induction l with
  | nil => simp [sumR]
  | cons a as ih =>
    simp only [List.map_cons, sumR, ih, List.length_cons]
    push_cast
    ring

/-- the mean of a non-empty list of equal numbers is that number -/
theorem mean_const {α : Type} (l : List α) (b : Rat) (h : l ≠ []) :
    mean (l.map fun _ => b) = b := by
  unfold mean
  rw [sumR_replicate_map, List.length_map]
  have : (l.length : Rat) ≠ 0 := by
    have : l.length ≠ 0 := fun h0 => h (List.length_eq_zero_iff.mp h0)
    exact_mod_cast this
  field_simp

theorem sumR_nonneg (l : List Rat) (h : ∀ x ∈ l, 0 ≤ x) : 0 ≤ sumR l := by
  induction l with
  | nil => simp [sumR]
  | cons a as ih =>
    simp only [sumR]
    have h1 := h a (by simp)
    have h2 := ih (fun x hx => h x (by simp [hx]))
    linarith

theorem sumR_eq_zero (l : List Rat) (h : ∀ x ∈ l, 0 ≤ x) (h0 : sumR l = 0) : ∀ x ∈ l, x = 0 := by
  induction l with
  | nil => simp
  | cons a as ih =>
    simp only [sumR] at h0
    have h1 := h a (by simp)
    have h2 := sumR_nonneg as (fun x hx => h x (by simp [hx]))
    intro x hx
    rcases List.mem_cons.mp hx with rfl | hx
    · linarith
    · exact ih (fun y hy => h y (by simp [hy])) (by linarith) x hx

/-- `np.var`: mean squared deviation from the mean -/
def variance (l : List Rat) : Rat := mean (l.map fun b => (b - mean l) * (b - mean l))

/-- zero variance: every entry equals the mean -/
theorem eq_mean_of_variance_zero (l : List Rat) (h : variance l = 0) : ∀ b ∈ l, b = mean l := by
  intro b hb
  have hne : l ≠ [] := by intro h0; simp [h0] at hb
  have hlen : (l.length : Rat) ≠ 0 := by
    have : l.length ≠ 0 := fun h0 => hne (List.length_eq_zero_iff.mp h0)
    exact_mod_cast this
  unfold variance mean at h
  rw [List.length_map] at h
  have hs : sumR (l.map fun b => (b - sumR l / (l.length : Rat)) * (b - sumR l / (l.length : Rat))) = 0 := by
    rcases div_eq_zero_iff.mp h with h | h
    · exact h
    · exact absurd h hlen
  have := sumR_eq_zero _ (by
    intro x hx
    rcases List.mem_map.mp hx with ⟨c, _, rfl⟩
    exact mul_self_nonneg _) hs ((b - sumR l / (l.length : Rat)) * (b - sumR l / (l.length : Rat)))
    (List.mem_map.mpr ⟨b, hb, rfl⟩)
  have h2 : b - sumR l / (l.length : Rat) = 0 := mul_self_eq_zero.mp this
  unfold mean
  linarith

/-- rounding a number closer than 1/2 to an integer gives that integer -/
theorem roundHalfEven_near (v : Int) (x : Rat) (h : |x - (v : Rat)| < 1 / 2) : roundHalfEven x = v := by
  have hc := Round.roundHalfEven_close x
  have h1 := abs_lt.mp h
  have h2 := abs_le.mp hc
  have : |((roundHalfEven x : Int) : Rat) - (v : Rat)| < 1 := by
    rw [abs_lt]; constructor <;> linarith [h1.1, h1.2, h2.1, h2.2]
  have h3 : |(((roundHalfEven x - v : Int)) : Rat)| < 1 := by push_cast; exact this
  have h4 : |roundHalfEven x - v| < 1 := by exact_mod_cast h3
  have := Int.abs_lt_one_iff.mp h4
  omega

end C18P
