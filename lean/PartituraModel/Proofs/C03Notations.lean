/-
C03 — the note element codec: the `<notations>` of a written note read back (fermata, articulations, fingering,
slur and tuplet elements).
-/
import PartituraModel.Proofs.C03Note

namespace C03.Note
open Model Model.XmlNote C03.Text

/-! ### tags of the pieces of `<notations>` -/

theorem tag_fermataEl (n : NoteAttrs) : ∀ x ∈ (if n.fermata then [empty .fermata] else []), x.tag = .fermata := by
  split <;> simp [empty, Xml.tag]

theorem tag_articulationsEl (n : NoteAttrs) : ∀ x ∈ articulationsEl n, x.tag = .articulations := by
  unfold articulationsEl; split <;> simp [Xml.tag]

theorem tag_technicalEl (n : NoteAttrs) : ∀ x ∈ technicalEl n, x.tag = .technical := by
  unfold technicalEl; split <;> simp [Xml.tag]

theorem tag_rangeEls (t : Tag) (typ : Str) (l : List Nat) : ∀ x ∈ l.map (rangeEl t typ), x.tag = t := by
  intro x hx
  obtain ⟨k, _, rfl⟩ := List.mem_map.mp hx
  rfl

theorem tag_tupletStarts (l : List TupletStart) : ∀ x ∈ l.map tupletStartEl, x.tag = .tuplet := by
  intro x hx
  obtain ⟨k, _, rfl⟩ := List.mem_map.mp hx
  rfl

theorem findall_notationKids (t : Tag) (n : NoteAttrs) :
    findall t (notationKids n) = findall t (tieEls .tied n) ++ findall t (if n.fermata then [empty .fermata] else []) ++
      findall t (articulationsEl n) ++ findall t (technicalEl n) ++
      findall t (n.slurStops.map (rangeEl .slur ['s', 't', 'o', 'p'])) ++
      findall t (n.slurStarts.map (rangeEl .slur ['s', 't', 'a', 'r', 't'])) ++
      findall t (n.tupletStops.map (rangeEl .tuplet ['s', 't', 'o', 'p'])) ++
      findall t (n.tupletStarts.map tupletStartEl) := by
  simp [notationKids, findall_append]

theorem fn_fermata (n : NoteAttrs) : findall .fermata (notationKids n) = if n.fermata then [empty .fermata] else [] := by
  rw [findall_notationKids, findall_all (tag_fermataEl n), one (tag_tieEls .tied n) (by decide),
    one (tag_articulationsEl n) (by decide), one (tag_technicalEl n) (by decide),
    one (tag_rangeEls .slur _ _) (by decide), one (tag_rangeEls .slur _ _) (by decide),
    one (tag_rangeEls .tuplet _ _) (by decide), one (tag_tupletStarts _) (by decide)]
  simp

theorem fn_articulations (n : NoteAttrs) : findall .articulations (notationKids n) = articulationsEl n := by
  rw [findall_notationKids, findall_all (tag_articulationsEl n), one (tag_tieEls .tied n) (by decide),
    one (tag_fermataEl n) (by decide), one (tag_technicalEl n) (by decide),
    one (tag_rangeEls .slur _ _) (by decide), one (tag_rangeEls .slur _ _) (by decide),
    one (tag_rangeEls .tuplet _ _) (by decide), one (tag_tupletStarts _) (by decide)]
  simp

theorem fn_technical (n : NoteAttrs) : findall .technical (notationKids n) = technicalEl n := by
  rw [findall_notationKids, findall_all (tag_technicalEl n), one (tag_tieEls .tied n) (by decide),
    one (tag_fermataEl n) (by decide), one (tag_articulationsEl n) (by decide),
    one (tag_rangeEls .slur _ _) (by decide), one (tag_rangeEls .slur _ _) (by decide),
    one (tag_rangeEls .tuplet _ _) (by decide), one (tag_tupletStarts _) (by decide)]
  simp

theorem fn_slur (n : NoteAttrs) : findall .slur (notationKids n) =
    n.slurStops.map (rangeEl .slur ['s', 't', 'o', 'p']) ++ n.slurStarts.map (rangeEl .slur ['s', 't', 'a', 'r', 't']) := by
  rw [findall_notationKids, findall_all (tag_rangeEls .slur ['s', 't', 'o', 'p'] _),
    findall_all (tag_rangeEls .slur ['s', 't', 'a', 'r', 't'] _), one (tag_tieEls .tied n) (by decide),
    one (tag_fermataEl n) (by decide), one (tag_articulationsEl n) (by decide), one (tag_technicalEl n) (by decide),
    one (tag_rangeEls .tuplet _ _) (by decide), one (tag_tupletStarts _) (by decide)]
  simp

theorem fn_tuplet (n : NoteAttrs) : findall .tuplet (notationKids n) =
    n.tupletStops.map (rangeEl .tuplet ['s', 't', 'o', 'p']) ++ n.tupletStarts.map tupletStartEl := by
  rw [findall_notationKids, findall_all (tag_rangeEls .tuplet ['s', 't', 'o', 'p'] _),
    findall_all (tag_tupletStarts _), one (tag_tieEls .tied n) (by decide),
    one (tag_fermataEl n) (by decide), one (tag_articulationsEl n) (by decide), one (tag_technicalEl n) (by decide),
    one (tag_rangeEls .slur _ _) (by decide), one (tag_rangeEls .slur _ _) (by decide)]
  simp

/-! ### `<notations>` itself -/

theorem notationsOf_noteKids (n : NoteAttrs) : notationsOf (noteKids n) = notationKids n := by
  unfold notationsOf find
  rw [fa_notations]
  unfold notationsEl
  by_cases h : notationKids n = []
  · simp [h]
  · simp [h, Xml.kids]

theorem findPath_notations (t : Tag) (n : NoteAttrs) :
    findPath .notations t (noteKids n) = (findall t (notationKids n)).head? := by
  unfold findPath
  rw [fa_notations]
  unfold notationsEl
  by_cases h : notationKids n = []
  · simp [h, findall]
  · simp [h, Xml.kids]

theorem read_fermata (n : NoteAttrs) : (find .fermata (notationsOf (noteKids n))).isSome = n.fermata := by
  rw [notationsOf_noteKids]
  unfold find
  rw [fn_fermata]
  split <;> simp_all

/-! ### articulations and fingering -/

def artsOf (arts : List ArtName) : List Artic :=
  arts.filterMap fun a => match a with
    | .known k => some k
    | .unknown => none

def fingsOf (ts : List Tech) : List Nat :=
  ts.filterMap fun t => match t with
    | .fingering f => some f
    | .otherNotation => none

def tagArtic (k : Xml) : Option Artic := match k.tag with | .artic x => some x | _ => none

theorem articEls_cons_k (k : Artic) (r : List ArtName) : articEls (.known k :: r) = empty (.artic k) :: articEls r := by
  simp [articEls]

theorem articEls_cons_u (r : List ArtName) : articEls (.unknown :: r) = articEls r := by
  simp [articEls]

theorem artsOf_cons_k (k : Artic) (r : List ArtName) : artsOf (.known k :: r) = k :: artsOf r := by
  simp [artsOf]

theorem artsOf_cons_u (r : List ArtName) : artsOf (.unknown :: r) = artsOf r := by
  simp [artsOf]

theorem articEls_read (arts : List ArtName) : (articEls arts).filterMap tagArtic = artsOf arts := by
  induction arts with
  | nil => rfl
  | cons a r ih =>
    cases a with
    | known k =>
      rw [articEls_cons_k, artsOf_cons_k, List.filterMap_cons]
      simp only [tagArtic, empty, Xml.tag]
      rw [← ih]
    | unknown =>
      rw [articEls_cons_u, artsOf_cons_u]
      exact ih

theorem read_arts (n : NoteAttrs) : readArts (noteKids n) = artsOf n.arts := by
  unfold readArts
  rw [findPath_notations, fn_articulations]
  unfold articulationsEl
  have hr := articEls_read n.arts
  by_cases h : articEls n.arts = []
  · rw [h] at hr
    simp only [h, if_true, List.head?_nil]
    simpa using hr
  · simp only [h, if_false, List.head?_cons, Xml.kids]
    exact hr

theorem fingeringEls_tags (ts : List Tech) : ∀ x ∈ fingeringEls ts, x.tag = .fingering := by
  intro x hx
  unfold fingeringEls at hx
  obtain ⟨t, _, ht⟩ := List.mem_filterMap.mp hx
  cases t with
  | fingering f => simp at ht; subst ht; rfl
  | otherNotation => simp at ht

theorem fingeringEls_cons_f (f : Nat) (r : List Tech) :
    fingeringEls (.fingering f :: r) = leaf .fingering (natDigits f) :: fingeringEls r := by
  simp [fingeringEls]

theorem fingeringEls_cons_o (r : List Tech) : fingeringEls (.otherNotation :: r) = fingeringEls r := by
  simp [fingeringEls]

theorem fingsOf_cons_f (f : Nat) (r : List Tech) : fingsOf (.fingering f :: r) = f :: fingsOf r := by
  simp [fingsOf]

theorem fingsOf_cons_o (r : List Tech) : fingsOf (.otherNotation :: r) = fingsOf r := by
  simp [fingsOf]

theorem fingeringEls_read (ts : List Tech) :
    (fingeringEls ts).mapM (fun f => firstInt f.text) = some (fingsOf ts) := by
  induction ts with
  | nil => rfl
  | cons a r ih =>
    cases a with
    | fingering f =>
      rw [fingeringEls_cons_f, fingsOf_cons_f, List.mapM_cons, ih]
      simp [leaf, Xml.text, firstInt_natDigits]
    | otherNotation =>
      rw [fingeringEls_cons_o, fingsOf_cons_o]
      exact ih

theorem read_fingering (n : NoteAttrs) : readFingering (noteKids n) = some (fingsOf n.technical) := by
  unfold readFingering
  rw [findPath_notations, fn_technical]
  unfold technicalEl
  have hr := fingeringEls_read n.technical
  by_cases h : fingeringEls n.technical = []
  · rw [h] at hr
    simp only [h, if_true, List.head?_nil]
    simpa using hr
  · simp only [h, if_false, List.head?_cons, Xml.kids]
    rw [findall_all (fingeringEls_tags n.technical)]
    exact hr

/-! ### slur and tuplet elements -/

theorem mapM_map_some {α β γ : Type} (f : β → Option γ) (g : α → β) (h : α → γ) (hf : ∀ a, f (g a) = some (h a))
    (l : List α) : (l.map g).mapM f = some (l.map h) := by
  induction l with
  | nil => rfl
  | cons a r ih => rw [List.map_cons, List.mapM_cons, hf, ih]; rfl

theorem mapM_map_some_of_mem {α β γ : Type} (f : β → Option γ) (g : α → β) (h : α → γ) (l : List α)
    (hf : ∀ a ∈ l, f (g a) = some (h a)) : (l.map g).mapM f = some (l.map h) := by
  induction l with
  | nil => rfl
  | cons a r ih =>
    rw [List.map_cons, List.mapM_cons, hf a (by simp), ih fun b hb => hf b (List.mem_cons_of_mem _ hb)]; rfl

theorem mapM_append_some {β γ : Type} (f : β → Option γ) (l1 l2 : List β) (r1 r2 : List γ)
    (h1 : l1.mapM f = some r1) (h2 : l2.mapM f = some r2) : (l1 ++ l2).mapM f = some (r1 ++ r2) := by
  rw [List.mapM_append, h1, h2]; rfl

theorem filterMap_id_map_some {α β : Type} (h : α → β) (l : List α) : (l.map fun a => some (h a)).filterMap id = l.map h := by
  induction l with
  | nil => rfl
  | cons a r ih => simp [ih]

theorem rangeKind_rangeEl_stop (t : Tag) (k : Nat) : rangeKind (rangeEl t ['s', 't', 'o', 'p'] k) = some (some false) := by
  simp [rangeKind, rangeEl, Xml.get, Xml.attrs, Model.lookup]

theorem rangeKind_rangeEl_start (t : Tag) (k : Nat) :
    rangeKind (rangeEl t ['s', 't', 'a', 'r', 't'] k) = some (some true) := by
  simp [rangeKind, rangeEl, Xml.get, Xml.attrs, Model.lookup]

theorem attrInt_rangeEl (t : Tag) (typ : Str) (k : Nat) : attrInt (rangeEl t typ k) .number = some (k : Int) := by
  simp [attrInt, rangeEl, Xml.get, Xml.attrs, Model.lookup, parseIntC_natDigits]

theorem read_slurs (n : NoteAttrs) :
    readSlurs (canonVoice n) (notationKids n) =
      some (n.slurStops.map (canonSlur n false) ++ n.slurStarts.map (canonSlur n true)) := by
  unfold readSlurs
  rw [fn_slur]
  have h1 := mapM_map_some (readSlurEl (canonVoice n))
    (rangeEl .slur ['s', 't', 'o', 'p']) (fun k => some (canonSlur n false k))
    (fun k => by simp [readSlurEl, rangeKind_rangeEl_stop, attrInt_rangeEl, canonSlur, canonNumber]) n.slurStops
  have h2 := mapM_map_some (readSlurEl (canonVoice n))
    (rangeEl .slur ['s', 't', 'a', 'r', 't']) (fun k => some (canonSlur n true k))
    (fun k => by simp [readSlurEl, rangeKind_rangeEl_start, attrInt_rangeEl, canonSlur, canonNumber]) n.slurStarts
  rw [mapM_append_some _ _ _ _ _ h1 h2]
  simp only [Option.bind_eq_bind, Option.bind_some, Option.pure_def, List.filterMap_append, filterMap_id_map_some]

theorem info_types {t : TupletStart} {i : TupletInfo} (h : t.info = some i) :
    t.actualType = some i.actualType ∧ t.normalType = some i.normalType := by
  unfold TupletStart.info at h
  cases ha : t.actualNotes <;> cases hb : t.normalNotes <;> cases hc : t.actualType <;> cases hd : t.normalType <;>
    simp_all
  obtain rfl := h
  simp

theorem readTupletInfo_start (n : NoteAttrs) (t : TupletStart)
    (hw : (∀ s ∈ t.actualType, TextOK s) ∧ (∀ s ∈ t.normalType, TextOK s)) :
    readTupletInfo (tupletStartEl t) n.symType (canonActual n) (canonNormal n) = some (canonTupletInfo n t) := by
  unfold readTupletInfo tupletStartEl canonTupletInfo
  simp only [Xml.kids]
  cases hi : t.info with
  | none => simp [tupletInfoEls, find, findall]
  | some i =>
    obtain ⟨h1, h2⟩ := info_types hi
    have ha : pyStr i.actualType = i.actualType := pyStr_ok (hw.1 _ (by simp [h1]))
    have hb : pyStr i.normalType = i.normalType := pyStr_ok (hw.2 _ (by simp [h2]))
    simp [tupletInfoEls, find, findall, Xml.tag, leaf, tagInt, tagStr, Xml.text, showIntC_ne_nil,
      parseIntC_showIntC, ha, hb]

theorem read_tuplets (n : NoteAttrs)
    (hw : ∀ t ∈ n.tupletStarts, (∀ s ∈ t.actualType, TextOK s) ∧ (∀ s ∈ t.normalType, TextOK s)) :
    readTuplets (canonVoice n) n.symType (canonActual n) (canonNormal n) (notationKids n) =
      some (n.tupletStops.map (canonTupletStop n) ++ n.tupletStarts.map (canonTupletStart n)) := by
  unfold readTuplets
  rw [fn_tuplet]
  have h1 := mapM_map_some (readTupletEl (canonVoice n) n.symType (canonActual n) (canonNormal n))
    (rangeEl .tuplet ['s', 't', 'o', 'p']) (fun k => some (canonTupletStop n k))
    (fun k => by simp [readTupletEl, rangeKind_rangeEl_stop, attrInt_rangeEl, canonTupletStop, canonNumber]) n.tupletStops
  have h2 := mapM_map_some_of_mem (readTupletEl (canonVoice n) n.symType (canonActual n) (canonNormal n))
    tupletStartEl (fun t => some (canonTupletStart n t)) n.tupletStarts
    (fun t ht => by
      have hk : rangeKind (tupletStartEl t) = some (some true) := by
        simp [rangeKind, tupletStartEl, Xml.get, Xml.attrs, Model.lookup]
      have hn : attrInt (tupletStartEl t) .number = some (t.number : Int) := by
        simp [attrInt, tupletStartEl, Xml.get, Xml.attrs, Model.lookup, parseIntC_natDigits]
      simp [readTupletEl, hk, hn, readTupletInfo_start n t (hw t ht), canonTupletStart, canonNumber])
  rw [mapM_append_some _ _ _ _ _ h1 h2]
  simp only [Option.bind_eq_bind, Option.bind_some, Option.pure_def, List.filterMap_append, filterMap_id_map_some]

end C03.Note
