/-
Cell-level lemmas of C13 used both by the property theorems and by the round-trip proof
(the statements are repeated as property theorems in Props/C13.lean).
-/
import PartituraModel.Proofs.C13

namespace C13
open Model Model.PianoRoll
open List

/-- note `n` sounds in cell `(p, j)` of the un-sliced roll -/
def Covers (o : Opts) (notes : List Note) (n : Note) (p j : Int) : Prop :=
  rowOf o (lowestOf o notes) n = p ∧
    onFrame o (t0Of o notes) n ≤ j ∧ j < offCell o (t0Of o notes) n

theorem t0_spec_aux (o : Opts) (notes : List Note) (h : notes ≠ []) :
    ∃ m, (∃ n ∈ notes, n.onset = m) ∧ (∀ n ∈ notes, m ≤ n.onset) ∧
      t0Of o notes = if o.removeSilence then m else if 0 ≤ m then 0 else m := by
  obtain ⟨m, hm⟩ := best?_isSome_of_ne_nil (fun a b : Rat => decide (a ≤ b))
    (l := notes.map (·.onset)) (by simpa using h)
  have hm' : minRat? (notes.map (·.onset)) = some m := hm
  refine ⟨m, ?_, ?_, ?_⟩
  · obtain ⟨n, hn, he⟩ := mem_map.mp ((minRat?_some_iff _ _).mp hm').1
    exact ⟨n, hn, he⟩
  · intro n hn
    exact ((minRat?_some_iff _ _).mp hm').2 _ (mem_map.mpr ⟨n, hn, rfl⟩)
  · rw [t0Of_eq, hm']
    rfl

theorem shape_rows_aux (o : Opts) (notes : List Note) (r : Roll) (h : makePianoroll o notes = some r) :
    (o.pitchMargin = -1 → o.pianoRange = false → r.rows = 128) ∧
    (o.pitchMargin = -1 → o.pianoRange = true → r.rows = 88) ∧
    (o.pitchMargin > -1 → ∃ lo hi, (∃ n ∈ notes, n.pitch = lo) ∧ (∀ n ∈ notes, lo ≤ n.pitch) ∧
        (∃ n ∈ notes, n.pitch = hi) ∧ (∀ n ∈ notes, n.pitch ≤ hi) ∧
        (o.pianoRange = false → r.rows = (hi - lo + 1) + 2 * o.pitchMargin) ∧
        (o.pianoRange = true → r.rows = min 109 ((hi - lo + 1) + 2 * o.pitchMargin) - min 21 ((hi - lo + 1) + 2 * o.pitchMargin))) := by
  obtain ⟨hne, _, N, _, _, rfl⟩ := (makePianoroll_eq_some o notes r).mp h
  refine ⟨?_, ?_, ?_⟩
  · intro h1 h2
    simp [rollOf, rowsFull, lowestOf, highestOf, h1, h2, tbl_lowest, tbl_highest]
  · intro h1 h2
    simp [rollOf, rowsFull, lowestOf, highestOf, h1, h2, tbl_lowest, tbl_highest, slicedRows_eq]
  · intro h1
    obtain ⟨lo, hlo⟩ := best?_isSome_of_ne_nil (fun a b : Int => decide (a ≤ b))
      (l := notes.map (·.pitch)) (by simpa using hne)
    obtain ⟨hi, hhi⟩ := best?_isSome_of_ne_nil (fun a b : Int => decide (b ≤ a))
      (l := notes.map (·.pitch)) (by simpa using hne)
    have hlo' : minInt? (notes.map (·.pitch)) = some lo := hlo
    have hhi' : maxInt? (notes.map (·.pitch)) = some hi := hhi
    obtain ⟨hlo1, hlo2⟩ := (minInt?_some_iff _ _).mp hlo'
    obtain ⟨hhi1, hhi2⟩ := (maxInt?_some_iff _ _).mp hhi'
    obtain ⟨n1, hn1, he1⟩ := mem_map.mp hlo1
    obtain ⟨n2, hn2, he2⟩ := mem_map.mp hhi1
    refine ⟨lo, hi, ⟨n1, hn1, he1⟩, fun n hn => hlo2 _ (mem_map.mpr ⟨n, hn, rfl⟩),
      ⟨n2, hn2, he2⟩, fun n hn => hhi2 _ (mem_map.mpr ⟨n, hn, rfl⟩), ?_, ?_⟩
    · intro h2
      simp [rollOf, rowsFull, lowestOf, highestOf, h1, h2, hlo', hhi']
    · intro h2
      simp only [rollOf, rowsFull, lowestOf, highestOf, h1, h2, hlo', hhi', if_true, Option.getD_some, slicedRows_eq]
      omega

theorem cell_value_aux (o : Opts) (notes : List Note) (r : Roll) (h : makePianoroll o notes = some r)
    (p j : Int) (hp0 : 0 ≤ p) (hp1 : p < r.rows) :
    ((¬ ∃ n ∈ notes, Covers o notes n (p + r.rowStart) j) → r.cell p j = 0) ∧
    ((∃ n ∈ notes, Covers o notes n (p + r.rowStart) j) →
      ∃ n ∈ notes, Covers o notes n (p + r.rowStart) j ∧
        (∀ n' ∈ notes, Covers o notes n' (p + r.rowStart) j → n'.vel ≤ n.vel) ∧
        r.cell p j = if o.binary = true ∧ n.vel ≠ 0 then 1 else n.vel) := by
  obtain ⟨_, _, N, _, hb, rfl⟩ := (makePianoroll_eq_some o notes r).mp h
  have hcov : ∀ n ∈ notes, ∀ q, Covers o notes n q j → (q, j, n.vel) ∈ fillOf o notes := by
    intro n hn q hc
    exact (mem_fillOf ..).mpr ⟨n, hn, hc.1, rfl, hc.2.1, hc.2.2⟩
  constructor
  · intro hno
    unfold Roll.cell
    split
    · have : keyMax (rollOf o notes N).fill (p + (rollOf o notes N).rowStart) j = none := by
        rw [keyMax_none_iff]
        rintro ⟨a, b, c⟩ he ⟨h1, h2⟩
        simp only at h1 h2
        subst h1 h2
        obtain ⟨n, hn, h3, h4, h5, h6⟩ := (mem_fillOf ..).mp he
        exact hno ⟨n, hn, h3, h5, h6⟩
      rw [this]
    · rfl
  · rintro ⟨n0, hn0, hc0⟩
    have hj := hb _ (hcov n0 hn0 _ hc0)
    simp only [inBounds, Bool.and_eq_true, decide_eq_true_eq] at hj
    cases hk : keyMax (fillOf o notes) (p + (rollOf o notes N).rowStart) j with
    | none =>
      exfalso
      rw [keyMax_none_iff] at hk
      exact hk _ (hcov n0 hn0 _ hc0) ⟨rfl, rfl⟩
    | some v =>
      obtain ⟨hv1, hv2⟩ := (keyMax_some_iff ..).mp hk
      obtain ⟨n, hn, h3, h4, h5, h6⟩ := (mem_fillOf ..).mp hv1
      refine ⟨n, hn, ⟨h3, h5, h6⟩, ?_, ?_⟩
      · intro n' hn' hc'
        rw [h4]
        exact hv2 _ (hcov n' hn' _ hc') rfl rfl
      · unfold Roll.cell
        have hg : 0 ≤ p ∧ p < (rollOf o notes N).rows ∧ 0 ≤ j ∧ j < (rollOf o notes N).cols :=
          ⟨hp0, hp1, hj.1.2, hj.2⟩
        rw [if_pos hg]
        have : keyMax (rollOf o notes N).fill (p + (rollOf o notes N).rowStart) j = some v := hk
        rw [this, h4]
        simp only [rollOf]
        by_cases hbin : o.binary = true <;> by_cases hv0 : v = 0 <;> simp [hbin, hv0]

theorem cells_in_range_aux (o : Opts) (notes : List Note) (r : Roll) (h : makePianoroll o notes = some r)
    (n : Note) (hn : n ∈ notes) (q j : Int) (hc : Covers o notes n q j) :
    0 ≤ q ∧ q < rowsFull o notes ∧ 0 ≤ j ∧ j < r.cols := by
  obtain ⟨_, _, N, _, hb, rfl⟩ := (makePianoroll_eq_some o notes r).mp h
  have := hb _ ((mem_fillOf o notes q j n.vel).mpr ⟨n, hn, hc.1, rfl, hc.2.1, hc.2.2⟩)
  simpa [inBounds, rollOf, and_assoc] using this

/-! ### `compute_pianoroll` before `_make_pianoroll` -/

theorem toNotes_forall₂ (a : NoteArray) (k : Nat) :
    ∀ (rows : List Row) (notes : List Note), toNotes a k rows = some notes →
      Forall₂ (fun r n => toNote a k r = some n) rows notes := by
  intro rows
  induction rows with
  | nil =>
    intro notes h
    simp only [toNotes, Option.some.injEq] at h
    subst h
    exact Forall₂.nil
  | cons r rs ih =>
    intro notes h
    simp only [toNotes] at h
    cases h1 : toNote a k r with
    | none => simp [h1] at h
    | some n =>
      cases h2 : toNotes a k rs with
      | none => simp [h1, h2] at h
      | some ns =>
        simp only [h1, h2, Option.some.injEq] at h
        subst h
        exact Forall₂.cons h1 (ih ns h2)

end C13
