/-
C11 — soundness of the breadth-first split search `findTieSplit` (Model/Durations.lean).
-/
import PartituraModel.Proofs.C11Dur

namespace C11Split
open Model Model.Dur Gen C11Dur

/-- the pieces tile `[s, e)`: consecutive, each non-empty -/
def Tiles : Nat → Nat → List Piece → Prop
  | s, e, [] => s = e
  | s, e, (l, r, _) :: rest => l = s ∧ l < r ∧ Tiles r e rest

theorem tiles_cons (s e l r : Nat) (x : Est) (rest : List Piece) :
    Tiles s e ((l, r, x) :: rest) ↔ l = s ∧ l < r ∧ Tiles r e rest := Iff.rfl

/-- a truthy estimate comes from a positive duration -/
theorem estimate_truthy_pos (dur : Rat) (div : Nat) (e : Est) (h : estimate dur div false = some e)
    (ht : e.truthy = true) : 0 < dur ∧ 0 < div := by
  unfold estimate at h
  split at h
  · simp at h
  · rename_i hdiv
    have hdivq : (0 : Rat) < div := by exact_mod_cast Nat.pos_of_ne_zero hdiv
    split at h
    · simp at h
    · rename_i hneg
      simp only at h
      split at h
      · simp only [Option.some.injEq] at h; subst h; simp [Est.truthy] at ht
      · rename_i hq
        refine ⟨?_, Nat.pos_of_ne_zero hdiv⟩
        rcases lt_or_eq_of_le (not_lt.mp hneg) with h0 | h0
        · exact h0
        · exfalso; apply hq; rw [← h0]; simp

/-- `search` only returns states that satisfy `success` and an invariant kept by `expand` -/
theorem search_found (success : List Nat → Bool) (expand : List Nat → List (List Nat)) (P : List Nat → Prop)
    (hexp : ∀ st, P st → ∀ st' ∈ expand st, P st') :
    ∀ (fuel : Nat) (queue : List (List Nat)) (st : List Nat), (∀ q ∈ queue, P q) →
      search success expand fuel queue = .found st → P st ∧ success st = true := by
  intro fuel
  induction fuel with
  | zero => intro queue st _ h; simp [search] at h
  | succ f ih =>
    intro queue st hq h
    cases queue with
    | nil => simp [search] at h
    | cons q rest =>
      unfold search at h
      split at h
      · rename_i hs
        simp only [Outcome.found.injEq] at h
        subst h
        exact ⟨hq _ (List.mem_cons_self), hs⟩
      · apply ih (rest ++ expand q) st _ h
        intro x hx
        rcases List.mem_append.mp hx with hx | hx
        · exact hq _ (List.mem_cons_of_mem _ hx)
        · exact hexp q (hq _ (List.mem_cons_self)) x hx

theorem expand_length (start stop unit maxSplits : Nat) (st : List Nat) (hst : st.length ≤ maxSplits) :
    ∀ st' ∈ splitExpand start stop unit maxSplits st, st'.length ≤ maxSplits := by
  intro st' h
  unfold splitExpand at h
  split at h
  · simp at h
  · rename_i hlt
    simp only at h
    have := (List.mem_filter.mp h).1
    obtain ⟨s, _, rfl⟩ := List.mem_map.mp this
    simp only [List.length_append, List.length_cons, List.length_nil]
    omega

/-- what one piece of an accepted state looks like -/
def pieceOf (divs : Nat) (p : Nat × Nat) : Piece :=
  (p.1, p.2, (estimate ((p.2 : Rat) - (p.1 : Rat)) divs false).getD .empty)

def PieceOK (divs : Nat) (p : Piece) : Prop :=
  ∃ sd, p.2.2 = .single sd ∧ symbolicToNumeric sd divs = some ((p.2.1 - p.1 : Nat) : Rat)

theorem piece_ok (divs l r : Nat)
    (h : (match estimate ((r : Rat) - (l : Rat)) divs false with | some e => e.truthy | none => false) = true) :
    l < r ∧ PieceOK divs (pieceOf divs (l, r)) := by
  split at h
  · rename_i e he
    obtain ⟨sd, rfl⟩ := estimate_truthy_single _ _ _ he h
    obtain ⟨hpos, _⟩ := estimate_truthy_pos _ _ _ he h
    have hlr : l < r := by
      have : (l : Rat) < r := by linarith
      exact_mod_cast this
    refine ⟨hlr, sd, ?_, ?_⟩
    · simp [pieceOf, he]
    · have hc : ((r : Rat) - (l : Rat)) = ((r - l : Nat) : Rat) := by
        rw [Nat.cast_sub (le_of_lt hlr)]
      rw [hc] at he
      exact estimate_back' _ _ _ _ he
  · simp at h

theorem pieces_sound (divs : Nat) : ∀ (mid : List Nat) (a b : Nat),
    splitSuccess a b divs mid = true →
    Tiles a b ((pairs (a :: mid ++ [b])).map (pieceOf divs)) ∧
    ((pairs (a :: mid ++ [b])).map (pieceOf divs)).length = mid.length + 1 ∧
    ∀ p ∈ (pairs (a :: mid ++ [b])).map (pieceOf divs), PieceOK divs p := by
  intro mid
  induction mid with
  | nil =>
    intro a b h
    have h' : (match estimate ((b : Rat) - (a : Rat)) divs false with | some e => e.truthy | none => false) = true := by
      have := h
      unfold splitSuccess at this
      have e : pairs (a :: [] ++ [b]) = [(a, b)] := rfl
      rw [e, List.all_cons, List.all_nil, Bool.and_true] at this
      exact this
    obtain ⟨hlt, hok⟩ := piece_ok divs a b h'
    have e : (pairs (a :: [] ++ [b])).map (pieceOf divs) = [pieceOf divs (a, b)] := rfl
    rw [e]
    refine ⟨?_, rfl, ?_⟩
    · exact (tiles_cons ..).mpr ⟨rfl, hlt, rfl⟩
    · intro p hp; simp only [List.mem_singleton] at hp; subst hp; exact hok
  | cons x xs ih =>
    intro a b h
    have e0 : pairs (a :: (x :: xs) ++ [b]) = (a, x) :: pairs (x :: xs ++ [b]) := rfl
    have h1 : (match estimate ((x : Rat) - (a : Rat)) divs false with | some e => e.truthy | none => false) = true := by
      have := h; unfold splitSuccess at this; rw [e0, List.all_cons, Bool.and_eq_true] at this; exact this.1
    have h2 : splitSuccess x b divs xs = true := by
      have := h; unfold splitSuccess at this; rw [e0, List.all_cons, Bool.and_eq_true] at this
      unfold splitSuccess; exact this.2
    obtain ⟨hlt, hok⟩ := piece_ok divs a x h1
    obtain ⟨t, len, ok⟩ := ih x b h2
    rw [e0, List.map_cons]
    refine ⟨?_, by simp only [List.length_cons]; omega, ?_⟩
    · exact (tiles_cons ..).mpr ⟨rfl, hlt, t⟩
    · intro p hp
      rcases List.mem_cons.mp hp with hp | hp
      · subst hp; exact hok
      · exact ok p hp

/-- **split_sound**: whatever fuel, whatever arguments — an answer of `find_tie_split` tiles `[start, stop)`
    with at most `maxSplits + 1` non-empty pieces, each carrying a single symbolic value that lasts exactly
    the piece -/
theorem split_sound' (start stop divs maxSplits fuel : Nat) (parts : List Piece)
    (h : findTieSplit start stop divs maxSplits fuel = .found parts) :
    Tiles start stop parts ∧ parts ≠ [] ∧ parts.length ≤ maxSplits + 1 ∧ ∀ p ∈ parts, PieceOK divs p := by
  unfold findTieSplit at h
  split at h
  · simp at h
  · simp only at h
    split at h
    · rename_i splits hs
      simp only [Outcome.found.injEq] at h
      obtain ⟨hlen, hsucc⟩ := search_found _ _ (fun st => st.length ≤ maxSplits)
        (fun st hst => expand_length start stop (findSmallestUnit divs) maxSplits st hst)
        fuel [[]] splits (by intro q hq; simp at hq; subst hq; simp) hs
      obtain ⟨t, len, ok⟩ := pieces_sound divs splits start stop hsucc
      have e : parts = (pairs (start :: splits ++ [stop])).map (pieceOf divs) := by
        rw [← h]; rfl
      rw [e]
      refine ⟨t, ?_, by omega, ok⟩
      intro hnil
      rw [hnil] at len
      simp at len
    · simp at h
    · simp at h

end C11Split
