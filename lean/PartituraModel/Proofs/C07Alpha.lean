/-
C07 — the side condition `FieldsOKGen` derived from a CHARACTER-LEVEL description of the field texts.

`fieldsOKGen` asks, for every group, that the rest of the pattern matches at no later offset of the run of
characters the group's class can swallow.  Here that is reduced in two steps:

* `sepOK` (concrete characters): the character `z` that starts the literal behind a group occurs nowhere in
  the window that follows it - up to and including the first character outside the group's class;
  `fieldsOKGen_of_sepOK`.
* `sepOKS` (symbolic, a check of the TEMPLATE alone): when every field text `v n` is drawn from an alphabet
  `A n` (a predicate on characters) and has at least `N n` characters, the window condition follows from
  `A n z = false` for the fields inside the window; `sepOK_of_sepOKS`.  The text that follows the line is a
  known literal `tl` (empty, or the identifier literal of a composite line).  It is decided for the generated
  table in Props/C07Alpha.lean, so no condition on the written texts is left for the codecs whose output
  alphabet is proved there.
-/
import PartituraModel.Model.Template
import PartituraModel.Proofs.C07Early

namespace Model.Template

-- ---------------------------------------------------------------- concrete characters

/-- `z` does not occur in `l` before, or as, the first character outside `cls` -/
def winFree (cls : CharClass) (z : Char) : List Char → Bool
  | [] => true
  | d :: l => d != z && (if cls.mem d then winFree cls z l else true)

theorem winFree_drop (cls : CharClass) (z : Char) : ∀ (l : List Char) (i : Nat), winFree cls z l = true →
    i ≤ (l.takeWhile cls.mem).length → (l.drop i).head? ≠ some z := by
  intro l
  induction l with
  | nil => intro i _ _; simp
  | cons d l ih =>
    intro i h hi
    simp only [winFree, Bool.and_eq_true, bne_iff_ne, ne_eq] at h
    cases i with
    | zero =>
      simp only [List.drop_zero, List.head?_cons, ne_eq, Option.some.injEq]
      exact h.1
    | succ i =>
      simp only [List.drop_succ_cons]
      by_cases hc : cls.mem d = true
      · simp only [hc, if_true] at h
        simp only [List.takeWhile_cons, hc, if_true, List.length_cons] at hi
        exact ih i h.2 (by omega)
      · simp only [List.takeWhile_cons, hc] at hi
        simp at hi

theorem matchSegs_head_ne (z : Char) (p : List PChar) (q : List Seg) (s : List Char) (h : s.head? ≠ some z) :
    matchSegs (.lit (.ch z :: p) :: q) s = none := by
  cases s with
  | nil => simp [matchSegs, litMatch]
  | cons c s =>
    have hc : (z == c) = false := by
      simp only [List.head?_cons, ne_eq, Option.some.injEq] at h
      simp only [beq_eq_false_iff_ne, ne_eq]
      exact fun e => h e.symm
    simp [matchSegs, litMatch, PChar.matches, hc]

theorem takeWhile_all_append (f : Char → Bool) : ∀ (x r : List Char), x.all f = true →
    (x ++ r).takeWhile f = x ++ r.takeWhile f := by
  intro x
  induction x with
  | nil => intro r _; rfl
  | cons c x ih =>
    intro r h
    simp only [List.all_cons, Bool.and_eq_true] at h
    simp [List.takeWhile_cons, h.1, ih r h.2]

/-- the clause of `fieldsOKGen` for one group, from the window condition -/
theorem allBetween_of_winFree (cls : CharClass) (z : Char) (p : List PChar) (q : List Seg) (x rest : List Char)
    (hx : x.all cls.mem = true) (hw : cls.mem z = false ∨ winFree cls z rest = true) :
    allBetween x.length (((x ++ z :: rest).takeWhile cls.mem).length)
      (fun j => (matchSegs (.lit (.ch z :: p) :: q) ((x ++ z :: rest).drop j)).isNone) = true := by
  unfold allBetween
  rw [List.all_eq_true]
  intro i hi
  rw [List.mem_range] at hi
  rw [takeWhile_all_append _ _ _ hx] at hi
  by_cases hz : cls.mem z = true
  · have hw' : winFree cls z rest = true := by
      rcases hw with h | h
      · rw [hz] at h; cases h
      · exact h
    simp only [List.takeWhile_cons, hz, if_true, List.length_append, List.length_cons] at hi
    have hd : (x ++ z :: rest).drop (x.length + 1 + i) = rest.drop i := by
      rw [Nat.add_assoc, ← List.drop_drop, List.drop_left]
      simp [Nat.add_comm 1 i, ← List.drop_drop]
    show (matchSegs (.lit (.ch z :: p) :: q) ((x ++ z :: rest).drop (x.length + 1 + i))).isNone = true
    rw [hd, matchSegs_head_ne z p q _ (winFree_drop cls z rest i hw' (by omega))]
    rfl
  · simp only [List.takeWhile_cons, hz, List.length_append, List.length_nil] at hi
    simp at hi

/-- character-level side condition: every text lies in its class with the minimal length, the group is
    followed by a literal that starts with a plain character `z`, and `z` does not occur again in the window
    behind it -/
def sepOK : List OSeg → List Seg → (String → List Char) → List Char → Bool
  | [], [], _, _ => true
  | .lit _ :: o, .lit _ :: q, v, tail => sepOK o q v tail
  | .fld n :: o, .fld _ cls lo :: q, v, tail =>
    (v n).all cls.mem && lo ≤ (v n).length
      && (match q, render o v ++ tail with
          | .lit (.ch z :: _) :: _, r0 :: rest => r0 == z && (!cls.mem z || winFree cls z rest)
          | _, _ => false)
      && sepOK o q v tail
  | _, _, _, _ => false

theorem fieldsOKGen_of_sepOK : ∀ (o : List OSeg) (q : List Seg) (v : String → List Char) (tail : List Char),
    sepOK o q v tail = true → fieldsOKGen o q v tail = true := by
  intro o q v tail
  fun_induction sepOK o q v tail with
  | case1 => intro _; rfl
  | case2 _ o _ q v tail ih => intro h; simpa [fieldsOKGen] using ih h
  | case3 n o nm cls lo q v tail ih =>
    intro h
    simp only [Bool.and_eq_true, decide_eq_true_eq] at h
    obtain ⟨⟨⟨hx, hlo⟩, hm⟩, hr⟩ := h
    simp only [fieldsOKGen, Bool.and_eq_true, decide_eq_true_eq]
    refine ⟨⟨⟨hx, hlo⟩, ?_⟩, ih hr⟩
    split at hm
    · rename_i z p q' r0 rest hrest
      simp only [Bool.and_eq_true, beq_iff_eq, Bool.or_eq_true, Bool.not_eq_true'] at hm
      obtain ⟨rfl, hw⟩ := hm
      rw [hrest]
      exact allBetween_of_winFree cls r0 p q' (v n) rest hx hw
    · cases hm
  | case4 => intro h; cases h

-- ---------------------------------------------------------------- symbolic: alphabets of the field texts

/-- the window condition on the template's own text: known characters are tested, a field inside the window
    must have an alphabet without `z`; the window may not run past the end of the line -/
def winFreeS (A : String → Char → Bool) (cls : CharClass) (z : Char) : List Sym → Bool
  | [] => true
  | .ch d :: l => d != z && (if cls.mem d then winFreeS A cls z l else true)
  | .fld n :: l => !A n z && winFreeS A cls z l

theorem winFree_field (cls : CharClass) (z : Char) (A : Char → Bool) (hz : A z = false) : ∀ (x rest : List Char),
    x.all A = true → winFree cls z rest = true → winFree cls z (x ++ rest) = true := by
  intro x
  induction x with
  | nil => intro rest _ h; exact h
  | cons c x ih =>
    intro rest hx hr
    simp only [List.all_cons, Bool.and_eq_true] at hx
    have hne : c ≠ z := fun e => by rw [e, hz] at hx; cases hx.1
    simp only [List.cons_append, winFree, Bool.and_eq_true, bne_iff_ne, ne_eq]
    refine ⟨hne, ?_⟩
    split
    · exact ih rest hx.2 hr
    · rfl

theorem winFree_of_winFreeS (A : String → Char → Bool) (cls : CharClass) (z : Char) (v : String → List Char)
    (hv : ∀ n, (v n).all (A n) = true) : ∀ (syms : List Sym), winFreeS A cls z syms = true →
    winFree cls z (renderS v syms) = true := by
  intro syms
  induction syms with
  | nil => intro _; rfl
  | cons s syms ih =>
    intro h
    cases s with
    | ch d =>
      simp only [winFreeS, Bool.and_eq_true, bne_iff_ne, ne_eq] at h
      simp only [renderS, winFree, Bool.and_eq_true, bne_iff_ne, ne_eq]
      refine ⟨h.1, ?_⟩
      split
      · rename_i hc; simp only [hc, if_true] at h; exact ih h.2
      · rfl
    | fld n =>
      simp only [winFreeS, Bool.and_eq_true, Bool.not_eq_true'] at h
      simp only [renderS]
      exact winFree_field cls z (A n) h.1 _ _ (hv n) (ih h.2)

/-- a character the class excludes (for the classes defined by exclusion): a text drawn from an alphabet that
    does not contain it lies in the class -/
def clsExcl : CharClass → Option Char
  | .notComma => some ','
  | .any => some '\n'
  | .notRParen => some ')'
  | _ => none

theorem all_cls_of_alpha (cls : CharClass) (e : Char) (he : clsExcl cls = some e) (A : Char → Bool) (hA : A e = false) :
    ∀ (x : List Char), x.all A = true → x.all cls.mem = true := by
  intro x hx
  rw [List.all_eq_true] at hx ⊢
  intro c hc
  have hne : c ≠ e := fun h => by have := hx c hc; rw [h, hA] at this; cases this
  cases cls <;> simp only [clsExcl, Option.some.injEq, reduceCtorEq] at he <;> subst he <;>
    simpa [CharClass.mem] using hne

/-- the side condition as a check of the template: alphabets `A`, minimal lengths `N`, and the KNOWN text `tl`
    that follows the line (empty for a line of its own, `-deletion.` behind the score note of a deletion) -/
def sepOKS (A : String → Char → Bool) (N : String → Nat) (tl : List Char) : List OSeg → List Seg → Bool
  | [], [] => true
  | .lit _ :: o, .lit _ :: q => sepOKS A N tl o q
  | .fld n :: o, .fld _ cls lo :: q =>
    (match clsExcl cls with | some e => !A n e | none => false) && decide (lo ≤ N n)
      && (match q, flat o ++ tl.map Sym.ch with
          | .lit (.ch z :: _) :: _, .ch r0 :: rest => r0 == z && (!cls.mem z || winFreeS A cls z rest)
          | _, _ => false)
      && sepOKS A N tl o q
  | _, _ => false

theorem sepOK_of_sepOKS (A : String → Char → Bool) (N : String → Nat) (tl : List Char) (v : String → List Char)
    (hv : ∀ n, (v n).all (A n) = true) (hN : ∀ n, N n ≤ (v n).length) : ∀ (o : List OSeg) (q : List Seg),
    sepOKS A N tl o q = true → sepOK o q v tl = true := by
  intro o q
  fun_induction sepOKS A N tl o q with
  | case1 => intro _; rfl
  | case2 _ o _ q ih => intro h; simpa [sepOK] using ih h
  | case3 n o nm cls lo q ih =>
    intro h
    simp only [Bool.and_eq_true, decide_eq_true_eq] at h
    obtain ⟨⟨⟨hcls, hlo⟩, hm⟩, hr⟩ := h
    simp only [sepOK, Bool.and_eq_true, decide_eq_true_eq]
    refine ⟨⟨⟨?_, Nat.le_trans hlo (hN n)⟩, ?_⟩, ih hr⟩
    · split at hcls
      · rename_i e he
        simp only [Bool.not_eq_true'] at hcls
        exact all_cls_of_alpha cls e he (A n) hcls _ (hv n)
      · cases hcls
    · split at hm
      · rename_i z p q' r0 rest hflat
        simp only [Bool.and_eq_true, beq_iff_eq, Bool.or_eq_true, Bool.not_eq_true'] at hm
        obtain ⟨rfl, hw⟩ := hm
        have hren : render o v ++ tl = r0 :: renderS v rest := by
          rw [← renderS_flat, ← renderS_chars v tl, ← renderS_append, hflat]; rfl
        rw [hren]
        simp only [beq_self_eq_true, Bool.true_and, Bool.or_eq_true, Bool.not_eq_true']
        rcases hw with hw | hw
        · exact Or.inl hw
        · exact Or.inr (winFree_of_winFreeS A cls r0 v hv rest hw)
      · cases hm
  | case4 => intro h; cases h

end Model.Template
