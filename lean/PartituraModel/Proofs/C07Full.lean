/-
C07 — format-then-parse of ANY single-component line: the codec of a field may be selected by the
line's Attribute (`codecFor`), the interpreted fields may be post-processed by the class
(`applyPost`: pitch spelling), and the line may stand at an offset inside a longer line (component of
a composite line).  Generalises Proofs/C07Line.lean (`plain` templates).
-/
import PartituraModel.Model.MatchLine
import PartituraModel.Proofs.C07Search
import PartituraModel.Proofs.C07Line

namespace C07Line
open Model Model.Template Model.MatchCodec Model.MatchLine

/-- `RTA t attr fs vals raws es`: field by field, with the codec `codecFor t attr f` selected through
    the Attribute text `attr`: the value is written as the text `es[i]`, and that text is interpreted
    as `raws[i]` (the value BEFORE the class's post-processing) -/
def RTA (t : Template) (attr : Option Str) :
    List (String × Enc × Dec) → List Val → List Val → List (String × Str) → Prop
  | [], [], [], [] => True
  | f :: fs, v :: vs, r :: rs, e :: es =>
    e.1 = f.1 ∧ (∃ c, codecFor t attr f = some c ∧ encode c.1 v = some e.2 ∧ decode c.2 e.2 = .ok r) ∧
      RTA t attr fs vs rs es
  | _, _, _, _ => False

theorem RTA_congr (t : Template) (a b : Option Str) : ∀ (fs : List (String × Enc × Dec)) (vs rs : List Val)
    (es : List (String × Str)), (∀ f ∈ fs, codecFor t a f = codecFor t b f) →
    RTA t a fs vs rs es → RTA t b fs vs rs es := by
  intro fs
  induction fs with
  | nil => intro vs rs es _ h; cases vs <;> cases rs <;> cases es <;> simp_all [RTA]
  | cons f fs ih =>
    intro vs rs es hc h
    cases vs with
    | nil => simp [RTA] at h
    | cons v vs =>
      cases rs with
      | nil => simp [RTA] at h
      | cons r rs =>
        cases es with
        | nil => simp [RTA] at h
        | cons e es =>
          obtain ⟨hn, ⟨c, h1, h2, h3⟩, hr⟩ := h
          refine ⟨hn, ⟨c, ?_, h2, h3⟩, ih vs rs es (fun g hg => hc g (by simp [hg])) hr⟩
          rw [← hc f (by simp)]; exact h1

theorem names_of_RTA (t : Template) (a : Option Str) : ∀ (fs : List (String × Enc × Dec)) (vs rs : List Val)
    (es : List (String × Str)), RTA t a fs vs rs es → es.map (·.1) = fs.map (·.1) := by
  intro fs
  induction fs with
  | nil => intro vs rs es h; cases vs <;> cases rs <;> cases es <;> simp_all [RTA]
  | cons f fs ih =>
    intro vs rs es h
    cases vs with
    | nil => simp [RTA] at h
    | cons v vs =>
      cases rs with
      | nil => simp [RTA] at h
      | cons r rs =>
        cases es with
        | nil => simp [RTA] at h
        | cons e es =>
          obtain ⟨hn, _, hr⟩ := h
          simp only [List.map_cons, hn, ih vs rs es hr]

theorem lengths_of_RTA (t : Template) (a : Option Str) : ∀ (fs : List (String × Enc × Dec)) (vs rs : List Val)
    (es : List (String × Str)), RTA t a fs vs rs es → vs.length = fs.length ∧ rs.length = fs.length := by
  intro fs
  induction fs with
  | nil => intro vs rs es h; cases vs <;> cases rs <;> cases es <;> simp_all [RTA]
  | cons f fs ih =>
    intro vs rs es h
    cases vs with
    | nil => simp [RTA] at h
    | cons v vs =>
      cases rs with
      | nil => simp [RTA] at h
      | cons r rs =>
        cases es with
        | nil => simp [RTA] at h
        | cons e es =>
          obtain ⟨_, _, hr⟩ := h
          have := ih vs rs es hr
          simp only [List.length_cons]
          omega

theorem encodeFields_of_RTA (t : Template) (a : Option Str) : ∀ (fs : List (String × Enc × Dec)) (vs rs : List Val)
    (es : List (String × Str)), RTA t a fs vs rs es → encodeFields t a fs vs = some es := by
  intro fs
  induction fs with
  | nil => intro vs rs es h; cases vs <;> cases rs <;> cases es <;> simp_all [RTA, encodeFields]
  | cons f fs ih =>
    intro vs rs es h
    cases vs with
    | nil => simp [RTA] at h
    | cons v vs =>
      cases rs with
      | nil => simp [RTA] at h
      | cons r rs =>
        cases es with
        | nil => simp [RTA] at h
        | cons e es =>
          obtain ⟨hn, ⟨c, h1, h2, _⟩, hr⟩ := h
          obtain ⟨c1, c2⟩ := c
          simp only [encodeFields, h1, h2, ih vs rs es hr]
          obtain ⟨n, s⟩ := e
          simp only at hn
          rw [hn]

theorem decodeFields_of_RTA (t : Template) (a : Option Str) (groups : List (String × Str)) :
    ∀ (fs : List (String × Enc × Dec)) (vs rs : List Val) (es : List (String × Str)),
    RTA t a fs vs rs es → (∀ e ∈ es, lookup e.1 groups = some e.2) →
    decodeFields t a groups fs = .ok rs := by
  intro fs
  induction fs with
  | nil => intro vs rs es h _; cases vs <;> cases rs <;> cases es <;> simp_all [RTA, decodeFields]; rfl
  | cons f fs ih =>
    intro vs rs es h hl
    cases vs with
    | nil => simp [RTA] at h
    | cons v vs =>
      cases rs with
      | nil => simp [RTA] at h
      | cons r rs =>
        cases es with
        | nil => simp [RTA] at h
        | cons e es =>
          obtain ⟨hn, ⟨c, h1, _, h3⟩, hr⟩ := h
          obtain ⟨c1, c2⟩ := c
          have hl1 := hl e (by simp)
          rw [hn] at hl1
          have h2 := ih vs rs es hr (fun e' he' => hl e' (by simp [he']))
          simp only at h3
          simp only [decodeFields, h1, hl1, h3, h2, ofDec, bind, Except.bind, pure, Except.pure]

/-- the dependencies between the fields of a template are the two modelled ones (decidable): either no
    codec depends on the Attribute, or there is no post-processing and a field called `Attribute` is a
    plain string (`format_string` / `interpret_as_string`), so that the text the parser sees in the
    Attribute group is the value the formatter looked the codec up with -/
def depsOK (t : Template) : Bool :=
  t.fields.all plainField ||
    (t.post == Post.none &&
      t.fields.all (fun f => f.1 != "Attribute" || (f.2.1 == Enc.strip && f.2.2 == Dec.str)))

theorem lookup_none_of_not_mem {β : Type} (n : String) : ∀ (l : List (String × β)), n ∉ l.map (·.1) → lookup n l = none := by
  intro l
  induction l with
  | nil => intro _; rfl
  | cons x xs ih =>
    intro h
    obtain ⟨a, b⟩ := x
    simp only [List.map_cons, List.mem_cons, not_or] at h
    simp only [lookup]
    rw [if_neg (fun e => h.1 e.symm)]
    exact ih h.2

theorem lookup_some_of_mem {β : Type} (n : String) : ∀ (l : List (String × β)), n ∈ l.map (·.1) → ∃ b, lookup n l = some b := by
  intro l
  induction l with
  | nil => intro h; simp at h
  | cons x xs ih =>
    intro h
    obtain ⟨a, b⟩ := x
    simp only [lookup]
    by_cases e : a = n
    · exact ⟨b, by simp [e]⟩
    · simp only [e, if_false]
      simp only [List.map_cons, List.mem_cons] at h
      rcases h with h | h
      · exact absurd h.symm e
      · exact ih h

theorem groupsOf_names (q : List Seg) (v : String → List Char) : (groupsOf q v).map (·.1) = fieldNames q := by
  induction q with
  | nil => rfl
  | cons sg q ih =>
    cases sg with
    | lit p => simpa [groupsOf, fieldNames] using ih
    | fld m c l => simp [groupsOf, fieldNames, ih]

/-- the groups of the written line, looked up by name, are the encoded texts -/
theorem lookup_groupsOf_textOf (q : List Seg) (es : List (String × Str)) (n : String)
    (hn : fieldNames q = es.map (·.1)) : lookup n (groupsOf q (textOf es)) = lookup n es := by
  by_cases hm : n ∈ fieldNames q
  · rw [lookup_groupsOf _ _ _ hm]
    obtain ⟨b, hb⟩ := lookup_some_of_mem n es (by rw [← hn]; exact hm)
    unfold textOf
    rw [hb]; rfl
  · rw [lookup_none_of_not_mem n _ (by rw [groupsOf_names]; exact hm),
      lookup_none_of_not_mem n es (by rw [← hn]; exact hm)]

/-- when a field `Attribute` is a plain string, the text of the Attribute group is the value the formatter saw -/
theorem attr_agree (t : Template) (a : Option Str) : ∀ (fs : List (String × Enc × Dec)) (vs rs : List Val)
    (es : List (String × Str)), RTA t a fs vs rs es →
    (∀ f ∈ fs, f.1 = "Attribute" → f.2.1 = Enc.strip ∧ f.2.2 = Dec.str) →
    (match ((fs.map (·.1)).zip rs).find? (·.1 == "Attribute") with
      | some (_, .str x) => some x
      | _ => none) = lookup "Attribute" es := by
  intro fs
  induction fs with
  | nil => intro vs rs es h _; cases vs <;> cases rs <;> cases es <;> simp_all [RTA, lookup]
  | cons f fs ih =>
    intro vs rs es h hf
    cases vs with
    | nil => simp [RTA] at h
    | cons v vs =>
      cases rs with
      | nil => simp [RTA] at h
      | cons r rs =>
        cases es with
        | nil => simp [RTA] at h
        | cons e es =>
          obtain ⟨hn, ⟨c, h1, _, h3⟩, hr⟩ := h
          obtain ⟨en, et⟩ := e
          simp only at hn h3
          by_cases hA : f.1 = "Attribute"
          · obtain ⟨he, hd⟩ := hf f (by simp) hA
            have hc : codecFor t a f = some f.2 := by
              unfold codecFor
              rw [he]
              simp
            rw [hc] at h1
            injection h1 with h1
            rw [← h1, hd] at h3
            simp only [decode] at h3
            injection h3 with h3
            subst h3
            simp [hA, lookup, hn]
          · have := ih vs rs es hr (fun g hg => hf g (by simp [hg]))
            simp only [List.map_cons, List.zip_cons_cons, List.find?, lookup]
            have h1 : (f.1 == "Attribute") = false := by simpa using hA
            rw [h1]
            rw [hn, if_neg hA]
            exact this

/-- **the whole single-component line**: with the codec of every field selected by `codecFor` through the
    Attribute, the interpreted values post-processed by `applyPost`, the line standing behind `pre`
    (where no anchored match of its pattern starts) and before `tail` -/
theorem line_roundtrip_gen (t : Template) (vals raws : List Val) (es : List (String × Str)) (pre tail : List Char)
    (ht : templateOK t = true) (hd : depsOK t = true)
    (hrt : RTA t (attrOf t vals) t.fields vals raws es)
    (hpost : applyPost t raws = .ok vals)
    (hv : fieldsOKGen t.out t.pat (textOf es) tail = true)
    (hpre : noEarly t.pat pre (render t.out (textOf es) ++ tail) = true) :
    formatT t vals = some (render t.out (textOf es)) ∧
      parseT t (pre ++ (render t.out (textOf es) ++ tail)) = .ok vals := by
  unfold templateOK at ht
  simp only [Bool.and_eq_true, beq_iff_eq, decide_eq_true_eq] at ht
  obtain ⟨⟨⟨⟨⟨⟨hag, _⟩, hnd⟩, hnames⟩, hun⟩, _⟩, _⟩ := ht
  have hsome : t.unmodelled.isSome = false := by
    cases h : t.unmodelled with
    | none => rfl
    | some x => rw [h] at hun; simp at hun
  have hnm := names_of_RTA _ _ _ _ _ _ hrt
  constructor
  · unfold formatT
    simp only [hsome, Bool.false_eq_true, if_false, encodeFields_of_RTA t _ t.fields vals raws es hrt, Option.map_some]
    rfl
  · unfold parseT
    simp only [hsome, Bool.false_eq_true, if_false]
    have hs := search_skip t.pat pre _ _ (noEarly_spec _ _ _ hpre)
      (matchSegs_render t.pat t.out (textOf es) tail hag hv)
    rw [hs]
    have hfn : fieldNames t.pat = es.map (·.1) := by rw [hnm, hnames]
    have hl : ∀ e ∈ es, lookup e.1 (groupsOf t.pat (textOf es)) = some e.2 := by
      intro e he
      rw [lookup_groupsOf_textOf _ _ _ hfn]
      have hnd' : (es.map (·.1)).Nodup := by rw [← hfn]; exact hnd
      exact lookup_of_mem_nodup es hnd' e he
    -- the codec selection of the parser agrees with the one of the formatter
    have hrt' : RTA t (lookup "Attribute" (groupsOf t.pat (textOf es))) t.fields vals raws es := by
      unfold depsOK at hd
      rw [Bool.or_eq_true] at hd
      rcases hd with hp | hb
      · apply RTA_congr t _ _ _ _ _ _ _ hrt
        intro f hf
        rw [List.all_eq_true] at hp
        rw [codecFor_plain t _ f (hp f hf), codecFor_plain t _ f (hp f hf)]
      · simp only [Bool.and_eq_true, beq_iff_eq] at hb
        obtain ⟨hpn, hattr⟩ := hb
        have hraw : raws = vals := by
          unfold applyPost at hpost
          rw [hpn] at hpost
          simp only [pure, Except.pure] at hpost
          injection hpost
        subst hraw
        have hag2 := attr_agree t _ t.fields raws raws es hrt (by
          intro f hf hA
          rw [List.all_eq_true] at hattr
          have := hattr f hf
          simp only [Bool.or_eq_true, bne_iff_ne, ne_eq, Bool.and_eq_true, beq_iff_eq] at this
          rcases this with h | h
          · exact absurd hA h
          · exact h)
        rw [lookup_groupsOf_textOf _ _ _ hfn, ← hag2]
        exact hrt
    have hdec := decodeFields_of_RTA t _ (groupsOf t.pat (textOf es)) t.fields vals raws es hrt' hl
    simp only [hdec, bind, Except.bind]
    exact hpost

theorem noEarly_nil (q : List Seg) (s : List Char) : noEarly q [] s = true := by
  simp [noEarly]

/-- decidable form of `RTA` -/
def rtaB (t : Template) (attr : Option Str) :
    List (String × Enc × Dec) → List Val → List Val → List (String × Str) → Bool
  | [], [], [], [] => true
  | f :: fs, v :: vs, r :: rs, e :: es =>
    e.1 == f.1 &&
      (match codecFor t attr f with
       | some c => encode c.1 v == some e.2 && (match decode c.2 e.2 with | .ok r' => r' == r | .error _ => false)
       | none => false) && rtaB t attr fs vs rs es
  | _, _, _, _ => false

theorem RTA_of_rtaB (t : Template) (a : Option Str) : ∀ (fs : List (String × Enc × Dec)) (vs rs : List Val)
    (es : List (String × Str)), rtaB t a fs vs rs es = true → RTA t a fs vs rs es := by
  intro fs
  induction fs with
  | nil => intro vs rs es h; cases vs <;> cases rs <;> cases es <;> simp_all [rtaB, RTA]
  | cons f fs ih =>
    intro vs rs es h
    cases vs with
    | nil => simp [rtaB] at h
    | cons v vs =>
      cases rs with
      | nil => simp [rtaB] at h
      | cons r rs =>
        cases es with
        | nil => simp [rtaB] at h
        | cons e es =>
          simp only [rtaB, Bool.and_eq_true, beq_iff_eq] at h
          obtain ⟨⟨h1, h2⟩, h4⟩ := h
          refine ⟨h1, ?_, ih vs rs es h4⟩
          split at h2
          · rename_i c hc
            simp only [Bool.and_eq_true, beq_iff_eq] at h2
            refine ⟨c, hc, h2.1, ?_⟩
            have h3 := h2.2
            split at h3
            · rename_i r' hr'
              simp only [beq_iff_eq] at h3
              rw [hr', h3]
            · simp at h3
          · simp at h2

end C07Line
