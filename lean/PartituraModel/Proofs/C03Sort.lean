/-
C03 helper lemmas: the stable insertion sort of Model/XmlMeasure.lean
(`insertBy`, `isortBy`): permutation, sortedness, stability (it commutes with `filter`),
identity on sorted input.
-/
import PartituraModel.Model.XmlMeasure
import Mathlib.Data.List.Perm.Basic

namespace C03.Sort
open Model.Xml

variable {α : Type}

/-- what a comparison must satisfy: it is the strict part of a total preorder -/
structure StrictWeak (lt : α → α → Bool) : Prop where
  asymm : ∀ a b, lt a b = true → lt b a = false
  /-- `≥` is transitive -/
  negtrans : ∀ a b c, lt a b = false → lt b c = false → lt a c = false

/-- no element is strictly smaller than an earlier one -/
def SortedBy (lt : α → α → Bool) (l : List α) : Prop := l.Pairwise (fun a b => lt b a = false)

theorem insertBy_perm (lt : α → α → Bool) (x : α) (l : List α) : (insertBy lt x l).Perm (x :: l) := by
  induction l with
  | nil => simp [insertBy]
  | cons y ys ih =>
    unfold insertBy
    split
    · exact (List.Perm.cons y ih).trans (List.Perm.swap x y ys)
    · exact List.Perm.refl _

theorem isortBy_perm (lt : α → α → Bool) (l : List α) : (isortBy lt l).Perm l := by
  induction l with
  | nil => simp [isortBy]
  | cons x xs ih =>
    unfold isortBy
    exact (insertBy_perm lt x _).trans (List.Perm.cons x ih)

theorem mem_insertBy {lt : α → α → Bool} {x y : α} {l : List α} : y ∈ insertBy lt x l ↔ y = x ∨ y ∈ l := by
  rw [(insertBy_perm lt x l).mem_iff]; simp

theorem mem_isortBy {lt : α → α → Bool} {y : α} {l : List α} : y ∈ isortBy lt l ↔ y ∈ l :=
  (isortBy_perm lt l).mem_iff

theorem insertBy_sorted {lt : α → α → Bool} (h : StrictWeak lt) (x : α) {l : List α} (hl : SortedBy lt l) :
    SortedBy lt (insertBy lt x l) := by
  induction l with
  | nil => simp [insertBy, SortedBy]
  | cons y ys ih =>
    unfold insertBy
    have hy : ∀ z ∈ ys, lt z y = false := (List.pairwise_cons.mp hl).1
    have hys : SortedBy lt ys := (List.pairwise_cons.mp hl).2
    split
    · rename_i hyx
      refine List.pairwise_cons.mpr ⟨?_, ih hys⟩
      intro z hz
      rcases mem_insertBy.mp hz with rfl | hz
      · exact h.asymm _ _ hyx
      · exact hy z hz
    · rename_i hyx
      have hyx' : lt y x = false := by simpa using hyx
      refine List.pairwise_cons.mpr ⟨?_, hl⟩
      intro z hz
      rcases List.mem_cons.mp hz with rfl | hz
      · exact hyx'
      · exact h.negtrans z y x (hy z hz) hyx'

theorem isortBy_sorted {lt : α → α → Bool} (h : StrictWeak lt) (l : List α) : SortedBy lt (isortBy lt l) := by
  induction l with
  | nil => simp [isortBy, SortedBy]
  | cons x xs ih => exact insertBy_sorted h x ih

/-- inserting in front of a list whose head is not smaller leaves the element in front -/
theorem insertBy_of_le_head {lt : α → α → Bool} {x : α} {l : List α} (h : ∀ y ∈ l.head?, lt y x = false) :
    insertBy lt x l = x :: l := by
  cases l with
  | nil => rfl
  | cons y ys =>
    have : lt y x = false := h y (by simp)
    simp [insertBy, this]

theorem isortBy_of_sorted {lt : α → α → Bool} {l : List α} (hl : SortedBy lt l) : isortBy lt l = l := by
  induction l with
  | nil => rfl
  | cons x xs ih =>
    have hx : ∀ z ∈ xs, lt z x = false := (List.pairwise_cons.mp hl).1
    unfold isortBy
    rw [ih (List.pairwise_cons.mp hl).2]
    apply insertBy_of_le_head
    intro y hy
    exact hx y (List.mem_of_mem_head? hy)

theorem insertBy_cons_pos {lt : α → α → Bool} {x y : α} {ys : List α} (h : lt y x = true) :
    insertBy lt x (y :: ys) = y :: insertBy lt x ys := by simp [insertBy, h]

theorem insertBy_cons_neg {lt : α → α → Bool} {x y : α} {ys : List α} (h : lt y x = false) :
    insertBy lt x (y :: ys) = x :: y :: ys := by simp [insertBy, h]

/-- stability: on a sorted list, insertion commutes with filtering -/
theorem filter_insertBy {lt : α → α → Bool} (h : StrictWeak lt) (p : α → Bool) (x : α) {l : List α}
    (hl : SortedBy lt l) :
    (insertBy lt x l).filter p = if p x then insertBy lt x (l.filter p) else l.filter p := by
  induction l with
  | nil => by_cases hp : p x <;> simp [insertBy, hp]
  | cons y ys ih =>
    have hy : ∀ z ∈ ys, lt z y = false := (List.pairwise_cons.mp hl).1
    have hys : SortedBy lt ys := (List.pairwise_cons.mp hl).2
    by_cases hyx : lt y x = true
    · rw [insertBy_cons_pos hyx]
      by_cases hpy : p y = true
      · rw [List.filter_cons_of_pos hpy, List.filter_cons_of_pos hpy, ih hys]
        by_cases hp : p x = true
        · simp only [hp, if_true]; rw [insertBy_cons_pos hyx]
        · simp [hp]
      · have hpy' : p y = false := by simpa using hpy
        rw [List.filter_cons_of_neg (by simp [hpy']), List.filter_cons_of_neg (by simp [hpy']), ih hys]
    · have hyx' : lt y x = false := by simpa using hyx
      rw [insertBy_cons_neg hyx']
      -- every element of y :: ys is not smaller than x, so x stays in front of the filtered list too
      have hall : ∀ z ∈ (y :: ys).filter p, lt z x = false := by
        intro z hz
        have hz' := (List.mem_filter.mp hz).1
        rcases List.mem_cons.mp hz' with rfl | hz'
        · exact hyx'
        · exact h.negtrans z y x (hy z hz') hyx'
      by_cases hp : p x = true
      · rw [List.filter_cons_of_pos hp]
        simp only [hp, if_true]
        rw [insertBy_of_le_head]
        intro z hz
        exact hall z (List.mem_of_mem_head? hz)
      · have hp' : p x = false := by simpa using hp
        rw [List.filter_cons_of_neg (by simp [hp'])]
        simp [hp']

theorem isortBy_cons (lt : α → α → Bool) (x : α) (xs : List α) :
    isortBy lt (x :: xs) = insertBy lt x (isortBy lt xs) := rfl

theorem filter_isortBy {lt : α → α → Bool} (h : StrictWeak lt) (p : α → Bool) (l : List α) :
    (isortBy lt l).filter p = isortBy lt (l.filter p) := by
  induction l with
  | nil => rfl
  | cons x xs ih =>
    rw [isortBy_cons, filter_insertBy h p x (isortBy_sorted h xs), ih]
    by_cases hp : p x = true
    · rw [List.filter_cons_of_pos hp, isortBy_cons]; simp [hp]
    · have hp' : p x = false := by simpa using hp
      rw [List.filter_cons_of_neg (by simp [hp'])]; simp [hp']

end C03.Sort
