/-
Track renumbering: first-occurrence deduplication and index lookup.
-/
import PartituraModel.Proofs.C14Pedal

namespace C14P
open Model Model.Pedal

variable {α : Type} [DecidableEq α]

theorem mem_dedup (l : List α) (a : α) : a ∈ dedup l ↔ a ∈ l := by
  induction l with
  | nil => simp [dedup]
  | cons b rest ih =>
    simp only [dedup, List.mem_cons, List.mem_filter, ih, decide_eq_true_eq]
    constructor
    · rintro (h | ⟨h, _⟩)
      · exact Or.inl h
      · exact Or.inr h
    · intro h
      by_cases hab : a = b
      · exact Or.inl hab
      · rcases h with h | h
        · exact Or.inl h
        · exact Or.inr ⟨h, hab⟩

theorem nodup_dedup (l : List α) : (dedup l).Nodup := by
  induction l with
  | nil => simp [dedup]
  | cons b rest ih =>
    simp only [dedup, List.nodup_cons, List.mem_filter, decide_eq_true_eq, ne_eq, not_true_eq_false,
      and_false, not_false_eq_true, true_and]
    exact ih.sublist List.filter_sublist

theorem indexOf_some_of_mem (x : α) (l : List α) (h : x ∈ l) : ∃ k, indexOf x l = some k ∧ k < l.length := by
  induction l with
  | nil => cases h
  | cons a rest ih =>
    unfold indexOf
    by_cases hax : a = x
    · exact ⟨0, by simp [hax], by simp⟩
    · have hx : x ∈ rest := by
        rcases List.mem_cons.mp h with h | h
        · exact absurd h.symm hax
        · exact h
      obtain ⟨k, hk, hlt⟩ := ih hx
      exact ⟨k + 1, by simp [hax, hk], by simp; omega⟩

theorem indexOf_getElem (x : α) (l : List α) (k : Nat) (h : indexOf x l = some k) : l[k]? = some x := by
  induction l generalizing k with
  | nil => simp [indexOf] at h
  | cons a rest ih =>
    unfold indexOf at h
    by_cases hax : a = x
    · simp only [hax, if_true, Option.some.injEq] at h
      subst h; simp [hax]
    · simp only [hax, if_false, Option.map_eq_some_iff] at h
      obtain ⟨j, hj, rfl⟩ := h
      simpa using ih j hj

/-- two keys with the same number are the same key -/
theorem indexOf_inj (x y : α) (l : List α) (k : Nat) (hx : indexOf x l = some k) (hy : indexOf y l = some k) :
    x = y := by
  have h1 := indexOf_getElem x l k hx
  have h2 := indexOf_getElem y l k hy
  rw [h1] at h2
  exact Option.some.inj h2

end C14P
