/-
C01 helper lemmas, round 2: the numpy primitives as algorithms (Model/TimelineExt.lean) and the list
operations of Model/Timeline.lean that stand for them; `quarter_duration_map` on rational times.
-/
import PartituraModel.Model.TimelineExt
import Mathlib.Tactic.Linarith
import Mathlib.Algebra.Order.Field.Rat

namespace TL

-- ------------------------------------------------------------------ searchsorted

/-- `r` is the insertion index of `key` (side="left"): everything before is smaller, nothing from `r` on is -/
def IsLB (a : List Int) (key : Int) (r : Nat) : Prop :=
  r ≤ a.length ∧ (∀ j x, j < r → a[j]? = some x → x < key) ∧ (∀ j x, r ≤ j → a[j]? = some x → key ≤ x)

theorem isLB_unique {a : List Int} {key : Int} {r r' : Nat} (h : IsLB a key r) (h' : IsLB a key r') : r = r' := by
  rcases Nat.lt_trichotomy r r' with hlt | heq | hgt
  · have hlen : r < a.length := by have := h'.1; omega
    have hx : a[r]? = some a[r] := List.getElem?_eq_getElem hlen
    have h1 := h'.2.1 r _ hlt hx
    have h2 := h.2.2 r _ (Nat.le_refl r) hx
    omega
  · exact heq
  · have hlen : r' < a.length := by have := h.1; omega
    have hx : a[r']? = some a[r'] := List.getElem?_eq_getElem hlen
    have h1 := h.2.1 r' _ hgt hx
    have h2 := h'.2.2 r' _ (Nat.le_refl r') hx
    omega

theorem sorted_getElem? {a : List Int} (hs : a.Pairwise (· ≤ ·)) {i j : Nat} {x y : Int}
    (hi : a[i]? = some x) (hj : a[j]? = some y) (hij : i ≤ j) : x ≤ y := by
  rcases Nat.eq_or_lt_of_le hij with rfl | hlt
  · rw [hi] at hj
    cases hj
    exact Int.le_refl _
  · obtain ⟨hi', rfl⟩ := List.getElem?_eq_some_iff.mp hi
    obtain ⟨hj', rfl⟩ := List.getElem?_eq_some_iff.mp hj
    exact (List.pairwise_iff_getElem.mp hs) i j hi' hj' hlt

theorem searchsorted_le_length (a : List Int) (key : Int) : searchsorted a key ≤ a.length := by
  induction a with
  | nil => simp [searchsorted]
  | cons x xs ih =>
    simp only [searchsorted]
    split
    · simp; omega
    · simp

/-- the prefix count used by the model is the insertion index on a sorted array -/
theorem searchsorted_isLB {a : List Int} (hs : a.Pairwise (· ≤ ·)) (key : Int) : IsLB a key (searchsorted a key) := by
  induction a with
  | nil => exact ⟨by simp [searchsorted], by intro j x hj; simp [searchsorted] at hj, by intro j x _ h; simp at h⟩
  | cons y ys ih =>
    have hs' := (List.pairwise_cons.mp hs)
    have ih' := ih hs'.2
    by_cases hy : y < key
    · simp only [searchsorted, hy, if_true]
      refine ⟨by simp; exact ih'.1, ?_, ?_⟩
      · intro j x hj hx
        cases j with
        | zero => simp at hx; subst hx; exact hy
        | succ j =>
          simp only [List.getElem?_cons_succ] at hx
          exact ih'.2.1 j x (by omega) hx
      · intro j x hj hx
        cases j with
        | zero => omega
        | succ j =>
          simp only [List.getElem?_cons_succ] at hx
          exact ih'.2.2 j x (by omega) hx
    · simp only [searchsorted, hy, if_false]
      refine ⟨by simp, by intro j x hj; omega, ?_⟩
      intro j x _ hx
      cases j with
      | zero => simp at hx; subst hx; omega
      | succ j =>
        simp only [List.getElem?_cons_succ] at hx
        have : y ≤ x := hs'.1 x (List.mem_of_getElem? hx)
        omega

theorem bsearchLoop_isLB {a : List Int} (hs : a.Pairwise (· ≤ ·)) (key : Int) (fuel : Nat) :
    ∀ lo hi, lo ≤ hi → hi ≤ a.length → hi - lo ≤ fuel →
      (∀ j x, j < lo → a[j]? = some x → x < key) → (∀ j x, hi ≤ j → a[j]? = some x → key ≤ x) →
      IsLB a key (bsearchLoop a key fuel lo hi) := by
  induction fuel with
  | zero =>
    intro lo hi h1 h2 h3 hA hB
    have : lo = hi := by omega
    subst this
    exact ⟨h2, hA, hB⟩
  | succ fuel ih =>
    intro lo hi h1 h2 h3 hA hB
    simp only [bsearchLoop]
    by_cases hlt : lo < hi
    · simp only [hlt, if_true]
      have hmid1 : lo ≤ lo + (hi - lo) / 2 := by omega
      have hmid2 : lo + (hi - lo) / 2 < hi := by omega
      have hlen : lo + (hi - lo) / 2 < a.length := by omega
      have hx : a[lo + (hi - lo) / 2]? = some a[lo + (hi - lo) / 2] := List.getElem?_eq_getElem hlen
      rw [hx]
      simp only
      by_cases hc : a[lo + (hi - lo) / 2] < key
      · simp only [hc, if_true]
        apply ih _ _ (by omega) h2 (by omega) _ hB
        intro j x hj hjx
        have := sorted_getElem? hs hjx hx (by omega)
        omega
      · simp only [hc, if_false]
        apply ih _ _ hmid1 (by omega) (by omega) hA
        intro j x hj hjx
        have := sorted_getElem? hs hx hjx hj
        omega
    · simp only [hlt, if_false]
      have : lo = hi := by omega
      subst this
      exact ⟨h2, hA, hB⟩

/-- numpy's binary search returns the insertion index of `key` in a sorted array -/
theorem bsearch_isLB {a : List Int} (hs : a.Pairwise (· ≤ ·)) (key : Int) : IsLB a key (bsearch a key) := by
  unfold bsearch
  apply bsearchLoop_isLB hs key a.length 0 a.length (Nat.zero_le _) (Nat.le_refl _) (by omega)
  · intro j x hj; omega
  · intro j x hj hx
    have := (List.getElem?_eq_some_iff.mp hx).1
    omega

theorem bsearch_eq_searchsorted' {a : List Int} (hs : a.Pairwise (· ≤ ·)) (key : Int) :
    bsearch a key = searchsorted a key := isLB_unique (bsearch_isLB hs key) (searchsorted_isLB hs key)

theorem le_of_lt_pairwise {a : List Int} (hs : a.Pairwise (· < ·)) : a.Pairwise (· ≤ ·) :=
  hs.imp (fun h => Int.le_of_lt h)

-- ------------------------------------------------------------------ np.insert / np.delete

theorem insertIdx_eq_take_drop' {α : Type} (a : List α) (i : Nat) (x : α) (h : i ≤ a.length) :
    a.insertIdx i x = a.take i ++ x :: a.drop i := by
  induction a generalizing i with
  | nil =>
    have : i = 0 := by simpa using h
    subst this
    simp
  | cons y ys ih =>
    cases i with
    | zero => simp
    | succ i =>
      simp only [List.insertIdx_succ_cons, List.take_succ_cons, List.drop_succ_cons, List.cons_append]
      rw [ih i (by simpa using h)]

theorem eraseIdx_eq_take_drop' {α : Type} (a : List α) (i : Nat) :
    a.eraseIdx i = a.take i ++ a.drop (i + 1) := by
  induction a generalizing i with
  | nil => simp
  | cons y ys ih =>
    cases i with
    | zero => simp
    | succ i =>
      simp only [List.eraseIdx_cons_succ, List.take_succ_cons, List.drop_succ_cons, List.cons_append]
      rw [ih i]

-- ------------------------------------------------------------------ quarter_duration_map on rational times

theorem qdAtAuxQ_cast (cur : Nat) (l : List (Int × Nat)) (t : Int) : qdAtAuxQ cur l (t : Rat) = qdAtAux cur l t := by
  induction l generalizing cur with
  | nil => rfl
  | cons e r ih =>
    obtain ⟨x, y⟩ := e
    simp only [qdAtAuxQ, qdAtAux]
    have : ((x : Rat) ≤ (t : Rat)) ↔ x ≤ t := Int.cast_le
    by_cases h : x ≤ t
    · simp only [h, this.mpr h, if_true]; exact ih y
    · have h' : ¬ ((x : Rat) ≤ (t : Rat)) := fun hc => h (this.mp hc)
      simp only [h, h', if_false]

theorem qdAtQ_cast (tab : List (Int × Nat)) (t : Int) : qdAtQ tab (t : Rat) = qdAt tab t := by
  cases tab with
  | nil => rfl
  | cons e r =>
    obtain ⟨x, y⟩ := e
    simp only [qdAtQ, qdAt, qdAtAuxQ_cast]

theorem auxQ_head_gt (cur : Nat) (l : List (Int × Nat)) (x : Rat) (h : ∀ e ∈ l.head?, x < (e.1 : Rat)) :
    qdAtAuxQ cur l x = cur := by
  cases l with
  | nil => rfl
  | cons e r =>
    obtain ⟨a, b⟩ := e
    have : x < (a : Rat) := h (a, b) (by simp)
    have hn : ¬ (a : Rat) ≤ x := not_le.mpr this
    simp [qdAtAuxQ, hn]

theorem auxQ_split (cur : Nat) (l1 l2 : List (Int × Nat)) (e : Int × Nat) (x : Rat)
    (h1 : ∀ a ∈ l1, (a.1 : Rat) ≤ x) (he : (e.1 : Rat) ≤ x) (h2 : ∀ a ∈ l2.head?, x < (a.1 : Rat)) :
    qdAtAuxQ cur (l1 ++ e :: l2) x = e.2 := by
  induction l1 generalizing cur with
  | nil =>
    obtain ⟨a, b⟩ := e
    simp only [List.nil_append, qdAtAuxQ]
    have he' : (a : Rat) ≤ x := he
    simp only [he', if_true]
    exact auxQ_head_gt b l2 x h2
  | cons f r ih =>
    obtain ⟨a, b⟩ := f
    have hf : (a : Rat) ≤ x := h1 (a, b) (by simp)
    simp only [List.cons_append, qdAtAuxQ, hf, if_true]
    exact ih b (fun a' ha' => h1 a' (by simp [ha']))

/-- the value of `quarter_duration_map` at ANY time: the duration of the last change at or before `x`;
the first stored duration when `x` lies before every change -/
theorem qdAtQ_spec {tab : List (Int × Nat)} (hs : (tab.map (·.1)).Pairwise (· < ·)) (x : Rat) :
    (∀ e ∈ tab, (e.1 : Rat) ≤ x → (∀ e' ∈ tab, (e'.1 : Rat) ≤ x → e'.1 ≤ e.1) → qdAtQ tab x = some e.2)
    ∧ ((∀ e ∈ tab, x < (e.1 : Rat)) → qdAtQ tab x = tab.head?.map (·.2)) := by
  constructor
  · intro e he hex hmax
    obtain ⟨l1, l2, rfl⟩ := List.append_of_mem he
    simp only [List.map_append, List.map_cons, List.pairwise_append, List.pairwise_cons] at hs
    have h1 : ∀ a ∈ l1, (a.1 : Rat) ≤ x := by
      intro a ha
      have : a.1 < e.1 := hs.2.2 a.1 (List.mem_map_of_mem ha) e.1 (by simp)
      have : (a.1 : Rat) < (e.1 : Rat) := Int.cast_lt.mpr this
      linarith
    have h2 : ∀ a ∈ l2.head?, x < (a.1 : Rat) := by
      intro a ha
      have ha' : a ∈ l2 := List.mem_of_mem_head? ha
      have hlt : e.1 < a.1 := hs.2.1.1 a.1 (List.mem_map_of_mem ha')
      by_contra hc
      have hle : (a.1 : Rat) ≤ x := not_lt.mp hc
      have := hmax a (by simp [ha']) hle
      omega
    cases l1 with
    | nil =>
      obtain ⟨a, b⟩ := e
      simp only [List.nil_append, qdAtQ]
      rw [auxQ_head_gt b l2 x h2]
    | cons f r =>
      obtain ⟨a, b⟩ := f
      simp only [List.cons_append, qdAtQ]
      rw [auxQ_split b r l2 e x (fun a' ha' => h1 a' (by simp [ha'])) hex h2]
  · intro hall
    cases tab with
    | nil => rfl
    | cons f r =>
      obtain ⟨a, b⟩ := f
      simp only [qdAtQ, List.head?_cons, Option.map_some]
      rw [auxQ_head_gt b r x]
      intro e he
      exact hall e (by simp [List.mem_of_mem_head? he])

end TL
