/-
Helper lemmas for Props/C14Arrays.lean: the numpy contracts (`searchsorted`, stable `argsort`), numpy's binary
search, the sorted enumeration of (part, track) pairs, the notes `from_note_array` builds.
-/
import PartituraModel.Proofs.C14Dict

namespace C14P
open Model Model.Pedal

-- ------------------------------------------------------------------ searchsorted

theorem searchsorted_unique (a : List Rat) (x : Rat) (i : Nat) (h : IsSearchLeft a x i) : searchsortedLeft a x = i := by
  induction a generalizing i with
  | nil =>
    obtain ⟨hl, _, _⟩ := h
    simp only [List.length_nil, Nat.le_zero_eq] at hl
    subst hl
    rfl
  | cons t rest ih =>
    obtain ⟨hl, hlt, hge⟩ := h
    cases i with
    | zero =>
      have hx : x ≤ t := hge 0 t (le_refl _) rfl
      unfold searchsortedLeft
      simp [List.takeWhile_cons, not_lt.mpr hx]
    | succ j =>
      have hx : t < x := hlt 0 t (by omega) rfl
      have ihj := ih j ⟨by simpa using hl,
        fun k u hk hu => hlt (k + 1) u (by omega) (by rw [List.getElem?_cons_succ]; exact hu),
        fun k u hk hu => hge (k + 1) u (by omega) (by rw [List.getElem?_cons_succ]; exact hu)⟩
      unfold searchsortedLeft at ihj ⊢
      simp [List.takeWhile_cons, hx, ihj]

theorem sorted_get_le (a : List Rat) (hs : a.Pairwise (fun u v => u ≤ v)) (j k : Nat) (hjk : j ≤ k) (u t : Rat)
    (hu : a[j]? = some u) (ht : a[k]? = some t) : u ≤ t := by
  obtain ⟨hj, hju⟩ := List.getElem?_eq_some_iff.mp hu
  obtain ⟨hk, hkt⟩ := List.getElem?_eq_some_iff.mp ht
  rcases Nat.lt_or_ge j k with h | h
  · have := List.pairwise_iff_getElem.mp hs j k hj hk h
    rw [hju, hkt] at this
    exact this
  · have : j = k := by omega
    subst this
    rw [hju] at hkt
    rw [hkt]

theorem searchsorted_meets_contract (a : List Rat) (x : Rat) (hs : a.Pairwise (fun u v => u ≤ v)) :
    IsSearchLeft a x (searchsortedLeft a x) := by
  induction a with
  | nil =>
    show IsSearchLeft [] x 0
    exact ⟨le_refl _, fun j t hj => absurd hj (Nat.not_lt_zero j), fun j t _ h => by simp at h⟩
  | cons t rest ih =>
    have hs' := (List.pairwise_cons.mp hs).2
    have hhead := (List.pairwise_cons.mp hs).1
    obtain ⟨h1, h2, h3⟩ := ih hs'
    by_cases hx : t < x
    · have e : searchsortedLeft (t :: rest) x = searchsortedLeft rest x + 1 := by
        unfold searchsortedLeft
        simp [List.takeWhile_cons, hx]
      rw [e]
      refine ⟨by simpa using h1, ?_, ?_⟩
      · intro j u hj hu
        cases j with
        | zero => simp only [List.getElem?_cons_zero, Option.some.injEq] at hu; rw [← hu]; exact hx
        | succ k => rw [List.getElem?_cons_succ] at hu; exact h2 k u (by omega) hu
      · intro j u hj hu
        cases j with
        | zero => omega
        | succ k => rw [List.getElem?_cons_succ] at hu; exact h3 k u (by omega) hu
    · have e : searchsortedLeft (t :: rest) x = 0 := by
        unfold searchsortedLeft
        simp [List.takeWhile_cons, hx]
      rw [e]
      refine ⟨Nat.zero_le _, fun j u hj => by omega, ?_⟩
      intro j u _ hu
      have hxt : x ≤ t := not_lt.mp hx
      cases j with
      | zero => simp only [List.getElem?_cons_zero, Option.some.injEq] at hu; rw [← hu]; exact hxt
      | succ k =>
        rw [List.getElem?_cons_succ] at hu
        exact le_trans hxt (hhead u (List.mem_of_getElem? hu))

/-- numpy's binary search keeps "everything before `lo` is `< x`, everything from `lo + len` on is `≥ x`" -/
theorem binSearch_spec (a : List Rat) (x : Rat) (hs : a.Pairwise (fun u v => u ≤ v)) :
    ∀ (fuel lo len : Nat), len ≤ fuel → lo + len ≤ a.length →
      (∀ j u, j < lo → a[j]? = some u → u < x) → (∀ j u, lo + len ≤ j → a[j]? = some u → x ≤ u) →
      IsSearchLeft a x (binSearchLeft a x fuel lo len) := by
  intro fuel
  induction fuel with
  | zero =>
    intro lo len hf hl h1 h2
    have : len = 0 := by omega
    subst this
    show IsSearchLeft a x lo
    exact ⟨by simpa using hl, h1, by simpa using h2⟩
  | succ fuel ih =>
    intro lo len hf hl h1 h2
    unfold binSearchLeft
    by_cases h0 : len = 0
    · subst h0
      simp only [if_true]
      exact ⟨by simpa using hl, h1, by simpa using h2⟩
    · simp only [h0, if_false]
      have hmid : lo + len / 2 < a.length := by
        have : len / 2 < len := Nat.div_lt_self (by omega) (by omega)
        omega
      have hget : a[lo + len / 2]? = some a[lo + len / 2] := List.getElem?_eq_getElem hmid
      rw [hget]
      simp only
      by_cases hx : a[lo + len / 2] < x
      · rw [if_pos hx]
        apply ih
        · have : len / 2 ≤ len := Nat.div_le_self _ _
          omega
        · have : len / 2 < len := Nat.div_lt_self (by omega) (by omega)
          omega
        · intro j u hj hu
          exact lt_of_le_of_lt (sorted_get_le a hs j (lo + len / 2) (by omega) u _ hu hget) hx
        · intro j u hj hu
          have : len / 2 < len := Nat.div_lt_self (by omega) (by omega)
          exact h2 j u (by omega) hu
      · rw [if_neg hx]
        apply ih
        · have : len / 2 < len := Nat.div_lt_self (by omega) (by omega)
          omega
        · omega
        · exact h1
        · intro j u hj hu
          exact le_trans (not_lt.mp hx) (sorted_get_le a hs (lo + len / 2) j hj _ u hget hu)

-- ------------------------------------------------------------------ stable sort

/-- two lists in ascending key order with the same elements of every key, in the same order, are equal -/
theorem sorted_filters_unique {α : Type} (key : α → Rat) (s s' : List α) (hs : SortedBy key s) (hs' : SortedBy key s')
    (hf : ∀ t : Rat, s.filter (fun a => decide (key a = t)) = s'.filter (fun a => decide (key a = t))) : s = s' := by
  induction s generalizing s' with
  | nil =>
    cases s' with
    | nil => rfl
    | cons b rest =>
      have := hf (key b)
      simp at this
  | cons a s1 ih =>
    cases s' with
    | nil =>
      have := hf (key a)
      simp at this
    | cons b s1' =>
      have ha := List.pairwise_cons.mp hs
      have hb := List.pairwise_cons.mp hs'
      -- the heads have the same key
      have hkey : key a = key b := by
        apply le_antisymm
        · have hmem : b ∈ (a :: s1).filter (fun c => decide (key c = key b)) := by
            rw [hf (key b)]; simp
          have hb' := (List.mem_filter.mp hmem).1
          rcases List.mem_cons.mp hb' with h | h
          · rw [h]
          · exact ha.1 b h
        · have hmem : a ∈ (b :: s1').filter (fun c => decide (key c = key a)) := by
            rw [← hf (key a)]; simp
          have ha' := (List.mem_filter.mp hmem).1
          rcases List.mem_cons.mp ha' with h | h
          · rw [h]
          · exact hb.1 a h
      have h0 := hf (key a)
      have hkb : decide (key b = key a) = true := by simp [hkey]
      simp only [List.filter_cons, decide_true, if_true, hkb] at h0
      have hab : a = b := (List.cons.inj h0).1
      subst hab
      have htail : s1 = s1' := by
        apply ih s1' ha.2 hb.2
        intro t
        have ht := hf t
        by_cases hk : key a = t
        · have hk' : decide (key a = t) = true := by simp [hk]
          simp only [List.filter_cons, hk', if_true] at ht
          exact (List.cons.inj ht).2
        · have hk' : decide (key a = t) = false := by simp [hk]
          simp only [List.filter_cons, hk'] at ht
          simpa using ht
      rw [htail]

-- ------------------------------------------------------------------ sorted (part, track) pairs

theorem keyLe_iff (a b : Nat × Int) : keyLe a b = true ↔ a.1 < b.1 ∨ (a.1 = b.1 ∧ a.2 ≤ b.2) := by
  simp [keyLe]

theorem keyLe_total (a b : Nat × Int) : keyLe a b = true ∨ keyLe b a = true := by
  rw [keyLe_iff, keyLe_iff]; omega

theorem keyLe_trans (a b c : Nat × Int) (h1 : keyLe a b = true) (h2 : keyLe b c = true) : keyLe a c = true := by
  rw [keyLe_iff] at *; omega

theorem keyLe_antisymm (a b : Nat × Int) (h1 : keyLe a b = true) (h2 : keyLe b a = true) : a = b := by
  rw [keyLe_iff] at *
  apply Prod.ext <;> omega

theorem perm_insertKey (x : Nat × Int) (l : List (Nat × Int)) : (insertKey x l).Perm (x :: l) := by
  induction l with
  | nil => exact List.Perm.refl _
  | cons y ys ih =>
    unfold insertKey
    split
    · exact List.Perm.refl _
    · exact (List.Perm.cons y ih).trans (List.Perm.swap x y ys)

theorem perm_sortKeys (l : List (Nat × Int)) : (sortKeys l).Perm l := by
  induction l with
  | nil => exact List.Perm.refl _
  | cons x xs ih =>
    unfold sortKeys
    exact (perm_insertKey x _).trans (List.Perm.cons x ih)

theorem sorted_insertKey (x : Nat × Int) (l : List (Nat × Int)) (h : l.Pairwise (fun a b => keyLe a b = true)) :
    (insertKey x l).Pairwise (fun a b => keyLe a b = true) := by
  induction l with
  | nil => simp [insertKey]
  | cons y ys ih =>
    have hy := List.pairwise_cons.mp h
    unfold insertKey
    split
    · rename_i hxy
      apply List.pairwise_cons.mpr
      refine ⟨?_, h⟩
      intro b hb
      rcases List.mem_cons.mp hb with rfl | hb'
      · exact hxy
      · exact keyLe_trans x y b hxy (hy.1 b hb')
    · rename_i hxy
      have hyx : keyLe y x = true := by
        rcases keyLe_total x y with h' | h'
        · exact absurd h' hxy
        · exact h'
      apply List.pairwise_cons.mpr
      refine ⟨?_, ih hy.2⟩
      intro b hb
      rcases List.mem_cons.mp ((perm_insertKey x ys).mem_iff.mp hb) with rfl | hb'
      · exact hyx
      · exact hy.1 b hb'

theorem sorted_sortKeys (l : List (Nat × Int)) : (sortKeys l).Pairwise (fun a b => keyLe a b = true) := by
  induction l with
  | nil => simp [sortKeys]
  | cons x xs ih => unfold sortKeys; exact sorted_insertKey x _ ih

/-- position in a sorted duplicate-free enumeration is monotone -/
theorem indexOf_sorted_mono (u : List (Nat × Int)) (hs : u.Pairwise (fun a b => keyLe a b = true))
    (k₁ k₂ : Nat × Int) (j₁ j₂ : Nat) (h₁ : indexOf k₁ u = some j₁) (h₂ : indexOf k₂ u = some j₂)
    (hle : keyLe k₁ k₂ = true) : j₁ ≤ j₂ := by
  by_contra hlt
  have hlt' : j₂ < j₁ := by omega
  have g₁ := indexOf_getElem k₁ u j₁ h₁
  have g₂ := indexOf_getElem k₂ u j₂ h₂
  obtain ⟨b₁, e₁⟩ := List.getElem?_eq_some_iff.mp g₁
  obtain ⟨b₂, e₂⟩ := List.getElem?_eq_some_iff.mp g₂
  have := List.pairwise_iff_getElem.mp hs j₂ j₁ b₂ b₁ hlt'
  rw [e₁, e₂] at this
  have heq := keyLe_antisymm k₁ k₂ hle this
  subst heq
  rw [h₁] at h₂
  have := Option.some.inj h₂
  omega

-- ------------------------------------------------------------------ from_note_array

theorem nIds_length (k : Nat) : (nIds k).length = k := by simp [nIds]

theorem arrayIds_length (f : ArrFields) (rows : List ARow) : (arrayIds f rows).length = rows.length := by
  unfold arrayIds
  split
  · exact nIds_length _
  · split
    · rfl
    · split
      · exact nIds_length _
      · simp

theorem map_zip_snd {α β γ : Type} (g : β → γ) (as : List α) (bs : List β) (h : as.length = bs.length) :
    (as.zip bs).map (fun x => g x.2) = bs.map g := by
  induction as generalizing bs with
  | nil => cases bs with
    | nil => rfl
    | cons _ _ => simp at h
  | cons a rest ih =>
    cases bs with
    | nil => simp at h
    | cons b bs' =>
      simp only [List.zip_cons_cons, List.map_cons]
      rw [ih bs' (by simpa using h)]

theorem map_zip_fst {α β γ : Type} (g : α → γ) (as : List α) (bs : List β) (h : as.length = bs.length) :
    (as.zip bs).map (fun x => g x.1) = as.map g := by
  induction as generalizing bs with
  | nil => cases bs with
    | nil => rfl
    | cons _ _ => simp at h
  | cons a rest ih =>
    cases bs with
    | nil => simp at h
    | cons b bs' =>
      simp only [List.zip_cons_cons, List.map_cons]
      rw [ih bs' (by simpa using h)]

/-- the note `from_note_array` builds from one row, when the row is one a note array can hold -/
def rebuilt (f : ArrFields) (id : String) (r : Row) : PNote :=
  ⟨some id, r.pitch, r.pitch, r.onsetSec, r.onsetSec + r.durSec, r.onsetSec + r.durSec, r.vel,
    if f.track then r.track else Gen.C14.fromArrayTrackDefault,
    if f.chan then r.chan else Gen.C14.fromArrayChanDefault, none, none⟩

theorem init_rawOfRow (f : ArrFields) (id : String) (r : Row) (hp : 0 ≤ r.pitch ∧ r.pitch ≤ 127)
    (hv : 0 ≤ r.vel ∧ r.vel ≤ 127) (hon : 0 ≤ r.onsetSec) (hd : 0 ≤ r.durSec) :
    initNote (rawOfRow f id r) = some (rebuilt f id r) := by
  have hoff : r.onsetSec ≤ r.onsetSec + r.durSec := le_add_of_nonneg_right hd
  have hval : validInit (rebuilt f id r) = true := by
    apply (validInit_iff _).mpr
    simp only [rebuilt]
    refine ⟨hp, hon, Or.inr ⟨le_trans hon hoff, hoff⟩, hv, Or.inr ⟨le_trans hon hoff, le_refl _⟩, ?_, ?_⟩
    · intro t ht; cases ht
    · intro u hu; cases hu
  have hdef : defaulted (rawOfRow f id r) r.pitch = rebuilt f id r := rfl
  have hor : (rawOfRow f id r).pitch.or (rawOfRow f id r).midiPitch = some r.pitch := rfl
  unfold initNote
  rw [hor]
  simp only [hdef, hval, if_true]

theorem storeSound_self (ns : List PNote) (h : ∀ n ∈ ns, n.soundOff = n.off) :
    storeSound ns (ns.map (fun n => n.toNote.off)) = ns := by
  induction ns with
  | nil => rfl
  | cons a rest ih =>
    simp only [List.map_cons, storeSound]
    rw [ih (fun n hn => h n (List.mem_cons_of_mem _ hn))]
    have := h a List.mem_cons_self
    congr 1
    cases a
    simp only [PNote.toNote] at this ⊢
    simp [this]

/-- a part of notes whose `sound_off` is their release, without controls: the construction changes nothing -/
theorem assignThr_no_controls (ns : List PNote) (thr : Int) (h : ∀ n ∈ ns, n.soundOff = n.off) :
    assignThr { notes := ns, controls := [], thr := thr } thr = some { notes := ns, controls := [], thr := thr } := by
  unfold assignThr
  simp only
  rw [soundOffs_no_controls, List.map_map]
  have := storeSound_self ns h
  simp only [Function.comp_def] at this ⊢
  rw [this]

end C14P
