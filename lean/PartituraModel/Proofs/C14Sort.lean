/-
Lemmas about the stable insertion sort `Model.Pedal.sortBy` and about `foldl min` (np.minimum chains).
-/
import PartituraModel.Model.Pedal
import Mathlib.Data.List.Perm.Basic
import Mathlib.Tactic.Linarith
import Mathlib.Algebra.Order.Field.Rat

namespace C14P
open Model Model.Pedal

variable {α : Type}

/-- sorted by key -/
def SortedBy (key : α → Rat) (l : List α) : Prop := l.Pairwise (fun a b => key a ≤ key b)

theorem perm_insertBy (key : α → Rat) (x : α) (l : List α) : (insertBy key x l).Perm (x :: l) := by
  induction l with
  | nil => exact List.Perm.refl _
  | cons y ys ih =>
    unfold insertBy
    split
    · exact List.Perm.refl _
    · exact (List.Perm.cons y ih).trans (List.Perm.swap x y ys)

theorem perm_sortBy (key : α → Rat) (l : List α) : (sortBy key l).Perm l := by
  induction l with
  | nil => exact List.Perm.refl _
  | cons x xs ih =>
    unfold sortBy
    exact (perm_insertBy key x _).trans (List.Perm.cons x ih)

theorem mem_sortBy (key : α → Rat) (l : List α) (a : α) : a ∈ sortBy key l ↔ a ∈ l :=
  (perm_sortBy key l).mem_iff

theorem length_sortBy (key : α → Rat) (l : List α) : (sortBy key l).length = l.length :=
  (perm_sortBy key l).length_eq

theorem sorted_insertBy (key : α → Rat) (x : α) (l : List α) (h : SortedBy key l) :
    SortedBy key (insertBy key x l) := by
  induction l with
  | nil => simp [insertBy, SortedBy]
  | cons y ys ih =>
    unfold insertBy
    have hy := List.pairwise_cons.mp h
    split
    · rename_i hxy
      refine List.pairwise_cons.mpr ⟨?_, h⟩
      intro b hb
      rcases List.mem_cons.mp hb with rfl | hb
      · exact hxy
      · exact le_trans hxy (hy.1 b hb)
    · rename_i hxy
      have hyx : key y ≤ key x := le_of_lt (not_le.mp hxy)
      refine List.pairwise_cons.mpr ⟨?_, ih hy.2⟩
      intro b hb
      rcases List.mem_cons.mp ((perm_insertBy key x ys).mem_iff.mp hb) with rfl | hb
      · exact hyx
      · exact hy.1 b hb

theorem sorted_sortBy (key : α → Rat) (l : List α) : SortedBy key (sortBy key l) := by
  induction l with
  | nil => simp [sortBy, SortedBy]
  | cons x xs ih => unfold sortBy; exact sorted_insertBy key x _ ih

/-- stability: elements sharing a key keep their input order (stated for any predicate on the key) -/
theorem filter_insertBy (key : α → Rat) (p : Rat → Bool) (x : α) (l : List α)
    (h : ∀ y ∈ l, key y < key x → ¬ (p (key x) = true ∧ p (key y) = true)) :
    (insertBy key x l).filter (fun a => p (key a)) = (x :: l).filter (fun a => p (key a)) := by
  induction l with
  | nil => simp [insertBy]
  | cons y ys ih =>
    unfold insertBy
    split
    · rfl
    · rename_i hxy
      have hlt : key y < key x := not_le.mp hxy
      have hn := h y (List.mem_cons_self) hlt
      have ih' := ih (fun z hz => h z (List.mem_cons_of_mem _ hz))
      simp only [List.filter_cons] at ih' ⊢
      rw [ih']
      by_cases hpx : p (key x) = true <;> by_cases hpy : p (key y) = true
      · exact absurd ⟨hpx, hpy⟩ hn
      · simp [hpx, hpy]
      · simp [hpx, hpy]
      · simp [hpx, hpy]

/-- the elements with one given key appear in the sorted list in their input order -/
theorem stable_sortBy (key : α → Rat) (t : Rat) (l : List α) :
    (sortBy key l).filter (fun a => decide (key a = t)) = l.filter (fun a => decide (key a = t)) := by
  induction l with
  | nil => rfl
  | cons x xs ih =>
    unfold sortBy
    have := filter_insertBy key (fun k => decide (k = t)) x (sortBy key xs) (by
      intro y _ hlt hh
      simp only [decide_eq_true_eq] at hh
      rw [hh.1, hh.2] at hlt
      exact lt_irrefl _ hlt)
    rw [this]
    simp only [List.filter_cons, ih]

theorem insertBy_map {β : Type} (key : β → Rat) (f : α → β) (x : α) (l : List α) :
    insertBy key (f x) (l.map f) = (insertBy (fun a => key (f a)) x l).map f := by
  induction l with
  | nil => rfl
  | cons y ys ih =>
    simp only [List.map_cons, insertBy]
    split
    · rfl
    · simp [ih]

/-- sorting commutes with relabelling that keeps the keys -/
theorem sortBy_map {β : Type} (key : β → Rat) (f : α → β) (l : List α) :
    sortBy key (l.map f) = (sortBy (fun a => key (f a)) l).map f := by
  induction l with
  | nil => rfl
  | cons x xs ih =>
    simp only [List.map_cons, sortBy, ih, insertBy_map]

-- ------------------------------------------------------------------ foldl min

theorem foldl_min_le_init (x : Rat) (l : List Rat) : l.foldl min x ≤ x := by
  induction l generalizing x with
  | nil => exact le_refl _
  | cons y ys ih => exact le_trans (ih (min x y)) (min_le_left _ _)

theorem foldl_min_le_mem (x : Rat) (l : List Rat) (y : Rat) (hy : y ∈ l) : l.foldl min x ≤ y := by
  induction l generalizing x with
  | nil => cases hy
  | cons z zs ih =>
    simp only [List.foldl_cons]
    rcases List.mem_cons.mp hy with rfl | h
    · exact le_trans (foldl_min_le_init _ _) (min_le_right _ _)
    · exact ih _ h

theorem foldl_min_mem (x : Rat) (l : List Rat) : l.foldl min x = x ∨ l.foldl min x ∈ l := by
  induction l generalizing x with
  | nil => exact Or.inl rfl
  | cons z zs ih =>
    rcases ih (min x z) with h | h
    · rcases min_choice x z with h2 | h2
      · left; simp only [List.foldl_cons]; rw [h, h2]
      · right; simp only [List.foldl_cons]; rw [h, h2]; exact List.mem_cons_self
    · right; exact List.mem_cons_of_mem _ h

theorem le_foldl_min (x : Rat) (l : List Rat) (b : Rat) (hx : b ≤ x) (hl : ∀ y ∈ l, b ≤ y) :
    b ≤ l.foldl min x := by
  rcases foldl_min_mem x l with h | h
  · rw [h]; exact hx
  · exact hl _ h

theorem foldl_min_eq_init (x : Rat) (l : List Rat) (hl : ∀ y ∈ l, x ≤ y) : l.foldl min x = x :=
  le_antisymm (foldl_min_le_init x l) (le_foldl_min x l x (le_refl _) hl)

instance : RightCommutative (min : Rat → Rat → Rat) := ⟨fun a b c => by
  rw [min_assoc, min_comm b c, ← min_assoc]⟩

theorem foldl_min_perm (x : Rat) {l₁ l₂ : List Rat} (h : l₁.Perm l₂) : l₁.foldl min x = l₂.foldl min x :=
  h.foldl_eq x

theorem foldl_min_mono (x y : Rat) (l : List Rat) (h : x ≤ y) : l.foldl min x ≤ l.foldl min y := by
  induction l generalizing x y with
  | nil => exact h
  | cons z zs ih => exact ih _ _ (min_le_min_right z h)

/-- `foldl min` over a list whose every element dominates an element of the other list -/
theorem foldl_min_anti (x : Rat) (l₁ l₂ : List Rat) (h : ∀ y ∈ l₂, ∃ z ∈ l₁, z ≤ y) :
    l₁.foldl min x ≤ l₂.foldl min x := by
  apply le_foldl_min
  · exact foldl_min_le_init x l₁
  · intro y hy
    obtain ⟨z, hz, hzy⟩ := h y hy
    exact le_trans (foldl_min_le_mem x l₁ z hz) hzy

theorem foldl_max_ge_init (x : Rat) (l : List Rat) : x ≤ l.foldl max x := by
  induction l generalizing x with
  | nil => exact le_refl _
  | cons y ys ih => exact le_trans (le_max_left _ _) (ih (max x y))

theorem foldl_max_ge_mem (x : Rat) (l : List Rat) (y : Rat) (hy : y ∈ l) : y ≤ l.foldl max x := by
  induction l generalizing x with
  | nil => cases hy
  | cons z zs ih =>
    simp only [List.foldl_cons]
    rcases List.mem_cons.mp hy with rfl | h
    · exact le_trans (le_max_right _ _) (foldl_max_ge_init _ _)
    · exact ih _ h

end C14P
