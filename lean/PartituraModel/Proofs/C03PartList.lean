/-
C03 — the part list: the lazy writer (`handle_parents`) produces the bracket sequence of the forest, and
`_parse_partlist` reads a bracket sequence back as the forest.
-/
import PartituraModel.Model.XmlPartList
import Mathlib.Data.List.Basic

namespace C03.PL
open Model Model.XmlNote Model.PartList
open Model.PartList.Forest

abbrev F := Forest GroupW PartW

def stopOf (g : GroupW) : PLEl := .groupStop g.number

/-- the bracket sequence of a forest -/
def emit : F → List PLEl
  | .nil => []
  | .part p r => .scorePart p :: emit r
  | .group g c r => .groupStart g :: (emit c ++ stopOf g :: emit r)

/-- the groups that are still open after the last part of the forest: innermost first -/
def spine : F → List GroupW
  | .nil => []
  | .part _ r => spine r
  | .group g c r =>
    match r with
    | .nil => spine c ++ [g]
    | _ => spine r

/-- the bracket sequence without the closing brackets of the spine -/
def emitOpen : F → List PLEl
  | .nil => []
  | .part p r => .scorePart p :: emitOpen r
  | .group g c r =>
    match r with
    | .nil => .groupStart g :: emitOpen c
    | _ => .groupStart g :: (emit c ++ stopOf g :: emitOpen r)

theorem emit_eq (f : F) : emit f = emitOpen f ++ (spine f).map stopOf := by
  induction f with
  | nil => rfl
  | part p r ih => simp [emit, emitOpen, spine, ih]
  | group g c r ihc ihr =>
    cases r with
    | nil => simp [emit, emitOpen, spine, ihc]
    | part p r' => simp only [emit, emitOpen, spine] at ihr ⊢; simp [ihr]
    | group g' c' r' => simp only [emit, emitOpen, spine] at ihr ⊢; simp [ihr]

theorem spine_group_ne (g : GroupW) (c r : F) (h : r ≠ .nil) : spine (.group g c r) = spine r := by
  cases r with
  | nil => exact absurd rfl h
  | part _ _ => rfl
  | group _ _ _ => rfl

theorem emitOpen_group_ne (g : GroupW) (c r : F) (h : r ≠ .nil) :
    emitOpen (.group g c r) = .groupStart g :: (emit c ++ stopOf g :: emitOpen r) := by
  cases r with
  | nil => exact absurd rfl h
  | part _ _ => rfl
  | group _ _ _ => rfl

theorem spine_sub (f : F) : ∀ g ∈ spine f, g ∈ groups f := by
  induction f with
  | nil => simp [spine]
  | part p r ih => simpa [spine, groups] using ih
  | group g c r ihc ihr =>
    intro x hx
    simp only [groups, List.mem_cons, List.mem_append]
    by_cases hr : r = .nil
    · subst hr
      simp only [spine, List.mem_append, List.mem_singleton] at hx
      rcases hx with hx | hx
      · exact Or.inr (Or.inl (ihc x hx))
      · exact Or.inl hx
    · rw [spine_group_ne g c r hr] at hx
      exact Or.inr (Or.inr (ihr x hx))

/-! ### the writer -/

/-- no group of `A` is (the same object as) a group of `B` -/
def D (A B : List GroupW) : Prop := ∀ a ∈ A, ∀ b ∈ B, a.gid ≠ b.gid

theorem walkUp_spec (stack pend base : List GroupW) (h1 : D pend stack)
    (h2 : ∀ b ∈ base.head?, b ∈ stack) : walkUp stack (pend ++ base) = (pend, base.head?) := by
  induction pend with
  | nil =>
    cases base with
    | nil => rfl
    | cons b bs =>
      have hb : b ∈ stack := h2 b (by simp)
      have : stack.any (fun s => s.gid == b.gid) = true := List.any_eq_true.mpr ⟨b, hb, by simp⟩
      simp [walkUp, this]
  | cons g gs ih =>
    have hg : stack.any (fun s => s.gid == g.gid) = false := by
      rw [Bool.eq_false_iff]
      intro hc
      obtain ⟨s, hs, he⟩ := List.any_eq_true.mp hc
      have he' : s.gid = g.gid := by simpa using he
      exact h1 g (by simp) s hs he'.symm
    have ih' := ih (fun a ha b hb => h1 a (List.mem_cons_of_mem _ ha) b hb)
    simp only [List.cons_append, walkUp, hg, Bool.false_eq_true, if_false, ih']

theorem closeUntil_spec (extra base : List GroupW) (out : List PLEl)
    (h : ∀ b ∈ base.head?, ∀ e ∈ extra, b.gid ≠ e.gid) :
    closeUntil base.head? (extra ++ base) out = (base, out ++ extra.map stopOf) := by
  induction extra generalizing out with
  | nil =>
    cases base with
    | nil => simp [closeUntil]
    | cons b bs => simp [closeUntil]
  | cons e es ih =>
    have hne : ¬ (base.head?.map (·.gid) = some e.gid) := by
      intro hc
      cases hb : base.head? with
      | none => simp [hb] at hc
      | some b =>
        rw [hb] at hc
        simp only [Option.map_some, Option.some.injEq] at hc
        exact h b (by simp [hb]) e (by simp) hc
    simp only [List.cons_append, closeUntil, hne, if_false]
    rw [ih _ (fun b hb e' he' => h b hb e' (List.mem_cons_of_mem _ he'))]
    simp [stopOf]

theorem writePart_spec (extra base pend : List GroupW) (out : List PLEl) (p : PartW)
    (h1 : D pend (extra ++ base)) (h2 : D extra base) :
    writePart { stack := extra ++ base, out := out } (p, pend ++ base) =
      { stack := pend ++ base, out := out ++ extra.map stopOf ++ pend.reverse.map .groupStart ++ [.scorePart p] } := by
  have hw := walkUp_spec (extra ++ base) pend base h1 (fun b hb => by
    cases base with
    | nil => simp at hb
    | cons b' bs => simp only [List.head?_cons, Option.mem_def, Option.some.injEq] at hb; subst hb; simp)
  have hc := closeUntil_spec extra base out (fun b hb e he => by
    cases base with
    | nil => simp at hb
    | cons b' bs =>
      simp only [List.head?_cons, Option.mem_def, Option.some.injEq] at hb
      subst hb
      exact fun heq => h2 e he b' (by simp) heq.symm)
  unfold writePart
  simp only [hw, hc]

/-- the conditions under which the lazy writer is followed: the groups of the forest are different objects, different
    from the groups around (`pend`: ancestors not yet opened, `base`: ancestors on the stack, `extra`: groups of earlier
    siblings that are still on the stack) -/
structure Ctx (f : F) (pend base extra : List GroupW) : Prop where
  nd : (groups f).Pairwise (fun a b => a.gid ≠ b.gid)
  out : D (groups f) (pend ++ base ++ extra)
  pend : D pend (base ++ extra)
  extra : D extra base

theorem D_symm_app {A B C : List GroupW} (h : D A (B ++ C)) : D A (C ++ B) := by
  intro a ha b hb
  exact h a ha b (by simp only [List.mem_append] at hb ⊢; tauto)

theorem D_nil_left (B : List GroupW) : D [] B := fun a ha => by cases ha

theorem write_forest (f : F) : ∀ (pend base extra : List GroupW) (out : List PLEl),
    f ≠ .nil → f.NonEmpty → Ctx f pend base extra →
    (flatten (pend ++ base) f).foldl writePart { stack := extra ++ base, out := out } =
      { stack := spine f ++ pend ++ base,
        out := out ++ extra.map stopOf ++ pend.reverse.map .groupStart ++ emitOpen f } := by
  induction f with
  | nil => intro _ _ _ _ h; exact absurd rfl h
  | part p r ih =>
    intro pend base extra out _ hne hctx
    have hstep := writePart_spec extra base pend out p (D_symm_app hctx.pend) hctx.extra
    simp only [flatten, List.foldl_cons, hstep]
    by_cases hr : r = .nil
    · subst hr
      simp [flatten, spine, emitOpen]
    · have hctx' : Ctx r [] (pend ++ base) [] :=
        ⟨hctx.nd, (fun a ha b hb => hctx.out a ha b (by
            simp only [List.nil_append, List.append_nil, List.mem_append] at hb ⊢; tauto)),
          D_nil_left _, D_nil_left _⟩
      have := ih [] (pend ++ base) [] (out ++ extra.map stopOf ++ pend.reverse.map .groupStart ++ [.scorePart p])
        hr hne hctx'
      simp only [List.nil_append, List.reverse_nil, List.map_nil, List.append_nil] at this
      rw [this]
      simp [spine, emitOpen]
  | group g c r ihc ihr =>
    intro pend base extra out _ hne hctx
    obtain ⟨hcne, hcN, hrN⟩ := hne
    obtain ⟨hnd, hout, hpend, hextra⟩ := hctx
    simp only [groups, List.pairwise_cons, List.pairwise_append, List.mem_append] at hnd
    obtain ⟨hg, hndc, hndr, hcr⟩ := hnd
    have houtg : ∀ b ∈ pend ++ base ++ extra, g.gid ≠ b.gid := fun b hb => hout g (by simp [groups]) b hb
    have houtc : D (groups c) (pend ++ base ++ extra) := fun a ha b hb => hout a (by simp [groups, ha]) b hb
    have houtr : D (groups r) (pend ++ base ++ extra) := fun a ha b hb => hout a (by simp [groups, ha]) b hb
    -- the children, with `g` waiting to be opened
    have hctxc : Ctx c (g :: pend) base extra :=
      ⟨hndc,
       (fun a ha b hb => by
         simp only [List.cons_append, List.mem_cons] at hb
         rcases hb with rfl | hb
         · exact fun e => hg a (Or.inl ha) e.symm
         · exact houtc a ha b hb),
       (fun a ha b hb => by
         rcases List.mem_cons.mp ha with rfl | ha
         · exact houtg b (by simp only [List.mem_append] at hb ⊢; tauto)
         · exact hpend a ha b hb),
       hextra⟩
    have hc := ihc (g :: pend) base extra out hcne hcN hctxc
    simp only [flatten]
    rw [show g :: (pend ++ base) = (g :: pend) ++ base from rfl, List.foldl_append, hc]
    by_cases hr : r = .nil
    · subst hr
      simp [flatten, spine, emitOpen, List.reverse_cons]
    · have hsp : ∀ x ∈ spine c ++ [g], x = g ∨ x ∈ groups c := by
        intro x hx
        rcases List.mem_append.mp hx with hx | hx
        · exact Or.inr (spine_sub c x hx)
        · exact Or.inl (by simpa using hx)
      have hctxr : Ctx r [] (pend ++ base) (spine c ++ [g]) :=
        ⟨hndr,
         (fun a ha b hb => by
           simp only [List.nil_append] at hb
           rcases List.mem_append.mp hb with hb | hb
           · exact houtr a ha b (by simp only [List.mem_append] at hb ⊢; tauto)
           · rcases hsp b hb with rfl | hb'
             · exact fun e => hg a (Or.inr ha) e.symm
             · exact fun e => hcr b hb' a ha e.symm),
         D_nil_left _,
         (fun a ha b hb => by
           rcases hsp a ha with rfl | ha'
           · exact houtg b (by simp only [List.mem_append] at hb ⊢; tauto)
           · exact houtc a ha' b (by simp only [List.mem_append] at hb ⊢; tauto))⟩
      have hr' := ihr [] (pend ++ base) (spine c ++ [g])
        (out ++ extra.map stopOf ++ (g :: pend).reverse.map .groupStart ++ emitOpen c) hr hrN hctxr
      have e1 : spine c ++ (g :: pend) ++ base = (spine c ++ [g]) ++ (pend ++ base) := by simp
      rw [e1]
      simp only [List.nil_append] at hr'
      rw [hr', spine_group_ne g c r hr, emitOpen_group_ne g c r hr]
      simp [emit_eq c, List.reverse_cons, stopOf]

/-- the lazy writer writes the bracket sequence of the forest -/
theorem writePartList_eq (f : F) (hne : f.NonEmpty) (hnd : (groups f).Pairwise (fun a b => a.gid ≠ b.gid)) :
    writePartList (flatten [] f) = emit f := by
  by_cases hf : f = .nil
  · subst hf; rfl
  · have := write_forest f [] [] [] [] hf hne
      ⟨hnd, (fun a _ b hb => by cases hb), D_nil_left _, D_nil_left _⟩
    simp only [List.nil_append, List.append_nil, List.reverse_nil, List.map_nil] at this
    unfold writePartList
    simp only [this, emit_eq f]
    rfl

/-! ### the reader -/

abbrev R := Forest GroupR PartR

theorem append_nil (f : Forest γ π) : f.append .nil = f := by
  induction f with
  | nil => rfl
  | part p r ih => simp [Forest.append, ih]
  | group g c r _ ihr => simp [Forest.append, ihr]

theorem append_assoc (a b c : Forest γ π) : (a.append b).append c = a.append (b.append c) := by
  induction a with
  | nil => rfl
  | part p r ih => simp [Forest.append, ih]
  | group g ch r _ ihr => simp [Forest.append, ihr]

theorem addNode_nil (s : RState) : addNode s .nil = s := by
  obtain ⟨stack, done⟩ := s
  cases stack with
  | nil => simp [addNode, append_nil]
  | cons top rest => obtain ⟨g, cs⟩ := top; simp [addNode, append_nil]

theorem addNode_addNode (s : RState) (a b : R) : addNode (addNode s a) b = addNode s (a.append b) := by
  unfold addNode
  cases hs : s.stack with
  | nil => simp [append_assoc]
  | cons top rest => obtain ⟨g, cs⟩ := top; simp [append_assoc]

/-- what the importer makes of one written element -/
def canonEl : PLEl → PLRead
  | .groupStart g => .groupStart (canonGroup g)
  | .groupStop _ => .groupStop
  | .scorePart p => .scorePart (canonPart p)

theorem runPL_append (s : RState) (a b : List PLRead) :
    runPL s (a ++ b) = (runPL s a).bind fun s' => runPL s' b := by
  induction a generalizing s with
  | nil => simp [runPL]
  | cons e es ih =>
    simp only [List.cons_append, runPL]
    cases stepPL s e with
    | none => simp
    | some s' => simp [ih]

/-- reading the bracket sequence of a forest adds the forest to the current level -/
theorem runPL_emit (f : F) : ∀ (s : RState) (rest : List PLRead),
    runPL s ((emit f).map canonEl ++ rest) = runPL (addNode s (f.map canonGroup canonPart)) rest := by
  induction f with
  | nil => intro s rest; simp [emit, Forest.map, addNode_nil]
  | part p r ih =>
    intro s rest
    simp only [emit, List.map_cons, List.cons_append, runPL, canonEl, stepPL, Option.bind_some, Forest.map]
    rw [ih, addNode_addNode]
    rfl
  | group g c r ihc ihr =>
    intro s rest
    have e1 : (emit (.group g c r)).map canonEl ++ rest =
        .groupStart (canonGroup g) :: ((emit c).map canonEl ++ (.groupStop :: ((emit r).map canonEl ++ rest))) := by
      simp [emit, canonEl, stopOf]
    rw [e1]
    simp only [runPL, stepPL, Option.bind_some]
    rw [ihc]
    have e2 : addNode { s with stack := (canonGroup g, Forest.nil) :: s.stack } (c.map canonGroup canonPart) =
        { s with stack := (canonGroup g, c.map canonGroup canonPart) :: s.stack } := rfl
    rw [e2]
    simp only [runPL, stepPL, Option.bind_some]
    rw [ihr, addNode_addNode]
    have e3 : ({ stack := s.stack, done := s.done } : RState) = s := rfl
    rw [e3]
    rfl

theorem parse_emit (f : F) : parsePartList ((emit f).map canonEl) = some (f.map canonGroup canonPart) := by
  unfold parsePartList
  have := runPL_emit f { stack := [], done := .nil } []
  simp only [List.append_nil] at this
  rw [this]
  simp [runPL, addNode, Forest.append]

/-! ### the elements -/

theorem findall_append' (t : Tag) (a b : List Xml) : findall t (a ++ b) = findall t a ++ findall t b := by
  simp [findall]

def abbrEls : Option Str → List Xml
  | some a => if a = [] then [] else [leaf tPartAbbreviation (Model.XmlDir.filterString a)]
  | none => []

theorem readPL_plXml (e : PLEl) : readPL (plXml e) = canonEl e := by
  cases e with
  | groupStart g =>
    obtain ⟨gid, number, symbol, name⟩ := g
    have hsym : tagStr (find tGroupSymbol (optEl tGroupSymbol symbol ++ optEl tGroupName name)) = symbol.map pyStr := by
      cases symbol <;> cases name <;> simp [optEl, find, findall, leaf, Xml.tag, tagStr, Xml.text, tGroupSymbol, tGroupName,
        nGroupSymbol, nGroupName]
    have hname : tagStr (find tGroupName (optEl tGroupSymbol symbol ++ optEl tGroupName name)) = name.map pyStr := by
      cases symbol <;> cases name <;> simp [optEl, find, findall, leaf, Xml.tag, tagStr, Xml.text, tGroupSymbol, tGroupName,
        nGroupSymbol, nGroupName]
    simp only [plXml, readPL, Xml.tag, Xml.kids, hsym, hname, canonEl, canonGroup]
    simp [Xml.get, Xml.attrs, Model.lookup, attrInt, tPartGroup, tScorePart]
  | groupStop number =>
    simp [plXml, readPL, Xml.tag, Xml.get, Xml.attrs, Model.lookup, canonEl, sStart, sStop]
  | scorePart p =>
    obtain ⟨id, name, abbr⟩ := p
    have hx : plXml (.scorePart ⟨id, name, abbr⟩) =
        .el tScorePart [(.id, id)] [] (leaf tPartName (nameText name) :: abbrEls abbr) := rfl
    have hab : ∀ x ∈ abbrEls abbr, x.tag ≠ tPartName := by
      intro x hx
      cases abbr with
      | none => cases hx
      | some a =>
        by_cases ha : a = []
        · simp [abbrEls, ha] at hx
        · simp only [abbrEls, ha, if_false, List.mem_singleton] at hx
          subst hx
          simp [leaf, Xml.tag, tPartName, tPartAbbreviation, nPartName, nPartAbbreviation]
    have h1 : firstText tPartName (leaf tPartName (nameText name) :: abbrEls abbr) = canonText name := by
      have hr : findall tPartName (abbrEls abbr) = [] := by
        unfold findall
        rw [List.filter_eq_nil_iff]
        intro x hx
        simpa using hab x hx
      unfold firstText
      rw [show leaf tPartName (nameText name) :: abbrEls abbr = [leaf tPartName (nameText name)] ++ abbrEls abbr from rfl,
        findall_append', hr]
      cases name with
      | none => simp [findall, leaf, Xml.tag, Xml.text, nameText, canonText]
      | some n =>
        by_cases hn : Model.XmlDir.filterString n = [] <;>
          simp [findall, leaf, Xml.tag, Xml.text, nameText, canonText, hn]
    have h2 : firstText tPartAbbreviation (leaf tPartName (nameText name) :: abbrEls abbr) = canonText abbr := by
      have hr : findall tPartAbbreviation [leaf tPartName (nameText name)] = [] := by
        simp [findall, leaf, Xml.tag, tPartName, tPartAbbreviation, nPartName, nPartAbbreviation]
      unfold firstText
      rw [show leaf tPartName (nameText name) :: abbrEls abbr = [leaf tPartName (nameText name)] ++ abbrEls abbr from rfl,
        findall_append', hr]
      cases abbr with
      | none => simp [findall, canonText, abbrEls]
      | some a =>
        by_cases ha : a = []
        · subst ha; simp [findall, canonText, Model.XmlDir.filterString, abbrEls]
        · by_cases hn : Model.XmlDir.filterString a = [] <;>
            simp [findall, leaf, Xml.tag, Xml.text, canonText, hn, ha, abbrEls]
    have ht : (tScorePart = tPartGroup) = False := by simp [tScorePart, tPartGroup, nScorePart, nPartGroup]
    rw [hx]
    simp only [readPL, Xml.tag, Xml.kids, ht, if_false, if_true, h1, h2, canonEl, canonPart]
    simp [Xml.get, Xml.attrs, Model.lookup]

end C03.PL
