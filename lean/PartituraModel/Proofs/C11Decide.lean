/-
C11 (round 6) — `readingOKB` (Model/MeasuresDec.lean) holds exactly when `TsOK`, `ExistingOK` and `BarsIntegral` do (`readingOKB_iff`):
the side conditions of the measure theorems are decided by one executable test on the part.
-/
import PartituraModel.Model.MeasuresDec
import PartituraModel.Proofs.C11Bar

namespace C11Decide
open Model Model.Dur Model.Meas Model.TimeMap C02Proofs C11Meas C11Bar

theorem sortedIntB_sound : ∀ (l : List Int), sortedIntB l = true → l.Pairwise (· ≤ ·) := by
  intro l
  induction l with
  | nil => intro _; exact List.Pairwise.nil
  | cons a rest ih =>
    intro h
    unfold sortedIntB at h
    rw [Bool.and_eq_true] at h
    rw [List.pairwise_cons]
    refine ⟨fun b hb => ?_, ih h.2⟩
    have := List.all_eq_true.mp h.1 b hb
    exact of_decide_eq_true this

theorem tsOKB_sound (p : PartM) (h : tsOKB p = true) : TsOK p := by
  unfold tsOKB at h
  simp only [Bool.and_eq_true] at h
  obtain ⟨⟨⟨h1, h2⟩, h3⟩, h4⟩ := h
  refine ⟨sortedIntB_sound _ h1, ?_, of_decide_eq_true h3, ?_⟩
  · intro s hs
    have := List.all_eq_true.mp h2 s hs
    rw [Bool.and_eq_true] at this
    exact ⟨of_decide_eq_true this.1, of_decide_eq_true this.2⟩
  · intro he
    rw [he] at h4
    simp at h4

theorem tdB_sound : ∀ (l : List Measure) (n : Nat), tdB n l = true → TD n l := by
  intro l
  induction l with
  | nil => intro n _; trivial
  | cons m rest ih =>
    intro n h
    unfold tdB at h
    simp only [Bool.and_eq_true] at h
    exact ⟨of_decide_eq_true h.1.1, of_decide_eq_true h.1.2, ih _ h.2⟩

theorem existingOKB_sound (p : PartM) (l : List (Nat × Nat × Nat)) (h : existingOKB p l = true) : ExistingOK p l := by
  unfold existingOKB at h
  simp only [Bool.and_eq_true] at h
  obtain ⟨⟨h1, h2⟩, h3⟩ := h
  refine ⟨tdB_sound _ _ h1, ?_, ?_⟩
  · intro m hm
    exact of_decide_eq_true (List.all_eq_true.mp h2 m hm)
  · intro m hm x hx hcon
    have := List.all_eq_true.mp (List.all_eq_true.mp h3 m hm) x hx
    simp only [Bool.not_eq_true', Bool.and_eq_false_iff, decide_eq_false_iff_not] at this
    rcases this with h | h
    · exact h hcon.1
    · exact h hcon.2

theorem wfNotatedB_sound (p : TimeMap.Part) (h : wfNotatedB p = true) : WF p .notated := by
  unfold wfNotatedB at h
  simp only [Bool.and_eq_true] at h
  obtain ⟨⟨⟨h1, h2⟩, h3⟩, h4⟩ := h
  refine ⟨of_decide_eq_true h1, of_decide_eq_true h2, ?_, ?_⟩
  · intro e he
    exact of_decide_eq_true (List.all_eq_true.mp h3 e he)
  · intro _ s hs
    have := List.all_eq_true.mp h4 s hs
    rw [Bool.and_eq_true] at this
    exact ⟨of_decide_eq_true this.1, of_decide_eq_true this.2, fun hm => by cases hm⟩

theorem beatL_sound (k : KP) (L : Nat) (h : beatL k = some L) : 0 < L ∧ k.divs = (L : Rat) * k.fac := by
  unfold beatL at h
  split at h
  · cases h
  · rename_i hfac
    simp only at h
    split at h
    · rename_i hr
      obtain ⟨hden, hnum⟩ := hr
      have hL : L = (k.divs / k.fac).num.toNat := (Option.some.inj h).symm
      have hcast : ((L : Nat) : Int) = (k.divs / k.fac).num := by rw [hL]; exact Int.toNat_of_nonneg (le_of_lt hnum)
      have hq : ((k.divs / k.fac).num : Rat) = k.divs / k.fac := Rat.coe_int_num_of_den_eq_one hden
      constructor
      · omega
      · have : ((L : Nat) : Rat) = k.divs / k.fac := by
          rw [← hq]; exact_mod_cast hcast
        rw [this, div_mul_cancel₀ _ hfac]
    · cases h

theorem zip_tail_split {α : Type} : ∀ (l : List α) (a b : α), (a, b) ∈ l.zip l.tail →
    ∃ pre post, l = pre ++ a :: b :: post := by
  intro l
  induction l with
  | nil => intro a b h; simp at h
  | cons x rest ih =>
    intro a b h
    cases rest with
    | nil => simp at h
    | cons y rest' =>
      simp only [List.tail_cons, List.zip_cons_cons, List.mem_cons] at h
      rcases h with h | h
      · obtain ⟨rfl, rfl⟩ := Prod.mk.inj h
        exact ⟨[], rest', rfl⟩
      · obtain ⟨pre, post, hp⟩ := ih a b (by simpa using h)
        exact ⟨x :: pre, post, by rw [hp]; rfl⟩

theorem stretchBeatB_sound (p : PartM) (x : Nat × Nat × Nat)
    (h : stretchBeatB (keypoints (toTimeMapPart p) .notated) x = true) : ∃ L, StretchBeat p x L := by
  unfold stretchBeatB at h
  obtain ⟨kk, hkk, hok⟩ := List.any_eq_true.mp h
  simp only [Bool.and_eq_true] at hok
  obtain ⟨⟨h1, h2⟩, h3⟩ := hok
  obtain ⟨pre, post, hsplit⟩ := zip_tail_split _ kk.1 kk.2 hkk
  cases hb : beatL kk.1 with
  | none => rw [hb] at h3; cases h3
  | some L =>
    obtain ⟨hpos, hdiv⟩ := beatL_sound kk.1 L hb
    exact ⟨L, pre, post, kk.1, kk.2, hsplit, of_decide_eq_true h1, of_decide_eq_true h2, hpos, hdiv⟩

theorem barsIntegralB_sound (p : PartM) (l : List (Nat × Nat × Nat)) (h : barsIntegralB p l = true) : BarsIntegral p l := by
  unfold barsIntegralB at h
  rw [Bool.and_eq_true] at h
  refine ⟨wfNotatedB_sound _ h.1, ?_⟩
  intro x hx
  have := List.all_eq_true.mp h.2 x hx
  rw [Bool.and_eq_true] at this
  refine ⟨of_decide_eq_true this.1, fun hlt => ?_⟩
  have h2 := this.2
  rw [Bool.or_eq_true] at h2
  rcases h2 with h2 | h2
  · simp only [Bool.not_eq_true', decide_eq_false_iff_not] at h2
    exact absurd hlt h2
  · exact stretchBeatB_sound p x h2

/-- **the executable test implies every side condition of the measure theorems** -/
theorem readingOKB_sound (p : PartM) (h : readingOKB p = true) :
    ∃ l, stretches p = some l ∧ TsOK p ∧ ExistingOK p l ∧ BarsIntegral p l := by
  unfold readingOKB at h
  cases hl : stretches p with
  | none => rw [hl] at h; cases h
  | some l =>
    rw [hl] at h
    simp only [Bool.and_eq_true] at h
    exact ⟨l, rfl, tsOKB_sound p h.1.1, existingOKB_sound p l h.1.2, barsIntegralB_sound p l h.2⟩

-- ------------------------------------------------------------------ and conversely

theorem sortedIntB_complete : ∀ (l : List Int), l.Pairwise (· ≤ ·) → sortedIntB l = true := by
  intro l
  induction l with
  | nil => intro _; rfl
  | cons a rest ih =>
    intro h
    rw [List.pairwise_cons] at h
    unfold sortedIntB
    rw [Bool.and_eq_true]
    exact ⟨List.all_eq_true.mpr (fun b hb => decide_eq_true (h.1 b hb)), ih h.2⟩

theorem tsOKB_complete (p : PartM) (h : TsOK p) : tsOKB p = true := by
  unfold tsOKB
  simp only [Bool.and_eq_true]
  refine ⟨⟨⟨sortedIntB_complete _ h.sorted, ?_⟩, decide_eq_true h.lt⟩, ?_⟩
  · apply List.all_eq_true.mpr
    intro s hs
    rw [Bool.and_eq_true]
    exact ⟨decide_eq_true (h.range s hs).1, decide_eq_true (h.range s hs).2⟩
  · cases hts : p.ts with
    | nil => exact absurd hts h.nonempty
    | cons a as => rfl

theorem tdB_complete : ∀ (l : List Measure) (n : Nat), TD n l → tdB n l = true := by
  intro l
  induction l with
  | nil => intro n _; rfl
  | cons m rest ih =>
    intro n h
    obtain ⟨h1, h2, h3⟩ := (td_cons ..).mp h
    unfold tdB
    simp only [Bool.and_eq_true]
    exact ⟨⟨decide_eq_true h1, decide_eq_true h2⟩, ih _ h3⟩

theorem existingOKB_complete (p : PartM) (l : List (Nat × Nat × Nat)) (h : ExistingOK p l) : existingOKB p l = true := by
  unfold existingOKB
  simp only [Bool.and_eq_true]
  refine ⟨⟨tdB_complete _ _ h.ordered, ?_⟩, ?_⟩
  · exact List.all_eq_true.mpr (fun m hm => decide_eq_true (h.inside m hm))
  · apply List.all_eq_true.mpr
    intro m hm
    apply List.all_eq_true.mpr
    intro x hx
    have := h.noStraddle m hm x hx
    simp only [Bool.not_eq_true', Bool.and_eq_false_iff, decide_eq_false_iff_not]
    by_cases h1 : m.start < x.2.1
    · right; intro h2; exact this ⟨h1, h2⟩
    · left; exact h1

theorem wfNotatedB_complete (p : TimeMap.Part) (h : WF p .notated) : wfNotatedB p = true := by
  obtain ⟨h1, h2, h3, h4⟩ := h
  unfold wfNotatedB
  simp only [Bool.and_eq_true]
  refine ⟨⟨⟨decide_eq_true h1, decide_eq_true h2⟩, ?_⟩, ?_⟩
  · exact List.all_eq_true.mpr (fun e he => decide_eq_true (h3 e he))
  · apply List.all_eq_true.mpr
    intro s hs
    have := h4 (by decide) s hs
    rw [Bool.and_eq_true]
    exact ⟨decide_eq_true this.1, decide_eq_true this.2.1⟩

theorem beatL_complete (k : KP) (L : Nat) (hL : 0 < L) (hd : k.divs = (L : Rat) * k.fac) (hf : 0 < k.fac) :
    beatL k = some L := by
  have hfac : k.fac ≠ 0 := ne_of_gt hf
  have hr : k.divs / k.fac = (L : Rat) := by rw [hd, mul_div_assoc, div_self hfac, mul_one]
  unfold beatL
  rw [if_neg hfac]
  simp only [hr]
  have h1 : ((L : Nat) : Rat).den = 1 := Rat.den_natCast L
  have h2 : ((L : Nat) : Rat).num = (L : Int) := Rat.num_natCast L
  rw [if_pos ⟨h1, by rw [h2]; exact_mod_cast hL⟩, h2]
  simp

theorem zip_tail_mem {α : Type} : ∀ (pre post : List α) (a b : α), (a, b) ∈ (pre ++ a :: b :: post).zip (pre ++ a :: b :: post).tail := by
  intro pre
  induction pre with
  | nil => intro post a b; simp
  | cons x rest ih =>
    intro post a b
    cases rest with
    | nil => simp
    | cons y rest' =>
      have := ih post a b
      simp only [List.cons_append, List.tail_cons, List.zip_cons_cons, List.mem_cons] at this ⊢
      right
      exact this

theorem stretchBeatB_complete (p : PartM) (hwf : WF (toTimeMapPart p) .notated) (x : Nat × Nat × Nat) (L : Nat)
    (h : StretchBeat p x L) : stretchBeatB (keypoints (toTimeMapPart p) .notated) x = true := by
  obtain ⟨pre, post, k, k', hsplit, h1, h2, h3, h4⟩ := h
  have hok := (keypoints_ok (toTimeMapPart p) .notated hwf).1.2 k (by rw [hsplit]; simp)
  unfold stretchBeatB
  apply List.any_eq_true.mpr
  refine ⟨(k, k'), by rw [hsplit]; exact zip_tail_mem pre post k k', ?_⟩
  simp only [Bool.and_eq_true]
  refine ⟨⟨decide_eq_true h1, decide_eq_true h2⟩, ?_⟩
  rw [beatL_complete k L h3 h4 hok.2]
  rfl

theorem barsIntegralB_complete (p : PartM) (l : List (Nat × Nat × Nat)) (h : BarsIntegral p l) : barsIntegralB p l = true := by
  unfold barsIntegralB
  rw [Bool.and_eq_true]
  refine ⟨wfNotatedB_complete _ h.1, ?_⟩
  apply List.all_eq_true.mpr
  intro x hx
  obtain ⟨hb, hs⟩ := h.2 x hx
  rw [Bool.and_eq_true]
  refine ⟨decide_eq_true hb, ?_⟩
  rw [Bool.or_eq_true]
  by_cases hlt : x.1 < x.2.1
  · right
    obtain ⟨L, hL⟩ := hs hlt
    exact stretchBeatB_complete p h.1 x L hL
  · left
    simp only [Bool.not_eq_true', decide_eq_false_iff_not]
    exact hlt

/-- **the executable test is exactly the side conditions** -/
theorem readingOKB_iff (p : PartM) :
    readingOKB p = true ↔ ∃ l, stretches p = some l ∧ TsOK p ∧ ExistingOK p l ∧ BarsIntegral p l := by
  constructor
  · exact readingOKB_sound p
  · rintro ⟨l, hl, h1, h2, h3⟩
    unfold readingOKB
    rw [hl]
    simp only [Bool.and_eq_true]
    exact ⟨⟨tsOKB_complete p h1, existingOKB_complete p l h2⟩, barsIntegralB_complete p l h3⟩

end C11Decide
