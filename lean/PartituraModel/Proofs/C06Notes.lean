/-
C06 helper lemmas: the note messages the exporter writes for one (track, channel, pitch) alternate between
note-on and note-off when the notes do not overlap, so the loader's pairing returns them.
-/
import PartituraModel.Model.PerfMidi
import PartituraModel.Proofs.C06Pair
import PartituraModel.Proofs.C06Export
import PartituraModel.Proofs.C06Ids
import PartituraModel.Proofs.Round
import Mathlib.Tactic.Linarith
import Mathlib.Tactic.Positivity

namespace C06Notes
open Model Model.PerfMidi C06Sort C06Pair C06Lists C06Export C06Ids

/-- selector form of `proj`: the note messages filed under hash `κ` -/
def gK (κ : Nat) : Ev → Option Ev := fun e => if evKey e = some κ then some e else none

theorem proj_eq_sel (κ : Nat) (t : Track) : proj κ t = sel (gK κ) t := by
  induction t with
  | nil => rfl
  | cons m t ih =>
    obtain ⟨k, e⟩ := m
    unfold proj sel at ih ⊢
    by_cases h : evKey e = some κ
    · have hg : gK κ e = some e := by simp [gK, h]
      simp only [List.filter_cons, h, decide_true, if_true, List.filterMap_cons, hg, Option.map_some]
      rw [ih]
    · have hg : gK κ e = none := by simp [gK, h]
      simp only [List.filter_cons, h, decide_false, List.filterMap_cons, hg, Option.map_none]
      exact ih

theorem gK_program (κ ch pr : Nat) : gK κ (Ev.program ch pr) = none := by simp [gK, evKey]
theorem gK_tempo (κ m : Nat) : gK κ (Ev.tempo m) = none := by simp [gK, evKey]
theorem gK_eot (κ : Nat) : gK κ Ev.eot = none := by simp [gK, evKey]

/-- the notes of the performance on track number `tr` with (channel, pitch) hash `κ`, in the order the
    exporter writes them: part by part, each part's notes by (note_on, note_off) -/
def keyNotes (parts : List PPart) (tr κ : Nat) : List PNote :=
  parts.flatMap fun p =>
    (sortBy noteLe p.notes).filter (fun n => decide (n.track = tr) && decide (noteHash n.ch n.pitch = κ))

/-- the two messages of a note -/
def noteMsgs (q : Rat → Int) (n : PNote) : Track :=
  [(q n.on, Ev.noteOn n.ch n.pitch n.vel), (q n.off, Ev.noteOff n.ch n.pitch 0)]

/-- the note as the loader should return it -/
def toR (q : Rat → Int) (n : PNote) : RNote := ⟨n.pitch, q n.on, q n.off, n.vel, n.ch⟩

theorem evI_gK_notes (q : Rat → Int) (tr κ : Nat) (l : List PNote) :
    evI (gK κ) tr (l.flatMap (noteIns q))
      = (l.filter (fun n => decide (n.track = tr) && decide (noteHash n.ch n.pitch = κ))).flatMap (noteMsgs q) := by
  induction l with
  | nil => rfl
  | cons n l ih =>
    rw [List.flatMap_cons, evI_append, ih]
    have h1 : evI (gK κ) tr (noteIns q n)
        = if n.track = tr ∧ noteHash n.ch n.pitch = κ then noteMsgs q n else [] := by
      unfold evI sel noteIns noteMsgs gK
      by_cases ht : n.track = tr <;> by_cases hk : noteHash n.ch n.pitch = κ <;> simp [ht, hk, evKey]
    rw [h1]
    by_cases hc : n.track = tr ∧ noteHash n.ch n.pitch = κ
    · rw [if_pos hc, List.filter_cons_of_pos (by simp [hc.1, hc.2]), List.flatMap_cons]
    · rw [if_neg hc, List.filter_cons_of_neg (by simpa using hc), List.nil_append]

theorem evI_gK_part (q : Rat → Int) (tr κ : Nat) (p : PPart) :
    evI (gK κ) tr (partEvents q p)
      = ((sortBy noteLe p.notes).filter
          (fun n => decide (n.track = tr) && decide (noteHash n.ch n.pitch = κ))).flatMap (noteMsgs q) := by
  unfold partEvents
  simp only [evI_append]
  rw [evI_map_none (gK κ) tr p.metaOther _ (by intro c; cases h : c.id <;> simp [PMetaO.ev, h, gK, evKey]),
      evI_map_none (gK κ) tr p.keySigs _ (by intro c; simp [gK, evKey]),
      evI_map_none (gK κ) tr p.timeSigs _ (by intro c; simp [gK, evKey]),
      evI_map_none (gK κ) tr p.controls _ (by intro c; simp [gK, evKey]),
      evI_map_none (gK κ) tr p.programs _ (by intro c; simp [gK, evKey]),
      evI_gK_notes]
  simp

/-- the note messages of hash `κ` appended to track `tr`, in append order -/
theorem evI_gK_insertAll (q : Rat → Int) (tr κ : Nat) (parts : List PPart) :
    evI (gK κ) tr (insertAll q parts) = (keyNotes parts tr κ).flatMap (noteMsgs q) := by
  rw [evI_insertAll (gK κ) (gK_program κ)]
  unfold keyNotes
  rw [List.flatMap_assoc]
  congr 1
  funext p
  exact evI_gK_part q tr κ p

/-- notes in written order, each ending before the next begins, give ticks in order … -/
theorem noteMsgs_sorted (q : Rat → Int) (hq : ∀ a b, a ≤ b → q a ≤ q b) (S : List PNote)
    (hwf : ∀ n ∈ S, n.on ≤ n.off) (hno : S.Pairwise (fun a b => a.off ≤ b.on)) :
    (S.flatMap (noteMsgs q)).Pairwise (fun x y => tickLe x y = true) := by
  induction S with
  | nil => exact List.Pairwise.nil
  | cons n S ih =>
    rw [List.pairwise_cons] at hno
    have hn := hwf n (List.mem_cons_self)
    have hlater : ∀ x ∈ S.flatMap (noteMsgs q), q n.off ≤ x.1 := by
      intro x hx
      obtain ⟨m, hm, hxm⟩ := List.mem_flatMap.mp hx
      have h1 := hno.1 m hm
      have h2 := hwf m (List.mem_cons_of_mem _ hm)
      unfold noteMsgs at hxm
      simp only [List.mem_cons, List.mem_nil_iff, or_false] at hxm
      rcases hxm with rfl | rfl
      · exact hq _ _ h1
      · exact hq _ _ (le_trans h1 h2)
    rw [List.flatMap_cons]
    unfold noteMsgs
    simp only [List.cons_append, List.nil_append, List.pairwise_cons]
    refine ⟨?_, ?_, ih (fun m hm => hwf m (List.mem_cons_of_mem _ hm)) hno.2⟩
    · intro x hx
      rcases List.mem_cons.mp hx with rfl | hx
      · simpa [tickLe] using hq _ _ hn
      · simpa [tickLe] using le_trans (hq _ _ hn) (hlater x hx)
    · intro x hx
      simpa [tickLe] using hlater x hx

/-- … and an alternating run -/
theorem noteMsgs_alt (q : Rat → Int) (S : List PNote) (hv : ∀ n ∈ S, 0 < n.vel) :
    Alt (S.flatMap (noteMsgs q)) (S.map (toR q)) := by
  induction S with
  | nil => exact Alt.nil
  | cons n S ih =>
    rw [List.flatMap_cons, List.map_cons]
    exact Alt.pair _ _ _ _ _ _ _ _ (hv n (List.mem_cons_self)) (Or.inl ⟨0, rfl⟩)
      (ih (fun m hm => hv m (List.mem_cons_of_mem _ hm)))

/-- the note messages of one hash in the sorted track are those appended, in append order -/
theorem proj_trackAbs (q : Rat → Int) (hq : ∀ a b, a ≤ b → q a ≤ q b) (parts : List PPart) (tr κ : Nat)
    (hwf : ∀ n ∈ keyNotes parts tr κ, n.on ≤ n.off)
    (hno : (keyNotes parts tr κ).Pairwise (fun a b => a.off ≤ b.on)) :
    proj κ (trackAbs (insertAll q parts) tr) = (keyNotes parts tr κ).flatMap (noteMsgs q) := by
  have hL : proj κ (((insertAll q parts).filter (fun i => decide (i.1 = tr))).map (fun i => i.2))
      = (keyNotes parts tr κ).flatMap (noteMsgs q) := by
    rw [proj_eq_sel]
    exact evI_gK_insertAll q tr κ parts
  unfold trackAbs
  unfold proj at hL ⊢
  rw [filter_sortBy_eq tickLe _ _ (by rw [hL]; exact noteMsgs_sorted q hq _ hwf hno)]
  exact hL

-- ------------------------------------------------------------------ the order (note_on, note_off)

theorem noteLe_iff (a b : PNote) : noteLe a b = true ↔ (a.on < b.on ∨ (a.on = b.on ∧ a.off ≤ b.off)) := by
  simp [noteLe]

theorem noteLe_total (a b : PNote) : noteLe a b = true ∨ noteLe b a = true := by
  rw [noteLe_iff, noteLe_iff]
  rcases lt_trichotomy a.on b.on with h | h | h
  · exact Or.inl (Or.inl h)
  · rcases le_total a.off b.off with h' | h'
    · exact Or.inl (Or.inr ⟨h, h'⟩)
    · exact Or.inr (Or.inr ⟨h.symm, h'⟩)
  · exact Or.inr (Or.inl h)

theorem noteLe_trans (a b c : PNote) (h1 : noteLe a b = true) (h2 : noteLe b c = true) :
    noteLe a c = true := by
  rw [noteLe_iff] at *
  rcases h1 with h1 | ⟨h1, h1'⟩ <;> rcases h2 with h2 | ⟨h2, h2'⟩
  · exact Or.inl (lt_trans h1 h2)
  · exact Or.inl (by rw [← h2]; exact h1)
  · exact Or.inl (by rw [h1]; exact h2)
  · exact Or.inr ⟨h1.trans h2, le_trans h1' h2'⟩

/-- two notes do not overlap (as half-open intervals) -/
def Apart (a b : PNote) : Prop := a.off ≤ b.on ∨ b.off ≤ a.on

theorem apart_ordered (a b : PNote) (ha : a.on ≤ a.off) (hb : b.on ≤ b.off)
    (hle : noteLe a b = true) (hap : Apart a b) : a.off ≤ b.on := by
  rw [noteLe_iff] at hle
  rcases hap with h | h
  · exact h
  · rcases hle with h1 | ⟨h1, h2⟩
    · linarith
    · linarith

/-- a part whose notes of one track, channel and pitch do not overlap: in the written order every note
    ends before the next begins -/
theorem keyNotes_single (p : PPart) (tr κ : Nat)
    (hwf : ∀ n ∈ p.notes, n.on ≤ n.off)
    (hap : p.notes.Pairwise (fun a b => a.track = b.track → noteHash a.ch a.pitch = noteHash b.ch b.pitch → Apart a b)) :
    (keyNotes [p] tr κ).Pairwise (fun a b => a.off ≤ b.on) := by
  unfold keyNotes
  simp only [List.flatMap_cons, List.flatMap_nil, List.append_nil]
  have hsym : ∀ a b : PNote, (a.track = b.track → noteHash a.ch a.pitch = noteHash b.ch b.pitch → Apart a b) →
      (b.track = a.track → noteHash b.ch b.pitch = noteHash a.ch a.pitch → Apart b a) := by
    intro a b h h1 h2
    rcases h h1.symm h2.symm with h | h
    · exact Or.inr h
    · exact Or.inl h
  have h1 : (sortBy noteLe p.notes).Pairwise
      (fun a b => a.track = b.track → noteHash a.ch a.pitch = noteHash b.ch b.pitch → Apart a b) :=
    ((perm_sortBy noteLe p.notes).pairwise_iff (fun {a b} h => hsym a b h)).mpr hap
  have h2 := sorted_sortBy noteLe noteLe_total noteLe_trans p.notes
  have h3 := (h1.and h2).sublist (List.filter_sublist
    (p := fun n => decide (n.track = tr) && decide (noteHash n.ch n.pitch = κ)))
  refine List.Pairwise.imp_of_mem ?_ h3
  intro a b ha hb hab
  have ha' := List.mem_filter.mp ha
  have hb' := List.mem_filter.mp hb
  have hat : a.track = tr ∧ noteHash a.ch a.pitch = κ := by simpa using ha'.2
  have hbt : b.track = tr ∧ noteHash b.ch b.pitch = κ := by simpa using hb'.2
  exact apart_ordered a b (hwf a ((mem_sortBy _ _ _).mp ha'.1)) (hwf b ((mem_sortBy _ _ _).mp hb'.1))
    hab.2 (hab.1 (hat.1.trans hbt.1.symm) (hat.2.trans hbt.2.symm))

/-- the exporter's conversion is monotone -/
theorem quant_mono (mpq ppq : Nat) (a b : Rat) (h : a ≤ b) : quant mpq ppq a ≤ quant mpq ppq b := by
  unfold quant secToTick
  apply Round.roundHalfEven_mono
  apply div_le_div_of_nonneg_right _ (by positivity)
  exact mul_le_mul_of_nonneg_left h (by positivity)

end C06Notes
