/-
Helper lemmas for `Props/C19Divs.lean`: the divisions `inferPpq` chooses for an MEI document without declared
ppq represent every onset, duration and measure boundary the document denotes — END TO END through the state
machine of `Model/Mei.lean` (`runEvs`), not only for an abstract list of written values.

The invariant: reading any event list, every position the machine holds (start of the measure, cursor of the layer,
ends of layers and staves, onsets and durations of the notes read, the duration of the open chord, the measure
boundaries) is a whole multiple of `1/q`, PROVIDED `q` makes whole (a) the written value of every element recorded
in `durEls` that is well formed and (b) every measure length `4·beats/unit` for the units recorded in `units`.
That every duration the machine advances by IS recorded — whatever the name of the element that carries it: note,
chord, rest, space — and that every meter in force has its unit recorded is part of the invariant.
`inferPpq` provides (a) and (b) (`C19.mei_inferPpq_exact`).
-/
import PartituraModel.Proofs.C19Sections
import PartituraModel.Proofs.C19

set_option linter.unusedSimpArgs false
set_option linter.unusedVariables false

namespace C19D
open Model Model.Mei C19S C19P

/-- `x` is a whole number of `1/q` -/
def QI (q x : Rat) : Prop := ∃ n : Int, q * x = (n : Rat)

theorem QI_zero (q : Rat) : QI q 0 := ⟨0, by simp⟩

theorem QI_add {q x y : Rat} (hx : QI q x) (hy : QI q y) : QI q (x + y) := by
  obtain ⟨a, ha⟩ := hx
  obtain ⟨b, hb⟩ := hy
  exact ⟨a + b, by rw [mul_add, ha, hb]; push_cast; rfl⟩

theorem foldl_max_mem (l : List Rat) (a : Rat) :
    l.foldl (fun x y => if x < y then y else x) a = a ∨ l.foldl (fun x y => if x < y then y else x) a ∈ l := by
  induction l generalizing a with
  | nil => exact Or.inl rfl
  | cons b rest ih =>
    simp only [List.foldl_cons]
    rcases ih (if a < b then b else a) with h | h
    · by_cases hab : a < b
      · right; rw [h]; simp [hab]
      · left; rw [h]; simp [hab]
    · right; exact List.mem_cons_of_mem _ h

theorem QI_ratMaxFrom (q d : Rat) (l : List Rat) (hd : QI q d) (hl : ∀ x ∈ l, QI q x) : QI q (ratMaxFrom d l) := by
  cases l with
  | nil => exact hd
  | cons a rest =>
    simp only [ratMaxFrom]
    rcases foldl_max_mem rest a with h | h
    · rw [h]; exact hl a (by simp)
    · exact hl _ (List.mem_cons_of_mem _ h)

/-- the beat unit of a meter is a recorded ("good") unit -/
def MU (G : Nat → Prop) (m : Option (Nat × Nat)) : Prop := ∀ b u, m = some (b, u) → G u

theorem MU_none (G : Nat → Prop) : MU G none := fun _ _ h => by cases h

/-- what the invariant says about a state (the stack of open elements apart) -/
structure Good (q : Rat) (G : Nat → Prop) (st : St) : Prop where
  pos : QI q st.pos
  cursor : QI q st.cursor
  staffEnds : ∀ x ∈ st.staffEnds, QI q x
  layerEnds : ∀ x ∈ st.layerEnds, QI q x
  notes : ∀ n ∈ st.notes, QI q n.onset ∧ QI q n.dur
  chord : ∀ d s, st.chord = some (d, s) → QI q d
  measures : ∀ m ∈ st.measures, QI q m.2.2.2.1 ∧ QI q m.2.2.2.2
  sdMeter : MU G st.sdMeter
  sdMeterChild : MU G st.sdMeterChild
  defs : ∀ d ∈ st.defs, MU G d.meter
  meters : ∀ m ∈ st.meters, G m.2

/-- the frames of the open elements carry only meters whose units are recorded -/
def FrameOk (G : Nat → Prop) (f : Frame) : Prop :=
  MU G f.cMeter ∧ MU G (meterOfAttrs f.attrs "meter.count" "meter.unit")

def StackOk (G : Nat → Prop) (s : List Frame) : Prop := ∀ f ∈ s, FrameOk G f

theorem good_init (q : Rat) (G : Nat → Prop) : Good q G {} :=
  ⟨QI_zero q, QI_zero q, by simp, by simp, by simp, by simp, by simp, MU_none G, MU_none G, by simp, by simp⟩

/-! ## the two recorders -/

theorem meterOfAttrs_unit (as : List (String × String)) (kc ku : String) (b u : Nat)
    (h : meterOfAttrs as kc ku = some (b, u)) : natAttr as ku = some u := by
  unfold meterOfAttrs at h
  cases h1 : natAttr as kc <;> cases h2 : natAttr as ku <;> simp [h1, h2] at h
  simp [h.2]

/-- `recordUnits` touches nothing but `units`, and records `@meter.unit` of any element and `@unit` of a meterSig -/
theorem recordUnits_spec (st : St) (tag : String) (as : List (String × String)) :
    ∃ news, recordUnits st tag as = { st with units := news ++ st.units } ∧
      (∀ u, natAttr as "meter.unit" = some u → u ∈ news) ∧
      (tag = "meterSig" → ∀ u, natAttr as "unit" = some u → u ∈ news) := by
  unfold recordUnits
  cases h1 : natAttr as "meter.unit" with
  | none =>
    by_cases ht : tag = "meterSig"
    · cases h2 : natAttr as "unit" with
      | none => exact ⟨[], by simp [ht, h2], by simp, by simp⟩
      | some u => exact ⟨[u], by simp [ht, h2], by simp, by simp⟩
    · exact ⟨[], by simp [ht], by simp, fun h => absurd h ht⟩
  | some m =>
    by_cases ht : tag = "meterSig"
    · cases h2 : natAttr as "unit" with
      | none => exact ⟨[m], by simp [ht, h2], by simp, by simp⟩
      | some u => exact ⟨[u, m], by simp [ht, h2], by simp, by simp⟩
    · exact ⟨[m], by simp [ht], by simp, fun h => absurd h ht⟩

theorem durNumber_wf (s : String) (v : Rat) (h : durNumber s = some v) :
    ((∃ n : Nat, 0 < n ∧ v = (n : Rat)) ∨ (∃ j : Nat, v = 1 / (2 : Rat) ^ j)) ∧ 0 < v := by
  unfold durNumber at h
  by_cases h1 : s = "long"
  · simp [h1] at h
    subst h
    exact ⟨Or.inr ⟨2, by norm_num⟩, by norm_num⟩
  by_cases h2 : (s = "breve" || s = "0") = true
  · simp only [h1, if_false, h2, if_true, Option.some.injEq] at h
    subst h
    exact ⟨Or.inr ⟨1, by norm_num⟩, by norm_num⟩
  simp only [h1, if_false, h2] at h
  cases hn : natOfString s with
  | none => simp [hn] at h
  | some n =>
    simp only [hn] at h
    by_cases h0 : n = 0
    · simp [h0] at h
    · simp [h0] at h
      subst h
      have : 0 < n := Nat.pos_of_ne_zero h0
      exact ⟨Or.inl ⟨n, this, rfl⟩, by exact_mod_cast this⟩

/-- `recordDurElT` touches nothing but `durEls`; when the element's own duration is used (`durOfT` succeeds) the
    element recorded is well formed (or its value is 0: a tuplet with `@numbase` 0) and its written value is that duration -/
theorem recordDurElT_spec (tups : List (Nat × Nat)) (st s : St) (as : List (String × String))
    (h : recordDurElT tups st as = some s) :
    (s = st ∧ attr as "dur" = none) ∨
    (∃ e, s = { st with durEls := e :: st.durEls } ∧
      ∀ d, durOfT tups as = some d → (WellFormed e ∨ d = 0) ∧ meiValue e.v e.dots e.tup = d) := by
  unfold recordDurElT at h
  cases h1 : attr as "dur" with
  | none => simp [h1] at h; exact Or.inl ⟨h.symm, rfl⟩
  | some ds =>
    cases h2 : durNumber ds with
    | none => simp [h1, h2] at h
    | some v =>
      obtain ⟨hw, hpos⟩ := durNumber_wf ds v h2
      simp only [h1, h2] at h
      right
      match tups, h with
      | [], h =>
        simp only [Option.some.injEq] at h
        refine ⟨_, h.symm, fun d hd => ?_⟩
        simp only [durOfT, h1, Option.bind_some, h2, Option.some.injEq] at hd
        exact ⟨Or.inl hw, hd⟩
      | [(a, b)], h =>
        simp only [Option.some.injEq] at h
        refine ⟨_, h.symm, fun d hd => ?_⟩
        simp only [durOfT, h1, Option.bind_some, h2] at hd
        by_cases ha : a = 0
        · simp [ha] at hd
        · simp only [ha, if_false, Option.some.injEq] at hd
          refine ⟨?_, hd⟩
          by_cases hb : b = 0
          · right
            rw [← hd, hb]
            simp [meiValue]
          · left
            exact ⟨hpos, Nat.pos_of_ne_zero ha, Nat.pos_of_ne_zero hb⟩
      | _ :: _ :: _, h => simp at h

/-! ## one element is opened -/

theorem mapM_mem {α β : Type} (f : α → Option β) : ∀ (l : List α) (ms : List β), l.mapM f = some ms →
    ∀ m ∈ ms, ∃ d ∈ l, f d = some m := by
  intro l
  induction l with
  | nil => intro ms h m hm; simp at h; subst h; cases hm
  | cons a rest ih =>
    intro ms h m hm
    rw [List.mapM_cons] at h
    cases ha : f a with
    | none => simp [ha] at h
    | some b =>
      cases hr : rest.mapM f with
      | none => simp [ha, hr] at h
      | some bs =>
        simp [ha, hr] at h
        subst h
        rcases List.mem_cons.mp hm with rfl | hm'
        · exact ⟨a, by simp, ha⟩
        · obtain ⟨d, hd, hfd⟩ := ih bs hr m hm'
          exact ⟨d, List.mem_cons_of_mem _ hd, hfd⟩

theorem resolveMeter_MU (q : Rat) (G : Nat → Prop) (st : St) (hg : Good q G st) (d : PartDef) (hd : d ∈ st.defs) :
    MU G (resolveMeter st d) := by
  intro b u h
  unfold resolveMeter at h
  cases h1 : d.meter with
  | some m => simp [h1] at h; exact hg.defs d hd b u (by rw [h1, h])
  | none =>
    simp only [h1] at h
    cases h2 : st.sdMeter with
    | some m => simp [h2] at h; exact hg.sdMeter b u (by rw [h2, h])
    | none => simp only [h2] at h; exact hg.sdMeterChild b u h

theorem ensureStarted_good (q : Rat) (G : Nat → Prop) (st s : St) (h : ensureStarted st = some s) :
    s.durEls = st.durEls ∧ s.units = st.units ∧ s.pos = st.pos ∧ s.staffIdx = st.staffIdx ∧ (Good q G st → Good q G s) := by
  unfold ensureStarted at h
  by_cases hs : st.started = true
  · simp [hs] at h; subst h; exact ⟨rfl, rfl, rfl, rfl, id⟩
  · simp only [hs] at h
    cases hm : (partsInOrder st).mapM (resolveMeter st) with
    | none => simp [hm] at h
    | some ms =>
      simp [hm] at h
      subst h
      refine ⟨rfl, rfl, rfl, rfl, fun hg => ?_⟩
      refine ⟨hg.pos, hg.cursor, hg.staffEnds, hg.layerEnds, hg.notes, hg.chord, hg.measures, hg.sdMeter, hg.sdMeterChild,
        hg.defs, ?_⟩
      intro m hmem
      obtain ⟨d, hd, hfd⟩ := mapM_mem _ _ _ hm m hmem
      have hd' : d ∈ st.defs := by simpa [partsInOrder] using hd
      exact resolveMeter_MU q G st hg d hd' m.1 m.2 (by rw [hfd])

theorem measureLen_good (q : Rat) (G : Nat → Prop) (st : St) (d : Rat) (hg : Good q G st)
    (hG : ∀ u, G u → u ≠ 0 → ∀ b : Nat, QI q (4 * (b : Rat) / (u : Rat))) (h : measureLen st = some d) : QI q d := by
  unfold measureLen at h
  cases hm : st.meters[st.staffIdx]? with
  | none => simp [hm] at h
  | some bu =>
    obtain ⟨b, u⟩ := bu
    simp only [hm] at h
    by_cases hu : u = 0
    · simp [hu] at h
    · simp only [hu, if_false, Option.some.injEq] at h
      subst h
      exact hG u (hg.meters (b, u) (List.mem_of_getElem? hm)) hu b

/-- what `coreBody` must satisfy -/
def CoreOk (q : Rat) (G : Nat → Prop) (c : Ctx) (st : St) (tag : String) (as : List (String × String))
    (r : St × TopMod) : Prop :=
  r.1.durEls = st.durEls ∧ r.1.units = st.units ∧
  (Good q G st → (∀ d, durOfT c.tups as = some d → QI q d) → MU G (meterOfAttrs as "meter.count" "meter.unit") →
     (∀ u, G u → u ≠ 0 → ∀ b : Nat, QI q (4 * (b : Rat) / (u : Rat))) → Good q G r.1) ∧
  (∀ m, r.2 = .meter m → tag = "meterSig" ∧ m = meterOfAttrs as "count" "unit")

macro "same" hg:term : term =>
  `(⟨($hg).pos, ($hg).cursor, ($hg).staffEnds, ($hg).layerEnds, ($hg).notes, ($hg).chord, ($hg).measures, ($hg).sdMeter,
     ($hg).sdMeterChild, ($hg).defs, ($hg).meters⟩)

theorem good_push (q : Rat) (G : Nat → Prop) (st : St) (hg : Good q G st) (n : RNote) (h1 : QI q n.onset) (h2 : QI q n.dur) :
    Good q G { st with notes := n :: st.notes } :=
  ⟨hg.pos, hg.cursor, hg.staffEnds, hg.layerEnds,
    fun m hm => by
      rcases List.mem_cons.mp hm with rfl | hm'
      · exact ⟨h1, h2⟩
      · exact hg.notes m hm',
    hg.chord, hg.measures, hg.sdMeter, hg.sdMeterChild, hg.defs, hg.meters⟩

theorem good_cursor (q : Rat) (G : Nat → Prop) (st : St) (hg : Good q G st) (x : Rat) (hx : QI q x) :
    Good q G { st with cursor := x } :=
  ⟨hg.pos, hx, hg.staffEnds, hg.layerEnds, hg.notes, hg.chord, hg.measures, hg.sdMeter, hg.sdMeterChild, hg.defs, hg.meters⟩

theorem keepOk (q : Rat) (G : Nat → Prop) (c : Ctx) (st : St) (tag : String) (as : List (String × String)) :
    CoreOk q G c st tag as (st, .keep) := ⟨rfl, rfl, fun hg _ _ _ => hg, by simp⟩

theorem coreBody_ok (q : Rat) (G : Nat → Prop) (c : Ctx) (st : St) (tag : String) (as : List (String × String)) :
    POk (CoreOk q G c st tag as) (coreBody c st tag as) := by
  by_cases h0 : tag = "section"
  · subst h0
    simp only [coreBody, if_true, pure, POk_some]
    exact ⟨rfl, rfl, fun hg _ _ _ => same hg, by simp⟩
  by_cases h1 : tag = "scoreDef"
  · subst h1
    simp [coreBody]
    split
    · exact keepOk ..
    · exact ⟨rfl, rfl, fun hg _ hm _ => ⟨hg.pos, hg.cursor, hg.staffEnds, hg.layerEnds, hg.notes, hg.chord, hg.measures, hm,
        hg.sdMeterChild, hg.defs, hg.meters⟩, by simp⟩
  by_cases h2 : tag = "meterSig"
  · subst h2
    simp [coreBody]
    split
    · exact ⟨rfl, rfl, fun hg _ _ _ => hg, by simp⟩
    · exact keepOk ..
  by_cases h3 : tag = "keySig"
  · subst h3
    simp [coreBody]
    split
    · exact ⟨rfl, rfl, fun hg _ _ _ => hg, by simp⟩
    · exact keepOk ..
  by_cases h4 : tag = "clef"
  · subst h4
    simp [coreBody]
    split
    · exact keepOk ..
    · split
      · split
        · exact ⟨rfl, rfl, fun hg _ _ _ => hg, by simp⟩
        · split
          · exact ⟨rfl, rfl, fun hg _ _ _ => same hg, by simp⟩
          · exact keepOk ..
      · exact trivial
  by_cases h5 : tag = "measure"
  · subst h5
    simp [coreBody]
    cases he : ensureStarted st with
    | none => exact trivial
    | some s =>
      obtain ⟨e1, e2, e3, e4, e5⟩ := ensureStarted_good q G st s he
      simp
      refine ⟨e1, e2, fun hg _ _ _ => ?_, by simp⟩
      have hs := e5 hg
      exact ⟨hs.pos, hs.cursor, by simp, hs.layerEnds, hs.notes, hs.chord, hs.measures, hs.sdMeter, hs.sdMeterChild,
        hs.defs, hs.meters⟩
  by_cases h6 : tag = "staff"
  · subst h6
    simp [coreBody]
    split
    · exact ⟨rfl, rfl, fun hg _ _ _ => ⟨hg.pos, hg.cursor, hg.staffEnds, by simp, hg.notes, hg.chord, hg.measures,
        hg.sdMeter, hg.sdMeterChild, hg.defs, hg.meters⟩, by simp⟩
    · exact keepOk ..
  by_cases h7 : tag = "layer"
  · subst h7
    simp [coreBody]
    split
    · exact ⟨rfl, rfl, fun hg _ _ _ => ⟨hg.pos, hg.pos, hg.staffEnds, hg.layerEnds, hg.notes, hg.chord, hg.measures,
        hg.sdMeter, hg.sdMeterChild, hg.defs, hg.meters⟩, by simp⟩
    · exact keepOk ..
  by_cases h8 : tag = "tie"
  · subst h8
    simp [coreBody]
    split
    · exact ⟨rfl, rfl, fun hg _ _ _ => same hg, by simp⟩
    · exact keepOk ..
  by_cases hl : c.lay = true
  swap
  · simp [coreBody, h0, h1, h2, h3, h4, h5, h6, h7, h8, hl]
    exact keepOk ..
  by_cases h9 : tag = "chord"
  · subst h9
    simp [coreBody, hl]
    cases hd : durOfT c.tups as with
    | none => exact trivial
    | some d =>
      simp
      exact ⟨rfl, rfl, fun hg hq _ _ => ⟨hg.pos, hg.cursor, hg.staffEnds, hg.layerEnds, hg.notes,
        fun d' s' h => by simp at h; rw [← h.1]; exact hq d hd, hg.measures,
        hg.sdMeter, hg.sdMeterChild, hg.defs, hg.meters⟩, by simp⟩
  by_cases h10 : tag = "note"
  · subst h10
    simp [coreBody, hl]
    split
    · -- a note of a chord: the chord's duration, the cursor stays
      split
      · exact trivial
      · rename_i d cstaff hch
        refine POk_bind _ _ _ fun step => POk_bind _ _ _ fun oct => ?_
        simp
        exact ⟨rfl, rfl, fun hg _ _ _ => ⟨hg.pos, hg.cursor, hg.staffEnds, hg.layerEnds,
          fun n hn => by
            rcases List.mem_cons.mp hn with rfl | hn'
            · exact ⟨hg.cursor, hg.chord d cstaff hch⟩
            · exact hg.notes n hn',
          hg.chord, hg.measures, hg.sdMeter, hg.sdMeterChild, hg.defs, hg.meters⟩, by simp⟩
    · split
      · -- a grace note: no duration
        refine POk_bind _ _ _ fun step => POk_bind _ _ _ fun oct => ?_
        simp
        exact ⟨rfl, rfl, fun hg _ _ _ => good_push q G st hg _ hg.cursor (QI_zero q), by simp⟩
      · cases hd : durOfT c.tups as with
        | none => exact trivial
        | some d =>
          simp only [Option.bind_some]
          refine POk_bind _ _ _ fun step => POk_bind _ _ _ fun oct => ?_
          try simp
          exact ⟨rfl, rfl, fun hg hq _ _ =>
            good_cursor q G _ (good_push q G st hg _ hg.cursor (hq d hd)) _ (QI_add hg.cursor (hq d hd)), by simp⟩
  by_cases h11 : tag = "accid"
  · subst h11
    simp [coreBody, hl]
    split
    · split
      · exact keepOk ..
      · split
        · rename_i n rest hn
          split
          · simp
            refine ⟨rfl, rfl, fun hg _ _ _ => ?_, by simp⟩
            have hh := hg.notes n (by rw [hn]; simp)
            exact ⟨hg.pos, hg.cursor, hg.staffEnds, hg.layerEnds,
              fun m hm => by
                rcases List.mem_cons.mp hm with rfl | hm'
                · exact hh
                · exact hg.notes m (by rw [hn]; exact List.mem_cons_of_mem _ hm'),
              hg.chord, hg.measures, hg.sdMeter, hg.sdMeterChild, hg.defs, hg.meters⟩
          · exact keepOk ..
        · exact keepOk ..
    · exact keepOk ..
  by_cases h12 : tag = "rest"
  · subst h12
    simp [coreBody, hl]
    cases hd : durOfT c.tups as with
    | none => exact trivial
    | some d =>
      simp
      exact ⟨rfl, rfl, fun hg hq _ _ =>
        good_cursor q G _ (good_push q G st hg _ hg.cursor (hq d hd)) _ (QI_add hg.cursor (hq d hd)), by simp⟩
  by_cases h13 : tag = "mRest" ∨ tag = "multiRest"
  · have hb : coreBody c st tag as =
        (if (tag = "multiRest" && decide ((natAttr as "num").getD 1 > 1)) = true then none
         else (measureLen st).bind fun d => some ({ st with
            notes := ⟨st.staffIdx, (attr as "xml:id").getD "", st.cursor, d, 2, "", 0, 0, st.voice, (natAttr as "staff").getD st.staffN⟩ :: st.notes,
            cursor := st.cursor + d }, TopMod.keep)) := by
      rcases h13 with h | h <;> subst h <;> simp [coreBody, hl]
    rw [hb]
    split
    · exact trivial
    · cases hd : measureLen st with
      | none => exact trivial
      | some d =>
        simp only [Option.bind_some, POk_some]
        exact ⟨rfl, rfl, fun hg _ _ hG =>
          have hq := measureLen_good q G st d hg hG hd
          good_cursor q G _ (good_push q G st hg _ hg.cursor hq) _ (QI_add hg.cursor hq), by simp⟩
  have h13a : ¬ tag = "mRest" := fun h => h13 (Or.inl h)
  have h13b : ¬ tag = "multiRest" := fun h => h13 (Or.inr h)
  by_cases h14 : tag = "space"
  · subst h14
    simp [coreBody, hl]
    split
    · cases hd : durOfT c.tups as with
      | none => exact trivial
      | some d =>
        simp only [Option.bind_some, POk_some]
        exact ⟨rfl, rfl, fun hg hq _ _ => good_cursor q G st hg _ (QI_add hg.cursor (hq d hd)), by simp⟩
    · cases hd : measureLen st with
      | none => exact trivial
      | some d =>
        simp only [Option.bind_some, POk_some]
        exact ⟨rfl, rfl, fun hg _ _ hG => good_cursor q G st hg _ (QI_add hg.pos (measureLen_good q G st d hg hG hd)), by simp⟩
  by_cases h15 : tag = "tuplet"
  · subst h15
    simp [coreBody, hl]
    split
    · exact keepOk ..
    · exact trivial
  simp [coreBody, h0, h1, h2, h3, h4, h5, h6, h7, h8, hl, h9, h10, h11, h12, h13a, h13b, h14, h15]
  exact keepOk ..

/-- the hypothesis on `q`: every well-formed recorded element has a whole value -/
def HD (q : Rat) (l : List DurEl) : Prop := ∀ e ∈ l, WellFormed e → QI q (meiValue e.v e.dots e.tup)

theorem openCore_ok (q : Rat) (G : Nat → Prop) (c : Ctx) (st : St) (tag : String) (as : List (String × String))
    (r : St × TopMod) (h : openCore c st tag as = some r) :
    (∃ nu nd, r.1.units = nu ++ st.units ∧ r.1.durEls = nd ++ st.durEls) ∧
    (HD q r.1.durEls → (∀ u ∈ r.1.units, G u) → (∀ u, G u → u ≠ 0 → ∀ b : Nat, QI q (4 * (b : Rat) / (u : Rat))) →
      Good q G st → Good q G r.1 ∧ MU G (meterOfAttrs as "meter.count" "meter.unit") ∧ (∀ m, r.2 = .meter m → MU G m)) := by
  unfold openCore at h
  obtain ⟨news, hru, hn1, hn2⟩ := recordUnits_spec st tag as
  rw [hru] at h
  cases h2 : recordDurElT c.tups { st with units := news ++ st.units } as with
  | none => simp [h2] at h
  | some s2 =>
    simp only [h2, Option.bind_some] at h
    have hc := coreBody_ok q G c s2 tag as
    rw [h] at hc
    obtain ⟨c1, c2, c3, c4⟩ := hc
    rcases recordDurElT_spec _ _ _ _ h2 with ⟨hs, hnd⟩ | ⟨e, hs, he⟩
    · subst hs
      refine ⟨⟨news, [], by rw [c2], by rw [c1]; rfl⟩, fun hD hU hG hg => ?_⟩
      have hmu : MU G (meterOfAttrs as "meter.count" "meter.unit") := fun b u hm =>
        hU u (by rw [c2]; exact List.mem_append_left _ (hn1 u (meterOfAttrs_unit as _ _ b u hm)))
      refine ⟨c3 (same hg) (fun d hd => by simp [durOfT, hnd] at hd) hmu hG, hmu, fun m hm => ?_⟩
      obtain ⟨ht, hmm⟩ := c4 m hm
      intro b u hbu
      exact hU u (by rw [c2]; exact List.mem_append_left _ (hn2 ht u (meterOfAttrs_unit as _ _ b u (by rw [← hmm, hbu]))))
    · subst hs
      refine ⟨⟨news, [e], by rw [c2], by rw [c1]; rfl⟩, fun hD hU hG hg => ?_⟩
      have hmu : MU G (meterOfAttrs as "meter.count" "meter.unit") := fun b u hm =>
        hU u (by rw [c2]; exact List.mem_append_left _ (hn1 u (meterOfAttrs_unit as _ _ b u hm)))
      have hq : ∀ d, durOfT c.tups as = some d → QI q d := fun d hd => by
        obtain ⟨hw, hv⟩ := he d hd
        rcases hw with hw | h0
        · rw [← hv]; exact hD e (by rw [c1]; simp) hw
        · rw [h0]; exact QI_zero q
      refine ⟨c3 (same hg) hq hmu hG, hmu, fun m hm => ?_⟩
      obtain ⟨ht, hmm⟩ := c4 m hm
      intro b u hbu
      exact hU u (by rw [c2]; exact List.mem_append_left _ (hn2 ht u (meterOfAttrs_unit as _ _ b u (by rw [← hmm, hbu]))))

/-! ## one element is closed -/

theorem applySdChange_fields (st : St) (f : Frame) :
    (applySdChange st f).units = st.units ∧ (applySdChange st f).durEls = st.durEls := by
  unfold applySdChange
  simp only []
  split <;> split <;> exact ⟨rfl, rfl⟩

def sdM (st : St) (meter : Option (Nat × Nat)) : St :=
  match meter with
  | some (b, u) => { st with tsigs := ((List.range st.defs.length).map fun i => (i, st.pos, b, u)).reverse ++ st.tsigs,
                             meters := st.meters.map fun _ => (b, u) }
  | none => st

def sdK (n : Nat) (st : St) (key : Option (Int × Option String)) : St :=
  match key with
  | some (fi, mo) => { st with ksigs := ((List.range n).map fun i => (i, st.pos, fi, mo)).reverse ++ st.ksigs }
  | none => st

theorem applySdChange_eq (st : St) (f : Frame) :
    applySdChange st f = sdK st.defs.length (sdM st (match f.cMeter with
      | some m => some m
      | none => meterOfAttrs f.attrs "meter.count" "meter.unit")) (match f.cKey with
      | some k => some k
      | none => keyOfAttrs f.attrs "key.sig" "key.mode") := by
  rfl

theorem applySdChange_good (q : Rat) (G : Nat → Prop) (st : St) (f : Frame) (hg : Good q G st) (hf : FrameOk G f) :
    Good q G (applySdChange st f) := by
  have hm : MU G (match f.cMeter with
      | some m => some m
      | none => meterOfAttrs f.attrs "meter.count" "meter.unit") := by
    cases h : f.cMeter with
    | some m => intro b u hbu; exact hf.1 b u (by rw [h]; exact hbu)
    | none => exact hf.2
  rw [applySdChange_eq]
  generalize (match f.cMeter with
      | some m => some m
      | none => meterOfAttrs f.attrs "meter.count" "meter.unit") = meter at hm
  generalize (match f.cKey with
      | some k => some k
      | none => keyOfAttrs f.attrs "key.sig" "key.mode") = key
  have h1 : Good q G (sdM st meter) := by
    cases meter with
    | none => exact hg
    | some bu =>
      obtain ⟨b, u⟩ := bu
      have hu : G u := hm b u rfl
      exact ⟨hg.pos, hg.cursor, hg.staffEnds, hg.layerEnds, hg.notes, hg.chord, hg.measures, hg.sdMeter,
        hg.sdMeterChild, hg.defs, fun m hmm => by
          obtain ⟨_, _, rfl⟩ := List.mem_map.mp hmm
          exact hu⟩
  cases key with
  | none => exact h1
  | some k => exact same h1

theorem closeCore_ok (q : Rat) (G : Nat → Prop) (f : Frame) (below : String) (st s : St)
    (h : closeCore f below st = some s) :
    s.units = st.units ∧ s.durEls = st.durEls ∧ (Good q G st → FrameOk G f → Good q G s) := by
  obtain ⟨ftag, fattrs, cm, ck, cc⟩ := f
  by_cases h1 : ftag = "scoreDef"
  · subst h1
    by_cases h2 : st.inSection = true
    · simp only [closeCore, h2, if_true] at h
      cases he : ensureStarted st with
      | none => simp [he] at h
      | some x =>
        simp only [he, Option.some.injEq] at h
        subst h
        obtain ⟨e1, e2, _, _, e5⟩ := ensureStarted_good q G st x he
        obtain ⟨a1, a2⟩ := applySdChange_fields x ⟨"scoreDef", fattrs, cm, ck, cc⟩
        exact ⟨by rw [a1, e2], by rw [a2, e1], fun hg hf => applySdChange_good q G x _ (e5 hg) hf⟩
    · simp [closeCore, h2] at h
      subst h
      exact ⟨rfl, rfl, fun hg hf => ⟨hg.pos, hg.cursor, hg.staffEnds, hg.layerEnds, hg.notes, hg.chord, hg.measures, hg.sdMeter,
        hf.1, hg.defs, hg.meters⟩⟩
  by_cases h2 : ftag = "staffDef"
  · subst h2
    simp [closeCore] at h
    split at h
    · simp at h
      subst h
      refine ⟨rfl, rfl, fun hg hf => ⟨hg.pos, hg.cursor, hg.staffEnds, hg.layerEnds, hg.notes, hg.chord, hg.measures,
        hg.sdMeter, hg.sdMeterChild, ?_, hg.meters⟩⟩
      intro d hd
      rcases List.mem_cons.mp hd with rfl | hd'
      · cases hcm : cm with
        | some m => intro b u hbu; exact hf.1 b u (by simpa [hcm] using hbu)
        | none => intro b u hbu; exact hf.2 b u (by simpa [hcm] using hbu)
      · exact hg.defs d hd'
    · simp at h
      subst h
      exact ⟨rfl, rfl, fun hg _ => hg⟩
  by_cases h3 : ftag = "layer"
  · subst h3
    simp [closeCore] at h
    split at h
    · simp at h
      subst h
      exact ⟨rfl, rfl, fun hg _ => ⟨hg.pos, hg.cursor, hg.staffEnds,
        fun x hx => by
          rcases List.mem_cons.mp hx with rfl | hx'
          · exact hg.cursor
          · exact hg.layerEnds x hx',
        hg.notes, hg.chord, hg.measures, hg.sdMeter, hg.sdMeterChild, hg.defs, hg.meters⟩⟩
    · simp at h
      subst h
      exact ⟨rfl, rfl, fun hg _ => hg⟩
  by_cases h4 : ftag = "staff"
  · subst h4
    simp [closeCore] at h
    split at h
    · simp at h
      subst h
      refine ⟨rfl, rfl, fun hg _ => ?_⟩
      have he := QI_ratMaxFrom q st.pos st.layerEnds hg.pos hg.layerEnds
      exact ⟨hg.pos, hg.cursor,
        fun x hx => by
          rcases List.mem_cons.mp hx with rfl | hx'
          · exact he
          · exact hg.staffEnds x hx',
        hg.layerEnds, hg.notes, hg.chord,
        fun m hm => by
          rcases List.mem_cons.mp hm with rfl | hm'
          · exact ⟨hg.pos, he⟩
          · exact hg.measures m hm',
        hg.sdMeter, hg.sdMeterChild, hg.defs, hg.meters⟩
    · simp at h
      subst h
      exact ⟨rfl, rfl, fun hg _ => hg⟩
  by_cases h5 : ftag = "measure"
  · subst h5
    simp [closeCore] at h
    obtain ⟨_, h⟩ := h
    subst h
    exact ⟨rfl, rfl, fun hg _ => ⟨QI_ratMaxFrom q st.pos st.staffEnds hg.pos hg.staffEnds, hg.cursor, hg.staffEnds,
      hg.layerEnds, hg.notes, hg.chord, hg.measures, hg.sdMeter, hg.sdMeterChild, hg.defs, hg.meters⟩⟩
  by_cases h6 : ftag = "chord"
  · subst h6
    simp [closeCore] at h
    split at h
    · rename_i d sx hch
      simp at h
      subst h
      exact ⟨rfl, rfl, fun hg _ => ⟨hg.pos, QI_add hg.cursor (hg.chord d sx hch), hg.staffEnds, hg.layerEnds, hg.notes,
        by simp, hg.measures, hg.sdMeter, hg.sdMeterChild, hg.defs, hg.meters⟩⟩
    · simp at h
      subst h
      exact ⟨rfl, rfl, fun hg _ => hg⟩
  simp only [closeCore, h1, h2, h3, h4, h5, h6, decide_false, Bool.false_and, Bool.false_eq_true, if_false,
    Option.some.injEq] at h
  subst h
  exact ⟨rfl, rfl, fun hg _ => hg⟩

/-! ## any event list -/

def Inv (q : Rat) (G : Nat → Prop) (st : St) : Prop :=
  HD q st.durEls → (∀ u ∈ st.units, G u) → Good q G st ∧ StackOk G st.stack

theorem stackOk_applyTop (G : Nat → Prop) (tm : TopMod) (s : List Frame) (hs : StackOk G s)
    (hm : ∀ m, tm = .meter m → MU G m) : StackOk G (applyTop tm s) := by
  cases tm with
  | keep => exact hs
  | meter m =>
    cases s with
    | nil => exact hs
    | cons t rest =>
      intro f hf
      rcases List.mem_cons.mp hf with rfl | hf'
      · exact ⟨hm m rfl, (hs t (by simp)).2⟩
      · exact hs f (List.mem_cons_of_mem _ hf')
  | key k =>
    cases s with
    | nil => exact hs
    | cons t rest =>
      intro f hf
      rcases List.mem_cons.mp hf with rfl | hf'
      · exact hs t (by simp)
      · exact hs f (List.mem_cons_of_mem _ hf')
  | clef c =>
    cases s with
    | nil => exact hs
    | cons t rest =>
      intro f hf
      rcases List.mem_cons.mp hf with rfl | hf'
      · exact hs t (by simp)
      · exact hs f (List.mem_cons_of_mem _ hf')

theorem step_inv (q : Rat) (G : Nat → Prop) (hG : ∀ u, G u → u ≠ 0 → ∀ b : Nat, QI q (4 * (b : Rat) / (u : Rat)))
    (st s : St) (e : Ev) (h : stepEv st e = some s) (hi : Inv q G st) : Inv q G s := by
  cases e with
  | op tag as =>
    rw [stepEv_op] at h
    cases hr : openCore (ctxOf st.stack) (core st) tag as with
    | none => simp [hr] at h
    | some r =>
      simp only [hr, Option.map_some, Option.some.injEq] at h
      subst h
      obtain ⟨⟨nu, nd, hu, hd⟩, hok⟩ := openCore_ok q G _ _ _ _ r hr
      intro hD hU
      have hD' : HD q r.1.durEls := hD
      have hU' : ∀ u ∈ r.1.units, G u := hU
      obtain ⟨hg, hs⟩ := hi (fun e he => hD' e (by rw [hd]; exact List.mem_append_right _ he))
        (fun u hu' => hU' u (by rw [hu]; exact List.mem_append_right _ hu'))
      obtain ⟨g1, g2, g3⟩ := hok hD' hU' hG (same hg)
      refine ⟨same g1, ?_⟩
      intro f hf
      rcases List.mem_cons.mp hf with rfl | hf'
      · exact ⟨MU_none G, g2⟩
      · exact stackOk_applyTop G r.2 st.stack hs g3 f hf'
  | cl =>
    rw [stepEv_cl] at h
    cases hs : st.stack with
    | nil => simp [hs] at h
    | cons f rest =>
      simp only [hs] at h
      cases hc : closeCore f (ptagOf rest) (core st) with
      | none => simp [hc] at h
      | some x =>
        simp only [hc, Option.map_some, Option.some.injEq] at h
        subst h
        obtain ⟨c1, c2, c3⟩ := closeCore_ok q G f _ _ x hc
        intro hD hU
        have hD' : HD q x.durEls := hD
        have hU' : ∀ u ∈ x.units, G u := hU
        obtain ⟨hg, hst⟩ := hi (by rw [c2] at hD'; exact hD') (by rw [c1] at hU'; exact hU')
        rw [hs] at hst
        exact ⟨same (c3 (same hg) (hst f (by simp))), fun g hg' => hst g (List.mem_cons_of_mem _ hg')⟩

theorem run_inv (q : Rat) (G : Nat → Prop) (hG : ∀ u, G u → u ≠ 0 → ∀ b : Nat, QI q (4 * (b : Rat) / (u : Rat)))
    (evs : List Ev) : ∀ (st s : St), runEvs st evs = some s → Inv q G st → Inv q G s := by
  induction evs with
  | nil =>
    intro st s h hi
    simp only [runEvs, Option.some.injEq] at h
    subst h
    exact hi
  | cons e es ih =>
    intro st s h hi
    simp only [runEvs] at h
    cases h1 : stepEv st e with
    | none => simp [h1] at h
    | some x =>
      simp only [h1] at h
      exact ih x s h (step_inv q G hG st x e h1 hi)

theorem inv_init (q : Rat) (G : Nat → Prop) : Inv q G {} :=
  fun _ _ => ⟨good_init q G, fun f hf => by cases hf⟩

/-- the invariant at the end of any document -/
theorem run_good (q : Rat) (evs : List Ev) (st : St) (h : runEvs {} evs = some st) (hD : HD q st.durEls)
    (hU : ∀ u ∈ st.units, u ≠ 0 → ∀ b : Nat, QI q (4 * (b : Rat) / (u : Rat))) : Good q (· ∈ st.units) st :=
  (run_inv q (· ∈ st.units) (fun u hu h0 b => hU u hu h0 b) evs {} st h (inv_init q _) hD (fun u hu => hu)).1

/-! ## every element that carries `@dur` enters the list the divisions are inferred from -/

theorem step_mono (st s : St) (e : Ev) (h : stepEv st e = some s) :
    (∃ nd, s.durEls = nd ++ st.durEls) ∧ (∃ nu, s.units = nu ++ st.units) := by
  cases e with
  | op tag as =>
    rw [stepEv_op] at h
    cases hr : openCore (ctxOf st.stack) (core st) tag as with
    | none => simp [hr] at h
    | some r =>
      simp only [hr, Option.map_some, Option.some.injEq] at h
      subst h
      obtain ⟨⟨nu, nd, hu, hd⟩, _⟩ := openCore_ok 1 (fun _ => True) _ _ _ _ r hr
      exact ⟨⟨nd, hd⟩, ⟨nu, hu⟩⟩
  | cl =>
    rw [stepEv_cl] at h
    cases hs : st.stack with
    | nil => simp [hs] at h
    | cons f rest =>
      simp only [hs] at h
      cases hc : closeCore f (ptagOf rest) (core st) with
      | none => simp [hc] at h
      | some x =>
        simp only [hc, Option.map_some, Option.some.injEq] at h
        subst h
        obtain ⟨c1, c2, _⟩ := closeCore_ok 1 (fun _ => True) f _ _ x hc
        exact ⟨⟨[], c2⟩, ⟨[], c1⟩⟩

theorem run_mono (evs : List Ev) : ∀ (st s : St), runEvs st evs = some s →
    (∃ nd, s.durEls = nd ++ st.durEls) ∧ (∃ nu, s.units = nu ++ st.units) := by
  induction evs with
  | nil =>
    intro st s h
    simp only [runEvs, Option.some.injEq] at h
    subst h
    exact ⟨⟨[], rfl⟩, ⟨[], rfl⟩⟩
  | cons e es ih =>
    intro st s h
    simp only [runEvs] at h
    cases h1 : stepEv st e with
    | none => simp [h1] at h
    | some x =>
      simp only [h1] at h
      obtain ⟨⟨a, ha⟩, ⟨b, hb⟩⟩ := step_mono st x e h1
      obtain ⟨⟨c, hc⟩, ⟨d, hd⟩⟩ := ih x s h
      exact ⟨⟨c ++ a, by rw [hc, ha, List.append_assoc]⟩, ⟨d ++ b, by rw [hd, hb, List.append_assoc]⟩⟩

/-- opening an element with `@dur` — whatever its name — puts its value at the head of `durEls` -/
theorem step_enters (st s : St) (tag : String) (as : List (String × String)) (ds : String)
    (h : stepEv st (.op tag as) = some s) (hd : attr as "dur" = some ds) :
    ∃ e, s.durEls = e :: st.durEls ∧ durNumber ds = some e.v ∧ e.dots = (natAttr as "dots").getD 0 ∧
      e.durppq = natAttr as "dur.ppq" ∧
      (e.tup = none ∧ tupletsOf st.stack = [] ∨ ∃ t, e.tup = some t ∧ tupletsOf st.stack = [t]) := by
  rw [stepEv_op] at h
  cases hr : openCore (ctxOf st.stack) (core st) tag as with
  | none => simp [hr] at h
  | some r =>
    simp only [hr, Option.map_some, Option.some.injEq] at h
    subst h
    unfold openCore at hr
    obtain ⟨news, hru, _, _⟩ := recordUnits_spec (core st) tag as
    rw [hru] at hr
    cases h2 : recordDurElT (ctxOf st.stack).tups { core st with units := news ++ (core st).units } as with
    | none => simp [h2] at hr
    | some s2 =>
      simp only [h2, Option.bind_some] at hr
      have hc := coreBody_ok 1 (fun _ => True) (ctxOf st.stack) s2 tag as
      rw [hr] at hc
      obtain ⟨c1, _, _, _⟩ := hc
      unfold recordDurElT at h2
      simp only [hd] at h2
      cases hv : durNumber ds with
      | none => simp [hv] at h2
      | some v =>
        simp only [hv] at h2
        have htu : (ctxOf st.stack).tups = tupletsOf st.stack := rfl
        rw [htu] at h2
        match hts : tupletsOf st.stack, h2 with
        | [], h2 =>
          simp only [Option.some.injEq] at h2
          subst h2
          exact ⟨_, c1, rfl, rfl, rfl, Or.inl ⟨rfl, rfl⟩⟩
        | [t], h2 =>
          simp only [Option.some.injEq] at h2
          subst h2
          exact ⟨_, c1, rfl, rfl, rfl, Or.inr ⟨t, rfl, rfl⟩⟩
        | _ :: _ :: _, h2 => simp at h2

/-! ## the staff a note stands on -/

/-- the recorders leave everything but `units` / `durEls` alone -/
theorem recorders_spec (tups : List (Nat × Nat)) (st s2 : St) (tag : String) (as : List (String × String))
    (h : recordDurElT tups (recordUnits st tag as) as = some s2) :
    ∃ nu nd, s2 = { st with units := nu ++ st.units, durEls := nd ++ st.durEls } := by
  obtain ⟨news, hru, _, _⟩ := recordUnits_spec st tag as
  rw [hru] at h
  rcases recordDurElT_spec _ _ _ _ h with ⟨hs, _⟩ | ⟨e, hs, _⟩
  · exact ⟨news, [], by rw [hs]; rfl⟩
  · exact ⟨news, [e], by rw [hs]; rfl⟩

/-- a note of a chord stands on its own `@staff`, else on the `@staff` of the chord, else on the enclosing staff;
    its own `@staff` changes neither the chord's staff nor the enclosing staff -/
theorem openCore_chord_note (c : Ctx) (st : St) (as : List (String × String)) (r : St × TopMod)
    (hl : c.lay = true) (hp : c.ptag = "chord") (d : Rat) (cstaff : Option Nat) (hch : st.chord = some (d, cstaff))
    (h : openCore c st "note" as = some r) :
    ∃ n, r.1.notes = n :: st.notes ∧ n.staff = (natAttr as "staff").getD (cstaff.getD st.staffN) ∧
      n.onset = st.cursor ∧ n.dur = d ∧ n.voice = st.voice ∧
      r.1.chord = st.chord ∧ r.1.staffN = st.staffN ∧ r.1.cursor = st.cursor := by
  unfold openCore at h
  cases h2 : recordDurElT c.tups (recordUnits st "note" as) as with
  | none => simp [h2] at h
  | some s2 =>
    obtain ⟨nu, nd, hs⟩ := recorders_spec _ _ _ _ _ h2
    subst hs
    simp only [h2, Option.bind_some] at h
    cases hpn : attr as "pname" <;> cases hoc : (attr as "oct").bind natOfString <;>
      simp [coreBody, hl, hp, hch, hpn, hoc] at h
    subst h
    exact ⟨_, rfl, rfl, rfl, rfl, rfl, hch.symm, rfl, rfl⟩

/-- the `<chord>` element: its `@staff` (or none) becomes the default of its notes; the enclosing staff stays -/
theorem openCore_chord (c : Ctx) (st : St) (as : List (String × String)) (r : St × TopMod)
    (hl : c.lay = true) (h : openCore c st "chord" as = some r) :
    ∃ d, r.1.chord = some (d, natAttr as "staff") ∧ r.1.staffN = st.staffN ∧ r.1.notes = st.notes ∧ r.1.cursor = st.cursor := by
  unfold openCore at h
  cases h2 : recordDurElT c.tups (recordUnits st "chord" as) as with
  | none => simp [h2] at h
  | some s2 =>
    obtain ⟨nu, nd, hs⟩ := recorders_spec _ _ _ _ _ h2
    subst hs
    simp only [h2, Option.bind_some] at h
    cases hd : durOfT c.tups as <;> simp [coreBody, hl, hd] at h
    subst h
    exact ⟨_, rfl, rfl, rfl, rfl⟩

/-- a note, rest or measure rest that is not part of a chord stands on its own `@staff`, else on the enclosing
    staff; the enclosing staff stays what it is for the elements that follow -/
theorem openCore_single (c : Ctx) (st : St) (tag : String) (as : List (String × String)) (r : St × TopMod)
    (hl : c.lay = true) (hp : c.ptag ≠ "chord")
    (ht : tag = "note" ∨ tag = "rest" ∨ tag = "mRest" ∨ tag = "multiRest")
    (h : openCore c st tag as = some r) :
    ∃ n, r.1.notes = n :: st.notes ∧ n.staff = (natAttr as "staff").getD st.staffN ∧ n.onset = st.cursor ∧
      n.voice = st.voice ∧ r.1.staffN = st.staffN ∧ r.1.cursor = st.cursor + n.dur := by
  unfold openCore at h
  cases h2 : recordDurElT c.tups (recordUnits st tag as) as with
  | none => simp [h2] at h
  | some s2 =>
    obtain ⟨nu, nd, hs⟩ := recorders_spec _ _ _ _ _ h2
    have e1 : s2.notes = st.notes := by rw [hs]
    have e2 : s2.staffN = st.staffN := by rw [hs]
    have e3 : s2.cursor = st.cursor := by rw [hs]
    have e4 : s2.voice = st.voice := by rw [hs]
    simp only [h2, Option.bind_some] at h
    clear hs h2
    rcases ht with rfl | rfl | rfl | rfl
    · cases hpn : attr as "pname" <;> cases hoc : (attr as "oct").bind natOfString <;>
        cases hd : durOfT c.tups as <;> by_cases hgr : (attr as "grace").isSome = true <;>
        simp [coreBody, hl, hp, hpn, hoc, hd, hgr] at h <;> subst h
      · exact ⟨_, by rw [← e1], by rw [← e2], e3, e4, e2, by simp [e3]⟩
      · exact ⟨_, by rw [← e1], by rw [← e2], e3, e4, e2, by simp [e3]⟩
      · exact ⟨_, by rw [← e1], by rw [← e2], e3, e4, e2, by simp [e3]⟩
    · cases hd : durOfT c.tups as <;> simp [coreBody, hl, hd] at h
      subst h
      exact ⟨_, by rw [← e1], by rw [← e2], e3, e4, e2, by simp [e3]⟩
    · cases hd : measureLen s2 <;> simp [coreBody, hl, hd] at h
      subst h
      exact ⟨_, by rw [← e1], by rw [← e2], e3, e4, e2, by simp [e3]⟩
    · cases hd : measureLen s2 <;> simp [coreBody, hl, hd] at h
      obtain ⟨_, h⟩ := h
      subst h
      exact ⟨_, by rw [← e1], by rw [← e2], e3, e4, e2, by simp [e3]⟩

end C19D
