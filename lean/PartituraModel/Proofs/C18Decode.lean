/-
C18 — `decode_performance`'s bookkeeping and the composition of the whole pipeline
`to_matched_score` → `encode_tempo` → (storage) → `decode_performance`.
-/
import PartituraModel.Proofs.C18Tempo
import PartituraModel.Proofs.C18Match
import PartituraModel.Proofs.C18Norm
import PartituraModel.Proofs.Round

namespace C18P
open Model Model.Codec

theorem enumFrom_map_snd {α : Type} (i : Nat) (l : List α) : (enumFrom i l).map Prod.snd = l := by
  induction l generalizing i with
  | nil => simp [enumFrom]
  | cons a as ih => simp [enumFrom, ih]

theorem getAll_range' {α : Type} (l : List α) (i : Nat) (t : List α) (pre : List α) (h : l = pre ++ t) (hi : i = pre.length) :
    getAll l (List.range' i t.length) = some t := by
  unfold getAll
  rw [allSome_eq_some]
  apply List.ext_getElem
  · simp
  · intro k h1 h2
    simp only [List.getElem_map, List.getElem_range']
    subst h hi
    have hk : k < t.length := by simpa using h2
    rw [List.getElem?_append_right (by omega)]
    simp [List.getElem?_eq_getElem hk]

theorem getAll_range {α : Type} (l : List α) : getAll l (List.range' 0 l.length) = some l :=
  getAll_range' l 0 l [] rfl rfl

theorem zipWith_enumFrom {α β γ : Type} (f : α → β → γ) (i : Nat) (l : List α) (m : List β) :
    List.zipWith (fun (s : Nat × α) p => f s.2 p) (enumFrom i l) m = List.zipWith f l m := by
  induction l generalizing i m with
  | nil => simp [enumFrom]
  | cons a as ih =>
    cases m with
    | nil => simp [enumFrom]
    | cons b bs => simp [enumFrom, ih]

/-- `decode_performance` when the selected score rows are already ordered by (onset_div, pitch) —
    as the `snote_ids` of `encode_performance` are: the stable re-sort moves nothing, note `k` of the
    result carries `snote_ids[k]` and is decoded from the score row of that id and row `k` of the
    parameters -/
theorem decodePerformance_sorted (n : Norm) (ss : List SRow) (ids : List String) (ps : List ParamRow)
    (info : List SRow) (hinfo : selectRows ss ids = some info) (hlen : info.length = ps.length)
    (hsorted : info.Pairwise (fun a b => lexLe (a.odiv, a.pitch) (b.odiv, b.pitch) = true)) :
    decodePerformance n ss ids ps =
      (decodeTime n (List.zipWith mkDRow info ps)).map fun od =>
        zipWith3 (fun id (x : Rat × Rat) (p : ParamRow) => (id, x.1, x.2, decodeVel p.vel)) ids od ps := by
  unfold decodePerformance
  rw [hinfo]
  simp only [hlen, ne_eq, not_true_eq_false, if_false]
  have hord : isort (fun (a b : Nat × SRow) => lexLe (a.2.odiv, a.2.pitch) (b.2.odiv, b.2.pitch)) (enumFrom 0 info)
      = enumFrom 0 info := by
    apply isort_of_pairwise
    have : ((enumFrom 0 info).map Prod.snd).Pairwise (fun a b => lexLe (a.odiv, a.pitch) (b.odiv, b.pitch) = true) := by
      rw [enumFrom_map_snd]; exact hsorted
    exact List.pairwise_map.mp this
  rw [hord, enumFrom_map_fst, hlen, getAll_range]
  simp only
  have hrows : List.zipWith (fun (s : Nat × SRow) (p : ParamRow) => mkDRow s.2 p)
      (enumFrom 0 info) ps = List.zipWith mkDRow info ps := zipWith_enumFrom mkDRow 0 info ps
  rw [hrows]
  cases decodeTime n (List.zipWith mkDRow info ps) <;> rfl

theorem mem_zipWith3 {α β γ δ : Type} (f : α → β → γ → δ) (as : List α) (bs : List β) (cs : List γ) (y : δ)
    (h : y ∈ zipWith3 f as bs cs) : ∃ a ∈ as, ∃ b ∈ bs, ∃ c ∈ cs, y = f a b c := by
  induction as generalizing bs cs with
  | nil => simp [zipWith3] at h
  | cons a as ih =>
    cases bs with
    | nil => simp [zipWith3] at h
    | cons b bs =>
      cases cs with
      | nil => simp [zipWith3] at h
      | cons c cs =>
        simp only [zipWith3, List.mem_cons] at h
        rcases h with rfl | h
        · exact ⟨a, by simp, b, by simp, c, by simp, rfl⟩
        · obtain ⟨a', ha, b', hb, c', hc, e⟩ := ih bs cs h
          exact ⟨a', List.mem_cons_of_mem _ ha, b', List.mem_cons_of_mem _ hb, c', List.mem_cons_of_mem _ hc, e⟩

theorem lookup_some_mem {β : Type} (T : List (Nat × β)) (i : Nat) (v : β) (h : lookup i T = some v) : (i, v) ∈ T := by
  induction T with
  | nil => simp [lookup] at h
  | cons p rest ih =>
    obtain ⟨a, b⟩ := p
    simp only [lookup] at h
    split at h
    · rename_i hab
      simp only [Option.some.injEq] at h
      subst hab; subst h; simp
    · exact List.mem_cons_of_mem _ (ih h)

theorem enumFrom_mem_get {α : Type} (i : Nat) (l : List α) (k : Nat) (x : α) (h : (k, x) ∈ enumFrom i l) :
    i ≤ k ∧ l[k - i]? = some x := by
  induction l generalizing i with
  | nil => simp [enumFrom] at h
  | cons a as ih =>
    simp only [enumFrom, List.mem_cons, Prod.mk.injEq] at h
    rcases h with ⟨rfl, rfl⟩ | h
    · simp
    · obtain ⟨h1, h2⟩ := ih (i + 1) h
      refine ⟨by omega, ?_⟩
      have : k - i = (k - (i + 1)) + 1 := by omega
      rw [this, List.getElem?_cons_succ]
      exact h2

/-- every encoded row: beat period and normalisation columns of its onset group, timing against
    some equivalent onset, articulation ratio of the note -/
theorem encode_given_rows (n : Norm) (sd : Rat) (ns : List MNote) (bp : List Rat) (tps : List TParam)
    (h : encode (.given bp) n sd ns = some tps) :
    List.Forall₂ (fun (x : MNote) (tp : TParam) => ∃ b c e, (b, c) ∈ bp.zip (scale n sd bp) ∧
      tp = ⟨b, e - x.po, artRatio b x.sd x.pd, c⟩) ns tps := by
  unfold encode at h
  simp only at h
  split at h
  · cases h
  · rename_i bp' hbp
    split at hbp
    · simp only [Option.some.injEq] at hbp
      subst hbp
      unfold scatter at h
      rw [allSome_eq_some] at h
      have hlen : ns.length = tps.length := by
        have := congrArg List.length h
        simpa using this
      rw [List.forall₂_iff_get]
      refine ⟨hlen, ?_⟩
      intro k h1 h2
      have hk := congrArg (fun l => l[k]?) h
      simp only [List.getElem?_map, List.getElem?_range h1, Option.map_some,
        List.getElem?_eq_getElem h2] at hk
      have hmem := lookup_some_mem _ _ _ (Option.some.inj hk)
      obtain ⟨grp, hgrp, hin⟩ := List.mem_flatten.mp hmem
      unfold encodeG at hgrp
      obtain ⟨g, hg, bc, hbc, e, _, rfl⟩ := mem_zipWith3 _ _ _ _ _ hgrp
      obtain ⟨p, hp, hpe⟩ := List.mem_map.mp hin
      have hpk : p.1 = k := by
        have := congrArg Prod.fst hpe
        simpa [encNote] using this
      have hp' : p ∈ enumFrom 0 ns :=
        (groupsBy_flatten_perm _ ns).mem_iff.mp (List.mem_flatten.mpr ⟨g, hg, hp⟩)
      obtain ⟨_, hget⟩ := enumFrom_mem_get 0 ns p.1 p.2 hp'
      rw [hpk, Nat.sub_zero, List.getElem?_eq_getElem h1, Option.some.injEq] at hget
      refine ⟨bc.1, bc.2, e, hbc, ?_⟩
      have := congrArg Prod.snd hpe
      simp only [encNote] at this
      simp only [List.get_eq_getElem]
      rw [← this, hget]
    · cases hbp

-- ------------------------------------------------------------------ the whole pipeline

theorem forall₂_mem_right {α β : Type} {R : α → β → Prop} {l1 : List α} {l2 : List β}
    (h : List.Forall₂ R l1 l2) {b : β} (hb : b ∈ l2) : ∃ a ∈ l1, R a b := by
  induction h with
  | nil => simp at hb
  | cons hab _ ih =>
    rcases List.mem_cons.mp hb with rfl | hb
    · exact ⟨_, by simp, hab⟩
    · obtain ⟨a, ha, hr⟩ := ih hb
      exact ⟨a, List.mem_cons_of_mem _ ha, hr⟩

theorem pairwise_of_forall₂ {α β : Type} (R : α → β → Prop) (P : α → α → Prop) (Q : β → β → Prop)
    (hPQ : ∀ a a' b b', R a b → R a' b' → P a a' → Q b b') {l1 : List α} {l2 : List β}
    (h : List.Forall₂ R l1 l2) (hp : l1.Pairwise P) : l2.Pairwise Q := by
  induction h with
  | nil => exact List.Pairwise.nil
  | cons hab hrest ih =>
    have hp' := List.pairwise_cons.mp hp
    refine List.pairwise_cons.mpr ⟨?_, ih hp'.2⟩
    intro b' hb'
    obtain ⟨a', ha', hr⟩ := forall₂_mem_right hrest hb'
    exact hPQ _ _ _ _ hab hr (hp'.1 a' ha')

theorem lastIndexOf_none (x : String) (l : List String) (h : x ∉ l) : lastIndexOf x l = none := by
  induction l with
  | nil => rfl
  | cons a rest ih =>
    simp only [List.mem_cons, not_or] at h
    simp only [lastIndexOf, ih h.2]
    rw [if_neg (fun e => h.1 e.symm)]

theorem lastIndexOf_nodup (x : String) (l : List String) (i : Nat) (hnd : l.Nodup) (h : l[i]? = some x) :
    lastIndexOf x l = some i := by
  induction l generalizing i with
  | nil => simp at h
  | cons a rest ih =>
    have hnd' := List.nodup_cons.mp hnd
    cases i with
    | zero =>
      simp only [List.getElem?_cons_zero, Option.some.injEq] at h
      subst h
      simp only [lastIndexOf, lastIndexOf_none a rest hnd'.1, if_true]
    | succ k =>
      simp only [List.getElem?_cons_succ] at h
      simp only [lastIndexOf, ih k hnd'.2 h]

theorem mkRow_spec (ss : List SRow) (ps : List PRow) (ij : Nat × Nat) (r : MRow) (h : mkRow ss ps ij = some r) :
    ∃ s p, ss[ij.1]? = some s ∧ ps[ij.2]? = some p ∧
      r = ⟨ij.1, s.so, s.sd, s.pitch, p.po, if clipDur > p.pd then clipDur else p.pd, p.vel⟩ := by
  unfold mkRow at h
  cases hs : ss[ij.1]? with
  | none => rw [hs] at h; simp at h
  | some s =>
    cases hp : ps[ij.2]? with
    | none => rw [hs, hp] at h; simp at h
    | some p =>
      rw [hs, hp] at h
      simp only [Option.some.injEq] at h
      exact ⟨s, p, rfl, rfl, h.symm⟩

theorem clip_pos (pd : Rat) : 0 < (if clipDur > pd then clipDur else pd) := by
  unfold clipDur
  split
  · norm_num
  · rename_i h
    have := not_lt.mp h
    linarith

/-- an id that occurs at most once is found at its only position, searched from either end -/
theorem lastIndexOf_of_count_le_one (x : String) (l : List String) (i : Nat) (hc : l.count x ≤ 1) (h : l[i]? = some x) :
    lastIndexOf x l = some i := by
  induction l generalizing i with
  | nil => simp at h
  | cons a rest ih =>
    cases i with
    | zero =>
      simp only [List.getElem?_cons_zero, Option.some.injEq] at h
      subst h
      have hnot : a ∉ rest := by
        intro hm
        have := List.count_pos_iff.mpr hm
        simp only [List.count_cons_self] at hc
        omega
      simp only [lastIndexOf, lastIndexOf_none a rest hnot, if_true]
    | succ k =>
      simp only [List.getElem?_cons_succ] at h
      have hm : x ∈ rest := List.mem_of_getElem? h
      have hpos := List.count_pos_iff.mpr hm
      have hc' : rest.count x ≤ 1 := by
        have := List.count_le_count_cons (a := x) (b := a) (l := rest)
        omega
      simp only [lastIndexOf, ih k hc' h]

/-- ids and selected score rows of a matched score: every row's id is found (by `decode_performance`'s dict, i.e.
    searching from the end) at the row's own index -/
theorem snoteIds_selectRows' (ss : List SRow) (rows : List MRow)
    (h : ∀ r ∈ rows, ∃ s, ss[r.sidx]? = some s ∧ lastIndexOf s.id (ss.map (·.id)) = some r.sidx) :
    ∃ info, snoteIds ss rows = some (info.map (·.id)) ∧ selectRows ss (info.map (·.id)) = some info ∧
      List.Forall₂ (fun (r : MRow) s => ss[r.sidx]? = some s) rows info := by
  induction rows with
  | nil => exact ⟨[], rfl, rfl, List.Forall₂.nil⟩
  | cons r rest ih =>
    obtain ⟨info, h1, h2, h3⟩ := ih (fun r hr => h r (List.mem_cons_of_mem _ hr))
    obtain ⟨s, hs, this⟩ := h r (by simp)
    refine ⟨s :: info, ?_, ?_, List.Forall₂.cons hs h3⟩
    · unfold snoteIds at h1 ⊢
      simp only [List.map_cons, allSome, hs, Option.map_some, h1]
    · unfold selectRows at h2 ⊢
      simp only [List.map_cons, allSome, this, Option.bind_some, hs, h2, Option.map_some]

/-- ids and selected score rows of a matched score over a score table with unique ids -/
theorem snoteIds_selectRows (ss : List SRow) (hnd : (ss.map (·.id)).Nodup) (rows : List MRow)
    (h : ∀ r ∈ rows, ∃ s, ss[r.sidx]? = some s) :
    ∃ info, snoteIds ss rows = some (info.map (·.id)) ∧ selectRows ss (info.map (·.id)) = some info ∧
      List.Forall₂ (fun (r : MRow) s => ss[r.sidx]? = some s) rows info := by
  apply snoteIds_selectRows'
  intro r hr
  obtain ⟨s, hs⟩ := h r hr
  exact ⟨s, hs, lastIndexOf_nodup _ _ _ hnd (by simp [hs])⟩


/-- the beat periods the tempo-curve method `m` yields for the matched notes `ns` -/
def tempoOf (m : Method) (ns : List MNote) : Option (List Rat) :=
  match m with
  | .average => tempoAverage ns (encGroups ns)
  | .derivative => tempoDerivative ns (encGroups ns)
  | .given bp => if bp.length = (encGroups ns).length then some bp else none

theorem encode_eq_given (m : Method) (n : Norm) (sd : Rat) (ns : List MNote) (bp : List Rat)
    (h : tempoOf m ns = some bp) (hlen : bp.length = (encGroups ns).length) :
    encode m n sd ns = encode (.given bp) n sd ns := by
  unfold encode
  cases m with
  | average => simp only [tempoOf] at h; simp only [h, hlen, if_true]
  | derivative => simp only [tempoOf] at h; simp only [h, hlen, if_true]
  | given bp' =>
    simp only [tempoOf] at h
    split at h
    · simp only [Option.some.injEq] at h; subst h; rfl
    · cases h

/-- the built-in tempo curves give positive beat periods, one per onset group -/
theorem tempoOf_pos (m : Method) (hm : m = .average ∨ m = .derivative) (ns : List MNote) (hne : ns ≠ [])
    (hsd : ∀ x ∈ ns, 0 ≤ x.sd) (hpd : ∀ x ∈ ns, 0 ≤ x.pd) :
    ∃ bp, tempoOf m ns = some bp ∧ bp.length = (encGroups ns).length ∧ ∀ b ∈ bp, 0 < b := by
  rcases hm with rfl | rfl
  · exact tempoAverage_pos ns hne hsd hpd
  · exact tempoDerivative_pos ns hne hsd hpd

def scaleRow (n : Norm) (sd m b : Rat) : List Rat :=
  match n with
  | .bp => [b]
  | .log => [b]
  | .ratio => [b / m, m]
  | .ratioLog => [b / m, m]
  | .std => [if sd = 0 then 0 else (b - m) / sd, m, sd]

theorem scale_eq_map (n : Norm) (sd : Rat) (bps : List Rat) : scale n sd bps = bps.map (scaleRow n sd (mean bps)) := by
  cases n <;> rfl

theorem mem_zip_map {α β : Type} (l : List α) (g : α → β) (a : α) (c : β) (h : (a, c) ∈ l.zip (l.map g)) : c = g a := by
  induction l with
  | nil => simp at h
  | cons x xs ih =>
    simp only [List.map_cons, List.zip_cons_cons, List.mem_cons, Prod.mk.injEq] at h
    rcases h with ⟨rfl, rfl⟩ | h
    · rfl
    · exact ih h

/-- the columns that the code stores as logarithms, read back through `F` (`2 ** log2 ·`) -/
def logCols (F : Rat → Rat) (n : Norm) (c : List Rat) : List Rat :=
  match n, c with
  | .log, [b] => [F b]
  | .ratioLog, [r, m] => [F r, m]
  | _, c => c

/-- what the decoder reads of an encoded row (time parameters, velocity) when the articulation
    ratio and the logarithmic tempo columns pass through `F` -/
def viaLog (F : Rat → Rat) (n : Norm) (p : TParam × Rat) : ParamRow :=
  ⟨p.1.timing, F p.1.ratio, logCols F n p.1.cols, p.2⟩

theorem logCols_scaleRow (F : Rat → Rat) (hF : ∀ r, 0 < r → F r = r) (n : Norm) (sd m b : Rat)
    (hb : 0 < b) (hm : 0 < m) : logCols F n (scaleRow n sd m b) = scaleRow n sd m b := by
  cases n <;> simp only [scaleRow, logCols]
  · rw [hF b hb]
  · rw [hF _ (div_pos hb hm)]

theorem artRatio_pos (b sd pd : Rat) (hb : 0 < b) (hpd : 0 < pd) : 0 < artRatio b sd pd := by
  unfold artRatio
  split
  · exact div_pos hb (by linarith)
  · rename_i h
    exact div_pos hpd (mul_pos hb (not_le.mp h))

theorem zipWith3_eq_zipWith_of_get {α β γ δ ε ζ : Type} (f : α → β → γ → δ) (g : ζ → ε → δ)
    (as : List α) (bs : List β) (cs : List γ) (ds : List ζ) (es : List ε)
    (hb : bs.length = as.length) (hc : cs.length = as.length) (hd : ds.length = as.length) (he : es.length = as.length)
    (h : ∀ k (h1 : k < as.length) (h2 : k < bs.length) (h3 : k < cs.length) (h4 : k < ds.length) (h5 : k < es.length),
      f as[k] bs[k] cs[k] = g ds[k] es[k]) :
    zipWith3 f as bs cs = List.zipWith g ds es := by
  induction as generalizing bs cs ds es with
  | nil =>
    have : ds = [] := List.length_eq_zero_iff.mp (by simpa using hd)
    subst this
    simp [zipWith3]
  | cons a as ih =>
    cases bs with
    | nil => simp at hb
    | cons b bs =>
      cases cs with
      | nil => simp at hc
      | cons c cs =>
        cases ds with
        | nil => simp at hd
        | cons d ds =>
          cases es with
          | nil => simp at he
          | cons e es =>
            simp only [zipWith3, List.zipWith_cons_cons, List.cons.injEq]
            refine ⟨h 0 (by simp) (by simp) (by simp) (by simp) (by simp), ?_⟩
            apply ih bs cs ds es (by simpa using hb) (by simpa using hc) (by simpa using hd) (by simpa using he)
            intro k h1 h2 h3 h4 h5
            exact h (k + 1) (by simp; omega) (by simp; omega) (by simp; omega) (by simp; omega) (by simp; omega)

/-- COMPOSITION.  For a matched score `rows` (built from the index pairs `pairs`, ordered by
    (onset_div, pitch)) over a score table with unique ids: `encode_performance` succeeds for both
    built-in tempo curves and every normalisation, and `decode_performance` applied to its output —
    the logarithmic columns passing through any `F` that is the identity on positive numbers —
    returns, in the order of the rows and under their score ids, performed onset minus the earliest
    performed onset, the (tabled) performed duration (0 for a note without score duration) and the
    velocity -/
theorem pipeline_roundtrip' (F : Rat → Rat) (hF : ∀ r, 0 < r → F r = r)
    (m : Method) (hm : m = .average ∨ m = .derivative) (n : Norm) (sd : Rat)
    (ss : List SRow) (ps : List PRow) (al : List ARow) (rows : List MRow) (pairs : List (Nat × Nat))
    (hrows : toMatchedScore ss ps al = some rows) (hne : rows ≠ [])
    (hpairs : List.Forall₂ (fun ij r => mkRow ss ps ij = some r) pairs rows)
    (hsorted : pairs.Pairwise (fun a b => lexLe (sKey ss a.1) (sKey ss b.1) = true))
    (hu : ∀ r ∈ rows, ∀ s, ss[r.sidx]? = some s → lastIndexOf s.id (ss.map (·.id)) = some r.sidx)
    (hsd : ∀ s ∈ ss, 0 ≤ s.sd) (hvel : ∀ p ∈ ps, 1 ≤ p.vel ∧ p.vel ≤ 127)
    (hstd : ∀ bp, tempoOf m (rows.map toMNote) = some bp → n = .std → sd * sd = variance bp) :
    ∃ params info, encodePerformance m n sd ss ps al = some (params, info.map (·.id)) ∧
      List.Forall₂ (fun (r : MRow) s => ss[r.sidx]? = some s) rows info ∧
      decodePerformance n ss (info.map (·.id)) (params.map (viaLog F n)) =
        some (List.zipWith (fun (s : SRow) (r : MRow) =>
          (s.id, r.po - minPo (rows.map toMNote), if r.sd = 0 then 0 else r.pd, r.vel)) info rows) := by
  -- the rows
  have hrow : ∀ r ∈ rows, ∃ (ij : Nat × Nat) (s : SRow) (p : PRow), ss[ij.1]? = some s ∧ ps[ij.2]? = some p ∧
      r = ⟨ij.1, s.so, s.sd, s.pitch, p.po, if clipDur > p.pd then clipDur else p.pd, p.vel⟩ := by
    intro r hr
    obtain ⟨ij, _, hmk⟩ := forall₂_mem_right hpairs hr
    obtain ⟨s, p, h1, h2, h3⟩ := mkRow_spec ss ps ij r hmk
    exact ⟨ij, s, p, h1, h2, h3⟩
  obtain ⟨ns, hns⟩ : ∃ ns, rows.map toMNote = ns := ⟨_, rfl⟩
  have hnsne : ns ≠ [] := by rw [← hns]; simpa using hne
  have hnsd : ∀ x ∈ ns, 0 ≤ x.sd := by
    intro x hx
    rw [← hns] at hx
    obtain ⟨r, hr, rfl⟩ := List.mem_map.mp hx
    obtain ⟨ij, s, p, h1, _, rfl⟩ := hrow r hr
    exact hsd s (List.mem_of_getElem? h1)
  have hnpd : ∀ x ∈ ns, 0 < x.pd := by
    intro x hx
    rw [← hns] at hx
    obtain ⟨r, hr, rfl⟩ := List.mem_map.mp hx
    obtain ⟨ij, s, p, _, _, rfl⟩ := hrow r hr
    exact clip_pos p.pd
  -- the tempo curve and the encoder
  rw [hns] at hstd
  obtain ⟨bp, hbp, hbplen, hbppos⟩ := tempoOf_pos m hm ns hnsne hnsd (fun x hx => le_of_lt (hnpd x hx))
  have henc := encode_eq_given m n sd ns bp hbp hbplen
  obtain ⟨tps, ht1, ht2, ht3⟩ := codec_roundtrip n sd ns bp hnsne hbplen hbppos hnsd
    (scale_rescale n sd bp hbppos (hstd bp hbp))
  have htrows := encode_given_rows n sd ns bp tps ht1
  -- ids and the decoder's score rows
  obtain ⟨info, hi1, hi2, hi3⟩ := snoteIds_selectRows' ss rows (by
    intro r hr
    obtain ⟨ij, s, p, h1, _, h3⟩ := hrow r hr
    have h1' : ss[r.sidx]? = some s := by rw [h3]; exact h1
    exact ⟨s, h1', hu r hr s h1'⟩)
  have hilen : info.length = rows.length := hi3.length_eq.symm
  have hnslen : ns.length = rows.length := by rw [← hns]; simp
  refine ⟨List.zipWith (fun t (r : MRow) => (t, encodeVel r.vel)) tps rows, info, ?_, hi3, ?_⟩
  · unfold encodePerformance
    rw [hrows]
    simp only [hns, henc, ht1, hi1]
  · -- the selected rows are ordered
    have hsortedInfo : info.Pairwise (fun a b => lexLe (a.odiv, a.pitch) (b.odiv, b.pitch) = true) := by
      have h12 : List.Forall₂ (fun (ij : Nat × Nat) (s : SRow) => ss[ij.1]? = some s) pairs info := by
        rw [List.forall₂_iff_get]
        have l1 := hpairs.length_eq
        refine ⟨by omega, ?_⟩
        intro k h1 h2
        have hr : k < rows.length := by omega
        have a1 := (List.forall₂_iff_get.mp hpairs).2 k h1 hr
        have a2 := (List.forall₂_iff_get.mp hi3).2 k hr h2
        obtain ⟨s, p, b1, _, b3⟩ := mkRow_spec ss ps _ _ a1
        have : (rows.get ⟨k, hr⟩).sidx = (pairs.get ⟨k, h1⟩).1 := by rw [b3]
        rw [this] at a2
        exact a2
      apply pairwise_of_forall₂ _ _ _ _ h12 hsorted
      intro a a' b b' hab hab' hP
      simp only [sKey, hab, hab'] at hP
      exact hP
    have hplen : (List.map (viaLog F n) (List.zipWith (fun t (r : MRow) => (t, encodeVel r.vel)) tps rows)).length
        = info.length := by
      simp [ht2, hnslen, hilen]
    rw [decodePerformance_sorted n ss _ _ info hi2 hplen.symm hsortedInfo]
    -- the decoder's rows are the encoder's notes with their parameters
    have hD : List.zipWith mkDRow info (List.map (viaLog F n) (List.zipWith (fun t (r : MRow) => (t, encodeVel r.vel)) tps rows))
        = List.zipWith toDRow ns tps := by
      apply List.ext_getElem
      · simp [ht2, hnslen, hilen]
      · intro k h1 h2
        have hk : k < rows.length := by
          simp only [List.length_zipWith, List.length_map] at h1
          omega
        have hki : k < info.length := by omega
        have hkt : k < tps.length := by omega
        have hkn : k < ns.length := by omega
        simp only [List.getElem_zipWith, List.getElem_map]
        have hs := (List.forall₂_iff_get.mp hi3).2 k hk hki
        simp only [List.get_eq_getElem] at hs
        obtain ⟨ij, s, p, c1, _, c3⟩ := hrow rows[k] (List.getElem_mem hk)
        have hse : info[k] = s := by
          rw [c3] at hs
          simp only at hs
          rw [c1] at hs
          exact (Option.some.inj hs).symm
        have hnk : ns[k] = toMNote rows[k] := by simp [← hns]
        obtain ⟨b, c, e, hbc, htp⟩ := (List.forall₂_iff_get.mp htrows).2 k hkn hkt
        simp only [List.get_eq_getElem] at htp
        have hb : 0 < b := hbppos b (List.of_mem_zip hbc).1
        have hc : c = scaleRow n sd (mean bp) b := by
          rw [scale_eq_map] at hbc
          exact mem_zip_map bp _ b c hbc
        have hbpne : bp ≠ [] := by
          intro h0; rw [h0] at hbc; simp at hbc
        have hmean : 0 < mean bp := mean_pos bp hbpne hbppos
        have hpdk : 0 < ns[k].pd := hnpd _ (List.getElem_mem hkn)
        simp only [mkDRow, viaLog, toDRow, htp, hse, hnk]
        rw [hF _ (artRatio_pos b _ _ hb (by rw [hnk] at hpdk; exact hpdk)), hc,
          logCols_scaleRow F hF n sd (mean bp) b hb hmean, c3]
        simp [toMNote]
    rw [hD, ht3]
    simp only [Option.map_some, Option.some.injEq]
    apply zipWith3_eq_zipWith_of_get
    · simp [hnslen, hilen]
    · simp [ht2, hnslen, hilen]
    · simp
    · simp [hilen]
    · intro k h1 h2 h3 h4 h5
      simp only [List.getElem_map, List.getElem_zipWith, viaLog]
      have hnk : ns[k]'(by simpa using h2) = toMNote rows[k] := by simp [← hns]
      obtain ⟨ij, s, p, _, c2, c3⟩ := hrow rows[k] (List.getElem_mem h5)
      have hv := hvel p (List.mem_of_getElem? c2)
      have hvr : (rows[k]).vel = p.vel := by rw [c3]
      have : decodeVel (encodeVel (rows[k]).vel) = (rows[k]).vel := by
        rw [hvr]
        unfold decodeVel encodeVel
        have e : (p.vel : Rat) / 127 * 127 = (p.vel : Rat) := by field_simp
        rw [e, Round.roundHalfEven_int]
        unfold clipInt
        rw [if_neg (by omega), if_neg (by omega)]
      rw [this, hnk, hns]
      by_cases h0 : (rows[k]).sd = 0 <;> simp [toMNote, h0]

/-- the same over a score table with unique ids -/
theorem pipeline_roundtrip (F : Rat → Rat) (hF : ∀ r, 0 < r → F r = r)
    (m : Method) (hm : m = .average ∨ m = .derivative) (n : Norm) (sd : Rat)
    (ss : List SRow) (ps : List PRow) (al : List ARow) (rows : List MRow) (pairs : List (Nat × Nat))
    (hrows : toMatchedScore ss ps al = some rows) (hne : rows ≠ [])
    (hpairs : List.Forall₂ (fun ij r => mkRow ss ps ij = some r) pairs rows)
    (hsorted : pairs.Pairwise (fun a b => lexLe (sKey ss a.1) (sKey ss b.1) = true))
    (hnd : (ss.map (·.id)).Nodup) (hsd : ∀ s ∈ ss, 0 ≤ s.sd) (hvel : ∀ p ∈ ps, 1 ≤ p.vel ∧ p.vel ≤ 127)
    (hstd : ∀ bp, tempoOf m (rows.map toMNote) = some bp → n = .std → sd * sd = variance bp) :
    ∃ params info, encodePerformance m n sd ss ps al = some (params, info.map (·.id)) ∧
      List.Forall₂ (fun (r : MRow) s => ss[r.sidx]? = some s) rows info ∧
      decodePerformance n ss (info.map (·.id)) (params.map (viaLog F n)) =
        some (List.zipWith (fun (s : SRow) (r : MRow) =>
          (s.id, r.po - minPo (rows.map toMNote), if r.sd = 0 then 0 else r.pd, r.vel)) info rows) :=
  pipeline_roundtrip' F hF m hm n sd ss ps al rows pairs hrows hne hpairs hsorted
    (fun _ _ s hs => lastIndexOf_nodup _ _ _ hnd (by simp [hs])) hsd hvel hstd

-- ------------------------------------------------------------------ ids of the decoded notes

theorem lastIndexOf_get (x : String) (l : List String) (i : Nat) (h : lastIndexOf x l = some i) : l[i]? = some x := by
  induction l generalizing i with
  | nil => simp [lastIndexOf] at h
  | cons a rest ih =>
    simp only [lastIndexOf] at h
    split at h
    · rename_i k hk
      simp only [Option.some.injEq] at h
      subst h
      simpa using ih k hk
    · split at h
      · rename_i hax
        simp only [Option.some.injEq] at h
        subst h
        simp [hax]
      · cases h

theorem indexOf_get' (x : String) (l : List String) (i : Nat) (h : indexOf x l = some i) : l[i]? = some x := by
  induction l generalizing i with
  | nil => simp [indexOf] at h
  | cons a rest ih =>
    simp only [indexOf] at h
    split at h
    · rename_i hax
      simp only [Option.some.injEq] at h
      subst h
      simp [hax]
    · cases hr : indexOf x rest with
      | none => rw [hr] at h; simp at h
      | some k =>
        rw [hr] at h
        simp only [Option.map_some, Option.some.injEq] at h
        subst h
        simpa using ih k hr

theorem map_getElem?_some {α β : Type} (f : α → β) (l : List α) (i : Nat) (y : β) (h : (l.map f)[i]? = some y) :
    ∃ a, l[i]? = some a ∧ f a = y := by
  rw [List.getElem?_map] at h
  cases ha : l[i]? with
  | none => rw [ha] at h; simp at h
  | some a => rw [ha] at h; exact ⟨a, rfl, by simpa using h⟩

/-- every selected row carries the id it was selected for -/
theorem selectRows_spec (ss : List SRow) (ids : List String) (info : List SRow) (h : selectRows ss ids = some info) :
    List.Forall₂ (fun id (s : SRow) => s ∈ ss ∧ s.id = id) ids info := by
  unfold selectRows at h
  rw [allSome_eq_some] at h
  induction ids generalizing info with
  | nil =>
    cases info with
    | nil => exact List.Forall₂.nil
    | cons _ _ => simp at h
  | cons id rest ih =>
    cases info with
    | nil => simp at h
    | cons s info' =>
      simp only [List.map_cons, List.cons.injEq] at h
      refine List.Forall₂.cons ?_ (ih info' h.2)
      have h1 := h.1
      cases hi : lastIndexOf id (ss.map (·.id)) with
      | none => rw [hi] at h1; simp at h1
      | some i =>
        rw [hi] at h1
        simp only [Option.bind_some] at h1
        obtain ⟨a, ha, hid⟩ := map_getElem?_some _ _ _ _ (lastIndexOf_get _ _ _ hi)
        rw [ha] at h1
        cases h1
        exact ⟨List.mem_of_getElem? ha, hid⟩

theorem scatter_length {β : Type} (n : Nat) (T : List (Nat × β)) (l : List β) (h : scatter n T = some l) : l.length = n := by
  unfold scatter at h
  rw [allSome_eq_some] at h
  have := congrArg List.length h
  simpa using this.symm

theorem shiftMin_length (l : List (Rat × Rat)) : (shiftMin l).length = l.length := by
  cases l with
  | nil => rfl
  | cons a rest => obtain ⟨o, d⟩ := a; simp [shiftMin]

theorem decodeTime_length (n : Norm) (rs : List DRow) (l : List (Rat × Rat)) (h : decodeTime n rs = some l) :
    l.length = rs.length := by
  unfold decodeTime at h
  simp only at h
  split at h
  · split at h
    · rename_i l' hl'
      simp only [Option.some.injEq] at h
      rw [← h, shiftMin_length]
      exact scatter_length _ _ _ hl'
    · cases h
  · cases h

theorem zipWith3_map_fst {β γ δ : Type} (f : β → γ → δ) (as : List String) (bs : List β) (cs : List γ)
    (hb : bs.length = as.length) (hc : cs.length = as.length) :
    (zipWith3 (fun a b c => (a, f b c)) as bs cs).map Prod.fst = as := by
  induction as generalizing bs cs with
  | nil => simp [zipWith3]
  | cons a as ih =>
    cases bs with
    | nil => simp at hb
    | cons b bs =>
      cases cs with
      | nil => simp at hc
      | cons c cs =>
        simp only [zipWith3, List.map_cons, List.cons.injEq, true_and]
        exact ih bs cs (by simpa using hb) (by simpa using hc)

theorem selectRows_length (ss : List SRow) (ids : List String) (info : List SRow) (h : selectRows ss ids = some info) :
    info.length = ids.length := (selectRows_spec ss ids info h).length_eq.symm

/-- the ids of the decoded notes are `snote_ids`, in order -/
theorem decodePerformance_ids (n : Norm) (ss : List SRow) (ids : List String) (ps : List ParamRow)
    (info : List SRow) (hinfo : selectRows ss ids = some info) (hlen : info.length = ps.length)
    (hsorted : info.Pairwise (fun a b => lexLe (a.odiv, a.pitch) (b.odiv, b.pitch) = true))
    (out : List (String × Rat × Rat × Int)) (h : decodePerformance n ss ids ps = some out) :
    out.map Prod.fst = ids := by
  rw [decodePerformance_sorted n ss ids ps info hinfo hlen hsorted] at h
  cases hd : decodeTime n (List.zipWith mkDRow info ps) with
  | none => rw [hd] at h; simp at h
  | some od =>
    rw [hd] at h
    simp only [Option.map_some, Option.some.injEq] at h
    have hodl := decodeTime_length _ _ _ hd
    have hil := selectRows_length ss ids info hinfo
    rw [← h]
    exact zipWith3_map_fst (fun (x : Rat × Rat) (p : ParamRow) => (x.1, x.2, decodeVel p.vel)) ids od ps
      (by rw [hodl]; simp; omega) (by omega)

-- ------------------------------------------------------------------ time maps from an alignment

/-- the pairs of `get_matched_notes` index existing rows -/
theorem matchedNotes_rows (ss : List SRow) (ps : List PRow) (al : List ARow) :
    ∀ ij ∈ matchedNotes ss ps al, ∃ s p, ss[ij.1]? = some s ∧ ps[ij.2]? = some p := by
  intro ij hij
  obtain ⟨i, j⟩ := ij
  obtain ⟨a, _, _, sid, pid, _, _, hi, hj⟩ := (mem_matchedNotes ss ps al i j).mp hij
  obtain ⟨s, hs, _⟩ := map_getElem?_some _ _ _ _ (indexOf_get' _ _ _ hi)
  obtain ⟨p, hp, _⟩ := map_getElem?_some _ _ _ _ (indexOf_get' _ _ _ hj)
  exact ⟨s, p, hs, hp⟩

/-- `get_time_maps_from_alignment` reads, for every pair of `get_matched_notes` (in that order), the
    score onset and duration and the performed onset; it never fails -/
theorem timeMapRows_spec (ss : List SRow) (ps : List PRow) (al : List ARow) :
    ∃ rows, timeMapRows ss ps al = some rows ∧
      List.Forall₂ (fun (ij : Nat × Nat) (r : TRow) => ∃ s p, ss[ij.1]? = some s ∧ ps[ij.2]? = some p ∧
        r = (s.so, s.sd, p.po)) (matchedNotes ss ps al) rows := by
  unfold timeMapRows
  have h := matchedNotes_rows ss ps al
  generalize matchedNotes ss ps al = l at h
  induction l with
  | nil => exact ⟨[], rfl, List.Forall₂.nil⟩
  | cons ij rest ih =>
    obtain ⟨rows, h1, h2⟩ := ih (fun x hx => h x (List.mem_cons_of_mem _ hx))
    obtain ⟨s, p, hs, hp⟩ := h ij (by simp)
    refine ⟨(s.so, s.sd, p.po) :: rows, ?_, List.Forall₂.cons ⟨s, p, hs, hp, rfl⟩ h2⟩
    simp only [List.map_cons, allSome, hs, hp, h1, Option.map_some]

-- ------------------------------------------------------------------ monotonize_times

/-- `monotonize_times` with at least two kept points: the output is strictly increasing and agrees
    with the input at every kept point -/
theorem monotonize_strict (xs ss : List Rat) (hx : xs.Pairwise (· < ·)) (hlen : xs.length = ss.length)
    (h2 : 2 ≤ (monoKnots (xs.zip ss)).length) :
    ∃ mono, monotonize xs ss = some mono ∧ mono.length = xs.length ∧ mono.Pairwise (· < ·) ∧
      List.Forall₂ (fun (k : Rat × Rat) y => k ∈ monoKnots (xs.zip ss) → y = k.2) (xs.zip ss) mono := by
  obtain ⟨ks, hks⟩ : ∃ ks, monoKnots (xs.zip ss) = ks := ⟨_, rfl⟩
  have hkx : IncX ks := by rw [← hks]; exact monoKnots_incX _ (zip_incX _ _ hx)
  have hky : IncY ks := by rw [← hks]; exact monoKnots_incY _
  rw [hks] at h2 ⊢
  obtain ⟨k0, k1, kt, hk⟩ := exists_two_of_length ks h2
  have hfun : monoFun xs ss = interpExt ks := by
    unfold monoFun
    rw [hks, sortKnots_of_incX ks hkx]
  have hkx' := hkx
  rw [hk] at hkx hky
  obtain ⟨mono, hm1, hm2, hm3⟩ := allSome_map_strictMono (interpExt (k0 :: k1 :: kt))
    (interpExt_strictMono kt k0 k1 hkx hky) xs hx
  have hml : xs.length = mono.length := hm2.length_eq
  refine ⟨mono, ?_, hml.symm, hm3, ?_⟩
  · unfold monotonize; rw [hfun, hk]; exact hm1
  · rw [List.forall₂_iff_get]
    refine ⟨by simp [List.length_zip]; omega, ?_⟩
    intro i h1 h2' hmem
    simp only [List.get_eq_getElem, List.getElem_zip] at hmem ⊢
    have hxi : i < xs.length := by simp [List.length_zip] at h1; omega
    have := (List.forall₂_iff_get.mp hm2).2 i hxi h2'
    simp only [List.get_eq_getElem] at this
    rw [← hk] at this
    rw [interpExt_knot ks hkx' _ _ hmem] at this
    exact (Option.some.inj this).symm

/-- `monotonize_times` when no point exceeds the first: a constant -/
theorem monotonize_const (xs ss : List Rat) (k0 : Rat × Rat) (h : monoKnots (xs.zip ss) = [k0]) :
    monotonize xs ss = some (xs.map fun _ => k0.2) := by
  unfold monotonize monoFun
  rw [h]
  have : sortKnots [k0] = [k0] := by simp [sortKnots, isort, insertBy]
  rw [this, allSome_eq_some, List.map_map]
  apply List.map_congr_left
  intro x _
  obtain ⟨a, b⟩ := k0
  simp [interpExt]

end C18P
